import DinoProofs.Lemmas.Implicit
import DinoProofs.Properties.C13
import Dino.Imex
import Mathlib.Algebra.Order.Field.Basic
import Mathlib.Tactic.Positivity
import Mathlib.Tactic.LinearCombination

/-!
# C03 — the implicit solve is the exact resolvent of `1 - η·L`
-/
namespace Dino.C03
open Dino.Sigma Dino.Implicit

variable {K : Type} [Field K]

/-! ## T3.1 shallow water -/

/-- the Schur-complement solve undoes `x ↦ x - η·L x`, for every step size of either sign -/
theorem swInverse_oneMinus (eta lam phi d p : K) (h : 1 - eta * eta * phi * lam ≠ 0) :
    swInverse eta lam phi (swOneMinus eta lam phi d p).1 (swOneMinus eta lam phi d p).2 = (d, p) := by
  simp only [swInverse, swOneMinus, swImplicit, one_div]
  have hs : (1 - eta * eta * phi * lam)⁻¹ * (1 - eta * eta * phi * lam) = 1 := inv_mul_cancel₀ h
  generalize (1 - eta * eta * phi * lam)⁻¹ = s at hs
  ext
  · show s * _ = d
    linear_combination d * hs
  · show s * _ = p
    linear_combination p * hs

/-- and it is a right inverse as well -/
theorem swOneMinus_inverse (eta lam phi d p : K) (h : 1 - eta * eta * phi * lam ≠ 0) :
    swOneMinus eta lam phi (swInverse eta lam phi d p).1 (swInverse eta lam phi d p).2 = (d, p) := by
  simp only [swInverse, swOneMinus, swImplicit, one_div]
  have hs : (1 - eta * eta * phi * lam)⁻¹ * (1 - eta * eta * phi * lam) = 1 := inv_mul_cancel₀ h
  generalize (1 - eta * eta * phi * lam)⁻¹ = s at hs
  ext
  · show _ = d
    linear_combination d * hs
  · show _ = p
    linear_combination p * hs

/-- the denominator never vanishes for a non-negative reference potential and the (non-positive)
 Laplacian eigenvalues, whatever the sign or size of the step -/
theorem sw_denominator_pos [LinearOrder K] [IsStrictOrderedRing K] (eta lam phi : K)
    (hphi : 0 ≤ phi) (hlam : lam ≤ 0) : 1 ≤ 1 - eta * eta * phi * lam := by
  have h1 : 0 ≤ eta * eta := mul_self_nonneg eta
  have h2 : eta * eta * phi * lam ≤ 0 :=
    mul_nonpos_of_nonneg_of_nonpos (mul_nonneg h1 hphi) hlam
  linarith


/-! ## T3.2 the block matrix is `1 - η·L`, for every layer count -/

/-- shape hypotheses of one column problem with `n` layers -/
structure Shaped (n : Nat) (ds T : List K) (g h : List (List K)) (x : Col K) : Prop where
  lds : ds.length = n
  lT : T.length = n
  lg : g.length = n
  lh : h.length = n
  grow : ∀ r ∈ g, r.length = n
  hrow : ∀ r ∈ h, r.length = n
  ld : x.d.length = n
  lt : x.t.length = n

theorem getD_eq {α : Type} (l : List α) (i : Nat) (d : α) (h : i < l.length) : l.getD i d = l[i] := by
  simp [List.getD_eq_getElem?_getD, List.getElem?_eq_getElem h]

variable (n : Nat) (eta lam R : K) (ds T : List K) (g h : List (List K)) (x : Col K)

theorem rows_div (hs : Shaped n ds T g h x) :
    (List.range n).map (fun j => dot (eyeRow n j ++ (g.getD j []).map (fun v => eta * (lam * v))
        ++ [eta * R * (lam * T.getD j 0)]) (x.d ++ x.t ++ [x.p]))
      = subv x.d (smul eta ((addv (matvec g x.t) (T.map fun tr => R * tr * x.p)).map
          fun v => -(v * lam))) := by
  obtain ⟨hds, hT, hg, hh, hgrow, hhrow, hd, ht⟩ := hs
  apply List.ext_getElem
  · simp [subv, smul, addv, matvec, hd, hg, hT]
  · intro j h1 h2
    have hj : j < n := by simpa using h1
    have hgj : (g.getD j []).length = n := by
      rw [getD_eq _ _ _ (by omega)]; exact hgrow _ (List.getElem_mem _)
    simp only [List.getElem_map, List.getElem_range]
    rw [List.append_assoc, List.append_assoc, dot_append _ _ _ _ (by simp [eyeRow, hd]),
      dot_append _ _ _ _ (by rw [List.length_map, hgj, ht]), dot_eyeRow n j x.d hd hj,
      dot_map_mul2, dot_singleton]
    simp only [subv, smul, addv, matvec, List.getElem_zipWith, List.getElem_map]
    rw [getD_eq _ _ _ (by omega), getD_eq _ _ _ (by omega), getD_eq _ _ _ (by omega)]
    simp only [dot]
    ring

theorem rows_temp (hs : Shaped n ds T g h x) :
    (List.range n).map (fun j => dot ((h.getD j []).map (fun v => eta * v) ++ eyeRow n j ++ [0])
        (x.d ++ x.t ++ [x.p]))
      = subv x.t (smul eta (tempImplicitDense h x.d)) := by
  obtain ⟨hds, hT, hg, hh, hgrow, hhrow, hd, ht⟩ := hs
  apply List.ext_getElem
  · simp [subv, smul, tempImplicitDense, matvec, negMat, ht, hh]
  · intro j h1 h2
    have hj : j < n := by simpa using h1
    have hhj : (h.getD j []).length = n := by
      rw [getD_eq _ _ _ (by omega)]; exact hhrow _ (List.getElem_mem _)
    simp only [List.getElem_map, List.getElem_range]
    rw [List.append_assoc, List.append_assoc, dot_append _ _ _ _ (by rw [List.length_map, hhj, hd]),
      dot_append _ _ _ _ (by simp [eyeRow, ht]), dot_eyeRow n j x.t ht hj, dot_map_mul,
      dot_singleton]
    simp only [subv, smul, tempImplicitDense, matvec, negMat, List.getElem_zipWith,
      List.getElem_map]
    rw [getD_eq _ _ _ (by omega), getD_eq _ _ _ (by omega)]
    have := dot_neg_left h[j] x.d
    simp only [dot] at this ⊢
    rw [this]
    ring

theorem row_logp (hs : Shaped n ds T g h x) :
    dot (ds.map (fun v => eta * v) ++ zeros n ++ [1]) (x.d ++ x.t ++ [x.p])
      = x.p - eta * -((mulv ds x.d).sum) := by
  obtain ⟨hds, hT, hg, hh, hgrow, hhrow, hd, ht⟩ := hs
  rw [List.append_assoc, List.append_assoc, dot_append _ _ _ _ (by simp [hds, hd]),
    dot_append _ _ _ _ (by simp [zeros, ht]), dot_map_mul, dot_zeros, dot_singleton]
  simp only [dot]
  ring

/-- `_get_implicit_term_matrix(η)` applied to the stacked column state is the stacked
 `x - η·implicit_terms(x)` (with the dense vertical products), for every layer count `n`. -/
theorem implicitMatrix_mul_eq_oneMinus (hs : Shaped n ds T g h x) :
    matvec (implicitMatrix eta lam R ds T g h) (stack x)
      = stack (oneMinus eta (implicitTerms lam R ds T (matvec g) (tempImplicitDense h)) x) := by
  have hn : ds.length = n := hs.lds
  unfold implicitMatrix
  simp only [matvec_eq_map_dot, List.map_append, List.map_map, List.map_cons, List.map_nil,
    Function.comp_def, hn]
  simp only [stack, oneMinus, implicitTerms]
  rw [rows_div n eta lam R ds T g h x hs, rows_temp n eta ds T g h x hs,
    row_logp n eta ds T g h x hs]


/-! ## T3.3 / T3.6 the solve strategies -/

omit eta lam R ds T g h in
/-- `method='split'` (nine block products) = `method='stacked'` (one product), for every matrix
 of the right shape: block decomposition of a matrix–vector product. -/
theorem inverseSplit_eq_inverseStacked (minv : List (List K))
    (hx : x.t.length = x.d.length) (hn : x.d.length = n)
    (hm : minv.length = 2 * n + 1) (hrow : ∀ r ∈ minv, r.length = 2 * n + 1) :
    inverseSplit minv x = inverseStacked minv x := by
  have ht : x.t.length = n := by omega
  have key : ∀ r ∈ minv, dot r (stack x)
      = dot ((r.drop 0).take n) x.d + dot ((r.drop n).take n) x.t
        + dot ((r.drop (2 * n)).take 1) [x.p] := by
    intro r hr
    exact dot_split3 n r x.d x.t x.p hn ht (hrow r hr)
  have rows : ∀ (r0 nr : Nat),
      addv (addv (matvec (block minv r0 nr 0 n) x.d) (matvec (block minv r0 nr n n) x.t))
        (matvec (block minv r0 nr (2 * n) 1) [x.p])
      = ((minv.drop r0).take nr).map fun r => dot r (stack x) := by
    intro r0 nr
    simp only [block, matvec_eq_map_dot, List.map_map, addv, List.zipWith_map_left,
      List.zipWith_map_right, List.zipWith_self, Function.comp_def]
    apply List.map_congr_left
    intro r hr
    rw [key r (List.mem_of_mem_drop (List.mem_of_mem_take hr))]
  simp only [inverseSplit, inverseStacked, unstack, hn]
  rw [rows 0 n, rows n n, rows (2 * n) 1]
  simp only [matvec_eq_map_dot, List.drop_zero, List.map_take, List.map_drop]
  congr 1
  cases List.drop (2 * n) (List.map (fun r => dot r (stack x)) minv) <;> rfl

omit eta lam R ds T g h in
/-- T3.6: whatever matrix the external inversion returns, if it is a left inverse of the
 implicit matrix `M` (as an action on vectors), the stacked solve applied to `M·stack x`
 returns `x`. -/
theorem inverseStacked_leftInverse (m minv : List (List K))
    (hx : x.t.length = x.d.length) (hn : x.d.length = n)
    (hinv : ∀ v : List K, v.length = 2 * n + 1 → matvec minv (matvec m v) = v)
    (y : Col K) (hy : stack y = matvec m (stack x)) (hyd : y.d.length = n) :
    inverseStacked minv y = x := by
  unfold inverseStacked
  rw [hy, hinv _ (by rw [stack_length]; omega), hyd, ← hn]
  exact unstack_stack x hx

/-- **The resolvent theorem for the primitive equations** (dense vertical products, strategies
 `split` and `stacked`): for every layer count, level set, reference profile, step size of
 either sign and column state, if the externally computed `minv` is a left inverse of the
 implicit matrix, then `implicit_inverse(x - η·implicit_terms(x)) = x`. -/
theorem primitive_resolvent (hs : Shaped n ds T g h x) (minv : List (List K))
    (hm : minv.length = 2 * n + 1) (hrow : ∀ r ∈ minv, r.length = 2 * n + 1)
    (hinv : ∀ v : List K, v.length = 2 * n + 1 →
      matvec minv (matvec (implicitMatrix eta lam R ds T g h) v) = v) :
    let y := oneMinus eta (implicitTerms lam R ds T (matvec g) (tempImplicitDense h)) x
    inverseStacked minv y = x ∧ inverseSplit minv y = x := by
  intro y
  have hyd : y.d.length = n := by
    simp [y, oneMinus, implicitTerms, subv, smul, addv, matvec, hs.ld, hs.lg, hs.lT]
  have hyt : y.t.length = n := by
    simp [y, oneMinus, implicitTerms, subv, smul, tempImplicitDense, matvec, negMat, hs.lt, hs.lh]
  have hxt : x.t.length = x.d.length := by rw [hs.lt, hs.ld]
  have h1 : inverseStacked minv y = x :=
    inverseStacked_leftInverse n x (implicitMatrix eta lam R ds T g h) minv hxt hs.ld hinv y
      (implicitMatrix_mul_eq_oneMinus n eta lam R ds T g h x hs).symm hyd
  refine ⟨h1, ?_⟩
  rw [inverseSplit_eq_inverseStacked n y minv (by omega) hyd hm hrow, h1]


/-! ### `method='blockwise'` -/

/-- action of the upper-right block `G̃ = [ηλg, ηx]` on `(t, p)` as the code computes it -/
def gAct (eta lam : K) (m : List (List K)) (gop : List K → List K) (n : Nat) (t : List K) (p : K) :
    List K :=
  addv ((gop t).map fun v => eta * lam * v) (matvec (block m 0 n (2 * n) 1) [p])

/-- action of the lower-left block `H̃ = [ηh; ηy]` on `d` -/
def hActT (eta : K) (hopNeg : List K → List K) (d : List K) : List K := smul eta (hopNeg d)
def hActP (m : List (List K)) (n : Nat) (d : List K) : K := (matvec (block m (2 * n) 1 0 n) d).headD 0

/-- the `(n+1)`-dimensional solve with the blocks of `tpInv`, as the code applies it -/
def tpApply (n : Nat) (tpInv : List (List K)) (t : List K) (p : K) : List K × K :=
  (addv (matvec (block tpInv 0 n 0 n) t) (matvec (block tpInv 0 n n 1) [p]),
   (addv (matvec (block tpInv n 1 0 n) t) (matvec (block tpInv n 1 n 1) [p])).headD 0)

omit ds T g h R in
/-- **Block-wise solve, abstract 2×2 block lemma** (any matrix `m`; the connection to
 `x - η·implicit_terms(x)` and to the two matrices the code hands to `numpy.linalg.inv` is made by
 `oneMinus_eq_blockForm`, `blockwiseDivMatrix_matvec`, `blockwiseTpMatrix_matvec` and concluded in
 `blockwise_is_resolvent` below).  Write `1 - ηL = [[I, G̃],[H̃, I]]`.  If the two externally inverted
 matrices are left inverses of `I - G̃H̃` and `I - H̃G̃` (as actions), and the block actions are
 additive, then the block-wise strategy applied to `(d + G̃(t,p), (t,p) + H̃ d)` returns
 `(d, t, p)`: it is the exact resolvent, for every layer count. -/
theorem inverseBlockwise_resolvent (m divInv tpInv : List (List K)) (gop hopNeg : List K → List K)
    (hd : x.d.length = n) (ht : x.t.length = n)
    (hgl : ∀ t p, (gAct eta lam m gop n t p).length = n)
    (hhl : ∀ d, (hActT eta hopNeg d).length = n)
    (hGadd : ∀ t1 t2 p1 p2, t1.length = n → t2.length = n →
      gAct eta lam m gop n (addv t1 t2) (p1 + p2)
        = addv (gAct eta lam m gop n t1 p1) (gAct eta lam m gop n t2 p2))
    (hHTadd : ∀ d1 d2, d1.length = n → d2.length = n →
      hActT eta hopNeg (addv d1 d2) = addv (hActT eta hopNeg d1) (hActT eta hopNeg d2))
    (hHPadd : ∀ d1 d2, d1.length = n → d2.length = n →
      hActP m n (addv d1 d2) = hActP m n d1 + hActP m n d2)
    (hA : ∀ d, d.length = n →
      matvec divInv (subv d (gAct eta lam m gop n (hActT eta hopNeg d) (hActP m n d))) = d)
    (hB : ∀ t p, t.length = n →
      tpApply n tpInv (subv t (hActT eta hopNeg (gAct eta lam m gop n t p)))
        (p - hActP m n (gAct eta lam m gop n t p)) = (t, p)) :
    inverseBlockwise eta lam m divInv tpInv gop hopNeg
        ⟨addv x.d (gAct eta lam m gop n x.t x.p), addv x.t (hActT eta hopNeg x.d), x.p + hActP m n x.d⟩
      = x := by
  have hgx := hgl x.t x.p
  have hhx := hhl x.d
  have hlen : (addv x.d (gAct eta lam m gop n x.t x.p)).length = n := by simp [addv, hd, hgx]
  -- divergence
  have hdiv : matvec divInv (subv (subv (addv x.d (gAct eta lam m gop n x.t x.p))
        ((gop (addv x.t (hActT eta hopNeg x.d))).map fun v => eta * lam * v))
        (matvec (block m 0 n (2 * n) 1) [x.p + hActP m n x.d])) = x.d := by
    rw [subv_subv]
    have : addv ((gop (addv x.t (hActT eta hopNeg x.d))).map fun v => eta * lam * v)
        (matvec (block m 0 n (2 * n) 1) [x.p + hActP m n x.d])
        = gAct eta lam m gop n (addv x.t (hActT eta hopNeg x.d)) (x.p + hActP m n x.d) := rfl
    rw [this, hGadd _ _ _ _ ht hhx, subv_addv_cancel _ _ _ (by rw [hgx, hd]) (by rw [hgl, hd])]
    exact hA x.d hd
  -- temperature and surface pressure
  have hT1 : subv (addv x.t (hActT eta hopNeg x.d))
      (smul eta (hopNeg (addv x.d (gAct eta lam m gop n x.t x.p))))
      = subv x.t (hActT eta hopNeg (gAct eta lam m gop n x.t x.p)) := by
    have : smul eta (hopNeg (addv x.d (gAct eta lam m gop n x.t x.p)))
        = hActT eta hopNeg (addv x.d (gAct eta lam m gop n x.t x.p)) := rfl
    rw [this, hHTadd _ _ hd hgx, subv_addv_cancel _ _ _ (by rw [hhx, ht]) (by rw [hhl, ht])]
  have hP1 : x.p + hActP m n x.d
      - (matvec (block m (2 * n) 1 0 n) (addv x.d (gAct eta lam m gop n x.t x.p))).headD 0
      = x.p - hActP m n (gAct eta lam m gop n x.t x.p) := by
    have : (matvec (block m (2 * n) 1 0 n) (addv x.d (gAct eta lam m gop n x.t x.p))).headD 0
        = hActP m n (addv x.d (gAct eta lam m gop n x.t x.p)) := rfl
    rw [this, hHPadd _ _ hd hgx]; ring
  have hB' := hB x.t x.p ht
  simp only [tpApply, Prod.mk.injEq] at hB'
  cases x with
  | mk d t p =>
    simp only [inverseBlockwise, hlen] at hdiv hT1 hP1 hB' ⊢
    rw [hdiv, hT1, hP1, hB'.1, hB'.2]


/-! ## T3.5 witnesses: the repaired cumulative-sum `H` agrees with the dense one on an uneven
 3-layer column where the code before the repair did not (exact rational arithmetic).
 The general statement (every layer count) is `tempImplicitSparse_eq_dense` below. -/

section witness
def wDs : List Rat := [1 / 10, 2 / 5, 1 / 2]
def wT : List Rat := [200, 250, 300]
def wAl : List Rat := [1 / 3, 1 / 4, 1 / 5]
def wNz (x : Rat) : Bool := x != 0

theorem sparse_eq_dense_witness :
    tempImplicitSparse wNz wDs (hMatrix wDs wT wAl (2 / 7)) [1, 2, 3]
      = tempImplicitDense (hMatrix wDs wT wAl (2 / 7)) [1, 2, 3] := by decide +kernel

/-- negative witness: the pre-repair sparse form differs from the dense product on uneven levels -/
theorem sparseOld_ne_dense :
    tempImplicitSparseOld wNz (hMatrix wDs wT wAl (2 / 7)) [1, 2, 3]
      ≠ tempImplicitDense (hMatrix wDs wT wAl (2 / 7)) [1, 2, 3] := by decide +kernel

/-- … while on equidistant levels the old form happened to be right -/
theorem sparseOld_eq_dense_equidistant_witness :
    tempImplicitSparseOld wNz (hMatrix [1 / 3, 1 / 3, 1 / 3] wT wAl (2 / 7)) [1, 2, 3]
      = tempImplicitDense (hMatrix [1 / 3, 1 / 3, 1 / 3] wT wAl (2 / 7)) [1, 2, 3] := by
  decide +kernel
end witness

/-! ## T3.5 for every layer count: cumulative-sum `H` = dense `H` -/

section sparse
variable (ds T al : List K) (kappa : K)

/-- the coefficient `M[r,s]` in `H = M·diag(Δσ)`: everything in `hEntry` but the trailing `Δσ[s]` -/
def hM (r s : Nat) : K :=
  kappa * T.getD r 0 *
      (tril r s * al.getD r 0 + (if r = 0 then 0 else tril (r - 1) s * al.getD (r - 1) 0)) / ds.getD r 0
    - hK ds T r s - (if r = 0 then 0 else hK ds T (r - 1) s)

theorem hEntry_eq_hM_mul (r s : Nat) :
    hEntry ds T al kappa r s = hM ds T al kappa r s * ds.getD s 0 := rfl

/-- `M` is constant along a row left of the diagonal … -/
theorem hM_left (r s : Nat) (h : s < r) : hM ds T al kappa r s = hM ds T al kappa r 0 := by
  have h0 : r ≠ 0 := by omega
  have h1 : s ≤ r := by omega
  have h2 : s ≤ r - 1 := by omega
  simp [hM, hK, tril, h0, h1, h2]

/-- … and right of the diagonal -/
theorem hM_right (r s s' : Nat) (h : r < s) (h' : r < s') :
    hM ds T al kappa r s = hM ds T al kappa r s' := by
  have h1 : ¬ s ≤ r := by omega
  have h2 : ¬ s ≤ r - 1 := by omega
  have h3 : ¬ s' ≤ r := by omega
  have h4 : ¬ s' ≤ r - 1 := by omega
  simp [hM, hK, tril, h1, h2, h3, h4]

/-- the repaired cumulative-sum form with the guard resolved -/
theorem tempImplicitSparse_eq_sparseCore (nz : K → Bool) (hnz : ∀ v, nz v = true ↔ v ≠ 0)
    (e : Nat → Nat → K) (d : List K) (hd : d.length = ds.length) :
    tempImplicitSparse nz ds (mkMat ds.length e) d
      = sparseCore
          ((0 : K) :: (colOf (mkMat ds.length fun r s => -e r s / ds.getD s 0) 0).tail)
          (diagOf (mkMat ds.length fun r s => -e r s))
          ((colOf (mkMat ds.length fun r s => -e r s / ds.getD s 0) (ds.length - 1)).dropLast ++ [0])
          (mulv ds d) d := by
  unfold tempImplicitSparse
  simp only [negMat_mkMat, scaled_mkMat]
  apply guard_irrelevant nz hnz
  · simp [addv, mulv, subv, colOf, hd]
  · simp [addv, mulv, subv, colOf, hd]

/-- **T3.5, every layer count.**  For every thickness list without zero entries, every reference
 profile, ratios, `κ` and divergence column, `get_temperature_implicit(method='sparse')` (repaired)
 equals `get_temperature_implicit(method='dense')`.  `nz` is any correct test `· ≠ 0`.  (No
 hypothesis on the lengths of `T`, `al` is needed.) -/
theorem tempImplicitSparse_eq_dense (nz : K → Bool) (hnz : ∀ v, nz v = true ↔ v ≠ 0)
    (d : List K) (hd : d.length = ds.length) (hds : ∀ v ∈ ds, v ≠ 0) :
    tempImplicitSparse nz ds (hMatrix ds T al kappa) d
      = tempImplicitDense (hMatrix ds T al kappa) d := by
  rw [hMatrix_eq_mkMat, tempImplicitSparse_eq_sparseCore ds nz hnz _ d hd]
  unfold tempImplicitDense
  rw [negMat_mkMat]
  rcases Nat.eq_zero_or_pos ds.length with h0 | hpos
  · have hds0 : ds = [] := List.length_eq_zero_iff.1 h0
    have hd0 : d = [] := List.length_eq_zero_iff.1 (by omega)
    subst hds0 hd0
    simp [sparseCore, mulv, addv, subv, cumsum, cumsumFrom, matvec, mkMat]
  have hne : ∀ s (hs : s < ds.length), ds[s] ≠ 0 := fun s hs => hds _ (List.getElem_mem _)
  rw [colOf_mkMat _ _ 0 hpos, colOf_mkMat _ _ (ds.length - 1) (by omega), diagOf_mkMat]
  refine sparseCore_eq_matvec ds.length _ _ _ _ _ _ d (by simp; omega) (by simp)
    (by simp; omega) (by simp [mulv, hd]) hd hd ?_ ?_ ?_
  · -- left of the diagonal
    intro r s hsr hr
    rw [cons_tail_getElem _ _ _ _ (by simpa using hr), if_neg (by omega)]
    simp only [List.getElem_map, List.getElem_range, mulv, List.getElem_zipWith]
    have e1 : ds.getD 0 0 = ds[0] := getD_eq _ _ _ hpos
    have e2 : ds.getD s 0 = ds[s] := getD_eq _ _ _ (by omega)
    simp only [hEntry_eq_hM_mul, hM_left ds T al kappa r s hsr, e1, e2]
    have := hne 0 hpos
    field_simp
  · -- the diagonal
    intro r hr
    simp
  · -- right of the diagonal
    intro r s hrs hs
    rw [dropLast_append_getElem _ _ _ _ (by simp; omega), if_neg (by simp; omega)]
    simp only [List.getElem_map, List.getElem_range, mulv, List.getElem_zipWith]
    have e1 : ds.getD (ds.length - 1) 0 = ds[ds.length - 1] := getD_eq _ _ _ (by omega)
    have e2 : ds.getD s 0 = ds[s] := getD_eq _ _ _ hs
    simp only [hEntry_eq_hM_mul, hM_right ds T al kappa r s (ds.length - 1) hrs (by omega), e1, e2]
    have := hne (ds.length - 1) (by omega)
    field_simp

/-- the same with the decidable test written out, as the driver instantiates it -/
theorem tempImplicitSparse_eq_dense_decide [DecidableEq K]
    (d : List K) (hd : d.length = ds.length) (hds : ∀ v ∈ ds, v ≠ 0) :
    tempImplicitSparse (fun v => decide (v ≠ 0)) ds (hMatrix ds T al kappa) d
      = tempImplicitDense (hMatrix ds T al kappa) d :=
  tempImplicitSparse_eq_dense ds T al kappa _ (by simp) d hd hds

/-- the pre-repair cumulative-sum form with the guard resolved -/
theorem tempImplicitSparseOld_eq_sparseCore (nz : K → Bool) (hnz : ∀ v, nz v = true ↔ v ≠ 0)
    (n : Nat) (e : Nat → Nat → K) (d : List K) (hd : d.length = n) :
    tempImplicitSparseOld nz (mkMat n e) d
      = sparseCore
          ((0 : K) :: (colOf (mkMat n fun r s => -e r s) 0).tail)
          (diagOf (mkMat n fun r s => -e r s))
          ((colOf (mkMat n fun r s => -e r s) (n - 1)).dropLast ++ [0]) d d := by
  unfold tempImplicitSparseOld
  simp only [negMat_mkMat, mkMat_length]
  apply guard_irrelevant nz hnz
  · simp [addv, mulv, subv, colOf, hd]
  · simp [addv, mulv, subv, colOf, hd]

/-- **The pre-repair code was right on the tested configurations**: when all layers have
 the same thickness (any value, even `0`), the old cumulative-sum form equals the dense product,
 for every layer count, reference profile, ratios, `κ` and divergence column.
 This is the direction equidistant ⇒ equal only.  `sparseOld_ne_dense` is one uneven witness where
 it fails; the exact characterisation is `sparseOld_eq_dense_iff` below (equidistant is sufficient
 but not necessary: `sparseOld_eq_dense_two_layers`; conditional converse:
 `equidistant_of_sparseOld_eq_dense`). -/
theorem sparseOld_eq_dense_of_equidistant (nz : K → Bool) (hnz : ∀ v, nz v = true ↔ v ≠ 0)
    (c : K) (hc : ∀ v ∈ ds, v = c) (d : List K) (hd : d.length = ds.length) :
    tempImplicitSparseOld nz (hMatrix ds T al kappa) d
      = tempImplicitDense (hMatrix ds T al kappa) d := by
  rw [hMatrix_eq_mkMat, tempImplicitSparseOld_eq_sparseCore nz hnz _ _ d hd]
  unfold tempImplicitDense
  rw [negMat_mkMat]
  rcases Nat.eq_zero_or_pos ds.length with h0 | hpos
  · have hds0 : ds = [] := List.length_eq_zero_iff.1 h0
    have hd0 : d = [] := List.length_eq_zero_iff.1 (by omega)
    subst hds0 hd0
    simp [sparseCore, mulv, addv, subv, cumsum, cumsumFrom, matvec, mkMat]
  have hcs : ∀ s (_ : s < ds.length), ds.getD s 0 = c := fun s hs => by
    rw [getD_eq _ _ _ hs]; exact hc _ (List.getElem_mem _)
  rw [colOf_mkMat _ _ 0 hpos, colOf_mkMat _ _ (ds.length - 1) (by omega), diagOf_mkMat]
  refine sparseCore_eq_matvec ds.length _ _ _ _ _ _ d (by simp; omega) (by simp)
    (by simp; omega) hd hd hd ?_ ?_ ?_
  · intro r s hsr hr
    rw [cons_tail_getElem _ _ _ _ (by simpa using hr), if_neg (by omega)]
    simp only [List.getElem_map, List.getElem_range]
    rw [hEntry_eq_hM_mul, hEntry_eq_hM_mul, hM_left ds T al kappa r s hsr, hcs 0 hpos,
      hcs s (by omega)]
  · intro r hr
    simp
  · intro r s hrs hs
    rw [dropLast_append_getElem _ _ _ _ (by simp; omega), if_neg (by simp; omega)]
    simp only [List.getElem_map, List.getElem_range]
    rw [hEntry_eq_hM_mul, hEntry_eq_hM_mul,
      hM_right ds T al kappa r s (ds.length - 1) hrs (by omega), hcs _ hs,
      hcs (ds.length - 1) (by omega)]

end sparse

/-! ## when exactly the pre-repair cumulative-sum form was right (converse of the equidistant result) -/

section converse
variable (ds T al : List K) (kappa : K)

/-- the matrix the pre-repair cumulative-sum form actually applies: in row `r` it repeats the entry
 of column `0` everywhere left of the diagonal and the entry of the last column right of it -/
def oldEntry (r s : Nat) : K :=
  if s < r then -hEntry ds T al kappa r 0 else if s = r then -hEntry ds T al kappa r r
  else -hEntry ds T al kappa r (ds.length - 1)

theorem tempImplicitSparseOld_eq_matvec (nz : K → Bool) (hnz : ∀ v, nz v = true ↔ v ≠ 0)
    (d : List K) (hd : d.length = ds.length) :
    tempImplicitSparseOld nz (hMatrix ds T al kappa) d
      = matvec (mkMat ds.length (oldEntry ds T al kappa)) d := by
  rw [hMatrix_eq_mkMat, tempImplicitSparseOld_eq_sparseCore nz hnz _ _ d hd]
  rcases Nat.eq_zero_or_pos ds.length with h0 | hpos
  · have hds0 : ds = [] := List.length_eq_zero_iff.1 h0
    have hd0 : d = [] := List.length_eq_zero_iff.1 (by omega)
    subst hds0 hd0
    simp [sparseCore, mulv, addv, subv, cumsum, cumsumFrom, matvec, mkMat]
  rw [colOf_mkMat _ _ 0 hpos, colOf_mkMat _ _ (ds.length - 1) (by omega), diagOf_mkMat]
  refine sparseCore_eq_matvec ds.length _ _ _ _ _ _ d (by simp; omega) (by simp)
    (by simp; omega) hd hd hd ?_ ?_ ?_
  · intro r s hsr hr
    rw [cons_tail_getElem _ _ _ _ (by simpa using hr), if_neg (by omega)]
    simp [oldEntry, hsr]
  · intro r hr
    simp [oldEntry]
  · intro r s hrs hs
    rw [dropLast_append_getElem _ _ _ _ (by simp; omega), if_neg (by simp; omega)]
    have h1 : ¬ s < r := by omega
    have h2 : s ≠ r := by omega
    simp [oldEntry, h1, h2]

omit ds T al kappa in
/-- two matrices with the same action on the unit columns have the same entries -/
theorem mkMat_entry_of_matvec_eq (n : Nat) (e1 e2 : Nat → Nat → K)
    (h : ∀ j, j < n → matvec (mkMat n e1) (eyeRow n j) = matvec (mkMat n e2) (eyeRow n j))
    (r s : Nat) (hr : r < n) (hs : s < n) : e1 r s = e2 r s := by
  have key : ∀ e : Nat → Nat → K, (matvec (mkMat n e) (eyeRow n s)).getD r 0 = e r s := by
    intro e
    rw [getD_eq _ _ _ (by simp; exact hr)]
    simp only [matvec_eq_map_dot, mkMat, List.getElem_map, List.getElem_range]
    rw [dot_comm, dot_eyeRow n s _ (by simp) hs, getD_eq _ _ _ (by simp; exact hs)]
    simp
  rw [← key e1, ← key e2, h s hs]

omit [Field K] ds T al kappa in
theorem mkMat_congr (n : Nat) (e1 e2 : Nat → Nat → K)
    (h : ∀ r s, r < n → s < n → e1 r s = e2 r s) : mkMat n e1 = mkMat n e2 := by
  unfold mkMat
  apply List.map_congr_left
  intro r hr
  apply List.map_congr_left
  intro s hs
  exact h r s (List.mem_range.1 hr) (List.mem_range.1 hs)

/-- **When exactly the pre-repair cumulative-sum form was right.**  `H = M·diag(Δσ)` with `M`
 row-constant on each side of the diagonal (`hM_left`, `hM_right`).  The old form equals the dense
 product on every column (equivalently: on the unit columns) iff in every row the coefficient left
 of the diagonal vanishes or all thicknesses left of it equal the first one, and the coefficient
 right of the diagonal vanishes or all thicknesses right of it equal the last one. -/
theorem sparseOld_eq_dense_iff (nz : K → Bool) (hnz : ∀ v, nz v = true ↔ v ≠ 0) :
    (∀ d : List K, d.length = ds.length →
      tempImplicitSparseOld nz (hMatrix ds T al kappa) d = tempImplicitDense (hMatrix ds T al kappa) d)
    ↔ ((∀ r s, s < r → r < ds.length →
          hM ds T al kappa r 0 * ds.getD 0 0 = hM ds T al kappa r 0 * ds.getD s 0)
      ∧ (∀ r s, r < s → s < ds.length →
          hM ds T al kappa r (ds.length - 1) * ds.getD (ds.length - 1) 0
            = hM ds T al kappa r (ds.length - 1) * ds.getD s 0)) := by
  have hdense : ∀ d, tempImplicitDense (hMatrix ds T al kappa) d
      = matvec (mkMat ds.length fun r s => -hEntry ds T al kappa r s) d := by
    intro d
    rw [hMatrix_eq_mkMat]; unfold tempImplicitDense; rw [negMat_mkMat]
  constructor
  · intro heq
    have hent : ∀ r s, r < ds.length → s < ds.length →
        oldEntry ds T al kappa r s = -hEntry ds T al kappa r s := by
      intro r s hr hs
      refine mkMat_entry_of_matvec_eq ds.length (oldEntry ds T al kappa)
        (fun r s => -hEntry ds T al kappa r s) ?_ r s hr hs
      intro j _
      rw [← tempImplicitSparseOld_eq_matvec ds T al kappa nz hnz _ (by simp [eyeRow]), ← hdense]
      exact heq _ (by simp [eyeRow])
    constructor
    · intro r s hsr hr
      have := hent r s hr (by omega)
      simp only [oldEntry, if_pos hsr, hEntry_eq_hM_mul, hM_left ds T al kappa r s hsr] at this
      exact neg_injective this
    · intro r s hrs hs
      have := hent r s (by omega) hs
      have h1 : ¬ s < r := by omega
      have h2 : s ≠ r := by omega
      simp only [oldEntry, if_neg h1, if_neg h2, hEntry_eq_hM_mul,
        hM_right ds T al kappa r s (ds.length - 1) hrs (by omega)] at this
      exact neg_injective this
  · rintro ⟨hl, hr⟩ d hd
    rw [tempImplicitSparseOld_eq_matvec ds T al kappa nz hnz d hd, hdense]
    congr 1
    apply mkMat_congr
    intro r s hr' hs'
    unfold oldEntry
    split
    · rename_i hsr
      rw [hEntry_eq_hM_mul, hEntry_eq_hM_mul, hM_left ds T al kappa r s hsr, hl r s hsr hr']
    · split
      · rename_i h2; rw [h2]
      · rename_i h1 h2
        have hrs : r < s := by omega
        rw [hEntry_eq_hM_mul, hEntry_eq_hM_mul,
          hM_right ds T al kappa r s (ds.length - 1) hrs (by omega), hr r s hrs hs']

/-- **Converse of `sparseOld_eq_dense_of_equidistant`** (conditional): with at least three layers
 and non-vanishing corner coefficients `M[n-1,0]`, `M[0,n-1]`, agreement of the pre-repair form
 with the dense product on the unit columns forces all layers to have the same thickness. -/
theorem equidistant_of_sparseOld_eq_dense (nz : K → Bool) (hnz : ∀ v, nz v = true ↔ v ≠ 0)
    (hn : 3 ≤ ds.length)
    (hL : hM ds T al kappa (ds.length - 1) 0 ≠ 0) (hU : hM ds T al kappa 0 (ds.length - 1) ≠ 0)
    (heq : ∀ d : List K, d.length = ds.length →
      tempImplicitSparseOld nz (hMatrix ds T al kappa) d = tempImplicitDense (hMatrix ds T al kappa) d) :
    ∀ i, i < ds.length → ds.getD i 0 = ds.getD 0 0 := by
  obtain ⟨hl, hr⟩ := (sparseOld_eq_dense_iff ds T al kappa nz hnz).1 heq
  have h1 : ∀ s, s < ds.length - 1 → ds.getD s 0 = ds.getD 0 0 := fun s hs =>
    (mul_left_cancel₀ hL (hl (ds.length - 1) s hs (by omega))).symm
  have h2 : ∀ s, 0 < s → s < ds.length → ds.getD s 0 = ds.getD (ds.length - 1) 0 := fun s h0 hs =>
    (mul_left_cancel₀ hU (hr 0 s h0 hs)).symm
  intro i hi
  by_cases hlast : i < ds.length - 1
  · exact h1 i hlast
  · have : i = ds.length - 1 := by omega
    rw [this, ← h2 1 (by omega) (by omega)]
    exact h1 1 (by omega)

/-- … while with one or two layers the pre-repair form was right for *every* level set: "equidistant"
 is sufficient (`sparseOld_eq_dense_of_equidistant`) but not necessary -/
theorem sparseOld_eq_dense_two_layers (nz : K → Bool) (hnz : ∀ v, nz v = true ↔ v ≠ 0)
    (hn : ds.length ≤ 2) (d : List K) (hd : d.length = ds.length) :
    tempImplicitSparseOld nz (hMatrix ds T al kappa) d = tempImplicitDense (hMatrix ds T al kappa) d := by
  refine (sparseOld_eq_dense_iff ds T al kappa nz hnz).2 ⟨?_, ?_⟩ d hd
  · intro r s hsr hr
    have : s = 0 := by omega
    rw [this]
  · intro r s hrs hs
    have : s = ds.length - 1 := by omega
    rw [this]

end converse

/-! ## the resolvent theorems with the cumulative-sum vertical products, every layer count -/

section sparseResolvent

/-- `implicit_terms` applies the vertical operators only to the column's own `t` and `d` -/
theorem implicitTerms_congr (gop gop' hop hop' : List K → List K)
    (hg : gop' x.t = gop x.t) (hh : hop' x.d = hop x.d) :
    implicitTerms lam R ds T gop' hop' x = implicitTerms lam R ds T gop hop x := by
  simp only [implicitTerms, hg, hh]

/-- the resolvent theorem for any pair of vertical operators that agree with the dense products
 on the column at hand -/
theorem primitive_resolvent_of_agree (hs : Shaped n ds T g h x) (minv : List (List K))
    (hm : minv.length = 2 * n + 1) (hrow : ∀ r ∈ minv, r.length = 2 * n + 1)
    (hinv : ∀ v : List K, v.length = 2 * n + 1 →
      matvec minv (matvec (implicitMatrix eta lam R ds T g h) v) = v)
    (gop hop : List K → List K) (hg : gop x.t = matvec g x.t)
    (hh : hop x.d = tempImplicitDense h x.d) :
    let y := oneMinus eta (implicitTerms lam R ds T gop hop) x
    inverseStacked minv y = x ∧ inverseSplit minv y = x := by
  intro y
  have hy : y = oneMinus eta (implicitTerms lam R ds T (matvec g) (tempImplicitDense h)) x := by
    simp only [y, oneMinus, implicitTerms, hg, hh]
  rw [hy]
  exact primitive_resolvent n eta lam R ds T g h x hs minv hm hrow hinv

/-- **Resolvent, cumulative-sum `H`** (`vertical_matmul_method='sparse'` for the temperature
 operator, any geopotential matrix): for every layer count and every level set without a zero
 thickness, `implicit_inverse(x - η·implicit_terms(x)) = x` for `split` and `stacked`. -/
theorem primitive_resolvent_sparseH (al : List K) (kappa : K) (nz : K → Bool)
    (hnz : ∀ v, nz v = true ↔ v ≠ 0)
    (hs : Shaped n ds T g (hMatrix ds T al kappa) x) (hds : ∀ v ∈ ds, v ≠ 0)
    (minv : List (List K))
    (hm : minv.length = 2 * n + 1) (hrow : ∀ r ∈ minv, r.length = 2 * n + 1)
    (hinv : ∀ v : List K, v.length = 2 * n + 1 →
      matvec minv (matvec (implicitMatrix eta lam R ds T g (hMatrix ds T al kappa)) v) = v) :
    let y := oneMinus eta (implicitTerms lam R ds T (matvec g)
      (tempImplicitSparse nz ds (hMatrix ds T al kappa))) x
    inverseStacked minv y = x ∧ inverseSplit minv y = x :=
  primitive_resolvent_of_agree n eta lam R ds T g _ x hs minv hm hrow hinv _ _ rfl
    (tempImplicitSparse_eq_dense ds T al kappa nz hnz x.d (by rw [hs.ld, hs.lds]) hds)

omit n eta g h in
/-- **`implicit_terms` does not depend on `vertical_matmul_method`**: cumulative-sum (`sparse`) and
 `dense` products give the same implicit tendency, for every layer count, every level set without
 a zero thickness, every reference profile and every column state of matching shape. -/
theorem implicitTerms_sparse_eq_dense [NeZero ((1 : K) + 1)] (lc : List K) (kappa : K)
    (nz : K → Bool) (hnz : ∀ v, nz v = true ↔ v ≠ 0)
    (hlc : lc.length = x.t.length) (hld : x.d.length = ds.length) (hds : ∀ v ∈ ds, v ≠ 0) :
    implicitTerms lam R ds T (geopotentialDiffSparse R (sigmaRatios lc))
        (tempImplicitSparse nz ds (hMatrix ds T (sigmaRatios lc) kappa)) x
      = implicitTerms lam R ds T (geopotentialDiffDense R (sigmaRatios lc))
        (tempImplicitDense (hMatrix ds T (sigmaRatios lc) kappa)) x :=
  implicitTerms_congr lam R ds T x _ _ _ _
    (Dino.C13.geopotentialDiff_dense_eq_sparse R lc x.t hlc).symm
    (tempImplicitSparse_eq_dense ds T _ kappa nz hnz x.d hld hds)

omit g h in
/-- **Resolvent, both cumulative-sum operators** (`vertical_matmul_method='sparse'`): with
 `α = sigmaRatios (log σ-centres)`, `G = geopotentialWeights R α`, `H = hMatrix Δσ T α κ`, the
 implicit terms computed with the cumulative-sum forms of *both* `G` and `H` are inverted exactly
 by any left inverse of the block matrix — every layer count `n`, every level set without a zero
 thickness, every reference profile, every `η`, `λ`, `R`, `κ`, every column state. -/
theorem primitive_resolvent_sparse [NeZero ((1 : K) + 1)] (lc : List K) (kappa : K)
    (nz : K → Bool) (hnz : ∀ v, nz v = true ↔ v ≠ 0)
    (hlds : ds.length = n) (hlT : T.length = n) (hlc : lc.length = n)
    (hld : x.d.length = n) (hlt : x.t.length = n) (hds : ∀ v ∈ ds, v ≠ 0)
    (minv : List (List K))
    (hm : minv.length = 2 * n + 1) (hrow : ∀ r ∈ minv, r.length = 2 * n + 1)
    (hinv : ∀ v : List K, v.length = 2 * n + 1 →
      matvec minv (matvec (implicitMatrix eta lam R ds T (geopotentialWeights R (sigmaRatios lc))
        (hMatrix ds T (sigmaRatios lc) kappa)) v) = v) :
    let y := oneMinus eta (implicitTerms lam R ds T (geopotentialDiffSparse R (sigmaRatios lc))
      (tempImplicitSparse nz ds (hMatrix ds T (sigmaRatios lc) kappa))) x
    inverseStacked minv y = x ∧ inverseSplit minv y = x := by
  have hs : Shaped n ds T (geopotentialWeights R (sigmaRatios lc))
      (hMatrix ds T (sigmaRatios lc) kappa) x :=
    ⟨hlds, hlT, by simp [hlc], by simp [hlds],
      fun r hr => by rw [geopotentialWeights_row_length R _ r hr, sigmaRatios_length, hlc],
      fun r hr => by rw [hMatrix_row_length ds T _ kappa r hr, hlds], hld, hlt⟩
  exact primitive_resolvent_of_agree n eta lam R ds T _ _ x hs minv hm hrow hinv _ _
    (Dino.C13.geopotentialDiff_dense_eq_sparse R lc x.t (by omega)).symm
    (tempImplicitSparse_eq_dense ds T _ kappa nz hnz x.d (by omega) hds)

omit n R ds T g h x in
/-- the block-wise strategy applies `gop` only to the state's `t` and `hopNeg` only to its `d` -/
theorem inverseBlockwise_congr (m divInv tpInv : List (List K))
    (gop gop' hopNeg hopNeg' : List K → List K) (y : Col K)
    (hg : gop' y.t = gop y.t) (hh : hopNeg' y.d = hopNeg y.d) :
    inverseBlockwise eta lam m divInv tpInv gop' hopNeg' y
      = inverseBlockwise eta lam m divInv tpInv gop hopNeg y := by
  simp only [inverseBlockwise, hg, hh]

omit ds T g h R in
/-- block-wise resolvent for any operators that agree, on columns of length `n`, with a pair
 satisfying the hypotheses of `inverseBlockwise_resolvent` -/
theorem inverseBlockwise_resolvent_of_agree (m divInv tpInv : List (List K))
    (gop hopNeg gop' hopNeg' : List K → List K)
    (hgg : ∀ t, t.length = n → gop' t = gop t) (hhh : ∀ d, d.length = n → hopNeg' d = hopNeg d)
    (hd : x.d.length = n) (ht : x.t.length = n)
    (hgl : ∀ t p, (gAct eta lam m gop n t p).length = n)
    (hhl : ∀ d, (hActT eta hopNeg d).length = n)
    (hGadd : ∀ t1 t2 p1 p2, t1.length = n → t2.length = n →
      gAct eta lam m gop n (addv t1 t2) (p1 + p2)
        = addv (gAct eta lam m gop n t1 p1) (gAct eta lam m gop n t2 p2))
    (hHTadd : ∀ d1 d2, d1.length = n → d2.length = n →
      hActT eta hopNeg (addv d1 d2) = addv (hActT eta hopNeg d1) (hActT eta hopNeg d2))
    (hHPadd : ∀ d1 d2, d1.length = n → d2.length = n →
      hActP m n (addv d1 d2) = hActP m n d1 + hActP m n d2)
    (hA : ∀ d, d.length = n →
      matvec divInv (subv d (gAct eta lam m gop n (hActT eta hopNeg d) (hActP m n d))) = d)
    (hB : ∀ t p, t.length = n →
      tpApply n tpInv (subv t (hActT eta hopNeg (gAct eta lam m gop n t p)))
        (p - hActP m n (gAct eta lam m gop n t p)) = (t, p)) :
    inverseBlockwise eta lam m divInv tpInv gop' hopNeg'
        ⟨addv x.d (gAct eta lam m gop n x.t x.p), addv x.t (hActT eta hopNeg x.d), x.p + hActP m n x.d⟩
      = x := by
  rw [inverseBlockwise_congr eta lam m divInv tpInv gop gop' hopNeg hopNeg' _
    (hgg _ (by simp [addv, ht, hhl])) (hhh _ (by simp [addv, hd, hgl]))]
  exact inverseBlockwise_resolvent n eta lam x m divInv tpInv gop hopNeg hd ht hgl hhl hGadd hHTadd
    hHPadd hA hB

omit n eta lam R g h x in
/-- the two `h·d` products the block-wise strategy may use agree on every column -/
theorem hopNeg_sparse_eq_dense (al : List K) (kappa : K) (nz : K → Bool)
    (hnz : ∀ v, nz v = true ↔ v ≠ 0) (hds : ∀ v ∈ ds, v ≠ 0) (d : List K)
    (hd : d.length = ds.length) :
    (tempImplicitSparse nz ds (hMatrix ds T al kappa) d).map (fun a => -a)
      = (tempImplicitDense (hMatrix ds T al kappa) d).map (fun a => -a) := by
  rw [tempImplicitSparse_eq_dense ds T al kappa nz hnz d hd hds]

omit g h R in
/-- **Block-wise resolvent with the cumulative-sum `h·d` product** (what the code runs with
 `vertical_matmul_method='sparse'`, the default under vertical sharding): under the hypotheses of
 `inverseBlockwise_resolvent` for the dense product, the block-wise strategy using
 `-get_temperature_implicit(method='sparse')` returns `x`, for every layer count and every level
 set without a zero thickness. -/
theorem inverseBlockwise_resolvent_sparseH (al : List K) (kappa : K) (nz : K → Bool)
    (hnz : ∀ v, nz v = true ↔ v ≠ 0) (hn : ds.length = n) (hds : ∀ v ∈ ds, v ≠ 0)
    (m divInv tpInv : List (List K)) (gop : List K → List K)
    (hd : x.d.length = n) (ht : x.t.length = n) :
    let hopNeg := fun v => (tempImplicitDense (hMatrix ds T al kappa) v).map (fun a => -a)
    let hopNeg' := fun v => (tempImplicitSparse nz ds (hMatrix ds T al kappa) v).map (fun a => -a)
    (∀ t p, (gAct eta lam m gop n t p).length = n) →
    (∀ d, (hActT eta hopNeg d).length = n) →
    (∀ t1 t2 p1 p2, t1.length = n → t2.length = n →
      gAct eta lam m gop n (addv t1 t2) (p1 + p2)
        = addv (gAct eta lam m gop n t1 p1) (gAct eta lam m gop n t2 p2)) →
    (∀ d1 d2, d1.length = n → d2.length = n →
      hActT eta hopNeg (addv d1 d2) = addv (hActT eta hopNeg d1) (hActT eta hopNeg d2)) →
    (∀ d1 d2, d1.length = n → d2.length = n →
      hActP m n (addv d1 d2) = hActP m n d1 + hActP m n d2) →
    (∀ d, d.length = n →
      matvec divInv (subv d (gAct eta lam m gop n (hActT eta hopNeg d) (hActP m n d))) = d) →
    (∀ t p, t.length = n →
      tpApply n tpInv (subv t (hActT eta hopNeg (gAct eta lam m gop n t p)))
        (p - hActP m n (gAct eta lam m gop n t p)) = (t, p)) →
    inverseBlockwise eta lam m divInv tpInv gop hopNeg'
        ⟨addv x.d (gAct eta lam m gop n x.t x.p), addv x.t (hActT eta hopNeg x.d), x.p + hActP m n x.d⟩
      = x := by
  intro hopNeg hopNeg' hgl hhl hGadd hHTadd hHPadd hA hB
  exact inverseBlockwise_resolvent_of_agree n eta lam x m divInv tpInv gop hopNeg gop hopNeg'
    (fun _ _ => rfl)
    (fun d hdl => hopNeg_sparse_eq_dense ds T al kappa nz hnz hds d (by omega))
    hd ht hgl hhl hGadd hHTadd hHPadd hA hB

end sparseResolvent

/-! ## T3.6 two-sided inverse, linearity, time reversal -/

section further

theorem stack_injective (a b : Col K) (hd : a.d.length = b.d.length)
    (hta : a.t.length = a.d.length) (htb : b.t.length = b.d.length) (hab : stack a = stack b) :
    a = b := by
  rw [← unstack_stack a hta, ← unstack_stack b htb, hab, hd]

/-- **Right-inverse direction**: if `minv` is a right inverse of the implicit matrix (as an action
 on vectors), then `(1 - η·L)(implicit_inverse(y)) = y` for every column state `y`, every `n`. -/
theorem primitive_rightInverse (hs : Shaped n ds T g h x) (minv : List (List K))
    (hm : minv.length = 2 * n + 1)
    (hinv : ∀ v : List K, v.length = 2 * n + 1 →
      matvec (implicitMatrix eta lam R ds T g h) (matvec minv v) = v) :
    oneMinus eta (implicitTerms lam R ds T (matvec g) (tempImplicitDense h)) (inverseStacked minv x)
      = x := by
  have hsl : (stack x).length = 2 * n + 1 := by rw [stack_length, hs.ld, hs.lt]; omega
  have hml : (matvec minv (stack x)).length = 2 * n + 1 := by simp [hm]
  have hz : Shaped n ds T g h (inverseStacked minv x) :=
    ⟨hs.lds, hs.lT, hs.lg, hs.lh, hs.grow, hs.hrow,
      by simp [inverseStacked, unstack, hs.ld, hm]; omega,
      by simp [inverseStacked, unstack, hs.ld, hm]; omega⟩
  have h1 := implicitMatrix_mul_eq_oneMinus n eta lam R ds T g h _ hz
  have h2 : stack (inverseStacked minv x) = matvec minv (stack x) := by
    unfold inverseStacked; rw [hs.ld]; exact stack_unstack n _ hml
  rw [h2, hinv _ hsl] at h1
  apply stack_injective _ _ _ _ _ h1.symm
  · simp [oneMinus, implicitTerms, subv, smul, addv, matvec, hz.ld, hs.lg, hs.lT, hs.ld]
  · simp [oneMinus, implicitTerms, subv, smul, addv, matvec, tempImplicitDense, negMat, hz.ld,
      hz.lt, hs.lg, hs.lT, hs.lh]
  · rw [hs.lt, hs.ld]

/-- with a two-sided matrix inverse the solve is the two-sided inverse of `1 - η·L` -/
theorem primitive_twoSided (hs : Shaped n ds T g h x) (minv : List (List K))
    (hm : minv.length = 2 * n + 1) (hrow : ∀ r ∈ minv, r.length = 2 * n + 1)
    (hl : ∀ v : List K, v.length = 2 * n + 1 →
      matvec minv (matvec (implicitMatrix eta lam R ds T g h) v) = v)
    (hr : ∀ v : List K, v.length = 2 * n + 1 →
      matvec (implicitMatrix eta lam R ds T g h) (matvec minv v) = v) :
    inverseStacked minv (oneMinus eta (implicitTerms lam R ds T (matvec g) (tempImplicitDense h)) x) = x
    ∧ oneMinus eta (implicitTerms lam R ds T (matvec g) (tempImplicitDense h)) (inverseStacked minv x) = x
    ∧ oneMinus eta (implicitTerms lam R ds T (matvec g) (tempImplicitDense h)) (inverseSplit minv x) = x := by
  refine ⟨(primitive_resolvent n eta lam R ds T g h x hs minv hm hrow hl).1,
    primitive_rightInverse n eta lam R ds T g h x hs minv hm hr, ?_⟩
  rw [inverseSplit_eq_inverseStacked n x minv (by rw [hs.lt, hs.ld]) hs.ld hm hrow]
  exact primitive_rightInverse n eta lam R ds T g h x hs minv hm hr

/-! ### linearity of `implicit_terms` -/

/-- `tree_map(+)` and `tree_map(c * ·)` on column states -/
def addCol (x y : Col K) : Col K := ⟨addv x.d y.d, addv x.t y.t, x.p + y.p⟩
def smulCol (c : K) (x : Col K) : Col K := ⟨smul c x.d, smul c x.t, c * x.p⟩
def negCol (x : Col K) : Col K := ⟨x.d.map (fun v => -v), x.t.map (fun v => -v), -x.p⟩

omit n eta lam R ds T g h x in
theorem matvec_addv (a : List (List K)) (u v : List K) (huv : u.length = v.length) :
    matvec a (addv u v) = addv (matvec a u) (matvec a v) := by
  simp only [matvec_eq_map_dot, addv, List.zipWith_map_left, List.zipWith_map_right,
    List.zipWith_self]
  apply List.map_congr_left
  intro r _
  exact dot_add_right r u v huv

omit n eta lam R ds T g h x in
theorem matvec_smul (a : List (List K)) (c : K) (u : List K) :
    matvec a (smul c u) = smul c (matvec a u) := by
  simp only [matvec_eq_map_dot, smul, List.map_map, Function.comp_def]
  apply List.map_congr_left
  intro r _
  exact dot_smul_right c r u

omit n eta x in
/-- `implicit_terms` is additive (any shapes of `G`, `H`, `T_ref`; the two states of equal shape) -/
theorem implicitTerms_add (x y : Col K) (hd : x.d.length = y.d.length)
    (ht : x.t.length = y.t.length) :
    implicitTerms lam R ds T (matvec g) (tempImplicitDense h) (addCol x y)
      = addCol (implicitTerms lam R ds T (matvec g) (tempImplicitDense h) x)
          (implicitTerms lam R ds T (matvec g) (tempImplicitDense h) y) := by
  simp only [implicitTerms, addCol, tempImplicitDense, Col.mk.injEq]
  refine ⟨?_, matvec_addv _ _ _ hd, ?_⟩
  · rw [matvec_addv _ _ _ ht]
    apply List.ext_getElem
    · simp [addv]
    · intro i h1 h2
      simp only [addv, List.getElem_map, List.getElem_zipWith]
      ring
  · have := dot_add_right ds x.d y.d hd
    simp only [dot, addv] at this ⊢
    rw [this]; ring

omit n eta x in
/-- `implicit_terms` is homogeneous -/
theorem implicitTerms_smul (c : K) (x : Col K) :
    implicitTerms lam R ds T (matvec g) (tempImplicitDense h) (smulCol c x)
      = smulCol c (implicitTerms lam R ds T (matvec g) (tempImplicitDense h) x) := by
  simp only [implicitTerms, smulCol, tempImplicitDense, Col.mk.injEq]
  refine ⟨?_, matvec_smul _ _ _, ?_⟩
  · rw [matvec_smul]
    apply List.ext_getElem
    · simp [addv, smul]
    · intro i h1 h2
      simp only [addv, smul, List.getElem_map, List.getElem_zipWith]
      ring
  · have := dot_smul_right c ds x.d
    simp only [dot, smul] at this ⊢
    rw [this]; ring

/-! ### time reversal -/

omit n lam R ds T g h in
/-- `x - η·(-(L x)) = x - (-η)·L x`, for any right-hand side -/
theorem oneMinus_negCol (f : Col K → Col K) :
    oneMinus eta (fun z => negCol (f z)) x = oneMinus (-eta) f x := by
  simp only [oneMinus, negCol, smul, List.map_map, Function.comp_def, mul_neg, neg_mul]

instance : Neg (Col K) := ⟨negCol⟩

omit n lam R ds T g h in
/-- **`TimeReversedImExODE` is the resolvent of `−L` at `η`**: if the forward solve at step `−η`
 inverts `1 − (−η)·L` on `x`, then the time-reversed equation's solve at step `η` inverts
 `1 − η·(−L)` on `x` (`Imex.timeReversed` is the model of the class, shared with C06). -/
theorem timeReversed_resolvent (e : Imex.ImEx K (Col K))
    (hres : e.Ginv (oneMinus (-eta) e.G x) (-eta) = x) :
    (Imex.timeReversed e).Ginv (oneMinus eta (Imex.timeReversed e).G x) eta = x := by
  have : oneMinus eta (Imex.timeReversed e).G x = oneMinus (-eta) e.G x :=
    oneMinus_negCol eta x e.G
  rw [this]
  exact hres

/-- the primitive-equation instance: the solve built from a left inverse of the implicit matrix at
 `−η` inverts `x ↦ x − η·(−implicit_terms x)` -/
theorem primitive_timeReversed_resolvent (hs : Shaped n ds T g h x) (minv : List (List K))
    (hm : minv.length = 2 * n + 1) (hrow : ∀ r ∈ minv, r.length = 2 * n + 1)
    (hinv : ∀ v : List K, v.length = 2 * n + 1 →
      matvec minv (matvec (implicitMatrix (-eta) lam R ds T g h) v) = v) :
    let y := oneMinus eta
      (fun z => negCol (implicitTerms lam R ds T (matvec g) (tempImplicitDense h) z)) x
    inverseStacked minv y = x ∧ inverseSplit minv y = x := by
  intro y
  have hy : y = oneMinus (-eta) (implicitTerms lam R ds T (matvec g) (tempImplicitDense h)) x :=
    oneMinus_negCol eta x _
  rw [hy]
  exact primitive_resolvent n (-eta) lam R ds T g h x hs minv hm hrow hinv

omit n R ds T g h x in
/-- shallow water: the Schur solve at `−η` inverts `x ↦ x − η·(−L x)` -/
theorem swInverse_timeReversed (phi d p : K) (hne : 1 - eta * eta * phi * lam ≠ 0) :
    swInverse (-eta) lam phi (d - eta * -(swImplicit lam phi d p).1)
      (p - eta * -(swImplicit lam phi d p).2) = (d, p) := by
  have h1 := swInverse_oneMinus (-eta) lam phi d p (by simpa using hne)
  simp only [swOneMinus, swImplicit] at h1 ⊢
  convert h1 using 2 <;> ring

end further

/-! ## `method='blockwise'`: from the abstract block lemma to the solve the code runs -/

section bridge

/-- the four off-diagonal blocks of `_get_implicit_term_matrix`, in closed form -/
def gBlock : List (List K) := (List.range n).map fun j =>
  (g.getD j []).map (fun v => eta * (lam * v)) ++ [eta * R * (lam * T.getD j 0)]
def xBlock : List (List K) := (List.range n).map fun j => [eta * R * (lam * T.getD j 0)]
def hBlock : List (List K) :=
  ((List.range n).map fun j => (h.getD j []).map (fun v => eta * v)) ++ [ds.map (fun v => eta * v)]
def yBlock : List (List K) := [ds.map (fun v => eta * v)]

/-- the actions of the blocks in closed form -/
def gCl (t : List K) (p : K) : List K := (List.range n).map fun j =>
  eta * (lam * dot (g.getD j []) t) + eta * R * (lam * T.getD j 0) * p
def hCl (d : List K) : List K := (List.range n).map fun j => eta * dot (h.getD j []) d
def pCl (d : List K) : K := eta * dot ds d

omit x in
theorem implicitMatrix_rows (hn : ds.length = n) :
    implicitMatrix eta lam R ds T g h
      = ((List.range n).map fun j =>
          eyeRow n j ++ ((g.getD j []).map (fun v => eta * (lam * v)) ++ [eta * R * (lam * T.getD j 0)]))
        ++ (((List.range n).map fun j =>
          (h.getD j []).map (fun v => eta * v) ++ (eyeRow n j ++ [0]))
        ++ [ds.map (fun v => eta * v) ++ (zeros n ++ [1])]) := by
  simp only [implicitMatrix, hn, List.append_assoc]

omit x in
theorem eyeRow_length (j : Nat) : (eyeRow n j : List K).length = n := by simp [eyeRow]

theorem block_G (hs : Shaped n ds T g h x) :
    block (implicitMatrix eta lam R ds T g h) 0 n n (n + 1) = gBlock n eta lam R T g := by
  have hgj : ∀ j, j < n → (g.getD j []).length = n := fun j hj => by
    rw [getD_eq _ _ _ (by rw [hs.lg]; exact hj)]; exact hs.grow _ (List.getElem_mem _)
  rw [implicitMatrix_rows n eta lam R ds T g h hs.lds]
  simp only [block, List.drop_zero]
  rw [List.take_left' (by simp), gBlock, List.map_map]
  apply List.map_congr_left
  intro j hj
  have hj' : j < n := List.mem_range.1 hj
  simp only [Function.comp_def]
  rw [List.drop_left' (eyeRow_length n j), List.take_of_length_le
    (by rw [List.length_append, List.length_map, hgj j hj']; simp)]

theorem block_X (hs : Shaped n ds T g h x) :
    block (implicitMatrix eta lam R ds T g h) 0 n (2 * n) 1 = xBlock n eta lam R T := by
  have hgj : ∀ j, j < n → (g.getD j []).length = n := fun j hj => by
    rw [getD_eq _ _ _ (by rw [hs.lg]; exact hj)]; exact hs.grow _ (List.getElem_mem _)
  rw [implicitMatrix_rows n eta lam R ds T g h hs.lds]
  simp only [block, List.drop_zero]
  rw [List.take_left' (by simp), xBlock, List.map_map]
  apply List.map_congr_left
  intro j hj
  have hj' : j < n := List.mem_range.1 hj
  simp only [Function.comp_def]
  rw [← List.append_assoc, List.drop_left'
    (by rw [List.length_append, eyeRow_length, List.length_map, hgj j hj']; omega)]
  rfl

theorem block_H (hs : Shaped n ds T g h x) :
    block (implicitMatrix eta lam R ds T g h) n (n + 1) 0 n = hBlock n eta ds h := by
  have hhj : ∀ j, j < n → (h.getD j []).length = n := fun j hj => by
    rw [getD_eq _ _ _ (by rw [hs.lh]; exact hj)]; exact hs.hrow _ (List.getElem_mem _)
  rw [implicitMatrix_rows n eta lam R ds T g h hs.lds]
  simp only [block, List.drop_zero]
  rw [List.drop_left' (by simp), List.take_of_length_le (by simp), hBlock, List.map_append,
    List.map_map]
  congr 1
  · apply List.map_congr_left
    intro j hj
    have hj' : j < n := List.mem_range.1 hj
    simp only [Function.comp_def]
    rw [List.take_left' (by rw [List.length_map, hhj j hj'])]
  · simp only [List.map_cons, List.map_nil]
    rw [List.take_left' (by simp [hs.lds])]

theorem block_Y (hs : Shaped n ds T g h x) :
    block (implicitMatrix eta lam R ds T g h) (2 * n) 1 0 n = yBlock eta ds := by
  rw [implicitMatrix_rows n eta lam R ds T g h hs.lds]
  simp only [block, List.drop_zero]
  rw [← List.append_assoc, List.drop_left' (by simp; omega)]
  simp only [List.take_succ_cons, List.take_zero, List.map_cons, List.map_nil, yBlock]
  rw [List.take_left' (by simp [hs.lds])]

/-! the block actions -/

theorem gAct_eq (hs : Shaped n ds T g h x) (t : List K) (p : K) :
    gAct eta lam (implicitMatrix eta lam R ds T g h) (matvec g) n t p = gCl n eta lam R T g t p := by
  unfold gAct
  rw [block_X n eta lam R ds T g h x hs]
  conv_lhs => rw [← map_getD_range g [], hs.lg]
  simp only [xBlock, gCl, matvec_eq_map_dot, List.map_map, Function.comp_def, addv,
    List.zipWith_map_left, List.zipWith_map_right, List.zipWith_self, dot_singleton]
  apply List.map_congr_left
  intro j _
  ring

theorem gBlock_matvec (hs : Shaped n ds T g h x) (t : List K) (ht : t.length = n) (p : K) :
    matvec (gBlock n eta lam R T g) (t ++ [p]) = gCl n eta lam R T g t p := by
  have hgj : ∀ j, j < n → (g.getD j []).length = n := fun j hj => by
    rw [getD_eq _ _ _ (by rw [hs.lg]; exact hj)]; exact hs.grow _ (List.getElem_mem _)
  simp only [gBlock, gCl, matvec_eq_map_dot, List.map_map, Function.comp_def]
  apply List.map_congr_left
  intro j hj
  have hj' : j < n := List.mem_range.1 hj
  rw [dot_append _ _ _ _ (by rw [List.length_map, hgj j hj', ht]), dot_map_mul2, dot_singleton]

theorem hActT_eq (hs : Shaped n ds T g h x) (d : List K) :
    hActT eta (fun v => (tempImplicitDense h v).map (fun a => -a)) d = hCl n eta h d := by
  unfold hActT tempImplicitDense
  conv_lhs => rw [← map_getD_range h [], hs.lh]
  simp only [hCl, negMat, smul, matvec_eq_map_dot, List.map_map, Function.comp_def]
  apply List.map_congr_left
  intro j _
  rw [dot_neg_left]
  ring

theorem hActP_eq (hs : Shaped n ds T g h x) (d : List K) :
    hActP (implicitMatrix eta lam R ds T g h) n d = pCl eta ds d := by
  unfold hActP
  rw [block_Y n eta lam R ds T g h x hs]
  simp [yBlock, pCl, matvec_eq_map_dot, dot_map_mul]

omit lam R T g x in
theorem hBlock_matvec (d : List K) :
    matvec (hBlock n eta ds h) d = hCl n eta h d ++ [pCl eta ds d] := by
  simp only [hBlock, hCl, pCl, matvec_eq_map_dot, List.map_append, List.map_map, Function.comp_def,
    List.map_cons, List.map_nil, dot_map_mul]

omit lam R in
theorem hBlock_row_length (hs : Shaped n ds T g h x) :
    ∀ br ∈ hBlock n eta ds h, br.length = n := by
  intro br hbr
  simp only [hBlock, List.mem_append, List.mem_map, List.mem_range, List.mem_singleton] at hbr
  rcases hbr with ⟨j, hj, rfl⟩ | rfl
  · rw [List.length_map, getD_eq _ _ _ (by rw [hs.lh]; exact hj)]
    exact hs.hrow _ (List.getElem_mem _)
  · rw [List.length_map, hs.lds]

theorem gBlock_row_length (hs : Shaped n ds T g h x) :
    ∀ br ∈ gBlock n eta lam R T g, br.length = n + 1 := by
  intro br hbr
  simp only [gBlock, List.mem_map, List.mem_range] at hbr
  obtain ⟨j, hj, rfl⟩ := hbr
  rw [List.length_append, List.length_map, getD_eq _ _ _ (by rw [hs.lg]; exact hj),
    hs.grow _ (List.getElem_mem _)]
  rfl

/-- the first matrix the code inverts, `I - M[div,tp] @ M[tp,div]`, acts as `d ↦ d - G̃(H̃ d)` -/
theorem blockwiseDivMatrix_matvec (hs : Shaped n ds T g h x) (d : List K) (hd : d.length = n) :
    matvec (blockwiseDivMatrix (implicitMatrix eta lam R ds T g h) n) d
      = subv d (gCl n eta lam R T g (hCl n eta h d) (pCl eta ds d)) := by
  unfold blockwiseDivMatrix
  rw [block_G n eta lam R ds T g h x hs, block_H n eta lam R ds T g h x hs,
    matvec_subM _ _ _ (by intro i h1 h2; simp [eye, matmul, eyeRow]), matvec_eye n d hd,
    matvec_matmul _ _ n d hd (hBlock_row_length n eta ds T g h x hs), hBlock_matvec,
    gBlock_matvec n eta lam R ds T g h x hs _ (by simp [hCl])]

/-- the second one, `I - M[tp,div] @ M[div,tp]`, acts as `(t,p) ↦ (t,p) - H̃(G̃(t,p))` -/
theorem blockwiseTpMatrix_matvec (hs : Shaped n ds T g h x) (t : List K) (ht : t.length = n) (p : K) :
    matvec (blockwiseTpMatrix (implicitMatrix eta lam R ds T g h) n) (t ++ [p])
      = subv t (hCl n eta h (gCl n eta lam R T g t p)) ++ [p - pCl eta ds (gCl n eta lam R T g t p)] := by
  unfold blockwiseTpMatrix
  rw [block_G n eta lam R ds T g h x hs, block_H n eta lam R ds T g h x hs,
    matvec_subM _ _ _ (by intro i h1 h2; simp [eye, matmul, eyeRow]),
    matvec_eye (n + 1) _ (by simp [ht]),
    matvec_matmul _ _ (n + 1) _ (by simp [ht]) (gBlock_row_length n eta lam R ds T g h x hs),
    gBlock_matvec n eta lam R ds T g h x hs t ht, hBlock_matvec]
  simp only [subv]
  rw [List.zipWith_append (by simp [hCl, ht])]
  rfl

omit eta lam R ds T g h x in
/-- the four products with the sub-blocks of `temp_logp_inverse` are one product with the stacked
 `(t, p)` vector -/
theorem tpApply_eq (tpInv : List (List K)) (hrow : ∀ r ∈ tpInv, r.length = n + 1)
    (t : List K) (ht : t.length = n) (p : K) :
    tpApply n tpInv t p
      = ((matvec tpInv (t ++ [p])).take n, ((matvec tpInv (t ++ [p])).drop n).headD 0) := by
  have rows : ∀ (r0 nr : Nat),
      addv (matvec (block tpInv r0 nr 0 n) t) (matvec (block tpInv r0 nr n 1) [p])
        = ((tpInv.drop r0).take nr).map fun r => dot r (t ++ [p]) := by
    intro r0 nr
    simp only [block, matvec_eq_map_dot, List.map_map, addv, List.zipWith_map_left,
      List.zipWith_map_right, List.zipWith_self, Function.comp_def]
    apply List.map_congr_left
    intro r hr
    rw [dot_split2 n r t p ht (hrow r (List.mem_of_mem_drop (List.mem_of_mem_take hr)))]
  unfold tpApply
  rw [rows 0 n, rows n 1]
  simp only [matvec_eq_map_dot, List.drop_zero, List.map_take, List.map_drop]
  congr 1
  cases List.drop n (List.map (fun r => dot r (t ++ [p])) tpInv) <;> rfl

omit n eta lam R ds T g h x in
theorem subv_smul_eq_addv_neg (c : K) (a b : List K) :
    subv a (smul c b) = addv a (smul c (b.map fun v => -v)) := by
  apply List.ext_getElem
  · simp [subv, addv, smul]
  · intro i h1 h2
    simp only [subv, addv, smul, List.getElem_zipWith, List.getElem_map]
    ring

/-- **Bridge (i)**: `x - η·implicit_terms(x)` *is* the argument state of the abstract block lemma
 `inverseBlockwise_resolvent`, for `m = _get_implicit_term_matrix(η)`, every layer count. -/
theorem oneMinus_eq_blockForm (hs : Shaped n ds T g h x) :
    oneMinus eta (implicitTerms lam R ds T (matvec g) (tempImplicitDense h)) x
      = ⟨addv x.d (gAct eta lam (implicitMatrix eta lam R ds T g h) (matvec g) n x.t x.p),
         addv x.t (hActT eta (fun v => (tempImplicitDense h v).map (fun a => -a)) x.d),
         x.p + hActP (implicitMatrix eta lam R ds T g h) n x.d⟩ := by
  simp only [oneMinus, implicitTerms, Col.mk.injEq]
  refine ⟨?_, ?_, ?_⟩
  · rw [gAct_eq n eta lam R ds T g h x hs]
    apply List.ext_getElem
    · simp [subv, smul, addv, matvec, gCl, hs.ld, hs.lg, hs.lT]
    · intro j h1 h2
      have hj : j < n := by simpa [addv, gCl, hs.ld] using h2
      simp only [subv, smul, addv, gCl, matvec, List.getElem_zipWith, List.getElem_map,
        List.getElem_range]
      rw [getD_eq _ _ _ (by rw [hs.lg]; exact hj), getD_eq _ _ _ (by rw [hs.lT]; exact hj)]
      simp only [dot]
      ring
  · exact subv_smul_eq_addv_neg eta x.t _
  · rw [hActP_eq n eta lam R ds T g h x hs]
    simp only [pCl, dot]
    ring

omit lam R T g x ds in
theorem hCl_add (d1 d2 : List K) (hl : d1.length = d2.length) :
    hCl n eta h (addv d1 d2) = addv (hCl n eta h d1) (hCl n eta h d2) := by
  simp only [hCl, addv, List.zipWith_map_left, List.zipWith_map_right, List.zipWith_self]
  apply List.map_congr_left
  intro j _
  have := dot_add_right (h.getD j []) d1 d2 hl
  simp only [addv] at this
  rw [this]; ring

omit ds h x in
theorem gCl_add (t1 t2 : List K) (p1 p2 : K) (hl : t1.length = t2.length) :
    gCl n eta lam R T g (addv t1 t2) (p1 + p2)
      = addv (gCl n eta lam R T g t1 p1) (gCl n eta lam R T g t2 p2) := by
  simp only [gCl, addv, List.zipWith_map_left, List.zipWith_map_right, List.zipWith_self]
  apply List.map_congr_left
  intro j _
  have := dot_add_right (g.getD j []) t1 t2 hl
  simp only [addv] at this
  rw [this]; ring

/-- **Block-wise strategy, dense vertical products.**  For every layer count `n`, level set,
 reference profile, `η` of either sign, `λ`, `R` and column state `x`: if the two matrices returned
 by `numpy.linalg.inv` are left inverses (as actions) of exactly the two matrices the code forms,
 `I - M[div,tp] @ M[tp,div]` and `I - M[tp,div] @ M[div,tp]`, then
 `implicit_inverse(x - η·implicit_terms(x), method='blockwise') = x`. -/
theorem blockwise_is_resolvent_dense (hs : Shaped n ds T g h x) (divInv tpInv : List (List K))
    (htrow : ∀ r ∈ tpInv, r.length = n + 1)
    (hA : ∀ v : List K, v.length = n →
      matvec divInv (matvec (blockwiseDivMatrix (implicitMatrix eta lam R ds T g h) n) v) = v)
    (hB : ∀ v : List K, v.length = n + 1 →
      matvec tpInv (matvec (blockwiseTpMatrix (implicitMatrix eta lam R ds T g h) n) v) = v) :
    inverseBlockwise eta lam (implicitMatrix eta lam R ds T g h) divInv tpInv (matvec g)
        (fun v => (tempImplicitDense h v).map (fun a => -a))
        (oneMinus eta (implicitTerms lam R ds T (matvec g) (tempImplicitDense h)) x) = x := by
  rw [oneMinus_eq_blockForm n eta lam R ds T g h x hs]
  apply inverseBlockwise_resolvent n eta lam x _ divInv tpInv (matvec g) _ hs.ld hs.lt
  · intro t p
    rw [gAct_eq n eta lam R ds T g h x hs]; simp [gCl]
  · intro d
    rw [hActT_eq n eta ds T g h x hs]; simp [hCl]
  · intro t1 t2 p1 p2 h1 h2
    simp only [gAct_eq n eta lam R ds T g h x hs]
    exact gCl_add n eta lam R T g t1 t2 p1 p2 (h1.trans h2.symm)
  · intro d1 d2 h1 h2
    simp only [hActT_eq n eta ds T g h x hs]
    exact hCl_add n eta h d1 d2 (h1.trans h2.symm)
  · intro d1 d2 h1 h2
    simp only [hActP_eq n eta lam R ds T g h x hs, pCl]
    rw [dot_add_right ds d1 d2 (h1.trans h2.symm)]; ring
  · intro d hd
    rw [hActT_eq n eta ds T g h x hs, hActP_eq n eta lam R ds T g h x hs,
      gAct_eq n eta lam R ds T g h x hs, ← blockwiseDivMatrix_matvec n eta lam R ds T g h x hs d hd]
    exact hA d hd
  · intro t p ht
    rw [gAct_eq n eta lam R ds T g h x hs, hActT_eq n eta ds T g h x hs,
      hActP_eq n eta lam R ds T g h x hs,
      tpApply_eq n tpInv htrow _ (by simp [subv, hCl, ht]),
      ← blockwiseTpMatrix_matvec n eta lam R ds T g h x hs t ht p, hB _ (by simp [ht])]
    simp [← ht]

/-- the same with the left-inverse contract in the matrix form the harness evaluates on the captured
 matrices: `inv(A) @ A = I` for the two matrices `A` the code passes to `numpy.linalg.inv` -/
theorem blockwise_is_resolvent_dense_of_matmul (hs : Shaped n ds T g h x)
    (divInv tpInv : List (List K)) (htrow : ∀ r ∈ tpInv, r.length = n + 1)
    (hA : matmul divInv (blockwiseDivMatrix (implicitMatrix eta lam R ds T g h) n) n = eye n)
    (hB : matmul tpInv (blockwiseTpMatrix (implicitMatrix eta lam R ds T g h) n) (n + 1)
      = eye (n + 1)) :
    inverseBlockwise eta lam (implicitMatrix eta lam R ds T g h) divInv tpInv (matvec g)
        (fun v => (tempImplicitDense h v).map (fun a => -a))
        (oneMinus eta (implicitTerms lam R ds T (matvec g) (tempImplicitDense h)) x) = x := by
  refine blockwise_is_resolvent_dense n eta lam R ds T g h x hs divInv tpInv htrow
    (leftInverse_of_matmul_eq_eye n divInv _ ?_ hA) (leftInverse_of_matmul_eq_eye (n + 1) tpInv _ ?_ hB)
  · intro r hr
    simp only [blockwiseDivMatrix, subM, eye, matmul] at hr
    obtain ⟨i, hi, rfl⟩ := List.getElem_of_mem hr
    simp [subv, eyeRow]
  · intro r hr
    simp only [blockwiseTpMatrix, subM, eye, matmul] at hr
    obtain ⟨i, hi, rfl⟩ := List.getElem_of_mem hr
    simp [subv, eyeRow]

omit g h in
/-- **The block-wise strategy is the exact resolvent** — as the code runs it: `gop`, `hop` are the
 cumulative-sum products `get_geopotential_diff(method='sparse')` and
 `-get_temperature_implicit(method='sparse')`, `G = geopotentialWeights R α`,
 `H = hMatrix Δσ T α κ` with `α = sigmaRatios (log σ-centres)`, `M = _get_implicit_term_matrix(η)`.
 For every layer count `n`, every level set without a zero thickness, every reference profile,
 `η` of either sign, `λ`, `R`, `κ` and every column state `x`, under just the left-inverse contract
 of the two inverted blocks `I - M[div,tp] @ M[tp,div]`, `I - M[tp,div] @ M[div,tp]`:
 `implicit_inverse(x - η·implicit_terms(x), method='blockwise') = x`, whether `implicit_terms` used
 the cumulative-sum or the dense vertical products. -/
theorem blockwise_is_resolvent [NeZero ((1 : K) + 1)] (lc : List K) (kappa : K)
    (nz : K → Bool) (hnz : ∀ v, nz v = true ↔ v ≠ 0)
    (hlds : ds.length = n) (hlT : T.length = n) (hlc : lc.length = n)
    (hld : x.d.length = n) (hlt : x.t.length = n) (hds : ∀ v ∈ ds, v ≠ 0)
    (divInv tpInv : List (List K)) (htrow : ∀ r ∈ tpInv, r.length = n + 1)
    (hA : ∀ v : List K, v.length = n →
      matvec divInv (matvec (blockwiseDivMatrix (implicitMatrix eta lam R ds T
        (geopotentialWeights R (sigmaRatios lc)) (hMatrix ds T (sigmaRatios lc) kappa)) n) v) = v)
    (hB : ∀ v : List K, v.length = n + 1 →
      matvec tpInv (matvec (blockwiseTpMatrix (implicitMatrix eta lam R ds T
        (geopotentialWeights R (sigmaRatios lc)) (hMatrix ds T (sigmaRatios lc) kappa)) n) v) = v) :
    let M := implicitMatrix eta lam R ds T (geopotentialWeights R (sigmaRatios lc))
      (hMatrix ds T (sigmaRatios lc) kappa)
    let gop := geopotentialDiffSparse R (sigmaRatios lc)
    let hop := tempImplicitSparse nz ds (hMatrix ds T (sigmaRatios lc) kappa)
    let solve := inverseBlockwise eta lam M divInv tpInv gop (fun v => (hop v).map (fun a => -a))
    solve (oneMinus eta (implicitTerms lam R ds T gop hop) x) = x
    ∧ solve (oneMinus eta (implicitTerms lam R ds T (geopotentialDiffDense R (sigmaRatios lc))
        (tempImplicitDense (hMatrix ds T (sigmaRatios lc) kappa))) x) = x := by
  intro M gop hop solve
  have hs : Shaped n ds T (geopotentialWeights R (sigmaRatios lc))
      (hMatrix ds T (sigmaRatios lc) kappa) x :=
    ⟨hlds, hlT, by simp [hlc], by simp [hlds],
      fun r hr => by rw [geopotentialWeights_row_length R _ r hr, sigmaRatios_length, hlc],
      fun r hr => by rw [hMatrix_row_length ds T _ kappa r hr, hlds], hld, hlt⟩
  have hterms : implicitTerms lam R ds T gop hop x
      = implicitTerms lam R ds T (geopotentialDiffDense R (sigmaRatios lc))
        (tempImplicitDense (hMatrix ds T (sigmaRatios lc) kappa)) x :=
    implicitTerms_sparse_eq_dense lam R ds T x lc kappa nz hnz (by omega) (by omega) hds
  have hy : oneMinus eta (implicitTerms lam R ds T gop hop) x
      = oneMinus eta (implicitTerms lam R ds T (geopotentialDiffDense R (sigmaRatios lc))
        (tempImplicitDense (hMatrix ds T (sigmaRatios lc) kappa))) x := by
    simp only [oneMinus, hterms]
  have main : solve (oneMinus eta (implicitTerms lam R ds T (geopotentialDiffDense R (sigmaRatios lc))
        (tempImplicitDense (hMatrix ds T (sigmaRatios lc) kappa))) x) = x := by
    have hyd : (oneMinus eta (implicitTerms lam R ds T (geopotentialDiffDense R (sigmaRatios lc))
        (tempImplicitDense (hMatrix ds T (sigmaRatios lc) kappa))) x).d.length = n := by
      simp [oneMinus, implicitTerms, subv, smul, addv, geopotentialDiffDense, matvec, hld, hlc, hlT]
    have hyt : (oneMinus eta (implicitTerms lam R ds T (geopotentialDiffDense R (sigmaRatios lc))
        (tempImplicitDense (hMatrix ds T (sigmaRatios lc) kappa))) x).t.length = n := by
      simp [oneMinus, implicitTerms, subv, smul, tempImplicitDense, matvec, negMat, hlt, hlds]
    show inverseBlockwise eta lam M divInv tpInv gop (fun v => (hop v).map (fun a => -a)) _ = x
    rw [inverseBlockwise_congr eta lam M divInv tpInv
      (matvec (geopotentialWeights R (sigmaRatios lc)))
      gop (fun v => (tempImplicitDense (hMatrix ds T (sigmaRatios lc) kappa) v).map (fun a => -a))
      (fun v => (hop v).map (fun a => -a)) _
      (Dino.C13.geopotentialDiff_dense_eq_sparse R lc _ (by omega)).symm
      (hopNeg_sparse_eq_dense ds T _ kappa nz hnz hds _ (by omega))]
    exact blockwise_is_resolvent_dense n eta lam R ds T _ _ x hs divInv tpInv htrow hA hB
  exact ⟨hy ▸ main, main⟩

end bridge

/-! ## non-vacuity -/

/-- `Shaped` is inhabited by an uneven two-layer column -/
example : Shaped 2 ([1 / 4, 3 / 4] : List ℚ) [250, 300] [[1, 2], [0, 3]] [[1, 1], [2, 1]]
    ⟨[1, -1], [5, 7], 2⟩ :=
  ⟨rfl, rfl, rfl, rfl, by simp, by simp, rfl, rfl⟩

/-- the left-inverse hypothesis of `primitive_resolvent` is satisfiable: one layer, `η = 1`,
 `λ = -2`, with the exact inverse of the 3×3 implicit matrix. -/
example : ∀ v : List ℚ, v.length = 2 * 1 + 1 →
    matvec [[1 / 11, 2 / 11, 4 / 11], [-3 / 11, 5 / 11, -12 / 11], [-1 / 11, -2 / 11, 7 / 11]]
      (matvec (implicitMatrix 1 (-2) 1 [1] [2] [[1]] [[3]]) v) = v := by
  intro v hv
  match v, hv with
  | [a, b, c], _ =>
    simp [matvec, mulv, implicitMatrix, eyeRow, zeros, List.range_succ]
    refine ⟨?_, ?_, ?_⟩ <;> ring

/-! ### non-vacuity of the general-`n` cumulative-sum theorems -/

section nonvacuity2

theorem wNz_spec : ∀ v : ℚ, wNz v = true ↔ v ≠ 0 := by intro v; simp [wNz]

/-- `tempImplicitSparse_eq_dense` on the uneven 3-layer column; the common value is not zero -/
example : tempImplicitSparse wNz wDs (hMatrix wDs wT wAl (2 / 7)) [1, 2, 3]
    = tempImplicitDense (hMatrix wDs wT wAl (2 / 7)) [1, 2, 3] :=
  tempImplicitSparse_eq_dense wDs wT wAl (2 / 7) wNz wNz_spec [1, 2, 3] rfl (by decide +kernel)

example : tempImplicitDense (hMatrix wDs wT wAl (2 / 7)) [1, 2, 3] ≠ [0, 0, 0] := by decide +kernel

/-- one layer: the guard `down.any (· ≠ 0)` is false and the theorem still applies -/
example : tempImplicitSparse wNz [1] (hMatrix [1] [2] [1] (3 / 2)) [5] = [-15] ∧
    tempImplicitDense (hMatrix ([1] : List ℚ) [2] [1] (3 / 2)) [5] = [-15] := by decide +kernel

/-- the hypothesis "no zero thickness" cannot be dropped: with a zero-thickness top layer the
 cumulative-sum form loses the sub-diagonal weight (`0/0 = 0`) and differs from the dense product -/
theorem sparse_ne_dense_zero_thickness :
    tempImplicitSparse wNz [0, 1 / 2, 1 / 2] (hMatrix [0, 1 / 2, 1 / 2] wT wAl (2 / 7)) [1, 2, 3]
      ≠ tempImplicitDense (hMatrix [0, 1 / 2, 1 / 2] wT wAl (2 / 7)) [1, 2, 3] := by
  decide +kernel

/-- `sparseOld_eq_dense_of_equidistant` on three equal layers -/
example : tempImplicitSparseOld wNz (hMatrix [1 / 3, 1 / 3, 1 / 3] wT wAl (2 / 7)) [1, 2, 3]
    = tempImplicitDense (hMatrix [1 / 3, 1 / 3, 1 / 3] wT wAl (2 / 7)) [1, 2, 3] :=
  sparseOld_eq_dense_of_equidistant _ wT wAl (2 / 7) wNz wNz_spec (1 / 3) (by decide +kernel)
    [1, 2, 3] rfl

/-- the agreement hypothesis of `inverseBlockwise_resolvent_of_agree` for the cumulative-sum `h·d` -/
example : ∀ d : List ℚ, d.length = 3 →
    (tempImplicitSparse wNz wDs (hMatrix wDs wT wAl (2 / 7)) d).map (fun a => -a)
      = (tempImplicitDense (hMatrix wDs wT wAl (2 / 7)) d).map (fun a => -a) :=
  fun d hd => hopNeg_sparse_eq_dense wDs wT wAl (2 / 7) wNz wNz_spec (by decide +kernel) d hd

/-- an uneven two-layer column: `log σ`-centres `[-2, -1]`, `Δσ = [1/4, 3/4]`, `T_ref = [2, 3]`,
 `R = 1`, `κ = 1/2`, `η = 1`, `λ = -1`; the exact inverse of its 5×5 implicit matrix -/
def xLc : List ℚ := [-2, -1]
def xDs : List ℚ := [1 / 4, 3 / 4]
def xT : List ℚ := [2, 3]
def xInv : List (List ℚ) :=
  [[632 / 887, -528 / 887, 316 / 887, 420 / 887, -320 / 887],
   [-168 / 887, 320 / 887, -84 / 887, 68 / 887, 624 / 887],
   [-166 / 887, 105 / 887, 804 / 887, -144 / 887, -17 / 887],
   [-72 / 887, -243 / 887, -36 / 887, 536 / 887, -873 / 887],
   [-32 / 887, -108 / 887, -16 / 887, -156 / 887, 499 / 887]]

theorem xM_eq : implicitMatrix (1 : ℚ) (-1) 1 xDs xT (geopotentialWeights 1 (sigmaRatios xLc))
      (hMatrix xDs xT (sigmaRatios xLc) (1 / 2))
    = [[1, 0, -1 / 2, -3 / 2, -2], [0, 1, 0, -1, -3], [5 / 16, 3 / 16, 1, 0, 0],
       [9 / 16, 27 / 16, 0, 1, 0], [1 / 4, 3 / 4, 0, 0, 1]] := by decide +kernel

/-- the left-inverse hypothesis of `primitive_resolvent_sparse` holds for it … -/
theorem xInv_left : ∀ v : List ℚ, v.length = 2 * 2 + 1 →
    matvec xInv (matvec (implicitMatrix (1 : ℚ) (-1) 1 xDs xT
      (geopotentialWeights 1 (sigmaRatios xLc)) (hMatrix xDs xT (sigmaRatios xLc) (1 / 2))) v) = v := by
  intro v hv
  rw [xM_eq]
  match v, hv with
  | [a, b, c, d, e], _ =>
    simp only [xInv, matvec, mulv, List.map_cons, List.map_nil, List.zipWith_cons_cons,
      List.zipWith_nil_right, List.sum_cons, List.sum_nil, List.cons.injEq, and_true]
    refine ⟨?_, ?_, ?_, ?_, ?_⟩ <;> ring

/-- … and so does the right-inverse hypothesis of `primitive_rightInverse` -/
theorem xInv_right : ∀ v : List ℚ, v.length = 2 * 2 + 1 →
    matvec (implicitMatrix (1 : ℚ) (-1) 1 xDs xT
      (geopotentialWeights 1 (sigmaRatios xLc)) (hMatrix xDs xT (sigmaRatios xLc) (1 / 2)))
      (matvec xInv v) = v := by
  intro v hv
  rw [xM_eq]
  match v, hv with
  | [a, b, c, d, e], _ =>
    simp only [xInv, matvec, mulv, List.map_cons, List.map_nil, List.zipWith_cons_cons,
      List.zipWith_nil_right, List.sum_cons, List.sum_nil, List.cons.injEq, and_true]
    refine ⟨?_, ?_, ?_, ?_, ?_⟩ <;> ring

/-- `primitive_resolvent_sparse` instantiated: every two-layer state of that column is recovered
 from `x - η·implicit_terms(x)` computed with both cumulative-sum operators -/
example (d0 d1 t0 t1 p : ℚ) :
    let y := oneMinus 1 (implicitTerms (-1) 1 xDs xT (geopotentialDiffSparse 1 (sigmaRatios xLc))
      (tempImplicitSparse wNz xDs (hMatrix xDs xT (sigmaRatios xLc) (1 / 2)))) ⟨[d0, d1], [t0, t1], p⟩
    inverseStacked xInv y = ⟨[d0, d1], [t0, t1], p⟩ ∧ inverseSplit xInv y = ⟨[d0, d1], [t0, t1], p⟩ :=
  have : NeZero ((1 : ℚ) + 1) := ⟨by norm_num⟩
  primitive_resolvent_sparse 2 1 (-1) 1 xDs xT ⟨[d0, d1], [t0, t1], p⟩ xLc (1 / 2) wNz wNz_spec
    rfl rfl rfl rfl rfl (by decide +kernel) xInv rfl (by decide +kernel) xInv_left

theorem xShaped (x : Col ℚ) (hd : x.d.length = 2) (ht : x.t.length = 2) :
    Shaped 2 xDs xT (geopotentialWeights 1 (sigmaRatios xLc))
      (hMatrix xDs xT (sigmaRatios xLc) (1 / 2)) x :=
  ⟨rfl, rfl, rfl, rfl, by decide +kernel, by decide +kernel, hd, ht⟩

/-- `primitive_twoSided` instantiated -/
example (d0 d1 t0 t1 p : ℚ) :
    oneMinus 1 (implicitTerms (-1) 1 xDs xT (matvec (geopotentialWeights 1 (sigmaRatios xLc)))
        (tempImplicitDense (hMatrix xDs xT (sigmaRatios xLc) (1 / 2))))
      (inverseStacked xInv ⟨[d0, d1], [t0, t1], p⟩) = ⟨[d0, d1], [t0, t1], p⟩ :=
  primitive_rightInverse 2 1 (-1) 1 xDs xT _ _ _ (xShaped _ rfl rfl) xInv rfl xInv_right

/-- `timeReversed_resolvent` instantiated: the forward equation's solve at step `1` serves the
 time-reversed equation at step `-1` -/
example (d0 d1 t0 t1 p : ℚ) :
    let e : Imex.ImEx ℚ (Col ℚ) :=
      ⟨id, implicitTerms (-1) 1 xDs xT (matvec (geopotentialWeights 1 (sigmaRatios xLc)))
        (tempImplicitDense (hMatrix xDs xT (sigmaRatios xLc) (1 / 2))),
       fun y _ => inverseStacked xInv y⟩
    (Imex.timeReversed e).Ginv (oneMinus (-1) (Imex.timeReversed e).G ⟨[d0, d1], [t0, t1], p⟩) (-1)
      = ⟨[d0, d1], [t0, t1], p⟩ := by
  intro e
  apply timeReversed_resolvent
  have := (primitive_resolvent 2 1 (-1) 1 xDs xT _ _ ⟨[d0, d1], [t0, t1], p⟩ (xShaped _ rfl rfl) xInv
    rfl (by decide +kernel) xInv_left).1
  simpa [e] using this

/-- linearity is about non-trivial operators: the implicit terms of that column do not vanish -/
example : (implicitTerms (-1 : ℚ) 1 xDs xT (matvec (geopotentialWeights 1 (sigmaRatios xLc)))
    (tempImplicitDense (hMatrix xDs xT (sigmaRatios xLc) (1 / 2))) ⟨[1, 2], [3, 4], 5⟩).t ≠ [0, 0] := by
  decide +kernel


theorem yH : hMatrix ([1] : List ℚ) [2] [1] (3 / 2) = [[3]] := by decide +kernel
theorem yM : implicitMatrix (1 : ℚ) (-2) 1 [1] [2] [[1]] [[3]] = [[1, -2, -4], [3, 1, 0], [1, 0, 1]] := by
  decide +kernel

theorem len1 (l : List ℚ) (h : l.length = 1) : ∃ a, l = [a] := by
  match l, h with
  | [a], _ => exact ⟨a, rfl⟩

/-- `inverseBlockwise_resolvent_sparseH` instantiated: all seven hypotheses hold for the one-layer
 column `Δσ = [1]`, `T_ref = [2]`, `α = [1]`, `κ = 3/2`, `η = 1`, `λ = -2`, with the exact inverses
 `(I - G̃H̃)⁻¹ = [1/11]`, `(I - H̃G̃)⁻¹ = [[5,-12],[-2,7]]/11` -/
example (a b c : ℚ) :
    let m := implicitMatrix (1 : ℚ) (-2) 1 [1] [2] [[1]] (hMatrix [1] [2] [1] (3 / 2))
    let hopNeg := fun v => (tempImplicitDense (hMatrix ([1] : List ℚ) [2] [1] (3 / 2)) v).map (fun a => -a)
    inverseBlockwise 1 (-2) m [[1 / 11]] [[5 / 11, -12 / 11], [-2 / 11, 7 / 11]] (matvec [[1]])
      (fun v => (tempImplicitSparse wNz [1] (hMatrix [1] [2] [1] (3 / 2)) v).map (fun a => -a))
      ⟨addv [a] (gAct 1 (-2) m (matvec [[1]]) 1 [b] c), addv [b] (hActT 1 hopNeg [a]), c + hActP m 1 [a]⟩
      = ⟨[a], [b], c⟩ := by
  intro m hopNeg
  refine inverseBlockwise_resolvent_sparseH 1 1 (-2) [1] [2] ⟨[a], [b], c⟩ [1] (3 / 2) wNz wNz_spec rfl
    (by decide +kernel) m [[1 / 11]] [[5 / 11, -12 / 11], [-2 / 11, 7 / 11]] (matvec [[1]]) rfl rfl
    ?_ ?_ ?_ ?_ ?_ ?_ ?_ <;> simp only [m, yH, yM]
  · intro t p; simp [gAct, addv, matvec, block]
  · intro d; simp [hActT, smul, tempImplicitDense, matvec, negMat]
  · intro t1 t2 p1 p2 h1 h2
    obtain ⟨u, rfl⟩ := len1 t1 h1
    obtain ⟨v, rfl⟩ := len1 t2 h2
    simp [gAct, addv, matvec, block, mulv]; ring
  · intro d1 d2 h1 h2
    obtain ⟨u, rfl⟩ := len1 d1 h1
    obtain ⟨v, rfl⟩ := len1 d2 h2
    simp [hActT, smul, tempImplicitDense, matvec, negMat, addv, mulv]; ring
  · intro d1 d2 h1 h2
    obtain ⟨u, rfl⟩ := len1 d1 h1
    obtain ⟨v, rfl⟩ := len1 d2 h2
    simp [hActP, addv, matvec, block, mulv]
  · intro d h1
    obtain ⟨u, rfl⟩ := len1 d h1
    simp [gAct, hActT, hActP, smul, tempImplicitDense, negMat, addv, subv, matvec, block, mulv]; ring
  · intro t p h1
    obtain ⟨u, rfl⟩ := len1 t h1
    simp [tpApply, gAct, hActT, hActP, smul, tempImplicitDense, negMat, addv, subv, matvec, block, mulv]
    constructor <;> ring

/-! ### non-vacuity of the converse results for the pre-repair form -/

/-- the hypotheses of `equidistant_of_sparseOld_eq_dense` hold on the uneven 3-layer witness column
 (three layers, both corner coefficients non-zero) … -/
example : 3 ≤ wDs.length ∧ hM wDs wT wAl (2 / 7) (wDs.length - 1) 0 ≠ 0
    ∧ hM wDs wT wAl (2 / 7) 0 (wDs.length - 1) ≠ 0 := by decide +kernel

/-- … so, its thicknesses being unequal, the pre-repair form must differ from the dense product on
 some column (consistent with the explicit witness `sparseOld_ne_dense`) -/
example : ¬ ∀ d : List ℚ, d.length = wDs.length →
    tempImplicitSparseOld wNz (hMatrix wDs wT wAl (2 / 7)) d
      = tempImplicitDense (hMatrix wDs wT wAl (2 / 7)) d := fun h =>
  absurd (equidistant_of_sparseOld_eq_dense wDs wT wAl (2 / 7) wNz wNz_spec (by decide)
    (by decide +kernel) (by decide +kernel) h 1 (by decide)) (by decide +kernel)

/-- two *uneven* layers (`Δσ = [1/4, 3/4]`): the pre-repair form was already right, on a non-zero `H` -/
example (d0 d1 : ℚ) :
    tempImplicitSparseOld wNz (hMatrix xDs xT (sigmaRatios xLc) (1 / 2)) [d0, d1]
      = tempImplicitDense (hMatrix xDs xT (sigmaRatios xLc) (1 / 2)) [d0, d1] :=
  sparseOld_eq_dense_two_layers xDs xT _ (1 / 2) wNz wNz_spec (by decide) _ rfl

example : tempImplicitDense (hMatrix xDs xT (sigmaRatios xLc) (1 / 2)) [1, 2] ≠ [0, 0] := by
  decide +kernel

/-! ### non-vacuity of the block-wise bridge: two uneven layers -/

/-- the exact inverses of the two blocks the block-wise strategy inverts for the uneven two-layer
 column `xLc`, `xDs`, `xT` (`R = 1`, `κ = 1/2`, `η = 1`, `λ = -1`) -/
def xDivInv : List (List ℚ) := [[632 / 887, -528 / 887], [-168 / 887, 320 / 887]]
def xTpInv : List (List ℚ) :=
  [[804 / 887, -144 / 887, -17 / 887], [-36 / 887, 536 / 887, -873 / 887],
   [-16 / 887, -156 / 887, 499 / 887]]

theorem xDivMat_eq : blockwiseDivMatrix (implicitMatrix (1 : ℚ) (-1) 1 xDs xT
      (geopotentialWeights 1 (sigmaRatios xLc)) (hMatrix xDs xT (sigmaRatios xLc) (1 / 2))) 2
    = [[5 / 2, 33 / 8], [21 / 16, 79 / 16]] := by decide +kernel

theorem xTpMat_eq : blockwiseTpMatrix (implicitMatrix (1 : ℚ) (-1) 1 xDs xT
      (geopotentialWeights 1 (sigmaRatios xLc)) (hMatrix xDs xT (sigmaRatios xLc) (1 / 2))) 2
    = [[37 / 32, 21 / 32, 19 / 16], [9 / 32, 113 / 32, 99 / 16], [1 / 8, 9 / 8, 15 / 4]] := by
  decide +kernel

/-- the left-inverse contract of `div_inverse` holds for it … -/
theorem xDivInv_left : ∀ v : List ℚ, v.length = 2 →
    matvec xDivInv (matvec (blockwiseDivMatrix (implicitMatrix (1 : ℚ) (-1) 1 xDs xT
      (geopotentialWeights 1 (sigmaRatios xLc)) (hMatrix xDs xT (sigmaRatios xLc) (1 / 2))) 2) v) = v := by
  intro v hv
  rw [xDivMat_eq]
  match v, hv with
  | [a, b], _ =>
    simp only [xDivInv, matvec, mulv, List.map_cons, List.map_nil, List.zipWith_cons_cons,
      List.zipWith_nil_right, List.sum_cons, List.sum_nil, List.cons.injEq, and_true]
    refine ⟨?_, ?_⟩ <;> ring

/-- … and so does the contract of `temp_logp_inverse` -/
theorem xTpInv_left : ∀ v : List ℚ, v.length = 2 + 1 →
    matvec xTpInv (matvec (blockwiseTpMatrix (implicitMatrix (1 : ℚ) (-1) 1 xDs xT
      (geopotentialWeights 1 (sigmaRatios xLc)) (hMatrix xDs xT (sigmaRatios xLc) (1 / 2))) 2) v) = v := by
  intro v hv
  rw [xTpMat_eq]
  match v, hv with
  | [a, b, c], _ =>
    simp only [xTpInv, matvec, mulv, List.map_cons, List.map_nil, List.zipWith_cons_cons,
      List.zipWith_nil_right, List.sum_cons, List.sum_nil, List.cons.injEq, and_true]
    refine ⟨?_, ?_, ?_⟩ <;> ring

/-- `blockwise_is_resolvent` instantiated on two uneven layers (`Δσ = [1/4, 3/4]`, non-constant
 `T_ref`): every state of that column is recovered by the block-wise strategy from
 `x - η·implicit_terms(x)`, with cumulative-sum or dense vertical products in `implicit_terms` -/
example (d0 d1 t0 t1 p : ℚ) :
    let M := implicitMatrix (1 : ℚ) (-1) 1 xDs xT (geopotentialWeights 1 (sigmaRatios xLc))
      (hMatrix xDs xT (sigmaRatios xLc) (1 / 2))
    let gop := geopotentialDiffSparse (1 : ℚ) (sigmaRatios xLc)
    let hop := tempImplicitSparse wNz xDs (hMatrix xDs xT (sigmaRatios xLc) (1 / 2))
    let solve := inverseBlockwise 1 (-1) M xDivInv xTpInv gop (fun v => (hop v).map (fun a => -a))
    solve (oneMinus 1 (implicitTerms (-1) 1 xDs xT gop hop) ⟨[d0, d1], [t0, t1], p⟩)
        = ⟨[d0, d1], [t0, t1], p⟩
    ∧ solve (oneMinus 1 (implicitTerms (-1) 1 xDs xT (geopotentialDiffDense 1 (sigmaRatios xLc))
        (tempImplicitDense (hMatrix xDs xT (sigmaRatios xLc) (1 / 2)))) ⟨[d0, d1], [t0, t1], p⟩)
        = ⟨[d0, d1], [t0, t1], p⟩ :=
  have : NeZero ((1 : ℚ) + 1) := ⟨by norm_num⟩
  blockwise_is_resolvent 2 1 (-1) 1 xDs xT ⟨[d0, d1], [t0, t1], p⟩ xLc (1 / 2) wNz wNz_spec
    rfl rfl rfl rfl rfl (by decide +kernel) xDivInv xTpInv (by decide +kernel) xDivInv_left xTpInv_left

/-- the matrix form of the contract (`inv(A) @ A = I`, what the harness evaluates) holds as well -/
example : matmul xDivInv (blockwiseDivMatrix (implicitMatrix (1 : ℚ) (-1) 1 xDs xT
      (geopotentialWeights 1 (sigmaRatios xLc)) (hMatrix xDs xT (sigmaRatios xLc) (1 / 2))) 2) 2 = eye 2
    ∧ matmul xTpInv (blockwiseTpMatrix (implicitMatrix (1 : ℚ) (-1) 1 xDs xT
      (geopotentialWeights 1 (sigmaRatios xLc)) (hMatrix xDs xT (sigmaRatios xLc) (1 / 2))) 2) 3 = eye 3 := by
  decide +kernel

/-- the result is not trivially `x`: the solve is applied to a state that differs from `x` -/
example : (oneMinus (1 : ℚ) (implicitTerms (-1) 1 xDs xT (geopotentialDiffSparse 1 (sigmaRatios xLc))
      (tempImplicitSparse wNz xDs (hMatrix xDs xT (sigmaRatios xLc) (1 / 2)))) ⟨[1, 2], [3, 4], 5⟩).d
    ≠ [1, 2] := by decide +kernel

end nonvacuity2

end Dino.C03
