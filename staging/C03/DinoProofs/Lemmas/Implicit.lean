import Dino.Implicit
import DinoProofs.Lemmas.Sigma

namespace Dino.Implicit
open Dino.Sigma
variable {K : Type} [Field K]

/-- dot product of a matrix row with a vector, as `_vertical_matvec` computes it -/
def dot (r x : List K) : K := (mulv r x).sum

theorem matvec_eq_map_dot (a : List (List K)) (x : List K) : matvec a x = a.map fun r => dot r x := rfl

@[simp] theorem matvec_length (a : List (List K)) (x : List K) : (matvec a x).length = a.length := by
  simp [matvec]

theorem dot_append (r1 r2 x1 x2 : List K) (h : r1.length = x1.length) :
    dot (r1 ++ r2) (x1 ++ x2) = dot r1 x1 + dot r2 x2 := by
  simp [dot, mulv, List.zipWith_append h]

theorem dot_map_mul (c : K) (r x : List K) : dot (r.map (c * ·)) x = c * dot r x := by
  unfold dot mulv
  induction r generalizing x with
  | nil => simp
  | cons a t ih =>
    cases x with
    | nil => simp
    | cons b u => simp only [List.map_cons, List.zipWith_cons_cons, List.sum_cons, ih]; ring

theorem dot_map_mul2 (a b : K) (r x : List K) :
    dot (r.map (fun v => a * (b * v))) x = a * (b * dot r x) := by
  have h : (r.map fun v => a * (b * v)) = r.map ((a * b) * ·) := by
    apply List.map_congr_left; intro v _; ring
  rw [h, dot_map_mul]; ring

theorem dot_singleton (a b : K) : dot [a] [b] = a * b := by simp [dot, mulv]

theorem dot_zeros (n : Nat) (x : List K) : dot (zeros n) x = 0 := by
  unfold dot mulv zeros
  induction n generalizing x with
  | zero => simp
  | succ n ih =>
    cases x with
    | nil => simp
    | cons b u =>
      rw [List.range_succ_eq_map, List.map_cons, List.map_map, List.zipWith_cons_cons, List.sum_cons]
      have := ih u
      simp only [Function.comp_def] at this ⊢
      rw [this]; ring

theorem dot_eyeRow (n j : Nat) (x : List K) (hn : x.length = n) (hj : j < n) :
    dot (eyeRow n j) x = x.getD j 0 := by
  unfold dot mulv eyeRow
  induction n generalizing x j with
  | zero => omega
  | succ n ih =>
    match x, hn with
    | b :: u, hn =>
      rw [List.range_succ_eq_map, List.map_cons, List.map_map, List.zipWith_cons_cons, List.sum_cons]
      cases j with
      | zero =>
        have hz : List.map ((fun k => if k = 0 then (1 : K) else 0) ∘ Nat.succ) (List.range n)
            = zeros n := by
          unfold zeros; apply List.map_congr_left; intro k _; simp
        rw [hz]
        have := dot_zeros n u
        unfold dot mulv at this
        rw [this]; simp
      | succ j =>
        have hz : List.map ((fun k => if k = j + 1 then (1 : K) else 0) ∘ Nat.succ) (List.range n)
            = List.map (fun k => if k = j then (1 : K) else 0) (List.range n) := by
          apply List.map_congr_left; intro k _; simp
        rw [hz, ih j u (by simpa using hn) (by omega)]
        simp

theorem dot_add_right (r x y : List K) (h : x.length = y.length) :
    dot r (addv x y) = dot r x + dot r y := by
  unfold dot mulv addv
  induction r generalizing x y with
  | nil => simp
  | cons a t ih =>
    match x, y, h with
    | [], [], _ => simp
    | b :: u, c :: v, h =>
      simp only [List.zipWith_cons_cons, List.sum_cons]
      rw [ih u v (by simpa using h)]; ring

theorem dot_sub_right (r x y : List K) (h : x.length = y.length) :
    dot r (subv x y) = dot r x - dot r y := by
  unfold dot mulv subv
  induction r generalizing x y with
  | nil => simp
  | cons a t ih =>
    match x, y, h with
    | [], [], _ => simp
    | b :: u, c :: v, h =>
      simp only [List.zipWith_cons_cons, List.sum_cons]
      rw [ih u v (by simpa using h)]; ring

theorem dot_smul_right (c : K) (r x : List K) : dot r (smul c x) = c * dot r x := by
  unfold dot mulv smul
  induction r generalizing x with
  | nil => simp
  | cons a t ih =>
    cases x with
    | nil => simp
    | cons b u => simp only [List.map_cons, List.zipWith_cons_cons, List.sum_cons, ih]; ring

theorem dot_neg_left (r x : List K) : dot (r.map fun v => -v) x = -dot r x := by
  have := dot_map_mul (-1 : K) r x
  simpa using this


/-! ### slicing a row of a `(2n+1)`-wide matrix -/

theorem dot_split3 (n : Nat) (r d t : List K) (p : K) (hd : d.length = n) (ht : t.length = n)
    (hr : r.length = 2 * n + 1) :
    dot r (d ++ t ++ [p])
      = dot ((r.drop 0).take n) d + dot ((r.drop n).take n) t + dot ((r.drop (2 * n)).take 1) [p] := by
  have h1 : r = r.take n ++ ((r.drop n).take n ++ (r.drop (2 * n)).take 1) := by
    conv_lhs => rw [← List.take_append_drop n r]
    congr 1
    conv_lhs => rw [← List.take_append_drop n (r.drop n)]
    congr 1
    rw [List.drop_drop]
    have : n + n = 2 * n := by omega
    rw [this, List.take_of_length_le]
    simp; omega
  conv_lhs => rw [h1]
  rw [List.append_assoc, dot_append _ _ _ _ (by simp; omega), dot_append _ _ _ _ (by simp; omega)]
  simp [add_assoc]

theorem stack_length (x : Col K) : (stack x).length = x.d.length + x.t.length + 1 := by
  simp [stack]; omega

theorem unstack_stack (x : Col K) (h : x.t.length = x.d.length) : unstack x.d.length (stack x) = x := by
  cases x with
  | mk d t p =>
    simp only [unstack, stack] at h ⊢
    congr
    · simp
    · rw [List.append_assoc, List.drop_left, ← h, List.take_left]
    · have : 2 * d.length = (d ++ t).length := by simp [h]; omega
      rw [this, List.drop_left]; rfl

theorem stack_unstack (n : Nat) (v : List K) (h : v.length = 2 * n + 1) :
    stack (unstack n v) = v := by
  simp only [stack, unstack]
  have h2 : (v.drop (2 * n)) = [(v.drop (2 * n)).headD 0] := by
    have hl : (v.drop (2 * n)).length = 1 := by simp; omega
    match hv : v.drop (2 * n), hl with
    | [a], _ => simp
  conv_rhs => rw [← List.take_append_drop n v, ← List.take_append_drop n (v.drop n)]
  rw [List.drop_drop, show n + n = 2 * n by omega, ← h2, List.append_assoc]


/-! ### vector arithmetic on lists of equal length -/

theorem subv_addv_cancel (d a c : List K) (h1 : a.length = d.length) (h2 : c.length = d.length) :
    subv (addv d a) (addv a c) = subv d c := by
  apply List.ext_getElem
  · simp [subv, addv, h1, h2]
  · intro i h3 h4
    simp only [subv, addv, List.getElem_zipWith]
    ring

theorem subv_subv (d a b : List K) : subv (subv d a) b = subv d (addv a b) := by
  unfold subv addv
  induction d generalizing a b with
  | nil => simp
  | cons x t ih =>
    cases a with
    | nil => simp
    | cons y u =>
      cases b with
      | nil => simp
      | cons z v => simp only [List.zipWith_cons_cons, ih]; congr 1; ring


/-! ### entry-wise formulas: cumulative sums, the cumulative-sum ("sparse") vertical product -/

theorem cumsum_getElem (x : List K) (j : Nat) (h : j < (cumsum x).length) :
    (cumsum x)[j] = (x.take (j + 1)).sum := by
  have hj : j < x.length := by simpa [cumsum] using h
  have := cumsumFrom_getElem? (0 : K) x j
  rw [if_pos hj, zero_add] at this
  exact (List.getElem_eq_iff h).2 this

theorem rcumsum_getElem (x : List K) (j : Nat) (h : j < (rcumsum x).length) :
    (rcumsum x)[j] = (x.drop j).sum := by
  have hj : j < x.length := by simpa using h
  have := rcumsum_getElem? x j
  rw [if_pos hj] at this
  exact (List.getElem_eq_iff h).2 this

theorem sum_drop_eq (x : List K) (r : Nat) (h : r < x.length) :
    (x.drop r).sum = x[r] + (x.drop (r + 1)).sum := by
  rw [List.drop_eq_getElem_cons h, List.sum_cons]

theorem sum_split_at (x : List K) (r : Nat) (h : r < x.length) :
    x.sum = (x.take r).sum + x[r] + (x.drop (r + 1)).sum := by
  rw [← List.sum_take_add_sum_drop x r, sum_drop_eq x r h]; ring

/-- two lists proportional entry by entry have proportional sums -/
theorem sum_eq_mul_sum (c : K) (a b : List K) (hl : a.length = b.length)
    (h : ∀ i (h1 : i < a.length) (h2 : i < b.length), a[i] = c * b[i]) : a.sum = c * b.sum := by
  have : a = smul c b := by
    apply List.ext_getElem
    · simp [smul, hl]
    · intro i h1 h2
      simp only [smul, List.getElem_map]
      exact h i h1 (by omega)
  rw [this, sum_smul]

omit [Field K] in
theorem cons_tail_getElem (a : K) (l : List K) (r : Nat) (h : r < (a :: l.tail).length)
    (hl : r < l.length) : (a :: l.tail)[r] = if r = 0 then a else l[r] := by
  cases r with
  | zero => simp
  | succ r => simp

omit [Field K] in
theorem dropLast_append_getElem (a : K) (l : List K) (r : Nat) (h : r < (l.dropLast ++ [a]).length)
    (hl : r < l.length) : (l.dropLast ++ [a])[r] = if r + 1 = l.length then a else l[r] := by
  by_cases hr : r + 1 = l.length
  · rw [if_pos hr, List.getElem_append_right (by simp; omega)]
    simp
  · rw [if_neg hr, List.getElem_append_left (by simp; omega)]
    simp

/-- the cumulative-sum product with the guard resolved: `up`, `diag`, `down` weights, cumulative
 sums of `x`, diagonal term on `y` -/
def sparseCore (up diag down x y : List K) : List K :=
  addv (addv (mulv up (subv (cumsum x) x)) (mulv diag y)) (mulv down (subv (rcumsum x) x))

theorem sparseCore_length (n : Nat) (up diag down x y : List K) (h1 : up.length = n)
    (h2 : diag.length = n) (h3 : down.length = n) (h4 : x.length = n) (h5 : y.length = n) :
    (sparseCore up diag down x y).length = n := by
  simp [sparseCore, addv, mulv, subv, cumsum, h1, h2, h3, h4, h5]

theorem sparseCore_getElem (n : Nat) (up diag down x y : List K) (h1 : up.length = n)
    (h2 : diag.length = n) (h3 : down.length = n) (h4 : x.length = n) (h5 : y.length = n)
    (r : Nat) (hr : r < n) (h : r < (sparseCore up diag down x y).length) :
    (sparseCore up diag down x y)[r]
      = up[r] * (x.take r).sum + diag[r] * y[r] + down[r] * (x.drop (r + 1)).sum := by
  simp only [sparseCore, addv, mulv, subv, List.getElem_zipWith, cumsum_getElem, rcumsum_getElem]
  rw [List.sum_take_succ x r (by omega), sum_drop_eq x r (by omega)]
  ring

/-- the guard `down.any (· ≠ 0)` only skips a term that is zero -/
theorem guard_irrelevant (nz : K → Bool) (hnz : ∀ v, nz v = true ↔ v ≠ 0) (res down e : List K)
    (h1 : res.length ≤ down.length) (h2 : res.length ≤ e.length) :
    (if down.any nz then addv res (mulv down e) else res) = addv res (mulv down e) := by
  split
  · rfl
  · rename_i hg
    have hz : ∀ v ∈ down, v = 0 := by
      intro v hv
      have := (List.any_eq_false.1 (by simpa using hg)) v hv
      by_contra hne
      exact this ((hnz v).2 hne)
    apply List.ext_getElem
    · simp [addv, mulv]; omega
    · intro i h3 h4
      simp only [addv, mulv, List.getElem_zipWith]
      rw [hz _ (List.getElem_mem _)]
      ring

/-- matrix given by its entries -/
def mkMat (n : Nat) (e : Nat → Nat → K) : List (List K) :=
  (List.range n).map fun r => (List.range n).map fun s => e r s

theorem hMatrix_eq_mkMat (ds T al : List K) (kappa : K) :
    hMatrix ds T al kappa = mkMat ds.length (hEntry ds T al kappa) := rfl

theorem negMat_mkMat (n : Nat) (e : Nat → Nat → K) :
    negMat (mkMat n e) = mkMat n fun r s => -e r s := by
  simp [negMat, mkMat, Function.comp_def]

omit [Field K] in
@[simp] theorem mkMat_length (n : Nat) (e : Nat → Nat → K) : (mkMat n e).length = n := by
  simp [mkMat]

theorem colOf_mkMat (n : Nat) (e : Nat → Nat → K) (c : Nat) (hc : c < n) :
    colOf (mkMat n e) c = (List.range n).map fun r => e r c := by
  simp [colOf, mkMat, Function.comp_def, List.getD_eq_getElem?_getD, hc]

theorem diagOf_mkMat (n : Nat) (e : Nat → Nat → K) :
    diagOf (mkMat n e) = (List.range n).map fun r => e r r := by
  unfold diagOf
  rw [mkMat_length]
  apply List.map_congr_left
  intro r hr
  have hr' : r < n := List.mem_range.1 hr
  simp [mkMat, List.getD_eq_getElem?_getD, hr']

theorem scaled_mkMat (ds : List K) (e : Nat → Nat → K) :
    ((mkMat ds.length e).map fun row => List.zipWith (fun v t => v / t) row ds)
      = mkMat ds.length fun r s => e r s / ds.getD s 0 := by
  unfold mkMat
  rw [List.map_map]
  apply List.map_congr_left
  intro r _
  apply List.ext_getElem
  · simp
  · intro s h1 h2
    have hs : s < ds.length := by simpa using h2
    simp [List.getD_eq_getElem?_getD, hs]

/-- **Cumulative-sum product = dense product**, abstractly: if, row by row, the matrix entries
 times `d` are `up[r]·x[s]` left of the diagonal, `diag[r]·y[r]` on it and `down[r]·x[s]` right of
 it, the cumulative-sum form computes the matrix–vector product. -/
theorem sparseCore_eq_matvec (n : Nat) (e : Nat → Nat → K) (up diag down x y d : List K)
    (h1 : up.length = n) (h2 : diag.length = n) (h3 : down.length = n) (h4 : x.length = n)
    (h5 : y.length = n) (h6 : d.length = n)
    (hup : ∀ r s (_ : s < r) (hr : r < n), e r s * d[s] = up[r] * x[s])
    (hdiag : ∀ r (hr : r < n), e r r * d[r] = diag[r] * y[r])
    (hdown : ∀ r s (_ : r < s) (hs : s < n), e r s * d[s] = down[r] * x[s]) :
    sparseCore up diag down x y = matvec (mkMat n e) d := by
  apply List.ext_getElem
  · rw [sparseCore_length n _ _ _ _ _ h1 h2 h3 h4 h5]; simp
  · intro r hr1 hr2
    have hr : r < n := by simpa using hr2
    rw [sparseCore_getElem n _ _ _ _ _ h1 h2 h3 h4 h5 r hr]
    simp only [matvec, mkMat, List.getElem_map, List.getElem_range]
    have hzl : (mulv ((List.range n).map fun s => e r s) d).length = n := by simp [mulv, h6]
    have hz : ∀ s (hs : s < (mulv ((List.range n).map fun s => e r s) d).length),
        (mulv ((List.range n).map fun s => e r s) d)[s] = e r s * d[s]'(by omega) := by
      intro s hs
      simp [mulv]
    rw [sum_split_at (mulv ((List.range n).map fun s => e r s) d) r (by omega), hz r (by omega),
      hdiag r hr]
    congr 1
    · congr 1
      symm
      apply sum_eq_mul_sum
      · simp [hzl, h4]
      · intro i hi1 hi2
        have hi : i < r := by rw [List.length_take] at hi1; omega
        rw [List.getElem_take, List.getElem_take, hz i (by omega)]
        exact hup r i hi hr
    · symm
      apply sum_eq_mul_sum
      · simp [hzl, h4]
      · intro i hi1 hi2
        have hi : r + 1 + i < n := by rw [List.length_drop, hzl] at hi1; omega
        rw [List.getElem_drop, List.getElem_drop, hz _ (by omega)]
        exact hdown r (r + 1 + i) (by omega) hi

/-! ### shapes of `G`, `H`, `α` -/

@[simp] theorem geoOffDiag_length (R p : K) (l : List K) : (geoOffDiag R p l).length = l.length := by
  induction l generalizing p with
  | nil => rfl
  | cons a t ih => simp [geoOffDiag, ih]

@[simp] theorem geopotentialWeights_length (R : K) (al : List K) :
    (geopotentialWeights R al).length = al.length := by
  induction al with
  | nil => rfl
  | cons a t ih => simp [geopotentialWeights, ih]

theorem geopotentialWeights_row_length (R : K) (al : List K) :
    ∀ r ∈ geopotentialWeights R al, r.length = al.length := by
  induction al with
  | nil => simp [geopotentialWeights]
  | cons a t ih =>
    intro r hr
    simp only [geopotentialWeights, List.mem_cons, List.mem_map] at hr
    rcases hr with rfl | ⟨r', hr', rfl⟩
    · simp
    · simp [ih r' hr']

@[simp] theorem sigmaRatios_length (lc : List K) : (sigmaRatios lc).length = lc.length := by
  induction lc with
  | nil => rfl
  | cons l t ih =>
    cases t with
    | nil => rfl
    | cons l1 r => simp only [sigmaRatios, List.length_cons] at ih ⊢; rw [ih]

@[simp] theorem hMatrix_length (ds T al : List K) (kappa : K) :
    (hMatrix ds T al kappa).length = ds.length := by simp [hMatrix]

theorem hMatrix_row_length (ds T al : List K) (kappa : K) :
    ∀ r ∈ hMatrix ds T al kappa, r.length = ds.length := by
  intro r hr
  simp only [hMatrix, List.mem_map] at hr
  obtain ⟨_, _, rfl⟩ := hr
  simp

/-! ### matrix products, identity, difference (for the matrices `method='blockwise'` inverts) -/

theorem dot_comm (r x : List K) : dot r x = dot x r := by
  unfold dot mulv
  rw [List.zipWith_comm_of_comm (fun a b => mul_comm a b)]

theorem dot_add_left (r s x : List K) (h : r.length = s.length) :
    dot (addv r s) x = dot r x + dot s x := by
  rw [dot_comm, dot_add_right x r s h, dot_comm x r, dot_comm x s]

theorem dot_sub_left (r s x : List K) (h : r.length = s.length) :
    dot (subv r s) x = dot r x - dot s x := by
  rw [dot_comm, dot_sub_right x r s h, dot_comm x r, dot_comm x s]

theorem dot_nil_right (r : List K) : dot r [] = 0 := by simp [dot, mulv]
theorem dot_nil_left (x : List K) : dot [] x = 0 := by simp [dot, mulv]
theorem dot_cons (a b : K) (r x : List K) : dot (a :: r) (b :: x) = a * b + dot r x := by
  simp [dot, mulv]

theorem map_getD_range {α : Type} (l : List α) (d : α) :
    (List.range l.length).map (fun c => l.getD c d) = l := by
  apply List.ext_getElem
  · simp
  · intro i h1 h2
    have : i < l.length := by simpa using h1
    simp [List.getD_eq_getElem?_getD, this]

/-- one row of `(a @ b) v = a (b v)` -/
theorem dot_matmul_row (r : List K) (b : List (List K)) (v : List K)
    (hb : ∀ br ∈ b, br.length = v.length) :
    dot ((List.range v.length).map fun c => dot r (colOf b c)) v = dot r (matvec b v) := by
  induction b generalizing r with
  | nil =>
    simp only [colOf, List.map_nil, dot_nil_right, matvec]
    exact dot_zeros v.length v
  | cons b0 bt ih =>
    cases r with
    | nil =>
      simp only [dot_nil_left]
      exact dot_zeros v.length v
    | cons r0 rt =>
      have hb0 : b0.length = v.length := hb b0 (by simp)
      have h1 : ((List.range v.length).map fun c => dot (r0 :: rt) (colOf (b0 :: bt) c))
          = addv (smul r0 b0) ((List.range v.length).map fun c => dot rt (colOf bt c)) := by
        apply List.ext_getElem
        · simp [addv, smul, hb0]
        · intro i h1 h2
          have hi : i < v.length := by simpa using h1
          simp only [colOf, List.map_cons, dot_cons, List.getElem_map, List.getElem_range, addv, smul,
            List.getElem_zipWith]
          rw [List.getD_eq_getElem?_getD, List.getElem?_eq_getElem (by omega)]
          rfl
      rw [h1, dot_add_left _ _ _ (by simp [smul, hb0]), ih rt (fun br hbr => hb br (by simp [hbr]))]
      have h2 : dot (smul r0 b0) v = r0 * dot b0 v := by
        rw [dot_comm, dot_smul_right, dot_comm]
      rw [h2]
      simp only [matvec_eq_map_dot, List.map_cons, dot_cons]

/-- `(a @ b) v = a (b v)` when the rows of `b` have the length of `v` -/
theorem matvec_matmul (a b : List (List K)) (nc : Nat) (v : List K) (hv : v.length = nc)
    (hb : ∀ br ∈ b, br.length = nc) :
    matvec (matmul a b nc) v = matvec a (matvec b v) := by
  subst hv
  simp only [matmul, matvec_eq_map_dot, List.map_map, Function.comp_def]
  apply List.map_congr_left
  intro r _
  exact dot_matmul_row r b v hb

theorem matvec_eye (n : Nat) (v : List K) (hv : v.length = n) : matvec (eye n) v = v := by
  apply List.ext_getElem
  · simp [eye, hv]
  · intro j h1 h2
    have hj : j < n := by omega
    simp only [eye, matvec_eq_map_dot, List.getElem_map, List.getElem_range]
    rw [dot_eyeRow n j v hv hj, List.getD_eq_getElem?_getD, List.getElem?_eq_getElem h2]
    rfl

theorem matvec_subM (a b : List (List K)) (v : List K)
    (hrow : ∀ i (h1 : i < a.length) (h2 : i < b.length), a[i].length = b[i].length) :
    matvec (subM a b) v = subv (matvec a v) (matvec b v) := by
  apply List.ext_getElem
  · simp [subM, subv]
  · intro i h1 h2
    have ha : i < a.length := by simp [subM] at h1; omega
    have hb : i < b.length := by simp [subM] at h1; omega
    simp only [subM, subv, matvec_eq_map_dot, List.getElem_map, List.getElem_zipWith]
    exact dot_sub_left _ _ _ (hrow i ha hb)

/-- the matrix form of the left-inverse contract (`inv(A) @ A = I`) gives the action form -/
theorem leftInverse_of_matmul_eq_eye (n : Nat) (ainv a : List (List K))
    (ha : ∀ r ∈ a, r.length = n) (h : matmul ainv a n = eye n) (v : List K) (hv : v.length = n) :
    matvec ainv (matvec a v) = v := by
  rw [← matvec_matmul ainv a n v hv ha, h, matvec_eye _ v hv]

/-- `matvec` of a sub-block, row by row -/
theorem matvec_block (m : List (List K)) (r0 nr c0 nc : Nat) (v : List K) :
    matvec (block m r0 nr c0 nc) v
      = ((m.drop r0).take nr).map fun row => dot ((row.drop c0).take nc) v := by
  simp [block, matvec_eq_map_dot, Function.comp_def]

theorem dot_split2 (n : Nat) (r t : List K) (p : K) (ht : t.length = n) (hr : r.length = n + 1) :
    dot r (t ++ [p]) = dot ((r.drop 0).take n) t + dot ((r.drop n).take 1) [p] := by
  have h1 : r = r.take n ++ (r.drop n).take 1 := by
    conv_lhs => rw [← List.take_append_drop n r]
    congr 1
    rw [List.take_of_length_le]
    simp; omega
  conv_lhs => rw [h1]
  rw [dot_append _ _ _ _ (by simp; omega)]
  simp

end Dino.Implicit
