import Dino.Implicit
/-! Line-protocol operations: `implicit <F|Q> <op> args…` -/
namespace Dino.Implicit
open Dino Dino.Sigma

variable (K : Type) [Num K]

def renderCol (x : Col K) : String :=
  renderVec x.d ++ "|" ++ renderVec x.t ++ "|" ++ Num.render x.p

def nzK (x : K) : Bool := Num.ltb x 0 || Num.ltb 0 x

def gopOf (method : String) (R : K) (al : List K) : Option (List K → List K) :=
  if method = "dense" then some (geopotentialDiffDense R al)
  else if method = "sparse" then some (geopotentialDiffSparse R al) else none

def hopOf (method : String) (ds T al : List K) (kappa : K) : Option (List K → List K) :=
  let h := hMatrix ds T al kappa
  if method = "dense" then some (tempImplicitDense h)
  else if method = "sparse" then some (tempImplicitSparse (nzK K) ds h)
  else if method = "sparseold" then some (tempImplicitSparseOld (nzK K) h) else none

def runK : List String → Option String
  | ["hmat", ds, t, al, kappa] => do
      let ds ← parseVec? (K := K) ds; let t ← parseVec? t; let al ← parseVec? al
      let kappa ← Num.parse? kappa
      pure (renderMat (hMatrix ds t al kappa))
  | ["tempimp", m, ds, t, al, kappa, d] => do
      let ds ← parseVec? (K := K) ds; let t ← parseVec? t; let al ← parseVec? al
      let kappa ← Num.parse? kappa; let d ← parseVec? d
      match hopOf K m ds t al kappa with
      | some f => pure (renderVec (f d))
      | none => pure "value-error"
  | ["matrix", eta, lam, r, ds, t, al, kappa] => do
      let eta ← Num.parse? (K := K) eta; let lam ← Num.parse? lam; let r ← Num.parse? r
      let ds ← parseVec? ds; let t ← parseVec? t; let al ← parseVec? al; let kappa ← Num.parse? kappa
      pure (renderMat (implicitMatrix eta lam r ds t (geopotentialWeights r al) (hMatrix ds t al kappa)))
  | ["terms", m, lam, r, ds, t, al, kappa, d, tt, p] => do
      let lam ← Num.parse? (K := K) lam; let r ← Num.parse? r
      let ds ← parseVec? ds; let t ← parseVec? t; let al ← parseVec? al; let kappa ← Num.parse? kappa
      let d ← parseVec? d; let tt ← parseVec? tt; let p ← Num.parse? p
      match gopOf K m r al, hopOf K m ds t al kappa with
      | some g, some h => pure (renderCol K (implicitTerms lam r ds t g h ⟨d, tt, p⟩))
      | _, _ => pure "value-error"
  | ["inv", m, minv, d, tt, p] => do
      let minv ← parseMat? (K := K) minv
      let d ← parseVec? d; let tt ← parseVec? tt; let p ← Num.parse? p
      if m = "split" then pure (renderCol K (inverseSplit minv ⟨d, tt, p⟩))
      else if m = "stacked" then pure (renderCol K (inverseStacked minv ⟨d, tt, p⟩))
      else pure "value-error"
  | ["invblock", eta, lam, r, ds, t, al, kappa, dinv, tpinv, d, tt, p] => do
      let eta ← Num.parse? (K := K) eta; let lam ← Num.parse? lam; let r ← Num.parse? r
      let ds ← parseVec? ds; let t ← parseVec? t; let al ← parseVec? al; let kappa ← Num.parse? kappa
      let dinv ← parseMat? dinv; let tpinv ← parseMat? tpinv
      let d ← parseVec? d; let tt ← parseVec? tt; let p ← Num.parse? p
      let h := hMatrix ds t al kappa
      let m := implicitMatrix eta lam r ds t (geopotentialWeights r al) h
      let hopNeg := fun v => (tempImplicitSparse (nzK K) ds h v).map (fun a => -a)
      pure (renderCol K (inverseBlockwise eta lam m dinv tpinv (geopotentialDiffSparse r al) hopNeg ⟨d, tt, p⟩))
  | ["blockmat", which, eta, lam, r, ds, t, al, kappa] => do
      let eta ← Num.parse? (K := K) eta; let lam ← Num.parse? lam; let r ← Num.parse? r
      let ds ← parseVec? ds; let t ← parseVec? t; let al ← parseVec? al; let kappa ← Num.parse? kappa
      let m := implicitMatrix eta lam r ds t (geopotentialWeights r al) (hMatrix ds t al kappa)
      if which = "div" then pure (renderMat (blockwiseDivMatrix m ds.length))
      else if which = "tp" then pure (renderMat (blockwiseTpMatrix m ds.length))
      else pure "value-error"
  | ["swterms", lam, phi, d, p] => do
      let lam ← Num.parse? (K := K) lam; let phi ← Num.parse? phi
      let d ← Num.parse? d; let p ← Num.parse? p
      let (a, b) := swImplicit lam phi d p
      pure (Num.render a ++ "," ++ Num.render b)
  | ["swinv", eta, lam, phi, d, p] => do
      let eta ← Num.parse? (K := K) eta; let lam ← Num.parse? lam; let phi ← Num.parse? phi
      let d ← Num.parse? d; let p ← Num.parse? p
      let (a, b) := swInverse eta lam phi d p
      pure (Num.render a ++ "," ++ Num.render b)
  | _ => none

def run : List String → Option String
  | "F" :: rest => runK Float rest
  | "Q" :: rest => runK Rat rest
  | _ => none

end Dino.Implicit
