import Dino.Sigma
/-!
# Implicit (semi-implicit) terms and their resolvent — executable model

Mirrors, for one horizontal mode (one total wavenumber with Laplacian eigenvalue `lam`),
`dinosaur/primitive_equations.py`: `get_temperature_implicit_weights`,
`get_temperature_implicit` (dense / sparse), `_get_implicit_term_matrix`,
`PrimitiveEquations.implicit_terms`, `PrimitiveEquations.implicit_inverse`
(split / stacked / blockwise), and `dinosaur/shallow_water.py`:
`ShallowWaterEquations.implicit_terms / implicit_inverse`.

A column state is `(d, t, p)`: divergence and temperature per layer (top first) and the log
surface pressure.  `numpy.linalg.inv` is external: the inverse matrices are parameters.
-/
namespace Dino.Implicit
open Dino.Sigma

variable {K : Type} [Add K] [Sub K] [Mul K] [Div K] [Neg K] [Zero K] [One K]

/-! ## shallow water (one layer, one mode) -/

/-- `implicit_terms`: `divergence = -laplacian(potential)`, `potential = -ref_potential * divergence` -/
def swImplicit (lam phi d p : K) : K × K := (-(lam * p), -(phi * d))

/-- `implicit_inverse` via the Schur complement -/
def swInverse (eta lam phi d p : K) : K × K :=
  let s := 1 / (1 - eta * eta * phi * lam)
  (s * (d - eta * (lam * p)), s * (-eta * phi * d + p))

/-- `x - eta * implicit_terms(x)` -/
def swOneMinus (eta lam phi d p : K) : K × K :=
  let (a, b) := swImplicit lam phi d p
  (d - eta * a, p - eta * b)

/-! ## primitive equations: the matrix `H` -/

def tril (r s : Nat) : K := if s ≤ r then 1 else 0

/-- `k0[r] = (T[r+1] - T[r]) / (Δσ[r] + Δσ[r+1])`, zero in the last layer -/
def hK0 (ds T : List K) (r : Nat) : K :=
  if r + 1 < ds.length then (T.getD (r + 1) 0 - T.getD r 0) / (ds.getD r 0 + ds.getD (r + 1) 0) else 0

/-- `k[r,s] = k0[r] · (P(r-s) - Σ Δσ[:r+1])` -/
def hK (ds T : List K) (r s : Nat) : K :=
  hK0 ds T r * (tril r s - (ds.take (r + 1)).sum)

/-- entry `[r, s]` of `get_temperature_implicit_weights` -/
def hEntry (ds T al : List K) (kappa : K) (r s : Nat) : K :=
  let h0 := kappa * T.getD r 0 *
      (tril r s * al.getD r 0 + (if r = 0 then 0 else tril (r - 1) s * al.getD (r - 1) 0)) / ds.getD r 0
  (h0 - hK ds T r s - (if r = 0 then 0 else hK ds T (r - 1) s)) * ds.getD s 0

/-- `get_temperature_implicit_weights` (Durran's `H`) -/
def hMatrix (ds T al : List K) (kappa : K) : List (List K) :=
  (List.range ds.length).map fun r => (List.range ds.length).map fun s => hEntry ds T al kappa r s

def negMat (m : List (List K)) : List (List K) := m.map fun row => row.map fun v => -v

/-- `get_temperature_implicit(method='dense')`: `(-H) · divergence` -/
def tempImplicitDense (h : List (List K)) (d : List K) : List K := matvec (negMat h) d

def diagOf (m : List (List K)) : List K :=
  (List.range m.length).map fun r => (m.getD r []).getD r 0

def colOf (m : List (List K)) (c : Nat) : List K := m.map fun row => row.getD c 0

/-- `get_temperature_implicit(method='sparse')` (current, repaired code):
 per-side weights are read from `weights / Δσ` and applied to cumulative sums of `Δσ·divergence`.
 `nz` is the test `!= 0` of the guard `(down_weights != 0).any()`. -/
def tempImplicitSparse (nz : K → Bool) (ds : List K) (h : List (List K)) (d : List K) : List K :=
  let w := negMat h
  let n := ds.length
  let scaled := w.map fun row => List.zipWith (fun v t => v / t) row ds
  let up := (0 : K) :: (colOf scaled 0).tail
  let down := (colOf scaled (n - 1)).dropLast ++ [0]
  let wd := mulv ds d
  let upd := subv (cumsum wd) wd
  let res := addv (mulv up upd) (mulv (diagOf w) d)
  if down.any nz then addv res (mulv down (subv (rcumsum wd) wd)) else res

/-- the code before the repair (kept as a negative witness): weights read from `weights` itself
 and applied to cumulative sums of the bare divergence -/
def tempImplicitSparseOld (nz : K → Bool) (h : List (List K)) (d : List K) : List K :=
  let w := negMat h
  let n := w.length
  let up := (0 : K) :: (colOf w 0).tail
  let down := (colOf w (n - 1)).dropLast ++ [0]
  let upd := subv (cumsum d) d
  let res := addv (mulv up upd) (mulv (diagOf w) d)
  if down.any nz then addv res (mulv down (subv (rcumsum d) d)) else res

/-! ## implicit terms of one column -/

structure Col (K : Type) where
  d : List K
  t : List K
  p : K

/-- `PrimitiveEquations.implicit_terms` on one column and mode; `gop` is `get_geopotential_diff`
 and `hop` is `get_temperature_implicit` with the chosen vertical method. -/
def implicitTerms (lam R : K) (ds T : List K) (gop hop : List K → List K) (x : Col K) : Col K :=
  let geo := gop x.t
  let rtp := T.map fun tr => R * tr * x.p
  { d := (addv geo rtp).map fun v => -(v * lam)
    t := hop x.d
    p := -((mulv ds x.d).sum) }

/-- `x - eta * implicit_terms(x)` -/
def oneMinus (eta : K) (f : Col K → Col K) (x : Col K) : Col K :=
  let y := f x
  { d := subv x.d (smul eta y.d), t := subv x.t (smul eta y.t), p := x.p - eta * y.p }

/-! ## the block matrix of `1 - eta·L` -/

def eyeRow (n j : Nat) : List K := (List.range n).map fun k => if k = j then 1 else 0
def zeros (n : Nat) : List K := (List.range n).map fun _ => 0

/-- `_get_implicit_term_matrix` for one total wavenumber -/
def implicitMatrix (eta lam R : K) (ds T : List K) (g h : List (List K)) : List (List K) :=
  let n := ds.length
  let row0 := (List.range n).map fun j =>
    eyeRow n j ++ (g.getD j []).map (fun v => eta * (lam * v)) ++ [eta * R * (lam * T.getD j 0)]
  let row1 := (List.range n).map fun j =>
    (h.getD j []).map (fun v => eta * v) ++ eyeRow n j ++ [0]
  let row2 := [ds.map (fun v => eta * v) ++ zeros n ++ [1]]
  row0 ++ row1 ++ row2

def stack (x : Col K) : List K := x.d ++ x.t ++ [x.p]

def unstack (n : Nat) (v : List K) : Col K :=
  { d := v.take n, t := (v.drop n).take n, p := (v.drop (2 * n)).headD 0 }

/-- sub-block `m[r0:r0+nr, c0:c0+nc]` -/
def block (m : List (List K)) (r0 nr c0 nc : Nat) : List (List K) :=
  ((m.drop r0).take nr).map fun row => (row.drop c0).take nc

/-- `method='stacked'`: one product with the inverse of the full matrix -/
def inverseStacked (minv : List (List K)) (x : Col K) : Col K :=
  unstack x.d.length (matvec minv (stack x))

/-- `method='split'`: nine products with the sub-blocks of the inverse -/
def inverseSplit (minv : List (List K)) (x : Col K) : Col K :=
  let n := x.d.length
  let b := block minv
  { d := addv (addv (matvec (b 0 n 0 n) x.d) (matvec (b 0 n n n) x.t)) (matvec (b 0 n (2 * n) 1) [x.p])
    t := addv (addv (matvec (b n n 0 n) x.d) (matvec (b n n n n) x.t)) (matvec (b n n (2 * n) 1) [x.p])
    p := ((addv (addv (matvec (b (2 * n) 1 0 n) x.d) (matvec (b (2 * n) 1 n n) x.t))
            (matvec (b (2 * n) 1 (2 * n) 1) [x.p]))).headD 0 }

/-! ### the two matrices `method='blockwise'` forms and passes to `numpy.linalg.inv` -/

/-- `a @ b` for a matrix `b` with `nc` columns: `out[i][c] = Σ_k a[i][k]·b[k][c]` -/
def matmul (a b : List (List K)) (nc : Nat) : List (List K) :=
  a.map fun row => (List.range nc).map fun c => (mulv row (colOf b c)).sum

/-- `np.eye(n)` -/
def eye (n : Nat) : List (List K) := (List.range n).map fun j => eyeRow n j

/-- entry-wise difference of two matrices -/
def subM (a b : List (List K)) : List (List K) := List.zipWith subv a b

/-- `np.eye(layers) - implicit_matrix[:, div, temp_logp] @ implicit_matrix[:, temp_logp, div]`
 (one total wavenumber): the `n×n` matrix whose `numpy.linalg.inv` is `div_inverse` -/
def blockwiseDivMatrix (m : List (List K)) (n : Nat) : List (List K) :=
  subM (eye n) (matmul (block m 0 n n (n + 1)) (block m n (n + 1) 0 n) n)

/-- `np.eye(layers + 1) - implicit_matrix[:, temp_logp, div] @ implicit_matrix[:, div, temp_logp]`:
 the `(n+1)×(n+1)` matrix whose `numpy.linalg.inv` is `temp_logp_inverse` -/
def blockwiseTpMatrix (m : List (List K)) (n : Nat) : List (List K) :=
  subM (eye (n + 1)) (matmul (block m n (n + 1) 0 n) (block m 0 n n (n + 1)) (n + 1))

/-- `method='blockwise'`: `divInv = (I - G̃H̃)⁻¹` (n×n), `tpInv = (I - H̃G̃)⁻¹` ((n+1)×(n+1)) are
 the two externally inverted matrices; `m` is the implicit matrix; `gop`/`hopNeg` are the
 matrix-free products `g·t` and `h·d = -get_temperature_implicit(d)`. -/
def inverseBlockwise (eta lam : K) (m divInv tpInv : List (List K))
    (gop hopNeg : List K → List K) (x : Col K) : Col K :=
  let n := x.d.length
  let divFromTemp := (gop x.t).map fun v => eta * lam * v
  let divFromLogp := matvec (block m 0 n (2 * n) 1) [x.p]
  let dNew := matvec divInv (subv (subv x.d divFromTemp) divFromLogp)
  let tempPart := subv x.t (smul eta (hopNeg x.d))
  let logpPart := x.p - (matvec (block m (2 * n) 1 0 n) x.d).headD 0
  let tNew := addv (matvec (block tpInv 0 n 0 n) tempPart) (matvec (block tpInv 0 n n 1) [logpPart])
  let pNew := (addv (matvec (block tpInv n 1 0 n) tempPart) (matvec (block tpInv n 1 n 1) [logpPart])).headD 0
  { d := dNew, t := tNew, p := pNew }

end Dino.Implicit
