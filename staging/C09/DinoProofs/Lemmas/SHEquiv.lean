import Dino.SHEquiv
import DinoProofs.Lemmas.SH
import Mathlib.Algebra.BigOperators.Intervals

/-! Entry formulas for the re-indexing `ι` between the two spherical-harmonic layouts, for
`evens` / `odds` / `stackM`, and for the fast transforms of `Dino.SH`. -/
namespace Dino.SHEquiv
open Finset Dino.Lin Dino.SH
variable {K : Type} [CommRing K]

/-! ### extensionality through entries -/

theorem ent_eq_getElem (v : List K) (i : Nat) (h : i < v.length) : ent v i = v[i] := by
  simp [ent, List.getD_eq_getElem?_getD, List.getElem?_eq_getElem h]

theorem ext_ent (a b : List K) (h : a.length = b.length) (he : ∀ i, ent a i = ent b i) : a = b := by
  apply List.ext_getElem h
  intro i h1 h2
  rw [← ent_eq_getElem a i h1, ← ent_eq_getElem b i h2]
  exact he i

theorem getD_eq_getElem_nil {α : Type} (a : List (List α)) (i : Nat) (h : i < a.length) :
    a.getD i [] = a[i] := by
  simp [List.getD_eq_getElem?_getD, List.getElem?_eq_getElem h]

theorem getD_nil_of_le {α : Type} (a : List (List α)) (i : Nat) (h : a.length ≤ i) :
    a.getD i [] = [] := by
  simp [List.getD_eq_getElem?_getD, List.getElem?_eq_none h]

/-- two matrices with the same number of rows, all rows of width `n`, and the same entries are
 equal -/
theorem ext_ent2 (a b : List (List K)) (n : Nat) (h : a.length = b.length)
    (ha : ∀ r ∈ a, r.length = n) (hb : ∀ r ∈ b, r.length = n)
    (he : ∀ i j, ent2 a i j = ent2 b i j) : a = b := by
  apply List.ext_getElem h
  intro i h1 h2
  apply ext_ent
  · rw [ha _ (List.getElem_mem h1), hb _ (List.getElem_mem h2)]
  · intro j
    have := he i j
    rwa [ent2_eq_ent, ent2_eq_ent, getD_eq_getElem_nil a i h1, getD_eq_getElem_nil b i h2] at this

theorem ent2_of_length_le (a : List (List K)) (i j : Nat) (h : a.length ≤ i) : ent2 a i j = 0 := by
  rw [ent2_eq_ent, getD_nil_of_le a i h]; simp

theorem ent2_of_width_le (a : List (List K)) (n i j : Nat) (ha : ∀ r ∈ a, r.length ≤ n) (h : n ≤ j) :
    ent2 a i j = 0 := by
  rw [ent2_eq_ent]
  rcases Nat.lt_or_ge i a.length with hi | hi
  · rw [getD_eq_getElem_nil a i hi]
    exact ent_of_length_le _ _ (le_trans (ha _ (List.getElem_mem hi)) h)
  · rw [getD_nil_of_le a i hi]; simp

/-! ### padding of vectors -/

theorem ent_append (v u : List K) (i : Nat) :
    ent (v ++ u) i = if i < v.length then ent v i else ent u (i - v.length) := by
  unfold ent
  simp only [List.getD_eq_getElem?_getD]
  split
  · rename_i h; rw [List.getElem?_append_left h]
  · rename_i h; rw [List.getElem?_append_right (by omega)]

@[simp] theorem ent_padRight (n : Nat) (v : List K) (i : Nat) : ent (padRight n v) i = ent v i := by
  unfold padRight
  rw [ent_append]
  split
  · rfl
  · rename_i h
    rw [ent_zerosN, ent_of_length_le v i (by omega)]

@[simp] theorem padRight_length (n : Nat) (v : List K) : (padRight n v).length = v.length + n := by
  simp [padRight, zerosN]

@[simp] theorem zerosN_length (n : Nat) : (zerosN n : List K).length = n := by simp [zerosN]

theorem ent2_cons_zero (r : List K) (t : List (List K)) (j : Nat) : ent2 (r :: t) 0 j = ent r j := by
  simp [ent2, ent]

theorem ent2_cons_succ (r : List K) (t : List (List K)) (i j : Nat) :
    ent2 (r :: t) (i + 1) j = ent2 t i j := by
  simp [ent2]

theorem ent2_nil (i j : Nat) : ent2 ([] : List (List K)) i j = 0 := by simp [ent2]

theorem ent2_append (a b : List (List K)) (i j : Nat) :
    ent2 (a ++ b) i j = if i < a.length then ent2 a i j else ent2 b (i - a.length) j := by
  unfold ent2
  simp only [List.getD_eq_getElem?_getD]
  split
  · rename_i h; rw [List.getElem?_append_left h]
  · rename_i h; rw [List.getElem?_append_right (by omega)]

theorem ent2_replicate_zeros (n w i j : Nat) :
    ent2 (List.replicate n (zerosN w : List K)) i j = 0 := by
  unfold ent2
  simp only [List.getD_eq_getElem?_getD, List.getElem?_replicate]
  split
  · exact ent_zerosN w j
  · simp

theorem ent2_map_padRight (n : Nat) (a : List (List K)) (i j : Nat) :
    ent2 (a.map (padRight n)) i j = ent2 a i j := by
  unfold ent2
  simp only [List.getD_eq_getElem?_getD, List.getElem?_map]
  cases a[i]? with
  | none => simp
  | some r => simpa [ent] using ent_padRight n r j

/-! ### `iota`, `unIota`, `padNodal` -/

/-- the row of the fast layout that holds row `r` of the real layout -/
def src (r : Nat) : Nat := if r = 0 then 0 else r + 1

theorem src_injective : Function.Injective src := by
  intro a b h; unfold src at h; split at h <;> split at h <;> omega

theorem src_ne_one (r : Nat) : src r ≠ 1 := by unfold src; split <;> omega

theorem src_lt (r n : Nat) (h : r + 1 < n) : src r < n := by unfold src; split <;> omega

/-- entries of `ι x`: row 0 is row 0, row 1 is zero, row `r + 2` is row `r + 1`; everything
 outside `x` (the padding) is zero -/
theorem ent2_iota (L pr pc : Nat) (x : List (List K)) (r l : Nat) :
    ent2 (iota L pr pc x) r l = if r = 1 then 0 else ent2 x (r - (if r = 0 then 0 else 1)) l := by
  cases x with
  | nil => simp [iota, ent2_nil]
  | cons r0 rest =>
    unfold iota
    match r with
    | 0 => simp [ent2_cons_zero]
    | 1 =>
      simp only [List.cons_append, ent2_cons_succ, ent2_cons_zero, if_true]
      exact ent_zerosN _ _
    | k + 2 =>
      have hR : (if k + 2 = 1 then (0 : K) else
          ent2 (r0 :: rest) (k + 2 - (if k + 2 = 0 then 0 else 1)) l) = ent2 rest k l := by
        simp [ent2_cons_succ]
      rw [hR]
      simp only [List.cons_append, ent2_cons_succ]
      rw [ent2_append, List.length_map]
      split
      · exact ent2_map_padRight pc rest k l
      · rename_i h
        rw [ent2_replicate_zeros, ent2_of_length_le rest k l (by omega)]

theorem ent2_iota_src (L pr pc : Nat) (x : List (List K)) (r l : Nat) :
    ent2 (iota L pr pc x) (src r) l = ent2 x r l := by
  rw [ent2_iota, if_neg (src_ne_one r)]
  unfold src
  split
  · subst_vars; simp
  · rename_i h; simp

theorem ent2_iota_one (L pr pc : Nat) (x : List (List K)) (l : Nat) :
    ent2 (iota L pr pc x) 1 l = 0 := by rw [ent2_iota]; simp

theorem iota_length (L pr pc : Nat) (x : List (List K)) (hx : x ≠ []) :
    (iota L pr pc x).length = x.length + 1 + pr := by
  cases x with
  | nil => exact absurd rfl hx
  | cons r0 rest => simp [iota]; omega

theorem iota_rows (L pr pc : Nat) (x : List (List K)) (hx : ∀ r ∈ x, r.length = L) :
    ∀ r ∈ iota L pr pc x, r.length = L + pc := by
  cases x with
  | nil => simp [iota]
  | cons r0 rest =>
    intro r hr
    simp only [iota, List.cons_append, List.mem_cons, List.mem_append, List.mem_map,
      List.mem_replicate] at hr
    rcases hr with rfl | rfl | ⟨a, ha, rfl⟩ | ⟨_, rfl⟩
    · simp [hx r0 (List.mem_cons_self ..)]
    · simp
    · simp [hx a (List.mem_cons_of_mem _ ha)]
    · simp

theorem ent_take (v : List K) (n i : Nat) : ent (v.take n) i = if i < n then ent v i else 0 := by
  unfold ent
  simp only [List.getD_eq_getElem?_getD, List.getElem?_take]
  split <;> simp

theorem ent2_map_take (a : List (List K)) (n i j : Nat) :
    ent2 (a.map (List.take n)) i j = if j < n then ent2 a i j else 0 := by
  unfold ent2
  simp only [List.getD_eq_getElem?_getD, List.getElem?_map]
  cases a[i]? with
  | none => simp
  | some r => simpa [ent] using ent_take r n j

theorem ent2_take (a : List (List K)) (n i j : Nat) :
    ent2 (a.take n) i j = if i < n then ent2 a i j else 0 := by
  unfold ent2
  simp only [List.getD_eq_getElem?_getD, List.getElem?_take]
  split <;> simp

/-- entries of `unIota`: row `r` is row `src r` of the fast layout, cut to `L` columns and to the
 first `2M` rows -/
theorem ent2_unIota (twoM L : Nat) (y : List (List K)) (r l : Nat) :
    ent2 (unIota twoM L y) r l = if l < L ∧ src r < twoM then ent2 y (src r) l else 0 := by
  unfold unIota
  have key : ∀ t : List (List K), t = y.take twoM →
      ent2 (match t with
        | r0 :: _ :: rest => (r0 :: rest).map (List.take L)
        | other => other.map (List.take L)) r l
      = if l < L ∧ src r < twoM then ent2 y (src r) l else 0 := by
    intro t ht
    have hent : ∀ i j, ent2 t i j = if i < twoM then ent2 y i j else 0 := by
      intro i j; rw [ht]; exact ent2_take y twoM i j
    match t, hent with
    | [], hent =>
      simp only [List.map_nil, ent2_nil]
      split
      · rename_i h
        have := hent (src r) l
        rw [if_pos h.2, ent2_nil] at this
        exact this
      · rfl
    | [a], hent =>
      rw [ent2_map_take]
      by_cases hl : l < L
      · simp only [hl, true_and, if_true]
        cases r with
        | zero =>
          have := hent 0 l
          simp only [src, if_true] at this ⊢
          exact this
        | succ k =>
          have h1 : ent2 [a] (k + 1) l = 0 := by simp [ent2_cons_succ, ent2_nil]
          have := hent (src (k + 1)) l
          simp only [src, Nat.add_eq_zero_iff, one_ne_zero, and_false, if_false] at this ⊢
          rw [ent2_cons_succ, ent2_nil] at this
          rw [h1]
          exact this
      · simp [hl]
    | a :: b :: rest, hent =>
      rw [ent2_map_take]
      by_cases hl : l < L
      · simp only [hl, true_and, if_true]
        cases r with
        | zero =>
          have := hent 0 l
          simp only [src, if_true] at this ⊢
          rw [ent2_cons_zero] at this ⊢
          exact this
        | succ k =>
          have := hent (src (k + 1)) l
          simp only [src, Nat.add_eq_zero_iff, one_ne_zero, and_false, if_false] at this ⊢
          rw [ent2_cons_succ, ent2_cons_succ] at this
          rw [ent2_cons_succ]
          exact this
      · simp [hl]
  exact key _ rfl

/-! ### `padNodal` -/

theorem ent2_padNodal (pn pj J : Nat) (z : List (List K)) (i j : Nat) :
    ent2 (padNodal pn pj J z) i j = ent2 z i j := by
  unfold padNodal
  rw [ent2_append, List.length_map]
  split
  · exact ent2_map_padRight pj z i j
  · rename_i h
    rw [ent2_replicate_zeros, ent2_of_length_le z i j (by omega)]

theorem padNodal_length (pn pj J : Nat) (z : List (List K)) :
    (padNodal pn pj J z).length = z.length + pn := by simp [padNodal]

theorem padNodal_rows (pn pj J : Nat) (z : List (List K)) (hz : ∀ r ∈ z, r.length = J) :
    ∀ r ∈ padNodal pn pj J z, r.length = J + pj := by
  intro r hr
  simp only [padNodal, List.mem_append, List.mem_map, List.mem_replicate] at hr
  rcases hr with ⟨a, ha, rfl⟩ | ⟨_, rfl⟩
  · simp [hz a ha]
  · simp

/-! ### `evens`, `odds`, `stackM` -/

theorem getElem?_evens {α : Type} (l : List α) (m : Nat) : (evens l)[m]? = l[2 * m]? := by
  fun_induction evens l generalizing m with
  | case1 => simp
  | case2 a => cases m <;> simp
  | case3 a b t ih =>
    cases m with
    | zero => simp
    | succ m => simp [ih m, Nat.mul_succ]

theorem getElem?_odds {α : Type} (l : List α) (m : Nat) : (odds l)[m]? = l[2 * m + 1]? := by
  fun_induction odds l generalizing m with
  | case1 => simp
  | case2 a => simp
  | case3 a b t ih =>
    cases m with
    | zero => simp
    | succ m => simp [ih m, Nat.mul_succ]

theorem evens_length {α : Type} (l : List α) : (evens l).length = (l.length + 1) / 2 := by
  fun_induction evens l with
  | case1 => simp
  | case2 a => simp
  | case3 a b t ih => simp [ih]; omega

theorem odds_length {α : Type} (l : List α) : (odds l).length = l.length / 2 := by
  fun_induction odds l with
  | case1 => simp
  | case2 a => simp
  | case3 a b t ih => simp [ih]; omega

theorem mem_evens {α : Type} (l : List α) (a : α) (h : a ∈ evens l) : a ∈ l := by
  fun_induction evens l with
  | case1 => simp at h
  | case2 b => simpa using h
  | case3 b c t ih =>
    simp only [List.mem_cons] at h ⊢
    rcases h with h | h
    · exact Or.inl h
    · exact Or.inr (Or.inr (ih h))

theorem mem_odds {α : Type} (l : List α) (a : α) (h : a ∈ odds l) : a ∈ l := by
  fun_induction odds l with
  | case1 => simp at h
  | case2 b => simp at h
  | case3 b c t ih =>
    simp only [List.mem_cons] at h ⊢
    rcases h with h | h
    · exact Or.inr (Or.inl h)
    · exact Or.inr (Or.inr (ih h))

theorem stackM_length {α : Type} (a b : List α) (h : a.length = b.length) :
    (stackM a b).length = 2 * a.length := by
  induction a generalizing b with
  | nil => simp [stackM]
  | cons x t ih =>
    cases b with
    | nil => simp at h
    | cons y u => simp [stackM, ih u (by simpa using h)]; omega

theorem mem_stackM {α : Type} (a b : List α) (c : α) (h : c ∈ stackM a b) : c ∈ a ∨ c ∈ b := by
  induction a generalizing b with
  | nil => simp [stackM] at h
  | cons x t ih =>
    cases b with
    | nil => simp [stackM] at h
    | cons y u =>
      simp only [stackM, List.mem_cons] at h ⊢
      rcases h with h | h | h
      · exact Or.inl (Or.inl h)
      · exact Or.inr (Or.inl h)
      · rcases ih u h with h' | h'
        · exact Or.inl (Or.inr h')
        · exact Or.inr (Or.inr h')

theorem getElem?_stackM {α : Type} (a b : List α) (h : a.length = b.length) (r : Nat) :
    (stackM a b)[r]? = if r % 2 = 0 then a[r / 2]? else b[r / 2]? := by
  induction a generalizing b r with
  | nil =>
    have : b = [] := by simpa using h.symm
    subst this; simp [stackM]
  | cons x t ih =>
    cases b with
    | nil => simp at h
    | cons y u =>
      match r with
      | 0 => simp [stackM]
      | 1 => simp [stackM]
      | k + 2 =>
        have h1 : (k + 2) % 2 = k % 2 := by omega
        have h2 : (k + 2) / 2 = k / 2 + 1 := by omega
        simp only [stackM, List.getElem?_cons_succ, h1, h2]
        exact ih u (by simpa using h) k

theorem ent_evens (v : List K) (m : Nat) : ent (evens v) m = ent v (2 * m) := by
  simp [ent, List.getD_eq_getElem?_getD, getElem?_evens]

theorem ent_odds (v : List K) (m : Nat) : ent (odds v) m = ent v (2 * m + 1) := by
  simp [ent, List.getD_eq_getElem?_getD, getElem?_odds]

theorem ent2_evens (x : List (List K)) (m l : Nat) : ent2 (evens x) m l = ent2 x (2 * m) l := by
  simp [ent2, List.getD_eq_getElem?_getD, getElem?_evens]

theorem ent2_odds (x : List (List K)) (m l : Nat) : ent2 (odds x) m l = ent2 x (2 * m + 1) l := by
  simp [ent2, List.getD_eq_getElem?_getD, getElem?_odds]

theorem ent2_map_evens (f : List (List K)) (i m : Nat) :
    ent2 (f.map evens) i m = ent2 f i (2 * m) := by
  unfold ent2
  simp only [List.getD_eq_getElem?_getD, List.getElem?_map]
  cases f[i]? with
  | none => simp
  | some r => simpa [ent] using ent_evens r m

theorem ent2_map_odds (f : List (List K)) (i m : Nat) :
    ent2 (f.map odds) i m = ent2 f i (2 * m + 1) := by
  unfold ent2
  simp only [List.getD_eq_getElem?_getD, List.getElem?_map]
  cases f[i]? with
  | none => simp
  | some r => simpa [ent] using ent_odds r m

theorem ent2_stackM (a b : List (List K)) (h : a.length = b.length) (r j : Nat) :
    ent2 (stackM a b) r j = if r % 2 = 0 then ent2 a (r / 2) j else ent2 b (r / 2) j := by
  unfold ent2
  simp only [List.getD_eq_getElem?_getD, getElem?_stackM a b h r]
  split <;> rfl

/-! ### finite sums -/

theorem sum_range_tail_zero (g : ℕ → K) (a b : Nat) (hab : a ≤ b) (hz : ∀ r, a ≤ r → g r = 0) :
    ∑ r ∈ range b, g r = ∑ r ∈ range a, g r := by
  symm
  apply Finset.sum_subset (Finset.range_subset_range.2 hab)
  intro r _ hr
  exact hz r (by simpa using hr)

/-- re-indexing of a sum over the rows of the fast layout by the rows of the real layout -/
theorem sum_src (g : ℕ → K) (R R' : Nat) (hR : 1 ≤ R) (hRR' : R + 1 ≤ R') (h1 : g 1 = 0)
    (hz : ∀ r, R + 1 ≤ r → g r = 0) :
    ∑ r ∈ range R', g r = ∑ r ∈ range R, g (src r) := by
  rw [sum_range_tail_zero g (R + 1) R' hRR' hz]
  obtain ⟨k, rfl⟩ : ∃ k, R = k + 1 := ⟨R - 1, by omega⟩
  rw [Finset.sum_range_succ' g (k + 1), Finset.sum_range_succ' (fun i => g (i + 1)) k,
    Finset.sum_range_succ' (fun r => g (src r)) k]
  simp only [src, h1, add_zero, if_true, Nat.add_eq_zero_iff, one_ne_zero, and_false, if_false]

theorem sum_range_two_mul (g : ℕ → K) (H : Nat) :
    ∑ r ∈ range (2 * H), g r = ∑ m ∈ range H, (g (2 * m) + g (2 * m + 1)) := by
  induction H with
  | zero => simp
  | succ H ih =>
    have : 2 * (H + 1) = 2 * H + 1 + 1 := by ring
    rw [this, Finset.sum_range_succ, Finset.sum_range_succ, ih, Finset.sum_range_succ]
    ring

/-! ### the fast transforms, entrywise -/

theorem fast_px_length (b : Basis K) (N H J L : Nat) (hb : Shaped b N H J L) (x : List (List K))
    (hxl : x.length = 2 * H) :
    (invLegendre b.p (evens x)).length = H ∧ (invLegendre b.p (odds x)).length = H := by
  rw [invLegendre_length, invLegendre_length, evens_length, odds_length, hb.pl, hxl]
  constructor <;> omega

/-- fast synthesis: `z[i][j] = Σ_r f[i][r]·Σ_l p[r/2][j][l]·x[r][l]` -/
theorem ent2_fastSynth (b : Basis K) (N H J L : Nat) (hb : Shaped b N H J L) (x : List (List K))
    (hxl : x.length = 2 * H) (hx : ∀ row ∈ x, row.length ≤ L) (i j : Nat) :
    ent2 (fastSynth b J x) i j
      = ∑ r ∈ range (2 * H), ent2 b.f i r * ∑ l ∈ range L, ent3 b.p (r / 2) j l * ent2 x r l := by
  unfold fastSynth invFourier
  obtain ⟨h0, h1⟩ := fast_px_length b N H J L hb x hxl
  have hrows : ∀ r ∈ stackM (invLegendre b.p (evens x)) (invLegendre b.p (odds x)), r.length = J := by
    intro r hr
    rcases mem_stackM _ _ _ hr with h | h
    · exact invLegendre_rows _ _ J hb.pj r h
    · exact invLegendre_rows _ _ J hb.pj r h
  rw [ent2_matMul _ _ J i j (2 * H) hrows (by rw [stackM_length _ _ (h0.trans h1.symm), h0])]
  apply Finset.sum_congr rfl
  intro r _
  congr 1
  rw [ent2_stackM _ _ (h0.trans h1.symm)]
  split
  · rename_i hr
    rw [ent2_invLegendre _ _ _ _ L (fun row hrow => hx row (mem_evens _ _ hrow))]
    apply Finset.sum_congr rfl
    intro l _
    rw [ent2_evens]
    have : 2 * (r / 2) = r := by omega
    rw [this]
  · rename_i hr
    rw [ent2_invLegendre _ _ _ _ L (fun row hrow => hx row (mem_odds _ _ hrow))]
    apply Finset.sum_congr rfl
    intro l _
    rw [ent2_odds]
    have : 2 * (r / 2) + 1 = r := by omega
    rw [this]

theorem fastSynth_length (b : Basis K) (J : Nat) (x : List (List K)) :
    (fastSynth b J x).length = b.f.length := by simp [fastSynth, invFourier, matMul]

theorem fastSynth_rows (b : Basis K) (N H J L : Nat) (hb : Shaped b N H J L) (x : List (List K)) :
    ∀ r ∈ fastSynth b J x, r.length = J := by
  intro r hr
  simp only [fastSynth, invFourier, matMul, List.mem_map] at hr
  obtain ⟨fi, _, rfl⟩ := hr
  apply vecMat_length
  intro r hr
  rcases mem_stackM _ _ _ hr with h | h
  · exact invLegendre_rows _ _ J hb.pj r h
  · exact invLegendre_rows _ _ J hb.pj r h

theorem fwdLegendre_length (p : List (List (List K))) (v : List (List K)) (L : Nat) :
    (fwdLegendre p v L).length = min p.length v.length := by simp [fwdLegendre]

theorem fwdLegendre_rows (p : List (List (List K))) (v : List (List K)) (L : Nat)
    (hp : ∀ pm ∈ p, ∀ pj ∈ pm, pj.length = L) : ∀ r ∈ fwdLegendre p v L, r.length = L := by
  intro r hr
  unfold fwdLegendre at hr
  rw [List.mem_iff_getElem] at hr
  obtain ⟨i, hi, rfl⟩ := hr
  simp only [List.length_zipWith] at hi
  simp only [List.getElem_zipWith]
  exact vecMat_length _ _ _ (hp _ (List.getElem_mem _))

/-- fast analysis: `y[r][l] = Σ_j (Σ_i f[i][r]·w[j]·z[i][j])·p[r/2][j][l]` -/
theorem ent2_fastAnalysis (b : Basis K) (N H J L : Nat) (hb : Shaped b N H J L)
    (z : List (List K)) (hz : ∀ zi ∈ z, zi.length = J) (hzl : z.length ≤ N) (r l : Nat)
    (hr : r < 2 * H) :
    ent2 (fastAnalysis b (2 * H) J L z) r l
      = ∑ j ∈ range J, (∑ i ∈ range N, ent2 b.f i r * (ent b.w j * ent2 z i j)) * ent3 b.p (r / 2) j l := by
  unfold fastAnalysis
  have hF : (fwdFourier b.f (weight b.w z) (2 * H) J).length = 2 * H := fwdFourier_length _ _ _ _
  have hl0 : (fwdLegendre b.p (evens (fwdFourier b.f (weight b.w z) (2 * H) J)) L).length = H := by
    rw [fwdLegendre_length, evens_length, hF, hb.pl]; omega
  have hl1 : (fwdLegendre b.p (odds (fwdFourier b.f (weight b.w z) (2 * H) J)) L).length = H := by
    rw [fwdLegendre_length, odds_length, hF, hb.pl]; omega
  rw [ent2_stackM _ _ (hl0.trans hl1.symm)]
  have hFent : ∀ r' j, r' < 2 * H → ent2 (fwdFourier b.f (weight b.w z) (2 * H) J) r' j
      = ∑ i ∈ range N, ent2 b.f i r' * (ent b.w j * ent2 z i j) := by
    intro r' j hr'
    rw [ent2_fwdFourier _ _ (2 * H) J N r' j hr' (weight_rows _ _ J hb.wl hz)
      (by simp [weight]; omega)]
    apply Finset.sum_congr rfl
    intro i _
    rw [ent2_weight]
  split
  · rename_i hpar
    rw [ent2_fwdLegendre _ _ L J (r / 2) l hb.pll (fun pm hpm => by rw [hb.pj pm hpm])]
    apply Finset.sum_congr rfl
    intro j _
    rw [ent2_evens]
    have : 2 * (r / 2) = r := by omega
    rw [this, hFent r j hr]
  · rename_i hpar
    rw [ent2_fwdLegendre _ _ L J (r / 2) l hb.pll (fun pm hpm => by rw [hb.pj pm hpm])]
    apply Finset.sum_congr rfl
    intro j _
    rw [ent2_odds]
    have : 2 * (r / 2) + 1 = r := by omega
    rw [this, hFent r j hr]

theorem fastAnalysis_length (b : Basis K) (N H J L : Nat) (hb : Shaped b N H J L)
    (z : List (List K)) : (fastAnalysis b (2 * H) J L z).length = 2 * H := by
  unfold fastAnalysis
  have hF : (fwdFourier b.f (weight b.w z) (2 * H) J).length = 2 * H := fwdFourier_length _ _ _ _
  have hl0 : (fwdLegendre b.p (evens (fwdFourier b.f (weight b.w z) (2 * H) J)) L).length = H := by
    rw [fwdLegendre_length, evens_length, hF, hb.pl]; omega
  have hl1 : (fwdLegendre b.p (odds (fwdFourier b.f (weight b.w z) (2 * H) J)) L).length = H := by
    rw [fwdLegendre_length, odds_length, hF, hb.pl]; omega
  rw [stackM_length _ _ (hl0.trans hl1.symm), hl0]

theorem fastAnalysis_rows (b : Basis K) (N H J L : Nat) (hb : Shaped b N H J L) (R : Nat)
    (z : List (List K)) : ∀ r ∈ fastAnalysis b R J L z, r.length = L := by
  intro r hr
  unfold fastAnalysis at hr
  rcases mem_stackM _ _ _ hr with h | h
  · exact fwdLegendre_rows _ _ L hb.pll r h
  · exact fwdLegendre_rows _ _ L hb.pll r h

theorem realAnalysis_length (b : Basis K) (N R J L : Nat) (hb : Shaped b N R J L)
    (z : List (List K)) : (realAnalysis b R J L z).length = R := by
  unfold realAnalysis
  rw [fwdLegendre_length, fwdFourier_length, hb.pl]; simp

theorem realAnalysis_rows (b : Basis K) (N R J L : Nat) (hb : Shaped b N R J L) (R' : Nat)
    (z : List (List K)) : ∀ r ∈ realAnalysis b R' J L z, r.length = L := by
  intro r hr
  exact fwdLegendre_rows _ _ L hb.pll r hr

end Dino.SHEquiv
