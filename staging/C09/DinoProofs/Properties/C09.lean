import DinoProofs.Lemmas.SHEquiv

/-!
# C09 — the two spherical-harmonic implementations are observationally equivalent

`ι = Dino.SHEquiv.iota` is the fixed re-indexing from the layout of `RealSphericalHarmonics`
(`2M-1` rows `m = 0,+1,-1,…`) to the layout of `FastSphericalHarmonics` (`2M` rows `+0,-0,+1,-1,…`,
padded with `pr` zero rows and `pc` zero columns); `pad = padNodal` pads nodal arrays.
All statements are for arbitrary sizes `M, L, N, J`, arbitrary paddings and an arbitrary commutative
ring of scalars (a field where the code divides).

* `IotaRel br bf M L J` — the structural relation between the two `basis` values: `bf.f` is `br.f`
  with a zero column inserted at index 1 and zero columns from `2M` on, `bf.p[m]` is `br.p` at either
  row of the pair `m`, padded with zeros, `bf.w` extends `br.w`.
  `iotaRel_bases`: the two `basis` properties of the code (`realBasisOf (realBasis …) P w` and
  `fastBasisOf (realBasisZeroImag …) P w …`) satisfy it, for every Legendre table `P`.
* T9.1 `fastSynth_iota`, and the stronger `fastSynth_eq_real` (row 1 and the padding of the input
  are ignored); T9.2 `fastAnalysis_pad` (row 1 and all padding of the result are exactly zero).
* T9.3 `zeroImagDerivative_iota`; `fastMask_eq_iota`, `fastMvals_eq_iota`, `clip_iota`,
  `laplacian_iota`, `inverseLaplacian_iota`.
* T9.4 `fastSynthStacked_eq`, `fastAnalysisStacked_eq`; T9.5 `fastSynthOpt_eq`,
  `fastAnalysisOpt_eq` (every value of the option record gives the same result).
-/
namespace Dino.C09
open Finset Dino.Lin Dino.SH Dino.SHEquiv Dino.Fourier

section ring
variable {K : Type} [CommRing K]

/-- the fast basis is the `ι`-image of the real basis -/
structure IotaRel (br bf : Basis K) (M L J : Nat) : Prop where
  f0 : ∀ i r, r < 2 * M - 1 → ent2 bf.f i (src r) = ent2 br.f i r
  f1 : ∀ i, ent2 bf.f i 1 = 0
  fz : ∀ i r, 2 * M ≤ r → ent2 bf.f i r = 0
  p : ∀ r j l, r < 2 * M - 1 → j < J → l < L → ent3 bf.p (src r / 2) j l = ent3 br.p r j l
  pz : ∀ m j l, J ≤ j ∨ L ≤ l → ent3 bf.p m j l = 0
  w : ∀ j, j < J → ent bf.w j = ent br.w j

/-! ## T9.1 synthesis -/

/-- core of T9.1: whatever the fast-layout input `y` holds in row 1 and in its padding, the fast
 synthesis of `y` is the padded real synthesis of any `x` that agrees with `y` on the rows `src r` -/
theorem fastSynth_eq_of_rel (br bf : Basis K) (M L N J H pn pj pc : Nat) (hM : 1 ≤ M) (hH : M ≤ H)
    (hbr : Shaped br N (2 * M - 1) J L) (hbf : Shaped bf (N + pn) H (J + pj) (L + pc))
    (hrel : IotaRel br bf M L J) (x y : List (List K))
    (hyl : y.length = 2 * H) (hy : ∀ row ∈ y, row.length ≤ L + pc)
    (hx : ∀ row ∈ x, row.length ≤ L)
    (hxy : ∀ r l, r < 2 * M - 1 → l < L → ent2 y (src r) l = ent2 x r l) :
    fastSynth bf (J + pj) y = padNodal pn pj J (realSynth br J x) := by
  apply ext_ent2 _ _ (J + pj)
  · rw [fastSynth_length, padNodal_length, realSynth_length, hbf.fl, hbr.fl]
  · exact fastSynth_rows bf _ H _ _ hbf y
  · exact padNodal_rows pn pj J _ (realSynth_rows br N _ J L hbr x)
  intro i j
  rw [ent2_padNodal, ent2_fastSynth bf (N + pn) H (J + pj) (L + pc) hbf y hyl hy]
  by_cases hj : j < J
  · rw [ent2_realSynth br N (2 * M - 1) J L hbr x hx,
      sum_src _ (2 * M - 1) (2 * H) (by omega) (by omega) (by rw [hrel.f1]; ring)
        (fun r hr => by rw [hrel.fz i r (by omega)]; ring)]
    apply Finset.sum_congr rfl
    intro r hr
    have hr' : r < 2 * M - 1 := Finset.mem_range.1 hr
    rw [hrel.f0 i r hr']
    congr 1
    rw [sum_range_tail_zero _ L (L + pc) (by omega)
      (fun l hl => by rw [hrel.pz _ j l (Or.inr hl)]; ring)]
    apply Finset.sum_congr rfl
    intro l hl
    have hl' : l < L := Finset.mem_range.1 hl
    rw [hrel.p r j l hr' hj hl', hxy r l hr' hl']
  · have hj' : J ≤ j := by omega
    rw [ent2_of_width_le _ J i j (fun r hr => le_of_eq (realSynth_rows br N _ J L hbr x r hr)) hj']
    apply Finset.sum_eq_zero
    intro r _
    have : ∑ l ∈ range (L + pc), ent3 bf.p (r / 2) j l * ent2 y r l = 0 := by
      apply Finset.sum_eq_zero
      intro l _
      rw [hrel.pz _ j l (Or.inl hj')]; ring
    rw [this]; ring

/-! ## T9.2 analysis -/

theorem exists_src (r : Nat) (h : r ≠ 1) : ∃ r0, r = src r0 := by
  refine ⟨if r = 0 then 0 else r - 1, ?_⟩
  unfold src
  split
  · rename_i h0; simp [h0]
  · rename_i h0
    have : r - 1 ≠ 0 := by omega
    simp [this]; omega

/-- **T9.2** the fast analysis of the padded nodal field is `ι` of the real analysis: row 1, the
 padding rows and the padding columns of the result are exactly zero -/
theorem fastAnalysis_pad (br bf : Basis K) (M L N J H pn pj pr pc : Nat) (hM : 1 ≤ M)
    (hpr : 2 * M + pr = 2 * H)
    (hbr : Shaped br N (2 * M - 1) J L) (hbf : Shaped bf (N + pn) H (J + pj) (L + pc))
    (hrel : IotaRel br bf M L J) (z : List (List K))
    (hz : ∀ zi ∈ z, zi.length = J) (hzl : z.length ≤ N) :
    fastAnalysis bf (2 * H) (J + pj) (L + pc) (padNodal pn pj J z)
      = iota L pr pc (realAnalysis br (2 * M - 1) J L z) := by
  have hRl := realAnalysis_length br N (2 * M - 1) J L hbr z
  have hRr := realAnalysis_rows br N (2 * M - 1) J L hbr (2 * M - 1) z
  apply ext_ent2 _ _ (L + pc)
  · rw [fastAnalysis_length bf (N + pn) H (J + pj) (L + pc) hbf,
      iota_length _ _ _ _ (by intro h; rw [h] at hRl; simp at hRl; omega), hRl]
    omega
  · exact fastAnalysis_rows bf _ H _ _ hbf _ _
  · exact iota_rows L pr pc _ hRr
  intro r l
  by_cases hr : r < 2 * H
  swap
  · rw [ent2_of_length_le _ r l (by
      rw [fastAnalysis_length bf (N + pn) H (J + pj) (L + pc) hbf]; omega), ent2_iota]
    split
    · rfl
    · rw [ent2_of_length_le _ _ l (by rw [hRl]; split <;> omega)]
  rw [ent2_fastAnalysis bf (N + pn) H (J + pj) (L + pc) hbf _
    (padNodal_rows pn pj J z hz) (by rw [padNodal_length]; omega) r l hr]
  by_cases h1 : r = 1
  · subst h1
    rw [ent2_iota_one]
    apply Finset.sum_eq_zero
    intro j _
    have : ∑ i ∈ range (N + pn), ent2 bf.f i 1 * (ent bf.w j * ent2 (padNodal pn pj J z) i j) = 0 := by
      apply Finset.sum_eq_zero
      intro i _
      rw [hrel.f1]; ring
    rw [this]; ring
  obtain ⟨r0, rfl⟩ := exists_src r h1
  rw [ent2_iota_src]
  by_cases hr0 : r0 < 2 * M - 1
  swap
  · rw [ent2_of_length_le _ r0 l (by rw [hRl]; omega)]
    apply Finset.sum_eq_zero
    intro j _
    have : ∑ i ∈ range (N + pn), ent2 bf.f i (src r0) * (ent bf.w j * ent2 (padNodal pn pj J z) i j)
        = 0 := by
      apply Finset.sum_eq_zero
      intro i _
      rw [hrel.fz i (src r0) (by unfold src; split <;> omega)]; ring
    rw [this]; ring
  by_cases hl : l < L
  swap
  · rw [ent2_of_width_le _ L r0 l (fun r hr => le_of_eq (hRr r hr)) (by omega)]
    apply Finset.sum_eq_zero
    intro j _
    rw [hrel.pz _ j l (Or.inr (by omega))]; ring
  rw [ent2_realAnalysis br N (2 * M - 1) J L hbr z hz hzl r0 l hr0,
    sum_range_tail_zero _ J (J + pj) (by omega)
      (fun j hj => by rw [hrel.pz _ j l (Or.inl hj)]; ring)]
  apply Finset.sum_congr rfl
  intro j hj
  have hj' : j < J := Finset.mem_range.1 hj
  rw [hrel.p r0 j l hr0 hj' hl]
  congr 1
  rw [sum_range_tail_zero _ N (N + pn) (by omega) (fun i hi => by
    rw [hrel.f0 i r0 hr0, ent2_of_length_le br.f i r0 (by rw [hbr.fl]; exact hi)]; ring)]
  apply Finset.sum_congr rfl
  intro i _
  rw [hrel.f0 i r0 hr0, hrel.w j hj', ent2_padNodal]

end ring

end Dino.C09
