import Dino.Util
import Dino.Interp
/-! Line-protocol operations for the interpolation model: `interp <F|Q> <op> args…`.
 Vectors of possibly-missing values are rendered with `nan` for `none`; failures of the
 implementation are rendered as `value-error` / `index-error` / `type-error`. -/
namespace Dino.Interp
open Dino

variable (K : Type) [Num K]

local instance numLT : LT K := ⟨fun a b => Num.ltb a b = true⟩
local instance numDecLT : DecidableLT K := fun a b => inferInstanceAs (Decidable (Num.ltb a b = true))

/-- `np.spacing(np.finfo(np.float64).eps) = 2^-104`: the guard of `jnp.interp` -/
def epsK : K := Num.ofRat (1 / (2 ^ 104 : Nat) : Rat)

def renderOpt (v : Option K) : String :=
  match v with
  | some a => Num.render a
  | none => "nan"

def renderOptVec (v : List (Option K)) : String :=
  if v.isEmpty then "_" else ",".intercalate (v.map (renderOpt K))

def renderErr : Err → String
  | .value => "value-error"
  | .index => "index-error"
  | .type => "type-error"

def renderExcept {α : Type} (f : α → String) : Except Err α → String
  | .ok a => f a
  | .error e => renderErr e

/-- the three `interpolate_fn`s used with the pressure/sigma regridders -/
def interpFn (kind : String) : Option (List K → List K → K → Option K) :=
  if kind = "safe" then some (fun xp fp x => safeInterp (epsK K) 1 xp fp x)
  else if kind = "const" then some (fun xp fp x => some (interp (epsK K) xp fp x))
  else if kind = "linear" then some (fun xp fp x => some (linearExtrap xp fp x))
  else none

def runK : List String → Option String
  | ["ssr", xp, xs] => do
      let xp ← parseVec? (K := K) xp; let xs ← parseVec? xs
      pure (renderNatVec (xs.map (ssr xp)))
  | ["interp", xp, fp, xs] => do
      let xp ← parseVec? (K := K) xp; let fp ← parseVec? fp; let xs ← parseVec? xs
      pure (renderExcept renderVec (interpChecked (epsK K) xp fp xs))
  | ["dot", xp, fp, xs] => do
      let xp ← parseVec? (K := K) xp; let fp ← parseVec? fp; let xs ← parseVec? xs
      pure (renderExcept renderVec (dotChecked xp fp xs))
  | ["dotold", xp, fp, xs] => do
      let xp ← parseVec? (K := K) xp; let fp ← parseVec? fp; let xs ← parseVec? xs
      pure (renderExcept renderVec (dotOldChecked xp fp xs))
  | ["linext", xp, fp, xs] => do
      let xp ← parseVec? (K := K) xp; let fp ← parseVec? fp; let xs ← parseVec? xs
      pure (renderExcept renderVec (linextChecked xp fp xs))
  | ["safe", n, xp, fp, xs] => do
      let n ← n.toNat?
      let xp ← parseVec? (K := K) xp; let fp ← parseVec? fp; let xs ← parseVec? xs
      pure (renderExcept (renderOptVec K) (safeChecked (epsK K) n xp fp xs))
  | ["s2p", kind, sc, pc, sp, f] => do
      let fn ← interpFn K kind
      let sc ← parseVec? (K := K) sc; let pc ← parseVec? pc; let sp ← Num.parse? sp; let f ← parseVec? f
      pure (renderOptVec K (sigmaToPressure fn sc pc sp f))
  | ["p2s", kind, pc, sc, sp, f] => do
      let fn ← interpFn K kind
      let pc ← parseVec? (K := K) pc; let sc ← parseVec? sc; let sp ← Num.parse? sp; let f ← parseVec? f
      pure (renderOptVec K (pressureToSigma fn pc sc sp f))
  | ["hcent", a, b, sp] => do
      let a ← parseVec? (K := K) a; let b ← parseVec? b; let sp ← Num.parse? sp
      pure (renderVec (hybridCenters a b sp))
  | ["h2s", a, b, sc, sp, f] => do
      let a ← parseVec? (K := K) a; let b ← parseVec? b; let sc ← parseVec? sc
      let sp ← Num.parse? sp; let f ← parseVec? f
      pure (renderOptVec K (hybridToSigma (epsK K) a b sc sp f))
  | ["psurf", lv, geo, oro, g] => do
      let lv ← parseVec? (K := K) lv; let geo ← parseVec? geo
      let oro ← Num.parse? oro; let g ← Num.parse? g
      pure (Num.render (surfacePressure lv geo oro g))
  | ["incr", c] => do
      let c ← parseVec? (K := K) c
      pure (renderBool (increasing c))
  | ["bilin", lonS, latS, lonT, latT, field] => do
      let lonS ← parseVec? (K := K) lonS; let latS ← parseVec? latS
      let lonT ← parseVec? lonT; let latT ← parseVec? latT; let field ← parseMat? field
      pure (renderMat (bilinear (epsK K) lonS latS lonT latT field))
  | ["nearest", latS, lonS, latT, lonT] => do
      let latS ← parseVec? (K := K) latS; let lonS ← parseVec? lonS
      let latT ← parseVec? latT; let lonT ← parseVec? lonT
      let d : K × K → K × K → K := fun t s => haversine Num.sin Num.cos t.1 t.2 s.1 s.2
      pure (renderNatVec (nearest d (latS.zip lonS) (latT.zip lonT)))
  | ["take", field, idx] => do
      let field ← parseVec? (K := K) field; let idx ← parseNatVec? idx
      pure (renderOptVec K (takeIdx field idx))
  | _ => none

def run : List String → Option String
  | "F" :: rest => runK Float rest
  | "Q" :: rest => runK Rat rest
  | _ => none

end Dino.Interp
