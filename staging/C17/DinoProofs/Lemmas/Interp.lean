import Dino.Interp
import Mathlib.Algebra.Order.Field.Basic
import Mathlib.Algebra.BigOperators.Group.List.Basic
import Mathlib.Data.List.GetD
import Mathlib.Tactic.Ring
import Mathlib.Tactic.Linarith
import Mathlib.Tactic.FieldSimp

/-!
# Lemmas about the interpolation model `Dino.Interp`

Everything is over an arbitrary linearly ordered field `K`.  Nodes are accessed with `getD · 0`
inside the lemmas (no dependent index proofs); every lemma carries the bound that makes the
default irrelevant.
-/
set_option linter.unusedSectionVars false
set_option linter.unusedSimpArgs false

namespace Dino.Interp

variable {K : Type} [Field K] [LinearOrder K] [IsStrictOrderedRing K]

/-- node separation: every spacing exceeds the guard `eps` of `jnp.interp` -/
def Sep (eps : K) (xp : List K) : Prop :=
  ∀ j, j + 1 < xp.length → eps < xp.getD (j + 1) 0 - xp.getD j 0

/-- strictly increasing nodes -/
def Inc (xp : List K) : Prop := xp.Pairwise (· < ·)

/-- the linear interpolant of cell `j` (nodes `j`, `j+1`) evaluated at `x` -/
def cellFormula (xp fp : List K) (j : Nat) (x : K) : K :=
  fp.getD j 0 + (x - xp.getD j 0) / (xp.getD (j + 1) 0 - xp.getD j 0) * (fp.getD (j + 1) 0 - fp.getD j 0)

/-- `x` belongs to cell `j`, the two end cells being unbounded outwards -/
def InCell (xp : List K) (j : Nat) (x : K) : Prop :=
  (j = 0 ∨ xp.getD j 0 ≤ x) ∧ (j + 2 = xp.length ∨ x ≤ xp.getD (j + 1) 0)

/-! ## order facts -/

theorem Inc.getD_lt {xp : List K} (h : Inc xp) {i j : Nat} (hij : i < j) (hj : j < xp.length) :
    xp.getD i 0 < xp.getD j 0 := by
  rw [List.getD_eq_getElem _ _ hj, List.getD_eq_getElem _ _ (by omega)]
  exact (List.pairwise_iff_getElem.mp h) i j (by omega) hj hij

theorem Inc.getD_le {xp : List K} (h : Inc xp) {i j : Nat} (hij : i ≤ j) (hj : j < xp.length) :
    xp.getD i 0 ≤ xp.getD j 0 := by
  rcases Nat.eq_or_lt_of_le hij with rfl | hlt
  · exact le_rfl
  · exact (h.getD_lt hlt hj).le

theorem Inc.getD_inj {xp : List K} (h : Inc xp) {i j : Nat} (hi : i < xp.length) (hj : j < xp.length)
    (he : xp.getD i 0 = xp.getD j 0) : i = j := by
  rcases Nat.lt_trichotomy i j with hlt | rfl | hgt
  · exact absurd he (h.getD_lt hlt hj).ne
  · rfl
  · exact absurd he.symm (h.getD_lt hgt hi).ne

theorem Sep.inc {eps : K} {xp : List K} (h0 : 0 ≤ eps) (hs : Sep eps xp) : Inc xp := by
  unfold Inc
  rw [← List.isChain_iff_pairwise, List.isChain_iff_getElem]
  intro i hi
  have := hs i hi
  rw [List.getD_eq_getElem _ _ hi, List.getD_eq_getElem _ _ (by omega)] at this
  linarith

theorem Inc.tail {a : K} {t : List K} (h : Inc (a :: t)) : Inc t := (List.pairwise_cons.mp h).2

/-! ## `searchsorted(side='right')` -/

theorem ssr_cons (a : K) (t : List K) (x : K) :
    ssr (a :: t) x = ssr t x + (if a ≤ x then 1 else 0) := by
  simp [ssr, List.countP_cons]

theorem ssr_le_length (xp : List K) (x : K) : ssr xp x ≤ xp.length := List.countP_le_length

/-- on increasing nodes `ssr` is the number of nodes `≤ x`: node `j` is counted iff `xp[j] ≤ x` -/
theorem ssr_spec {xp : List K} (h : Inc xp) (x : K) {j : Nat} (hj : j < xp.length) :
    j < ssr xp x ↔ xp.getD j 0 ≤ x := by
  induction xp generalizing j with
  | nil => simp at hj
  | cons a t ih =>
    have ht : Inc t := h.tail
    have hat : ∀ b ∈ t, a < b := (List.pairwise_cons.mp h).1
    rw [ssr_cons]
    by_cases hax : a ≤ x
    · simp only [hax, if_true]
      cases j with
      | zero => simp [hax]
      | succ j' =>
        simp only [List.getD_cons_succ]
        rw [← ih ht (by simpa using hj)]
        omega
    · simp only [hax, if_false, Nat.add_zero]
      have hxa : x < a := not_le.mp hax
      have hnone : ∀ i, i < t.length → ¬ t.getD i 0 ≤ x := by
        intro i hi hle
        have : a < t.getD i 0 := by
          rw [List.getD_eq_getElem _ _ hi]; exact hat _ (List.getElem_mem hi)
        linarith
      have hz : ssr t x = 0 := by
        by_contra hne
        have hpos : 0 < ssr t x := Nat.pos_of_ne_zero hne
        have hlen : 0 < t.length := lt_of_lt_of_le hpos (ssr_le_length t x)
        exact hnone 0 hlen ((ih ht hlen).mp hpos)
      rw [hz]
      cases j with
      | zero => simp [hax]
      | succ j' =>
        simp only [List.getD_cons_succ]
        constructor
        · intro h'; omega
        · intro h'; exact absurd h' (hnone j' (by simpa using hj))

/-! ## cells -/

theorem cellIdx_bounds (xp : List K) (x : K) (hn : 2 ≤ xp.length) :
    1 ≤ cellIdx xp x ∧ cellIdx xp x + 1 ≤ xp.length := by
  unfold cellIdx clipIdx
  omega

/-- the cell the implementation picks is a cell that contains `x` -/
theorem inCell_cellIdx {xp : List K} (h : Inc xp) (hn : 2 ≤ xp.length) (x : K) :
    InCell xp (cellIdx xp x - 1) x := by
  have hk := ssr_le_length xp x
  have hb := cellIdx_bounds xp x hn
  constructor
  · by_cases h0 : cellIdx xp x - 1 = 0
    · left; exact h0
    · right
      apply (ssr_spec h x (by omega)).mp
      unfold cellIdx clipIdx at h0 ⊢
      omega
  · by_cases h2 : cellIdx xp x - 1 + 2 = xp.length
    · left; exact h2
    · right
      have hlt : ¬ (cellIdx xp x - 1 + 1 < ssr xp x) := by
        unfold cellIdx clipIdx at h2 ⊢
        omega
      rw [ssr_spec h x (by omega)] at hlt
      exact (not_le.mp hlt).le

theorem exists_cell {xp : List K} (h : Inc xp) (hn : 2 ≤ xp.length) (x : K) :
    ∃ j, j + 1 < xp.length ∧ InCell xp j x :=
  ⟨cellIdx xp x - 1, by have := cellIdx_bounds xp x hn; omega, inCell_cellIdx h hn x⟩

/-- any cell containing `x` is the one the implementation picks, except at a tie with the right
 node of the cell, where the implementation picks the next cell -/
theorem cell_cases {xp : List K} (h : Inc xp) {j : Nat} (hj : j + 1 < xp.length) {x : K}
    (hc : InCell xp j x) :
    cellIdx xp x = j + 1 ∨ (cellIdx xp x = j + 2 ∧ x = xp.getD (j + 1) 0 ∧ j + 2 < xp.length) := by
  have hk := ssr_le_length xp x
  obtain ⟨hl, hr⟩ := hc
  have hjk : j = 0 ∨ j < ssr xp x := hl.imp id (fun hle => (ssr_spec h x (by omega)).mpr hle)
  rcases lt_trichotomy x (xp.getD (j + 1) 0) with hlt | heq | hgt
  · left
    have : ¬ (j + 1 < ssr xp x) := by
      rw [ssr_spec h x hj]; exact not_le.mpr hlt
    unfold cellIdx clipIdx
    omega
  · have h1 : j + 1 < ssr xp x := (ssr_spec h x hj).mpr heq.ge
    by_cases hn : j + 2 < xp.length
    · right
      refine ⟨?_, heq, hn⟩
      have : ¬ (j + 2 < ssr xp x) := by
        rw [ssr_spec h x hn, heq]
        exact not_le.mpr (h.getD_lt (by omega) hn)
      unfold cellIdx clipIdx
      omega
    · left
      unfold cellIdx clipIdx
      omega
  · left
    have hn : j + 2 = xp.length := by
      rcases hr with hr | hr
      · exact hr
      · exact absurd hr (not_le.mpr hgt)
    have h1 : j + 1 < ssr xp x := (ssr_spec h x hj).mpr hgt.le
    unfold cellIdx clipIdx
    omega

/-! ## finite sums with one-point support -/

theorem sum_range_ite (n c : Nat) (g : Nat → K) (hc : c < n) :
    ((List.range n).map fun i => if i = c then g i else 0).sum = g c := by
  induction n with
  | zero => omega
  | succ m ih =>
    rw [List.range_succ, List.map_append, List.sum_append]
    by_cases hcm : c < m
    · rw [ih hcm]
      have : m ≠ c := by omega
      simp [this]
    · have hcm' : c = m := by omega
      subst hcm'
      have hz : ((List.range c).map fun i => if i = c then g i else 0).sum = 0 := by
        apply List.sum_eq_zero
        intro v hv
        obtain ⟨i, hi, rfl⟩ := List.mem_map.mp hv
        have : i ≠ c := by have := List.mem_range.mp hi; omega
        simp [this]
      rw [hz]; simp

theorem zipWith_map_range (n : Nat) (g : Nat → K) (fp : List K) (hl : fp.length = n) :
    List.zipWith (fun a b => a * b) ((List.range n).map g) fp
      = (List.range n).map fun i => g i * fp.getD i 0 := by
  apply List.ext_getElem
  · simp [hl]
  · intro i h1 h2
    have hi : i < fp.length := by simp at h1; omega
    simp only [List.getElem_zipWith, List.getElem_map, List.getElem_range]
    rw [List.getD_eq_getElem _ _ hi]

theorem dot_map_range (n : Nat) (g : Nat → K) (fp : List K) (hl : fp.length = n) :
    dot ((List.range n).map g) fp = ((List.range n).map fun i => g i * fp.getD i 0).sum := by
  unfold dot; rw [zipWith_map_range n g fp hl]

/-- a one-hot weight vector picks one entry -/
theorem dot_onehot (n c : Nat) (fp : List K) (hl : fp.length = n) (hc : c < n) :
    dot ((List.range n).map fun i => (ind (decide (i = c)) : K)) fp = fp.getD c 0 := by
  rw [dot_map_range n _ fp hl]
  rw [← sum_range_ite n c (fun i => fp.getD i 0) hc]
  congr 1
  apply List.map_congr_left
  intro i _
  by_cases h : i = c <;> simp [ind, h]

/-! ## the two evaluation schemes reduce to the cell formula -/

theorem cellWeights_length (xp : List K) (x : K) : (cellWeights xp x).length = xp.length - 1 := by
  simp [cellWeights]

theorem cellWeights_getD (xp : List K) (x : K) (j : Nat) (hj : j + 1 < xp.length) :
    (cellWeights xp x).getD j 0 = (x - xp.getD j 0) / (xp.getD (j + 1) 0 - xp.getD j 0) := by
  have h1 : j < (cellWeights xp x).length := by rw [cellWeights_length]; omega
  rw [List.getD_eq_getElem _ _ h1]
  simp only [cellWeights, List.getElem_zipWith, List.getElem_tail]
  rw [List.getD_eq_getElem _ _ hj, List.getD_eq_getElem _ _ (by omega : j < xp.length)]

/-- the weight vector of the dot-product scheme, evaluated: the cell formula of the chosen cell -/
theorem linearExtrap_eq_cell (xp fp : List K) (x : K) (hl : xp.length = fp.length)
    (hn : 2 ≤ xp.length) :
    linearExtrap xp fp x = cellFormula xp fp (cellIdx xp x - 1) x := by
  obtain ⟨hu1, hu2⟩ := cellIdx_bounds xp x hn
  set u := cellIdx xp x with hu
  unfold linearExtrap linWeights
  simp only [← hu]
  rw [dot_map_range _ _ fp hl.symm]
  set w := cellWeights xp x with hw
  have hwl : w.length = xp.length - 1 := cellWeights_length xp x
  have key : ∀ i : Nat,
      ((w.map (fun t => 1 - t) ++ [0]).getD i 0 * ind (decide ((i : Int) = (u : Int) - 1))
        + ((0 : K) :: w).getD i 0 * ind (decide ((i : Int) = (u : Int)))) * fp.getD i 0
      = (if i = u - 1 then (1 - w.getD (u - 1) 0) * fp.getD (u - 1) 0 else 0)
        + (if i = u then w.getD (u - 1) 0 * fp.getD u 0 else 0) := by
    intro i
    have e1 : (ind (decide ((i : Int) = (u : Int) - 1)) : K) = if i = u - 1 then 1 else 0 := by
      by_cases h : i = u - 1
      · have h' : (i : Int) = (u : Int) - 1 := by omega
        rw [if_pos h]; simp [ind, h']
      · have h' : ¬ (i : Int) = (u : Int) - 1 := by omega
        rw [if_neg h]; simp [ind, h']
    have e2 : (ind (decide ((i : Int) = (u : Int))) : K) = if i = u then 1 else 0 := by
      by_cases h : i = u
      · simp [ind, h]
      · have h' : ¬ (i : Int) = (u : Int) := by omega
        simp [ind, h, h']
    rw [e1, e2]
    by_cases h1 : i = u - 1
    · have h2 : i ≠ u := by omega
      have hget : (w.map (fun t => 1 - t) ++ [0]).getD i 0 = 1 - w.getD (u - 1) 0 := by
        have hi : i < (w.map fun t => 1 - t).length := by simp; omega
        rw [List.getD_eq_getElem _ _ (by simp; omega), List.getElem_append_left hi]
        simp only [List.getElem_map]
        rw [List.getD_eq_getElem _ _ (by omega)]
        simp only [h1]
      rw [hget, if_pos h1, if_neg h2, if_pos h1, if_neg h2, h1]
      ring
    · by_cases h2 : i = u
      · have hget : ((0 : K) :: w).getD i 0 = w.getD (u - 1) 0 := by
          rw [h2]
          obtain ⟨v, hv⟩ : ∃ v, u = v + 1 := ⟨u - 1, by omega⟩
          rw [hv, List.getD_cons_succ]; rfl
        rw [hget, if_neg h1, if_pos h2, if_neg h1, if_pos h2, h2]
        ring
      · rw [if_neg h1, if_neg h2, if_neg h1, if_neg h2]
        ring
  rw [List.map_congr_left (fun i _ => key i), List.sum_map_add,
    sum_range_ite _ (u - 1) (fun _ => (1 - w.getD (u - 1) 0) * fp.getD (u - 1) 0) (by omega),
    sum_range_ite _ u (fun _ => w.getD (u - 1) 0 * fp.getD u 0) (by omega)]
  rw [hw, cellWeights_getD xp x (u - 1) (by omega)]
  unfold cellFormula
  have : u - 1 + 1 = u := by omega
  rw [this]
  ring

theorem Sep.gap_pos {eps : K} {xp : List K} (h0 : 0 ≤ eps) (hs : Sep eps xp) {j : Nat}
    (hj : j + 1 < xp.length) : 0 < xp.getD (j + 1) 0 - xp.getD j 0 :=
  lt_of_le_of_lt h0 (hs j hj)

/-- `jnp.interp` before the end replacement: when the guard is not triggered, the cell formula -/
theorem interpCore_eq_cell {eps : K} {xp : List K} (h0 : 0 ≤ eps) (hs : Sep eps xp) (fp : List K)
    (x : K) (hn : 2 ≤ xp.length) :
    interpCore eps xp fp x = cellFormula xp fp (cellIdx xp x - 1) x := by
  obtain ⟨hu1, hu2⟩ := cellIdx_bounds xp x hn
  set u := cellIdx xp x with hu
  have hgap := hs (u - 1) (by omega)
  have hpos := hs.gap_pos h0 (j := u - 1) (by omega)
  have e1 : u - 1 + 1 = u := by omega
  rw [e1] at hgap hpos
  unfold interpCore
  simp only [← hu]
  have habs : absK (xp.getD u 0 - xp.getD (u - 1) 0) = xp.getD u 0 - xp.getD (u - 1) 0 := by
    unfold absK; rw [if_neg (not_lt.mpr hpos.le)]
  simp only [habs, hgap, not_true_eq_false, decide_false, Bool.false_eq_true, if_false]
  unfold cellFormula
  rw [e1]

/-! ## values on a cell -/

/-- what both evaluation schemes compute -/
def cellValue (xp fp : List K) (x : K) : K := cellFormula xp fp (cellIdx xp x - 1) x

theorem cellFormula_left (xp fp : List K) (j : Nat) :
    cellFormula xp fp j (xp.getD j 0) = fp.getD j 0 := by
  unfold cellFormula; simp

theorem cellFormula_right (xp fp : List K) (j : Nat) (hne : xp.getD (j + 1) 0 - xp.getD j 0 ≠ 0) :
    cellFormula xp fp j (xp.getD (j + 1) 0) = fp.getD (j + 1) 0 := by
  unfold cellFormula; rw [div_self hne]; ring

/-- the value does not depend on which containing cell is used (continuity at the nodes) -/
theorem cellValue_cell {xp : List K} (h : Inc xp) (fp : List K) {j : Nat} (hj : j + 1 < xp.length)
    {x : K} (hc : InCell xp j x) : cellValue xp fp x = cellFormula xp fp j x := by
  unfold cellValue
  rcases cell_cases h hj hc with h1 | ⟨h1, hx, hn⟩
  · rw [h1, Nat.add_sub_cancel]
  · have hne : xp.getD (j + 1) 0 - xp.getD j 0 ≠ 0 :=
      ne_of_gt (sub_pos.mpr (h.getD_lt (Nat.lt_succ_self j) hj))
    rw [h1, show j + 2 - 1 = j + 1 by omega, hx, cellFormula_left, cellFormula_right _ _ _ hne]

theorem linearExtrap_eq_cellValue (xp fp : List K) (x : K) (hl : xp.length = fp.length)
    (hn : 2 ≤ xp.length) : linearExtrap xp fp x = cellValue xp fp x :=
  linearExtrap_eq_cell xp fp x hl hn

theorem interpCore_eq_cellValue {eps : K} {xp : List K} (h0 : 0 ≤ eps) (hs : Sep eps xp)
    (fp : List K) (x : K) (hn : 2 ≤ xp.length) : interpCore eps xp fp x = cellValue xp fp x :=
  interpCore_eq_cell h0 hs fp x hn

theorem linearExtrap_cell {xp fp : List K} (h : Inc xp) (hl : xp.length = fp.length) {j : Nat}
    (hj : j + 1 < xp.length) {x : K} (hc : InCell xp j x) :
    linearExtrap xp fp x = cellFormula xp fp j x := by
  rw [linearExtrap_eq_cellValue xp fp x hl (by omega), cellValue_cell h fp hj hc]

theorem interpCore_cell {eps : K} {xp : List K} (h0 : 0 ≤ eps) (hs : Sep eps xp) (fp : List K)
    {j : Nat} (hj : j + 1 < xp.length) {x : K} (hc : InCell xp j x) :
    interpCore eps xp fp x = cellFormula xp fp j x := by
  rw [interpCore_eq_cellValue h0 hs fp x (by omega), cellValue_cell (hs.inc h0) fp hj hc]

/-- the cell formula reproduces affine data -/
theorem cellFormula_affine (xp : List K) (a s : K) (j : Nat) (hj : j + 1 < xp.length) (x : K)
    (hne : xp.getD (j + 1) 0 - xp.getD j 0 ≠ 0) :
    cellFormula xp (xp.map fun t => a + s * t) j x = a + s * x := by
  unfold cellFormula
  have e1 : (xp.map fun t => a + s * t).getD j 0 = a + s * xp.getD j 0 := by
    rw [List.getD_eq_getElem _ _ (by simp; omega), List.getD_eq_getElem _ _ (by omega)]; simp
  have e2 : (xp.map fun t => a + s * t).getD (j + 1) 0 = a + s * xp.getD (j + 1) 0 := by
    rw [List.getD_eq_getElem _ _ (by simp; omega), List.getD_eq_getElem _ _ hj]; simp
  rw [e1, e2]
  field_simp
  ring

/-- inside a cell the value is a convex combination of the two node values -/
theorem cellFormula_convex (xp fp : List K) (j : Nat) (x : K) :
    cellFormula xp fp j x
      = (1 - (x - xp.getD j 0) / (xp.getD (j + 1) 0 - xp.getD j 0)) * fp.getD j 0
        + (x - xp.getD j 0) / (xp.getD (j + 1) 0 - xp.getD j 0) * fp.getD (j + 1) 0 := by
  unfold cellFormula; ring

/-! ## end replacement: `interp`, `interpNan`, `dotInterp` by cases -/

theorem headD_eq_getD (l : List K) : l.headD 0 = l.getD 0 0 := by
  cases l <;> simp

theorem getLastD_eq_getD (l : List K) : l.getLastD 0 = l.getD (l.length - 1) 0 := by
  simp [List.getLast?_eq_getElem?]

theorem interp_eq_cases (eps : K) (xp fp : List K) (x : K) :
    interp eps xp fp x
      = if xp.getD (xp.length - 1) 0 < x then fp.getD (fp.length - 1) 0
        else if x < xp.getD 0 0 then fp.getD 0 0 else interpCore eps xp fp x := by
  unfold interp
  simp only [headD_eq_getD, getLastD_eq_getD]

theorem interpNan_eq_cases (eps : K) (xp fp : List K) (x : K) :
    interpNan eps xp fp x
      = if xp.getD (xp.length - 1) 0 < x then none
        else if x < xp.getD 0 0 then none else some (interpCore eps xp fp x) := by
  unfold interpNan
  simp only [headD_eq_getD, getLastD_eq_getD]

/-- `_dot_interp` (left override `x <= xp[0]`): last node value above the last node, first node
 value at and below the first node, the weights of the linear routine strictly in between -/
theorem dotInterp_eq_cases (xp fp : List K) (x : K) (hl : xp.length = fp.length)
    (hn : 1 ≤ xp.length) :
    dotInterp xp fp x
      = if xp.getD (xp.length - 1) 0 < x then fp.getD (fp.length - 1) 0
        else if x ≤ xp.getD 0 0 then fp.getD 0 0 else linearExtrap xp fp x := by
  unfold dotInterp dotWeights
  simp only [headD_eq_getD, getLastD_eq_getD, not_lt]
  have hlast : ((List.range xp.length).map fun i => (ind (decide (i + 1 = xp.length)) : K))
      = (List.range xp.length).map fun i => (ind (decide (i = xp.length - 1)) : K) := by
    apply List.map_congr_left
    intro i _
    have : (i + 1 = xp.length) ↔ (i = xp.length - 1) := by omega
    simp only [this]
  by_cases h1 : xp.getD (xp.length - 1) 0 < x
  · rw [if_pos h1, if_pos h1, hlast, dot_onehot _ _ fp hl.symm (by omega), hl]
  · rw [if_neg h1, if_neg h1]
    by_cases h2 : x ≤ xp.getD 0 0
    · rw [if_pos h2, if_pos h2, dot_onehot _ _ fp hl.symm (by omega)]
    · rw [if_neg h2, if_neg h2]; rfl

/-- the pre-repair `_dot_interp` (left override `x < xp[0]`) -/
theorem dotInterpOld_eq_cases (xp fp : List K) (x : K) (hl : xp.length = fp.length)
    (hn : 1 ≤ xp.length) :
    dotInterpOld xp fp x
      = if xp.getD (xp.length - 1) 0 < x then fp.getD (fp.length - 1) 0
        else if x < xp.getD 0 0 then fp.getD 0 0 else linearExtrap xp fp x := by
  unfold dotInterpOld dotWeightsOld
  simp only [headD_eq_getD, getLastD_eq_getD]
  have hlast : ((List.range xp.length).map fun i => (ind (decide (i + 1 = xp.length)) : K))
      = (List.range xp.length).map fun i => (ind (decide (i = xp.length - 1)) : K) := by
    apply List.map_congr_left
    intro i _
    have : (i + 1 = xp.length) ↔ (i = xp.length - 1) := by omega
    simp only [this]
  by_cases h1 : xp.getD (xp.length - 1) 0 < x
  · rw [if_pos h1, if_pos h1, hlast, dot_onehot _ _ fp hl.symm (by omega), hl]
  · rw [if_neg h1, if_neg h1]
    by_cases h2 : x < xp.getD 0 0
    · rw [if_pos h2, if_pos h2, dot_onehot _ _ fp hl.symm (by omega)]
    · rw [if_neg h2, if_neg h2]; rfl

/-- inside the node range (a closed cell) the generalised cell condition holds -/
theorem inCell_of_mem {xp : List K} {j : Nat} {x : K} (h1 : xp.getD j 0 ≤ x)
    (h2 : x ≤ xp.getD (j + 1) 0) : InCell xp j x := ⟨Or.inr h1, Or.inr h2⟩

/-- a point of the node range lies in a closed cell -/
theorem exists_closed_cell {xp : List K} (h : Inc xp) (hn : 2 ≤ xp.length) {x : K}
    (h1 : xp.getD 0 0 ≤ x) (h2 : x ≤ xp.getD (xp.length - 1) 0) :
    ∃ j, j + 1 < xp.length ∧ xp.getD j 0 ≤ x ∧ x ≤ xp.getD (j + 1) 0 := by
  obtain ⟨j, hj, hl, hr⟩ := exists_cell h hn x
  refine ⟨j, hj, ?_, ?_⟩
  · rcases hl with rfl | hl
    · exact h1
    · exact hl
  · rcases hr with hr | hr
    · have : j + 1 = xp.length - 1 := by omega
      rw [this]; exact h2
    · exact hr

/-! ## the reference piecewise-linear interpolant -/

/-- Reference: the piecewise-linear interpolant through the nodes, extended by constants, written by
 recursion on the node list (no search, no indices, no guard). -/
def pwlRef : List K → List K → K → K
  | [_], [f0], _ => f0
  | x0 :: x1 :: xs, f0 :: f1 :: fs, x =>
      if x < x0 then f0
      else if x ≤ x1 then f0 + (x - x0) / (x1 - x0) * (f1 - f0)
      else pwlRef (x1 :: xs) (f1 :: fs) x
  | _, _, _ => 0

theorem pwlRef_left {xp fp : List K} (hl : xp.length = fp.length) (hn : 1 ≤ xp.length) {x : K}
    (hx : x < xp.getD 0 0) : pwlRef xp fp x = fp.getD 0 0 := by
  match xp, fp, hl, hn with
  | [a], [f], _, _ => simp [pwlRef]
  | a :: b :: t, f0 :: f1 :: ft, _, _ =>
    have hx' : x < a := by simpa using hx
    simp [pwlRef, hx']

theorem pwlRef_cell : ∀ (j : Nat) {xp fp : List K}, Inc xp → xp.length = fp.length →
    j + 1 < xp.length → ∀ {x : K}, xp.getD j 0 ≤ x → x ≤ xp.getD (j + 1) 0 →
    pwlRef xp fp x = cellFormula xp fp j x := by
  intro j
  induction j with
  | zero =>
    intro xp fp hi hl hj x h1 h2
    match xp, fp, hl, hj with
    | a :: b :: t, f0 :: f1 :: ft, _, _ =>
      have h1' : a ≤ x := by simpa using h1
      have h2' : x ≤ b := by simpa using h2
      simp [pwlRef, cellFormula, not_lt.mpr h1', h2']
  | succ j ih =>
    intro xp fp hi hl hj x h1 h2
    match xp, fp, hl, hj with
    | a :: b :: t, f0 :: f1 :: ft, hl, hj =>
      have hi' : Inc (b :: t) := hi.tail
      have hab : a < b := by
        have := hi.getD_lt (i := 0) (j := 1) (by omega) (by simp)
        simpa using this
      have h1' : (b :: t).getD j 0 ≤ x := by simpa using h1
      have h2' : x ≤ (b :: t).getD (j + 1) 0 := by simpa using h2
      have hbj : b ≤ (b :: t).getD j 0 := by
        have := hi'.getD_le (Nat.zero_le j) (by simp at hj ⊢; omega)
        simpa using this
      have hbx : b ≤ x := le_trans hbj h1'
      have hna : ¬ x < a := not_lt.mpr (le_trans hab.le hbx)
      have hcf : cellFormula (a :: b :: t) (f0 :: f1 :: ft) (j + 1) x
          = cellFormula (b :: t) (f1 :: ft) j x := by
        simp [cellFormula]
      rw [hcf]
      by_cases hxb : x ≤ b
      · -- tie with the right node of the first cell
        have hxeq : x = b := le_antisymm hxb hbx
        have hj0 : j = 0 := by
          have he : (b :: t).getD j 0 = (b :: t).getD 0 0 := by
            simp only [List.getD_cons_zero]
            exact le_antisymm (hxeq ▸ h1') hbj
          exact hi'.getD_inj (by simp at hj ⊢; omega) (by simp) he
        subst hj0
        have hne : b - a ≠ 0 := ne_of_gt (sub_pos.mpr hab)
        rw [hxeq] at hna ⊢
        simp only [pwlRef, if_neg hna, le_refl, if_true, cellFormula, List.getD_cons_zero, sub_self,
          zero_div, zero_mul, add_zero]
        rw [div_self hne]; ring
      · simp only [pwlRef, if_neg hna, if_neg hxb]
        exact ih hi' (by simpa using hl) (by simp at hj ⊢; omega) h1' h2'

theorem pwlRef_right : ∀ {xp fp : List K}, Inc xp → xp.length = fp.length → 1 ≤ xp.length →
    ∀ {x : K}, xp.getD (xp.length - 1) 0 < x → pwlRef xp fp x = fp.getD (fp.length - 1) 0 := by
  intro xp
  induction xp with
  | nil => intro fp _ _ hn; simp at hn
  | cons a t ih =>
    intro fp hi hl hn x hx
    match t, fp, hl with
    | [], [f], _ => simp [pwlRef]
    | b :: t', f0 :: f1 :: ft, hl =>
      have hi' : Inc (b :: t') := hi.tail
      have hx' : (b :: t').getD ((b :: t').length - 1) 0 < x := by simpa using hx
      have hbx : b < x := by
        have := hi'.getD_le (Nat.zero_le ((b :: t').length - 1)) (by simp)
        simp only [List.getD_cons_zero] at this
        exact lt_of_le_of_lt this hx'
      have hab : a < b := by
        have := hi.getD_lt (i := 0) (j := 1) (by omega) (by simp)
        simpa using this
      have hna : ¬ x < a := not_lt.mpr (le_trans hab.le hbx.le)
      have hnb : ¬ x ≤ b := not_le.mpr hbx
      simp only [pwlRef, if_neg hna, if_neg hnb]
      rw [ih hi' (by simpa using hl) (by simp) hx']
      simp

/-! ## padding by linear continuation (`_extrapolate_left/right/both`) -/

theorem extrapLeft_cons2 (a b : K) (t : List K) :
    extrapLeft (a :: b :: t) = (a - (b - a)) :: a :: b :: t := by
  simp [extrapLeft]

theorem extrapRight_eq (y : List K) :
    extrapRight y
      = y ++ [y.getD (y.length - 1) 0 + (y.getD (y.length - 1) 0 - y.getD (y.length - 2) 0)] := by
  unfold extrapRight; rw [getLastD_eq_getD]

theorem Inc.head_lt {a b : K} {t : List K} (h : Inc (a :: b :: t)) : a < b := by
  have := h.getD_lt (i := 0) (j := 1) (by omega) (by simp)
  simpa using this

/-- one more cell on the left, continuing the line of the first cell, changes nothing -/
theorem linearExtrap_extrapLeft {xp fp : List K} (hi : Inc xp) (hl : xp.length = fp.length)
    (hn : 2 ≤ xp.length) (x : K) :
    linearExtrap (extrapLeft xp) (extrapLeft fp) x = linearExtrap xp fp x := by
  match xp, fp, hl, hn with
  | a :: b :: t, f0 :: f1 :: ft, hl, _ =>
    rw [extrapLeft_cons2, extrapLeft_cons2]
    have hab : a < b := hi.head_lt
    have hne : b - a ≠ 0 := ne_of_gt (sub_pos.mpr hab)
    have hi' : Inc ((a - (b - a)) :: a :: b :: t) := by
      refine List.pairwise_cons.mpr ⟨fun c hc => ?_, hi⟩
      have hac : a ≤ c := by
        rcases List.mem_cons.mp hc with rfl | hc'
        · exact le_rfl
        · exact ((List.pairwise_cons.mp hi).1 c hc').le
      linarith
    have hl' : ((a - (b - a)) :: a :: b :: t).length = ((f0 - (f1 - f0)) :: f0 :: f1 :: ft).length := by
      simp at hl ⊢; omega
    obtain ⟨j, hj, hc⟩ := exists_cell hi (by simp) x
    rw [linearExtrap_cell hi hl hj hc]
    by_cases hcase : j = 0 ∧ x < a
    · obtain ⟨rfl, hxa⟩ := hcase
      have hc' : InCell ((a - (b - a)) :: a :: b :: t) 0 x :=
        ⟨Or.inl rfl, Or.inr (by simpa using hxa.le)⟩
      rw [linearExtrap_cell hi' hl' (by simp) hc']
      simp only [cellFormula, List.getD_cons_zero, List.getD_cons_succ]
      have e : a - (a - (b - a)) = b - a := by ring
      rw [e]
      field_simp
      ring
    · have hax : (a :: b :: t).getD j 0 ≤ x := by
        rcases hc.1 with rfl | h
        · have : ¬ x < a := fun hx => hcase ⟨rfl, hx⟩
          simpa using not_lt.mp this
        · exact h
      have hc' : InCell ((a - (b - a)) :: a :: b :: t) (j + 1) x := by
        refine ⟨Or.inr (by simpa using hax), ?_⟩
        rcases hc.2 with h | h
        · left; simp at h ⊢; omega
        · right; simpa using h
      rw [linearExtrap_cell hi' hl' (by simp at hj ⊢; omega) hc']
      simp [cellFormula]

/-- one more cell on the right, continuing the line of the last cell, changes nothing -/
theorem linearExtrap_extrapRight {xp fp : List K} (hi : Inc xp) (hl : xp.length = fp.length)
    (hn : 2 ≤ xp.length) (x : K) :
    linearExtrap (extrapRight xp) (extrapRight fp) x = linearExtrap xp fp x := by
  rw [extrapRight_eq, extrapRight_eq, ← hl]
  set n := xp.length with hnn
  have hgap : xp.getD (n - 2) 0 < xp.getD (n - 1) 0 := hi.getD_lt (by omega) (by omega)
  set r := xp.getD (n - 1) 0 + (xp.getD (n - 1) 0 - xp.getD (n - 2) 0) with hr
  set s := fp.getD (n - 1) 0 + (fp.getD (n - 1) 0 - fp.getD (n - 2) 0) with hs
  have hi' : Inc (xp ++ [r]) := by
    refine List.pairwise_append.mpr ⟨hi, List.pairwise_singleton _ _, fun a ha b hb => ?_⟩
    rw [List.mem_singleton.mp hb]
    obtain ⟨i, hi1, rfl⟩ := List.mem_iff_getElem.mp ha
    have := hi.getD_le (i := i) (j := n - 1) (by omega) (by omega)
    rw [List.getD_eq_getElem _ _ hi1] at this
    linarith
  have hl' : (xp ++ [r]).length = (fp ++ [s]).length := by simp; omega
  obtain ⟨j, hj, hc⟩ := exists_cell hi hn x
  rw [linearExtrap_cell hi hl hj hc]
  have g1 : ∀ i, i < n → (xp ++ [r]).getD i 0 = xp.getD i 0 := fun i h => List.getD_append _ _ _ _ h
  have g2 : ∀ i, i < n → (fp ++ [s]).getD i 0 = fp.getD i 0 :=
    fun i h => List.getD_append _ _ _ _ (by omega)
  have g3 : (xp ++ [r]).getD n 0 = r := by
    rw [List.getD_append_right _ _ _ _ (le_refl _)]; simp
  have g4 : (fp ++ [s]).getD n 0 = s := by
    rw [List.getD_append_right _ _ _ _ (by omega)]
    have : n - fp.length = 0 := by omega
    rw [this]; simp
  by_cases hcase : j + 2 = n ∧ xp.getD (n - 1) 0 < x
  · obtain ⟨hjn, hxl⟩ := hcase
    have e1 : j + 1 = n - 1 := by omega
    have e2 : j = n - 2 := by omega
    have hc' : InCell (xp ++ [r]) (j + 1) x := by
      refine ⟨Or.inr ?_, Or.inl (by simp; omega)⟩
      rw [g1 _ (by omega), e1]; exact hxl.le
    rw [linearExtrap_cell hi' hl' (by simp; omega) hc']
    unfold cellFormula
    rw [g1 _ (by omega), g2 _ (by omega), show j + 1 + 1 = n by omega, g3, g4, e1, e2]
    have hne : xp.getD (n - 1) 0 - xp.getD (n - 2) 0 ≠ 0 := ne_of_gt (sub_pos.mpr hgap)
    have e : r - xp.getD (n - 1) 0 = xp.getD (n - 1) 0 - xp.getD (n - 2) 0 := by rw [hr]; ring
    rw [e, hs]
    field_simp
    ring
  · have hxr : x ≤ xp.getD (j + 1) 0 := by
      rcases hc.2 with h | h
      · have : ¬ xp.getD (n - 1) 0 < x := fun hx => hcase ⟨h, hx⟩
        have e1 : j + 1 = n - 1 := by omega
        rw [e1]; exact not_lt.mp this
      · exact h
    have hc' : InCell (xp ++ [r]) j x := by
      refine ⟨?_, Or.inr ?_⟩
      · rcases hc.1 with h | h
        · exact Or.inl h
        · right; rw [g1 _ (by omega)]; exact h
      · rw [g1 _ (by omega)]; exact hxr
    rw [linearExtrap_cell hi' hl' (by simp; omega) hc']
    unfold cellFormula
    rw [g1 _ (by omega), g1 _ (by omega), g2 _ (by omega), g2 _ (by omega)]

theorem Sep.extrapLeft {eps : K} {xp : List K} (hs : Sep eps xp) (hn : 2 ≤ xp.length) :
    Sep eps (extrapLeft xp) := by
  match xp, hn with
  | a :: b :: t, _ =>
    rw [extrapLeft_cons2]
    intro j hj
    cases j with
    | zero =>
      have := hs 0 (by simp)
      simp only [List.getD_cons_zero, List.getD_cons_succ] at this ⊢
      linarith
    | succ j =>
      have := hs j (by simp at hj ⊢; omega)
      simpa using this

theorem Sep.extrapRight {eps : K} {xp : List K} (hs : Sep eps xp) (hn : 2 ≤ xp.length) :
    Sep eps (extrapRight xp) := by
  rw [extrapRight_eq]
  intro j hj
  by_cases h : j + 1 < xp.length
  · rw [List.getD_append _ _ _ _ h, List.getD_append _ _ _ _ (by omega)]
    exact hs j h
  · have e : j + 1 = xp.length := by simp at hj; omega
    rw [List.getD_append_right _ _ _ _ (by omega), List.getD_append _ _ _ _ (by omega)]
    have := hs (xp.length - 2) (by omega)
    have e2 : xp.length - 2 + 1 = xp.length - 1 := by omega
    have e3 : j = xp.length - 1 := by omega
    have e4 : j + 1 - xp.length = 0 := by omega
    rw [e2] at this
    rw [e4, e3]
    simp only [List.getD_cons_zero]
    linarith

theorem extrapLeft_length (y : List K) : (extrapLeft y).length = y.length + 1 := by
  simp [extrapLeft]

theorem extrapRight_length (y : List K) : (extrapRight y).length = y.length + 1 := by
  simp [extrapRight]

theorem extrapBoth_length (y : List K) : (extrapBoth y).length = y.length + 2 := by
  simp [extrapBoth, extrapLeft_length, extrapRight_length]

/-- what `k` paddings do to the node set and to the interpolant -/
structure PadSpec (eps : K) (xp fp xp' fp' : List K) (k : Nat) : Prop where
  sep : Sep eps xp'
  len : xp'.length = fp'.length
  two : 2 ≤ xp'.length
  head : xp'.getD 0 0 = xp.getD 0 0 - k * (xp.getD 1 0 - xp.getD 0 0)
  gapL : xp'.getD 1 0 - xp'.getD 0 0 = xp.getD 1 0 - xp.getD 0 0
  last : xp'.getD (xp'.length - 1) 0
      = xp.getD (xp.length - 1) 0 + k * (xp.getD (xp.length - 1) 0 - xp.getD (xp.length - 2) 0)
  gapR : xp'.getD (xp'.length - 1) 0 - xp'.getD (xp'.length - 2) 0
      = xp.getD (xp.length - 1) 0 - xp.getD (xp.length - 2) 0
  ext : ∀ x, linearExtrap xp' fp' x = linearExtrap xp fp x

theorem extrapBoth_spec {eps : K} {xp fp : List K} (h0 : 0 ≤ eps) (hs : Sep eps xp)
    (hl : xp.length = fp.length) (hn : 2 ≤ xp.length) :
    PadSpec eps xp fp (extrapBoth xp) (extrapBoth fp) 1 := by
  have hi := hs.inc h0
  have hsr : Sep eps (Interp.extrapRight xp) := hs.extrapRight hn
  have hnr : 2 ≤ (Interp.extrapRight xp).length := by rw [extrapRight_length]; omega
  have hlr : (Interp.extrapRight xp).length = (Interp.extrapRight fp).length := by
    rw [extrapRight_length, extrapRight_length, hl]
  have hn' : (extrapBoth xp).length = xp.length + 2 := extrapBoth_length xp
  -- explicit shape of the padded node list
  have shape : ∀ y : List K, 2 ≤ y.length →
      (extrapBoth y).getD 0 0 = y.getD 0 0 - (y.getD 1 0 - y.getD 0 0) ∧
      (extrapBoth y).getD 1 0 = y.getD 0 0 ∧
      (extrapBoth y).getD (y.length + 1) 0
        = y.getD (y.length - 1) 0 + (y.getD (y.length - 1) 0 - y.getD (y.length - 2) 0) ∧
      (extrapBoth y).getD y.length 0 = y.getD (y.length - 1) 0 := by
    intro y hy
    match y, hy with
    | a :: b :: t, _ =>
      have e : extrapBoth (a :: b :: t)
          = (a - (b - a)) :: ((a :: b :: t) ++ [(a :: b :: t).getD ((a :: b :: t).length - 1) 0
              + ((a :: b :: t).getD ((a :: b :: t).length - 1) 0
                - (a :: b :: t).getD ((a :: b :: t).length - 2) 0)]) := by
        unfold extrapBoth
        rw [extrapRight_eq]
        exact extrapLeft_cons2 a b _
      rw [e]
      refine ⟨by simp, by simp, ?_, ?_⟩
      · rw [List.getD_cons_succ, List.getD_append_right _ _ _ _ (le_refl _)]; simp
      · have : (a :: b :: t).length = (a :: b :: t).length - 1 + 1 := by simp
        rw [this, List.getD_cons_succ, List.getD_append _ _ _ _ (by simp)]
        simp
  obtain ⟨s0, s1, s2, s3⟩ := shape xp hn
  refine ⟨?_, ?_, ?_, ?_, ?_, ?_, ?_, ?_⟩
  · exact hsr.extrapLeft hnr
  · rw [extrapBoth_length, extrapBoth_length, hl]
  · rw [hn']; omega
  · rw [s0]; simp
  · rw [s0, s1]; ring
  · rw [hn', show xp.length + 2 - 1 = xp.length + 1 by omega, s2]; simp
  · rw [hn', show xp.length + 2 - 1 = xp.length + 1 by omega,
      show xp.length + 2 - 2 = xp.length by omega, s2, s3]; ring
  · intro x
    unfold extrapBoth
    rw [linearExtrap_extrapLeft (hsr.inc h0) hlr hnr, linearExtrap_extrapRight hi hl hn]

theorem padN_spec {eps : K} (h0 : 0 ≤ eps) : ∀ (k : Nat) (xp fp : List K), Sep eps xp →
    xp.length = fp.length → 2 ≤ xp.length → PadSpec eps xp fp (padN k xp) (padN k fp) k := by
  intro k
  induction k with
  | zero =>
    intro xp fp hs hl hn
    exact ⟨hs, hl, hn, by simp [padN], rfl, by simp [padN], rfl, fun _ => rfl⟩
  | succ k ih =>
    intro xp fp hs hl hn
    have S1 := extrapBoth_spec h0 hs hl hn
    have S2 := ih (extrapBoth xp) (extrapBoth fp) S1.sep S1.len S1.two
    show PadSpec eps xp fp (padN k (extrapBoth xp)) (padN k (extrapBoth fp)) (k + 1)
    refine ⟨S2.sep, S2.len, S2.two, ?_, ?_, ?_, ?_, ?_⟩
    · rw [S2.head, S1.gapL, S1.head]; push_cast; ring
    · rw [S2.gapL, S1.gapL]
    · rw [S2.last, S1.gapR, S1.last]; push_cast; ring
    · rw [S2.gapR, S1.gapR]
    · intro x; rw [S2.ext, S1.ext]

/-- `_linear_interp_with_safe_extrap(n = k)`: the unlimited linear extrapolation within `k`
 end-cell widths of the node range, NaN beyond -/
theorem safeInterp_eq_linearExtrap {eps : K} {xp fp : List K} (h0 : 0 ≤ eps) (hs : Sep eps xp)
    (hl : xp.length = fp.length) (hn : 2 ≤ xp.length) (k : Nat) (x : K) :
    safeInterp eps k xp fp x
      = if xp.getD 0 0 - k * (xp.getD 1 0 - xp.getD 0 0) ≤ x ∧
          x ≤ xp.getD (xp.length - 1) 0
              + k * (xp.getD (xp.length - 1) 0 - xp.getD (xp.length - 2) 0)
        then some (linearExtrap xp fp x) else none := by
  have S := padN_spec h0 k xp fp hs hl hn
  unfold safeInterp
  rw [interpNan_eq_cases, S.last, S.head, interpCore_eq_cellValue h0 S.sep _ x S.two,
    ← linearExtrap_eq_cellValue _ _ x S.len S.two, S.ext]
  by_cases h1 : xp.getD (xp.length - 1) 0
      + k * (xp.getD (xp.length - 1) 0 - xp.getD (xp.length - 2) 0) < x
  · rw [if_pos h1, if_neg (fun h => absurd h.2 (not_le.mpr h1))]
  · rw [if_neg h1]
    by_cases h2 : x < xp.getD 0 0 - k * (xp.getD 1 0 - xp.getD 0 0)
    · rw [if_pos h2, if_neg (fun h => absurd h.1 (not_le.mpr h2))]
    · rw [if_neg h2, if_pos ⟨not_lt.mp h2, not_lt.mp h1⟩]

/-! ## first minimum -/

theorem argminAux_spec : ∀ (t pre : List K) (bi : Nat) (best : K),
    pre[bi]? = some best →
    (∀ (j : Nat) (v : K), pre[j]? = some v → best ≤ v) →
    (∀ (j : Nat) (v : K), j < bi → pre[j]? = some v → best < v) →
    ∃ m, (pre ++ t)[argminAux best bi pre.length t]? = some m ∧
      (∀ (j : Nat) (v : K), (pre ++ t)[j]? = some v → m ≤ v) ∧
      (∀ (j : Nat) (v : K), j < argminAux best bi pre.length t → (pre ++ t)[j]? = some v → m < v) := by
  intro t
  induction t with
  | nil =>
    intro pre bi best hb hmin hfirst
    refine ⟨best, by simpa [argminAux] using hb, ?_, ?_⟩
    · intro j v hv; exact hmin j v (by simpa using hv)
    · intro j v hj hv; exact hfirst j v (by simpa [argminAux] using hj) (by simpa using hv)
  | cons a t ih =>
    intro pre bi best hb hmin hfirst
    have hbi : bi < pre.length := by
      by_contra h
      rw [List.getElem?_eq_none (by omega)] at hb
      exact absurd hb (by simp)
    have hassoc : pre ++ a :: t = (pre ++ [a]) ++ t := by simp
    have hlen : (pre ++ [a]).length = pre.length + 1 := by simp
    have hsplit : ∀ (j : Nat) (v : K), (pre ++ [a])[j]? = some v → pre[j]? = some v ∨ (j = pre.length ∧ v = a) := by
      intro j v hv
      rw [List.getElem?_append] at hv
      by_cases hj : j < pre.length
      · left; simpa [hj] using hv
      · right
        simp only [hj, if_false] at hv
        by_cases hj0 : j - pre.length = 0
        · rw [hj0] at hv
          simp at hv
          exact ⟨by omega, hv.symm⟩
        · obtain ⟨q, hq⟩ : ∃ q, j - pre.length = q + 1 := ⟨j - pre.length - 1, by omega⟩
          rw [hq] at hv; simp at hv
    unfold argminAux
    by_cases hab : a < best
    · rw [if_pos hab, hassoc, ← hlen]
      apply ih (pre ++ [a]) pre.length a
      · simp
      · intro j v hv
        rcases hsplit j v hv with h | ⟨_, rfl⟩
        · exact (lt_of_lt_of_le hab (hmin j v h)).le
        · exact le_rfl
      · intro j v hj hv
        rcases hsplit j v hv with h | ⟨h, _⟩
        · exact lt_of_lt_of_le hab (hmin j v h)
        · omega
    · rw [if_neg hab, hassoc, ← hlen]
      apply ih (pre ++ [a]) bi best
      · rw [List.getElem?_append_left hbi]; exact hb
      · intro j v hv
        rcases hsplit j v hv with h | ⟨_, rfl⟩
        · exact hmin j v h
        · exact not_lt.mp hab
      · intro j v hj hv
        rcases hsplit j v hv with h | ⟨h, _⟩
        · exact hfirst j v hj h
        · omega

theorem argminFirst_spec (l : List K) (hl : l ≠ []) :
    ∃ m, l[argminFirst l]? = some m ∧ (∀ (j : Nat) (v : K), l[j]? = some v → m ≤ v) ∧
      (∀ (j : Nat) (v : K), j < argminFirst l → l[j]? = some v → m < v) := by
  match l, hl with
  | a :: t, _ =>
    have := argminAux_spec t [a] 0 a (by simp)
      (by
        intro j v hv
        cases j with
        | zero => simp at hv; exact hv.le
        | succ j => simp at hv)
      (by intro j v hj; omega)
    simpa [argminFirst] using this

/-! ## interpolation at all nodes -/

theorem interp_map_nodes_aux {eps : K} {xp fp : List K}
    (hnode : ∀ j (hj : j < xp.length) (hj' : j < fp.length), interp eps xp fp xp[j] = fp[j])
    (hl : xp.length = fp.length) : xp.map (interp eps xp fp) = fp := by
  apply List.ext_getElem
  · simpa using hl
  · intro j h1 h2
    rw [List.getElem_map]
    exact hnode j (by simpa using h1) h2

end Dino.Interp
