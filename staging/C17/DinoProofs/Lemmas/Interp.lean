import Dino.Interp
import Mathlib.Algebra.Order.Field.Basic
import Mathlib.Algebra.BigOperators.Group.List.Basic
import Mathlib.Data.List.GetD
import Mathlib.Tactic.Ring
import Mathlib.Tactic.Linarith
import Mathlib.Tactic.FieldSimp

/-!
# Lemmas about the interpolation model `Dino.Interp`

Everything is over an arbitrary linearly ordered field `K`.  Nodes are accessed with `getD · 0`
inside the lemmas (no dependent index proofs); every lemma carries the bound that makes the
default irrelevant.
-/
set_option linter.unusedSectionVars false
set_option linter.unusedSimpArgs false

namespace Dino.Interp

variable {K : Type} [Field K] [LinearOrder K] [IsStrictOrderedRing K]

/-- node separation: every spacing exceeds the guard `eps` of `jnp.interp` -/
def Sep (eps : K) (xp : List K) : Prop :=
  ∀ j, j + 1 < xp.length → eps < xp.getD (j + 1) 0 - xp.getD j 0

/-- strictly increasing nodes -/
def Inc (xp : List K) : Prop := xp.Pairwise (· < ·)

/-- the linear interpolant of cell `j` (nodes `j`, `j+1`) evaluated at `x` -/
def cellFormula (xp fp : List K) (j : Nat) (x : K) : K :=
  fp.getD j 0 + (x - xp.getD j 0) / (xp.getD (j + 1) 0 - xp.getD j 0) * (fp.getD (j + 1) 0 - fp.getD j 0)

/-- `x` belongs to cell `j`, the two end cells being unbounded outwards -/
def InCell (xp : List K) (j : Nat) (x : K) : Prop :=
  (j = 0 ∨ xp.getD j 0 ≤ x) ∧ (j + 2 = xp.length ∨ x ≤ xp.getD (j + 1) 0)

/-! ## order facts -/

theorem Inc.getD_lt {xp : List K} (h : Inc xp) {i j : Nat} (hij : i < j) (hj : j < xp.length) :
    xp.getD i 0 < xp.getD j 0 := by
  rw [List.getD_eq_getElem _ _ hj, List.getD_eq_getElem _ _ (by omega)]
  exact (List.pairwise_iff_getElem.mp h) i j (by omega) hj hij

theorem Inc.getD_le {xp : List K} (h : Inc xp) {i j : Nat} (hij : i ≤ j) (hj : j < xp.length) :
    xp.getD i 0 ≤ xp.getD j 0 := by
  rcases Nat.eq_or_lt_of_le hij with rfl | hlt
  · exact le_rfl
  · exact (h.getD_lt hlt hj).le

theorem Inc.getD_inj {xp : List K} (h : Inc xp) {i j : Nat} (hi : i < xp.length) (hj : j < xp.length)
    (he : xp.getD i 0 = xp.getD j 0) : i = j := by
  rcases Nat.lt_trichotomy i j with hlt | rfl | hgt
  · exact absurd he (h.getD_lt hlt hj).ne
  · rfl
  · exact absurd he.symm (h.getD_lt hgt hi).ne

theorem Sep.inc {eps : K} {xp : List K} (h0 : 0 ≤ eps) (hs : Sep eps xp) : Inc xp := by
  unfold Inc
  rw [← List.isChain_iff_pairwise, List.isChain_iff_getElem]
  intro i hi
  have := hs i hi
  rw [List.getD_eq_getElem _ _ hi, List.getD_eq_getElem _ _ (by omega)] at this
  linarith

theorem Inc.tail {a : K} {t : List K} (h : Inc (a :: t)) : Inc t := (List.pairwise_cons.mp h).2

/-! ## `searchsorted(side='right')` -/

theorem ssr_cons (a : K) (t : List K) (x : K) :
    ssr (a :: t) x = ssr t x + (if a ≤ x then 1 else 0) := by
  simp [ssr, List.countP_cons]

theorem ssr_le_length (xp : List K) (x : K) : ssr xp x ≤ xp.length := List.countP_le_length

/-- on increasing nodes `ssr` is the number of nodes `≤ x`: node `j` is counted iff `xp[j] ≤ x` -/
theorem ssr_spec {xp : List K} (h : Inc xp) (x : K) {j : Nat} (hj : j < xp.length) :
    j < ssr xp x ↔ xp.getD j 0 ≤ x := by
  induction xp generalizing j with
  | nil => simp at hj
  | cons a t ih =>
    have ht : Inc t := h.tail
    have hat : ∀ b ∈ t, a < b := (List.pairwise_cons.mp h).1
    rw [ssr_cons]
    by_cases hax : a ≤ x
    · simp only [hax, if_true]
      cases j with
      | zero => simp [hax]
      | succ j' =>
        simp only [List.getD_cons_succ]
        rw [← ih ht (by simpa using hj)]
        omega
    · simp only [hax, if_false, Nat.add_zero]
      have hxa : x < a := not_le.mp hax
      have hnone : ∀ i, i < t.length → ¬ t.getD i 0 ≤ x := by
        intro i hi hle
        have : a < t.getD i 0 := by
          rw [List.getD_eq_getElem _ _ hi]; exact hat _ (List.getElem_mem hi)
        linarith
      have hz : ssr t x = 0 := by
        by_contra hne
        have hpos : 0 < ssr t x := Nat.pos_of_ne_zero hne
        have hlen : 0 < t.length := lt_of_lt_of_le hpos (ssr_le_length t x)
        exact hnone 0 hlen ((ih ht hlen).mp hpos)
      rw [hz]
      cases j with
      | zero => simp [hax]
      | succ j' =>
        simp only [List.getD_cons_succ]
        constructor
        · intro h'; omega
        · intro h'; exact absurd h' (hnone j' (by simpa using hj))

/-! ## cells -/

theorem cellIdx_bounds (xp : List K) (x : K) (hn : 2 ≤ xp.length) :
    1 ≤ cellIdx xp x ∧ cellIdx xp x + 1 ≤ xp.length := by
  unfold cellIdx clipIdx
  omega

/-- the cell the implementation picks is a cell that contains `x` -/
theorem inCell_cellIdx {xp : List K} (h : Inc xp) (hn : 2 ≤ xp.length) (x : K) :
    InCell xp (cellIdx xp x - 1) x := by
  have hk := ssr_le_length xp x
  have hb := cellIdx_bounds xp x hn
  constructor
  · by_cases h0 : cellIdx xp x - 1 = 0
    · left; exact h0
    · right
      apply (ssr_spec h x (by omega)).mp
      unfold cellIdx clipIdx at h0 ⊢
      omega
  · by_cases h2 : cellIdx xp x - 1 + 2 = xp.length
    · left; exact h2
    · right
      have hlt : ¬ (cellIdx xp x - 1 + 1 < ssr xp x) := by
        unfold cellIdx clipIdx at h2 ⊢
        omega
      rw [ssr_spec h x (by omega)] at hlt
      exact (not_le.mp hlt).le

theorem exists_cell {xp : List K} (h : Inc xp) (hn : 2 ≤ xp.length) (x : K) :
    ∃ j, j + 1 < xp.length ∧ InCell xp j x :=
  ⟨cellIdx xp x - 1, by have := cellIdx_bounds xp x hn; omega, inCell_cellIdx h hn x⟩

/-- any cell containing `x` is the one the implementation picks, except at a tie with the right
 node of the cell, where the implementation picks the next cell -/
theorem cell_cases {xp : List K} (h : Inc xp) {j : Nat} (hj : j + 1 < xp.length) {x : K}
    (hc : InCell xp j x) :
    cellIdx xp x = j + 1 ∨ (cellIdx xp x = j + 2 ∧ x = xp.getD (j + 1) 0 ∧ j + 2 < xp.length) := by
  have hk := ssr_le_length xp x
  obtain ⟨hl, hr⟩ := hc
  have hjk : j = 0 ∨ j < ssr xp x := hl.imp id (fun hle => (ssr_spec h x (by omega)).mpr hle)
  rcases lt_trichotomy x (xp.getD (j + 1) 0) with hlt | heq | hgt
  · left
    have : ¬ (j + 1 < ssr xp x) := by
      rw [ssr_spec h x hj]; exact not_le.mpr hlt
    unfold cellIdx clipIdx
    omega
  · have h1 : j + 1 < ssr xp x := (ssr_spec h x hj).mpr heq.ge
    by_cases hn : j + 2 < xp.length
    · right
      refine ⟨?_, heq, hn⟩
      have : ¬ (j + 2 < ssr xp x) := by
        rw [ssr_spec h x hn, heq]
        exact not_le.mpr (h.getD_lt (by omega) hn)
      unfold cellIdx clipIdx
      omega
    · left
      unfold cellIdx clipIdx
      omega
  · left
    have hn : j + 2 = xp.length := by
      rcases hr with hr | hr
      · exact hr
      · exact absurd hr (not_le.mpr hgt)
    have h1 : j + 1 < ssr xp x := (ssr_spec h x hj).mpr hgt.le
    unfold cellIdx clipIdx
    omega

/-! ## finite sums with one-point support -/

theorem sum_range_ite (n c : Nat) (g : Nat → K) (hc : c < n) :
    ((List.range n).map fun i => if i = c then g i else 0).sum = g c := by
  induction n with
  | zero => omega
  | succ m ih =>
    rw [List.range_succ, List.map_append, List.sum_append]
    by_cases hcm : c < m
    · rw [ih hcm]
      have : m ≠ c := by omega
      simp [this]
    · have hcm' : c = m := by omega
      subst hcm'
      have hz : ((List.range c).map fun i => if i = c then g i else 0).sum = 0 := by
        apply List.sum_eq_zero
        intro v hv
        obtain ⟨i, hi, rfl⟩ := List.mem_map.mp hv
        have : i ≠ c := by have := List.mem_range.mp hi; omega
        simp [this]
      rw [hz]; simp

theorem zipWith_map_range (n : Nat) (g : Nat → K) (fp : List K) (hl : fp.length = n) :
    List.zipWith (fun a b => a * b) ((List.range n).map g) fp
      = (List.range n).map fun i => g i * fp.getD i 0 := by
  apply List.ext_getElem
  · simp [hl]
  · intro i h1 h2
    have hi : i < fp.length := by simp at h1; omega
    simp only [List.getElem_zipWith, List.getElem_map, List.getElem_range]
    rw [List.getD_eq_getElem _ _ hi]

theorem dot_map_range (n : Nat) (g : Nat → K) (fp : List K) (hl : fp.length = n) :
    dot ((List.range n).map g) fp = ((List.range n).map fun i => g i * fp.getD i 0).sum := by
  unfold dot; rw [zipWith_map_range n g fp hl]

/-- a one-hot weight vector picks one entry -/
theorem dot_onehot (n c : Nat) (fp : List K) (hl : fp.length = n) (hc : c < n) :
    dot ((List.range n).map fun i => (ind (decide (i = c)) : K)) fp = fp.getD c 0 := by
  rw [dot_map_range n _ fp hl]
  rw [← sum_range_ite n c (fun i => fp.getD i 0) hc]
  congr 1
  apply List.map_congr_left
  intro i _
  by_cases h : i = c <;> simp [ind, h]

/-! ## the two evaluation schemes reduce to the cell formula -/

theorem cellWeights_length (xp : List K) (x : K) : (cellWeights xp x).length = xp.length - 1 := by
  simp [cellWeights]

theorem cellWeights_getD (xp : List K) (x : K) (j : Nat) (hj : j + 1 < xp.length) :
    (cellWeights xp x).getD j 0 = (x - xp.getD j 0) / (xp.getD (j + 1) 0 - xp.getD j 0) := by
  have h1 : j < (cellWeights xp x).length := by rw [cellWeights_length]; omega
  rw [List.getD_eq_getElem _ _ h1]
  simp only [cellWeights, List.getElem_zipWith, List.getElem_tail]
  rw [List.getD_eq_getElem _ _ hj, List.getD_eq_getElem _ _ (by omega : j < xp.length)]

/-- the weight vector of the dot-product scheme, evaluated: the cell formula of the chosen cell -/
theorem linearExtrap_eq_cell (xp fp : List K) (x : K) (hl : xp.length = fp.length)
    (hn : 2 ≤ xp.length) :
    linearExtrap xp fp x = cellFormula xp fp (cellIdx xp x - 1) x := by
  obtain ⟨hu1, hu2⟩ := cellIdx_bounds xp x hn
  set u := cellIdx xp x with hu
  unfold linearExtrap linWeights
  simp only [← hu]
  rw [dot_map_range _ _ fp hl.symm]
  set w := cellWeights xp x with hw
  have hwl : w.length = xp.length - 1 := cellWeights_length xp x
  have key : ∀ i : Nat,
      ((w.map (fun t => 1 - t) ++ [0]).getD i 0 * ind (decide ((i : Int) = (u : Int) - 1))
        + ((0 : K) :: w).getD i 0 * ind (decide ((i : Int) = (u : Int)))) * fp.getD i 0
      = (if i = u - 1 then (1 - w.getD (u - 1) 0) * fp.getD (u - 1) 0 else 0)
        + (if i = u then w.getD (u - 1) 0 * fp.getD u 0 else 0) := by
    intro i
    have e1 : (ind (decide ((i : Int) = (u : Int) - 1)) : K) = if i = u - 1 then 1 else 0 := by
      by_cases h : i = u - 1
      · have h' : (i : Int) = (u : Int) - 1 := by omega
        rw [if_pos h]; simp [ind, h']
      · have h' : ¬ (i : Int) = (u : Int) - 1 := by omega
        rw [if_neg h]; simp [ind, h']
    have e2 : (ind (decide ((i : Int) = (u : Int))) : K) = if i = u then 1 else 0 := by
      by_cases h : i = u
      · simp [ind, h]
      · have h' : ¬ (i : Int) = (u : Int) := by omega
        simp [ind, h, h']
    rw [e1, e2]
    by_cases h1 : i = u - 1
    · have h2 : i ≠ u := by omega
      have hget : (w.map (fun t => 1 - t) ++ [0]).getD i 0 = 1 - w.getD (u - 1) 0 := by
        have hi : i < (w.map fun t => 1 - t).length := by simp; omega
        rw [List.getD_eq_getElem _ _ (by simp; omega), List.getElem_append_left hi]
        simp only [List.getElem_map]
        rw [List.getD_eq_getElem _ _ (by omega)]
        simp only [h1]
      rw [hget, if_pos h1, if_neg h2, if_pos h1, if_neg h2, h1]
      ring
    · by_cases h2 : i = u
      · have hget : ((0 : K) :: w).getD i 0 = w.getD (u - 1) 0 := by
          rw [h2]
          obtain ⟨v, hv⟩ : ∃ v, u = v + 1 := ⟨u - 1, by omega⟩
          rw [hv, List.getD_cons_succ]; rfl
        rw [hget, if_neg h1, if_pos h2, if_neg h1, if_pos h2, h2]
        ring
      · rw [if_neg h1, if_neg h2, if_neg h1, if_neg h2]
        ring
  rw [List.map_congr_left (fun i _ => key i), List.sum_map_add,
    sum_range_ite _ (u - 1) (fun _ => (1 - w.getD (u - 1) 0) * fp.getD (u - 1) 0) (by omega),
    sum_range_ite _ u (fun _ => w.getD (u - 1) 0 * fp.getD u 0) (by omega)]
  rw [hw, cellWeights_getD xp x (u - 1) (by omega)]
  unfold cellFormula
  have : u - 1 + 1 = u := by omega
  rw [this]
  ring

theorem Sep.gap_pos {eps : K} {xp : List K} (h0 : 0 ≤ eps) (hs : Sep eps xp) {j : Nat}
    (hj : j + 1 < xp.length) : 0 < xp.getD (j + 1) 0 - xp.getD j 0 :=
  lt_of_le_of_lt h0 (hs j hj)

/-- `jnp.interp` before the end replacement: when the guard is not triggered, the cell formula -/
theorem interpCore_eq_cell {eps : K} {xp : List K} (h0 : 0 ≤ eps) (hs : Sep eps xp) (fp : List K)
    (x : K) (hn : 2 ≤ xp.length) :
    interpCore eps xp fp x = cellFormula xp fp (cellIdx xp x - 1) x := by
  obtain ⟨hu1, hu2⟩ := cellIdx_bounds xp x hn
  set u := cellIdx xp x with hu
  have hgap := hs (u - 1) (by omega)
  have hpos := hs.gap_pos h0 (j := u - 1) (by omega)
  have e1 : u - 1 + 1 = u := by omega
  rw [e1] at hgap hpos
  unfold interpCore
  simp only [← hu]
  have habs : absK (xp.getD u 0 - xp.getD (u - 1) 0) = xp.getD u 0 - xp.getD (u - 1) 0 := by
    unfold absK; rw [if_neg (not_lt.mpr hpos.le)]
  simp only [habs, hgap, not_true_eq_false, decide_false, Bool.false_eq_true, if_false]
  unfold cellFormula
  rw [e1]

/-! ## values on a cell -/

/-- what both evaluation schemes compute -/
def cellValue (xp fp : List K) (x : K) : K := cellFormula xp fp (cellIdx xp x - 1) x

theorem cellFormula_left (xp fp : List K) (j : Nat) :
    cellFormula xp fp j (xp.getD j 0) = fp.getD j 0 := by
  unfold cellFormula; simp

theorem cellFormula_right (xp fp : List K) (j : Nat) (hne : xp.getD (j + 1) 0 - xp.getD j 0 ≠ 0) :
    cellFormula xp fp j (xp.getD (j + 1) 0) = fp.getD (j + 1) 0 := by
  unfold cellFormula; rw [div_self hne]; ring

/-- the value does not depend on which containing cell is used (continuity at the nodes) -/
theorem cellValue_cell {xp : List K} (h : Inc xp) (fp : List K) {j : Nat} (hj : j + 1 < xp.length)
    {x : K} (hc : InCell xp j x) : cellValue xp fp x = cellFormula xp fp j x := by
  unfold cellValue
  rcases cell_cases h hj hc with h1 | ⟨h1, hx, hn⟩
  · rw [h1, Nat.add_sub_cancel]
  · have hne : xp.getD (j + 1) 0 - xp.getD j 0 ≠ 0 :=
      ne_of_gt (sub_pos.mpr (h.getD_lt (Nat.lt_succ_self j) hj))
    rw [h1, show j + 2 - 1 = j + 1 by omega, hx, cellFormula_left, cellFormula_right _ _ _ hne]

theorem linearExtrap_eq_cellValue (xp fp : List K) (x : K) (hl : xp.length = fp.length)
    (hn : 2 ≤ xp.length) : linearExtrap xp fp x = cellValue xp fp x :=
  linearExtrap_eq_cell xp fp x hl hn

theorem interpCore_eq_cellValue {eps : K} {xp : List K} (h0 : 0 ≤ eps) (hs : Sep eps xp)
    (fp : List K) (x : K) (hn : 2 ≤ xp.length) : interpCore eps xp fp x = cellValue xp fp x :=
  interpCore_eq_cell h0 hs fp x hn

theorem linearExtrap_cell {xp fp : List K} (h : Inc xp) (hl : xp.length = fp.length) {j : Nat}
    (hj : j + 1 < xp.length) {x : K} (hc : InCell xp j x) :
    linearExtrap xp fp x = cellFormula xp fp j x := by
  rw [linearExtrap_eq_cellValue xp fp x hl (by omega), cellValue_cell h fp hj hc]

theorem interpCore_cell {eps : K} {xp : List K} (h0 : 0 ≤ eps) (hs : Sep eps xp) (fp : List K)
    {j : Nat} (hj : j + 1 < xp.length) {x : K} (hc : InCell xp j x) :
    interpCore eps xp fp x = cellFormula xp fp j x := by
  rw [interpCore_eq_cellValue h0 hs fp x (by omega), cellValue_cell (hs.inc h0) fp hj hc]

/-- the cell formula reproduces affine data -/
theorem cellFormula_affine (xp : List K) (a s : K) (j : Nat) (hj : j + 1 < xp.length) (x : K)
    (hne : xp.getD (j + 1) 0 - xp.getD j 0 ≠ 0) :
    cellFormula xp (xp.map fun t => a + s * t) j x = a + s * x := by
  unfold cellFormula
  have e1 : (xp.map fun t => a + s * t).getD j 0 = a + s * xp.getD j 0 := by
    rw [List.getD_eq_getElem _ _ (by simp; omega), List.getD_eq_getElem _ _ (by omega)]; simp
  have e2 : (xp.map fun t => a + s * t).getD (j + 1) 0 = a + s * xp.getD (j + 1) 0 := by
    rw [List.getD_eq_getElem _ _ (by simp; omega), List.getD_eq_getElem _ _ hj]; simp
  rw [e1, e2]
  field_simp
  ring

/-- inside a cell the value is a convex combination of the two node values -/
theorem cellFormula_convex (xp fp : List K) (j : Nat) (x : K) :
    cellFormula xp fp j x
      = (1 - (x - xp.getD j 0) / (xp.getD (j + 1) 0 - xp.getD j 0)) * fp.getD j 0
        + (x - xp.getD j 0) / (xp.getD (j + 1) 0 - xp.getD j 0) * fp.getD (j + 1) 0 := by
  unfold cellFormula; ring

/-! ## end replacement: `interp`, `interpNan`, `dotInterp` by cases -/

theorem headD_eq_getD (l : List K) : l.headD 0 = l.getD 0 0 := by
  cases l <;> simp

theorem getLastD_eq_getD (l : List K) : l.getLastD 0 = l.getD (l.length - 1) 0 := by
  simp [List.getLast?_eq_getElem?]

theorem interp_eq_cases (eps : K) (xp fp : List K) (x : K) :
    interp eps xp fp x
      = if xp.getD (xp.length - 1) 0 < x then fp.getD (fp.length - 1) 0
        else if x < xp.getD 0 0 then fp.getD 0 0 else interpCore eps xp fp x := by
  unfold interp
  simp only [headD_eq_getD, getLastD_eq_getD]

theorem interpNan_eq_cases (eps : K) (xp fp : List K) (x : K) :
    interpNan eps xp fp x
      = if xp.getD (xp.length - 1) 0 < x then none
        else if x < xp.getD 0 0 then none else some (interpCore eps xp fp x) := by
  unfold interpNan
  simp only [headD_eq_getD, getLastD_eq_getD]

theorem dotInterp_eq_cases (xp fp : List K) (x : K) (hl : xp.length = fp.length)
    (hn : 1 ≤ xp.length) :
    dotInterp xp fp x
      = if xp.getD (xp.length - 1) 0 < x then fp.getD (fp.length - 1) 0
        else if x < xp.getD 0 0 then fp.getD 0 0 else linearExtrap xp fp x := by
  unfold dotInterp dotWeights
  simp only [headD_eq_getD, getLastD_eq_getD]
  have hlast : ((List.range xp.length).map fun i => (ind (decide (i + 1 = xp.length)) : K))
      = (List.range xp.length).map fun i => (ind (decide (i = xp.length - 1)) : K) := by
    apply List.map_congr_left
    intro i _
    have : (i + 1 = xp.length) ↔ (i = xp.length - 1) := by omega
    simp only [this]
  by_cases h1 : xp.getD (xp.length - 1) 0 < x
  · rw [if_pos h1, if_pos h1, hlast, dot_onehot _ _ fp hl.symm (by omega), hl]
  · rw [if_neg h1, if_neg h1]
    by_cases h2 : x < xp.getD 0 0
    · rw [if_pos h2, if_pos h2, dot_onehot _ _ fp hl.symm (by omega)]
    · rw [if_neg h2, if_neg h2]; rfl

/-- inside the node range (a closed cell) the generalised cell condition holds -/
theorem inCell_of_mem {xp : List K} {j : Nat} {x : K} (h1 : xp.getD j 0 ≤ x)
    (h2 : x ≤ xp.getD (j + 1) 0) : InCell xp j x := ⟨Or.inr h1, Or.inr h2⟩

/-- a point of the node range lies in a closed cell -/
theorem exists_closed_cell {xp : List K} (h : Inc xp) (hn : 2 ≤ xp.length) {x : K}
    (h1 : xp.getD 0 0 ≤ x) (h2 : x ≤ xp.getD (xp.length - 1) 0) :
    ∃ j, j + 1 < xp.length ∧ xp.getD j 0 ≤ x ∧ x ≤ xp.getD (j + 1) 0 := by
  obtain ⟨j, hj, hl, hr⟩ := exists_cell h hn x
  refine ⟨j, hj, ?_, ?_⟩
  · rcases hl with rfl | hl
    · exact h1
    · exact hl
  · rcases hr with hr | hr
    · have : j + 1 = xp.length - 1 := by omega
      rw [this]; exact h2
    · exact hr

end Dino.Interp
