import DinoProofs.Lemmas.Interp
import Mathlib.Algebra.Order.Field.Basic
import Mathlib.Tactic.Ring
import Mathlib.Tactic.Linarith
import Mathlib.Tactic.FieldSimp
import Mathlib.Tactic.NormNum

/-!
# C17 — vertical interpolation, pressure/sigma/hybrid regridding, bilinear / nearest regridding

All statements are about the executable model `Dino.Interp` (tied to
`dinosaur/vertical_interpolation.py`, `dinosaur/horizontal_interpolation.py` and
`primitive_equations._vertical_interp` by the correspondence check of `harness/props/C17.py`), over an
arbitrary linearly ordered field `K`, for node sets of any size, arbitrary data and arbitrary
queries.

Hypotheses used throughout:
* `0 ≤ eps`, `Sep eps xp`: every node spacing exceeds the guard `eps` of `jnp.interp`
  (`np.spacing(finfo.eps) = 2^-104` in float64); this implies that the nodes are strictly
  increasing (`Sep.inc`).  The harness validates it on every generated admissible node set; the
  `example`s at the end show that it cannot be dropped.
* `Inc xp`: strictly increasing nodes (for the routines that do not go through `jnp.interp`).
* `xp.length = fp.length`: the shape validation of the implementation (`interpChecked` …).
-/

set_option linter.unusedSectionVars false
set_option linter.unusedSimpArgs false

namespace Dino.C17
open Dino.Interp

variable {K : Type} [Field K] [LinearOrder K] [IsStrictOrderedRing K]

/-! ## T17.1 `interp` (the `jnp.interp` path): node values, convexity, constant beyond the ends -/

/-- with one node `interp` is constant (whatever the guard) -/
theorem interp_one_node (eps a f x : K) : interp eps [a] [f] x = f := by
  rw [interp_eq_cases]
  have hc : interpCore eps [a] [f] x = f := by
    unfold interpCore cellIdx clipIdx
    simp
  simp [hc]

/-- `interp` returns the node value at every node -/
theorem interp_node {eps : K} {xp fp : List K} (h0 : 0 ≤ eps) (hs : Sep eps xp)
    (hl : xp.length = fp.length) (j : Nat) (hj : j < xp.length) :
    interp eps xp fp xp[j] = fp[j]'(hl ▸ hj) := by
  have hi := hs.inc h0
  rw [← List.getD_eq_getElem xp 0 hj, ← List.getD_eq_getElem fp 0 (hl ▸ hj), interp_eq_cases,
    if_neg (not_lt.mpr (hi.getD_le (by omega) (by omega))),
    if_neg (not_lt.mpr (hi.getD_le (Nat.zero_le j) hj))]
  by_cases hj1 : j + 1 < xp.length
  · rw [interpCore_cell h0 hs fp hj1 (inCell_of_mem le_rfl (hi.getD_le (Nat.le_succ j) hj1)),
      cellFormula_left]
  · by_cases hn : 2 ≤ xp.length
    · obtain ⟨i, rfl⟩ : ∃ i, j = i + 1 := ⟨j - 1, by omega⟩
      have hc : InCell xp i (xp.getD (i + 1) 0) :=
        ⟨Or.inr (hi.getD_le (Nat.le_succ i) hj), Or.inl (by omega)⟩
      rw [interpCore_cell h0 hs fp hj hc, cellFormula_right _ _ _ (ne_of_gt (hs.gap_pos h0 hj))]
    · match xp, fp, hl with
      | [a], [f], _ =>
        have : j = 0 := by simp at hj; omega
        subst this
        have := interp_one_node eps a f a
        rw [interp_eq_cases] at this
        simpa using this
      | [], _, _ => simp at hj
      | _ :: _ :: _, _, _ => simp at hn

/-- inside cell `j` the value is the convex combination of the two neighbouring node values with
 the weight of the query in the cell -/
theorem interp_convex {eps : K} {xp fp : List K} (h0 : 0 ≤ eps) (hs : Sep eps xp)
    (hl : xp.length = fp.length) (j : Nat) (hj : j + 1 < xp.length) (x : K)
    (h1 : xp[j] ≤ x) (h2 : x ≤ xp[j + 1]) :
    0 ≤ (x - xp[j]) / (xp[j + 1] - xp[j]) ∧ (x - xp[j]) / (xp[j + 1] - xp[j]) ≤ 1 ∧
    interp eps xp fp x
      = (1 - (x - xp[j]) / (xp[j + 1] - xp[j])) * fp[j]'(by omega)
        + (x - xp[j]) / (xp[j + 1] - xp[j]) * fp[j + 1]'(by omega) := by
  have hi := hs.inc h0
  have hgap := hs.gap_pos h0 hj
  rw [← List.getD_eq_getElem xp 0 (by omega : j < xp.length)] at h1 ⊢
  rw [← List.getD_eq_getElem xp 0 hj] at h2 ⊢
  rw [← List.getD_eq_getElem fp 0 (by omega : j < fp.length),
    ← List.getD_eq_getElem fp 0 (by omega : j + 1 < fp.length)]
  refine ⟨div_nonneg (sub_nonneg.mpr h1) hgap.le, (div_le_one hgap).mpr (by linarith), ?_⟩
  have hlo : xp.getD 0 0 ≤ x := le_trans (hi.getD_le (Nat.zero_le j) (by omega)) h1
  have hhi : x ≤ xp.getD (xp.length - 1) 0 := le_trans h2 (hi.getD_le (by omega) (by omega))
  rw [interp_eq_cases, if_neg (not_lt.mpr hhi), if_neg (not_lt.mpr hlo),
    interpCore_cell h0 hs fp hj (inCell_of_mem h1 h2), cellFormula_convex]

/-- inside the node range the value lies between the two neighbouring node values -/
theorem interp_bounded {eps : K} {xp fp : List K} (h0 : 0 ≤ eps) (hs : Sep eps xp)
    (hl : xp.length = fp.length) (hn : 2 ≤ xp.length) (x : K)
    (h1 : xp[0] ≤ x) (h2 : x ≤ xp[xp.length - 1]) :
    ∃ (j : Nat) (hj : j + 1 < xp.length), xp[j] ≤ x ∧ x ≤ xp[j + 1] ∧
      min (fp[j]'(by omega)) (fp[j + 1]'(by omega)) ≤ interp eps xp fp x ∧
      interp eps xp fp x ≤ max (fp[j]'(by omega)) (fp[j + 1]'(by omega)) := by
  have hi := hs.inc h0
  rw [← List.getD_eq_getElem xp 0 (by omega : 0 < xp.length)] at h1
  rw [← List.getD_eq_getElem xp 0 (by omega : xp.length - 1 < xp.length)] at h2
  obtain ⟨j, hj, hj1, hj2⟩ := exists_closed_cell hi hn h1 h2
  rw [List.getD_eq_getElem xp 0 (by omega : j < xp.length)] at hj1
  rw [List.getD_eq_getElem xp 0 hj] at hj2
  refine ⟨j, hj, hj1, hj2, ?_⟩
  obtain ⟨ht0, ht1, hv⟩ := interp_convex h0 hs hl j hj x hj1 hj2
  rw [hv]
  set t := (x - xp[j]) / (xp[j + 1] - xp[j])
  set a := fp[j]'(by omega)
  set b := fp[j + 1]'(by omega)
  have hma := min_le_left a b
  have hmb := min_le_right a b
  have hMa := le_max_left a b
  have hMb := le_max_right a b
  have p1 := mul_nonneg (sub_nonneg.mpr ht1) (sub_nonneg.mpr hma)
  have p2 := mul_nonneg ht0 (sub_nonneg.mpr hmb)
  have p3 := mul_nonneg (sub_nonneg.mpr ht1) (sub_nonneg.mpr hMa)
  have p4 := mul_nonneg ht0 (sub_nonneg.mpr hMb)
  constructor <;> linarith

/-- beyond the ends `interp` is constant: the first / last node value -/
theorem interp_outside {eps : K} {xp fp : List K} (h0 : 0 ≤ eps) (hs : Sep eps xp)
    (hl : xp.length = fp.length) (hn : 1 ≤ xp.length) (x : K) :
    (x < xp[0] → interp eps xp fp x = fp[0]'(by omega)) ∧
    (xp[xp.length - 1] < x → interp eps xp fp x = fp[fp.length - 1]'(by omega)) := by
  have hi := hs.inc h0
  rw [← List.getD_eq_getElem xp 0 (by omega : 0 < xp.length),
    ← List.getD_eq_getElem xp 0 (by omega : xp.length - 1 < xp.length),
    ← List.getD_eq_getElem fp 0 (by omega : 0 < fp.length),
    ← List.getD_eq_getElem fp 0 (by omega : fp.length - 1 < fp.length)]
  constructor
  · intro hx
    have : ¬ xp.getD (xp.length - 1) 0 < x :=
      not_lt.mpr (le_trans hx.le (hi.getD_le (Nat.zero_le _) (by omega)))
    rw [interp_eq_cases, if_neg this, if_pos hx]
  · intro hx
    rw [interp_eq_cases, if_pos hx]

/-- constant data are reproduced for every query and every node set (no hypothesis on the nodes) -/
theorem interp_const (eps : K) (xp : List K) (c x : K) (hn : 1 ≤ xp.length) :
    interp eps xp (List.replicate xp.length c) x = c := by
  have hidx : cellIdx xp x < xp.length := by unfold cellIdx clipIdx; omega
  have g : ∀ i, i < xp.length → (List.replicate xp.length c).getD i 0 = c :=
    fun i hi => List.getD_replicate _ hi
  have hc : interpCore eps xp (List.replicate xp.length c) x = c := by
    unfold interpCore
    simp only [g _ hidx, g (cellIdx xp x - 1) (by omega), sub_self, mul_zero, add_zero, ite_self]
  rw [interp_eq_cases, hc, List.length_replicate, g _ (by omega), g 0 (by omega)]
  simp

end Dino.C17
