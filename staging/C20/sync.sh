#!/bin/sh
# mirror the C20 Lean sources from the private lake copy into the tracked staging area
set -e
src=/verif/work/b_C20/lean
dst=/verif/staging/C20
for f in Dino/Forcing.lean Dino/ForcingDrv.lean DinoProofs/Lemmas/Forcing.lean DinoProofs/Properties/C20.lean index/C20.txt DinoGen/ForcingConsts.lean; do
  mkdir -p "$dst/$(dirname $f)"
  cp "$src/$f" "$dst/$f"
done
