import DinoProofs.Lemmas.Units
namespace Dino.C18
end Dino.C18
