import DinoProofs.Lemmas.Comb
namespace Dino.C14
end Dino.C14
