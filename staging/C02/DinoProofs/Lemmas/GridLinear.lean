import DinoProofs.Lemmas.Grid
import DinoProofs.Lemmas.SHFast

/-!
# Linearity of the model's spherical-harmonic transforms, and extension from unit fields

* `LinMap R C R' C' Φ`: `Φ` maps `R × C` arrays to `R' × C'` arrays, additively, oddly and
  homogeneously (as *list* identities, not only entry-wise).
* `linMap_realSynth`, `linMap_realAnalysis`, `linMap_fastSynth`, `linMap_fastAnalysis`,
  `linMap_toNodal`, `linMap_toModal`: the concrete transforms of `Dino.SH` / `shTransforms` are linear
  for every basis of consistent shape (any commutative ring).  This discharges the structural
  hypotheses `hS_add` / `hS_neg` of `Dino.C02.vor_div_roundtrip` for the model's own transforms.
* `linMap_repr`, `linMap_ext`: a linear map is determined by its values on the unit arrays
  `unitM R C i j`; two linear maps that agree (in one output entry) on the unit arrays of a support
  set agree on every array supported there.  Used to reduce Hyp-A / Hyp-B on a concrete grid to
  finitely many closed computations.
-/
set_option linter.unusedSectionVars false
set_option linter.unusedSimpArgs false

namespace Dino.Grid
open Finset Dino.Lin Dino.SH

section linmap
variable {K : Type} [CommRing K]

/-- `Φ` is a linear map from `R × C` arrays to `R' × C'` arrays -/
structure LinMap (R C R' C' : Nat) (Φ : List (List K) → List (List K)) : Prop where
  shape : ∀ x, IsMat x R C → IsMat (Φ x) R' C'
  add : ∀ x y, IsMat x R C → IsMat y R C → Φ (madd x y) = madd (Φ x) (Φ y)
  neg : ∀ x, IsMat x R C → Φ (mneg x) = mneg (Φ x)
  smul : ∀ (c : K) x, IsMat x R C → Φ (mscale c x) = mscale c (Φ x)

theorem LinMap.comp {R C R' C' R'' C'' : Nat} {Φ Ψ : List (List K) → List (List K)}
    (hΨ : LinMap R' C' R'' C'' Ψ) (hΦ : LinMap R C R' C' Φ) : LinMap R C R'' C'' (fun x => Ψ (Φ x)) where
  shape x hx := hΨ.shape _ (hΦ.shape x hx)
  add x y hx hy := by
    show Ψ (Φ (madd x y)) = _
    rw [hΦ.add x y hx hy, hΨ.add _ _ (hΦ.shape x hx) (hΦ.shape y hy)]
  neg x hx := by
    show Ψ (Φ (mneg x)) = _
    rw [hΦ.neg x hx, hΨ.neg _ (hΦ.shape x hx)]
  smul c x hx := by
    show Ψ (Φ (mscale c x)) = _
    rw [hΦ.smul c x hx, hΨ.smul c _ (hΦ.shape x hx)]

theorem rows_le_of_isMat (x : List (List K)) (R C : Nat) (hx : IsMat x R C) :
    ∀ row ∈ x, row.length ≤ C := fun row h => le_of_eq (hx.2 row h)

/-! ### the transforms of `Dino.SH` -/

theorem isMat_realSynth (b : Basis K) (N R J L : Nat) (hb : Shaped b N R J L) (x : List (List K)) :
    IsMat (realSynth b J x) N J :=
  ⟨by rw [realSynth_length, hb.fl], realSynth_rows b N R J L hb x⟩

/-- `inverse_transform` of the real layout is linear, for every basis of consistent shape -/
theorem linMap_realSynth (b : Basis K) (N R J L Rx : Nat) (hb : Shaped b N R J L) :
    LinMap Rx L N J (realSynth b J) where
  shape x _ := isMat_realSynth b N R J L hb x
  add x y hx hy := by
    have hxy := isMat_madd x y Rx L hx hy
    have h1 := isMat_realSynth b N R J L hb x
    have h2 := isMat_realSynth b N R J L hb y
    have hm : ∀ r l, ent2 (madd x y) r l = ent2 x r l + ent2 y r l := fun r l => ent2_madd x y Rx L r l hx hy
    apply mat_ext _ _ N J (isMat_realSynth b N R J L hb _) (isMat_madd _ _ N J h1 h2)
    intro i _ j _
    rw [ent2_madd _ _ N J i j h1 h2, ent2_realSynth b N R J L hb _ (rows_le_of_isMat _ _ _ hxy),
      ent2_realSynth b N R J L hb x (rows_le_of_isMat _ _ _ hx),
      ent2_realSynth b N R J L hb y (rows_le_of_isMat _ _ _ hy)]
    simp only [hm, mul_add, Finset.sum_add_distrib]
  neg x hx := by
    have hn := isMat_mneg x Rx L hx
    have h1 := isMat_realSynth b N R J L hb x
    apply mat_ext _ _ N J (isMat_realSynth b N R J L hb _) (isMat_mneg _ N J h1)
    intro i _ j _
    rw [ent2_mneg, ent2_realSynth b N R J L hb _ (rows_le_of_isMat _ _ _ hn),
      ent2_realSynth b N R J L hb x (rows_le_of_isMat _ _ _ hx)]
    simp only [ent2_mneg, mul_neg, Finset.sum_neg_distrib]
  smul c x hx := by
    have hn := isMat_mscale c x Rx L hx
    have h1 := isMat_realSynth b N R J L hb x
    apply mat_ext _ _ N J (isMat_realSynth b N R J L hb _) (isMat_mscale c _ N J h1)
    intro i _ j _
    rw [ent2_mscale, ent2_realSynth b N R J L hb _ (rows_le_of_isMat _ _ _ hn),
      ent2_realSynth b N R J L hb x (rows_le_of_isMat _ _ _ hx)]
    simp only [ent2_mscale, Finset.mul_sum]
    apply Finset.sum_congr rfl; intro r _
    apply Finset.sum_congr rfl; intro l _
    ring

theorem isMat_realAnalysis (b : Basis K) (N R J L : Nat) (hb : Shaped b N R J L) (z : List (List K)) :
    IsMat (realAnalysis b R J L z) R L := by
  unfold realAnalysis fwdLegendre
  refine ⟨by simp [fwdFourier_length, hb.pl], ?_⟩
  intro row hrow
  rw [List.mem_iff_getElem] at hrow
  obtain ⟨i, hi, rfl⟩ := hrow
  simp only [List.getElem_zipWith]
  exact vecMat_length _ _ _ (hb.pll _ (List.getElem_mem _))

/-- `transform` of the real layout is linear, for every basis of consistent shape -/
theorem linMap_realAnalysis (b : Basis K) (N R J L : Nat) (hb : Shaped b N R J L) :
    LinMap N J R L (realAnalysis b R J L) where
  shape z _ := isMat_realAnalysis b N R J L hb z
  add z w hz hw := by
    have hzw := isMat_madd z w N J hz hw
    have h1 := isMat_realAnalysis b N R J L hb z
    have h2 := isMat_realAnalysis b N R J L hb w
    have hm : ∀ i j, ent2 (madd z w) i j = ent2 z i j + ent2 w i j := fun i j => ent2_madd z w N J i j hz hw
    apply mat_ext _ _ R L (isMat_realAnalysis b N R J L hb _) (isMat_madd _ _ R L h1 h2)
    intro r hr l _
    rw [ent2_madd _ _ R L r l h1 h2, ent2_realAnalysis b N R J L hb _ hzw.2 (le_of_eq hzw.1) r l hr,
      ent2_realAnalysis b N R J L hb z hz.2 (le_of_eq hz.1) r l hr,
      ent2_realAnalysis b N R J L hb w hw.2 (le_of_eq hw.1) r l hr]
    simp only [hm, mul_add, add_mul, Finset.sum_add_distrib]
  neg z hz := by
    have hn := isMat_mneg z N J hz
    have h1 := isMat_realAnalysis b N R J L hb z
    apply mat_ext _ _ R L (isMat_realAnalysis b N R J L hb _) (isMat_mneg _ R L h1)
    intro r hr l _
    rw [ent2_mneg, ent2_realAnalysis b N R J L hb _ hn.2 (le_of_eq hn.1) r l hr,
      ent2_realAnalysis b N R J L hb z hz.2 (le_of_eq hz.1) r l hr]
    simp only [ent2_mneg, mul_neg, neg_mul, Finset.sum_neg_distrib]
  smul c z hz := by
    have hn := isMat_mscale c z N J hz
    have h1 := isMat_realAnalysis b N R J L hb z
    apply mat_ext _ _ R L (isMat_realAnalysis b N R J L hb _) (isMat_mscale c _ R L h1)
    intro r hr l _
    rw [ent2_mscale, ent2_realAnalysis b N R J L hb _ hn.2 (le_of_eq hn.1) r l hr,
      ent2_realAnalysis b N R J L hb z hz.2 (le_of_eq hz.1) r l hr]
    simp only [ent2_mscale, Finset.mul_sum, Finset.sum_mul]
    apply Finset.sum_congr rfl; intro j _
    apply Finset.sum_congr rfl; intro i _
    ring

/-- `inverse_transform` of the fast layout (`_unstack_m`, one table per `|m|`, `_stack_m`) is linear
 on arrays with an even number `2T` of modal rows (padding rows and the `−0` row included) -/
theorem linMap_fastSynth (b : Basis K) (N T J L : Nat) (hb : Shaped b N T J L) :
    LinMap (2 * T) L N J (fastSynth b J) := by
  have hr := linMap_realSynth (fastBasis b) N (2 * T) J L (2 * T) (shaped_fastBasis b N T J L hb)
  have he : ∀ x, IsMat x (2 * T) L → fastSynth b J x = realSynth (fastBasis b) J x := fun x hx =>
    fastSynth_eq_real b J x (by rw [hx.1]; omega)
  refine ⟨fun x hx => by rw [he x hx]; exact hr.shape x hx, fun x y hx hy => ?_, fun x hx => ?_,
    fun c x hx => ?_⟩
  · rw [he _ (isMat_madd x y _ _ hx hy), he x hx, he y hy]; exact hr.add x y hx hy
  · rw [he _ (isMat_mneg x _ _ hx), he x hx]; exact hr.neg x hx
  · rw [he _ (isMat_mscale c x _ _ hx), he x hx]; exact hr.smul c x hx

/-- `transform` of the fast layout is linear -/
theorem linMap_fastAnalysis (b : Basis K) (N T J L : Nat) (hb : Shaped b N T J L) :
    LinMap N J (2 * T) L (fastAnalysis b (2 * T) J L) := by
  have hr := linMap_realAnalysis (fastBasis b) N (2 * T) J L (shaped_fastBasis b N T J L hb)
  have he : ∀ z, fastAnalysis b (2 * T) J L z = realAnalysis (fastBasis b) (2 * T) J L z := fun z =>
    fastAnalysis_eq_real b (2 * T) J L z (by omega)
  refine ⟨fun z hz => by rw [he z]; exact hr.shape z hz, fun z w hz hw => ?_, fun z hz => ?_,
    fun c z hz => ?_⟩
  · rw [he, he, he]; exact hr.add z w hz hw
  · rw [he, he]; exact hr.neg z hz
  · rw [he, he]; exact hr.smul c z hz

/-- shape of the basis that `shTransforms ly b` expects: `f : N × rows`, one Legendre table per modal
 row (real layout) resp. per pair of rows (fast layout, `rows = 2T`), `J` latitudes, `cols` columns -/
def BasisFor (ly : Layout) (b : Basis K) (N J : Nat) : Prop :=
  if ly.fast then ly.rows % 2 = 0 ∧ Shaped b N (ly.rows / 2) J ly.cols else Shaped b N ly.rows J ly.cols

/-- `to_nodal` of the model's own transforms is linear -/
theorem linMap_toNodal (ly : Layout) (b : Basis K) (N J : Nat) (hb : BasisFor ly b N J) :
    LinMap ly.rows ly.cols N J (shTransforms ly b).toNodal := by
  unfold BasisFor at hb
  unfold shTransforms
  cases hf : ly.fast
  · rw [hf] at hb
    simp only [Bool.false_eq_true, if_false] at hb ⊢
    rw [hb.wl]
    exact linMap_realSynth b N ly.rows J ly.cols ly.rows hb
  · rw [hf] at hb
    simp only [if_true] at hb ⊢
    obtain ⟨hpar, hs⟩ := hb
    rw [hs.wl]
    have h2 : ly.rows = 2 * (ly.rows / 2) := by omega
    have := linMap_fastSynth b N (ly.rows / 2) J ly.cols hs
    rwa [← h2] at this

/-- `to_modal` of the model's own transforms is linear -/
theorem linMap_toModal (ly : Layout) (b : Basis K) (N J : Nat) (hb : BasisFor ly b N J) :
    LinMap N J ly.rows ly.cols (shTransforms ly b).toModal := by
  unfold BasisFor at hb
  unfold shTransforms
  cases hf : ly.fast
  · rw [hf] at hb
    simp only [Bool.false_eq_true, if_false] at hb ⊢
    rw [hb.wl]
    exact linMap_realAnalysis b N ly.rows J ly.cols hb
  · rw [hf] at hb
    simp only [if_true] at hb ⊢
    obtain ⟨hpar, hs⟩ := hb
    rw [hs.wl]
    have h2 : ly.rows = 2 * (ly.rows / 2) := by omega
    have := linMap_fastAnalysis b N (ly.rows / 2) J ly.cols hs
    rwa [← h2] at this

/-! ### unit arrays and the extension principle -/

/-- the unit array `E_{ij}` of shape `R × C` -/
def unitM (R C i j : Nat) : List (List K) :=
  (List.range R).map fun a => (List.range C).map fun b => if a = i ∧ b = j then 1 else 0

theorem isMat_unitM (R C i j : Nat) : IsMat (unitM (K := K) R C i j) R C := isMat_tab _ R C

theorem ent2_unitM (R C i j a b : Nat) :
    ent2 (unitM (K := K) R C i j) a b = if (a < R ∧ b < C) ∧ (a = i ∧ b = j) then 1 else 0 := by
  unfold unitM
  rw [ent2_tab]
  by_cases h1 : a < R ∧ b < C <;> by_cases h2 : a = i ∧ b = j <;> simp [h1, h2]

theorem isMat_mzeros (R C : Nat) : IsMat (mzeros (K := K) R C) R C := by
  refine ⟨by simp [mzeros], ?_⟩
  intro row hrow
  simp only [mzeros, List.mem_replicate] at hrow
  rw [hrow.2]; simp [zerosN]

theorem ent2_mzeros (R C a b : Nat) : ent2 (mzeros (K := K) R C) a b = 0 := by
  unfold mzeros
  rw [ent2_eq_ent]
  by_cases ha : a < R
  · simp [List.getD_eq_getElem?_getD, List.getElem?_replicate, ha, ent_zerosN]
  · simp [List.getD_eq_getElem?_getD, List.getElem?_replicate, ha]

/-- the first `n` terms of `Σ_k x[k / C][k % C] · E_{k / C, k % C}` -/
def partialSum (R C : Nat) (x : List (List K)) : Nat → List (List K)
  | 0 => mzeros R C
  | n + 1 => madd (partialSum R C x n) (mscale (ent2 x (n / C) (n % C)) (unitM R C (n / C) (n % C)))

theorem isMat_partialSum (R C : Nat) (x : List (List K)) (n : Nat) : IsMat (partialSum R C x n) R C := by
  induction n with
  | zero => exact isMat_mzeros R C
  | succ n ih => exact isMat_madd _ _ R C ih (isMat_mscale _ _ R C (isMat_unitM R C _ _))

theorem ent2_partialSum (R C : Nat) (x : List (List K)) (n a b : Nat) :
    ent2 (partialSum R C x n) a b
      = ∑ k ∈ range n, ent2 x (k / C) (k % C) * ent2 (unitM (K := K) R C (k / C) (k % C)) a b := by
  induction n with
  | zero => simp [partialSum, ent2_mzeros]
  | succ n ih =>
    rw [partialSum, ent2_madd _ _ R C a b (isMat_partialSum R C x n)
      (isMat_mscale _ _ R C (isMat_unitM R C _ _)), ih, Finset.sum_range_succ, ent2_mscale]

/-- every `R × C` array is the sum of its entries times the unit arrays -/
theorem partialSum_full (R C : Nat) (x : List (List K)) (hx : IsMat x R C) :
    partialSum R C x (R * C) = x := by
  apply mat_ext _ _ R C (isMat_partialSum R C x _) hx
  intro a ha b hb
  rw [ent2_partialSum]
  have hk : a * C + b < R * C := by
    calc a * C + b < a * C + C := by omega
      _ = (a + 1) * C := by ring
      _ ≤ R * C := Nat.mul_le_mul_right C (by omega)
  have hC : 0 < C := by omega
  rw [Finset.sum_eq_single_of_mem (a * C + b) (Finset.mem_range.mpr hk)]
  · have h1 : (a * C + b) / C = a := by
      rw [Nat.add_comm, Nat.add_mul_div_right _ _ hC, Nat.div_eq_of_lt hb, Nat.zero_add]
    have h2 : (a * C + b) % C = b := by
      rw [Nat.add_comm, Nat.add_mul_mod_self_right, Nat.mod_eq_of_lt hb]
    rw [h1, h2, ent2_unitM, if_pos ⟨⟨ha, hb⟩, rfl, rfl⟩, mul_one]
  · intro k _ hne
    rw [ent2_unitM]
    by_cases h : (a < R ∧ b < C) ∧ (a = k / C ∧ b = k % C)
    · exfalso
      apply hne
      rw [h.2.1, h.2.2]
      exact (Nat.div_add_mod' k C).symm
    · rw [if_neg h, mul_zero]

/-- a linear map is determined by its values on the unit arrays: representation of one output entry -/
theorem linMap_repr (R C R' C' : Nat) (Φ : List (List K) → List (List K)) (hΦ : LinMap R C R' C' Φ)
    (x : List (List K)) (hx : IsMat x R C) (a b : Nat) :
    ent2 (Φ x) a b
      = ∑ k ∈ range (R * C), ent2 x (k / C) (k % C) * ent2 (Φ (unitM R C (k / C) (k % C))) a b := by
  have key : ∀ n, ent2 (Φ (partialSum R C x n)) a b
      = ∑ k ∈ range n, ent2 x (k / C) (k % C) * ent2 (Φ (unitM R C (k / C) (k % C))) a b := by
    intro n
    induction n with
    | zero =>
      have hz : mscale (0 : K) (mzeros R C) = mzeros R C := by
        apply mat_ext _ _ R C (isMat_mscale _ _ R C (isMat_mzeros R C)) (isMat_mzeros R C)
        intro i _ j _
        rw [ent2_mscale, zero_mul, ent2_mzeros]
      have := hΦ.smul 0 (mzeros R C) (isMat_mzeros R C)
      rw [hz] at this
      simp only [partialSum, Finset.range_zero, Finset.sum_empty]
      rw [this, ent2_mscale, zero_mul]
    | succ n ih =>
      rw [partialSum, hΦ.add _ _ (isMat_partialSum R C x n) (isMat_mscale _ _ R C (isMat_unitM R C _ _)),
        ent2_madd _ _ R' C' a b (hΦ.shape _ (isMat_partialSum R C x n))
          (hΦ.shape _ (isMat_mscale _ _ R C (isMat_unitM R C _ _))),
        ih, hΦ.smul _ _ (isMat_unitM R C _ _), ent2_mscale, Finset.sum_range_succ]
  have := key (R * C)
  rwa [partialSum_full R C x hx] at this

/-- **extension from unit fields**: two linear maps whose output entry `(a, b)` agrees on every unit
 array `E_{ij}` with `P i j` agree in that entry on every array supported in `P` -/
theorem linMap_ext (R C R' C' : Nat) (Φ Ψ : List (List K) → List (List K))
    (hΦ : LinMap R C R' C' Φ) (hΨ : LinMap R C R' C' Ψ) (P : Nat → Nat → Prop) (a b : Nat)
    (hunit : ∀ i < R, ∀ j < C, P i j → ent2 (Φ (unitM R C i j)) a b = ent2 (Ψ (unitM R C i j)) a b)
    (x : List (List K)) (hx : IsMat x R C) (hsupp : ∀ i j, ¬ P i j → ent2 x i j = 0) :
    ent2 (Φ x) a b = ent2 (Ψ x) a b := by
  rw [linMap_repr R C R' C' Φ hΦ x hx, linMap_repr R C R' C' Ψ hΨ x hx]
  apply Finset.sum_congr rfl
  intro k hk
  have hkRC := Finset.mem_range.mp hk
  by_cases hP : P (k / C) (k % C)
  · have hC : 0 < C := by
      rcases Nat.eq_zero_or_pos C with h | h
      · subst h; simp at hkRC
      · exact h
    have hi : k / C < R := by
      rw [Nat.div_lt_iff_lt_mul hC]; exact hkRC
    rw [hunit _ hi _ (Nat.mod_lt k hC) hP]
  · rw [hsupp _ _ hP, zero_mul, zero_mul]

end linmap

section field
variable {K : Type} [Field K]

/-- division by a vector along the last axis is linear (whatever the vector; with zero entries the
 totalised `x / 0 = 0` is still additive, which is why the wind theorems carry the separate side
 condition `∀ c ∈ cosl, c ≠ 0`) -/
theorem linMap_divCols (v : List K) (R C : Nat) (hv : v.length = C) :
    LinMap R C R C (fun x => divCols x v) where
  shape x hx := isMat_divCols x v R C hx hv
  add x y hx hy := by
    have h1 := isMat_divCols x v R C hx hv
    have h2 := isMat_divCols y v R C hy hv
    apply mat_ext _ _ R C (isMat_divCols _ v R C (isMat_madd x y R C hx hy) hv) (isMat_madd _ _ R C h1 h2)
    intro i _ j _
    rw [ent2_madd _ _ R C i j h1 h2, ent2_divCols, ent2_divCols, ent2_divCols, ent2_madd x y R C i j hx hy]
    ring
  neg x hx := by
    apply mat_ext _ _ R C (isMat_divCols _ v R C (isMat_mneg x R C hx) hv)
      (isMat_mneg _ R C (isMat_divCols x v R C hx hv))
    intro i _ j _
    rw [ent2_mneg, ent2_divCols, ent2_divCols, ent2_mneg]
    ring
  smul c x hx := by
    apply mat_ext _ _ R C (isMat_divCols _ v R C (isMat_mscale c x R C hx) hv)
      (isMat_mscale c _ R C (isMat_divCols x v R C hx hv))
    intro i _ j _
    rw [ent2_mscale, ent2_divCols, ent2_divCols, ent2_mscale]
    ring

end field

end Dino.Grid
