import Dino.Grid
/-! Line-protocol operations for the `Grid` model: `grid <F|Q> <op> args…`

A layout travels as `fast,M,L,padRows,padCols`; a pair of modal arrays as `mat|mat`;
the Legendre table `p` as matrices separated by `|`. -/
namespace Dino.Grid
open Dino Dino.SH

def parseLayout? (s : String) : Option Layout := do
  match ← parseNatVec? s with
  | [f, m, l, pr, pc] => if f ≤ 1 then some ⟨f == 1, m, l, pr, pc⟩ else none
  | _ => none

variable (K : Type) [Num K] [NatCast K]

def parseCube? (s : String) : Option (List (List (List K))) :=
  if s = "_" then some [] else (s.splitOn "|").mapM parseMat?

def renderPair (v : Vec K) : String := renderMat v.1 ++ "|" ++ renderMat v.2

def parseInt? (s : String) : Option Int := s.toInt?

def runK : List String → Option String
  | ["mvals", ly] => do let ly ← parseLayout? ly; pure (renderIntVec ly.mvals)
  | ["lvals", ly] => do let ly ← parseLayout? ly; pure (renderNatVec ly.lvals)
  | ["shape", ly] => do let ly ← parseLayout? ly; pure (renderNatVec [ly.rows, ly.cols])
  | ["mask", ly] => do
      let ly ← parseLayout? ly
      pure (";".intercalate (ly.mask.map fun row => ",".intercalate (row.map renderBool)))
  | ["eig", ly, r] => do
      let ly ← parseLayout? ly; let r ← Num.parse? (K := K) r
      pure (renderVec (eigenvalues ly r))
  | ["ieig", ly, r] => do
      let ly ← parseLayout? ly; let r ← Num.parse? (K := K) r
      pure (renderVec (inverseEigenvalues ly r))
  | ["lap", ly, r, x] => do
      let ly ← parseLayout? ly; let r ← Num.parse? (K := K) r; let x ← parseMat? x
      pure (renderMat (laplacian ly r x))
  | ["ilap", ly, r, x] => do
      let ly ← parseLayout? ly; let r ← Num.parse? (K := K) r; let x ← parseMat? x
      pure (renderMat (inverseLaplacian ly r x))
  | ["clip", ly, n, x] => do
      let ly ← parseLayout? ly; let n ← parseInt? n; let x ← parseMat? (K := K) x
      match clipWavenumbers? ly n x with
      | some y => pure (renderMat y)
      | none => pure "value-error"
  | ["ddlon", ly, x] => do
      let ly ← parseLayout? ly; let x ← parseMat? (K := K) x
      if dDlonShapeOk ly x then pure (renderMat (dDlon ly x)) else pure "value-error"
  | ["shift", v, off] => do
      let v ← parseVec? (K := K) v; let off ← parseInt? off
      pure (renderVec (shift v off))
  | ["pad", v, lo, hi] => do
      let v ← parseVec? (K := K) v; let lo ← lo.toNat?; let hi ← hi.toNat?
      pure (renderVec (padInDim v lo hi))
  | ["wts", ly] => do
      let ly ← parseLayout? ly
      pure (renderPair K (weightA (Num.sqrt (K := K)) ly, weightB (Num.sqrt (K := K)) ly))
  | ["d1", ly, x] => do
      let ly ← parseLayout? ly; let x ← parseMat? (K := K) x
      pure (renderMat (cosLatDDlat Num.sqrt ly x))
  | ["d2", ly, x] => do
      let ly ← parseLayout? ly; let x ← parseMat? (K := K) x
      pure (renderMat (secLatDDlatCos2 Num.sqrt ly x))
  | ["mu", ly, x] => do
      let ly ← parseLayout? ly; let x ← parseMat? (K := K) x
      pure (renderMat (sinLatMul Num.sqrt ly x))
  | ["grad", ly, r, c, x] => do
      let ly ← parseLayout? ly; let r ← Num.parse? (K := K) r; let c ← parseBool? c
      let x ← parseMat? x
      pure (renderPair K (cosLatGrad Num.sqrt ly r x c))
  | ["kx", v0, v1] => do
      let v0 ← parseMat? (K := K) v0; let v1 ← parseMat? v1
      pure (renderPair K (kCross (v0, v1)))
  | ["div", ly, r, c, v0, v1] => do
      let ly ← parseLayout? ly; let r ← Num.parse? (K := K) r; let c ← parseBool? c
      let v0 ← parseMat? v0; let v1 ← parseMat? v1
      pure (renderMat (divCosLat Num.sqrt ly r (v0, v1) c))
  | ["curl", ly, r, c, v0, v1] => do
      let ly ← parseLayout? ly; let r ← Num.parse? (K := K) r; let c ← parseBool? c
      let v0 ← parseMat? v0; let v1 ← parseMat? v1
      pure (renderMat (curlCosLat Num.sqrt ly r (v0, v1) c))
  | ["gclv", ly, r, c, vor, dv] => do
      let ly ← parseLayout? ly; let r ← Num.parse? (K := K) r; let c ← parseBool? c
      let vor ← parseMat? vor; let dv ← parseMat? dv
      pure (renderPair K (getCosLatVector Num.sqrt ly r vor dv c))
  | ["coslat", s] => do
      let s ← parseVec? (K := K) s
      pure (renderVec (cosLat Num.sqrt s))
  | ["sec2lat", s] => do
      let s ← parseVec? (K := K) s
      pure (renderVec (sec2Lat s))
  | ["tonodal", ly, f, p, w, x] => do
      let ly ← parseLayout? ly; let f ← parseMat? (K := K) f; let p ← parseCube? K p
      let w ← parseVec? w; let x ← parseMat? x
      pure (renderMat ((shTransforms ly ⟨f, p, w⟩).toNodal x))
  | ["tomodal", ly, f, p, w, z] => do
      let ly ← parseLayout? ly; let f ← parseMat? (K := K) f; let p ← parseCube? K p
      let w ← parseVec? w; let z ← parseMat? z
      pure (renderMat ((shTransforms ly ⟨f, p, w⟩).toModal z))
  | ["uv2vd", ly, r, c, f, p, w, cosl, u, v] => do
      let ly ← parseLayout? ly; let r ← Num.parse? (K := K) r; let c ← parseBool? c
      let f ← parseMat? f; let p ← parseCube? K p; let w ← parseVec? w
      let cosl ← parseVec? cosl; let u ← parseMat? u; let v ← parseMat? v
      pure (renderPair K (uvNodalToVorDivModal Num.sqrt ly r (shTransforms ly ⟨f, p, w⟩) cosl u v c))
  | ["vd2uv", ly, r, c, f, p, w, cosl, vor, dv] => do
      let ly ← parseLayout? ly; let r ← Num.parse? (K := K) r; let c ← parseBool? c
      let f ← parseMat? f; let p ← parseCube? K p; let w ← parseVec? w
      let cosl ← parseVec? cosl; let vor ← parseMat? vor; let dv ← parseMat? dv
      pure (renderPair K (vorDivToUvNodal Num.sqrt ly r (shTransforms ly ⟨f, p, w⟩) cosl vor dv c))
  | ["dom", ly, k, x] => do
      let ly ← parseLayout? ly; let k ← k.toNat?; let x ← parseMat? (K := K) x
      pure (renderBool (domB (fun v => !(Num.ltb v 0) && !(Num.ltb 0 v)) ly k x))
  | _ => none

def run : List String → Option String
  | "F" :: rest => runK Float rest
  | "Q" :: rest => runK Rat rest
  | _ => none

end Dino.Grid
