import Dino.SH
/-!
# `spherical_harmonic.Grid` — executable model of the spectral differential operators

Modal arrays are `[modal row][l]` (`List (List K)`), nodal arrays `[lon node][lat node]`.
Both modal layouts are covered by one `Layout` record:

* `RealSphericalHarmonics`  : rows `m = 0, +1, −1, +2, −2, …` (`2M−1` rows), no padding;
* `FastSphericalHarmonics`  : rows `+0, −0, +1, −1, …` (`2M` rows) plus `padRows` zero rows and
  `padCols` zero columns (`base_shape_multiple` / SPMD mesh padding).

`sqrt` is external (a parameter), the radius is generic, numbers enter through `NatCast K`.
The definitions mirror the code: the same `shift`/`pad_in_dim` index conventions, the same
`(l+1)·a`, `−l·b`, `(l−1)·a`, `−(l+2)·b` factors, `a[:,0] = 0`, `b[:,-1] = 0`, the eigenvalue
reset at `l = 0` and on padding, the clip mask `ones.at[-(n+pad):].set(0)`.
-/
namespace Dino.Grid
open Dino.Lin Dino.SH Dino.Fourier
variable {K : Type} [Add K] [Sub K] [Mul K] [Div K] [Neg K] [Zero K] [One K] [NatCast K]

/-! ### layouts -/

structure Layout where
  fast : Bool
  M : Nat          -- `longitude_wavenumbers`
  L : Nat          -- `total_wavenumbers`
  padRows : Nat    -- `modal_padding[0]` (fast layout only)
  padCols : Nat    -- `modal_padding[1]` (fast layout only)
deriving Repr, DecidableEq

namespace Layout

/-- `modal_shape[0]` -/
def rows (ly : Layout) : Nat := if ly.fast then 2 * ly.M + ly.padRows else 2 * ly.M - 1
/-- `modal_shape[1]` -/
def cols (ly : Layout) : Nat := ly.L + ly.padCols
/-- number of rows that carry data (`modal_limits[0]` for the fast layout) -/
def dataRows (ly : Layout) : Nat := if ly.fast then 2 * ly.M else 2 * ly.M - 1

/-- `|modal_axes[0][i]|` in closed form -/
def mAbs (ly : Layout) (i : Nat) : Nat :=
  if ly.fast then (if i < 2 * ly.M then i / 2 else 0) else (i + 1) / 2

/-- `modal_axes[0][i]` in closed form: real `0,1,−1,2,−2,…`; fast `0,0,1,−1,…,0,0` -/
def mval (ly : Layout) (i : Nat) : Int :=
  if ly.fast then (if i % 2 = 0 then (ly.mAbs i : Int) else -(ly.mAbs i : Int))
  else (if i % 2 = 1 then (ly.mAbs i : Int) else -(ly.mAbs i : Int))

/-- `modal_axes[1][j]`: `0 … L−1` then zeros on the padding -/
def lval (ly : Layout) (j : Nat) : Nat := if j < ly.L then j else 0

/-- `mask[i][j]`: `|m| ≤ l` (and for the fast layout `i ≠ 1`, `i < 2M`, `j < L`) -/
def maskAt (ly : Layout) (i j : Nat) : Bool :=
  decide (ly.mAbs i ≤ ly.lval j) && (!ly.fast || (decide (i ≠ 1) && decide (i < 2 * ly.M)))
    && decide (j < ly.L)

/-- the longitudinal wavenumber that `longitudinal_derivative` multiplies row `i` with
 (`(i+1)//2` resp. `i//2`; on padding rows this is *not* `|m|`) -/
def freq (ly : Layout) (i : Nat) : Nat := if ly.fast then i / 2 else (i + 1) / 2

def mvals (ly : Layout) : List Int := (List.range ly.rows).map ly.mval
def lvals (ly : Layout) : List Nat := (List.range ly.cols).map ly.lval
def mask (ly : Layout) : List (List Bool) :=
  (List.range ly.rows).map fun i => (List.range ly.cols).map fun j => ly.maskAt i j

end Layout

/-! ### element-wise helpers (numpy broadcasting on `[row][l]`) -/

/-- `x * v` with `v` along the last axis -/
def mulCols (x : List (List K)) (v : List K) : List (List K) :=
  x.map fun row => List.zipWith (· * ·) row v
/-- `v * x` with `v` along the last axis -/
def colsMul (v : List K) (x : List (List K)) : List (List K) :=
  x.map fun row => List.zipWith (· * ·) v row
/-- `x / v` with `v` along the last axis -/
def divCols (x : List (List K)) (v : List K) : List (List K) :=
  x.map fun row => List.zipWith (· / ·) row v
/-- `x * y` element-wise -/
def emul (x y : List (List K)) : List (List K) := List.zipWith (List.zipWith (· * ·)) x y
def madd (x y : List (List K)) : List (List K) := List.zipWith vadd x y
def msub (x y : List (List K)) : List (List K) := List.zipWith (List.zipWith (· - ·)) x y
def mneg (x : List (List K)) : List (List K) := x.map fun row => row.map fun v => -v
/-- `x / c` -/
def mdivc (x : List (List K)) (c : K) : List (List K) := x.map fun row => row.map fun v => v / c
/-- `c * x` -/
def mscale (c : K) (x : List (List K)) : List (List K) := x.map (scale c)
def mzeros (r c : Nat) : List (List K) := List.replicate r (zerosN c)

/-! ### `jax_numpy_utils.pad_in_dim`, `shift` (along the last axis) -/

/-- `pad_in_dim(v, (lo, hi))` -/
def padInDim (v : List K) (lo hi : Nat) : List K := zerosN lo ++ v ++ zerosN hi

/-- `shift(v, offset)`: like `roll` but zero padded -/
def shift (v : List K) (offset : Int) : List K :=
  if v.length ≤ offset.natAbs then zerosN v.length
  else if 0 < offset then padInDim (v.take (v.length - offset.toNat)) offset.toNat 0
  else padInDim (v.drop (-offset).toNat) 0 (-offset).toNat

def shiftCols (x : List (List K)) (offset : Int) : List (List K) := x.map fun row => shift row offset

/-! ### Laplacian -/

/-- `laplacian_eigenvalues = -l (l+1) / radius²` along `modal_axes[1]` -/
def eigenvalues (ly : Layout) (r : K) : List K :=
  ly.lvals.map fun (l : Nat) => -((l : K) * ((l + 1 : Nat) : K)) / (r * r)

def laplacian (ly : Layout) (r : K) (x : List (List K)) : List (List K) :=
  mulCols x (eigenvalues ly r)

/-- `1 / eigenvalues` with entry `0` and the entries `[L:]` reset to zero -/
def inverseEigenvalues (ly : Layout) (r : K) : List K :=
  (List.range ly.cols).map fun j =>
    if j = 0 ∨ ly.L ≤ j then 0 else 1 / ((eigenvalues ly r).getD j 0)

def inverseLaplacian (ly : Layout) (r : K) (x : List (List K)) : List (List K) :=
  mulCols x (inverseEigenvalues ly r)

/-! ### clipping -/

/-- `ones(modal_shape[-1]).at[-(n + pad):].set(0)` -/
def clipMask (ly : Layout) (n : Nat) : List K :=
  (List.range ly.cols).map fun j => if j + (n + ly.padCols) < ly.cols then 1 else 0

def clip (ly : Layout) (n : Nat) (x : List (List K)) : List (List K) := mulCols x (clipMask ly n)

/-- `clip_wavenumbers(x, n)`: `n ≤ 0` raises `ValueError` -/
def clipWavenumbers? (ly : Layout) (n : Int) (x : List (List K)) : Option (List (List K)) :=
  if n ≤ 0 then none else some (clip ly n.toNat x)

/-- `clip_wavenumbers(raw)` if `clip` else `raw` -/
def clipIf (ly : Layout) (c : Bool) (x : List (List K)) : List (List K) :=
  if c then clip ly 1 x else x

/-! ### longitude derivative -/

/-- `Grid.d_dlon` = `longitudinal_derivative` of the layout -/
def dDlon (ly : Layout) (x : List (List K)) : List (List K) :=
  if ly.fast then zeroImagDerivative x ly.cols else realDerivative x ly.cols

/-- the shape test of `real_basis_derivative*` (`ValueError` when it fails) -/
def dDlonShapeOk (ly : Layout) (x : List (List K)) : Bool :=
  if ly.fast then x.length % 2 = 0 else x.length % 2 = 1

/-! ### latitude derivatives -/

/-- `(l² − m²) / (4 l² − 1)` -/
def ratio (m l : Nat) : K :=
  (((l * l : Nat) : K) - ((m * m : Nat) : K)) / (((4 * l * l : Nat) : K) - 1)

/-- `a = sqrt(mask · (l² − m²)/(4l² − 1))`, `a[:, 0] = 0` -/
def weightA (sqrt : K → K) (ly : Layout) : List (List K) :=
  (List.range ly.rows).map fun i => (List.range ly.cols).map fun j =>
    if j = 0 then 0
    else sqrt (if ly.maskAt i j then ratio (ly.mAbs i) (ly.lval j) else 0)

/-- `b = sqrt(mask · ((l+1)² − m²)/(4(l+1)² − 1))`, `b[:, -1] = 0` -/
def weightB (sqrt : K → K) (ly : Layout) : List (List K) :=
  (List.range ly.rows).map fun i => (List.range ly.cols).map fun j =>
    if j + 1 = ly.cols then 0
    else sqrt (if ly.maskAt i j then ratio (ly.mAbs i) (ly.lval j + 1) else 0)

/-- the two-term operator `shift((fa·a)·x, −1) + shift((fb·b)·x, +1)` -/
def twoTerm (fa fb : List K) (a b x : List (List K)) : List (List K) :=
  madd (shiftCols (emul (colsMul fa a) x) (-1)) (shiftCols (emul (colsMul fb b) x) 1)

/-- `cos_lat_d_dlat` with explicit weight arrays: factors `(l+1)` and `−l` -/
def cosLatDDlatW (ly : Layout) (a b x : List (List K)) : List (List K) :=
  twoTerm (ly.lvals.map fun (l : Nat) => ((l + 1 : Nat) : K)) (ly.lvals.map fun (l : Nat) => -(l : K)) a b x

/-- `sec_lat_d_dlat_cos2` with explicit weight arrays: factors `(l−1)` and `−(l+2)` -/
def secLatDDlatCos2W (ly : Layout) (a b x : List (List K)) : List (List K) :=
  twoTerm (ly.lvals.map fun (l : Nat) => (l : K) - 1) (ly.lvals.map fun (l : Nat) => -((l + 2 : Nat) : K)) a b x

/-- multiplication by `sin θ` in coefficient space implied by the same weights
 (`sinθ·P_l = a_{l+1} P_{l+1} + a_l P_{l−1}`): `shift(a·x, −1) + shift(b·x, +1)`.
 This operator is *not* in the code; it is the specification-side partner of `D1`, `D2`. -/
def sinLatMulW (a b x : List (List K)) : List (List K) :=
  madd (shiftCols (emul a x) (-1)) (shiftCols (emul b x) 1)

def cosLatDDlat (sqrt : K → K) (ly : Layout) (x : List (List K)) : List (List K) :=
  cosLatDDlatW ly (weightA sqrt ly) (weightB sqrt ly) x

def secLatDDlatCos2 (sqrt : K → K) (ly : Layout) (x : List (List K)) : List (List K) :=
  secLatDDlatCos2W ly (weightA sqrt ly) (weightB sqrt ly) x

def sinLatMul (sqrt : K → K) (ly : Layout) (x : List (List K)) : List (List K) :=
  sinLatMulW (weightA sqrt ly) (weightB sqrt ly) x

/-! ### gradient, `k ×`, divergence, curl (vectors are pairs) -/

abbrev Vec (K : Type) := List (List K) × List (List K)

/-- `cos_lat_grad(x, clip)` with explicit weights -/
def cosLatGradW (ly : Layout) (r : K) (a b : List (List K)) (x : List (List K)) (c : Bool) : Vec K :=
  (clipIf ly c (mdivc (dDlon ly x) r), clipIf ly c (mdivc (cosLatDDlatW ly a b x) r))

/-- `k_cross(v) = (−v[1], v[0])` -/
def kCross (v : Vec K) : Vec K := (mneg v.2, v.1)

/-- `div_cos_lat(v, clip)` with explicit weights -/
def divCosLatW (ly : Layout) (r : K) (a b : List (List K)) (v : Vec K) (c : Bool) : List (List K) :=
  clipIf ly c (mdivc (madd (dDlon ly v.1) (secLatDDlatCos2W ly a b v.2)) r)

/-- `curl_cos_lat(v, clip)` with explicit weights -/
def curlCosLatW (ly : Layout) (r : K) (a b : List (List K)) (v : Vec K) (c : Bool) : List (List K) :=
  clipIf ly c (mdivc (msub (dDlon ly v.2) (secLatDDlatCos2W ly a b v.1)) r)

def vadd2 (u v : Vec K) : Vec K := (madd u.1 v.1, madd u.2 v.2)

/-- `get_cos_lat_vector(vorticity, divergence, grid, clip)` with explicit weights -/
def getCosLatVectorW (ly : Layout) (r : K) (a b : List (List K)) (vor dv : List (List K)) (c : Bool) :
    Vec K :=
  let psi := inverseLaplacian ly r vor
  let chi := inverseLaplacian ly r dv
  vadd2 (cosLatGradW ly r a b chi c) (kCross (cosLatGradW ly r a b psi c))

def cosLatGrad (sqrt : K → K) (ly : Layout) (r : K) (x : List (List K)) (c : Bool) : Vec K :=
  cosLatGradW ly r (weightA sqrt ly) (weightB sqrt ly) x c
def divCosLat (sqrt : K → K) (ly : Layout) (r : K) (v : Vec K) (c : Bool) : List (List K) :=
  divCosLatW ly r (weightA sqrt ly) (weightB sqrt ly) v c
def curlCosLat (sqrt : K → K) (ly : Layout) (r : K) (v : Vec K) (c : Bool) : List (List K) :=
  curlCosLatW ly r (weightA sqrt ly) (weightB sqrt ly) v c
def getCosLatVector (sqrt : K → K) (ly : Layout) (r : K) (vor dv : List (List K)) (c : Bool) : Vec K :=
  getCosLatVectorW ly r (weightA sqrt ly) (weightB sqrt ly) vor dv c

/-! ### nodal tables and the wind conversions -/

/-- `cos_lat = sqrt(1 − sin_lat²)` -/
def cosLat (sqrt : K → K) (sinLat : List K) : List K := sinLat.map fun s => sqrt (1 - s * s)
/-- `sec2_lat = 1 / (1 − sin_lat²)` -/
def sec2Lat (sinLat : List K) : List K := sinLat.map fun s => 1 / (1 - s * s)

/-- `to_nodal` / `to_modal` of the grid (abstract in the theorems, explicit in the driver) -/
structure Transforms (K : Type) where
  toNodal : List (List K) → List (List K)
  toModal : List (List K) → List (List K)

/-- the transforms of `Dino.SH` for a basis `(f, p, w)` (unstacked Fourier step) -/
def shTransforms (ly : Layout) (b : Basis K) : Transforms K :=
  let nlat := b.w.length
  if ly.fast then ⟨fastSynth b nlat, fastAnalysis b ly.rows nlat ly.cols⟩
  else ⟨realSynth b nlat, realAnalysis b ly.rows nlat ly.cols⟩

/-- `uv_nodal_to_vor_div_modal(grid, u, v, clip)` → `(vorticity, divergence)` -/
def uvNodalToVorDivModalW (ly : Layout) (r : K) (a b : List (List K)) (T : Transforms K)
    (cosl : List K) (u v : List (List K)) (c : Bool) : Vec K :=
  let uo := T.toModal (divCols u cosl)
  let vo := T.toModal (divCols v cosl)
  (curlCosLatW ly r a b (uo, vo) c, divCosLatW ly r a b (uo, vo) c)

/-- `vor_div_to_uv_nodal(grid, vorticity, divergence, clip)` → `(u, v)` nodal -/
def vorDivToUvNodalW (ly : Layout) (r : K) (a b : List (List K)) (T : Transforms K)
    (cosl : List K) (vor dv : List (List K)) (c : Bool) : Vec K :=
  let w := getCosLatVectorW ly r a b vor dv c
  (divCols (T.toNodal w.1) cosl, divCols (T.toNodal w.2) cosl)

def uvNodalToVorDivModal (sqrt : K → K) (ly : Layout) (r : K) (T : Transforms K)
    (cosl : List K) (u v : List (List K)) (c : Bool) : Vec K :=
  uvNodalToVorDivModalW ly r (weightA sqrt ly) (weightB sqrt ly) T cosl u v c

def vorDivToUvNodal (sqrt : K → K) (ly : Layout) (r : K) (T : Transforms K)
    (cosl : List K) (vor dv : List (List K)) (c : Bool) : Vec K :=
  vorDivToUvNodalW ly r (weightA sqrt ly) (weightB sqrt ly) T cosl vor dv c

/-! ### the domain of the wind round trip (`Dino.C02.Dom`), as a Boolean test -/

/-- `x` has shape `rows × cols`, vanishes at `l = 0`, in the top `k` wavenumbers and on the padding
 columns (`l ≥ L − k`), and wherever `mask` is false (triangle `l < |m|`, row 1 and padding rows of the
 fast layout).  `isz` is the zero test of the scalar type.  `Dino.C02.domB_iff` ties it to `Dom`. -/
def domB (isz : K → Bool) (ly : Layout) (k : Nat) (x : List (List K)) : Bool :=
  decide (x.length = ly.rows) && x.all (fun row => decide (row.length = ly.cols)) &&
    (List.range ly.rows).all fun i => (List.range ly.cols).all fun j =>
      !(decide (j = 0) || decide (ly.L ≤ j + k) || !ly.maskAt i j) || isz ((x.getD i []).getD j 0)

end Dino.Grid
