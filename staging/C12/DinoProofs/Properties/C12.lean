import DinoProofs.Lemmas.ScalingMoist
import DinoProofs.Lemmas.ScalingSW
import DinoProofs.Lemmas.ScalingHS
import DinoProofs.Lemmas.ScalingStep
import DinoProofs.Lemmas.ScalingTraj
import DinoProofs.Lemmas.ScalingFilter
import DinoProofs.Lemmas.Units
import Dino.Lin
import Mathlib.Algebra.Algebra.Prod
import Mathlib.Tactic.NormNum

/-!
# C12 — physical results do not depend on the non-dimensionalisation scale

Models: `Dino.Scaling` (the action of the group of unit ratios `(l, t, m, θ)` on parameters, states and
tendencies; executable, compared with the real `scales.Scale` / `from_si` / `Grid(radius=…)` by the
driver ops `scl …`), acting on `Dino.Dynamics` (the four primitive-equation classes),
`Dino.DynamicsSW` (layered shallow water), `Dino.Forcing` (Held–Suarez), `Dino.Imex` (the integrators)
and `Dino.Filters` (the filter time scales).

* **T12.0** (tie to C18) the named factors are `Scale.w` of the dimension vectors, `Scale.w` is a
  homomorphism in the scale, and `Units.nondim` under scale `b` is `Units.nondim` under scale `a` times
  `Scale.w (ofUnits a b)` of the dimension of the unit.
* **T12.1** `tendency(g·params, g·state) = g·tendency(params, state)` with one more inverse-time factor:
  `explicit_terms`, `implicit_terms`, `implicit_inverse` of the dry, with-time, moist and cloud classes
  (for every additive constant `c` of `ln p_s`: the logarithm is external), of the shallow-water
  equations, and of the Held–Suarez forcing (over `ℝ`, `exp c = wP`).
* **T12.2** one step of every integrator commutes with the action when `dt` is scaled by `t`; so do
  filtered steps and, by iteration, trajectories; the exponential and the horizontal-diffusion step
  filters do not depend on the scale when `dt` and `tau` are both times.

  The filter hypothesis of histories (`FilterScaled`) is DISCHARGED for every tree filter that applies one
  additive, homogeneous multiplier fixing the constant mode to every modal leaf (`leaf_filter_scaled`), hence for
  the multipliers of the total wavenumber with factor one at `l = 0` (`wavenumber_filter_scaled`), hence for
  `exponential_step_filter` with `cutoff ≥ 0` and `horizontal_diffusion_step_filter` with `order ≥ 1`
  (`pe_history_commutes_step_filters`; the two conditions are necessary: `negative_cutoff_breaks_filter`).

Hypotheses that are laws of the horizontal operations (`OpsLaws`, `ProjLaws`, `ConstProj`), the relation between
the two inverses returned by `numpy.linalg.inv` (`InvScaled`) and the fixed point of the constant mode
(`ConstMode`) are named structures validated on real grids / matrices by `harness/props/C12.py`.
-/
set_option linter.unusedSectionVars false
set_option linter.unusedSimpArgs false
set_option linter.unnecessarySeqFocus false
set_option linter.unusedTactic false
set_option linter.unreachableTactic false

namespace Dino.C12
open Dino Dino.Dynamics Dino.Scaling

/-! ## T12.0 — the factors are those of `scales.Scale` (C18) -/
section T120
variable {K : Type} [Field K]

theorem w_eq (g : Scale K) (d : List ℤ) :
    g.w d = g.l ^ Units.dget d 0 * g.t ^ Units.dget d 1 * g.m ^ Units.dget d 2 * g.θ ^ Units.dget d 3 := by
  simp only [Scale.w, Units.zpow_eq]

/-- the named factors are the factors of the dimension vectors `[L, T, M, Θ]` -/
theorem w_named (g : Scale K) :
    g.w [0, -1] = g.wF ∧ g.w [1, -1] = g.wV ∧ g.w [1, -2] = g.wA ∧ g.w [2, -2] = g.wE
      ∧ g.w [2, -2, 0, -1] = g.wR ∧ g.w [-1] = g.wIL ∧ g.w [-2] = g.wL2 ∧ g.w [2] = g.wAr
      ∧ g.w [-1, -2, 1] = g.wP ∧ g.w [-3, 0, 1] = g.wRho ∧ g.w [1] = g.l ∧ g.w [0, 1] = g.t
      ∧ g.w [0, 0, 0, 1] = g.θ ∧ g.w [] = 1 := by
  refine ⟨?_, ?_, ?_, ?_, ?_, ?_, ?_, ?_, ?_, ?_, ?_, ?_, ?_, ?_⟩ <;>
    simp [w_eq, Units.dget, Scale.wF, Scale.wV, Scale.wA, Scale.wE, Scale.wR, Scale.wIL, Scale.wL2, Scale.wAr,
      Scale.wP, Scale.wRho, zpow_neg, -mul_eq_mul_left_iff, -mul_eq_mul_right_iff]
  all_goals ring

/-- composition of two changes of scale -/
def Scale.comp (g h : Scale K) : Scale K := ⟨g.l * h.l, g.t * h.t, g.m * h.m, g.θ * h.θ⟩
/-- no change -/
def Scale.id : Scale K := ⟨1, 1, 1, 1⟩

/-- the factor is a homomorphism in the scale … -/
theorem w_comp (g h : Scale K) (d : List ℤ) : (Scale.comp g h).w d = g.w d * h.w d := by
  simp only [w_eq, Scale.comp, mul_zpow]; ring

theorem w_id (d : List ℤ) : (Scale.id : Scale K).w d = 1 := by
  simp [w_eq, Scale.id]

/-- … and in the dimension vector (products of quantities) -/
theorem w_dadd (g : Scale K) (hg : g.Valid) (a b : List ℤ) : g.w (Units.dadd a b) = g.w a * g.w b := by
  simp only [w_eq, Units.dget_dadd, zpow_add₀ hg.l_ne, zpow_add₀ hg.t_ne, zpow_add₀ hg.m_ne, zpow_add₀ hg.θ_ne]
  ring

/-- the parameter action is a group action: two changes of scale compose -/
theorem actPhys_comp (g h : Scale K) (hg : g.Valid) (hh : h.Valid) (ph : Phys K) :
    actPhys (Scale.comp g h) ph = actPhys g (actPhys h ph) := by
  have := hg.t_ne; have := hg.θ_ne; have := hh.t_ne; have := hh.θ_ne
  simp only [actPhys, Scale.comp, Scale.wF, Scale.wA, Scale.wR, Phys.mk.injEq, one_div]
  refine ⟨?_, ?_, ?_, ?_, ?_, trivial⟩ <;> field_simp

theorem asUnits_ok (a : Scale K) (ha : a.Valid) : Units.ScaleOK a.asUnits := by
  intro q hq
  simp only [Scale.asUnits, List.mem_cons, Option.some.injEq, List.not_mem_nil, or_false] at hq
  rcases hq with h | h | h | h <;> rw [h]
  exacts [ha.l_ne, ha.t_ne, ha.m_ne, ha.θ_ne]

theorem factor_asUnits (a : Scale K) (d : List ℤ) (hd : d.length ≤ 4) :
    Units.factor a.asUnits d = some (a.w d) := by
  rw [Units.factor_eq_some_iff' a.asUnits d (a.w d) hd]
  constructor
  · rw [Units.covers_iff]
    intro i hi
    have : i < 4 := by
      by_contra h
      exact hi (Units.dget_of_length_le (by omega))
    have h4 : i = 0 ∨ i = 1 ∨ i = 2 ∨ i = 3 := by omega
    rcases h4 with rfl | rfl | rfl | rfl <;> simp [Scale.asUnits]
  · simp only [Units.factorSpec, Finset.prod_range_succ, Finset.prod_range_zero, one_mul, w_eq]
    simp [Units.scaleAt, Scale.asUnits]

/-- **change of scale in the C18 model**: the number that `Scale.nondimensionalize` returns under the
 scale with base units `b` is the number under the scale with base units `a` times the factor of the
 quantity's dimension for the ratios `a / b` -/
theorem nondim_change_of_scale (a b : Scale K) (ha : a.Valid) (hb : b.Valid) (u : Units.UnitV K) (m : K)
    (hd : u.dim.length ≤ 4) :
    Units.nondim b.asUnits u m = (Units.nondim a.asUnits u m).map ((Scale.ofUnits a b).w u.dim * ·) := by
  simp only [Units.nondim, factor_asUnits _ _ hd, Option.map_some, Option.some.injEq]
  have ha' : a.w u.dim ≠ 0 := by
    simp only [w_eq]
    exact mul_ne_zero (mul_ne_zero (mul_ne_zero (zpow_ne_zero _ ha.l_ne) (zpow_ne_zero _ ha.t_ne))
      (zpow_ne_zero _ ha.m_ne)) (zpow_ne_zero _ ha.θ_ne)
  have hb' : b.w u.dim ≠ 0 := by
    simp only [w_eq]
    exact mul_ne_zero (mul_ne_zero (mul_ne_zero (zpow_ne_zero _ hb.l_ne) (zpow_ne_zero _ hb.t_ne))
      (zpow_ne_zero _ hb.m_ne)) (zpow_ne_zero _ hb.θ_ne)
  have hr : (Scale.ofUnits a b).w u.dim = a.w u.dim / b.w u.dim := by
    simp only [w_eq, Scale.ofUnits, div_zpow]
    field_simp
  rw [hr]
  field_simp

/-- the ratio of ratios is valid -/
theorem ofUnits_valid (a b : Scale K) (ha : a.Valid) (hb : b.Valid) : (Scale.ofUnits a b).Valid :=
  ⟨div_ne_zero ha.l_ne hb.l_ne, div_ne_zero ha.t_ne hb.t_ne, div_ne_zero ha.m_ne hb.m_ne,
    div_ne_zero ha.θ_ne hb.θ_ne⟩

end T120

/-! ## T12.1 — the primitive-equation classes -/
section T121
variable {K M N : Type} [Field K] [AddCommGroup M] [Module K M] [CommRing N] [Algebra K N]
variable {g : Scale K} {p p' : PrimitiveEquations K M N}

/-- **T12.1 (dry, explicit)**: `p'` is the same problem as `p` under the other scale -/
theorem dry_explicitTerms_equivariant [BEq K] [LawfulBEq K] (r : EqScaled g p p') (hg : g.Valid)
    (hl : OpsLaws p.ops) (c : K) (s : State M) :
    p'.explicitTerms (actState g c p.ops.oneModal s) = actTend g (p.explicitTerms s) := by
  rw [r.eq_actEq]; exact explicitTerms_act p hg hl c s

/-- **T12.1 (dry, implicit)** -/
theorem dry_implicitTerms_equivariant (r : EqScaled g p p') (hg : g.Valid) (hl : OpsLaws p.ops) (c : K)
    (s : State M) :
    p'.implicitTerms (actState g c p.ops.oneModal s) = actTend g (p.implicitTerms s) := by
  rw [r.eq_actEq]; exact implicitTerms_act p hg hl c s

/-- the implicit terms do not see the additive constant of `ln p_s` (so a uniform shift of `ln p_s` is
 a fixed point of `1 - η·implicit_terms`, the content of `ConstMode`) -/
theorem implicitTerms_const (hl : OpsLaws p.ops) (c : K) (s : State M) :
    p.implicitTerms { s with logSurfacePressure := s.logSurfacePressure + c • p.ops.oneModal }
      = p.implicitTerms s := by
  simp only [PrimitiveEquations.implicitTerms, Col.add, List.map_zipWith, List.zipWith_map_right, smul_add,
    hl.laplacian_add, hl.laplacian_smul, hl.laplacian_one, smul_zero, add_zero]

/-- **T12.1 (dry, implicit inverse)**: `inv` is the inverse `numpy.linalg.inv` returned for the step
 size `η`, `inv'` the one for `η' = t·η` under the other scale -/
theorem dry_implicitInverse_equivariant (r : EqScaled g p p') (hg : g.Valid) (hp : ProjLaws p.ops)
    (n : ℕ) (hn : p.vert.layers = n) (inv inv' : ℕ → List (List K)) (hs : InvScaled g n inv inv')
    (hc : ConstMode p n inv) (hsq : ∀ l, (inv l).length = 2 * n + 1) (c : K) (s : State M) :
    p'.implicitInverse inv' (actState g c p.ops.oneModal s)
      = actState g c p.ops.oneModal (p.implicitInverse inv s) := by
  rw [r.eq_actEq]
  exact implicitInverse_act p hg hp n hn inv inv' hs hc c s (invShaped_of_square p n inv s hsq)

/-- the inverse under the other scale, as the driver op `scl inv` computes it, has the nine scaled
 blocks -/
theorem invScaled_of_actInverse (hg : g.Valid) (n : ℕ) (inv : ℕ → List (List K)) :
    InvScaled g n inv (fun l => actInverse g n (inv l)) :=
  invScaled_actInverse hg n inv

/-- **T12.1 (with time)**: the clock is a time, its tendency a number -/
theorem withTime_explicitTerms_equivariant [BEq K] [LawfulBEq K] (r : EqScaled g p p') (hg : g.Valid)
    (hl : OpsLaws p.ops) (c : K) (s : StateWithTime K M) :
    PrimitiveEquationsWithTime.explicitTerms p' (actStateT g c p.ops.oneModal s)
      = actTendT g (PrimitiveEquationsWithTime.explicitTerms p s) := by
  rw [r.eq_actEq]; exact timeExplicitTerms_act p hg hl c s

theorem withTime_implicitTerms_equivariant (r : EqScaled g p p') (hg : g.Valid) (hl : OpsLaws p.ops) (c : K)
    (s : StateWithTime K M) :
    PrimitiveEquationsWithTime.implicitTerms p' (actStateT g c p.ops.oneModal s)
      = actTendT g (PrimitiveEquationsWithTime.implicitTerms p s) := by
  rw [r.eq_actEq]; exact timeImplicitTerms_act p hg hl c s

theorem withTime_implicitInverse_equivariant (r : EqScaled g p p') (hg : g.Valid) (hp : ProjLaws p.ops)
    (n : ℕ) (hn : p.vert.layers = n) (inv inv' : ℕ → List (List K)) (hs : InvScaled g n inv inv')
    (hc : ConstMode p n inv) (hsq : ∀ l, (inv l).length = 2 * n + 1) (c : K) (s : StateWithTime K M) :
    PrimitiveEquationsWithTime.implicitInverse p' inv' (actStateT g c p.ops.oneModal s)
      = actStateT g c p.ops.oneModal (PrimitiveEquationsWithTime.implicitInverse p inv s) := by
  unfold PrimitiveEquationsWithTime.implicitInverse actStateT
  simp only [dry_implicitInverse_equivariant r hg hp n hn inv inv' hs hc hsq c s.state]

/-- **T12.1 (moist)**: `R_v / R`, `c_p,v / c_p`, the humidity and the other tracers are numbers -/
theorem moist_explicitTerms_equivariant [Div N] [BEq K] [LawfulBEq K] (r : EqScaled g p p') (hg : g.Valid)
    (hl : OpsLaws p.ops) (c : K) (s : StateWithTime K M) :
    MoistPrimitiveEquations.explicitTerms p' (actStateT g c p.ops.oneModal s)
      = (MoistPrimitiveEquations.explicitTerms p s).map (actTendT g) := by
  rw [r.eq_actEq]; exact moistExplicitTerms_act p hg hl c s

/-- **T12.1 (moist with cloud condensate)** -/
theorem cloud_explicitTerms_equivariant [Div N] [BEq K] [LawfulBEq K] (r : EqScaled g p p') (hg : g.Valid)
    (hl : OpsLaws p.ops) (c : K) (s : StateWithTime K M) :
    MoistPrimitiveEquationsWithCloudMoisture.explicitTerms p' (actStateT g c p.ops.oneModal s)
      = (MoistPrimitiveEquationsWithCloudMoisture.explicitTerms p s).map (actTendT g) := by
  rw [r.eq_actEq]; exact cloudExplicitTerms_act p hg hl c s

/-- the moist classes inherit `implicit_terms` / `implicit_inverse` -/
theorem moist_implicitTerms_equivariant (r : EqScaled g p p') (hg : g.Valid) (hl : OpsLaws p.ops) (c : K)
    (s : StateWithTime K M) :
    MoistPrimitiveEquations.implicitTerms p' (actStateT g c p.ops.oneModal s)
      = actTendT g (MoistPrimitiveEquations.implicitTerms p s) :=
  withTime_implicitTerms_equivariant r hg hl c s

theorem moist_implicitInverse_equivariant (r : EqScaled g p p') (hg : g.Valid) (hp : ProjLaws p.ops)
    (n : ℕ) (hn : p.vert.layers = n) (inv inv' : ℕ → List (List K)) (hs : InvScaled g n inv inv')
    (hc : ConstMode p n inv) (hsq : ∀ l, (inv l).length = 2 * n + 1) (c : K) (s : StateWithTime K M) :
    MoistPrimitiveEquations.implicitInverse p' inv' (actStateT g c p.ops.oneModal s)
      = actStateT g c p.ops.oneModal (MoistPrimitiveEquations.implicitInverse p inv s) :=
  withTime_implicitInverse_equivariant r hg hp n hn inv inv' hs hc hsq c s

/-- the diagnostic state (winds, `σ̇`, `∇ ln p_s`) under the other scale -/
theorem diagnosticState_equivariant (hg : g.Valid) (h : HOps K M N) (hl : OpsLaws h) (v : Vert K) (c : K)
    (s : State M) :
    computeDiagnosticState (actOps g h) v (actState g c h.oneModal s)
      = actDiag g (computeDiagnosticState h v s) :=
  computeDiagnosticState_act hg hl v c s

end T121

/-! ## T12.1 — shallow water -/
section T121sw
variable {K M N : Type} [Field K] [AddCommGroup M] [Module K M] [CommRing N] [Algebra K N]
variable {g : Scale K} (p : DynamicsSW.ShallowWaterEquations K M N)

theorem sw_explicitTerms_equivariant [LT K] [DecidableLT K] (hg : g.Valid) (hl : OpsLaws p.ops)
    (s : DynamicsSW.State M) :
    (actSW g p).explicitTerms (actStateSW g s) = actTendSW g (p.explicitTerms s) :=
  sw_explicitTerms_act p hg hl s

theorem sw_implicitTerms_equivariant (hg : g.Valid) (hl : OpsLaws p.ops) (s : DynamicsSW.State M) :
    (actSW g p).implicitTerms (actStateSW g s) = actTendSW g (p.implicitTerms s) :=
  sw_implicitTerms_act p hg hl s

theorem sw_implicitInverse_equivariant (hg : g.Valid) (hl : OpsLaws p.ops) (hp : ProjLaws p.ops) (η : K)
    (s : DynamicsSW.State M) :
    (actSW g p).implicitInverse (g.t * η) (actStateSW g s) = actStateSW g (p.implicitInverse η s) :=
  sw_implicitInverse_act p hg hl hp η s

end T121sw

/-! ## T12.1 — Held–Suarez forcing -/
section T121hs
open Dino.Forcing
variable {g : Scale ℝ}

theorem hs_friction_equivariant (kf sigmaB sigma cosLat x : ℝ) :
    velTend1 (g.wF * kf) sigmaB sigma cosLat (g.wV * x) = (g.wF * g.wV) * velTend1 kf sigmaB sigma cosLat x :=
  velTend1_act kf sigmaB sigma cosLat x

theorem hs_equilibriumTemperature_equivariant (hg : g.Pos) (P : HSParams ℝ) (sigma lat ps : ℝ) :
    equilibriumTemperature (actHS g P).toEqParams sigma lat (g.wP * ps)
      = g.θ * equilibriumTemperature P.toEqParams sigma lat ps :=
  equilibriumTemperature_act hg P sigma lat ps

theorem hs_relaxation_equivariant (hg : g.Pos) (P : HSParams ℝ) (sigma tref lat lsp tv c : ℝ)
    (hc : Real.exp c = g.wP) :
    tempTend1 (actHS g P).toEqParams (g.wF * P.ka) (g.wF * P.ks) P.sigmaB sigma (g.θ * tref) lat (lsp + c)
        (g.θ * tv)
      = (g.θ * g.wF) * tempTend1 P.toEqParams P.ka P.ks P.sigmaB sigma tref lat lsp tv :=
  tempTend1_act hg P sigma tref lat lsp tv c hc

/-- **T12.1 (Held–Suarez)**, one level of `HeldSuarezForcing.explicit_terms` -/
theorem hs_explicitTermsLevel_equivariant (hg : g.Pos) (c : ℝ) (hc : Real.exp c = g.wP) (H H' : Horiz ℝ)
    (P : HSParams ℝ) (sigma tref : ℝ) (lsp lsp' vor dv tvar : List ℝ) (hH : HorizScaled g c H H' lsp lsp') :
    explicitTermsLevel H' (actHS g P) sigma (g.θ * tref) lsp' (scl g.wF vor) (scl g.wF dv) (scl g.θ tvar)
      = ⟨scl (g.wF * g.wF) (explicitTermsLevel H P sigma tref lsp vor dv tvar).vorticity,
         scl (g.wF * g.wF) (explicitTermsLevel H P sigma tref lsp vor dv tvar).divergence,
         scl (g.θ * g.wF) (explicitTermsLevel H P sigma tref lsp vor dv tvar).temperature⟩ :=
  hs_explicitTermsLevel_act hg c hc H H' P sigma tref lsp lsp' vor dv tvar hH

/-- the constant that the action adds to `ln p_s` exists: `c = log wP` -/
theorem hs_log_constant (hg : g.Pos) : Real.exp (Real.log g.wP) = g.wP :=
  Real.exp_log (wP_pos hg)

end T121hs

/-! ## T12.2 — time steps, filters, trajectories -/
section T122
open Dino.Imex
variable {K V : Type} [Field K] [AddCommGroup V] [Module K V]
variable {t : K} {A T : V → V} {e e' : ImEx K V}

theorem step_bfe_commutes (L : ActionLaws t A T) (I : Intertwined t A T e e') (dt : K) (u : V) :
    bfe e' (t * dt) (A u) = A (bfe e dt u) := bfe_act L I dt u

theorem step_cnrk2_commutes (L : ActionLaws t A T) (I : Intertwined t A T e e') (dt : K) (u : V) :
    cnrk2 e' (t * dt) (A u) = A (cnrk2 e dt u) := cnrk2_act L I dt u

theorem step_leapfrog_commutes (L : ActionLaws t A T) (I : Intertwined t A T e e') (dt α : K) (u : V × V) :
    leapfrog e' (t * dt) α (A u.1, A u.2) = ((A (leapfrog e dt α u).1), A (leapfrog e dt α u).2) :=
  leapfrog_act L I dt α u

/-- `low_storage_runge_kutta_crank_nicolson` (`crank_nicolson_rk3`, `crank_nicolson_rk4`) -/
theorem step_lsrk_commutes (L : ActionLaws t A T) (I : Intertwined t A T e e') (dt : K) (αs βs γs : List K) :
    (lsrk e' (t * dt) αs βs γs).map (fun f => fun u => f (A u))
      = (lsrk e dt αs βs γs).map (fun f => fun u => A (f u)) := lsrk_act L I dt αs βs γs

/-- `imex_runge_kutta` (`imex_rk_sil3`) -/
theorem step_imexRK_commutes (L : ActionLaws t A T) (I : Intertwined t A T e e') (nz : K → Bool) (dt : K)
    (tab : Tableau K) :
    (imexRK nz e' (t * dt) tab).map (fun f => fun u => f (A u))
      = (imexRK nz e dt tab).map (fun f => fun u => A (f u)) := imexRK_act L I nz dt tab

/-- the implicit inverse is intertwined as soon as the implicit terms are and both inverses are
 resolvents (C03) -/
theorem resolvent_intertwined (L : ActionLaws t A T) (hG : ∀ x, e'.G (A x) = T (e.G x)) (η : K)
    (hright : ∀ x, e.Ginv x η - η • e.G (e.Ginv x η) = x)
    (hleft' : ∀ z, e'.Ginv (z - (t * η) • e'.G z) (t * η) = z) (x : V) :
    e'.Ginv (A x) (t * η) = A (e.Ginv x η) := ginv_intertwined_of_resolvent L hG η hright hleft' x

/-- **T12.2 (trajectories)**: every state of a `k`-step run -/
theorem trajectory_commutes {S : Type} (A : S → S) (step step' : S → S) (h : ∀ u, step' (A u) = A (step u))
    (k : ℕ) (u : S) :
    (List.range k).map (fun i => step'^[i] (A u)) = ((List.range k).map fun i => step^[i] u).map A :=
  trajectory_act A step step' h k u

theorem filtered_step_commutes {S : Type} (A : S → S) (step step' φ φ' : S → S)
    (h : ∀ u, step' (A u) = A (step u)) (hφ : ∀ u, φ' (A u) = A (φ u)) (u : S) :
    Filters.rkStepFilter φ' (A u) (step' (A u)) = A (Filters.rkStepFilter φ u (step u)) :=
  filtered_step_act A step step' φ φ' h hφ u

/-- `exponential_step_filter(grid, dt, tau, …)` with `dt`, `tau` both times -/
theorem exponential_step_filter_invariant [LT K] [DecidableLT K] (ex : K → K) (t dt tau : K) (ht : t ≠ 0)
    (p : ℕ) (c : K) (ls : List K) :
    Filters.expStepScaling ex (t * dt) (t * tau) p c ls = Filters.expStepScaling ex dt tau p c ls :=
  expStepScaling_act ex t dt tau ht p c ls

end T122

section T122ord
variable {K : Type} [Field K] [LinearOrder K] [IsStrictOrderedRing K]

/-- `horizontal_diffusion_step_filter(grid, dt, tau, order)` with `dt`, `tau` both times and the
 eigenvalues of the grid of radius `l·a` (`k = l⁻²`) -/
theorem diffusion_step_filter_invariant (ex : K → K) (t k dt tau : K) (order : ℕ) (ht : t ≠ 0) (hk : 0 < k)
    (eigs : List K) :
    Filters.diffStepScaling ex (t * dt) (t * tau) order (eigs.map (k * ·))
      = Filters.diffStepScaling ex dt tau order eigs :=
  diffStepScaling_act ex t k dt tau order ht hk eigs

end T122ord


/-! ## T12.2 for the equation classes of the model (`tree_math` vectors, schemes, histories) -/
section T122classes
open Dino.Imex Dino.Invariants
variable {K M N : Type} [Field K] [AddCommGroup M] [Module K M] [CommRing N] [Algebra K N] [Div N]
variable [BEq K] [LawfulBEq K]
variable {g : Scale K} (p : PrimitiveEquations K M N)

/-- **T12.2 (one step, any class, any one-state scheme)**: `backward_forward_euler`,
 `crank_nicolson_rk2`, the low-storage family (`crank_nicolson_rk3/rk4`), `imex_runge_kutta`
 (`imex_rk_sil3`); `invOf η` is the inverse `numpy.linalg.inv` returned for the step size `η`, `invOf' (t·η)`
 the one under the other scale -/
theorem pe_scheme_step_commutes (hg : g.Valid) (hl : OpsLaws p.ops) (hp : ProjLaws p.ops) (cls : Cls) (c : K)
    (n : ℕ) (hn : p.vert.layers = n) (invOf invOf' : K → ℕ → List (List K))
    (hs : ∀ η, InvScaled g n (invOf η) (invOf' (g.t * η))) (hc : ∀ η, ConstMode p n (invOf η))
    (hsq : ∀ η l, (invOf η l).length = 2 * n + 1) (sch : Scheme K) (dt : K) (f : TM (StateWithTime K M) → TM (StateWithTime K M))
    (hf : sch.step (peImEx cls p invOf) dt = some f) :
    ∃ f', sch.step (peImEx cls (actEq g p) invOf') (g.t * dt) = some f'
      ∧ ∀ u : StateWithTime K M, f' (TM.val (actStateT g c p.ops.oneModal u))
          = tmMap (actStateT g c p.ops.oneModal) (f (TM.val u)) := by
  obtain ⟨f', h1, h2⟩ := (scheme_step_actOn (tm_actionLaws hg c p.ops.oneModal)
    (pe_intertwined p hg hl hp cls c n hn invOf invOf' hs hc hsq) sch dt).1 f hf
  exact ⟨f', h1, fun u => (h2 (TM.val u) trivial).1⟩

/-- **T12.2 (trajectories, any class)**: any history of (scheme, step size, filters), every `dt` scaled by
 `t`, filters related by `FilterScaled` -/
theorem pe_history_commutes (hg : g.Valid) (hl : OpsLaws p.ops) (hp : ProjLaws p.ops) (cls : Cls) (c : K)
    (n : ℕ) (hn : p.vert.layers = n) (invOf invOf' : K → ℕ → List (List K))
    (hs : ∀ η, InvScaled g n (invOf η) (invOf' (g.t * η))) (hc : ∀ η, ConstMode p n (invOf η))
    (hsq : ∀ η l, (invOf η l).length = 2 * n + 1)
    {h h' : List (Entry K (TM (StateWithTime K M)))}
    (hh : HistScaled Proper g.t (tmMap (actStateT g c p.ops.oneModal)) h h') (u : StateWithTime K M) :
    runHistory (peImEx cls (actEq g p) invOf') h' (TM.val (actStateT g c p.ops.oneModal u))
      = (runHistory (peImEx cls p invOf) h (TM.val u)).map (tmMap (actStateT g c p.ops.oneModal)) :=
  (runHistory_actOn (tm_actionLaws hg c p.ops.oneModal)
    (pe_intertwined p hg hl hp cls c n hn invOf invOf' hs hc hsq) hh (TM.val u) trivial).1

/-- `semi_implicit_leapfrog` on pairs of states of any class -/
theorem pe_leapfrog_commutes (hg : g.Valid) (hl : OpsLaws p.ops) (hp : ProjLaws p.ops) (cls : Cls) (c : K)
    (n : ℕ) (hn : p.vert.layers = n) (invOf invOf' : K → ℕ → List (List K))
    (hs : ∀ η, InvScaled g n (invOf η) (invOf' (g.t * η))) (hc : ∀ η, ConstMode p n (invOf η))
    (hsq : ∀ η l, (invOf η l).length = 2 * n + 1) (dt α : K) (u v : StateWithTime K M) :
    leapfrog (peImEx cls (actEq g p) invOf') (g.t * dt) α
        (TM.val (actStateT g c p.ops.oneModal u), TM.val (actStateT g c p.ops.oneModal v))
      = (tmMap (actStateT g c p.ops.oneModal) (leapfrog (peImEx cls p invOf) dt α (TM.val u, TM.val v)).1,
         tmMap (actStateT g c p.ops.oneModal) (leapfrog (peImEx cls p invOf) dt α (TM.val u, TM.val v)).2) :=
  (leapfrog_actOn (tm_actionLaws hg c p.ops.oneModal)
    (pe_intertwined p hg hl hp cls c n hn invOf invOf' hs hc hsq) dt α (TM.val u, TM.val v) trivial trivial).1

/-- a history without filters under the other scale: scale every `dt` -/
theorem histScaled_scale_dt {V : Type} (St : V → Prop) (t : K) (A : V → V) (h : List (K × Scheme K)) :
    HistScaled St t A (h.map fun q => ⟨q.2, q.1, []⟩) (h.map fun q => ⟨q.2, t * q.1, []⟩) := by
  induction h with
  | nil => exact List.Forall₂.nil
  | cons q h ih => exact List.Forall₂.cons ⟨rfl, rfl, List.Forall₂.nil⟩ ih

end T122classes

/-! ## T12.2 with filters: the hypothesis `FilterScaled` of histories, discharged -/
section T122filters
open Dino.Imex Dino.Invariants
variable {K M N : Type} [Field K] [AddCommGroup M] [Module K M] [CommRing N] [Algebra K N] [Div N]
variable [BEq K] [LawfulBEq K]
variable {g : Scale K} (p : PrimitiveEquations K M N)

/-- **`FilterScaled` for leaf-wise linear filters**: a tree filter that applies to every modal leaf one map `φ`
 that is additive, homogeneous and fixes the constant mode (`φ one = one`), and leaves the clock alone, is related
 to ITSELF under the change of units — for every additive constant `c` of `ln p_s` -/
theorem leaf_filter_scaled {φ : M → M} {one : M} (hφ : LeafLinear K φ one) (c : K) :
    FilterScaled (Proper (V := StateWithTime K M)) (tmMap (actStateT g c one)) (tmMap (leafFilter φ))
      (tmMap (leafFilter φ)) :=
  filterScaled_leafFilter hφ c

/-- **`FilterScaled` for the filters of `filtering.py`** (`scaling * x`, one factor per total wavenumber): the
 filter with scaling `s` on the grid of radius `a` and the one with the same `s` on the grid of radius `l·a`,
 provided the factor at total wavenumber `0` is one -/
theorem wavenumber_filter_scaled {h : HOps K M N} (hp : ProjLaws h) (h0 : ConstProj h) (s : List K)
    (hs : s.head? = some 1) (c : K) :
    FilterScaled (Proper (V := StateWithTime K M)) (tmMap (actStateT g c h.oneModal))
      (tmMap (leafFilter (lMul h s))) (tmMap (leafFilter (lMul (actOps g h) s))) :=
  filterScaled_lMul hp h0 s hs c

/-- **T12.2 (trajectories with filters, any class)**: any history of (scheme, step size, filters) whose filters
 are leaf-wise linear and fix the constant mode; under the other scale every `dt` is multiplied by `t` and the
 filters are the same maps -/
theorem pe_history_commutes_leaf_filters (hg : g.Valid) (hl : OpsLaws p.ops) (hp : ProjLaws p.ops) (cls : Cls)
    (c : K) (n : ℕ) (hn : p.vert.layers = n) (invOf invOf' : K → ℕ → List (List K))
    (hs : ∀ η, InvScaled g n (invOf η) (invOf' (g.t * η))) (hc : ∀ η, ConstMode p n (invOf η))
    (hsq : ∀ η l, (invOf η l).length = 2 * n + 1)
    (hist : List (Scheme K × K × List (M → M)))
    (hφ : ∀ en ∈ hist, ∀ φ ∈ en.2.2, LeafLinear K φ p.ops.oneModal) (u : StateWithTime K M) :
    runHistory (peImEx cls (actEq g p) invOf')
        (hist.map fun en => ⟨en.1, g.t * en.2.1, en.2.2.map fun φ => tmMap (leafFilter φ)⟩)
        (TM.val (actStateT g c p.ops.oneModal u))
      = (runHistory (peImEx cls p invOf)
          (hist.map fun en => ⟨en.1, en.2.1, en.2.2.map fun φ => tmMap (leafFilter φ)⟩)
          (TM.val u)).map (tmMap (actStateT g c p.ops.oneModal)) :=
  pe_history_commutes p hg hl hp cls c n hn invOf invOf' hs hc hsq (histScaled_leafFilters c hist hφ) u

end T122filters

section T122stepfilters
open Dino.Imex Dino.Invariants
variable {K M N : Type} [Field K] [LinearOrder K] [IsStrictOrderedRing K] [AddCommGroup M] [Module K M]
variable [CommRing N] [Algebra K N] [Div N] [BEq K] [LawfulBEq K]
variable {g : Scale K} (p : PrimitiveEquations K M N)

/-- the scaling array of `exponential_step_filter` / `horizontal_diffusion_step_filter` is the same array in the
 two unit systems (`dt`, `tau` times `t`; radius times `l`) -/
theorem step_filter_scaling_invariant (hg : g.Valid) (ex : K → K) (dt radius : K) (ls : List K)
    (f : StepFilter K) :
    (f.act g).scaling ex (g.t * dt) (g.l * radius) ls = f.scaling ex dt radius ls :=
  stepFilter_scaling_act hg ex dt radius ls f

/-- its factor at total wavenumber `0` is exactly one when `exp 0 = 1` and the filter is admissible
 (`cutoff ≥ 0`, resp. `order ≥ 1`), and it has one factor per total wavenumber -/
theorem step_filter_fixes_constant_mode (ex : K → K) (hex : ex 0 = 1) (dt radius : K) (rest : List K)
    (f : StepFilter K) (hf : f.Admissible) (s : List K) (hs : f.scaling ex dt radius (0 :: rest) = some s) :
    s.head? = some 1 ∧ s.length = rest.length + 1 :=
  stepFilter_scaling_head ex hex dt radius rest f hf s hs

/-- **T12.2 (trajectories with the step filters of `time_integration.py`, any class)**: any history of
 (scheme, step size, exponential / diffusion step filters with their computed scaling arrays) on the grid with
 total wavenumbers `0 :: rest`.  Under the other scale (every `dt` and `tau` times `t`, grid of radius `l·a`)
 (i) the filters compute the SAME arrays, (ii) these have one factor per total wavenumber, and (iii) the
 trajectory is the acted-upon trajectory.  Hypotheses beyond those of `pe_history_commutes`: the constant field is
 a pure `l = 0` mode (`ConstProj`), `exp 0 = 1`, every exponential filter has `cutoff ≥ 0` and every diffusion
 filter `order ≥ 1` (`Admissible`) -/
theorem pe_history_commutes_step_filters (hg : g.Valid) (hl : OpsLaws p.ops) (hp : ProjLaws p.ops)
    (h0 : ConstProj p.ops) (cls : Cls) (c : K) (n : ℕ) (hn : p.vert.layers = n)
    (invOf invOf' : K → ℕ → List (List K))
    (hs : ∀ η, InvScaled g n (invOf η) (invOf' (g.t * η))) (hc : ∀ η, ConstMode p n (invOf η))
    (hsq : ∀ η l, (invOf η l).length = 2 * n + 1)
    (ex : K → K) (hex : ex 0 = 1) (rest : List K) (hlen : rest.length + 1 = p.ops.nL) (hist : List (FEntry K))
    (hadm : ∀ en ∈ hist, ∀ fs ∈ en.filters, fs.1.Admissible)
    (hcomp : FEntry.Computed ex p.ops.radius (0 :: rest) hist) (u : StateWithTime K M) :
    FEntry.Computed ex (actEq g p).ops.radius (0 :: rest) (FEntry.act g hist)
      ∧ (∀ en ∈ hist, ∀ fs ∈ en.filters, fs.2.length = p.ops.nL)
      ∧ runHistory (peImEx cls (actEq g p) invOf') (FEntry.toHist (actEq g p).ops (FEntry.act g hist))
            (TM.val (actStateT g c p.ops.oneModal u))
          = (runHistory (peImEx cls p invOf) (FEntry.toHist p.ops hist) (TM.val u)).map
              (tmMap (actStateT g c p.ops.oneModal)) := by
  obtain ⟨h1, h2, h3⟩ := histScaled_stepFilters (M := M) hg hp h0 c ex hex rest hlen hist hadm hcomp
  exact ⟨h1, h2, pe_history_commutes p hg hl hp cls c n hn invOf invOf' hs hc hsq h3 u⟩

end T122stepfilters

/-! ## non-vacuity -/
section examples

/-- modes `(a₀, a₁) ↦ a₀ + a₁ μ`, nodes `μ = ∓1/2` (the toy grid of C05) -/
def toyOps : HOps ℚ (ℚ × ℚ) (ℚ × ℚ) :=
  { toNodal := fun a => (a.1 - a.2 / 2, a.1 + a.2 / 2)
    toModal := fun x => ((x.1 + x.2) / 2, x.2 - x.1)
    dDlon := fun _ => 0
    cosLatDDlat := fun a => (0, 3 / 4 * a.2)
    secLatDDlatCos2 := fun a => (a.2, -2 * a.1)
    laplacian := fun a => (0, -2 * a.2)
    inverseLaplacian := fun a => (0, -a.2 / 2)
    clip := fun a => a
    lproj := fun l a => if l = 0 then (a.1, 0) else if l = 1 then (0, a.2) else 0
    nL := 2
    lapEig := fun l => if l = 1 then -2 else 0
    cosLat := (1, 1), sec2Lat := (1, 1), sinLat := (-1 / 2, 1 / 2)
    oneModal := (1, 0)
    radius := 1 }

def toyEq : PrimitiveEquations ℚ (ℚ × ℚ) (ℚ × ℚ) :=
  { ops := toyOps
    vert := { boundaries := [0, 1 / 3, 1], logCenters := [-2, -1 / 3] }
    phys := { angularVelocity := 1 / 2, g := 10, R := 287 / 100, Rvapor := 461 / 100, CpVapor := 18,
              kappa := 2 / 7 }
    referenceTemperature := [250, 280]
    orography := (3 / 10, 3 / 2) }

theorem toyLaws : OpsLaws toyOps where
  toNodal_smul := fun c x => by ext <;> simp [toyOps] <;> ring
  toModal_smul := fun c x => by ext <;> simp [toyOps] <;> ring
  dDlon_smul := fun c x => by simp [toyOps]
  cosLatDDlat_smul := fun c x => by ext <;> simp [toyOps] <;> ring
  secLatDDlatCos2_smul := fun c x => by ext <;> simp [toyOps] <;> ring
  laplacian_smul := fun c x => by ext <;> simp [toyOps] <;> ring
  inverseLaplacian_smul := fun c x => by ext <;> simp [toyOps] <;> ring
  clip_smul := fun c x => by simp [toyOps]
  dDlon_add := fun x y => by simp [toyOps]
  cosLatDDlat_add := fun x y => by ext <;> simp [toyOps] <;> ring
  laplacian_add := fun x y => by ext <;> simp [toyOps] <;> ring
  dDlon_one := by simp [toyOps]
  cosLatDDlat_one := by simp [toyOps]
  laplacian_one := by simp [toyOps]

theorem toyProj : ProjLaws toyOps where
  lproj_smul := fun l c x => by
    simp only [toyOps]; split_ifs <;> ext <;> simp
  lproj_add := fun l x y => by
    simp only [toyOps]; split_ifs <;> ext <;> simp

/-- a change of all four units: km → m-ish factors 2, 3, 5, 7 -/
def toyG : Scale ℚ := ⟨2, 3, 5, 7⟩
theorem toyG_valid : toyG.Valid := ⟨by norm_num [toyG], by norm_num [toyG], by norm_num [toyG], by norm_num [toyG]⟩

def toyState : StateWithTime ℚ (ℚ × ℚ) :=
  { state := { vorticity := [(0, 1), (0, -2)], divergence := [(0, 3), (0, 1 / 2)],
               temperatureVariation := [(1, 2), (-3, 4)], logSurfacePressure := (11, 1 / 5),
               tracers := [(specificHumidityKey, [(1 / 100, 1 / 200), (1 / 50, 0)]),
                           (cloudWaterKey, [(1 / 1000, 0), (0, 0)]), (cloudIceKey, [(0, 0), (1 / 1000, 0)])] }
    simTime := 4 }

/-- T12.1 applies to an uneven two-layer column with orography and a varying reference temperature,
 all four classes -/
example : (actEq toyG toyEq).explicitTerms (actState toyG 13 toyOps.oneModal toyState.state)
    = actTend toyG (toyEq.explicitTerms toyState.state) :=
  dry_explicitTerms_equivariant (eqScaled_actEq toyG toyEq) toyG_valid toyLaws 13 toyState.state

example : MoistPrimitiveEquationsWithCloudMoisture.explicitTerms (actEq toyG toyEq)
      (actStateT toyG 13 toyOps.oneModal toyState)
    = (MoistPrimitiveEquationsWithCloudMoisture.explicitTerms toyEq toyState).map (actTendT toyG) :=
  cloud_explicitTerms_equivariant (eqScaled_actEq toyG toyEq) toyG_valid toyLaws 13 toyState

/-- … and the moist tendency of the example really is a value (the tracers are present) -/
example : (MoistPrimitiveEquationsWithCloudMoisture.explicitTerms toyEq toyState).isSome = true := by
  decide +kernel

/-- the statement is not an identity between trivial objects: the tendency is not zero, and the
 acted-upon tendency differs from the original -/
example : (toyEq.explicitTerms toyState.state).divergence ≠ (actTend toyG (toyEq.explicitTerms toyState.state)).divergence := by
  decide +kernel

/-- NEGATIVE WITNESS (indexed): a wrong exponent is seen. With gravity scaled like a velocity (`wV`) instead of
 an acceleration (`wA`) the equivariance `dry_explicitTerms_equivariant` fails on the toy problem (through the
 orography term of the divergence tendency) -/
theorem gravity_scaled_as_velocity_breaks_equivariance :
    (({ actEq toyG toyEq with phys := { actPhys toyG toyEq.phys with g := toyG.wV * toyEq.phys.g } }).explicitTerms
        (actState toyG 13 toyOps.oneModal toyState.state)).divergence
      ≠ (actTend toyG (toyEq.explicitTerms toyState.state)).divergence := by
  decide +kernel


/-- the identity, the inverse of `1 - η·L` at `η = 0` -/
def eye5 : List (List ℚ) := [[1, 0, 0, 0, 0], [0, 1, 0, 0, 0], [0, 0, 1, 0, 0], [0, 0, 0, 1, 0], [0, 0, 0, 0, 1]]

theorem toyConstMode : ConstMode toyEq 2 (fun _ => eye5) :=
  ⟨by decide +kernel, by decide +kernel, by decide +kernel⟩

/-- a GENUINE inverse for `η = 1/10 ≠ 0`: the matrices `1 − ηL` of the toy problem at total wavenumbers `l = 0`
 (`λ = 0`) and `l = 1` (`λ = −2`) are `toyEq.implicitTermMatrix (1/10) l` (two uneven layers, `T_ref = 250, 280`),
 and `toyInv l` are their exact inverses (rational Gauss–Jordan elimination; both products are checked below) -/
def toyInv : ℕ → List (List ℚ)
  | 0 => [[1, 0, 0, 0, 0], [0, 1, 0, 0, 0], [-37 / 7, -2 / 3, 1, 0, 0], [-4, -10 / 3, 0, 1, 0],
          [-1 / 30, -1 / 15, 0, 0, 1]]
  | _ => [[83379000 / 415559483, -81795000 / 415559483, 39882955 / 415559483, 40186027 / 415559483,
             -1181205900 / 415559483],
          [-41328000 / 415559483, 74184750 / 415559483, -19768560 / 415559483, -26963937 / 831118966,
             5992405020 / 415559483],
          [-2892159000 / 2908916381, 382888500 / 415559483, 217928618 / 415559483, -203423878 / 415559483,
             2248580220 / 415559483],
          [-195756000 / 415559483, 79897500 / 415559483, -93636620 / 415559483, 299755270 / 415559483,
             -15249859800 / 415559483],
          [-24100 / 415559483, -2219150 / 415559483, -69167 / 2493356898, -1322209 / 1246678449,
             55439345 / 415559483]]

/-- the matrices being inverted really are non-trivial (`η ≠ 0`: the `l = 1` block couples `δ`, `T'`, `ln p_s`) -/
example : toyEq.implicitTermMatrix (1 / 10) 1
    = [[1, 0, -287 / 600, -2009 / 3000, -287 / 2], [0, 1, 0, -287 / 1500, -4018 / 25], [37 / 7, 2 / 3, 1, 0, 0],
       [4, 10 / 3, 0, 1, 0], [1 / 30, 1 / 15, 0, 0, 1]] := by decide +kernel

/-- `toyInv l` is the two-sided inverse of `1 − ηL` at `η = 1/10`, for both total wavenumbers of the toy grid -/
theorem toyInv_is_inverse :
    ∀ l < 2, Lin.matMul (toyEq.implicitTermMatrix (1 / 10) l) (toyInv l) 5 = eye5 ∧
      Lin.matMul (toyInv l) (toyEq.implicitTermMatrix (1 / 10) l) 5 = eye5 := by decide +kernel

/-- **`ConstMode` with a genuine inverse at `η ≠ 0`**: a uniform shift of `ln p_s` is a fixed point of the true
 inverse of `1 − ηL` (the `l = 0` matrix has `λ = 0`, so its last column is the unit vector) -/
theorem toyConstMode_genuine : ConstMode toyEq 2 toyInv :=
  ⟨by decide +kernel, by decide +kernel, by decide +kernel⟩

/-- … while the inverse is not the identity and really moves a state: `implicit_inverse` with `toyInv` changes
 the toy state -/
example : (toyEq.implicitInverse toyInv toyState.state).divergence ≠ toyState.state.divergence := by decide +kernel

/-- T12.2 for the classes: a three-step history (Euler, Crank–Nicolson RK2, Euler) of the cloud class on the toy
 problem with concrete inverses (all hypotheses instantiated) -/
example :
    Invariants.runHistory (Invariants.peImEx .cloud (actEq toyG toyEq) (fun _ _ => actInverse toyG 2 eye5))
        ([(1 / 10, Invariants.Scheme.bfe), (1 / 5, .cnrk2), (1 / 10, .bfe)].map fun q => ⟨q.2, toyG.t * q.1, []⟩)
        (Invariants.TM.val (actStateT toyG 13 toyOps.oneModal toyState))
      = (Invariants.runHistory (Invariants.peImEx .cloud toyEq (fun _ _ => eye5))
          ([(1 / 10, Invariants.Scheme.bfe), (1 / 5, .cnrk2), (1 / 10, .bfe)].map fun q => ⟨q.2, q.1, []⟩)
          (Invariants.TM.val toyState)).map (tmMap (actStateT toyG 13 toyOps.oneModal)) :=
  pe_history_commutes toyEq toyG_valid toyLaws toyProj .cloud 13 2 rfl (fun _ _ => eye5)
    (fun _ _ => actInverse toyG 2 eye5) (fun _ => invScaled_of_actInverse toyG_valid 2 _) (fun _ => toyConstMode)
    (fun _ _ => rfl) (histScaled_scale_dt _ _ _ _) toyState

/-- … and with the genuine inverse: one backward-forward Euler step of size `dt = 1/10` (so `η = 1/10`, the value
 `toyInv` inverts) of the cloud class, under the change of all four units -/
example :
    Invariants.runHistory (Invariants.peImEx .cloud (actEq toyG toyEq) (fun _ l => actInverse toyG 2 (toyInv l)))
        ([(1 / 10, Invariants.Scheme.bfe)].map fun q => ⟨q.2, toyG.t * q.1, []⟩)
        (Invariants.TM.val (actStateT toyG 13 toyOps.oneModal toyState))
      = (Invariants.runHistory (Invariants.peImEx .cloud toyEq (fun _ => toyInv))
          ([(1 / 10, Invariants.Scheme.bfe)].map fun q => ⟨q.2, q.1, []⟩)
          (Invariants.TM.val toyState)).map (tmMap (actStateT toyG 13 toyOps.oneModal)) :=
  pe_history_commutes toyEq toyG_valid toyLaws toyProj .cloud 13 2 rfl (fun _ => toyInv)
    (fun _ l => actInverse toyG 2 (toyInv l)) (fun _ => invScaled_of_actInverse toyG_valid 2 _)
    (fun _ => toyConstMode_genuine) (fun _ l => by cases l <;> rfl) (histScaled_scale_dt _ _ _ _) toyState

/-! ### histories WITH filters -/

/-- the constant field of the toy grid is its `l = 0` mode -/
theorem toyConstProj : ConstProj toyOps :=
  ⟨by decide, by decide +kernel, fun l => by simp [toyOps]⟩

/-- a stand-in for `exp` on `ℚ` with `ex 0 = 1` (second-order Taylor polynomial) -/
def toyEx : ℚ → ℚ := fun x => 1 + x + x * x / 2

/-- a three-step history with NON-TRIVIAL filters on the toy grid (total wavenumbers `0, 1`, radius `1`): an
 exponential and a diffusion step filter after the first step, an exponential filter with cutoff `1/2` and a
 first-order diffusion filter after the second, none after the third; the recorded arrays are the computed ones
 (`toyFHist_computed`) -/
def toyFHist : List (FEntry ℚ) :=
  [⟨.bfe, 1 / 10, [(.exponential (1 / 2) 1 0, [1, 41 / 50]), (.diffusion (1 / 2) 2, [1, 41 / 50])]⟩,
   ⟨.cnrk2, 1 / 5, [(.exponential (1 / 2) 2 (1 / 2), [1, 17 / 25]), (.diffusion (3 / 10) 1, [1, 5 / 9])]⟩,
   ⟨.bfe, 1 / 10, []⟩]

theorem toyFHist_computed : FEntry.Computed toyEx toyOps.radius [0, 1] toyFHist := by
  unfold FEntry.Computed; decide +kernel

theorem toyFHist_admissible : ∀ en ∈ toyFHist, ∀ fs ∈ en.filters, fs.1.Admissible := by decide +kernel

/-- the filter is not the identity: it changes the toy state (the `l = 1` coefficients are multiplied by `41/50`) … -/
example : (leafFilter (lMul toyOps [1, 41 / 50]) toyState).state.vorticity = [(0, 41 / 50), (0, -41 / 25)]
    ∧ (leafFilter (lMul toyOps [1, 41 / 50]) toyState).state.vorticity ≠ toyState.state.vorticity
    ∧ (leafFilter (lMul toyOps [1, 41 / 50]) toyState).state.logSurfacePressure = (11, 41 / 250)
    ∧ (leafFilter (lMul toyOps [1, 41 / 50]) toyState).simTime = toyState.simTime := by decide +kernel

/-- … `FilterScaled` holds for it (`wavenumber_filter_scaled`, all hypotheses instantiated) … -/
example : FilterScaled (Proper (V := StateWithTime ℚ (ℚ × ℚ))) (tmMap (actStateT toyG 13 toyOps.oneModal))
    (tmMap (leafFilter (lMul toyOps [1, 41 / 50]))) (tmMap (leafFilter (lMul (actOps toyG toyOps) [1, 41 / 50]))) :=
  wavenumber_filter_scaled toyProj toyConstProj _ rfl 13

/-- … and **T12.2 for a history WITH filters**: the cloud class on the toy problem (concrete inverses, all
 hypotheses instantiated); three steps, four non-trivial filters, change of all four units.  The scaling arrays
 under the other scale (`dt`, `tau` times `3`, radius times `2`) are the same arrays, and the filtered trajectory
 is the acted-upon filtered trajectory -/
example :
    FEntry.Computed toyEx (actEq toyG toyEq).ops.radius [0, 1] (FEntry.act toyG toyFHist)
      ∧ (∀ en ∈ toyFHist, ∀ fs ∈ en.filters, fs.2.length = toyOps.nL)
      ∧ Invariants.runHistory (Invariants.peImEx .cloud (actEq toyG toyEq) (fun _ _ => actInverse toyG 2 eye5))
            (FEntry.toHist (actEq toyG toyEq).ops (FEntry.act toyG toyFHist))
            (Invariants.TM.val (actStateT toyG 13 toyOps.oneModal toyState))
          = (Invariants.runHistory (Invariants.peImEx .cloud toyEq (fun _ _ => eye5))
              (FEntry.toHist toyOps toyFHist) (Invariants.TM.val toyState)).map
              (tmMap (actStateT toyG 13 toyOps.oneModal)) :=
  pe_history_commutes_step_filters toyEq toyG_valid toyLaws toyProj toyConstProj .cloud 13 2 rfl (fun _ _ => eye5)
    (fun _ _ => actInverse toyG 2 eye5) (fun _ => invScaled_of_actInverse toyG_valid 2 _) (fun _ => toyConstMode)
    (fun _ _ => rfl) toyEx (by norm_num [toyEx]) [1] rfl toyFHist toyFHist_admissible toyFHist_computed toyState

/-- the same with the genuine inverse at `η = 1/10`: one filtered Euler step -/
example :
    Invariants.runHistory (Invariants.peImEx .cloud (actEq toyG toyEq) (fun _ l => actInverse toyG 2 (toyInv l)))
        (FEntry.toHist (actEq toyG toyEq).ops (FEntry.act toyG (toyFHist.take 1)))
        (Invariants.TM.val (actStateT toyG 13 toyOps.oneModal toyState))
      = (Invariants.runHistory (Invariants.peImEx .cloud toyEq (fun _ => toyInv))
          (FEntry.toHist toyOps (toyFHist.take 1)) (Invariants.TM.val toyState)).map
          (tmMap (actStateT toyG 13 toyOps.oneModal)) :=
  (pe_history_commutes_step_filters toyEq toyG_valid toyLaws toyProj toyConstProj .cloud 13 2 rfl (fun _ => toyInv)
    (fun _ l => actInverse toyG 2 (toyInv l)) (fun _ => invScaled_of_actInverse toyG_valid 2 _)
    (fun _ => toyConstMode_genuine) (fun _ l => by cases l <;> rfl) toyEx (by norm_num [toyEx]) [1] rfl
    (toyFHist.take 1) (by decide +kernel) (by unfold FEntry.Computed; decide +kernel) toyState).2.2

/-- the vorticity of the final state of a run -/
def vortOf : Option (Invariants.TM (StateWithTime ℚ (ℚ × ℚ))) → List (ℚ × ℚ)
  | some (.val s) => s.state.vorticity
  | _ => []

/-- the filters really act along that trajectory: the filtered and the unfiltered Euler step (genuine inverse) end
 in different states -/
theorem toy_filters_change_the_trajectory :
    vortOf (Invariants.runHistory (Invariants.peImEx .cloud toyEq (fun _ => toyInv))
        (FEntry.toHist toyOps (toyFHist.take 1)) (Invariants.TM.val toyState))
      ≠ vortOf (Invariants.runHistory (Invariants.peImEx .cloud toyEq (fun _ => toyInv))
        [⟨.bfe, 1 / 10, []⟩] (Invariants.TM.val toyState))
    ∧ vortOf (Invariants.runHistory (Invariants.peImEx .cloud toyEq (fun _ => toyInv))
        (FEntry.toHist toyOps (toyFHist.take 1)) (Invariants.TM.val toyState)) ≠ [] := by
  decide +kernel

/-- NEGATIVE WITNESS (indexed): the two admissibility conditions are needed.  With a negative cutoff the
 exponential step filter damps the constant mode (factor `761/800` at `l = 0`), with `order = 0` the diffusion
 filter does (factor `41/50`); such a filter does not commute with the change of units, because that adds a
 constant to `ln p_s`: the filtered `ln p_s` of the acted-upon state differs from the acted-upon filtered one -/
theorem negative_cutoff_breaks_filter :
    (StepFilter.exponential (1 / 2 : ℚ) 1 (-1)).scaling toyEx (1 / 10) 1 [0, 1] = some [761 / 800, 41 / 50]
    ∧ (StepFilter.diffusion (1 / 2 : ℚ) 0).scaling toyEx (1 / 10) 1 [0, 1] = some [41 / 50, 41 / 50]
    ∧ (leafFilter (lMul toyOps [761 / 800, 41 / 50]) (actStateT toyG 13 toyOps.oneModal toyState)).state.logSurfacePressure
        ≠ (actStateT toyG 13 toyOps.oneModal (leafFilter (lMul toyOps [761 / 800, 41 / 50]) toyState)).state.logSurfacePressure
    ∧ (leafFilter (lMul toyOps [41 / 50, 41 / 50]) (actStateT toyG 13 toyOps.oneModal toyState)).state.logSurfacePressure
        ≠ (actStateT toyG 13 toyOps.oneModal (leafFilter (lMul toyOps [41 / 50, 41 / 50]) toyState)).state.logSurfacePressure := by
  decide +kernel

/-- `LeafLinear` has content beyond multipliers of `l`: a map that is linear but moves the constant mode is not
 allowed (`φ (a₀, a₁) = (a₀ / 2, a₁)`) -/
example : ¬ LeafLinear ℚ (fun a : ℚ × ℚ => (a.1 / 2, a.2)) toyOps.oneModal := by
  intro h
  have := h.map_one
  revert this
  decide +kernel

/-- `InvScaled` is satisfiable: for any family of inverses, the scaled family of `actInverse` -/
example (inv : ℕ → List (List ℚ)) : InvScaled toyG 2 inv (fun l => actInverse toyG 2 (inv l)) :=
  invScaled_of_actInverse toyG_valid 2 inv

/-- T12.0: the number of `g = 9.80616 m s⁻²` under the default-like scale `a` and under `b` -/
example : (Scale.ofUnits (⟨6371220, 6857, 1, 1⟩ : Scale ℚ) ⟨1000, 60, 1, 1⟩).w [1, -2]
    = (6371220 / 1000) * ((6857 / 60 : ℚ))⁻¹ ^ 2 := by
  norm_num [w_eq, Scale.ofUnits, Units.dget]

/-- T12.2: scalar problem `F x = λ x`, `G x = μ x` with `A = T = (k · )` — hypotheses are satisfiable and the
 conclusion is the familiar `z = λ dt` invariance -/
example (k lam mu t : ℚ) (ht : t ≠ 0) :
    let e : Imex.ImEx ℚ ℚ := ⟨fun x => lam * x, fun x => mu * x, fun x η => x / (1 - η * mu)⟩
    let e' : Imex.ImEx ℚ ℚ := ⟨fun x => lam / t * x, fun x => mu / t * x, fun x η => x / (1 - η * (mu / t))⟩
    ∀ dt u, Imex.cnrk2 e' (t * dt) (k * u) = k * Imex.cnrk2 e dt u := by
  intro e e' dt u
  have L : ActionLaws t (fun x : ℚ => k * x) (fun x : ℚ => k / t * x) :=
    ⟨fun x η y => by simp only [smul_eq_mul]; field_simp, fun x y => by ring, fun c x => by simp only [smul_eq_mul]; ring⟩
  have I : Intertwined t (fun x : ℚ => k * x) (fun x : ℚ => k / t * x) e e' :=
    ⟨fun x => by simp only [e, e']; ring, fun x => by simp only [e, e']; ring,
     fun x η => by
       simp only [e, e']
       have : t * η * (mu / t) = η * mu := by field_simp
       rw [this, mul_div_assoc]⟩
  exact step_cnrk2_commutes L I dt u

end examples

end Dino.C12
