import Dino.Attrs
/-!
C19, first clause: "a coordinate system serialised to dataset attributes is reconstructed with the same
discretisation" — theorems about the model `Dino.Attrs` of `asdict` / `coordinate_system_from_attrs`
(core Lean only; no Mathlib needed).
-/
namespace Dino.C19
open Dino Dino.Attrs

variable {K : Type}

/-- The key-collision branch of `CoordinateSystem.asdict` is unreachable: serialisation always succeeds
when there is a vertical coordinate, for every grid and every vertical coordinate. -/
theorem attrs_asdict_ok (h : Grid K) (v : Vert K) :
    ∃ a, (CS.asdict { h, v := some v }) = .ok a := by
  cases v <;> exact ⟨_, by simp [CS.asdict, keys, Grid.asdict, Vert.asdict]; rfl⟩

/-- ROUND TRIP, every grid, every vertical coordinate the constructors accept: the attributes written by
`asdict` are read back as the same discretisation (all seven grid fields, the vertical class and its
levels); only the transform implementation and the device mesh are forgotten. -/
theorem attrs_roundtrip (chk : Chk K) (fixed : Bool) (h : Grid K) (v : Vert K)
    (hh : h.valid = true) (hv : v.valid chk = true) :
    (CS.asdict { h, v := some v }) >>= fromAttrs chk fixed
      = .ok { h := h.discretisation, v := some v } := by
  have hm : h.spacing ∈ spacings := by simpa [Grid.valid] using hh
  cases v with
  | sigma b =>
    simp only [Vert.valid] at hv
    simp [CS.asdict, keys, Grid.asdict, Vert.asdict, merge, Attrs.set, Vert.typeName, bind, Except.bind,
      fromAttrs, look, gridFromAttrs, getInt, vertFromAttrs, Grid.discretisation, hm]
    split at hv <;> simp_all
  | layer n =>
    simp [CS.asdict, keys, Grid.asdict, Vert.asdict, merge, Attrs.set, Vert.typeName, bind, Except.bind,
      fromAttrs, look, gridFromAttrs, getInt, vertFromAttrs, Grid.discretisation, hm]
  | pressure c =>
    simp only [Vert.valid] at hv
    simp [CS.asdict, keys, Grid.asdict, Vert.asdict, merge, Attrs.set, Vert.typeName, bind, Except.bind,
      fromAttrs, look, gridFromAttrs, getInt, vertFromAttrs, Grid.discretisation, hm, hv]

#print axioms attrs_roundtrip
end Dino.C19
