import Dino.Attrs
/-!
C19, first clause: "a coordinate system serialised to dataset attributes is reconstructed with the same
discretisation" — theorems about the model `Dino.Attrs` of `asdict` / `coordinate_system_from_attrs`
(core Lean only; no Mathlib needed).
-/
namespace Dino.C19
open Dino Dino.Attrs

variable {K : Type}

/-- The key-collision branch of `CoordinateSystem.asdict` is unreachable: serialisation always succeeds
when there is a vertical coordinate, for every grid and every vertical coordinate. -/
theorem attrs_asdict_ok (h : Grid K) (v : Vert K) :
    ∃ a, (CS.asdict { h, v := some v }) = .ok a := by
  cases v <;> exact ⟨_, by simp [CS.asdict, keys, Grid.asdict, Vert.asdict]; rfl⟩

/-- ROUND TRIP, every grid, every vertical coordinate the constructors accept: the attributes written by
`asdict` are read back as the same discretisation (all seven grid fields, the vertical class and its
levels); only the transform implementation and the device mesh are forgotten. -/
theorem attrs_roundtrip (chk : Chk K) (fixed : Bool) (h : Grid K) (v : Vert K)
    (hh : h.valid = true) (hv : v.valid chk = true) :
    (CS.asdict { h, v := some v }) >>= fromAttrs chk fixed
      = .ok { h := h.discretisation, v := some v } := by
  have hm : h.spacing ∈ spacings := by simpa [Grid.valid] using hh
  cases v with
  | sigma b =>
    simp only [Vert.valid] at hv
    simp [CS.asdict, keys, Grid.asdict, Vert.asdict, merge, Attrs.set, Vert.typeName, bind, Except.bind,
      fromAttrs, look, gridFromAttrs, getInt, vertFromAttrs, Grid.discretisation, hm]
    split at hv <;> simp_all
  | layer n =>
    simp [CS.asdict, keys, Grid.asdict, Vert.asdict, merge, Attrs.set, Vert.typeName, bind, Except.bind,
      fromAttrs, look, gridFromAttrs, getInt, vertFromAttrs, Grid.discretisation, hm]
  | pressure c =>
    simp only [Vert.valid] at hv
    simp [CS.asdict, keys, Grid.asdict, Vert.asdict, merge, Attrs.set, Vert.typeName, bind, Except.bind,
      fromAttrs, look, gridFromAttrs, getInt, vertFromAttrs, Grid.discretisation, hm, hv]

#print axioms attrs_roundtrip

/-- ROUND TRIP THROUGH NetCDF ATTRIBUTES (a one-element list comes back as a scalar), repaired code
(`fixed = true`): still the same discretisation, for every grid and every accepted vertical coordinate,
including a single pressure level.  `hsig`: no number is close to both 0 and 1 (true of `np.isclose`). -/
theorem attrs_roundtrip_netcdf (chk : Chk K) (h : Grid K) (v : Vert K)
    (hsig : ∀ x, ¬ (chk.close0 x = true ∧ chk.close1 x = true))
    (hh : h.valid = true) (hv : v.valid chk = true) :
    ((CS.asdict { h, v := some v }).map nc) >>= fromAttrs chk true
      = .ok { h := h.discretisation, v := some v } := by
  have hm : h.spacing ∈ spacings := by simpa [Grid.valid] using hh
  cases v with
  | sigma b =>
    simp only [Vert.valid] at hv
    match b, hv with
    | [], hv => simp at hv
    | [x], hv => exact absurd (by simpa [increasing] using hv) (hsig x)
    | x :: y :: r, hv =>
      simp [CS.asdict, keys, Grid.asdict, Vert.asdict, merge, Attrs.set, Vert.typeName, bind, Except.bind,
        Except.map, nc, ncVal, fromAttrs, look, gridFromAttrs, getInt, vertFromAttrs, Grid.discretisation, hm]
      split at hv <;> simp_all
  | layer n =>
    simp [CS.asdict, keys, Grid.asdict, Vert.asdict, merge, Attrs.set, Vert.typeName, bind, Except.bind,
      Except.map, nc, ncVal, fromAttrs, look, gridFromAttrs, getInt, vertFromAttrs, Grid.discretisation, hm]
  | pressure c =>
    simp only [Vert.valid] at hv
    match c, hv with
    | [], hv | [x], hv | x :: y :: r, hv =>
      simp [CS.asdict, keys, Grid.asdict, Vert.asdict, merge, Attrs.set, Vert.typeName, bind, Except.bind,
        Except.map, nc, ncVal, fromAttrs, look, gridFromAttrs, getInt, vertFromAttrs, Grid.discretisation, hm, hv]

/-- NEGATIVE WITNESS for the code before repository commit 55ef2a8 (`fixed = false`): a single pressure level
does not survive the NetCDF round trip, for every grid and every level value. -/
theorem old_attrs_netcdf_single_pressure_level_fails (chk : Chk K) (h : Grid K) (x : K) (hh : h.valid = true) :
    ((CS.asdict { h, v := some (.pressure [x]) }).map nc) >>= fromAttrs chk false = .error .valueError := by
  have hm : h.spacing ∈ spacings := by simpa [Grid.valid] using hh
  simp [CS.asdict, keys, Grid.asdict, Vert.asdict, merge, Attrs.set, Vert.typeName, bind, Except.bind,
    Except.map, nc, ncVal, fromAttrs, look, gridFromAttrs, getInt, vertFromAttrs, hm]

#print axioms attrs_roundtrip_netcdf
end Dino.C19
