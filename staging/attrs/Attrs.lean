import Dino.Util
/-!
Model of the serialisation of a coordinate system to dataset attributes and back (C19):

* `spherical_harmonic.Grid.asdict`, `SigmaCoordinates.asdict`, `PressureCoordinates.asdict`,
  `LayerCoordinates.asdict`, `coordinate_systems.CoordinateSystem.asdict` (key-collision check, merge, the two
  type keys);
* `xarray_utils.coordinate_system_from_attrs` with `GRID_REGISTRY` (lookup of the class by name, one
  `attrs[f.name]` per dataclass field — a missing key is a `KeyError` —, the implementation and mesh entries are
  required to be present and then dropped, constructors with their validation);
* what NetCDF does to attributes on the way: a one-element list comes back as a scalar (`nc`).

Attribute dictionaries are association lists with Python's update semantics (`set` replaces the value of an
existing key in place, else appends); values are Python ints, floats (`K`), strings and float lists.
-/
namespace Dino.Attrs
open Dino

inductive AVal (K : Type) where
  | int (n : Int)
  | num (x : K)
  | str (s : String)
  | nums (xs : List K)
deriving Repr

abbrev Attrs (K : Type) := List (String × AVal K)

inductive Err where
  | keyError | valueError | typeError | attrError
deriving Repr, DecidableEq

variable {K : Type}

def look (a : Attrs K) (k : String) : Option (AVal K) := (a.find? (fun p => p.1 == k)).map (·.2)

/-- `d[k] = v` -/
def set (a : Attrs K) (k : String) (v : AVal K) : Attrs K :=
  if a.any (fun p => p.1 == k) then a.map (fun p => if p.1 == k then (k, v) else p) else a ++ [(k, v)]

/-- `{**a, **b}` -/
def merge (a b : Attrs K) : Attrs K := b.foldl (fun acc p => set acc p.1 p.2) a

def keys (a : Attrs K) : List String := a.map (·.1)

/-- `Grid` after `__post_init__` (`radius=None` has become `1.0`); `impl` is the class name of
`spherical_harmonics_impl`, `mesh` the serialised `spmd_mesh` (`''` when there is none). -/
structure Grid (K : Type) where
  lw : Int
  tw : Int
  lonN : Int
  latN : Int
  spacing : String
  lonOffset : K
  radius : K
  impl : String
  mesh : String
deriving Repr

inductive Vert (K : Type) where
  | sigma (boundaries : List K)
  | layer (layers : Int)
  | pressure (centers : List K)
deriving Repr

structure CS (K : Type) where
  h : Grid K
  v : Option (Vert K)
deriving Repr

def spacings : List String := ["gauss", "equiangular", "equiangular_with_poles"]
def defaultImpl : String := "RealSphericalHarmonics"

def Grid.asdict (g : Grid K) : Attrs K :=
  [("longitude_wavenumbers", .int g.lw), ("total_wavenumbers", .int g.tw),
   ("longitude_nodes", .int g.lonN), ("latitude_nodes", .int g.latN),
   ("latitude_spacing", .str g.spacing), ("longitude_offset", .num g.lonOffset),
   ("radius", .num g.radius), ("spherical_harmonics_impl", .str g.impl), ("spmd_mesh", .str g.mesh)]

def Vert.asdict : Vert K → Attrs K
  | .sigma b => [("boundaries", .nums b)]
  | .layer n => [("layers", .int n)]
  | .pressure c => [("centers", .nums c)]

def Vert.typeName : Vert K → String
  | .sigma _ => "SigmaCoordinates"
  | .layer _ => "LayerCoordinates"
  | .pressure _ => "PressureCoordinates"

/-- `CoordinateSystem.asdict` -/
def CS.asdict (c : CS K) : Except Err (Attrs K) :=
  match c.v with
  | none => .error .attrError
  | some v =>
    let hk := keys c.h.asdict
    let vk := keys v.asdict
    if hk.any (fun k => vk.contains k) then .error .valueError else
    let out := merge c.h.asdict v.asdict
    let out := set out "horizontal_grid_type" (.str "Grid")
    .ok (set out "vertical_grid_type" (.str v.typeName))

/-- the validation the constructors perform, with the comparisons as data: `close0` / `close1` are
`np.isclose(·, 0)` / `np.isclose(·, 1)`, `lt` is `<` on the floats -/
structure Chk (K : Type) where
  close0 : K → Bool
  close1 : K → Bool
  lt : K → K → Bool

def increasing (chk : Chk K) : List K → Bool
  | [] => true
  | [_] => true
  | x :: y :: r => chk.lt x y && increasing chk (y :: r)

def getInt (a : Attrs K) (k : String) : Except Err Int :=
  match look a k with
  | none => .error .keyError
  | some (.int n) => .ok n
  | some _ => .error .typeError

/-- the constructor of `Grid` fed with the nine looked-up fields, two of which are dropped -/
def gridFromAttrs (a : Attrs K) : Except Err (Grid K) := do
  let lw ← getInt a "longitude_wavenumbers"
  let tw ← getInt a "total_wavenumbers"
  let lonN ← getInt a "longitude_nodes"
  let latN ← getInt a "latitude_nodes"
  let sp ← match look a "latitude_spacing" with
    | none => .error .keyError | some (.str s) => .ok s | some _ => .error .valueError
  let off ← match look a "longitude_offset" with
    | none => .error .keyError | some (.num x) => .ok x | some _ => .error .typeError
  let r ← match look a "radius" with
    | none => .error .keyError | some (.num x) => .ok x | some _ => .error .typeError
  let _ ← match look a "spherical_harmonics_impl" with
    | none => .error .keyError | some _ => .ok ()
  let _ ← match look a "spmd_mesh" with
    | none => .error .keyError | some _ => (.ok () : Except Err Unit)
  if spacings.contains sp then
    .ok { lw, tw, lonN, latN, spacing := sp, lonOffset := off, radius := r, impl := defaultImpl, mesh := "" }
  else .error .valueError

/-- `fixed = true`: `PressureCoordinates.__init__` applies `np.atleast_1d` (repository commit 55ef2a8);
`fixed = false` is the code before it, for which `np.diff` of a 0-d array raises. -/
def vertFromAttrs (chk : Chk K) (fixed : Bool) (a : Attrs K) (ty : String) : Except Err (Vert K) :=
  if ty = "SigmaCoordinates" then
    match look a "boundaries" with
    | none => .error .keyError
    | some (.nums b) =>
      match b.head?, b.getLast? with
      | some x, some y =>
        if chk.close0 x && chk.close1 y && increasing chk b then .ok (.sigma b) else .error .valueError
      | _, _ => .error .valueError
    | some _ => .error .valueError
  else if ty = "LayerCoordinates" then
    match look a "layers" with
    | none => .error .keyError
    | some (.int n) => .ok (.layer n)
    | some _ => .error .typeError
  else if ty = "PressureCoordinates" then
    match look a "centers" with
    | none => .error .keyError
    | some (.nums c) => if increasing chk c then .ok (.pressure c) else .error .valueError
    | some (.num x) => if fixed then .ok (.pressure [x]) else .error .valueError
    | some _ => .error .valueError
  else .error .keyError   -- not a vertical class of GRID_REGISTRY

/-- `xarray_utils.coordinate_system_from_attrs` -/
def fromAttrs (chk : Chk K) (fixed : Bool) (a : Attrs K) : Except Err (CS K) :=
  match look a "horizontal_grid_type" with
  | some (.str "Grid") => do
    let h ← gridFromAttrs a
    match look a "vertical_grid_type" with
    | none => .ok { h, v := none }
    | some (.str ty) => do
      let v ← vertFromAttrs chk fixed a ty
      .ok { h, v := some v }
    | some _ => .error .keyError
  | none => .error .keyError
  | some _ => .error .keyError

/-- NetCDF attribute storage: a one-element list is read back as a scalar -/
def ncVal : AVal K → AVal K
  | .nums [x] => .num x
  | v => v

def nc (a : Attrs K) : Attrs K := a.map (fun p => (p.1, ncVal p.2))

/-- what the constructors accept -/
def Vert.valid (chk : Chk K) : Vert K → Bool
  | .sigma b => match b.head?, b.getLast? with
    | some x, some y => chk.close0 x && chk.close1 y && increasing chk b
    | _, _ => false
  | .layer _ => true
  | .pressure c => increasing chk c

def Grid.valid (g : Grid K) : Bool := spacings.contains g.spacing

/-- the reconstruction forgets the transform implementation and the device mesh -/
def Grid.discretisation (g : Grid K) : Grid K := { g with impl := defaultImpl, mesh := "" }

end Dino.Attrs
