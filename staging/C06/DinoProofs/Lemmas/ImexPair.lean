import DinoProofs.Lemmas.Imex

/-! Helper lemmas for C06, second part: the low-storage schemes, the Euler pair and CN–RK2 as
additive (IMEX) Runge–Kutta methods of an explicit/implicit Butcher pair; DIRK stage equations;
bivariate polynomial arithmetic for the joint Taylor defect of the low-storage schemes. -/
namespace Dino.Imex

variable {K V : Type} [Field K] [AddCommGroup V] [Module K V]

/-! ### more about `wsumSpec` -/

theorem wsumSpec_append_left (r extra : List K) (fs : List V) (h : r.length = fs.length) :
    wsumSpec (r ++ extra) fs = wsumSpec r fs := by
  have := wsumSpec_append r extra fs [] h
  simpa using this

theorem wsumSpec_padd (p q : List K) (fs : List V) (h : p.length = q.length) :
    wsumSpec (padd p q) fs = wsumSpec p fs + wsumSpec q fs := by
  induction p generalizing q fs with
  | nil => cases q <;> simp_all [padd]
  | cons a t ih =>
    cases q with
    | nil => simp at h
    | cons b t2 =>
      cases fs with
      | nil => simp
      | cons f fs =>
        have := ih t2 fs (by simpa using h)
        simp only [wsumSpec, padd, List.zipWith_cons_cons, List.sum_cons] at this ⊢
        rw [this, add_smul]; abel

theorem wsumSpec_replicate_zero (n : Nat) (fs : List V) :
    wsumSpec (List.replicate n (0 : K)) fs = 0 := by
  induction n generalizing fs with
  | zero => simp
  | succ n ih =>
    cases fs with
    | nil => simp
    | cons f fs =>
      have := ih fs
      simp only [wsumSpec, List.replicate_succ, List.zipWith_cons_cons, List.sum_cons] at this ⊢
      rw [this]; simp

theorem wsumSpec_replicate_zero_append (n : Nat) (w : K) (gs0 : List V) (g : V) (h : gs0.length = n) :
    wsumSpec (List.replicate n 0 ++ [w]) (gs0 ++ [g]) = w • g := by
  rw [wsumSpec_append _ _ _ _ (by simp [h]), wsumSpec_singleton, wsumSpec_replicate_zero, zero_add]

theorem padd_length_of_eq (p q : List K) (h : p.length = q.length) : (padd p q).length = p.length := by
  induction p generalizing q with
  | nil => cases q <;> simp_all [padd]
  | cons a t ih =>
    cases q with
    | nil => simp at h
    | cons b t2 => simp [padd, ih t2 (by simpa using h)]

/-- index form of `wsumSpec`: only the common prefix contributes, whatever the length of the row -/
theorem wsumSpec_eq_range_sum (row : List K) (gs : List V) :
    wsumSpec row gs = ((List.range gs.length).map fun j => row.getD j 0 • gs.getD j 0).sum := by
  induction gs generalizing row with
  | nil => simp
  | cons g gs ih =>
    cases row with
    | nil => simp
    | cons a r =>
      have := ih r
      simp only [wsumSpec, List.zipWith_cons_cons, List.sum_cons] at this ⊢
      rw [this, List.length_cons, List.range_succ_eq_map, List.map_cons, List.sum_cons, List.map_map]
      simp [Function.comp_def]

/-! ### the Crank–Nicolson rows -/

/-- every Crank–Nicolson sub-step resolvent of the low-storage scheme satisfies its contract -/
def cnResolvents (e : ImEx K V) (dt : K) : List K → Prop
  | a0 :: a1 :: as => IsResolventAt e (half * dt * (a1 - a0)) ∧ cnResolvents e dt (a1 :: as)
  | _ => True

theorem lsButcherLoop_rows_head (βs γs uc hc : List K) :
    (lsButcherLoop βs γs uc hc).1 ++ [(lsButcherLoop βs γs uc hc).2]
      = uc :: ((lsButcherLoop βs γs uc hc).1 ++ [(lsButcherLoop βs γs uc hc).2]).tail := by
  unfold lsButcherLoop
  split <;> simp

/-- one stage of the low-storage recursion is one stage of the additive Runge–Kutta method with
 the rows `(uc', row)`; general `F`, general (not necessarily linear) `G` -/
theorem lsrkLoop_eq_stages_aux (nz : K → Bool) (hnz : ∀ a, nz a = false → a = 0)
    (e : ImEx K V) (dt : K) (y0 : V) :
    ∀ (βs γs αs : List K) (fs0 gs0 : List V) (uc hc prev : List K) (u h : V),
      αs.length = βs.length + 1 → γs.length = βs.length →
      uc.length = fs0.length → hc.length = fs0.length → gs0.length = fs0.length →
      prev.length = gs0.length + 1 →
      u = y0 + dt • wsumSpec uc fs0 + dt • wsumSpec prev (gs0 ++ [e.G u]) → h = wsumSpec hc fs0 →
      cnResolvents e dt αs →
      lsrkLoop e dt αs βs γs u h
        = y0 + dt • wsum nz ((lsButcherLoop βs γs uc hc).2 ++ [0])
              (stages nz e dt y0
                ((lsButcherLoop βs γs uc hc).1 ++ [(lsButcherLoop βs γs uc hc).2]).tail
                (cnRows αs prev) (fs0 ++ [e.F u]) (gs0 ++ [e.G u])).1
            + dt • wsum nz ((prev :: cnRows αs prev).getLastD [])
              (stages nz e dt y0
                ((lsButcherLoop βs γs uc hc).1 ++ [(lsButcherLoop βs γs uc hc).2]).tail
                (cnRows αs prev) (fs0 ++ [e.F u]) (gs0 ++ [e.G u])).2 := by
  intro βs
  induction βs with
  | nil =>
    intro γs αs fs0 gs0 uc hc prev u h hα hγ huc _ _ _ hu _ _
    match αs, γs, hα, hγ with
    | [a], [], _, _ =>
      simp only [lsrkLoop, lsButcherLoop, cnRows, stages, List.nil_append, List.tail_cons,
        List.getLastD_cons, List.getLastD_nil]
      rw [wsum_eq_spec nz hnz, wsum_eq_spec nz hnz, wsumSpec_append _ _ _ _ huc, wsumSpec_singleton,
        zero_smul, add_zero]
      exact hu
  | cons b bs ih =>
    intro γs αs fs0 gs0 uc hc prev u h hα hγ huc hhc hgs hprev hu hh hres
    match αs, γs, hα, hγ with
    | a0 :: a1 :: as, c :: cs, hα, hγ =>
      obtain ⟨hr, hres'⟩ := hres
      -- the new coefficient rows
      have hhc'len : (hc.map (b * ·) ++ [1]).length = (fs0 ++ [e.F u]).length := by simp [hhc]
      have huc'len : (List.zipWith (· + ·) (uc ++ [0]) ((hc.map (b * ·) ++ [1]).map (c * ·))).length
          = (fs0 ++ [e.F u]).length := by simp [huc, hhc]
      -- (1) the new `h`
      have h1 : e.F u + b • h = wsumSpec (hc.map (b * ·) ++ [1]) (fs0 ++ [e.F u]) := by
        rw [wsumSpec_append _ _ _ _ (by simp [hhc]), wsumSpec_map_mul, wsumSpec_singleton, hh]
        module
      -- (2) the explicit part of the new stage
      have h2 : wsumSpec (List.zipWith (· + ·) (uc ++ [0]) ((hc.map (b * ·) ++ [1]).map (c * ·)))
            (fs0 ++ [e.F u]) = wsumSpec uc fs0 + c • (e.F u + b • h) := by
        rw [wsumSpec_zipWith_add _ _ _ (by simp [huc, hhc]), wsumSpec_map_mul,
          wsumSpec_append _ _ _ _ huc, wsumSpec_singleton, ← h1]
        module
      -- (3) the implicit row
      have hpl : (List.replicate (prev.length - 1) (0 : K) ++ [half * (a1 - a0)]).length = prev.length := by
        simp; omega
      have h3 : wsumSpec (padd prev (List.replicate (prev.length - 1) 0 ++ [half * (a1 - a0)])
              ++ [half * (a1 - a0)]) (gs0 ++ [e.G u])
            = wsumSpec prev (gs0 ++ [e.G u]) + (half * (a1 - a0)) • e.G u := by
        rw [wsumSpec_append_left _ _ _ (by rw [padd_length_of_eq _ _ hpl.symm]; simp [hprev]),
          wsumSpec_padd _ _ _ hpl.symm,
          wsumSpec_replicate_zero_append _ _ _ _ (by omega)]
      have h4 : (padd prev (List.replicate (prev.length - 1) 0 ++ [half * (a1 - a0)])
              ++ [half * (a1 - a0)]).getD (fs0 ++ [e.F u]).length 0 = half * (a1 - a0) := by
        have : (fs0 ++ [e.F u]).length
            = (padd prev (List.replicate (prev.length - 1) 0 ++ [half * (a1 - a0)])).length := by
          rw [padd_length_of_eq _ _ hpl.symm]; simp [hprev, hgs]
        rw [this]; simp
      have hη : dt * (half * (a1 - a0)) = half * dt * (a1 - a0) := by ring
      simp only [lsrkLoop, lsButcherLoop, cnRows]
      rw [List.cons_append, List.tail_cons, lsButcherLoop_rows_head]
      simp only [stages, wsum_eq_spec nz hnz]
      rw [h2, h3, h4, hη]
      -- the stage value of the tableau form is the new `u` of the recursion
      have hY : y0 + dt • (wsumSpec uc fs0 + c • (e.F u + b • h))
            + dt • (wsumSpec prev (gs0 ++ [e.G u]) + (half * (a1 - a0)) • e.G u)
          = u + (c * dt) • (e.F u + b • h) + (half * dt * (a1 - a0)) • e.G u := by
        have gen : ∀ U G1 H : V, U = y0 + dt • wsumSpec uc fs0 + dt • wsumSpec prev (gs0 ++ [e.G u]) →
            y0 + dt • (wsumSpec uc fs0 + c • H)
              + dt • (wsumSpec prev (gs0 ++ [e.G u]) + (half * (a1 - a0)) • G1)
            = U + (c * dt) • H + (half * dt * (a1 - a0)) • G1 := by
          rintro U G1 H rfl; module
        exact gen u _ _ hu
      rw [hY]
      -- invariant for the next stage, from the contract of the resolvent
      have hv := hr.right (u + (c * dt) • (e.F u + b • h) + (half * dt * (a1 - a0)) • e.G u)
      have key := ih cs (a1 :: as) (fs0 ++ [e.F u]) (gs0 ++ [e.G u])
        (List.zipWith (· + ·) (uc ++ [0]) ((hc.map (b * ·) ++ [1]).map (c * ·)))
        (hc.map (b * ·) ++ [1])
        (padd prev (List.replicate (prev.length - 1) 0 ++ [half * (a1 - a0)]) ++ [half * (a1 - a0)])
        (e.Ginv (u + (c * dt) • (e.F u + b • h) + (half * dt * (a1 - a0)) • e.G u)
          (half * dt * (a1 - a0)))
        (e.F u + b • h) (by simpa using hα) (by simpa using hγ) huc'len hhc'len (by simp [hgs])
        (by rw [List.length_append, padd_length_of_eq _ _ hpl.symm]; simp [hprev])
        ?_ h1 hres'
      · simp only [wsum_eq_spec nz hnz, List.getLastD_cons] at key ⊢
        rw [key]
      · -- `v = y0 + dt Σ uc' F + dt Σ row (G …, G v)`
        rw [wsumSpec_append _ _ _ _ (by rw [padd_length_of_eq _ _ hpl.symm]; simp [hprev]),
          wsumSpec_singleton, wsumSpec_padd _ _ _ hpl.symm,
          wsumSpec_replicate_zero_append _ _ _ _ (by omega), h2]
        have gen : ∀ U v G1 H : V, U = y0 + dt • wsumSpec uc fs0 + dt • wsumSpec prev (gs0 ++ [e.G u]) →
            v - (half * dt * (a1 - a0)) • e.G v
              = U + (c * dt) • H + (half * dt * (a1 - a0)) • G1 →
            v = y0 + dt • (wsumSpec uc fs0 + c • H)
              + dt • (wsumSpec prev (gs0 ++ [e.G u]) + (half * (a1 - a0)) • G1
                  + (half * (a1 - a0)) • e.G v) := by
          rintro U v G1 H rfl hv
          calc v = (v - (half * dt * (a1 - a0)) • e.G v) + (half * dt * (a1 - a0)) • e.G v := by abel
            _ = (y0 + dt • wsumSpec uc fs0 + dt • wsumSpec prev (gs0 ++ [e.G u]) + (c * dt) • H
                  + (half * dt * (a1 - a0)) • G1) + (half * dt * (a1 - a0)) • e.G v := by rw [hv]
            _ = _ := by module
        exact gen u _ _ _ hu hv

/-! ### lengths: the combined Butcher pair of a low-storage scheme passes the tableau validation -/

theorem lsButcherLoop_fst_length : ∀ (βs γs uc hc : List K), γs.length = βs.length →
    (lsButcherLoop βs γs uc hc).1.length = βs.length := by
  intro βs
  induction βs with
  | nil => intro γs uc hc h; cases γs <;> simp_all [lsButcherLoop]
  | cons b bs ih =>
    intro γs uc hc h
    match γs, h with
    | c :: cs, h => simp [lsButcherLoop, ih cs _ _ (by simpa using h)]

theorem lsButcherLoop_snd_length : ∀ (βs γs uc hc : List K), γs.length = βs.length →
    hc.length = uc.length → (lsButcherLoop βs γs uc hc).2.length = uc.length + βs.length := by
  intro βs
  induction βs with
  | nil => intro γs uc hc h _; cases γs <;> simp_all [lsButcherLoop]
  | cons b bs ih =>
    intro γs uc hc h hl
    match γs, h with
    | c :: cs, h =>
      simp only [lsButcherLoop]
      rw [ih cs _ _ (by simpa using h) (by simp [hl])]
      simp [hl]; omega

theorem cnRows_length : ∀ (n : Nat) (αs prev : List K), αs.length = n →
    (cnRows αs prev).length = n - 1 := by
  intro n
  induction n with
  | zero => intro αs prev h; cases αs <;> simp_all [cnRows]
  | succ n ih =>
    intro αs prev h
    match αs, h with
    | [a], h =>
      have hn : n = 0 := by simp at h; omega
      simp [cnRows, hn]
    | a0 :: a1 :: as, h =>
      simp only [cnRows, List.length_cons]
      rw [ih (a1 :: as) _ (by simpa using h)]
      simp at h; omega

theorem cnRows_last_length : ∀ (n : Nat) (αs prev : List K), αs.length = n → prev ≠ [] →
    ((prev :: cnRows αs prev).getLastD []).length = prev.length + (n - 1) := by
  intro n
  induction n with
  | zero => intro αs prev h _; cases αs <;> simp_all [cnRows]
  | succ n ih =>
    intro αs prev h hp
    match αs, h with
    | [a], h =>
      have hn : n = 0 := by simp at h; omega
      simp [cnRows, hn]
    | a0 :: a1 :: as, h =>
      simp only [cnRows, List.getLastD_cons]
      have hpl : (List.replicate (prev.length - 1) (0 : K) ++ [half * (a1 - a0)]).length = prev.length := by
        have : 0 < prev.length := List.length_pos_iff.2 hp
        simp; omega
      have := ih (a1 :: as)
        (padd prev (List.replicate (prev.length - 1) 0 ++ [half * (a1 - a0)]) ++ [half * (a1 - a0)])
        (by simpa using h) (by simp)
      simp only [List.getLastD_cons] at this
      rw [this, List.length_append, padd_length_of_eq _ _ hpl.symm]
      simp at h; simp; omega

/-! ### `cnChain` and the resolvent contract only look at `G`, `Ginv` -/

theorem cnChain_congr (e e' : ImEx K V) (hG : e'.G = e.G) (hI : e'.Ginv = e.Ginv) (dt : K) :
    ∀ (n : Nat) (αs : List K) (u : V), αs.length = n → cnChain e' dt αs u = cnChain e dt αs u := by
  intro n
  induction n with
  | zero => intro αs u h; cases αs <;> simp_all [cnChain]
  | succ n ih =>
    intro αs u h
    match αs, h with
    | [a], _ => simp [cnChain]
    | a0 :: a1 :: as, h =>
      simp only [cnChain, hG, hI]
      exact ih (a1 :: as) _ (by simpa using h)

theorem cnResolvents_congr (e e' : ImEx K V) (hG : e'.G = e.G) (hI : e'.Ginv = e.Ginv) (dt : K) :
    ∀ (n : Nat) (αs : List K), αs.length = n → cnResolvents e dt αs → cnResolvents e' dt αs := by
  intro n
  induction n with
  | zero => intro αs h _; cases αs <;> simp_all [cnResolvents]
  | succ n ih =>
    intro αs h hr
    match αs, h, hr with
    | [a], _, _ => simp [cnResolvents]
    | a0 :: a1 :: as, h, hr =>
      refine ⟨⟨?_, ?_⟩, ih (a1 :: as) (by simpa using h) hr.2⟩
      · intro x; rw [hG, hI]; exact hr.1.left x
      · intro x; rw [hG, hI]; exact hr.1.right x

/-! ### DIRK stage equations -/

/-- the stage values of the DIRK recursion; `Ys` = stages computed so far (`Y₀ = y₀` first) -/
def dirkYs (nz : K → Bool) (G : V → V) (Ginv : V → K → V) (dt : K) (y0 : V) :
    List (List K) → List V → List V
  | rim :: tim, Ys =>
    dirkYs nz G Ginv dt y0 tim
      (Ys ++ [Ginv (y0 + dt • wsum nz rim (Ys.map G)) (dt * rim.getD Ys.length 0)])
  | [], Ys => Ys

theorem dirkStages_eq_map (nz : K → Bool) (G : V → V) (Ginv : V → K → V) (dt : K) (y0 : V) :
    ∀ (tim : List (List K)) (Ys : List V),
      dirkStages nz G Ginv dt y0 tim (Ys.map G) = (dirkYs nz G Ginv dt y0 tim Ys).map G := by
  intro tim
  induction tim with
  | nil => intro Ys; simp [dirkStages, dirkYs]
  | cons rim tim ih =>
    intro Ys
    simp only [dirkStages, dirkYs, List.length_map]
    rw [← ih]
    simp

theorem getD_map_of_lt (G : V → V) (Ys : List V) (j : Nat) (h : j < Ys.length) :
    (Ys.map G).getD j 0 = G (Ys.getD j 0) := by
  simp [List.getD_eq_getElem?_getD, List.getElem?_eq_getElem h]

/-- every computed stage solves its stage equation
 `Y_i − dt·a_ii·G(Y_i) = y₀ + dt·Σ_{j<i} a_ij·G(Y_j)`; earlier stages are left untouched -/
theorem dirkYs_spec (nz : K → Bool) (hnz : ∀ a, nz a = false → a = 0) (e : ImEx K V) (dt : K) (y0 : V) :
    ∀ (tim : List (List K)) (Ys : List V),
      (∀ i (hi : i < tim.length), IsResolventAt e (dt * (tim[i]).getD (Ys.length + i) 0)) →
      (dirkYs nz e.G e.Ginv dt y0 tim Ys).length = Ys.length + tim.length ∧
      (∀ j, j < Ys.length → (dirkYs nz e.G e.Ginv dt y0 tim Ys).getD j 0 = Ys.getD j 0) ∧
      ∀ i (hi : i < tim.length),
        (dirkYs nz e.G e.Ginv dt y0 tim Ys).getD (Ys.length + i) 0
            - (dt * (tim[i]).getD (Ys.length + i) 0)
              • e.G ((dirkYs nz e.G e.Ginv dt y0 tim Ys).getD (Ys.length + i) 0)
          = y0 + dt • ((List.range (Ys.length + i)).map fun j =>
              (tim[i]).getD j 0 • e.G ((dirkYs nz e.G e.Ginv dt y0 tim Ys).getD j 0)).sum := by
  intro tim
  induction tim with
  | nil => intro Ys _; simp [dirkYs]
  | cons rim tim ih =>
    intro Ys hres
    simp only [dirkYs]
    obtain ⟨hlen, hpre, heq⟩ := ih
      (Ys ++ [e.Ginv (y0 + dt • wsum nz rim (Ys.map e.G)) (dt * rim.getD Ys.length 0)])
      (by
        intro i hi
        have := hres (i + 1) (by simpa using hi)
        simpa [Nat.add_assoc, Nat.add_comm 1 i] using this)
    generalize hR : dirkYs nz e.G e.Ginv dt y0 tim
        (Ys ++ [e.Ginv (y0 + dt • wsum nz rim (Ys.map e.G)) (dt * rim.getD Ys.length 0)]) = R
      at hlen hpre heq ⊢
    have hpre' : ∀ j, j < Ys.length → R.getD j 0 = Ys.getD j 0 := by
      intro j hj
      rw [hpre j (by simp; omega)]
      simp [List.getD_eq_getElem?_getD, List.getElem?_append_left hj]
    refine ⟨by rw [hlen]; simp; omega, hpre', ?_⟩
    intro i hi
    cases i with
    | zero =>
      have hY : R.getD Ys.length 0
          = e.Ginv (y0 + dt • wsum nz rim (Ys.map e.G)) (dt * rim.getD Ys.length 0) := by
        rw [hpre Ys.length (by simp)]
        simp [List.getD_eq_getElem?_getD]
      have hr := hres 0 (by simp)
      simp only [Nat.add_zero, List.getElem_cons_zero] at hr ⊢
      rw [hY, hr.right, wsum_eq_spec nz hnz, wsumSpec_eq_range_sum, List.length_map]
      refine congrArg (fun l => y0 + dt • List.sum l) (List.map_congr_left ?_)
      intro j hj
      have hj' : j < Ys.length := List.mem_range.1 hj
      rw [getD_map_of_lt _ _ _ hj', hpre' j hj']
    | succ i =>
      have := heq i (by simpa using hi)
      simp only [List.length_append, List.length_cons, List.length_nil, Nat.zero_add,
        List.getElem_cons_succ] at this ⊢
      have e1 : Ys.length + 1 + i = Ys.length + (i + 1) := by omega
      rw [e1] at this
      exact this

/-! ### bivariate polynomial arithmetic -/

theorem peval_pmul (p q : List K) (x : K) : peval (pmul p q) x = peval p x * peval q x := by
  induction p with
  | nil => simp [pmul, peval]
  | cons a p ih =>
    simp only [pmul, peval_padd, peval_pscale, peval_pshift, ih]
    simp only [peval, List.foldr_cons]
    ring

theorem p2eval_p2add (P Q : List (List K)) (x y : K) :
    p2eval (p2add P Q) x y = p2eval P x y + p2eval Q x y := by
  induction P generalizing Q with
  | nil => simp [p2add, p2eval]
  | cons p P ih =>
    cases Q with
    | nil => simp [p2add, p2eval]
    | cons q Q =>
      have := ih Q
      simp only [p2eval, p2add, List.foldr_cons, peval_padd] at this ⊢
      rw [this]; ring

theorem p2eval_p2scale (c : K) (P : List (List K)) (x y : K) :
    p2eval (p2scale c P) x y = c * p2eval P x y := by
  induction P with
  | nil => simp [p2scale, p2eval]
  | cons p P ih =>
    simp only [p2eval, p2scale, List.map_cons, List.foldr_cons, peval_pscale] at ih ⊢
    rw [ih]; ring

theorem p2eval_p2shiftX (P : List (List K)) (x y : K) :
    p2eval (p2shiftX P) x y = x * p2eval P x y := by
  simp [p2shiftX, p2eval, peval]

theorem p2eval_p2mulY (P : List (List K)) (d : List K) (x y : K) :
    p2eval (p2mulY P d) x y = p2eval P x y * peval d y := by
  induction P with
  | nil => simp [p2mulY, p2eval]
  | cons p P ih =>
    simp only [p2eval, p2mulY, List.map_cons, List.foldr_cons, peval_pmul] at ih ⊢
    rw [ih]; ring

/-- the coefficient tables evaluate to the division-free numerator/denominator of the amplification
 function, for all coefficient lists (the two recursions have the same shape) -/
theorem lsrkND_eq_poly (x y : K) :
    ∀ (βs αs γs : List K) (NU NH : List (List K)) (P : List K),
      lsrkND x y αs βs γs (p2eval NU x y) (p2eval NH x y) (peval P y)
        = (p2eval (lsrkNDPoly αs βs γs NU NH P).1 x y, peval (lsrkNDPoly αs βs γs NU NH P).2 y) := by
  intro βs
  induction βs with
  | nil =>
    intro αs γs NU NH P
    match αs, γs with
    | [], _ => simp [lsrkND, lsrkNDPoly]
    | [_], _ => simp [lsrkND, lsrkNDPoly]
    | _ :: _ :: _, [] => simp [lsrkND, lsrkNDPoly]
    | _ :: _ :: _, _ :: _ => simp [lsrkND, lsrkNDPoly]
  | cons b bs ih =>
    intro αs γs NU NH P
    match αs, γs with
    | [], _ => simp [lsrkND, lsrkNDPoly]
    | [_], _ => simp [lsrkND, lsrkNDPoly]
    | _ :: _ :: _, [] => simp [lsrkND, lsrkNDPoly]
    | a0 :: a1 :: as, c :: cs =>
      simp only [lsrkND, lsrkNDPoly]
      rw [← ih]
      congr 1
      · simp only [p2eval_p2add, p2eval_p2scale, p2eval_p2shiftX, p2eval_p2mulY, peval, List.foldr_cons,
          List.foldr_nil]
        ring
      · simp only [p2eval_p2add, p2eval_p2scale, p2eval_p2shiftX, p2eval_p2mulY, peval, List.foldr_cons,
          List.foldr_nil]
        ring
      · simp only [peval_pmul]
        simp only [peval, List.foldr_cons, List.foldr_nil]
        ring

end Dino.Imex
