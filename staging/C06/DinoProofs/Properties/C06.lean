import DinoProofs.Lemmas.Imex
import DinoProofs.Lemmas.ImexPair
import DinoGen.Tableaux
import Mathlib.Data.Complex.Basic
import Mathlib.Data.Rat.Cast.CharZero
import Mathlib.Tactic.NormNum
import Mathlib.Tactic.Positivity
import Mathlib.Tactic.Linarith

/-!
# C06 — IMEX integrators: reductions, Butcher form, amplification functions, order, stability,
validation

All statements are about the executable model `Dino.Imex` (tied to
`dinosaur/time_integration.py` by the correspondence check of `harness/props/C06.py`) and about
the coefficient tables `DinoGen.*` which `harness/gen/tableaux.py` regenerates from the source on
every run.  General statements hold for every field `K`, every `K`-module `V`, every explicit
part `F : V → V`, every stage count and every step size.

Not formalised (DESIGN §5): Butcher's theorem (rooted-tree conditions ⇒ order for every smooth
right-hand side).  T6.4 proves the conditions, T6.3 the Taylor match on linear problems.
-/
namespace Dino.C06
open Dino.Imex

/-! ## T6.6 validation of coefficient lengths -/

/-- the current check accepts exactly the consistent length triples -/
theorem lsrkAccepts_iff (na nb ng : Nat) :
    lsrkAccepts na nb ng = true ↔ na = nb + 1 ∧ nb = ng := by
  simp only [lsrkAccepts, Bool.and_eq_true, beq_iff_eq]
  omega

/-- negative witness for the check before commit 2616c50: the chained comparison accepted the
 lengths (5,3,3) (and the step function then silently ignored `α[4]`); the current check rejects -/
theorem chained_accepts_inconsistent :
    lsrkAcceptsOld 5 3 3 = true ∧ lsrkAccepts 5 3 3 = false := by decide

/-- the old check was strictly weaker: it accepted everything the new one accepts, and every
 triple with `nb = ng` or `na = nb + 1` -/
theorem lsrkAcceptsOld_iff (na nb ng : Nat) :
    lsrkAcceptsOld na nb ng = true ↔ (na = nb + 1 ∨ nb = ng) := by
  simp only [lsrkAcceptsOld, Bool.not_eq_true', Bool.and_eq_false_iff, bne_eq_false_iff_eq]
  omega

theorem eraseDups_length_le_one (p : Nat) (rest : List Nat) :
    (p :: rest).eraseDups.length ≤ 1 ↔ ∀ x ∈ rest, x = p := by
  rw [List.eraseDups_cons, List.length_cons]
  constructor
  · intro h x hx
    by_contra hne
    have hm : x ∈ rest.filter (fun b => !b == p) := by simp [List.mem_filter, hx, hne]
    cases hf : rest.filter (fun b => !b == p) with
    | nil => rw [hf] at hm; simp at hm
    | cons q t => rw [hf, List.eraseDups_cons] at h; simp at h
  · intro h
    have : rest.filter (fun b => !b == p) = [] := by
      rw [List.filter_eq_nil_iff]
      intro a ha
      simp [h a ha]
    rw [this]; simp

/-- a tableau is accepted exactly when the four top-level lengths are consistent -/
theorem tableauAccepts_iff (a b c d : Nat) :
    tableauAcceptsLens a b c d = true ↔ (a + 1 = b + 1 ∧ b + 1 = c ∧ c = d) := by
  unfold tableauAcceptsLens
  rw [Bool.not_eq_true', decide_eq_false_iff_not, not_lt, eraseDups_length_le_one]
  simp only [List.mem_cons, List.not_mem_nil, or_false, forall_eq_or_imp, forall_eq]
  omega

theorem composeAccepts_iff (fl : List Bool) :
    composeAccepts fl = true ↔ (fl.filter id).length = 1 := by
  simp [composeAccepts]

/-- `lsrk` is defined exactly on the consistent length triples -/
theorem lsrk_isSome_iff {K V : Type} [Field K] [AddCommGroup V] [Module K V]
    (e : ImEx K V) (dt : K) (αs βs γs : List K) :
    (lsrk e dt αs βs γs).isSome = true ↔ αs.length = βs.length + 1 ∧ βs.length = γs.length := by
  rw [← lsrkAccepts_iff]
  unfold lsrk
  split <;> simp_all

/-! ## T6.1 / T6.2 reductions, for every module `V`, every `F`, every stage count -/
section general
variable {K V : Type} [Field K] [AddCommGroup V] [Module K V]

/-- `G = 0` ⇒ forward Euler -/
theorem bfe_explicit (e : ImEx K V) (he : IsExplicit e) (dt : K) (u : V) :
    bfe e dt u = u + dt • e.F u := by
  simp [bfe, he.2]

/-- `F = 0` ⇒ backward Euler: the result solves `v − dt·G v = u` -/
theorem bfe_implicit (e : ImEx K V) (he : IsImplicit e) (dt : K) (hr : IsResolventAt e dt) (u : V) :
    bfe e dt u = e.Ginv u dt ∧ bfe e dt u - dt • e.G (bfe e dt u) = u := by
  have hF : ∀ x, e.F x = 0 := he
  have h : bfe e dt u = e.Ginv u dt := by simp [bfe, hF]
  exact ⟨h, by rw [h]; exact hr.right u⟩

/-- `G = 0` ⇒ Heun's second-order method -/
theorem cnrk2_explicit (e : ImEx K V) (he : IsExplicit e) (dt : K) (u : V) :
    cnrk2 e dt u = u + dt • ((half : K) • (e.F (u + dt • e.F u) + e.F u)) := by
  simp [cnrk2, he.1, he.2]

/-- `F = 0` ⇒ Crank–Nicolson: the result solves `v − ½dt·G v = u + ½dt·G u` -/
theorem cnrk2_implicit (e : ImEx K V) (he : IsImplicit e) (dt : K)
    (hr : IsResolventAt e (half * dt)) (u : V) :
    cnrk2 e dt u = e.Ginv (u + (half * dt) • e.G u) (half * dt) ∧
      cnrk2 e dt u - (half * dt) • e.G (cnrk2 e dt u) = u + (half * dt) • e.G u := by
  have hF : ∀ x, e.F x = 0 := he
  have h : cnrk2 e dt u = e.Ginv (u + (half * dt) • e.G u) (half * dt) := by simp [cnrk2, hF]
  exact ⟨h, by rw [h]; exact hr.right _⟩

/-- `G = 0` ⇒ the classical (explicit) leapfrog -/
theorem leapfrog_explicit (e : ImEx K V) (he : IsExplicit e) (dt α : K) (p c : V) :
    leapfrog e dt α (p, c) = (c, p + ((1 + 1) * dt) • e.F c) := by
  simp [leapfrog, he.1, he.2]

/-- `F = 0` ⇒ the two-level `α`-weighted implicit scheme over `2·dt`:
 `v − 2dt·α·G v = p + 2dt·(1−α)·G p` -/
theorem leapfrog_implicit (e : ImEx K V) (he : IsImplicit e) (dt α : K)
    (hr : IsResolventAt e ((1 + 1) * dt * α)) (p c : V) :
    (leapfrog e dt α (p, c)).1 = c ∧
      (leapfrog e dt α (p, c)).2 - ((1 + 1) * dt * α) • e.G (leapfrog e dt α (p, c)).2
        = p + ((1 + 1) * dt) • ((1 - α) • e.G p) := by
  have hF : ∀ x, e.F x = 0 := he
  refine ⟨rfl, ?_⟩
  simp only [leapfrog, hF, zero_add]
  exact hr.right _

/-- **T6.2** for every stage count: with `G = 0` the low-storage recursion is the explicit
 Runge–Kutta method whose Butcher tableau `(A, b)` is computed from `(β, γ)` -/
theorem lsrk_explicit_eq_butcher (e : ImEx K V) (he : IsExplicit e) (dt : K) (αs βs γs : List K)
    (hα : αs.length = βs.length + 1) (hγ : βs.length = γs.length) :
    lsrk e dt αs βs γs = some (erk e.F dt (lsButcherA βs γs) (lsButcherB βs γs)) := by
  unfold lsrk
  rw [if_pos ((lsrkAccepts_iff _ _ _).2 ⟨hα, hγ⟩)]
  congr 1
  funext u
  exact lsrkLoop_explicit_aux e he dt u βs γs αs [] [] [] u 0 hα hγ.symm rfl rfl (by simp) (by simp)

/-- with `F = 0` the low-storage scheme is the chain of Crank–Nicolson sub-steps of relative
 lengths `α[k+1] − α[k]`, whatever `β`, `γ` -/
theorem lsrk_implicit_eq_cnChain (e : ImEx K V) (he : IsImplicit e) (dt : K) (αs βs γs : List K)
    (hα : αs.length = βs.length + 1) (hγ : βs.length = γs.length) :
    lsrk e dt αs βs γs = some (cnChain e dt αs) := by
  unfold lsrk
  rw [if_pos ((lsrkAccepts_iff _ _ _).2 ⟨hα, hγ⟩)]
  congr 1
  funext u
  exact lsrkLoop_implicit_aux e he dt βs γs αs u hα hγ.symm

/-- each link of the chain is a Crank–Nicolson step over `(α[k+1] − α[k])·dt` -/
theorem cnChain_cons (e : ImEx K V) (dt a0 a1 : K) (hr : IsResolventAt e (half * dt * (a1 - a0)))
    (as : List K) (u : V) :
    ∃ v, cnChain e dt (a0 :: a1 :: as) u = cnChain e dt (a1 :: as) v ∧
      v - (half * dt * (a1 - a0)) • e.G v = u + (half * dt * (a1 - a0)) • e.G u :=
  ⟨_, rfl, hr.right _⟩

/-- `G = 0` ⇒ the explicit Runge–Kutta method of `(a_ex, b_ex)` (first row of `A` empty);
 skipping falsy coefficients is harmless as long as only zeros are falsy -/
theorem imexRK_explicit (nz : K → Bool) (hnz : ∀ a, nz a = false → a = 0) (e : ImEx K V)
    (he : IsExplicit e) (dt : K) (t : Tableau K) (hacc : t.accepts = true) :
    imexRK nz e dt t = some (erk e.F dt ([] :: t.aEx) t.bEx) := by
  unfold imexRK
  rw [if_pos hacc]
  congr 1
  funext y0
  have hl : t.aEx.length = t.aIm.length := by
    have := (tableauAccepts_iff _ _ _ _).1 hacc
    omega
  have h := stages_explicit_aux nz hnz e he dt y0 t.bEx t.aEx t.aIm [e.F y0] [e.G y0] hl
    (by simp [he.1])
  unfold imexRKStep
  simp only
  rw [wsum_eq_spec nz hnz t.bIm, wsumSpec_all_zero _ _ h.1, smul_zero, add_zero, h.2]
  simp [erk, erkLoop, wsum_true_eq_spec]

/-- `F = 0` ⇒ the diagonally implicit Runge–Kutta method of `(a_im, b_im)`, whatever
 `a_ex`, `b_ex` -/
theorem imexRK_implicit (nz : K → Bool) (hnz : ∀ a, nz a = false → a = 0) (e : ImEx K V)
    (he : IsImplicit e) (dt : K) (t : Tableau K) (hacc : t.accepts = true) :
    imexRK nz e dt t = some (dirk nz e.G e.Ginv dt t.aIm t.bIm) := by
  unfold imexRK
  rw [if_pos hacc]
  congr 1
  funext y0
  have hF : ∀ x, e.F x = 0 := he
  have hl : t.aEx.length = t.aIm.length := by
    have := (tableauAccepts_iff _ _ _ _).1 hacc
    omega
  have h := stages_implicit_aux nz hnz e he dt y0 t.aIm t.aEx [e.F y0] [e.G y0] hl
    (by simp [hF]) (by simp)
  unfold imexRKStep dirk
  simp only
  rw [wsum_eq_spec nz hnz t.bEx, wsumSpec_all_zero _ _ h.1, smul_zero, add_zero, h.2]

/-! ### time reversal (`TimeReversedImExODE`) and `compose_equations` -/

/-- a step of the time-reversed equation is a step of the forward equation with `−dt` -/
theorem bfe_timeReversed (e : ImEx K V) (dt : K) (u : V) :
    bfe (timeReversed e) dt u = bfe e (-dt) u := by
  simp [bfe, timeReversed]

theorem cnrk2_timeReversed (e : ImEx K V) (dt : K) (u : V) :
    cnrk2 (timeReversed e) dt u = cnrk2 e (-dt) u := by
  simp only [cnrk2, timeReversed, smul_neg, neg_smul, mul_neg, neg_mul, ← neg_add]

theorem leapfrog_timeReversed (e : ImEx K V) (dt α : K) (u : V × V) :
    leapfrog (timeReversed e) dt α u = leapfrog e (-dt) α u := by
  simp only [leapfrog, timeReversed, smul_neg, neg_smul, mul_neg, neg_mul, ← neg_add]

theorem timeReversed_F (e : ImEx K V) (x : V) : (timeReversed e).F x = -e.F x := rfl
theorem timeReversed_G (e : ImEx K V) (x : V) : (timeReversed e).G x = -e.G x := rfl
theorem timeReversed_Ginv (e : ImEx K V) (x : V) (η : K) :
    (timeReversed e).Ginv x η = e.Ginv x (-η) := rfl

theorem lsrkLoop_timeReversed (e : ImEx K V) (dt : K) :
    ∀ (βs αs γs : List K) (u h : V),
      lsrkLoop (timeReversed e) dt αs βs γs u (-h) = lsrkLoop e (-dt) αs βs γs u h := by
  intro βs
  induction βs with
  | nil =>
    intro αs γs u h
    match αs, γs with
    | [], _ => simp [lsrkLoop]
    | [_], _ => simp [lsrkLoop]
    | _ :: _ :: _, [] => simp [lsrkLoop]
    | _ :: _ :: _, _ :: _ => simp [lsrkLoop]
  | cons b bs ih =>
    intro αs γs u h
    match αs, γs with
    | [], _ => simp [lsrkLoop]
    | [_], _ => simp [lsrkLoop]
    | _ :: _ :: _, [] => simp [lsrkLoop]
    | a0 :: a1 :: as, c :: cs =>
      simp only [lsrkLoop, timeReversed_F, timeReversed_G, timeReversed_Ginv]
      have h1 : -e.F u + b • -h = -(e.F u + b • h) := by simp; abel
      rw [h1, ih]
      congr 1
      · congr 1
        · simp only [smul_neg, neg_smul, mul_neg, neg_mul]
        · simp only [mul_neg, neg_mul]

/-- the explicit part of a composed equation is the sum of all explicit parts, its implicit part
 is that of the single IMEX member -/
theorem compose_spec (eqs : List (Eqn K V)) (e' : ImEx K V) (h : compose eqs = some e') :
    (∀ x, e'.F x = (eqs.map fun q => q.F x).sum) ∧
      ∃ e, Eqn.imex e ∈ eqs ∧ e'.G = e.G ∧ e'.Ginv = e.Ginv := by
  unfold compose at h
  split at h
  · rename_i e heq
    injection h with h
    subst h
    refine ⟨fun x => ?_, e, ?_, rfl, rfl⟩
    · simp only
      have : ∀ (l : List (Eqn K V)) (acc : V),
          l.foldl (fun acc q => acc + q.F x) acc = acc + (l.map fun q => q.F x).sum := by
        intro l
        induction l with
        | nil => simp
        | cons q t ih => intro acc; simp [ih, add_assoc]
      rw [this, zero_add]
    · have : e ∈ [e] := by simp
      rw [← heq] at this
      rw [List.mem_filterMap] at this
      obtain ⟨q, hq, hqe⟩ := this
      cases q with
      | explicit F => simp at hqe
      | imex e2 => simp at hqe; subst hqe; exact hq
  · simp at h

end general

/-! ## T6.3 amplification functions on the scalar linear test problem -/
section scalar
variable {K : Type} [Field K]

/-- Euler pair: one step multiplies by `(1+dtλ)/(1−dtμ)`; `hreg`: the resolvent exists -/
theorem bfe_scalar (lam mu dt u : K) (_hreg : 1 - dt * mu ≠ 0) :
    bfe (scalarEq lam mu) dt u = bfeAmpl (dt * lam) (dt * mu) * u := by
  simp only [bfe, scalarEq, bfeAmpl, smul_eq_mul]
  rw [div_mul_eq_mul_div]
  congr 1
  ring

theorem cnrk2_scalar (lam mu dt u : K) (_hreg : 1 - half * dt * mu ≠ 0) :
    cnrk2 (scalarEq lam mu) dt u = cnrk2Ampl (dt * lam) (dt * mu) * u := by
  simp only [cnrk2, scalarEq, cnrk2Ampl, smul_eq_mul]
  have hd : (1 : K) - half * dt * mu = 1 - half * (dt * mu) := by ring
  rw [hd, div_mul_eq_mul_div]
  congr 1
  rw [show (u + half * dt * (mu * u) + dt * (lam * u)) / (1 - half * (dt * mu))
        = (1 + half * (dt * mu) + dt * lam) / (1 - half * (dt * mu)) * u by
      rw [div_mul_eq_mul_div]; congr 1; ring]
  ring

theorem leapfrog_scalar (lam mu dt α p c : K) (_hreg : 1 - (1 + 1) * dt * α * mu ≠ 0) :
    leapfrog (scalarEq lam mu) dt α (p, c)
      = (c, leapfrogAmplPrev α (dt * lam) (dt * mu) * p + leapfrogAmplCur α (dt * lam) (dt * mu) * c) := by
  simp only [leapfrog, scalarEq, leapfrogAmplPrev, leapfrogAmplCur, smul_eq_mul]
  have hd : (1 : K) - (1 + 1) * dt * α * mu = 1 - (1 + 1) * α * (dt * mu) := by ring
  rw [hd, div_mul_eq_mul_div, div_mul_eq_mul_div, ← add_div]
  congr 2
  ring

/-- for every stage count and every coefficient lists, one step of the low-storage scheme on
 `u' = λu + μu` multiplies by the rational function `lsrkAmpl α β γ (dtλ) (dtμ)` -/
theorem lsrk_scalar (lam mu dt u : K) (αs βs γs : List K) (_hreg : cnRegular (dt * mu) αs) :
    lsrkLoop (scalarEq lam mu) dt αs βs γs u 0
      = lsrkAmpl αs βs γs (dt * lam) (dt * mu) * u :=
  lsrkLoop_scalar_aux lam mu dt u βs αs γs u 0 1 0 (by ring) (by ring)

/-- for every tableau, one step of `imex_runge_kutta` on the scalar test problem multiplies by
 `tabAmpl t (dtλ) (dtμ)` -/
theorem imexRK_scalar (nz : K → Bool) (hnz : ∀ a, nz a = false → a = 0) (lam mu dt u : K)
    (t : Tableau K) (_hreg : tabRegular (dt * mu) t.aIm 1) :
    imexRKStep nz (scalarEq lam mu) dt t u = tabAmpl t (dt * lam) (dt * mu) * u := by
  have h := stages_scalar_aux nz hnz lam mu dt u t.aEx t.aIm [1]
  simp only [List.map_cons, List.map_nil, one_mul] at h
  unfold imexRKStep tabAmpl
  have hF : (scalarEq lam mu).F u = lam * u := rfl
  have hG : (scalarEq lam mu).G u = mu * u := rfl
  simp only [hF, hG, h]
  rw [wsum_eq_spec nz hnz, wsum_eq_spec nz hnz, wsumSpec_scalar, wsumSpec_scalar]
  simp only [smul_eq_mul]
  ring

/-- for `μ = 0` the amplification function of a low-storage scheme is the polynomial with the
 executable coefficient list `lsrkPoly β γ` -/
theorem lsrkAmpl_explicit_eq_poly (αs βs γs : List K) (x : K)
    (hα : αs.length = βs.length + 1) (hγ : βs.length = γs.length) :
    lsrkAmpl αs βs γs x 0 = peval (lsrkPoly βs γs) x := by
  have := lsrkAmplLoop_poly_aux x βs αs γs [1] [] hα hγ.symm
  simpa [lsrkAmpl, lsrkPoly, peval] using this

/-- for `λ = 0` it is the product of the Crank–Nicolson factors -/
theorem lsrkAmpl_implicit_eq_cnProd (αs βs γs : List K) (y : K)
    (hα : αs.length = βs.length + 1) (hγ : βs.length = γs.length) :
    lsrkAmpl αs βs γs 0 y = cnProd y αs := by
  have := lsrkAmplLoop_implicit_aux y βs αs γs 1 hα hγ.symm
  simpa [lsrkAmpl] using this

end scalar

/-! ### Taylor match of the amplification functions with `exp(x+y)` (explicit remainders) -/
section taylor
variable {K : Type} [Field K] [CharZero K]

/-- Euler pair: first order; the remainder is in the ideal `(x,y)²` -/
theorem bfeAmpl_order1 (x y : K) (h : 1 - y ≠ 0) :
    bfeAmpl x y - (1 + (x + y)) = (x * y + y ^ 2) / (1 - y) := by
  unfold bfeAmpl
  field_simp
  ring

/-- CN–RK2: second order; the remainder is in the ideal `(x,y)³` -/
theorem cnrk2Ampl_order2 (x y : K) (h : 1 - y / 2 ≠ 0) :
    (cnrk2Ampl x y - (1 + (x + y) + (x + y) ^ 2 / 2)) * (1 - y / 2) ^ 2
      = x ^ 2 * y * (1 / 2 - y / 8) + x * y ^ 2 * (3 / 4 - y / 4) + y ^ 3 * (1 / 4 - y / 8) := by
  have h2 : (1 : K) + 1 = 2 := by norm_num
  have hh : (half : K) = 1 / 2 := by simp [half, h2]
  simp only [cnrk2Ampl, hh]
  have hd : (1 : K) - 1 / 2 * y = 1 - y / 2 := by ring
  rw [hd]
  have h' : (2 : K) - y ≠ 0 := by intro h0; apply h; linear_combination h0 / 2
  field_simp
  ring

/-- semi-implicit leapfrog: local defect on the exact solution `e^{±(x+y)}` truncated at second
 order.  The quadratic part vanishes exactly for the centred weighting `α = ½`. -/
theorem leapfrog_consistency (α x y : K) (h : 1 - (1 + 1) * α * y ≠ 0) :
    (leapfrogAmplPrev α x y * (1 - (x + y) + (x + y) ^ 2 / 2) + leapfrogAmplCur α x y
        - (1 + (x + y) + (x + y) ^ 2 / 2)) * (1 - (1 + 1) * α * y)
      = (4 * α - 2) * y * (x + y) + y * (x + y) ^ 2 := by
  unfold leapfrogAmplPrev leapfrogAmplCur
  field_simp
  ring

theorem leapfrog_centred_order2 (x y : K) (h : 1 - y ≠ 0) :
    (leapfrogAmplPrev (1 / 2) x y * (1 - (x + y) + (x + y) ^ 2 / 2) + leapfrogAmplCur (1 / 2) x y
        - (1 + (x + y) + (x + y) ^ 2 / 2)) * (1 - y)
      = y * (x + y) ^ 2 := by
  have h' : (1 : K) - (1 + 1) * (1 / 2) * y ≠ 0 := by
    have : (1 : K) - (1 + 1) * (1 / 2) * y = 1 - y := by ring
    rwa [this]
  have := leapfrog_consistency (1 / 2) x y h'
  have e : (1 : K) - (1 + 1) * (1 / 2) * y = 1 - y := by ring
  rw [e] at this
  rw [this]; ring

end taylor

/-! ## the regenerated coefficient tables -/

def castL (K : Type) [DivisionRing K] (l : List ℚ) : List K := l.map (Rat.cast : ℚ → K)
def castM (K : Type) [DivisionRing K] (m : List (List ℚ)) : List (List K) := m.map (castL K)

/-- `imex_rk_sil3`'s tableau, intended rationals -/
def sil3 (K : Type) [DivisionRing K] : Tableau K :=
  ⟨castM K DinoGen.sil3_aEx, castM K DinoGen.sil3_aIm, castL K DinoGen.sil3_bEx,
   castL K DinoGen.sil3_bIm⟩

def absQ (x : ℚ) : ℚ := if x < 0 then -x else x

/-- every entry of `xs` is within relative distance `2⁻⁵²` of the entry of `ys` (float vs intended) -/
def closeL (xs ys : List ℚ) : Bool :=
  xs.length == ys.length &&
    (xs.zip ys).all fun p => decide (absQ (p.1 - p.2) ≤ absQ p.2 / 4503599627370496)

def closeM (xs ys : List (List ℚ)) : Bool :=
  xs.length == ys.length && (xs.zip ys).all fun p => closeL p.1 p.2

def allSmall (tol : ℚ) (xs : List ℚ) : Bool := xs.all fun r => decide (absQ r ≤ tol)

/-- Butcher pair of the explicit part of the low-storage schemes -/
def rk3A : List (List ℚ) := lsButcherA DinoGen.rk3_betas DinoGen.rk3_gammas
def rk3b : List ℚ := lsButcherB DinoGen.rk3_betas DinoGen.rk3_gammas
def rk4A : List (List ℚ) := lsButcherA DinoGen.rk4_betas DinoGen.rk4_gammas
def rk4b : List ℚ := lsButcherB DinoGen.rk4_betas DinoGen.rk4_gammas

/-- the Python floats are the correctly rounded values of the rationals the theorems talk about -/
theorem tables_float_close :
    closeL DinoGen.rk3_alphas_float DinoGen.rk3_alphas = true ∧
    closeL DinoGen.rk3_betas_float DinoGen.rk3_betas = true ∧
    closeL DinoGen.rk3_gammas_float DinoGen.rk3_gammas = true ∧
    closeL DinoGen.rk4_alphas_float DinoGen.rk4_alphas = true ∧
    closeL DinoGen.rk4_betas_float DinoGen.rk4_betas = true ∧
    closeL DinoGen.rk4_gammas_float DinoGen.rk4_gammas = true ∧
    closeM DinoGen.sil3_aEx_float DinoGen.sil3_aEx = true ∧
    closeM DinoGen.sil3_aIm_float DinoGen.sil3_aIm = true ∧
    closeL DinoGen.sil3_bEx_float DinoGen.sil3_bEx = true ∧
    closeL DinoGen.sil3_bIm_float DinoGen.sil3_bIm = true := by
  decide +kernel

/-- the hard-coded tables pass the length validation -/
theorem tables_accepted :
    lsrkAccepts DinoGen.rk3_alphas.length DinoGen.rk3_betas.length DinoGen.rk3_gammas.length = true ∧
    lsrkAccepts DinoGen.rk4_alphas.length DinoGen.rk4_betas.length DinoGen.rk4_gammas.length = true ∧
    (sil3 ℚ).accepts = true := by
  decide +kernel

/-! ### T6.4 rooted-tree order conditions on the regenerated tables -/

/-- RK3 (Williamson): consistency (`Σb = 1`, abscissae `c = α`) and all four conditions of
 order ≤ 3, exactly -/
theorem rk3_order3_conditions :
    rowSums rk3A ++ [lsum rk3b] = DinoGen.rk3_alphas ∧
    residuals3 2 3 6 rk3A rk3b (rowSums rk3A) (rowSums rk3A) = [0, 0, 0, 0] := by
  decide +kernel

/-- RK4 (Carpenter–Kennedy 13-digit decimals): all eight conditions of order ≤ 4 hold within
 `1e-12` (measured 7e-14), and the abscissae agree with `α` within `1e-12` -/
theorem rk4_order4_conditions :
    allSmall (1 / 10 ^ 12) (residuals3 2 3 6 rk4A rk4b (rowSums rk4A) (rowSums rk4A)) = true ∧
    allSmall (1 / 10 ^ 12) (residuals4 4 8 12 24 rk4A rk4b (rowSums rk4A)) = true ∧
    allSmall (1 / 10 ^ 12)
      (List.zipWith (· - ·) (rowSums rk4A ++ [lsum rk4b]) DinoGen.rk4_alphas) = true := by
  decide +kernel

/-- the conditions are not vacuous: RK3 fails the order-4 conditions -/
theorem rk3_not_order4 :
    allSmall (1 / 100) (residuals4 4 8 12 24 rk3A rk3b (rowSums rk3A)) = false := by
  decide +kernel

/-- IMEX coupling conditions of order ≤ 2 for a low-storage scheme: explicit pair extended by the
 final stage, implicit pair from the Crank–Nicolson sub-steps; residuals
 `Σb^I − 1, b^I·c^I − ½, b^I·c^E − ½, b^E·c^I − ½` -/
def lsCoupling2 (αs βs γs : List ℚ) : List ℚ :=
  let AE := lsButcherA βs γs ++ [lsButcherB βs γs]
  let bE := lsButcherB βs γs ++ [0]
  let AI := [0] :: cnRows αs [0]
  let bI := AI.getLastD []
  [lsum bI - 1, dot bI (rowSums AI) - 1 / 2, dot bI (rowSums AE) - 1 / 2, dot bE (rowSums AI) - 1 / 2]

theorem rk3_coupling2 :
    lsCoupling2 DinoGen.rk3_alphas DinoGen.rk3_betas DinoGen.rk3_gammas = [0, 0, 0, 0] := by
  decide +kernel

theorem rk4_coupling2 :
    allSmall (1 / 10 ^ 12)
      (lsCoupling2 DinoGen.rk4_alphas DinoGen.rk4_betas DinoGen.rk4_gammas) = true := by
  decide +kernel

/-- SIL3: both parts are consistent with common abscissae `(0, 1/3, 2/3, 1)`; explicit part:
 order 2 and the *linear* order-3 condition `b·A·c = 1/6`; the nonlinear order-3 condition
 `b·c² = 1/3` fails (`7/18`), so the scheme is third order for linear `F` only;
 implicit part and coupling: order 2 -/
theorem sil3_order_conditions :
    let AE : List (List ℚ) := [] :: DinoGen.sil3_aEx
    let AI : List (List ℚ) := [0] :: DinoGen.sil3_aIm
    rowSums AE = [0, 1 / 3, 2 / 3, 1] ∧ rowSums AI = [0, 1 / 3, 2 / 3, 1] ∧
    lsum DinoGen.sil3_bEx = 1 ∧ lsum DinoGen.sil3_bIm = 1 ∧
    dot DinoGen.sil3_bEx (rowSums AE) = 1 / 2 ∧ dot DinoGen.sil3_bIm (rowSums AI) = 1 / 2 ∧
    dot DinoGen.sil3_bEx (matVec AE (rowSums AE)) = 1 / 6 ∧
    dot DinoGen.sil3_bEx (hmul (rowSums AE) (rowSums AE)) = 7 / 18 ∧
    AI.getLastD [] = DinoGen.sil3_bIm := by
  decide +kernel

/-! ### T6.3 on the regenerated tables: Taylor match of the amplification functions -/

/-- explicit RK3: coefficients of the stability polynomial are exactly `1, 1, 1/2, 1/6` -/
theorem rk3_poly : lsrkPoly DinoGen.rk3_betas DinoGen.rk3_gammas = [1, 1, 1 / 2, 1 / 6] := by
  decide +kernel

/-- explicit RK4 (decimals): the stability polynomial has degree 5; its coefficients of degree
 ≤ 4 match `1/k!` within `1e-12` -/
theorem rk4_poly :
    (lsrkPoly DinoGen.rk4_betas DinoGen.rk4_gammas).length = 6 ∧
    allSmall (1 / 10 ^ 12) (List.zipWith (· - ·) (lsrkPoly DinoGen.rk4_betas DinoGen.rk4_gammas)
      [1, 1, 1 / 2, 1 / 6, 1 / 24]) = true := by
  decide +kernel

/-- hence on `u' = λu` (`μ = 0`) one RK4 step multiplies by a polynomial in `dtλ` whose Taylor
 coefficients through degree 4 are those of `exp` within `1e-12` -/
theorem rk4_explicit_taylor (x : ℚ) :
    lsrkAmpl DinoGen.rk4_alphas DinoGen.rk4_betas DinoGen.rk4_gammas x 0
      = peval (lsrkPoly DinoGen.rk4_betas DinoGen.rk4_gammas) x :=
  lsrkAmpl_explicit_eq_poly _ _ _ x (by decide) (by decide)

section taylorTables
variable {K : Type} [Field K] [CharZero K]

/-- RK3 with `μ = 0`: third order, exactly (`F` linear) -/
theorem rk3_explicit_taylor (x : K) :
    lsrkAmpl (castL K DinoGen.rk3_alphas) (castL K DinoGen.rk3_betas) (castL K DinoGen.rk3_gammas) x 0
      = 1 + x + x ^ 2 / 2 + x ^ 3 / 6 := by
  simp only [lsrkAmpl, lsrkAmplLoop, castL, List.map_cons, List.map_nil, DinoGen.rk3_alphas,
    DinoGen.rk3_betas, DinoGen.rk3_gammas]
  push_cast
  simp only [mul_zero, zero_mul, sub_zero, div_one, add_zero]
  ring

/-- RK3–CN: second order in `(x,y)` jointly: the remainder lies in `(x,y)³` -/
theorem rk3cn_order2 (x y : K)
    (hreg : cnRegular y (castL K DinoGen.rk3_alphas)) :
    (lsrkAmpl (castL K DinoGen.rk3_alphas) (castL K DinoGen.rk3_betas) (castL K DinoGen.rk3_gammas) x y
        - (1 + (x + y) + (x + y) ^ 2 / 2)) * ((1 - y / 6) * (1 - 5 * y / 24) * (1 - y / 8))
      = x ^ 3 * (1 / 6) + x ^ 2 * y * (1 / 2 - 47 / 1152 * y + 5 / 2304 * y ^ 2)
          + x * y ^ 2 * (49 / 96 - 89 / 1152 * y + 5 / 1152 * y ^ 2)
          + y ^ 3 * (17 / 96 - 7 / 192 * y + 5 / 2304 * y ^ 2) := by
  obtain ⟨hR, hp⟩ := lsrkAmplLoop_eq_ND x y (castL K DinoGen.rk3_betas) (castL K DinoGen.rk3_alphas)
    (castL K DinoGen.rk3_gammas) 1 0 1 one_ne_zero hreg
  simp only [div_one, zero_div] at hR
  unfold lsrkAmpl
  rw [hR, sub_mul, div_mul_eq_mul_div, sub_eq_iff_eq_add, div_eq_iff hp]
  have h2 : (1 : K) + 1 = 2 := by norm_num
  simp only [lsrkND, castL, List.map_cons, List.map_nil, DinoGen.rk3_alphas, DinoGen.rk3_betas,
    DinoGen.rk3_gammas, half, h2]
  push_cast
  ring

/-- SIL3 with `μ = 0`: third order, exactly (`F` linear) -/
theorem sil3_explicit_taylor (x : K) :
    tabAmpl (sil3 K) x 0 = 1 + x + x ^ 2 / 2 + x ^ 3 / 6 := by
  simp [tabAmpl, tabAmplStages, dot, sil3, castM, castL, DinoGen.sil3_aEx, DinoGen.sil3_aIm,
    DinoGen.sil3_bEx, DinoGen.sil3_bIm]
  ring

/-- SIL3: second order in `(x,y)` jointly -/
theorem sil3_order2 (x y : K) (hreg : tabRegular y (sil3 K).aIm 1) :
    (tabAmpl (sil3 K) x y - (1 + (x + y) + (x + y) ^ 2 / 2))
        * ((1 - y / 6) * (1 - y / 3) * (1 - y / 4))
      = x ^ 3 * (1 / 6) + x ^ 2 * y * (79 / 144 - 13 / 144 * y + 1 / 144 * y ^ 2)
          + x * y ^ 2 * (85 / 144 - 1 / 6 * y + 1 / 72 * y ^ 2)
          + y ^ 3 * (5 / 24 - 11 / 144 * y + 1 / 144 * y ^ 2) := by
  obtain ⟨hR, hp⟩ := tabAmpl_eq_ND (sil3 K) x y hreg
  rw [hR, sub_mul, div_mul_eq_mul_div, sub_eq_iff_eq_add, div_eq_iff hp]
  simp [tabND, dot, sil3, castM, castL, DinoGen.sil3_aEx, DinoGen.sil3_aIm,
    DinoGen.sil3_bEx, DinoGen.sil3_bIm]
  ring

end taylorTables

/-! ## T6.5 stability of the implicit parts: `|R(0, dt·μ)| ≤ 1` for every `dt ≥ 0`, `Re μ ≤ 0` -/
section stability
open Complex

/-- the stiff argument: `Re (dt·μ) ≤ 0` for every step `dt ≥ 0` and every `μ` in the closed left
 half-plane -/
theorem re_stiff (dt : ℝ) (hdt : 0 ≤ dt) (μ : ℂ) (hμ : μ.re ≤ 0) : ((dt : ℂ) * μ).re ≤ 0 := by
  rw [re_ofReal_mul]
  exact mul_nonpos_iff.2 (Or.inl ⟨hdt, hμ⟩)

theorem normSq_one_add_le (w : ℂ) (hw : w.re ≤ 0) : normSq (1 + w) ≤ normSq (1 - w) := by
  simp only [normSq_apply, add_re, one_re, add_im, one_im, sub_re, sub_im, zero_add, zero_sub]
  nlinarith

theorem one_sub_ne_zero_of_re_nonpos (w : ℂ) (hw : w.re ≤ 0) : 1 - w ≠ 0 := by
  intro h
  have := congrArg Complex.re h
  simp at this
  linarith

/-- the Crank–Nicolson factor `|1+w| ≤ |1−w|` for `Re w ≤ 0` -/
theorem normSq_cnFactor_le_one (w : ℂ) (hw : w.re ≤ 0) : normSq ((1 + w) / (1 - w)) ≤ 1 := by
  rw [map_div₀]
  have hpos : 0 < normSq (1 - w) := normSq_pos.2 (one_sub_ne_zero_of_re_nonpos w hw)
  rw [div_le_one hpos]
  exact normSq_one_add_le w hw

theorem half_complex : (half : ℂ) = ((1 / 2 : ℝ) : ℂ) := by
  unfold half
  push_cast
  norm_num

/-- backward Euler part of the Euler pair -/
theorem bfe_A_stable (dt : ℝ) (hdt : 0 ≤ dt) (μ : ℂ) (hμ : μ.re ≤ 0) :
    1 - (dt : ℂ) * μ ≠ 0 ∧ normSq (bfeAmpl 0 ((dt : ℂ) * μ)) ≤ 1 := by
  have hy := re_stiff dt hdt μ hμ
  refine ⟨one_sub_ne_zero_of_re_nonpos _ hy, ?_⟩
  have hpos : 0 < normSq (1 - (dt : ℂ) * μ) := normSq_pos.2 (one_sub_ne_zero_of_re_nonpos _ hy)
  unfold bfeAmpl
  rw [map_div₀, div_le_one hpos, add_zero, map_one]
  simp only [normSq_apply, sub_re, one_re, sub_im, one_im, zero_sub]
  nlinarith

/-- Crank–Nicolson part of CN–RK2 -/
theorem cnrk2_A_stable (dt : ℝ) (hdt : 0 ≤ dt) (μ : ℂ) (hμ : μ.re ≤ 0) :
    1 - half * ((dt : ℂ) * μ) ≠ 0 ∧ normSq (cnrk2Ampl 0 ((dt : ℂ) * μ)) ≤ 1 := by
  have hy := re_stiff dt hdt μ hμ
  have hw : (half * ((dt : ℂ) * μ)).re ≤ 0 := by
    rw [half_complex, re_ofReal_mul]; nlinarith
  refine ⟨one_sub_ne_zero_of_re_nonpos _ hw, ?_⟩
  simp only [cnrk2Ampl, zero_mul, add_zero]
  exact normSq_cnFactor_le_one _ hw

def castRC (l : List ℝ) : List ℂ := l.map (fun (r : ℝ) => (r : ℂ))

/-- a chain of Crank–Nicolson sub-steps with non-decreasing `α` never amplifies, and all its
 resolvents exist -/
theorem cnProd_stable (y : ℂ) (hy : y.re ≤ 0) :
    ∀ αs : List ℝ, αs.Pairwise (· ≤ ·) →
      cnRegular y (castRC αs) ∧ normSq (cnProd y (castRC αs)) ≤ 1
  | [], _ => by simp [castRC, cnRegular, cnProd]
  | [a], _ => by simp [castRC, cnRegular, cnProd]
  | a0 :: a1 :: as, h => by
    have h01 : a0 ≤ a1 := (List.pairwise_cons.1 h).1 a1 (by simp)
    have ih := cnProd_stable y hy (a1 :: as) (List.pairwise_cons.1 h).2
    have hw : (half * y * ((a1 : ℂ) - (a0 : ℂ))).re ≤ 0 := by
      have e : half * y * ((a1 : ℂ) - (a0 : ℂ)) = (((a1 - a0) / 2 : ℝ) : ℂ) * y := by
        rw [half_complex]; push_cast; ring
      rw [e, re_ofReal_mul]
      nlinarith
    simp only [castRC, List.map_cons, cnRegular, cnProd] at ih ⊢
    refine ⟨⟨one_sub_ne_zero_of_re_nonpos _ hw, ih.1⟩, ?_⟩
    rw [map_mul]
    calc _ ≤ 1 * 1 := mul_le_mul (normSq_cnFactor_le_one _ hw) ih.2 (normSq_nonneg _) zero_le_one
      _ = 1 := one_mul 1

/-- **any** low-storage scheme with non-decreasing `α` (any stage count, any `β`, `γ`): for purely
 implicit linear dynamics in the closed left half-plane the amplification factor never exceeds
 one, for every step size -/
theorem lsrk_A_stable (αs : List ℝ) (βs γs : List ℂ) (hα : αs.length = βs.length + 1)
    (hγ : βs.length = γs.length) (hmono : αs.Pairwise (· ≤ ·))
    (dt : ℝ) (hdt : 0 ≤ dt) (μ : ℂ) (hμ : μ.re ≤ 0) :
    cnRegular ((dt : ℂ) * μ) (castRC αs) ∧
      normSq (lsrkAmpl (castRC αs) βs γs 0 ((dt : ℂ) * μ)) ≤ 1 := by
  have h := cnProd_stable _ (re_stiff dt hdt μ hμ) αs hmono
  rw [lsrkAmpl_implicit_eq_cnProd _ _ _ _ (by simpa [castRC] using hα) hγ]
  exact h

/-- stability certificate on the regenerated tables: the `α` are non-decreasing -/
theorem alphas_monotone :
    DinoGen.rk3_alphas.Pairwise (· ≤ ·) ∧ DinoGen.rk4_alphas.Pairwise (· ≤ ·) := by
  decide +kernel

theorem castL_complex (l : List ℚ) : castL ℂ l = castRC (l.map (Rat.cast : ℚ → ℝ)) := by
  simp [castL, castRC, List.map_map, Function.comp_def]

theorem rk3cn_A_stable (dt : ℝ) (hdt : 0 ≤ dt) (μ : ℂ) (hμ : μ.re ≤ 0) :
    normSq (lsrkAmpl (castL ℂ DinoGen.rk3_alphas) (castL ℂ DinoGen.rk3_betas)
      (castL ℂ DinoGen.rk3_gammas) 0 ((dt : ℂ) * μ)) ≤ 1 := by
  rw [castL_complex DinoGen.rk3_alphas]
  refine (lsrk_A_stable _ _ _ ?_ ?_ ?_ dt hdt μ hμ).2
  · simp [castL, DinoGen.rk3_alphas, DinoGen.rk3_betas]
  · simp [castL, DinoGen.rk3_gammas, DinoGen.rk3_betas]
  · exact alphas_monotone.1.map _ (fun a b h => Rat.cast_le.2 h)

theorem rk4cn_A_stable (dt : ℝ) (hdt : 0 ≤ dt) (μ : ℂ) (hμ : μ.re ≤ 0) :
    normSq (lsrkAmpl (castL ℂ DinoGen.rk4_alphas) (castL ℂ DinoGen.rk4_betas)
      (castL ℂ DinoGen.rk4_gammas) 0 ((dt : ℂ) * μ)) ≤ 1 := by
  rw [castL_complex DinoGen.rk4_alphas]
  refine (lsrk_A_stable _ _ _ ?_ ?_ ?_ dt hdt μ hμ).2
  · simp [castL, DinoGen.rk4_alphas, DinoGen.rk4_betas]
  · simp [castL, DinoGen.rk4_gammas, DinoGen.rk4_betas]
  · exact alphas_monotone.2.map _ (fun a b h => Rat.cast_le.2 h)

/-- the stage resolvents of SIL3 exist in the closed left half-plane -/
theorem sil3_regular (z : ℂ) (hz : z.re ≤ 0) : tabRegular z (sil3 ℂ).aIm 1 := by
  have h : ∀ r : ℝ, 0 ≤ r → 1 - z * (r : ℂ) ≠ 0 := by
    intro r hr
    apply one_sub_ne_zero_of_re_nonpos
    rw [mul_comm, re_ofReal_mul]
    exact mul_nonpos_iff.2 (Or.inl ⟨hr, hz⟩)
  have h6 := h (1 / 6) (by norm_num)
  have h3 := h (1 / 3) (by norm_num)
  have h4 := h (1 / 4) (by norm_num)
  push_cast at h6 h3 h4
  simp [tabRegular, sil3, castM, castL, DinoGen.sil3_aIm]
  exact ⟨by simpa using h6, by simpa using h3, by simpa using h4⟩

/-- implicit part of SIL3 in closed form -/
theorem sil3_implicit_ampl (z : ℂ) (hz : z.re ≤ 0) :
    tabAmpl (sil3 ℂ) 0 z = (12 + 5 * z) / ((3 - z) * (4 - z)) := by
  obtain ⟨hR, hp⟩ := tabAmpl_eq_ND (sil3 ℂ) 0 z (sil3_regular z hz)
  have h3 : (3 : ℂ) - z ≠ 0 := by
    intro h; have := congrArg Complex.re h; simp at this; linarith
  have h4 : (4 : ℂ) - z ≠ 0 := by
    intro h; have := congrArg Complex.re h; simp at this; linarith
  rw [hR, div_eq_div_iff hp (mul_ne_zero h3 h4)]
  simp [tabND, dot, sil3, castM, castL, DinoGen.sil3_aEx, DinoGen.sil3_aIm,
    DinoGen.sil3_bEx, DinoGen.sil3_bIm]
  ring

/-- SIL3 never amplifies stiff linear modes:
 `|D|² − |N|² = t⁴+14t³+2t²s²+48t²+14ts²+288t+s⁴ ≥ 0` at `z = −t + i·s`, `t ≥ 0` -/
theorem sil3_A_stable (dt : ℝ) (hdt : 0 ≤ dt) (μ : ℂ) (hμ : μ.re ≤ 0) :
    normSq (tabAmpl (sil3 ℂ) 0 ((dt : ℂ) * μ)) ≤ 1 := by
  have hz := re_stiff dt hdt μ hμ
  generalize (dt : ℂ) * μ = z at hz
  rw [sil3_implicit_ampl z hz, map_div₀]
  have h3 : (3 : ℂ) - z ≠ 0 := by
    intro h; have := congrArg Complex.re h; simp at this; linarith
  have h4 : (4 : ℂ) - z ≠ 0 := by
    intro h; have := congrArg Complex.re h; simp at this; linarith
  rw [div_le_one (normSq_pos.2 (mul_ne_zero h3 h4))]
  obtain ⟨t, ht, hre⟩ : ∃ t : ℝ, 0 ≤ t ∧ z.re = -t := ⟨-z.re, by linarith, by ring⟩
  have key : normSq ((3 - z) * (4 - z)) - normSq (12 + 5 * z)
      = t ^ 4 + 14 * t ^ 3 + 2 * t ^ 2 * z.im ^ 2 + 48 * t ^ 2 + 14 * t * z.im ^ 2 + 288 * t
        + z.im ^ 4 := by
    simp [normSq_apply, hre]
    ring
  have : 0 ≤ t ^ 4 + 14 * t ^ 3 + 2 * t ^ 2 * z.im ^ 2 + 48 * t ^ 2 + 14 * t * z.im ^ 2 + 288 * t
        + z.im ^ 4 := by positivity
  linarith

/-- semi-implicit leapfrog, `F = 0`: the two-step factor `(1+2dt(1−α)μ)/(1−2dtαμ)` has modulus
 ≤ 1 for every weighting `α ≥ ½` (and the resolvent exists) -/
theorem leapfrog_A_stable (α : ℝ) (hα : 1 / 2 ≤ α) (dt : ℝ) (hdt : 0 ≤ dt) (μ : ℂ) (hμ : μ.re ≤ 0) :
    1 - (1 + 1) * (α : ℂ) * ((dt : ℂ) * μ) ≠ 0 ∧
      normSq (leapfrogAmplPrev (α : ℂ) 0 ((dt : ℂ) * μ)) ≤ 1 := by
  have hz := re_stiff dt hdt μ hμ
  generalize (dt : ℂ) * μ = z at hz
  have hd : 1 - (1 + 1) * (α : ℂ) * z ≠ 0 := by
    apply one_sub_ne_zero_of_re_nonpos
    have e : (1 + 1) * (α : ℂ) * z = ((2 * α : ℝ) : ℂ) * z := by push_cast; ring
    rw [e, re_ofReal_mul]
    nlinarith
  refine ⟨hd, ?_⟩
  unfold leapfrogAmplPrev
  rw [map_div₀, div_le_one (normSq_pos.2 hd)]
  have e1 : 1 + (1 + 1) * ((1 - (α : ℂ)) * z) = 1 + ((2 * (1 - α) : ℝ) : ℂ) * z := by
    push_cast; ring
  have e2 : 1 - (1 + 1) * (α : ℂ) * z = 1 - ((2 * α : ℝ) : ℂ) * z := by push_cast; ring
  rw [e1, e2]
  simp only [normSq_apply, add_re, one_re, add_im, one_im, sub_re, sub_im, re_ofReal_mul,
    im_ofReal_mul, zero_add, zero_sub]
  nlinarith [mul_nonneg (by linarith : (0 : ℝ) ≤ 2 * α - 1) (sq_nonneg z.re),
    mul_nonneg (by linarith : (0 : ℝ) ≤ 2 * α - 1) (sq_nonneg z.im)]

/-- the bound on `α` is sharp: with `α < ½` a stiff mode is amplified (`α = 0`, `dt·μ = −2`:
 factor `−3`) -/
theorem leapfrog_unstable_below_half :
    normSq (leapfrogAmplPrev (0 : ℂ) 0 (-2)) = 9 := by
  simp [leapfrogAmplPrev, normSq_apply]
  norm_num

end stability

/-! ## every scheme as an additive (IMEX) Runge–Kutta method of an explicit/implicit Butcher pair

For **every** explicit part `F` and every implicit part `G` (not even linear) with a resolvent:
the low-storage recursion (any stage count), the Euler pair and CN–RK2 are `imex_runge_kutta` of
an executable Butcher pair.  The order conditions of the pair (`pairResiduals2`, `lsCoupling2`)
are therefore conditions about the scheme the code runs, not about a free-standing table. -/
section pair
variable {K V : Type} [Field K] [AddCommGroup V] [Module K V]

/-- the combined Butcher pair of a low-storage scheme passes the validation of
 `ImExButcherTableau.__post_init__` -/
theorem lsTableau_accepts (αs βs γs : List K) (hα : αs.length = βs.length + 1)
    (hγ : βs.length = γs.length) : (lsTableau αs βs γs).accepts = true := by
  unfold Tableau.accepts
  rw [tableauAccepts_iff]
  simp only [lsTableau, lsButcherA, lsButcherB, List.length_tail, List.length_append,
    List.length_cons, List.length_nil]
  rw [lsButcherLoop_fst_length _ _ _ _ hγ.symm, lsButcherLoop_snd_length _ _ _ _ hγ.symm rfl,
    cnRows_length _ _ _ hα, cnRows_last_length _ _ _ hα (by simp)]
  simp only [List.length_cons, List.length_nil]
  refine ⟨trivial, ?_, ?_⟩ <;> omega

/-- **the low-storage scheme is the additive Runge–Kutta method of `lsTableau α β γ`**: for every
 stage count, every `F`, every `G` whose Crank–Nicolson sub-step resolvents satisfy their
 contract, `low_storage_runge_kutta_crank_nicolson(α, β, γ)` and
 `imex_runge_kutta(lsTableau α β γ)` are the same step function.  In particular the implicit
 Butcher matrix `cnRows α [0]` used by `lsCoupling2` is the one of the scheme. -/
theorem lsrk_eq_imexRK (nz : K → Bool) (hnz : ∀ a, nz a = false → a = 0) (e : ImEx K V) (dt : K)
    (αs βs γs : List K) (hα : αs.length = βs.length + 1) (hγ : βs.length = γs.length)
    (hres : cnResolvents e dt αs) :
    lsrk e dt αs βs γs = imexRK nz e dt (lsTableau αs βs γs) := by
  unfold lsrk imexRK
  rw [if_pos ((lsrkAccepts_iff _ _ _).2 ⟨hα, hγ⟩), if_pos (lsTableau_accepts αs βs γs hα hγ)]
  congr 1
  funext u
  have h := lsrkLoop_eq_stages_aux nz hnz e dt u βs γs αs [] [] [] [] [0] u 0 hα hγ.symm rfl rfl rfl rfl
    (by simp [wsumSpec]) (by simp) hres
  rw [h]
  rfl

/-- **C06-2**: for every stage count, the chain of Crank–Nicolson sub-steps of a low-storage scheme
 IS the diagonally implicit Runge–Kutta method with the rows `cnRows α [0]` and the last row as
 weights (`F` does not occur) -/
theorem cnChain_eq_dirk (nz : K → Bool) (hnz : ∀ a, nz a = false → a = 0) (e : ImEx K V) (dt : K)
    (αs : List K) (hres : cnResolvents e dt αs) :
    dirk nz e.G e.Ginv dt (cnRows αs [0]) (([0] :: cnRows αs [0]).getLastD []) = cnChain e dt αs := by
  match αs, hres with
  | [], _ =>
    funext u
    simp [dirk, dirkStages, cnRows, cnChain, wsum_eq_spec nz hnz, wsumSpec]
  | a :: as, hres =>
    let e' : ImEx K V := ⟨fun _ => 0, e.G, e.Ginv⟩
    have he' : IsImplicit e' := fun _ => rfl
    have hl1 : (a :: as).length = (List.replicate as.length (0 : K)).length + 1 := by simp
    have hl2 : (List.replicate as.length (0 : K)).length = (List.replicate as.length (0 : K)).length := rfl
    have h1 := lsrk_eq_imexRK nz hnz e' dt (a :: as) (List.replicate as.length 0)
      (List.replicate as.length 0) hl1 hl2 (cnResolvents_congr e e' rfl rfl dt _ _ rfl hres)
    rw [lsrk_implicit_eq_cnChain e' he' dt _ _ _ hl1 hl2,
      imexRK_implicit nz hnz e' he' dt _ (lsTableau_accepts _ _ _ hl1 hl2)] at h1
    have h2 := Option.some.inj h1
    funext u
    have h3 := congrFun h2 u
    rw [cnChain_congr e e' rfl rfl dt _ _ u rfl] at h3
    exact h3.symm

/-- with `F = 0` the low-storage scheme is that DIRK method -/
theorem lsrk_implicit_eq_dirk (nz : K → Bool) (hnz : ∀ a, nz a = false → a = 0) (e : ImEx K V)
    (he : IsImplicit e) (dt : K) (αs βs γs : List K) (hα : αs.length = βs.length + 1)
    (hγ : βs.length = γs.length) (hres : cnResolvents e dt αs) :
    lsrk e dt αs βs γs
      = some (dirk nz e.G e.Ginv dt (cnRows αs [0]) (([0] :: cnRows αs [0]).getLastD [])) := by
  rw [lsrk_implicit_eq_cnChain e he dt αs βs γs hα hγ, cnChain_eq_dirk nz hnz e dt αs hres]

/-- the Euler pair is the additive Runge–Kutta method of `bfeTab` -/
theorem bfe_eq_imexRK (nz : K → Bool) (hnz : ∀ a, nz a = false → a = 0) (e : ImEx K V) (dt : K)
    (hr : IsResolventAt e dt) :
    imexRK nz e dt bfeTab = some (bfe e dt) := by
  unfold imexRK
  rw [if_pos (show (bfeTab : Tableau K).accepts = true from (by decide : tableauAcceptsLens 1 1 2 2 = true))]
  congr 1
  funext u
  have h := hr.right (u + dt • e.F u)
  simp only [imexRKStep, stages, bfeTab, wsum_eq_spec nz hnz, wsumSpec, List.zipWith_cons_cons,
    List.zipWith_nil_right, List.sum_cons, List.sum_nil, List.cons_append,
    List.nil_append, List.length_cons, List.length_nil, List.getD_cons_succ, List.getD_cons_zero,
    one_smul, zero_smul, smul_zero, add_zero, zero_add, mul_one, bfe]
  generalize e.Ginv (u + dt • e.F u) dt = v at h ⊢
  rw [← h]; abel

/-- CN–RK2 is the additive Runge–Kutta method of `cnrk2Tab` -/
theorem cnrk2_eq_imexRK (nz : K → Bool) (hnz : ∀ a, nz a = false → a = 0) (e : ImEx K V) (dt : K)
    (hr : IsResolventAt e (half * dt)) :
    imexRK nz e dt cnrk2Tab = some (cnrk2 e dt) := by
  unfold imexRK
  rw [if_pos (show (cnrk2Tab : Tableau K).accepts = true from (by decide : tableauAcceptsLens 2 2 3 3 = true))]
  congr 1
  funext u
  simp only [imexRKStep, stages, cnrk2Tab, wsum_eq_spec nz hnz, wsumSpec, List.zipWith_cons_cons,
    List.zipWith_nil_right, List.sum_cons, List.sum_nil, List.cons_append,
    List.nil_append, List.length_cons, List.length_nil, List.getD_cons_succ, List.getD_cons_zero,
    one_smul, zero_smul, smul_zero, add_zero, zero_add, cnrk2, mul_comm dt half]
  have e1 : u + dt • e.F u + dt • (half : K) • e.G u = u + (half * dt) • e.G u + dt • e.F u := by
    module
  rw [e1]
  generalize e.Ginv (u + (half * dt) • e.G u + dt • e.F u) (half * dt) = u1
  have e2 : u + dt • ((half : K) • e.F u + (half : K) • e.F u1) + dt • (half : K) • e.G u
      = u + (half * dt) • e.G u + dt • (half : K) • (e.F u1 + e.F u) := by module
  rw [e2]
  have h := hr.right (u + (half * dt) • e.G u + dt • (half : K) • (e.F u1 + e.F u))
  generalize e.Ginv (u + (half * dt) • e.G u + dt • (half : K) • (e.F u1 + e.F u)) (half * dt) = v at h ⊢
  have hv : v = (v - (half * dt) • e.G v) + (half * dt) • e.G v := by abel
  conv_rhs => rw [hv, h]
  module

/-- **C06-4**: DIRK stage equations of `imex_runge_kutta` with `F = 0`, for any tableau, through
 the contract of the resolvent: there are stage values `Y₀ = y₀, Y₁, …, Y_s` with
 `Y_i − dt·a_ii·G(Y_i) = y₀ + dt·Σ_{j<i} a_ij·G(Y_j)` and the step returns
 `y₀ + dt·Σ_j b_j·G(Y_j)`; `a_ij = aIm[i-1][j]`, `b_j = bIm[j]`.
 (`_hrows`: every implicit row has its diagonal entry; the code raises `IndexError` otherwise.) -/
theorem imexRK_implicit_stage_equations (nz : K → Bool) (hnz : ∀ a, nz a = false → a = 0)
    (e : ImEx K V) (he : IsImplicit e) (dt : K) (t : Tableau K) (hacc : t.accepts = true)
    (_hrows : ∀ i (hi : i < t.aIm.length), i + 1 < (t.aIm[i]).length)
    (hres : ∀ i (hi : i < t.aIm.length), IsResolventAt e (dt * (t.aIm[i]).getD (i + 1) 0))
    (y0 : V) :
    ∃ Y : Nat → V, Y 0 = y0 ∧
      (∀ i (hi : i < t.aIm.length),
        Y (i + 1) - (dt * (t.aIm[i]).getD (i + 1) 0) • e.G (Y (i + 1))
          = y0 + dt • ((List.range (i + 1)).map fun j => (t.aIm[i]).getD j 0 • e.G (Y j)).sum) ∧
      ∃ step, imexRK nz e dt t = some step ∧
        step y0 = y0 + dt • ((List.range (t.aIm.length + 1)).map fun j =>
          t.bIm.getD j 0 • e.G (Y j)).sum := by
  obtain ⟨hlen, hpre, heq⟩ := dirkYs_spec nz hnz e dt y0 t.aIm [y0]
    (by intro i hi; simpa [Nat.add_comm 1 i] using hres i hi)
  refine ⟨fun j => (dirkYs nz e.G e.Ginv dt y0 t.aIm [y0]).getD j 0, ?_, ?_,
    dirk nz e.G e.Ginv dt t.aIm t.bIm, imexRK_implicit nz hnz e he dt t hacc, ?_⟩
  · simpa using hpre 0 (by simp)
  · intro i hi
    have := heq i hi
    simpa [Nat.add_comm 1 i] using this
  · unfold dirk
    have hm : [e.G y0] = [y0].map e.G := rfl
    rw [hm, dirkStages_eq_map, wsum_eq_spec nz hnz, wsumSpec_eq_range_sum, List.length_map, hlen]
    simp only [List.length_cons, List.length_nil, Nat.zero_add, Nat.add_comm 1 t.aIm.length]
    refine congrArg (fun l => y0 + dt • List.sum l) (List.map_congr_left ?_)
    intro j hj
    have hj' : j < (dirkYs nz e.G e.Ginv dt y0 t.aIm [y0]).length := by
      rw [hlen]; have := List.mem_range.1 hj; simp; omega
    rw [getD_map_of_lt _ _ _ hj']

end pair

/-! ### order-2 conditions of the additive pairs on the regenerated tables (T6.4, all schemes) -/

/-- `lsCoupling2` is made of four of the six order-≤2 residuals of the combined pair `lsTableau`
 (the other two, `Σbᴱ − 1` and `bᴱ·cᴱ − ½`, are in `rk3_order3_conditions`/`rk4_order4_conditions`) -/
theorem lsCoupling2_eq_pair (αs βs γs : List ℚ) :
    lsCoupling2 αs βs γs
      = [(pairResiduals2 2 (lsTableau αs βs γs)).getD 1 0, (pairResiduals2 2 (lsTableau αs βs γs)).getD 5 0,
         (pairResiduals2 2 (lsTableau αs βs γs)).getD 4 0, (pairResiduals2 2 (lsTableau αs βs γs)).getD 3 0] := by
  have h := lsButcherLoop_rows_head βs γs ([] : List ℚ) []
  simp only [lsCoupling2, pairResiduals2, lsTableau, lsButcherA, lsButcherB, ← h,
    List.getD_cons_succ, List.getD_cons_zero]

/-- RK3–CN as an additive pair: all six conditions of order ≤ 2, exactly -/
theorem rk3_pair_order2 :
    pairResiduals2 2 (lsTableau DinoGen.rk3_alphas DinoGen.rk3_betas DinoGen.rk3_gammas)
      = [0, 0, 0, 0, 0, 0] := by
  decide +kernel

/-- RK4–CN as an additive pair (13-digit decimals): all six conditions of order ≤ 2 within `1e-12` -/
theorem rk4_pair_order2 :
    allSmall (1 / 10 ^ 12)
      (pairResiduals2 2 (lsTableau DinoGen.rk4_alphas DinoGen.rk4_betas DinoGen.rk4_gammas)) = true := by
  decide +kernel

/-- SIL3 as an additive pair: all six conditions of order ≤ 2, exactly -/
theorem sil3_pair_order2 :
    pairResiduals2 2 ⟨DinoGen.sil3_aEx, DinoGen.sil3_aIm, DinoGen.sil3_bEx, DinoGen.sil3_bIm⟩
      = [0, 0, 0, 0, 0, 0] := by
  decide +kernel

/-- CN–RK2 as an additive pair: all six conditions of order ≤ 2, exactly -/
theorem cnrk2_pair_order2 : pairResiduals2 2 (cnrk2Tab : Tableau ℚ) = [0, 0, 0, 0, 0, 0] := by
  decide +kernel

/-- the Euler pair: the two conditions of order 1 hold, all four of order 2 fail (order exactly 1) -/
theorem bfe_pair_order1 :
    pairResiduals2 2 (bfeTab : Tableau ℚ) = [0, 0, -1 / 2, -1 / 2, 1 / 2, 1 / 2] := by
  decide +kernel

/-! ### joint second order of the low-storage schemes as a coefficient certificate -/
section defect
variable {K : Type} [Field K] [CharZero K]

/-- for **any** low-storage coefficients: `R(x,y) − (1 + (x+y) + (x+y)²/2) = E(x,y)/D(y)` with the
 executable coefficient tables `(E, D) = lsrkDefect α β γ`; `D(y) = Π (1 − ½Δα_k·y) ≠ 0` -/
theorem lsrkAmpl_defect (αs βs γs : List K) (x y : K) (hreg : cnRegular y αs) :
    peval (lsrkDefect αs βs γs).2 y ≠ 0 ∧
    (lsrkAmpl αs βs γs x y - (1 + (x + y) + (x + y) ^ 2 / 2)) * peval (lsrkDefect αs βs γs).2 y
      = p2eval (lsrkDefect αs βs γs).1 x y := by
  obtain ⟨hR, hp⟩ := lsrkAmplLoop_eq_ND x y βs αs γs 1 0 1 one_ne_zero hreg
  simp only [div_one] at hR
  have e1 : p2eval ([[1]] : List (List K)) x y = 1 := by simp [p2eval, peval]
  have e0 : p2eval ([] : List (List K)) x y = 0 := by simp [p2eval]
  have ep : peval ([1] : List K) y = 1 := by simp [peval]
  have hpoly := lsrkND_eq_poly x y βs αs γs [[1]] [] [1]
  rw [e1, e0, ep] at hpoly
  rw [hpoly] at hR hp
  have h2 : (1 : K) + 1 = 2 := by norm_num
  have hT : p2eval (taylor2 : List (List K)) x y = 1 + (x + y) + (x + y) ^ 2 / 2 := by
    simp [taylor2, p2eval, peval, half, h2]; ring
  refine ⟨hp, ?_⟩
  unfold lsrkAmpl lsrkDefect
  simp only at hR hp ⊢
  rw [hR, p2eval_p2add, p2eval_p2scale, p2eval_p2mulY, hT]
  field_simp
  ring

end defect

/-- RK4–CN: `(R − (1+(x+y)+(x+y)²/2))·D(y) = E(x,y)` with the coefficient tables below -/
def rk4cnE : List (List ℚ) := (lsrkDefect DinoGen.rk4_alphas DinoGen.rk4_betas DinoGen.rk4_gammas).1
def rk4cnD : List ℚ := (lsrkDefect DinoGen.rk4_alphas DinoGen.rk4_betas DinoGen.rk4_gammas).2

/-- **RK4–CN is second order in `(x,y)` jointly, within `1e-12`** (the coefficients are 13-digit
 decimals): `(R(x,y) − (1+(x+y)+(x+y)²/2))·D(y) = E(x,y)`, `D(0) = 1`, every coefficient of `E` of
 total degree ≤ 2 has modulus ≤ `1e-12` (measured 7e-14), and the cubic part of `E` is not small
 (the joint order is exactly 2) -/
theorem rk4cn_order2 :
    (∀ x y : ℚ, cnRegular y DinoGen.rk4_alphas →
      peval rk4cnD y ≠ 0 ∧
      (lsrkAmpl DinoGen.rk4_alphas DinoGen.rk4_betas DinoGen.rk4_gammas x y
          - (1 + (x + y) + (x + y) ^ 2 / 2)) * peval rk4cnD y = p2eval rk4cnE x y) ∧
    rk4cnD.headD 0 = 1 ∧
    allSmall (1 / 10 ^ 12) (lowCoeffs 2 rk4cnE) = true ∧
    allSmall (1 / 10) (lowCoeffs 3 rk4cnE) = false := by
  refine ⟨fun x y hreg => lsrkAmpl_defect _ _ _ x y hreg, ?_, ?_, ?_⟩ <;> decide +kernel

/-- cross-check of the certificate on RK3–CN: the defect tables are exactly the right-hand side
 and the denominator of `rk3cn_order2`; all coefficients of total degree ≤ 2 vanish -/
theorem rk3cn_defect_tables :
    lsrkDefect DinoGen.rk3_alphas DinoGen.rk3_betas DinoGen.rk3_gammas
      = ([[0, 0, 0, 17 / 96, -7 / 192, 5 / 2304], [0, 0, 49 / 96, -89 / 1152, 5 / 1152],
          [0, 1 / 2, -47 / 1152, 5 / 2304], [1 / 6]], [1, -1 / 2, 47 / 576, -5 / 1152]) ∧
    lowCoeffs 2 (lsrkDefect DinoGen.rk3_alphas DinoGen.rk3_betas DinoGen.rk3_gammas).1
      = [0, 0, 0, 0, 0, 0] := by
  decide +kernel

/-! ## non-vacuity: the hypotheses are met by concrete non-trivial objects -/

/-- an explicit equation (nonlinear `F`) and a purely implicit scalar equation with a genuine
 resolvent -/
example : IsExplicit (⟨fun u => u * u, fun _ => 0, fun x _ => x⟩ : ImEx ℚ ℚ) := ⟨fun _ => rfl, fun _ _ => rfl⟩
example : IsImplicit (scalarEq (0 : ℚ) (-3)) := by intro x; simp [scalarEq]
example : IsResolventAt (scalarEq (0 : ℚ) (-3)) (1 / 8) := scalarEq_isResolventAt _ _ _ (by norm_num)

/-- a consistent triple of lengths with 3 stages, and the tables of the code -/
example : ([0, 1 / 3, 3 / 4, 1] : List ℚ).length = ([0, -5 / 9, -153 / 128] : List ℚ).length + 1 := rfl
example : cnRegular (-1 : ℚ) DinoGen.rk3_alphas := by
  simp [cnRegular, DinoGen.rk3_alphas, half]; norm_num
example : tabRegular (-1 : ℚ) (sil3 ℚ).aIm 1 := by
  simp [tabRegular, sil3, castM, castL, DinoGen.sil3_aIm]; norm_num
example : (fun a : ℚ => decide (a ≠ 0)) 0 = false := by decide

/-- the Crank–Nicolson sub-step resolvents of RK3–CN on a genuinely IMEX scalar problem -/
example : cnResolvents (scalarEq (2 : ℚ) (-3)) (1 / 8) DinoGen.rk3_alphas :=
  ⟨scalarEq_isResolventAt _ _ _ (by norm_num [half]), scalarEq_isResolventAt _ _ _ (by norm_num [half]),
   scalarEq_isResolventAt _ _ _ (by norm_num [half]), trivial⟩

/-- the hypotheses of `imexRK_implicit_stage_equations` on the SIL3 tableau and a stiff scalar
 problem `u' = −3u`, `dt = 1/8`, `y₀ = 1`, and the theorem instantiated there: the first stage
 solves `Y₁ + Y₁/16 = 15/16` -/
example : ∃ Y : Nat → ℚ, Y 0 = 1 ∧ Y 1 * (17 / 16) = 15 / 16 := by
  let t : Tableau ℚ := ⟨DinoGen.sil3_aEx, DinoGen.sil3_aIm, DinoGen.sil3_bEx, DinoGen.sil3_bIm⟩
  have hres : ∀ i (hi : i < t.aIm.length),
      IsResolventAt (scalarEq (0 : ℚ) (-3)) (1 / 8 * (t.aIm[i]).getD (i + 1) 0) := by
    intro i hi
    apply scalarEq_isResolventAt
    match i, hi with
    | 0, _ => norm_num [t, DinoGen.sil3_aIm]
    | 1, _ => norm_num [t, DinoGen.sil3_aIm]
    | 2, _ => norm_num [t, DinoGen.sil3_aIm]
  obtain ⟨Y, h0, hst, -⟩ := imexRK_implicit_stage_equations (fun a : ℚ => decide (a ≠ 0)) (by simp)
    (scalarEq (0 : ℚ) (-3)) (by intro x; simp [scalarEq]) (1 / 8) t (by decide) (by decide) hres 1
  refine ⟨Y, h0, ?_⟩
  have h := hst 0 (by decide)
  simp [t, scalarEq, DinoGen.sil3_aIm, h0] at h
  linarith

/-- the explicit remainders are not identically zero: the schemes are not of higher joint order -/
example : bfeAmpl (1 : ℚ) (1 / 2) - (1 + (1 + 1 / 2)) ≠ 0 := by norm_num [bfeAmpl]

end Dino.C06
