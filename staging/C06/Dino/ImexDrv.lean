import Dino.Imex
/-!
Line-protocol operations for the IMEX model: `imex <F|Q> <op> args…`

The concrete ODE used by the driver: state = flat vector (`List K`), explicit part a polynomial
vector field, implicit part a dense matrix, resolvent by Gaussian elimination (the *external*
`implicit_inverse`, a parameter of the model).

encodings
* vector `v`: comma separated scalars; matrix: rows separated by `;`
* polynomial vector field: components separated by `|`, terms by `+`, a term is
  `coef*e0.e1.….e(n-1)` (exponents, naturals); the empty component is `_`
-/
namespace Dino.Imex
open Dino

/-- driver vectors: lists with zero-padding addition, so that `[]` is a genuine zero -/
structure Vec (K : Type) where
  data : List K

variable {K : Type} [Num K]

def vadd : List K → List K → List K
  | [], q => q
  | p, [] => p
  | a :: p, b :: q => (a + b) :: vadd p q

instance : Add (Vec K) := ⟨fun a b => ⟨vadd a.data b.data⟩⟩
instance : Zero (Vec K) := ⟨⟨[]⟩⟩
instance : Neg (Vec K) := ⟨fun a => ⟨a.data.map (- ·)⟩⟩
instance : SMul K (Vec K) := ⟨fun c a => ⟨a.data.map (c * ·)⟩⟩

def truthy (a : K) : Bool := Num.ltb a 0 || Num.ltb 0 a

/-! ### polynomial vector fields -/

structure Term (K : Type) where
  coef : K
  exps : List Nat

def powK (a : K) : Nat → K
  | 0 => 1
  | n + 1 => powK a n * a

def Term.eval (t : Term K) (u : List K) : K :=
  (List.zipWith powK u t.exps).foldl (· * ·) t.coef

def evalPoly (p : List (List (Term K))) (u : Vec K) : Vec K :=
  ⟨p.map fun comp => (comp.map (·.eval u.data)).foldl (· + ·) 0⟩

def parseTerm? (s : String) : Option (Term K) :=
  match s.splitOn "*" with
  | [c, e] => do
    let c ← Num.parse? (K := K) c
    let e ← (e.splitOn ".").mapM String.toNat?
    pure ⟨c, e⟩
  | _ => none

def parsePoly? (s : String) : Option (List (List (Term K))) :=
  (s.splitOn "|").mapM fun comp =>
    if comp = "_" then some [] else (comp.splitOn "+").mapM parseTerm?

/-! ### dense linear algebra for the resolvent -/

def matVecD (m : List (List K)) (u : List K) : List K :=
  m.map fun row => (List.zipWith (· * ·) row u).foldl (· + ·) 0

/-- rows of `[1 − η·G | rhs]` -/
def augmented (g : List (List K)) (η : K) (rhs : List K) : List (List K) :=
  (g.zipIdx.zip rhs).map fun ((row, i), r) =>
    (row.zipIdx.map fun (a, j) => (if i = j then (1 : K) else 0) - η * a) ++ [r]

/-- Gauss–Jordan elimination with partial pivoting on an augmented matrix; `none` if singular -/
def gaussJordan (n : Nat) : Nat → List (List K) → Option (List (List K))
  | 0, m => some m
  | fuel + 1, m =>
    let c := n - (fuel + 1)
    -- pivot: row ≥ c with the largest |entry| in column c
    let cand := (m.zipIdx.filter fun (_, i) => i ≥ c)
    match cand.foldl (fun best (row, i) =>
        match best with
        | none => some (row, i)
        | some (brow, bi) =>
          if Num.ltb (absK (brow.getD c 0)) (absK (row.getD c 0)) then some (row, i) else some (brow, bi))
        none with
    | none => none
    | some (prow, pi) =>
      let p := prow.getD c 0
      if !(truthy p) then none else
      let prow' := prow.map (· / p)
      let swapped := m.zipIdx.map fun (row, i) =>
        if i = c then prow' else if i = pi then (m.getD c []) else row
      let cleared := swapped.zipIdx.map fun (row, i) =>
        if i = c then row else
          let f := row.getD c 0
          List.zipWith (fun a b => a - f * b) row prow'
      gaussJordan n fuel cleared

def solveResolvent (g : List (List K)) (x : Vec K) (η : K) : Vec K :=
  let n := g.length
  match gaussJordan n n (augmented g η x.data) with
  | some m => ⟨m.map fun row => row.getD n 0⟩
  | none => ⟨x.data.map fun _ => (0 : K) / 0⟩

def mkEq (p : List (List (Term K))) (g : List (List K)) : ImEx K (Vec K) :=
  ⟨evalPoly p, fun u => ⟨matVecD g u.data⟩, solveResolvent g⟩

def rv (v : Vec K) : String := renderVec v.data

variable (K)

def runK : List String → Option String
  | ["bfe", p, g, dt, u] => do
      let p ← parsePoly? (K := K) p; let g ← parseMat? g; let dt ← Num.parse? dt; let u ← parseVec? u
      pure (rv (bfe (mkEq p g) dt ⟨u⟩))
  | ["cnrk2", p, g, dt, u] => do
      let p ← parsePoly? (K := K) p; let g ← parseMat? g; let dt ← Num.parse? dt; let u ← parseVec? u
      pure (rv (cnrk2 (mkEq p g) dt ⟨u⟩))
  | ["leapfrog", p, g, dt, al, u0, u1] => do
      let p ← parsePoly? (K := K) p; let g ← parseMat? g; let dt ← Num.parse? dt
      let al ← Num.parse? al; let u0 ← parseVec? u0; let u1 ← parseVec? u1
      let r := leapfrog (mkEq p g) dt al (⟨u0⟩, ⟨u1⟩)
      pure (rv r.1 ++ " " ++ rv r.2)
  | ["lsrk", p, g, dt, a, b, c, u] => do
      let p ← parsePoly? (K := K) p; let g ← parseMat? g; let dt ← Num.parse? dt
      let a ← parseVec? a; let b ← parseVec? b; let c ← parseVec? c; let u ← parseVec? u
      match lsrk (mkEq p g) dt a b c with
      | some step => pure (rv (step ⟨u⟩))
      | none => pure "value-error"
  | ["tab", p, g, dt, aex, aim, bex, bim, u] => do
      let p ← parsePoly? (K := K) p; let g ← parseMat? g; let dt ← Num.parse? dt
      let aex ← parseMat? aex; let aim ← parseMat? aim; let bex ← parseVec? bex; let bim ← parseVec? bim
      let u ← parseVec? u
      match imexRK truthy (mkEq p g) dt ⟨aex, aim, bex, bim⟩ with
      | some step => pure (rv (step ⟨u⟩))
      | none => pure "value-error"
  -- the low-storage scheme run as the generic IMEX Runge–Kutta method of its combined Butcher pair
  | ["lstab", p, g, dt, a, b, c, u] => do
      let p ← parsePoly? (K := K) p; let g ← parseMat? g; let dt ← Num.parse? dt
      let a ← parseVec? a; let b ← parseVec? b; let c ← parseVec? c; let u ← parseVec? u
      if !(lsrkAccepts a.length b.length c.length) then pure "value-error" else
      match imexRK truthy (mkEq p g) dt (lsTableau a b c) with
      | some step => pure (rv (step ⟨u⟩))
      | none => pure "value-error"
  -- Euler pair / CN–RK2 run as the generic IMEX Runge–Kutta method of their Butcher pairs
  | ["pairtab", which, p, g, dt, u] => do
      let p ← parsePoly? (K := K) p; let g ← parseMat? g; let dt ← Num.parse? dt; let u ← parseVec? u
      let t ← (if which = "bfe" then some (bfeTab (K := K)) else if which = "cnrk2" then some cnrk2Tab else none)
      match imexRK truthy (mkEq p g) dt t with
      | some step => pure (rv (step ⟨u⟩))
      | none => pure "value-error"
  -- the same with the time-reversed equation
  | ["rev", which, p, g, dt, u] => do
      let p ← parsePoly? (K := K) p; let g ← parseMat? g; let dt ← Num.parse? dt; let u ← parseVec? u
      let e := timeReversed (mkEq p g)
      if which = "bfe" then pure (rv (bfe e dt ⟨u⟩))
      else if which = "cnrk2" then pure (rv (cnrk2 e dt ⟨u⟩))
      else none
  -- compose_equations: list of explicit polynomial fields `ps` (separated by `&`), flags, one matrix
  | ["compose", flags, ps, g, dt, u] => do
      let flags ← (flags.splitOn ",").mapM parseBool?
      let ps ← (ps.splitOn "&").mapM (parsePoly? (K := K))
      let g ← parseMat? g; let dt ← Num.parse? dt; let u ← parseVec? u
      if flags.length ≠ ps.length then none else
      let eqs : List (Eqn K (Vec K)) := (flags.zip ps).map fun (f, p) =>
        if f then Eqn.imex (mkEq p g) else Eqn.explicit (evalPoly p)
      match compose eqs with
      | some e => pure (rv (bfe e dt ⟨u⟩))
      | none => pure "value-error"
  -- amplification functions
  | ["ampl", "bfe", x, y] => do
      let x ← Num.parse? (K := K) x; let y ← Num.parse? y; pure (Num.render (bfeAmpl x y))
  | ["ampl", "cnrk2", x, y] => do
      let x ← Num.parse? (K := K) x; let y ← Num.parse? y; pure (Num.render (cnrk2Ampl x y))
  | ["ampl", "leapfrog", al, x, y] => do
      let al ← Num.parse? (K := K) al; let x ← Num.parse? x; let y ← Num.parse? y
      pure (Num.render (leapfrogAmplPrev al x y) ++ " " ++ Num.render (leapfrogAmplCur al x y))
  | ["ampl", "lsrk", a, b, c, x, y] => do
      let a ← parseVec? (K := K) a; let b ← parseVec? b; let c ← parseVec? c
      let x ← Num.parse? x; let y ← Num.parse? y
      pure (Num.render (lsrkAmpl a b c x y))
  | ["ampl", "tab", aex, aim, bex, bim, x, y] => do
      let aex ← parseMat? (K := K) aex; let aim ← parseMat? aim; let bex ← parseVec? bex
      let bim ← parseVec? bim; let x ← Num.parse? x; let y ← Num.parse? y
      pure (Num.render (tabAmpl ⟨aex, aim, bex, bim⟩ x y))
  -- T6.2 on the code: explicit RK in Butcher form with the tableau derived from (β, γ)
  | ["lserk", p, dt, b, c, u] => do
      let p ← parsePoly? (K := K) p; let dt ← Num.parse? (K := K) dt; let b ← parseVec? (K := K) b; let c ← parseVec? (K := K) c
      let u ← parseVec? u
      pure (rv (erk (evalPoly p) dt (lsButcherA b c) (lsButcherB b c) (⟨u⟩ : Vec K)))
  | _ => none

def run : List String → Option String
  | "F" :: rest => runK Float rest
  | "Q" :: rest => runK Rat rest
  | ["accepts", "lsrk", a, b, c] => do
      let a ← a.toNat?; let b ← b.toNat?; let c ← c.toNat?
      pure (renderBool (lsrkAccepts a b c) ++ " " ++ renderBool (lsrkAcceptsOld a b c))
  | ["accepts", "tab", a, b, c, d] => do
      let a ← a.toNat?; let b ← b.toNat?; let c ← c.toNat?; let d ← d.toNat?
      pure (renderBool (tableauAcceptsLens a b c d))
  | ["accepts", "compose", flags] => do
      let flags ← (if flags = "_" then some [] else (flags.splitOn ",").mapM parseBool?)
      pure (renderBool (composeAccepts flags))
  | _ => none

end Dino.Imex
