import Dino.Util
/-!
# IMEX time integrators — executable model (core Lean only)

Mirrors `dinosaur/time_integration.py`: `ImplicitExplicitODE`, `TimeReversedImExODE`,
`compose_equations`, `backward_forward_euler`, `semi_implicit_leapfrog`, `crank_nicolson_rk2`,
`low_storage_runge_kutta_crank_nicolson` (with the length validation, current and previous form),
`ImExButcherTableau` (+ `__post_init__`), `imex_runge_kutta`.

The state space `V` and the scalars `K` are generic (core classes only); the right-hand sides
`F`, `G` and the resolvent `Ginv x η = (1 - η·G)⁻¹ x` are parameters, as in the code.  The named
schemes `crank_nicolson_rk3/rk4`, `imex_rk_sil3` are the generic factories applied to the coefficient
tables of `DinoGen/Tableaux.lean` (regenerated from the source on every run).

Also here (executable, so that they can be evaluated by `decide +kernel` on the generated tables
and compared with the real code): the scalar amplification functions, the conversion of the
low-storage coefficients `(β, γ)` into a Butcher tableau, and the order-condition residuals.
-/
namespace Dino.Imex

/-- `ImplicitExplicitODE`: `∂x/∂t = F x + G x`, `Ginv x η = (1 - η G)⁻¹ x` -/
structure ImEx (K V : Type) where
  F : V → V
  G : V → V
  Ginv : V → K → V

/-- `ImExButcherTableau`; `aEx[i-1]`, `aIm[i-1]` are the rows of stage `i ≥ 1`
 (`aIm[i-1][i]` is the diagonal entry) -/
structure Tableau (K : Type) where
  aEx : List (List K)
  aIm : List (List K)
  bEx : List K
  bIm : List K

/-! ## validation logic -/

/-- current check: `if not len(alphas) - 1 == len(betas) == len(gammas): raise` -/
def lsrkAccepts (na nb ng : Nat) : Bool :=
  ((na : Int) - 1 == (nb : Int)) && (nb == ng)

/-- the check before commit 2616c50: `if len(alphas) - 1 != len(betas) != len(gammas): raise`
 (a chained comparison: raises only when *both* inequalities hold) -/
def lsrkAcceptsOld (na nb ng : Nat) : Bool :=
  !(((na : Int) - 1 != (nb : Int)) && (nb != ng))

/-- `ImExButcherTableau.__post_init__`: `len({len(a_ex)+1, len(a_im)+1, len(b_ex), len(b_im)}) > 1`
 raises -/
def tableauAcceptsLens (nEx nIm nbEx nbIm : Nat) : Bool :=
  !(decide ([nEx + 1, nIm + 1, nbEx, nbIm].eraseDups.length > 1))

def Tableau.accepts {K : Type} (t : Tableau K) : Bool :=
  tableauAcceptsLens t.aEx.length t.aIm.length t.bEx.length t.bIm.length

/-- `compose_equations`: exactly one member must be an `ImplicitExplicitODE` -/
def composeAccepts (isImEx : List Bool) : Bool := (isImEx.filter id).length == 1

section steps
variable {K V : Type} [Add K] [Sub K] [Mul K] [Div K] [Neg K] [Zero K] [One K]
variable [Add V] [Zero V] [SMul K V]

/-- the literal `0.5` -/
def half : K := 1 / (1 + 1)

/-- `TimeReversedImExODE` -/
def timeReversed [Neg V] (e : ImEx K V) : ImEx K V :=
  ⟨fun x => -(e.F x), fun x => -(e.G x), fun x η => e.Ginv x (-η)⟩

/-- member of the list given to `compose_equations` -/
inductive Eqn (K V : Type) where
  | explicit (F : V → V)
  | imex (e : ImEx K V)

def Eqn.F : Eqn K V → V → V
  | .explicit F => F
  | .imex e => e.F

def Eqn.isImEx : Eqn K V → Bool
  | .explicit _ => false
  | .imex _ => true

/-- `compose_equations`: explicit terms are summed (`sum` starts from `0`) in list order, the
 implicit part is that of the single IMEX member; `none` = `ValueError` -/
def compose (eqs : List (Eqn K V)) : Option (ImEx K V) :=
  match eqs.filterMap (fun q => match q with | .imex e => some e | .explicit _ => none) with
  | [e] => some ⟨fun x => eqs.foldl (fun acc q => acc + q.F x) 0, e.G, e.Ginv⟩
  | _ => none

/-- `backward_forward_euler` -/
def bfe (e : ImEx K V) (dt : K) (u0 : V) : V :=
  e.Ginv (u0 + dt • e.F u0) dt

/-- `crank_nicolson_rk2` -/
def cnrk2 (e : ImEx K V) (dt : K) (u0 : V) : V :=
  let g := u0 + (half * dt) • e.G u0
  let h1 := e.F u0
  let u1 := e.Ginv (g + dt • h1) (half * dt)
  let h2 := (half : K) • (e.F u1 + h1)
  e.Ginv (g + dt • h2) (half * dt)

/-- `semi_implicit_leapfrog`: state is the pair `(previous, current)` -/
def leapfrog (e : ImEx K V) (dt α : K) (u : V × V) : V × V :=
  let previous := u.1
  let current := u.2
  let intermediate := previous + ((1 + 1) * dt) • (e.F current + (1 - α) • e.G previous)
  let η := (1 + 1) * dt * α
  (current, e.Ginv intermediate η)

/-- body of the loop of `low_storage_runge_kutta_crank_nicolson`:
 `h = F(u) + β[k]·h; µ = 0.5·dt·(α[k+1] − α[k]); u = G_inv(u + γ[k]·dt·h + µ·G(u), µ)` -/
def lsrkLoop (e : ImEx K V) (dt : K) : List K → List K → List K → V → V → V
  | a0 :: a1 :: as, b :: bs, c :: cs, u, h =>
    let h' := e.F u + b • h
    let μ := half * dt * (a1 - a0)
    lsrkLoop e dt (a1 :: as) bs cs (e.Ginv (u + (c * dt) • h' + μ • e.G u) μ) h'
  | _, _, _, u, _ => u

/-- `low_storage_runge_kutta_crank_nicolson`; `none` = `ValueError` (for accepted lengths the
 parallel recursion over the three lists is the loop `for k in range(len(β))`) -/
def lsrk (e : ImEx K V) (dt : K) (αs βs γs : List K) : Option (V → V) :=
  if lsrkAccepts αs.length βs.length γs.length then some (fun u => lsrkLoop e dt αs βs γs u 0)
  else none

/-- `sum(a[j] * f[j] for j in range(len(f)) if a[j])`, `nz` is Python truthiness of a number -/
def wsum (nz : K → Bool) (row : List K) (fs : List V) : V :=
  (row.zip fs).foldl (fun acc p => if nz p.1 then acc + p.1 • p.2 else acc) 0

/-- the stage loop of `imex_runge_kutta`; `fs`, `gs` are the lists `f[0..i-1]`, `g[0..i-1]`
 (so `i = fs.length`).  `F(Y)`/`G(Y)` are stored for every stage: the code skips the evaluation
 exactly when every later coefficient of that stage is falsy, in which case the value is never
 used, so the laziness is unobservable for pure `F`, `G`. -/
def stages (nz : K → Bool) (e : ImEx K V) (dt : K) (y0 : V) :
    List (List K) → List (List K) → List V → List V → List V × List V
  | rex :: tex, rim :: tim, fs, gs =>
    let Ystar := y0 + dt • wsum nz rex fs + dt • wsum nz rim gs
    let Y := e.Ginv Ystar (dt * rim.getD fs.length 0)
    stages nz e dt y0 tex tim (fs ++ [e.F Y]) (gs ++ [e.G Y])
  | _, _, fs, gs => (fs, gs)

def imexRKStep (nz : K → Bool) (e : ImEx K V) (dt : K) (t : Tableau K) (y0 : V) : V :=
  let fg := stages nz e dt y0 t.aEx t.aIm [e.F y0] [e.G y0]
  y0 + dt • wsum nz t.bEx fg.1 + dt • wsum nz t.bIm fg.2

/-- `imex_runge_kutta(ImExButcherTableau(...), …)`; `none` = `ValueError` -/
def imexRK (nz : K → Bool) (e : ImEx K V) (dt : K) (t : Tableau K) : Option (V → V) :=
  if t.accepts then some (imexRKStep nz e dt t) else none

/-- reference explicit Runge–Kutta method in Butcher form (rows of `A` strictly lower
 triangular, row `i` has `i` entries): used as the *specification* in the reduction theorems -/
def erkLoop (F : V → V) (dt : K) (y0 : V) (b : List K) : List (List K) → List V → V
  | [], fs => y0 + dt • wsum (fun _ => true) b fs
  | r :: rows, fs => erkLoop F dt y0 b rows (fs ++ [F (y0 + dt • wsum (fun _ => true) r fs)])

def erk (F : V → V) (dt : K) (A : List (List K)) (b : List K) (y0 : V) : V :=
  erkLoop F dt y0 b A []

end steps

/-! ## scalar amplification functions (`F = λ·`, `G = μ·`, `x = dt·λ`, `y = dt·μ`) -/
section ampl
variable {K : Type} [Add K] [Sub K] [Mul K] [Div K] [Neg K] [Zero K] [One K]

def dot (a b : List K) : K := (List.zipWith (· * ·) a b).foldl (· + ·) 0

def bfeAmpl (x y : K) : K := (1 + x) / (1 - y)

def cnrk2Ampl (x y : K) : K :=
  let s : K := 1 + half * y
  let d : K := 1 - half * y
  let r1 := (s + x) / d
  (s + x * (half * (r1 + 1))) / d

/-- `future = lfA·previous + lfB·current` -/
def leapfrogAmplPrev (α _x y : K) : K := (1 + (1 + 1) * ((1 - α) * y)) / (1 - (1 + 1) * α * y)
def leapfrogAmplCur (α x y : K) : K := ((1 + 1) * x) / (1 - (1 + 1) * α * y)

/-- `(cu, cH)`: `u = cu·u₀`, `dt·h = cH·u₀` -/
def lsrkAmplLoop (x y : K) : List K → List K → List K → K → K → K
  | a0 :: a1 :: as, b :: bs, c :: cs, cu, cH =>
    let cH' := x * cu + b * cH
    let w := half * y * (a1 - a0)
    lsrkAmplLoop x y (a1 :: as) bs cs ((cu + c * cH' + w * cu) / (1 - w)) cH'
  | _, _, _, cu, _ => cu

def lsrkAmpl (αs βs γs : List K) (x y : K) : K := lsrkAmplLoop x y αs βs γs 1 0

/-- stage multipliers `Y_i = ys[i]·y₀` -/
def tabAmplStages (x y : K) : List (List K) → List (List K) → List K → List K
  | rex :: tex, rim :: tim, ys =>
    tabAmplStages x y tex tim
      (ys ++ [(1 + x * dot rex ys + y * dot rim ys) / (1 - y * rim.getD ys.length 0)])
  | _, _, ys => ys

def tabAmpl (t : Tableau K) (x y : K) : K :=
  let ys := tabAmplStages x y t.aEx t.aIm [1]
  1 + x * dot t.bEx ys + y * dot t.bIm ys

/-! ## polynomials in `x` as coefficient lists (for the `μ = 0` expansion of low-storage schemes) -/

def padd : List K → List K → List K
  | [], q => q
  | p, [] => p
  | a :: p, b :: q => (a + b) :: padd p q

def pscale (c : K) (p : List K) : List K := p.map (c * ·)
def pshift (p : List K) : List K := 0 :: p
def peval (p : List K) (x : K) : K := p.foldr (fun a acc => a + x * acc) 0

/-- coefficients (in `x`) of the amplification polynomial of the explicit low-storage scheme -/
def lsrkPolyLoop : List K → List K → List K → List K → List K
  | b :: bs, c :: cs, pu, pH =>
    let pH' := padd (pshift pu) (pscale b pH)
    lsrkPolyLoop bs cs (padd pu (pscale c pH')) pH'
  | _, _, pu, _ => pu

def lsrkPoly (βs γs : List K) : List K := lsrkPolyLoop βs γs [1] []

/-! ## bivariate polynomials in `(x, y)` (outer index: power of `x`; inner lists: polynomials in
`y`), for the joint Taylor defect of the low-storage schemes -/

def pmul : List K → List K → List K
  | [], _ => []
  | a :: p, q => padd (pscale a q) (pshift (pmul p q))

def p2add : List (List K) → List (List K) → List (List K)
  | [], Q => Q
  | P, [] => P
  | p :: P, q :: Q => padd p q :: p2add P Q

def p2scale (c : K) (P : List (List K)) : List (List K) := P.map (pscale c)
def p2shiftX (P : List (List K)) : List (List K) := [] :: P
/-- multiplication by a polynomial in `y` -/
def p2mulY (P : List (List K)) (d : List K) : List (List K) := P.map (pmul · d)
def p2eval (P : List (List K)) (x y : K) : K := P.foldr (fun q acc => peval q y + x * acc) 0

/-- numerator of `u`, numerator of `dt·h` (bivariate) and common denominator (in `y`) of the
 low-storage amplification function, as coefficient tables; mirrors `lsrkAmplLoop` without division -/
def lsrkNDPoly : List K → List K → List K → List (List K) → List (List K) → List K →
    List (List K) × List K
  | a0 :: a1 :: as, b :: bs, c :: cs, nu, nh, p =>
    let t := p2add (p2shiftX nu) (p2scale b nh)
    lsrkNDPoly (a1 :: as) bs cs
      (p2add (p2add nu (p2scale c t)) (p2mulY nu [0, half * (a1 - a0)]))
      (p2mulY t [1, -(half * (a1 - a0))]) (pmul p [1, -(half * (a1 - a0))])
  | _, _, _, nu, _, p => (nu, p)

/-- `1 + (x+y) + (x+y)²/2` -/
def taylor2 : List (List K) := [[1, 1, half], [1, 1], [half]]

/-- `(E, D)`: `R(x,y) − (1 + (x+y) + (x+y)²/2) = E(x,y)/D(y)` for the amplification function `R` of
 the low-storage scheme -/
def lsrkDefect (αs βs γs : List K) : List (List K) × List K :=
  let nd := lsrkNDPoly αs βs γs [[1]] [] [1]
  (p2add nd.1 (p2scale (-1) (p2mulY taylor2 nd.2)), nd.2)

/-- the coefficients of total degree `≤ n` of a bivariate coefficient table -/
def lowCoeffs (n : Nat) (P : List (List K)) : List K :=
  (P.zipIdx.map fun qi => qi.1.take (n + 1 - qi.2)).flatten

/-! ## low-storage coefficients → Butcher tableau -/

/-- `uc`, `hc`: coefficients of `(u − u₀)/dt` and of `h` on the evaluations `F(Y₀), …`.
 Returns the remaining rows of `A` and the weights `b`. -/
def lsButcherLoop : List K → List K → List K → List K → List (List K) × List K
  | b :: bs, c :: cs, uc, hc =>
    let hc' := hc.map (b * ·) ++ [1]
    let uc' := List.zipWith (· + ·) (uc ++ [0]) (hc'.map (c * ·))
    let r := lsButcherLoop bs cs uc' hc'
    (uc :: r.1, r.2)
  | _, _, uc, _ => ([], uc)

def lsButcherA (βs γs : List K) : List (List K) := (lsButcherLoop βs γs [] []).1
def lsButcherB (βs γs : List K) : List K := (lsButcherLoop βs γs [] []).2

/-! ## order-condition residuals of a Butcher pair (rows of `A` may be ragged: missing = 0) -/

def lsum (v : List K) : K := v.foldl (· + ·) 0
def rowSums (A : List (List K)) : List K := A.map lsum
def matVec (A : List (List K)) (v : List K) : List K := A.map (fun r => dot r v)
def hmul (a b : List K) : List K := List.zipWith (· * ·) a b

/-- rooted-tree conditions of order ≤ 3 for weights `b`, matrix `A` and abscissae `c`, `c'`
 (for an additive pair the trees are coloured: `b`/`A` of one method, `c` of another):
 `Σb−1, Σb·c−1/2, Σb·c·c'−1/3, Σb·A·c−1/6` -/
def residuals3 (n2 n3 n6 : K) (A : List (List K)) (b c c' : List K) : List K :=
  [lsum b - 1, dot b c - 1 / n2, dot b (hmul c c') - 1 / n3, dot b (matVec A c) - 1 / n6]

/-- the four additional conditions of order 4 -/
def residuals4 (n4 n8 n12 n24 : K) (A : List (List K)) (b c : List K) : List K :=
  [dot b (hmul c (hmul c c)) - 1 / n4, dot b (hmul c (matVec A c)) - 1 / n8,
   dot b (matVec A (hmul c c)) - 1 / n12, dot b (matVec A (matVec A c)) - 1 / n24]

/-- implicit Butcher rows of the Crank–Nicolson sub-steps of the low-storage scheme:
 stage `k` (1-based) has `Y_k = Y_{k-1} + ½Δα_k (G Y_{k-1} + G Y_k)` -/
def cnRows : List K → List K → List (List K)
  | a0 :: a1 :: as, prev =>
    let w := half * (a1 - a0)
    let row := (padd prev (List.replicate (prev.length - 1) 0 ++ [w])) ++ [w]
    row :: cnRows (a1 :: as) row
  | _, _ => []

/-- the combined additive (explicit, implicit) Butcher pair of a low-storage scheme with `s` stages,
 in the layout of `ImExButcherTableau` (`s + 1` stages `Y₀ = y₀, …, Y_s`, the step result is `Y_s`):
 explicit rows = rows `1…s−1` of `lsButcherA` followed by the weights `lsButcherB`; implicit rows =
 the Crank–Nicolson rows `cnRows α [0]`; `b_ex = lsButcherB ++ [0]`, `b_im` = last implicit row -/
def lsTableau (αs βs γs : List K) : Tableau K :=
  ⟨(lsButcherA βs γs ++ [lsButcherB βs γs]).tail, cnRows αs [0],
   lsButcherB βs γs ++ [0], ([0] :: cnRows αs [0]).getLastD []⟩

/-- the Euler pair as an additive Butcher pair: `Y₁ = y₀ + dt·F(y₀) + dt·G(Y₁)`, result `Y₁` -/
def bfeTab : Tableau K := ⟨[[1]], [[0, 1]], [1, 0], [0, 1]⟩

/-- CN–RK2 (Heun + Crank–Nicolson) as an additive Butcher pair, result `Y₂` -/
def cnrk2Tab : Tableau K :=
  ⟨[[1], [half, half]], [[half, half], [half, 0, half]], [half, half, 0], [half, 0, half]⟩

/-- order ≤ 2 conditions of an additive pair: `Σbᴱ−1, Σbᴵ−1, bᴱ·cᴱ−½, bᴱ·cᴵ−½, bᴵ·cᴱ−½, bᴵ·cᴵ−½`
 (the two trees of order 1 and the four two-coloured trees of order 2); `n2` is the number 2 -/
def pairResiduals2 (n2 : K) (t : Tableau K) : List K :=
  let cE := rowSums ([] :: t.aEx)
  let cI := rowSums ([0] :: t.aIm)
  [lsum t.bEx - 1, lsum t.bIm - 1, dot t.bEx cE - 1 / n2, dot t.bEx cI - 1 / n2,
   dot t.bIm cE - 1 / n2, dot t.bIm cI - 1 / n2]

end ampl

end Dino.Imex
