import DinoProofs.Lemmas.Dynamics

/-!
# C04 — the full tendency does not depend on the reference-temperature split
-/
namespace Dino.C04
open Dino Dino.Sigma Dino.Dynamics

section T41
variable {K V : Type} [Field K] [AddCommGroup V] [Module K V]

/-- **T4.1** For every level set, reference profile `T` and `κ`: the implicit temperature weights
 `H = get_temperature_implicit_weights` applied to a divergence column `D` (with values in any
 `K`-module: spectral coefficients, nodal fields, scalars) equal the explicit formulas evaluated on
 the reference profile: `κ·T·(g-part of ω/p with G = D)` minus the centred advection of `T` by the
 `D`-part of `σ̇`.  The two halves of the split are the same discretisation. -/
theorem implicit_weights_eq_explicit_on_reference (v : Vert K) (T : List K) (κ : K) (D : List V)
    (n : ℕ) (hb : v.boundaries.length = n + 1) (hlc : v.logCenters.length = n) (hT : T.length = n)
    (hD : D.length = n) (h2 : (1 + 1 : K) ≠ 0) :
    Col.matvec (Implicit.hMatrix v.ds T v.alpha κ) D
      = Col.sub (Col.smul κ (Col.wmul T (gPart v.ds v.alpha D)))
          (advScalar v.ctc (sigmaDotOf v.ds (Col.cumSigmaIntegral v.ds D)) T) :=
  hMatrix_matvec_vert v T κ D n hb hlc hT hD h2

end T41
end Dino.C04
