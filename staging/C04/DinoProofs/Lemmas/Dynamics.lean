import Dino.Dynamics
import DinoProofs.Lemmas.Implicit
import Mathlib.Algebra.Module.Basic
import Mathlib.Algebra.Module.LinearMap.Defs
import Mathlib.Algebra.Algebra.Basic
import Mathlib.Algebra.BigOperators.Group.Finset.Basic
import Mathlib.Algebra.BigOperators.GroupWithZero.Action
import Mathlib.Tactic.Module
import Mathlib.Tactic.Ring
import Mathlib.Tactic.FieldSimp
import Mathlib.Tactic.LinearCombination

/-!
# Lemmas about `Dino.Dynamics`

1. level-wise reading `lv x i` of a column and closed forms of the column routines;
2. the column identity behind C04 (T4.1): `H·D = κ·T⊙gp(D) − adv(σ̇(D), T)` in any `K`-module;
3. the named laws of the horizontal operations (`Laws`, `MoistLaws`), as `Prop` structures.
-/
namespace Dino.Dynamics
open Dino Dino.Sigma

/-! ## reading a column level by level -/
section lv
variable {V : Type} [Zero V]

/-- the value at level `i`, zero outside the column -/
def lv (x : List V) (i : ℕ) : V := x.getD i 0

theorem lv_def (x : List V) (i : ℕ) : lv x i = x[i]?.getD 0 := by
  simp [lv, List.getD_eq_getElem?_getD]

theorem getElem?_eq_lv {x : List V} {i : ℕ} (h : i < x.length) : x[i]? = some (lv x i) := by
  simp [lv_def, List.getElem?_eq_getElem h]

theorem lv_of_ge {x : List V} {i : ℕ} (h : x.length ≤ i) : lv x i = 0 := by
  simp [lv_def, List.getElem?_eq_none h]

theorem ext_lv {x y : List V} {n : ℕ} (hx : x.length = n) (hy : y.length = n)
    (h : ∀ i, i < n → lv x i = lv y i) : x = y := by
  apply List.ext_getElem?
  intro i
  by_cases hi : i < n
  · rw [getElem?_eq_lv (by omega), getElem?_eq_lv (by omega), h i hi]
  · rw [List.getElem?_eq_none (by omega), List.getElem?_eq_none (by omega)]

@[simp] theorem lv_nil (i : ℕ) : lv ([] : List V) i = 0 := by simp [lv]
@[simp] theorem lv_cons_zero (a : V) (x : List V) : lv (a :: x) 0 = a := by simp [lv]
@[simp] theorem lv_cons_succ (a : V) (x : List V) (i : ℕ) : lv (a :: x) (i + 1) = lv x i := by
  simp [lv]

theorem lv_append_zero (x : List V) (i : ℕ) : lv (x ++ [0]) i = lv x i := by
  rw [lv_def, lv_def, List.getElem?_append]
  by_cases h : i < x.length
  · simp [h]
  · rw [if_neg h, List.getElem?_eq_none (show x.length ≤ i by omega)]
    by_cases h0 : i - x.length = 0
    · simp [h0]
    · rw [List.getElem?_eq_none (by simp; omega)]

theorem lv_tail (x : List V) (i : ℕ) : lv x.tail i = lv x (i + 1) := by
  simp [lv_def]

theorem lv_dropLast (x : List V) (i : ℕ) :
    lv x.dropLast i = if i + 1 < x.length then lv x i else 0 := by
  rw [lv_def, List.getElem?_dropLast]
  by_cases h : i + 1 < x.length
  · rw [if_pos (by omega), if_pos h, lv_def]
  · rw [if_neg (by omega), if_neg h]; rfl

theorem lv_map {W : Type} [Zero W] (f : V → W) (x : List V) {i : ℕ} (h : i < x.length) :
    lv (x.map f) i = f (lv x i) := by
  simp [lv_def, List.getElem?_eq_getElem h]

theorem lv_map_zero {W : Type} [Zero W] (f : V → W) (hf : f 0 = 0) (x : List V) (i : ℕ) :
    lv (x.map f) i = f (lv x i) := by
  by_cases h : i < x.length
  · exact lv_map f x h
  · rw [lv_of_ge (by simpa using h), lv_of_ge (by omega), hf]

theorem lv_zipWith {A B : Type} [Zero A] [Zero B] (f : A → B → V) (a : List A) (b : List B)
    {i : ℕ} (ha : i < a.length) (hb : i < b.length) :
    lv (List.zipWith f a b) i = f (lv a i) (lv b i) := by
  rw [lv_def, List.getElem?_zipWith, getElem?_eq_lv ha, getElem?_eq_lv hb]; rfl

theorem lv_zipWith_zero {A B : Type} [Zero A] [Zero B] (f : A → B → V)
    (hl : ∀ b, f 0 b = 0) (hr : ∀ a, f a 0 = 0) (a : List A) (b : List B) (i : ℕ) :
    lv (List.zipWith f a b) i = f (lv a i) (lv b i) := by
  by_cases ha : i < a.length
  · by_cases hb : i < b.length
    · exact lv_zipWith f a b ha hb
    · rw [lv_of_ge (by simp; omega), lv_of_ge (x := b) (by omega), hr]
  · rw [lv_of_ge (by simp; omega), lv_of_ge (x := a) (by omega), hl]

theorem lv_range_map (f : ℕ → V) (n : ℕ) {i : ℕ} (h : i < n) :
    lv ((List.range n).map f) i = f i := by
  simp [lv_def, h]

end lv

/-! ## sums -/
section sums
variable {K V : Type} [Field K] [AddCommGroup V] [Module K V]

theorem sum_take_eq (x : List V) (k : ℕ) :
    (x.take k).sum = ∑ s ∈ Finset.range k, lv x s := by
  induction x generalizing k with
  | nil => simp
  | cons a t ih =>
    cases k with
    | zero => simp
    | succ k =>
      rw [List.take_succ_cons, List.sum_cons, ih, Finset.sum_range_succ']
      simp [add_comm]

theorem sum_eq_range (x : List V) : x.sum = ∑ s ∈ Finset.range x.length, lv x s := by
  rw [← sum_take_eq, List.take_length]

theorem lv_wmul (w : List K) (x : List V) (i : ℕ) : lv (Col.wmul w x) i = lv w i • lv x i := by
  unfold Col.wmul
  exact lv_zipWith_zero _ (fun b => zero_smul K b) (fun a => smul_zero a) w x i

theorem lv_add (x y : List V) (h : x.length = y.length) (i : ℕ) :
    lv (Col.add x y) i = lv x i + lv y i := by
  unfold Col.add
  by_cases hx : i < x.length
  · exact lv_zipWith _ x y hx (by omega)
  · rw [lv_of_ge (by simp; omega), lv_of_ge (x := x) (by omega), lv_of_ge (x := y) (by omega), add_zero]

theorem lv_sub (x y : List V) (h : x.length = y.length) (i : ℕ) :
    lv (Col.sub x y) i = lv x i - lv y i := by
  unfold Col.sub
  by_cases hx : i < x.length
  · exact lv_zipWith _ x y hx (by omega)
  · rw [lv_of_ge (by simp; omega), lv_of_ge (x := x) (by omega), lv_of_ge (x := y) (by omega), sub_zero]

theorem lv_neg (x : List V) (i : ℕ) : lv (Col.neg x) i = -lv x i := by
  unfold Col.neg
  exact lv_map_zero _ neg_zero x i

theorem lv_smul (c : K) (x : List V) (i : ℕ) : lv (Col.smul c x) i = c • lv x i := by
  unfold Col.smul
  exact lv_map_zero _ (smul_zero c) x i

end sums

/-! ## closed forms of the column routines -/
section closed
variable {K V : Type} [Field K] [AddCommGroup V] [Module K V]

theorem cumsumFrom_getElem? (acc : V) (x : List V) (j : ℕ) :
    (Col.cumsumFrom acc x)[j]? = if j < x.length then some (acc + (x.take (j + 1)).sum) else none := by
  induction x generalizing acc j with
  | nil => simp [Col.cumsumFrom]
  | cons a t ih =>
    cases j with
    | zero => simp [Col.cumsumFrom]
    | succ j =>
      rw [Col.cumsumFrom, List.getElem?_cons_succ, ih]
      simp [add_assoc]

@[simp] theorem cumsum_length (x : List V) : (Col.cumsum x).length = x.length := by
  unfold Col.cumsum
  generalize (0 : V) = acc
  induction x generalizing acc with
  | nil => rfl
  | cons a t ih => simp [Col.cumsumFrom, ih]

theorem lv_cumsum (x : List V) (i : ℕ) :
    lv (Col.cumsum x) i = if i < x.length then ∑ s ∈ Finset.range (i + 1), lv x s else 0 := by
  rw [lv_def, Col.cumsum, cumsumFrom_getElem?]
  by_cases h : i < x.length
  · rw [if_pos h, if_pos h, Option.getD_some, zero_add, sum_take_eq]
  · simp [h]

/-- scalar cumulative sum of `Dino.Sigma` -/
theorem lv_sigma_cumsum (x : List K) (i : ℕ) :
    lv (Sigma.cumsum x) i = if i < x.length then (x.take (i + 1)).sum else 0 := by
  rw [lv_def, Sigma.cumsum, Sigma.cumsumFrom_getElem?]
  by_cases h : i < x.length
  · simp [h]
  · simp [h]

@[simp] theorem wmul_length (w : List K) (x : List V) :
    (Col.wmul w x).length = min w.length x.length := by simp [Col.wmul]

/-- `F_i = Σ_{s ≤ i} Δσ_s • x_s` -/
def cumF (ds : List K) (x : List V) (i : ℕ) : V := ∑ s ∈ Finset.range (i + 1), lv ds s • lv x s

theorem lv_cumSigmaIntegral (ds : List K) (x : List V) (n : ℕ) (hds : ds.length = n) (hx : x.length = n)
    (i : ℕ) : lv (Col.cumSigmaIntegral ds x) i = if i < n then cumF ds x i else 0 := by
  rw [Col.cumSigmaIntegral, lv_cumsum, wmul_length, hds, hx, Nat.min_self]
  simp only [lv_wmul, cumF]

@[simp] theorem cumSigmaIntegral_length (ds : List K) (x : List V) :
    (Col.cumSigmaIntegral ds x).length = min ds.length x.length := by
  simp [Col.cumSigmaIntegral]

theorem lv_getLastD (x : List V) : x.getLastD 0 = lv x (x.length - 1) := by
  rw [List.getLastD_eq_getLast?, List.getLast?_eq_getElem?, lv_def]

/-- `σ̇` on the internal boundaries: `S_i • F_last − F_i` -/
theorem lv_sigmaDotOf (ds : List K) (f : List V) (n : ℕ) (hds : ds.length = n) (hf : f.length = n)
    (i : ℕ) :
    lv (sigmaDotOf ds f) i
      = if i + 1 < n then (ds.take (i + 1)).sum • lv f (n - 1) - lv f i else 0 := by
  unfold sigmaDotOf
  rw [lv_dropLast]
  have hl : (List.zipWith (fun (s : K) (fi : V) => s • f.getLastD 0 - fi) (Sigma.cumsum ds) f).length = n := by
    simp [Sigma.cumsum, hds, hf]
  rw [hl]
  by_cases h : i + 1 < n
  · rw [if_pos h, if_pos h, lv_zipWith _ _ _ (by simp [Sigma.cumsum, hds]; omega) (by omega),
      lv_sigma_cumsum, if_pos (by omega), lv_getLastD, hf]
  · rw [if_neg h, if_neg h]

theorem sigmaDotOf_length (ds : List K) (f : List V) (n : ℕ) (hds : ds.length = n) (hf : f.length = n) :
    (sigmaDotOf ds f).length = n - 1 := by
  simp [sigmaDotOf, Sigma.cumsum, hds, hf]

theorem col_diffs_getElem? (x : List V) (i : ℕ) :
    (Col.diffs x)[i]? = if i + 1 < x.length then some (lv x (i + 1) - lv x i) else none := by
  induction x generalizing i with
  | nil => simp [Col.diffs]
  | cons a t ih =>
    cases t with
    | nil => simp [Col.diffs]
    | cons c u =>
      cases i with
      | zero => simp [Col.diffs]
      | succ i =>
        rw [Col.diffs, List.getElem?_cons_succ, ih]
        simp

@[simp] theorem col_diffs_length (x : List V) : (Col.diffs x).length = x.length - 1 := by
  induction x with
  | nil => rfl
  | cons a t ih =>
    cases t with
    | nil => rfl
    | cons c u => simp [Col.diffs, ih]

theorem lv_col_diffs (x : List V) (i : ℕ) :
    lv (Col.diffs x) i = if i + 1 < x.length then lv x (i + 1) - lv x i else 0 := by
  rw [lv_def, col_diffs_getElem?]
  by_cases h : i + 1 < x.length <;> simp [h]

theorem lv_centeredDifference (ctc : List K) (x : List V) (n : ℕ) (hc : ctc.length = n - 1)
    (hx : x.length = n) (i : ℕ) :
    lv (Col.centeredDifference ctc x) i
      = if i + 1 < n then (1 / lv ctc i) • (lv x (i + 1) - lv x i) else 0 := by
  unfold Col.centeredDifference
  by_cases h : i + 1 < n
  · rw [if_pos h, lv_zipWith _ _ _ (by simp [hx]; omega) (by omega), lv_col_diffs, if_pos (by omega)]
  · rw [if_neg h, lv_of_ge (by simp [hx, hc]; omega)]

@[simp] theorem centeredDifference_length (ctc : List K) (x : List V) :
    (Col.centeredDifference ctc x).length = min (x.length - 1) ctc.length := by
  simp [Col.centeredDifference]

end closed

/-! ## T4.1: the column identity `H·D = κ·T⊙gp(D) − adv(σ̇(D), T)` -/
section t41
variable {K V : Type} [Field K] [AddCommGroup V] [Module K V]

/-- centred advection of a per-layer scalar profile `T` by a velocity column `w` with values in a
 module (what `_vertical_tendency(σ̇, T_ref)` computes) -/
def advScalar (ctc : List K) (w : List V) (T : List K) : List V :=
  let wp := (0 : V) :: (w ++ [0])
  let xd := (0 : K) :: (Col.centeredDifference ctc T ++ [0])
  let f := List.zipWith (fun (wi : V) (di : K) => di • wi) wp xd
  List.zipWith (fun hi lo => (-(1 / (1 + 1)) : K) • (hi + lo)) f.tail f

/-- the `g_part` of `_t_omega_over_sigma_sp`:
 `(α·F + shift(α·F)) / Δσ` with `F = cumulative_sigma_integral(g)` -/
def gPart (ds al : List K) (g : List V) : List V :=
  let alphaF := Col.wmul al (Col.cumSigmaIntegral ds g)
  List.zipWith (fun (d : K) (x : V) => (1 / d) • x) ds (Col.add alphaF ((0 : V) :: alphaF).dropLast)

theorem gPart_length (ds al : List K) (g : List V) (n : ℕ) (hds : ds.length = n) (hal : al.length = n)
    (hg : g.length = n) : (gPart ds al g).length = n := by
  simp [gPart, Col.add, hds, hal, hg]

theorem lv_gPart (ds al : List K) (g : List V) (n : ℕ) (hds : ds.length = n) (hal : al.length = n)
    (hg : g.length = n) (i : ℕ) (hi : i < n) :
    lv (gPart ds al g) i
      = (1 / lv ds i) • (lv al i • cumF ds g i + lv ((0 : V) :: Col.wmul al (Col.cumSigmaIntegral ds g)) i) := by
  unfold gPart
  have hl : (Col.wmul al (Col.cumSigmaIntegral ds g)).length = n := by simp [hds, hal, hg]
  rw [lv_zipWith _ _ _ (by omega) (by simp [Col.add, hl]; omega), lv_add _ _ (by simp [hl]),
    lv_wmul, lv_cumSigmaIntegral ds g n hds hg, if_pos hi, lv_dropLast, if_pos (by simp [hl]; omega)]

theorem lv_advScalar (ctc : List K) (w : List V) (T : List K) (n : ℕ) (hc : ctc.length = n - 1)
    (hw : w.length = n - 1) (hT : T.length = n) (i : ℕ) (hi : i < n) :
    lv (advScalar ctc w T) i
      = (-(1 / (1 + 1)) : K) • (lv (Col.centeredDifference ctc T) i • lv w i
          + lv ((0 : K) :: Col.centeredDifference ctc T) i • lv ((0 : V) :: w) i) := by
  unfold advScalar
  have hcd : (Col.centeredDifference ctc T).length = n - 1 := by simp [hc, hT]
  simp only []
  rw [lv_zipWith _ _ _ (by simp [hw, hcd]; omega) (by simp [hw, hcd]; omega), lv_tail]
  rw [lv_zipWith_zero _ (fun b => by simp) (fun a => by simp),
    lv_zipWith_zero _ (fun b => by simp) (fun a => by simp)]
  simp only [lv_cons_succ, lv_append_zero]
  congr 2
  · cases i with
    | zero => simp
    | succ i => simp [lv_append_zero]


theorem sum_tril (y : ℕ → V) (r n : ℕ) (h : r < n) :
    ∑ s ∈ Finset.range n, (Implicit.tril r s : K) • y s = ∑ s ∈ Finset.range (r + 1), y s := by
  obtain ⟨k, rfl⟩ : ∃ k, n = r + 1 + k := ⟨n - (r + 1), by omega⟩
  induction k with
  | zero =>
    apply Finset.sum_congr rfl
    intro s hs
    have : s ≤ r := by simp at hs; omega
    simp [Implicit.tril, this]
  | succ k ih =>
    rw [← add_assoc, Finset.sum_range_succ, ih (by omega)]
    have : ¬ (r + 1 + k ≤ r) := by omega
    simp [Implicit.tril, this]

theorem lv_matvec_hMatrix (ds al T : List K) (κ : K) (D : List V) (n : ℕ)
    (hds : ds.length = n) (hD : D.length = n) (r : ℕ) (hr : r < n) :
    lv (Col.matvec (Implicit.hMatrix ds T al κ) D) r
      = ∑ s ∈ Finset.range n, Implicit.hEntry ds T al κ r s • lv D s := by
  unfold Col.matvec Implicit.hMatrix
  rw [lv_def, List.getElem?_map, List.getElem?_map, List.getElem?_range (by omega : r < ds.length)]
  simp only [Option.map_some, Option.getD_some]
  rw [sum_eq_range]
  rw [wmul_length, List.length_map, List.length_range, hds, hD, Nat.min_self]
  apply Finset.sum_congr rfl
  intro s hs
  rw [lv_wmul, lv_range_map _ _ (by simpa using hs)]

theorem sum_hrow (ds : List K) (D : List V) (n r r' : ℕ) (hn : 0 < n) (hr : r < n) (hr' : r' < n)
    (A B C E Sr Sr' : K) :
    ∑ s ∈ Finset.range n, ((A * Implicit.tril r s + B * Implicit.tril r' s
        - C * (Implicit.tril r s - Sr) - E * (Implicit.tril r' s - Sr')) * lv ds s) • lv D s
      = A • cumF ds D r + B • cumF ds D r' - C • (cumF ds D r - Sr • cumF ds D (n - 1))
          - E • (cumF ds D r' - Sr' • cumF ds D (n - 1)) := by
  have key : ∀ s, ((A * Implicit.tril r s + B * Implicit.tril r' s
        - C * (Implicit.tril r s - Sr) - E * (Implicit.tril r' s - Sr')) * lv ds s) • lv D s
      = A • ((Implicit.tril r s : K) • (lv ds s • lv D s)) + B • ((Implicit.tril r' s : K) • (lv ds s • lv D s))
        - C • ((Implicit.tril r s : K) • (lv ds s • lv D s) - Sr • (lv ds s • lv D s))
        - E • ((Implicit.tril r' s : K) • (lv ds s • lv D s) - Sr' • (lv ds s • lv D s)) := by
    intro s; module
  simp only [key, Finset.sum_sub_distrib, Finset.sum_add_distrib, ← Finset.smul_sum,
    sum_tril (K := K) _ r n hr, sum_tril (K := K) _ r' n hr']
  have hn1 : n - 1 + 1 = n := by omega
  simp only [cumF, hn1]

theorem hK0_half (ds ctc T : List K) (n : ℕ) (hds : ds.length = n) (hT : T.length = n)
    (hctc : ctc.length = n - 1)
    (hc : ∀ i, i + 1 < n → lv ctc i = (lv ds (i + 1) + lv ds i) / (1 + 1))
    (h2 : (1 + 1 : K) ≠ 0) (r : ℕ) :
    Implicit.hK0 ds T r = (1 / (1 + 1)) * lv (Col.centeredDifference ctc T) r := by
  rw [lv_centeredDifference ctc T n hctc hT, Implicit.hK0, hds]
  by_cases h : r + 1 < n
  · rw [if_pos h, if_pos h, hc r h]
    show (lv T (r + 1) - lv T r) / (lv ds r + lv ds (r + 1)) = _
    by_cases h0 : lv ds (r + 1) + lv ds r = 0
    · have : lv ds r + lv ds (r + 1) = 0 := by rw [add_comm]; exact h0
      simp [h0, this]
    · have : lv ds r + lv ds (r + 1) ≠ 0 := by rw [add_comm]; exact h0
      simp only [smul_eq_mul]
      field_simp
      ring
  · rw [if_neg h, if_neg h, mul_zero]

theorem half_smul_two (h2 : (1 + 1 : K) ≠ 0) (a b : K) (X Y : V) :
    (-(1 / (1 + 1)) : K) • (((1 + 1) * a) • X + ((1 + 1) * b) • Y) = -(a • X + b • Y) := by
  have e1 : (-(1 / (1 + 1)) : K) * ((1 + 1) * a) = -a := by field_simp
  have e2 : (-(1 / (1 + 1)) : K) * ((1 + 1) * b) = -b := by field_simp
  rw [smul_add, smul_smul, smul_smul, e1, e2]
  module

theorem hMatrix_matvec (ds al ctc T : List K) (κ : K) (D : List V) (n : ℕ)
    (hds : ds.length = n) (hal : al.length = n) (hT : T.length = n) (hD : D.length = n)
    (hctc : ctc.length = n - 1)
    (hc : ∀ i, i + 1 < n → lv ctc i = (lv ds (i + 1) + lv ds i) / (1 + 1))
    (h2 : (1 + 1 : K) ≠ 0) :
    Col.matvec (Implicit.hMatrix ds T al κ) D
      = Col.sub (Col.smul κ (Col.wmul T (gPart ds al D)))
          (advScalar ctc (sigmaDotOf ds (Col.cumSigmaIntegral ds D)) T) := by
  have hF : (Col.cumSigmaIntegral ds D).length = n := by simp [hds, hD]
  have hsd := sigmaDotOf_length ds (Col.cumSigmaIntegral ds D) n hds hF
  have hgp := gPart_length ds al D n hds hal hD
  apply ext_lv (n := n)
  · simp [Col.matvec, Implicit.hMatrix, hds]
  · simp [Col.sub, Col.smul, hgp, hT, advScalar, hsd, hctc]; omega
  intro r hr
  have hn : 0 < n := by omega
  rw [lv_matvec_hMatrix ds al T κ D n hds hD r hr]
  rw [lv_sub _ _ (by simp [Col.smul, hgp, hT, advScalar, hsd, hctc]; omega), lv_smul, lv_wmul,
    lv_gPart ds al D n hds hal hD r hr, lv_advScalar ctc _ T n hctc hsd hT r hr]
  have hk := hK0_half ds ctc T n hds hT hctc hc h2
  -- σ̇ at level j, multiplied by k0[j]
  have hsig : ∀ j, j < n → Implicit.hK0 ds T j • lv (sigmaDotOf ds (Col.cumSigmaIntegral ds D)) j
      = Implicit.hK0 ds T j • ((ds.take (j + 1)).sum • cumF ds D (n - 1) - cumF ds D j) := by
    intro j hj
    rw [lv_sigmaDotOf ds _ n hds hF]
    by_cases h : j + 1 < n
    · rw [if_pos h, lv_cumSigmaIntegral ds D n hds hD, if_pos (by omega),
        lv_cumSigmaIntegral ds D n hds hD, if_pos hj]
    · have : Implicit.hK0 ds T j = 0 := by simp [Implicit.hK0, hds, h]
      rw [this, zero_smul, zero_smul]
  have hcd : ∀ j, lv (Col.centeredDifference ctc T) j = (1 + 1) * Implicit.hK0 ds T j := by
    intro j; rw [hk j]; field_simp
  cases r with
  | zero =>
    have e : ∀ s, Implicit.hEntry ds T al κ 0 s
        = ((κ * lv T 0 * lv al 0 / lv ds 0) * Implicit.tril 0 s + 0 * Implicit.tril 0 s
          - Implicit.hK0 ds T 0 * (Implicit.tril 0 s - (ds.take 1).sum)
          - 0 * (Implicit.tril 0 s - 0)) * lv ds s := by
      intro s
      simp only [Implicit.hEntry, Implicit.hK, lv, if_true]
      ring
    simp only [e]
    rw [sum_hrow ds D n 0 0 hn hr hr]
    simp only [lv_cons_zero, hcd]
    have := hsig 0 hr
    simp only [Nat.zero_add] at this
    have h00 : ((0 : K) • (0 : V)) = ((1 + 1) * (0 : K)) • (0 : V) := by simp
    rw [h00, half_smul_two h2, this]
    module
  | succ r =>
    have hr' : r < n := by omega
    have e : ∀ s, Implicit.hEntry ds T al κ (r + 1) s
        = ((κ * lv T (r + 1) * lv al (r + 1) / lv ds (r + 1)) * Implicit.tril (r + 1) s
          + (κ * lv T (r + 1) * lv al r / lv ds (r + 1)) * Implicit.tril r s
          - Implicit.hK0 ds T (r + 1) * (Implicit.tril (r + 1) s - (ds.take (r + 1 + 1)).sum)
          - Implicit.hK0 ds T r * (Implicit.tril r s - (ds.take (r + 1)).sum)) * lv ds s := by
      intro s
      simp only [Implicit.hEntry, Implicit.hK, lv, Nat.add_sub_cancel, Nat.succ_ne_zero, if_false]
      ring
    simp only [e]
    rw [sum_hrow ds D n (r + 1) r hn hr hr']
    simp only [lv_cons_succ, hcd, lv_wmul]
    rw [lv_cumSigmaIntegral ds D n hds hD, if_pos hr']
    have h1 := hsig (r + 1) hr
    have h0 := hsig r hr'
    rw [half_smul_two h2, h1, h0]
    module
end t41

/-! ## the same for a `Vert` -/
section vert
variable {K V : Type} [Field K] [AddCommGroup V] [Module K V]

theorem sigmaRatios_length (lc : List K) : (Sigma.sigmaRatios lc).length = lc.length := by
  induction lc with
  | nil => rfl
  | cons l t ih =>
    cases t with
    | nil => rfl
    | cons l1 r => simp only [Sigma.sigmaRatios, List.length_cons] at ih ⊢; omega

theorem vert_ds_length (v : Vert K) (n : ℕ) (hb : v.boundaries.length = n + 1) : v.ds.length = n := by
  simp [Vert.ds, Sigma.thickness, hb]

theorem vert_ctc_length (v : Vert K) (n : ℕ) (hb : v.boundaries.length = n + 1) :
    v.ctc.length = n - 1 := by
  simp [Vert.ctc, Sigma.centerToCenter, hb]

theorem vert_alpha_length (v : Vert K) (n : ℕ) (hlc : v.logCenters.length = n) :
    v.alpha.length = n := by
  simp [Vert.alpha, sigmaRatios_length, hlc]

/-- centre-to-centre distance = mean of the adjacent thicknesses, read level by level -/
theorem vert_ctc_lv (v : Vert K) (n : ℕ) (hb : v.boundaries.length = n + 1) (h2 : (1 + 1 : K) ≠ 0)
    (i : ℕ) (hi : i + 1 < n) : lv v.ctc i = (lv v.ds (i + 1) + lv v.ds i) / (1 + 1) := by
  have : NeZero ((1 : K) + 1) := ⟨h2⟩
  have hds := vert_ds_length v n hb
  unfold Vert.ctc
  rw [Sigma.centerToCenter_eq]
  show lv (List.zipWith _ v.ds.tail v.ds) i = _
  rw [lv_zipWith _ _ _ (by simp [hds]; omega) (by omega), lv_tail]

/-- **T4.1 (module form)** for the vertical coordinate `v`, any profile `T`, any `κ`, any column `D`
 with values in a `K`-module: `H·D = κ·T⊙gp(D) − adv(σ̇(D), T)` -/
theorem hMatrix_matvec_vert (v : Vert K) (T : List K) (κ : K) (D : List V) (n : ℕ)
    (hb : v.boundaries.length = n + 1) (hlc : v.logCenters.length = n) (hT : T.length = n)
    (hD : D.length = n) (h2 : (1 + 1 : K) ≠ 0) :
    Col.matvec (Implicit.hMatrix v.ds T v.alpha κ) D
      = Col.sub (Col.smul κ (Col.wmul T (gPart v.ds v.alpha D)))
          (advScalar v.ctc (sigmaDotOf v.ds (Col.cumSigmaIntegral v.ds D)) T) :=
  hMatrix_matvec v.ds v.alpha v.ctc T κ D n (vert_ds_length v n hb) (vert_alpha_length v n hlc) hT hD
    (vert_ctc_length v n hb) (vert_ctc_lv v n hb h2) h2

end vert
end Dino.Dynamics
