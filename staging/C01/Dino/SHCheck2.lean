import Dino.SHCheck
/-!
# Integer-scaled certificates for spherical-harmonic bases (C01)

`decide +kernel` evaluates closed terms with the kernel's reduction engine: only `Nat` arithmetic is
GMP-accelerated, nothing is shared between two occurrences of a defined constant, and list indexing is
linear.  The certificates generated in `DinoGen/SHCert*.lean` therefore carry the basis arrays of a live
`Grid` as **integers with one common binary exponent per array** (every IEEE double is `k·2^s`) and in the
**transposed layout** in which the Gram contractions are plain dot products:

* `ft[r][i]·2^-ef = basis.f[i][r]`, `pt[t][l][j]·2^-ep = basis.p[t][j][l]`, `w[j]·2^-ew = basis.w[j]`,
* `x, wl, wf`: latitude nodes / weights and the longitude weight (`get_latitude_nodes`,
  `fourier.quadrature_nodes`).

`pdiv = 1` for `RealSphericalHarmonics` (one Legendre table per modal row), `pdiv = 2` for
`FastSphericalHarmonics` (rows `2t`, `2t+1` share table `t`).  What a `… = true` certificate means over ℚ
is proved in `DinoProofs/Lemmas/SHCert.lean`.
-/
namespace Dino.SH
open Dino.Lin

/-! ### the resolved block, computed from the spacing rule (DESIGN 6/C01), not from the data -/

/-- polynomial degree integrated exactly by the latitude rule with `J` nodes: Gauss–Legendre
 `2J−1`; the solved equiangular weights (with or without poles) only `J−1` -/
def quadDegree (spacing : String) (J : Nat) : Nat :=
  if spacing = "gauss" then 2 * J - 1 else J - 1

/-- An input coefficient `(m', l')` is *resolved* when every product with an output basis function
 is integrated exactly: `l' + (L−1) ≤ deg` in latitude and `|m'| + (M−1) < N` in longitude
 (no aliasing of `cos/sin((m+m')λ)` on `N` equispaced nodes). -/
def resolvedEntry (M L N deg : Nat) (m : Int) (l : Nat) : Bool :=
  decide (l + (L - 1) ≤ deg) && decide (m.natAbs + (M - 1) < N)

/-- `RealSphericalHarmonics.mask` restricted to the resolved block -/
def resolvedRealMask (M L N deg : Nat) : List (List Bool) :=
  List.zipWith (fun m row => (List.zipIdx row).map fun (b, l) => b && resolvedEntry M L N deg m l)
    (realMvals M) (realMask M L)

/-- `FastSphericalHarmonics.mask` restricted to the resolved block -/
def resolvedFastMask (M L padRows padCols N deg : Nat) : List (List Bool) :=
  List.zipWith (fun m row => (List.zipIdx row).map fun (b, l) => b && resolvedEntry M L N deg m l)
    (fastMvals M padRows) (fastMask M L padRows padCols)

/-- A `FastSphericalHarmonics` basis seen as one Legendre table per modal row
 (rows `2m` and `2m+1` share `p[m]`). -/
def fastBasis {K : Type} (b : Basis K) : Basis K := ⟨b.f, dup b.p, b.w⟩

/-- `RealSphericalHarmonics.basis.p`: `np.repeat(p, 2, axis=0)[1:]` -/
def realTables {K : Type} (p : List (List (List K))) : List (List (List K)) := (dup p).drop 1

/-! ### the certificate record -/

structure ICert where
  /-- nodal and modal array sizes, padding included: `f : N × R`, `p : (R/pdiv) × J × L`, `w : J` -/
  N : Nat
  R : Nat
  J : Nat
  L : Nat
  pdiv : Nat
  ft : List (List Int)
  ef : Nat
  pt : List (List (List Int))
  ep : Nat
  w : List Int
  ew : Nat
  /-- latitude nodes and weights (unpadded), longitude weight -/
  x : List Int
  ex : Nat
  wl : List Int
  ewl : Nat
  wf : Int
  ewf : Nat

namespace ICert

/-- common exponent of every Gram / integral entry: `2·ef + 2·ep + ew` -/
def E (c : ICert) : Nat := 2 * c.ef + 2 * c.ep + c.ew

/-- row `r` of `ft` -/
def frow (c : ICert) (r : Nat) : List Int := c.ft.getD r []
/-- `pt[r / pdiv][l]`: the Legendre function of modal entry `(r, l)` on the latitude nodes -/
def pcol (c : ICert) (r l : Nat) : List Int := (c.pt.getD (r / c.pdiv) []).getD l []

def shapeOk (c : ICert) : Bool :=
  decide (0 < c.pdiv) && decide (c.ft.length = c.R) && c.ft.all (fun fr => decide (fr.length = c.N)) &&
  decide (c.pt.length * c.pdiv = c.R) && c.pt.all (fun pm => decide (pm.length = c.L)) &&
  c.pt.all (fun pm => pm.all fun pl => decide (pl.length = c.J)) && decide (c.w.length = c.J)

/-- `|v·2^-e − δ| ≤ 2^-k` for an integer `v` with exponent `e` -/
def near (v : Int) (e : Nat) (delta : Bool) (k : Nat) : Bool :=
  decide ((v - (if delta then Int.ofNat (2 ^ e) else 0)).natAbs * 2 ^ k ≤ 2 ^ e)

/-- Fourier Gram entry `Σ_i f[i][r] f[i][r']`, exponent `2·ef` -/
def fg (c : ICert) (r r' : Nat) : Int := dotv (c.frow r) (c.frow r')

/-- Legendre (cross) Gram entry `Σ_j w[j] p[r][j][l] p[r'][j][l']`, exponent `ew + 2·ep` -/
def lg (c : ICert) (r r' l l' : Nat) : Int :=
  dotv c.w (List.zipWith (· * ·) (c.pcol r l) (c.pcol r' l'))

/-- **Separable Gram certificate** (DESIGN T1.2).  Implies that every entry
 `FG[r][r']·LG[r,r'][l][l']` of the Gram tensor is within `2^-k` of the identity for all output
 entries `(r,l)` and all input entries `(r',l')` of `mask`, without evaluating any Legendre product
 with `r ≠ r'`:
 * weights `≥ 0` and every diagonal Legendre norm `LG[r,r][l][l] ≤ 8`, so by Cauchy–Schwarz
   `|LG[r,r'][l][l']| ≤ 8`;
 * for every row `r'` that carries a mask entry and every `r ≠ r'`: `8·|FG[r][r']| ≤ 2^-k`;
 * for every `(r',l')` of `mask` and every `l`: `|FG[r'][r']·LG[r',r'][l][l'] − δ_{l l'}| ≤ 2^-k`. -/
def gramOk (c : ICert) (mask : List (List Bool)) (k : Nat) : Bool :=
  c.w.all (fun v => decide (0 ≤ v)) &&
  ((List.range c.R).all fun r => (List.range c.L).all fun l =>
    decide (c.lg r r l l ≤ Int.ofNat (8 * 2 ^ (c.ew + 2 * c.ep)))) &&
  ((List.range c.R).all fun r' => !(mask.getD r' []).any id ||
    (List.range c.R).all fun r => decide (r = r') ||
      decide ((c.fg r r').natAbs * 8 * 2 ^ k ≤ 2 ^ (2 * c.ef))) &&
  ((List.range c.R).all fun r' => (List.range c.L).all fun l' =>
    if (mask.getD r' []).getD l' false then
      (List.range c.L).all fun l => near (c.fg r' r' * c.lg r' r' l l') c.E (decide (l = l')) k
    else true)

/-- numerator of the constant `(0,0)` basis function `b₀ = f[0][0]·p[0][0][0]`, exponent `ef+ep` -/
def b0 (c : ICert) : Int := (c.frow 0).getD 0 0 * (c.pcol 0 0).getD 0 0

/-- unscaled `b₀·∫Y_{r,l}`: `b₀·(Σ_i f[i][r])·(Σ_j w[j] p[r][j][l])·2^E` -/
def colIntEntry (c : ICert) (r l : Nat) : Int :=
  c.b0 * ((c.frow r).sum * dotv c.w (c.pcol r l))

/-- `|b₀·∫Y_{r,l} − δ_{(r,l),(0,0)}| ≤ 2^-k` on `mask` -/
def colIntOk (c : ICert) (mask : List (List Bool)) (k : Nat) : Bool :=
  (List.range c.R).all fun r => (List.range c.L).all fun l =>
    if (mask.getD r []).getD l false then near (c.colIntEntry r l) c.E (decide (r = 0 ∧ l = 0)) k
    else true

/-- fixed dyadic interval around `1/(4π)` (numerators at exponent 80), with the 20-digit bounds
 `3.14159265358979323846 < π < 3.14159265358979323847` of Mathlib:
 `lo·4·3.14159265358979323846 ≥ (1 − 10⁻¹⁵)·2⁸⁰`, `hi·4·3.14159265358979323847 ≤ (1 + 10⁻¹⁵)·2⁸⁰`
 (`lo` / `hi` are the smallest / largest such integers; the float64 constants give
 `b₀²·4π − 1 = −5.2·10⁻¹⁷`) -/
def b0sqLo : Nat := 96203260011544519986650
def b0sqHi : Nat := 96203260011544712392863

/-- `b₀ > 0` and `lo/2^80 ≤ b₀² ≤ hi/2^80` -/
def b0sqOk (c : ICert) : Bool :=
  decide (0 < c.b0) && decide (b0sqLo * 2 ^ (2 * (c.ef + c.ep)) ≤ (c.b0 * c.b0).toNat * 2 ^ 80) &&
  decide ((c.b0 * c.b0).toNat * 2 ^ 80 ≤ b0sqHi * 2 ^ (2 * (c.ef + c.ep)))

/-- the `(0,0)` basis function is constant on the genuine nodes: `f[i][0] = f[0][0]` for `i < N₀`,
 `p[0][j][0] = p[0][0][0]` for `j < J₀` -/
def constOk (c : ICert) (N0 J0 : Nat) : Bool :=
  ((c.frow 0).take N0).all (fun v => decide (v = (c.frow 0).getD 0 0)) &&
  ((c.pcol 0 0).take J0).all (fun v => decide (v = (c.pcol 0 0).getD 0 0))

/-- quadrature weights `≥ 0` -/
def nonnegOk (c : ICert) : Bool := c.w.all (fun v => decide (0 ≤ v)) && c.wl.all (fun v => decide (0 ≤ v))

/-- `p[r][j][l] = 0` exactly whenever `l < |m(r)|` (`mabs[r] = |m(r)|`) -/
def zerosOk (c : ICert) (mabs : List Nat) : Bool :=
  (List.range c.R).all fun r => (List.range (min (mabs.getD r 0) c.L)).all fun l =>
    (c.pcol r l).all fun v => decide (v = 0)

/-- all padding of a `FastSphericalHarmonics` basis is exactly zero: rows `≥ 2M` and row `1` (`-0`) of
 `ft`, nodes `≥ N₀` of every row, tables `≥ M`, wavenumbers `≥ L₀` and nodes `≥ J₀` of `pt`, weights `≥ J₀` -/
def paddingOk (c : ICert) (M L0 N0 J0 : Nat) : Bool :=
  (c.ft.drop (2 * M)).all (fun fr => fr.all fun v => decide (v = 0)) &&
  (c.frow 1).all (fun v => decide (v = 0)) &&
  c.ft.all (fun fr => (fr.drop N0).all fun v => decide (v = 0)) &&
  (c.pt.drop M).all (fun pm => pm.all fun pl => pl.all fun v => decide (v = 0)) &&
  c.pt.all (fun pm => (pm.drop L0).all fun pl => pl.all fun v => decide (v = 0)) &&
  c.pt.all (fun pm => pm.all fun pl => (pl.drop J0).all fun v => decide (v = 0)) &&
  (c.w.drop J0).all (fun v => decide (v = 0))

/-- `Σ_j wl[j]·x[j]^k`, exponent `ewl + k·ex` -/
def moment (c : ICert) (k : Nat) : Int := dotv c.wl (c.x.map fun v => v ^ k)

/-- the latitude rule integrates `x^k` over `[-1,1]` within `2^-kk` for every `k ≤ deg`:
 `|(k+1)·Σ_j wl_j x_j^k − (2 if k even else 0)| ≤ (k+1)·2^-kk` -/
def quadOk (c : ICert) (deg kk : Nat) : Bool :=
  decide (c.x.length = c.wl.length) &&
  (List.range (deg + 1)).all fun k =>
    decide ((((k + 1 : Nat) : Int) * c.moment k
        - (if k % 2 = 0 then Int.ofNat (2 * 2 ^ (c.ewl + k * c.ex)) else 0)).natAbs * 2 ^ kk
      ≤ (k + 1) * 2 ^ (c.ewl + k * c.ex))

/-- `basis.w[j] = wf·wl[j]` within `2^-k` for `j < |wl|` (the product is rounded once) -/
def wprodOk (c : ICert) (k : Nat) : Bool :=
  decide (c.wl.length ≤ c.w.length) &&
  (List.zip c.w c.wl).all fun (a, b) =>
    decide ((a * Int.ofNat (2 ^ (c.ewf + c.ewl)) - c.wf * b * Int.ofNat (2 ^ c.ew)).natAbs * 2 ^ k
      ≤ 2 ^ (c.ew + c.ewf + c.ewl))

/-- nodes symmetric about the equator within `2^-k` (`sin` of a `linspace` is not bitwise
 antisymmetric) and inside `[-1,1]` -/
def nodesOk (c : ICert) (k : Nat) : Bool :=
  (List.zip c.x c.x.reverse).all (fun (a, b) => decide ((a + b).natAbs * 2 ^ k ≤ 2 ^ c.ex)) &&
  c.x.all fun a => decide (a.natAbs ≤ 2 ^ c.ex)

end ICert
end Dino.SH
