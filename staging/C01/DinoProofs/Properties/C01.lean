import DinoProofs.Lemmas.SH
import DinoProofs.Lemmas.Fx
import Dino.SHCheck
import Mathlib.Algebra.Order.BigOperators.Group.Finset
import Mathlib.Algebra.Order.BigOperators.Ring.Finset

/-!
# C01 — spherical-harmonic analysis inverts synthesis; discrete orthonormality

* `Dino.SH.ent2_roundtrip` (T1.1, in `Lemmas/SH.lean`): for every basis of consistent shape and
  every spectral field, `analysis (synth x)` is the action of the separable Gram tensor.
* `roundtrip_bound` (T1.2): an entrywise `ε`-identity Gram tensor gives an `ε·‖x‖₁` round trip.
* `gramCheck_sound`: the exact fixed-point check evaluated by the generated certificates
  (`DinoGen/SHCert_*.lean`, `decide +kernel`) implies the hypothesis of T1.2 for the basis arrays
  the implementation actually computed (as exact rationals).
* `roundtrip_of_cert`: the three combined.
-/
namespace Dino.C01
open Finset Dino.Lin Dino.SH Dino

/-! ## T1.2 -/

section bound
variable {K : Type} [Field K] [LinearOrder K] [IsStrictOrderedRing K]

/-- `ε`-Gram ⇒ `ε`-round-trip, for every spectral field supported where the Gram tensor was checked -/
theorem roundtrip_bound (b : Basis K) (N R J L : Nat) (hb : Shaped b N R J L) (eps : K)
    (x : List (List K)) (hx : ∀ row ∈ x, row.length ≤ L) (supp : Nat → Nat → Prop)
    (hsupp : ∀ r' l', ¬ supp r' l' → ent2 x r' l' = 0)
    (hG : ∀ r' < R, ∀ l' < L, supp r' l' → ∀ r < R, ∀ l < L,
      |fGram b N r r' * lGram b J r r' l l' - (if r = r' ∧ l = l' then 1 else 0)| ≤ eps)
    (r l : Nat) (hr : r < R) (hl : l < L) :
    |ent2 (realAnalysis b R J L (realSynth b J x)) r l - ent2 x r l|
      ≤ eps * ∑ r' ∈ range R, ∑ l' ∈ range L, |ent2 x r' l'| := by
  rw [ent2_roundtrip b N R J L hb x hx r l hr]
  have hx_eq : ent2 x r l
      = ∑ r' ∈ range R, ∑ l' ∈ range L, (if r = r' ∧ l = l' then (1 : K) else 0) * ent2 x r' l' := by
    rw [Finset.sum_eq_single r]
    · rw [Finset.sum_eq_single l]
      · simp
      · intro l' _ hne; simp [Ne.symm hne]
      · intro h; exact absurd (Finset.mem_range.2 hl) h
    · intro r' _ hne
      apply Finset.sum_eq_zero; intro l' _; simp [Ne.symm hne]
    · intro h; exact absurd (Finset.mem_range.2 hr) h
  rw [hx_eq, ← Finset.sum_sub_distrib, Finset.mul_sum]
  refine le_trans (Finset.abs_sum_le_sum_abs _ _) (Finset.sum_le_sum ?_)
  intro r' hr'
  rw [← Finset.sum_sub_distrib, Finset.mul_sum]
  refine le_trans (Finset.abs_sum_le_sum_abs _ _) (Finset.sum_le_sum ?_)
  intro l' hl'
  rw [← sub_mul, abs_mul]
  by_cases hs : supp r' l'
  · exact mul_le_mul_of_nonneg_right
      (hG r' (Finset.mem_range.1 hr') l' (Finset.mem_range.1 hl') hs r hr l hl) (abs_nonneg _)
  · rw [hsupp r' l' hs]; simp

end bound

/-! ## soundness of the exact check -/

/-- the basis arrays as rationals -/
def mapB (b : Basis Fx) : Basis ℚ :=
  ⟨b.f.map (·.map Fx.val), b.p.map (·.map (·.map Fx.val)), b.w.map Fx.val⟩

theorem ent_map_val (v : List Fx) (i : Nat) : ent (v.map Fx.val) i = Fx.val (v.getD i 0) := by
  simp only [ent, List.getD_eq_getElem?_getD, List.getElem?_map]
  cases v[i]? <;> simp

theorem ent2_map_val (a : List (List Fx)) (i j : Nat) :
    ent2 (a.map (·.map Fx.val)) i j = Fx.val ((a.getD i []).getD j 0) := by
  simp only [ent2, List.getD_eq_getElem?_getD, List.getElem?_map]
  cases a[i]? <;> simp
  rename_i v
  cases v[j]? <;> simp

theorem ent3_map_val (a : List (List (List Fx))) (i j k : Nat) :
    ent3 (a.map (·.map (·.map Fx.val))) i j k = Fx.val (((a.getD i []).getD j []).getD k 0) := by
  simp only [ent3, List.getD_eq_getElem?_getD, List.getElem?_map]
  cases a[i]? <;> simp
  rename_i v
  cases v[j]? <;> simp
  rename_i u
  cases u[k]? <;> simp

theorem val_sum_range (l : List Fx) (n : Nat) (h : l.length ≤ n) :
    Fx.val l.sum = ∑ i ∈ range n, Fx.val (l.getD i 0) := by
  rw [Fx.val_sum, sum_eq_sum_range _ n (by simpa using h)]
  apply Finset.sum_congr rfl
  intro i _
  exact ent_map_val l i

theorem val_fourierGram (b : Basis Fx) (N r r' : Nat) (hN : b.f.length = N) :
    Fx.val (fourierGram b.f r r') = fGram (mapB b) N r r' := by
  unfold fourierGram fGram
  rw [val_sum_range _ N (by simp [hN])]
  apply Finset.sum_congr rfl
  intro i _
  simp only [mapB, ent2_map_val]
  simp only [List.getD_eq_getElem?_getD, List.getElem?_map]
  cases b.f[i]? <;> simp [Fx.val_mul]

theorem val_legendreGram (b : Basis Fx) (J r r' l l' : Nat) (hw : b.w.length = J) :
    Fx.val (legendreGram b.p b.w r r' l l') = lGram (mapB b) J r r' l l' := by
  unfold legendreGram lGram
  rw [val_sum_range _ J (by simp [hw])]
  apply Finset.sum_congr rfl
  intro j _
  simp only [mapB, ent3_map_val, ent_map_val]
  simp only [List.getD_eq_getElem?_getD, List.getElem?_zipWith]
  cases hwj : b.w[j]? with
  | none => simp
  | some wj =>
    cases h1 : (b.p[r]?.getD [])[j]? with
    | none => simp [List.zip_eq_zipWith, List.getElem?_zipWith, h1]
    | some a =>
      cases h2 : (b.p[r']?.getD [])[j]? with
      | none => simp [List.zip_eq_zipWith, List.getElem?_zipWith, h1, h2]
      | some c => simp [List.zip_eq_zipWith, List.getElem?_zipWith, h1, h2, Fx.val_mul]

/-- the fixed-point Gram check (evaluated in the kernel by the generated certificates) implies the
 rational Gram bound needed by `roundtrip_bound` -/
theorem gramCheck_sound (b : Basis Fx) (mask : List (List Bool)) (N R J L : Nat) (eps : Fx)
    (hN : b.f.length = N) (hw : b.w.length = J)
    (hc : gramCheck b.f b.p b.w mask R L eps = true) :
    ∀ r' < R, ∀ l' < L, (mask.getD r' []).getD l' false = true → ∀ r < R, ∀ l < L,
      |fGram (mapB b) N r r' * lGram (mapB b) J r r' l l' - (if r = r' ∧ l = l' then 1 else 0)|
        ≤ Fx.val eps := by
  intro r' hr' l' hl' hm r hr l hl
  unfold gramCheck at hc
  rw [List.all_eq_true] at hc
  have h1 := hc r' (List.mem_range.2 hr')
  rw [List.all_eq_true] at h1
  have h2 := h1 l' (List.mem_range.2 hl')
  rw [if_pos hm, List.all_eq_true] at h2
  have h3 := h2 r (List.mem_range.2 hr)
  rw [List.all_eq_true] at h3
  have h4 := h3 l (List.mem_range.2 hl)
  rw [Fx.le_iff, Fx.val_abs, Fx.val_sub, Fx.val_mul, val_fourierGram b N r r' hN,
    val_legendreGram b J r r' l l' hw, Fx.val_ite] at h4
  exact h4

/-- **C01 main theorem.**  If the exact Gram check succeeds on the basis arrays, then for every
 rational spectral field supported inside the mask, `analysis (synth x)` returns `x` up to
 `ε·‖x‖₁` in every coefficient (inside and outside the mask). -/
theorem roundtrip_of_cert (b : Basis Fx) (mask : List (List Bool)) (N R J L : Nat) (eps : Fx)
    (hb : Shaped (mapB b) N R J L)
    (hc : gramCheck b.f b.p b.w mask R L eps = true)
    (x : List (List ℚ)) (hx : ∀ row ∈ x, row.length ≤ L)
    (hsupp : ∀ r' l', (mask.getD r' []).getD l' false ≠ true → ent2 x r' l' = 0)
    (r l : Nat) (hr : r < R) (hl : l < L) :
    |ent2 (realAnalysis (mapB b) R J L (realSynth (mapB b) J x)) r l - ent2 x r l|
      ≤ Fx.val eps * ∑ r' ∈ range R, ∑ l' ∈ range L, |ent2 x r' l'| := by
  have hN : b.f.length = N := by simpa [mapB] using hb.fl
  have hw : b.w.length = J := by simpa [mapB] using hb.wl
  exact roundtrip_bound (mapB b) N R J L hb (Fx.val eps) x hx
    (fun r' l' => (mask.getD r' []).getD l' false = true) hsupp
    (gramCheck_sound b mask N R J L eps hN hw hc) r l hr hl

end Dino.C01
