import DinoGen.Tableaux
import DinoGen.SHCert
