"""C14 — stepping and scan combinators equal their sequential definition for every split.

Lean: DinoProofs/Properties/C14.lean over the model Dino/Comb.lean (abstract step functions).
Tie: concrete step functions / filters / scan bodies from a small DSL on integer-valued pytrees
(props/c14_dsl.py) are run through the real combinators of dinosaur/time_integration.py and,
with the same program text, through the Lean model (`comb Z …`, exact integers); the Lanczos
weights and the digital filter initialisation are compared in floats (`comb F …`).
Sentinel probes evaluate the property itself on the real code against a pure-Python sequential
loop on unbounded integers, and compare values and gradients of the nested scan with the flat one.
"""
import collections
import itertools
import warnings

import numpy as np

import common
from common import fbits, fvec, fmat, unfvec
import dinoutil
from props import c14_dsl as D

RULE = ('step functions / filters / post-processing / scan bodies: random DSL programs (affine integer maps, '
        'counters, s[i]+=s[j], s[i]*=s[j], elementwise mod) on 7 pytree structures (1..5 scalars); '
        'trajectory: the full grid outer,inner in 0..4 x start_with_input plus random larger splits, 0..2 '
        'filters; nested scan: every ordered factorisation of every length <= 24 (thorough: plus at most 25 '
        'sampled ordered factorisations of each of 15 lengths 36..360) '
        'with ones inserted, xs = None / array / dict / tuple of arrays, length given or not, bodies with 1 or 2 '
        'output leaves, plus bodies returning None / () as output; a malformed stream (length mismatch, leaf '
        'mismatch, empty nesting with 0 / 1 / several rows and with length given, zero lengths in outer / middle '
        '/ inner position, each also with output-less bodies); leaves whose trailing shape has size 0 (shapes (n, 0), '
        '(n, 2, 0), alone or beside a well-sized leaf, n = / < / > prod(nested_lengths), admissible, zero-outer and '
        'empty nestings) against the model with the reshape test on total sizes; negative nested_lengths as a '
        'recorded domain probe; weights of length 0..6; '
        'DFI: linear equations, two solvers, N = 0..8, ties of round(); DFI applied repeatedly in one process '
        '(same function 3x, a second function with equal parameters, a jit re-trace, the weights before / after) on '
        'oscillating states against the defining sum by a plain numpy loop and the model; a case is non-trivial when at '
        'least two steps are taken with a non-identity program; distinct = distinct (op, program, input) hashes')

ERR = {ValueError: 'value-error', TypeError: 'type-error', IndexError: 'index-error',
       ZeroDivisionError: 'zero-division'}


def err_kind(e):
  for t, k in ERR.items():
    if isinstance(e, t):
      return k
  return 'error:' + type(e).__name__


def run(ctx: common.Ctx):
  jax = common.setup_jax()
  import jax.numpy as jnp
  from dinosaur import time_integration as ti

  import os, time
  t_phase = [time.time()]
  seconds = {}

  def phase(name):
    now = time.time()
    seconds[name] = round(now - t_phase[0], 1)
    if os.environ.get('C14_TIMING'):
      print(f'[C14] {name}: {now - t_phase[0]:.1f}s', flush=True)
    t_phase[0] = now
  ctx.lean('DinoProofs.Properties.C14', 'C14.txt',
           extra_files=['DinoProofs/Lemmas/Comb.lean', 'Dino/Comb.lean', 'Dino/CombDrv.lean'])
  phase('lean')
  rng = ctx.rng
  lines, checks = [], []   # checks: (op, inp, impl, decoder)

  def add(line, op, inp, impl, dec):
    lines.append(line)
    checks.append((op, inp, impl, dec))

  zenc = dict(num=lambda v: str(int(v)), vec=D.ivec, mat=D.imat)
  fenc = dict(num=fbits, vec=fvec, mat=fmat)

  def zp(prog):
    return D.enc_prog(prog, **zenc)

  def zps(progs):
    return D.enc_progs(progs, **zenc)

  # ---- real-code callables from programs
  def step_of(prog, spec):
    return lambda tree: spec.unflatten(D.run_jax(prog, spec.flatten(tree)))

  def filter_of(prog, spec):
    def flt(u, u_next):
      z = D.run_jax(prog, jnp.concatenate([spec.flatten(u), spec.flatten(u_next)]))
      return spec.unflatten(z[spec.dim:])
    return flt

  def post_of(prog, spec, ysel, split):
    idx = np.asarray(ysel, dtype=np.int64)
    h = len(ysel) // 2

    def post(tree):
      y = D.run_jax(prog, spec.flatten(tree))[idx]
      return {'a': y[:h], 'b': y[h:]} if split else y
    return post

  def rows_of(stacked):
    leaves = [np.asarray(l) for l in jax.tree_util.tree_leaves(stacked)]
    n = leaves[0].shape[0]
    return np.concatenate([l.reshape(n, int(np.prod(l.shape[1:]))) for l in leaves], axis=1).tolist()

  def flat_of(tree):
    return np.concatenate([np.ravel(np.asarray(l)) for l in jax.tree_util.tree_leaves(tree)]).tolist()

  # ---- pure-Python sequential oracles (unbounded ints)
  def o_swf(prog, filters, d):
    def f(u):
      un = D.run_py(prog, u)
      for flt in filters:
        un = D.run_py(flt, list(u) + list(un))[d:]
      return un
    return f

  def o_traj(stepf, outer, inner, swi, post, ysel, x):
    s, frames = list(x), []
    for _ in range(outer):
      cin = s
      for _ in range(inner):
        s = stepf(s)
      z = D.run_py(post, cin if swi else s)
      frames.append([z[i] for i in ysel])
    return s, frames

  def retry(make):
    for mod in (None, None, 1009, 97, 7):
      try:
        return make(mod)
      except D.Overflow:
        ctx.dist['regenerated-with-mod'] += 1
    raise common.Infra('C14 generator: could not bound the values')

  def to_tree(spec, x, dtype=np.int64):
    return spec.unflatten(jnp.asarray(np.asarray(x, dtype=dtype)))

  # ================================================================== step_with_filters / repeated
  nswf = ctx.n(24, 240)
  for ci in range(nswf):
    nf = [0, 1, 2, 3][ci % 4]
    spec = D.random_spec(rng, ['scalar', 'dict', 'tuple'][ci] if ci < 3 else None)
    d = spec.dim

    def make(mod, spec=spec, d=d, nf=nf):
      prog, kind = D.gen_prog(rng, d, mod=mod)
      filters = [D.gen_prog(rng, 2 * d, kind=str(rng.choice(['noncommuting', 'affine', 'counter', 'mixed'])),
                            mod=mod)[0] for _ in range(nf)]
      u = rng.integers(-5, 6, d)
      return prog, kind, filters, u, o_swf(prog, filters, d)([int(v) for v in u])
    prog, kind, filters, u, expect = retry(make)
    inp = dict(tree=spec.name, prog=zp(prog), filters=zps(filters), u=u.tolist())
    ctx.dist[f'swf:filters={nf}'] += 1
    ctx.case(('swf', inp['prog'], inp['filters'], tuple(inp['u'])), nontrivial=nf >= 1 and kind != 'identity',
             sample=inp if ci == 3 else None)
    with ctx.impl('step-with-filters-exception', inp):
      out = flat_of(ti.step_with_filters(step_of(prog, spec), [filter_of(f, spec) for f in filters])(
          to_tree(spec, u)))
      ctx.expect(out == expect, 'step-with-filters-vs-loop',
                 f'step_with_filters != sequential filter loop: {out} vs {expect}', inp)
      add(f'comb Z swf {inp["prog"]} {inp["filters"]} {D.ivec(u)}', 'step_with_filters', inp, out, D.univec)

  nrep = ctx.n(16, 160)
  for ci in range(nrep):
    n = [0, 1, 2, 3, 5, 8][ci % 6] if ci < 12 else int(rng.integers(0, 40))
    spec = D.random_spec(rng)
    d = spec.dim

    def make(mod, d=d, n=n):
      prog, kind = D.gen_prog(rng, d, mod=mod)
      x = rng.integers(-5, 6, d)
      s = [int(v) for v in x]
      for _ in range(n):
        s = D.run_py(prog, s)
      return prog, kind, x, s
    prog, kind, x, expect = retry(make)
    inp = dict(tree=spec.name, prog=zp(prog), steps=n, x=x.tolist())
    ctx.dist[f'repeated:steps={"0" if n == 0 else "1" if n == 1 else ">=2"}'] += 1
    ctx.case(('rep', inp['prog'], n, tuple(inp['x'])), nontrivial=n >= 2 and kind != 'identity')
    with ctx.impl('repeated-exception', inp):
      out = flat_of(ti.repeated(step_of(prog, spec), n)(to_tree(spec, x)))
      ctx.expect(out == expect, 'repeated-vs-loop', f'repeated(fn, {n}) != {n} applications: {out} vs {expect}', inp)
      add(f'comb Z rep {inp["prog"]} {n} {D.ivec(x)}', 'repeated', inp, out, D.univec)

  phase('swf+repeated')
  # ================================================================== trajectory_from_step
  grid = [(o, i, s) for o in range(5) for i in range(5) for s in (False, True)]
  extra = ctx.n(20, 300)
  for ci in range(len(grid) + extra):
    if ci < len(grid):
      outer, inner, swi = grid[ci]
    else:
      outer, inner, swi = int(rng.integers(1, 13)), int(rng.integers(1, 9)), bool(rng.integers(0, 2))
    nf = int(rng.choice([0, 0, 1, 2]))
    spec = D.random_spec(rng)
    d = spec.dim
    split = bool(rng.integers(0, 2))

    def make(mod, d=d, nf=nf, outer=outer, inner=inner, swi=swi):
      prog, kind = D.gen_prog(rng, d, mod=mod)
      filters = [D.gen_prog(rng, 2 * d, kind=str(rng.choice(['noncommuting', 'affine', 'counter'])),
                            mod=mod)[0] for _ in range(nf)]
      post, _ = D.gen_prog(rng, d, kind=str(rng.choice(['identity', 'affine', 'counter', 'noncommuting'])))
      ysel = [int(v) for v in rng.integers(0, d, int(rng.integers(1, d + 2)))]
      x = rng.integers(-5, 6, d)
      fin, frames = o_traj(o_swf(prog, filters, d), outer, inner, swi, post, ysel, [int(v) for v in x])
      return prog, kind, filters, post, ysel, x, fin, frames
    prog, kind, filters, post, ysel, x, efin, eframes = retry(make)
    inp = dict(tree=spec.name, prog=zp(prog), filters=zps(filters), outer=outer, inner=inner,
               start_with_input=swi, post=zp(post), ysel=ysel, x=x.tolist())
    ctx.dist[f'traj:outer={min(outer, 5)}{"+" if outer >= 5 else ""}'] += 1
    ctx.dist[f'traj:inner={min(inner, 5)}{"+" if inner >= 5 else ""}'] += 1
    ctx.dist[f'traj:start_with_input={swi}'] += 1
    ctx.case(('traj', inp['prog'], inp['filters'], outer, inner, swi, inp['post'], tuple(ysel), tuple(inp['x'])),
             nontrivial=outer * inner >= 2 and kind != 'identity', sample=inp if ci == 57 else None)
    with ctx.impl('trajectory-exception', inp):
      stepfn = step_of(prog, spec)
      if nf or rng.random() < 0.5:
        stepfn = ti.step_with_filters(stepfn, [filter_of(f, spec) for f in filters])
      fin, frames = ti.trajectory_from_step(stepfn, outer, inner, start_with_input=swi,
                                            post_process_fn=post_of(post, spec, ysel, split))(to_tree(spec, x))
      fin, frames = flat_of(fin), rows_of(frames)
      ctx.expect(fin == efin, 'trajectory-final-vs-loop',
                 f'final state != state after outer*inner steps: {fin} vs {efin}', inp)
      ctx.expect(frames == eframes, 'trajectory-frames-vs-loop',
                 f'frames != sequential loop: {frames} vs {eframes}', inp)
      add(f'comb Z traj {inp["prog"]} {inp["filters"]} {outer} {inner} {int(swi)} {inp["post"]} '
          f'{D.ivec(ysel)} {D.ivec(x)}', 'trajectory_from_step', inp, (fin, frames),
          lambda o: (lambda a, b: (D.univec(a), D.unimat(b)))(*o.split(' ')))
      # the split does not matter: every inner-th frame of the single-step trajectory
      if inner >= 1 and outer >= 1 and outer * inner <= 40 and ci % 3 == 0:
        _, fr1 = ti.trajectory_from_step(stepfn, outer * inner, 1, start_with_input=swi,
                                         post_process_fn=post_of(post, spec, ysel, split))(to_tree(spec, x))
        fr1 = rows_of(fr1)
        sub = fr1[0::inner] if swi else fr1[inner - 1::inner]
        ctx.expect(sub == frames, 'trajectory-split', 'frames of (outer, inner) != every inner-th frame of '
                   '(outer*inner, 1)', inp)

  phase('trajectory')
  # ================================================================== nested_checkpoint_scan
  def xs_shapes(kind, n):
    return {'none': None, 'array': [(n,)], 'dict': [(n,), (n, 2)], 'tuple': [(n,), (n,)],
            'matrix': [(n, 2, 1)]}[kind]

  def build_xs(kind, leaves):
    if kind == 'none':
      return None
    if kind in ('array', 'matrix'):
      return leaves[0]
    if kind == 'dict':
      return {'p': leaves[0], 'q': leaves[1]}
    return tuple(leaves)

  def nscan_case(ls, xs_kind, length, leaf_lengths=None, tag='valid', total=None, out='array', shapes=None):
    """leaf_lengths: leading sizes of the xs leaves (default: prod(ls)); out: 'array' (one array or a dict of two
    arrays), 'none' / 'unit' (the body returns None / () as output: no output leaf); shapes: the full shapes of the
    leaves given explicitly (leaves whose trailing shape has size 0: then only the model with the reshape test on
    total sizes, driver op `nscans`, is compared, and the oracle scans prod(ls) rows)."""
    p = int(np.prod(ls)) if ls else 1
    steps = p if total is None else total
    cspec = D.random_spec(rng)
    dc = cspec.dim
    explicit = shapes is not None
    if not explicit:
      shapes = xs_shapes(xs_kind, steps)
    if shapes is not None and leaf_lengths is not None:
      shapes = [(n,) + s[1:] for n, s in zip(leaf_lengths, shapes)]
    sizes = [] if shapes is None else [int(np.prod(s[1:])) for s in shapes]
    zero_size = any(z == 0 for z in sizes)
    dx = 0 if shapes is None else sum(int(np.prod(s[1:])) for s in shapes)
    split = bool(rng.integers(0, 2))

    def make(mod):
      prog, kind = D.gen_prog(rng, dc + dx, mod=mod)
      ysel = [int(v) for v in rng.integers(0, dc + dx, int(rng.integers(1, 4)))] if out == 'array' else []
      init = rng.integers(-4, 5, dc)
      leaves = None if shapes is None else [rng.integers(-3, 4, s) for s in shapes]
      # sequential-loop oracle (only meaningful when every leaf has `steps` rows)
      expect = None
      if shapes is None or all(s[0] == steps for s, z in zip(shapes, sizes) if z):
        c, ys = [int(v) for v in init], []
        for t in range(steps):
          row = [] if leaves is None else [int(v) for l, z in zip(leaves, sizes) if z for v in np.ravel(l[t])]
          z = D.run_py(prog, c + row)
          c = z[:dc]
          ys.append([z[i] for i in ysel])
        expect = (c, ys)
      return prog, kind, ysel, init, leaves, expect
    prog, kind, ysel, init, leaves, expect = retry(make)
    h = len(ysel) // 2
    idx = np.asarray(ysel, dtype=np.int64)

    def body(c, x):
      parts = [cspec.flatten(c)] + ([] if x is None else [jnp.ravel(l) for l in jax.tree_util.tree_leaves(x)])
      z = D.run_jax(prog, jnp.concatenate(parts))
      if out != 'array':
        return cspec.unflatten(z[:dc]), (None if out == 'none' else ())
      y = z[idx]
      return cspec.unflatten(z[:dc]), ({'a': y[:h], 'b': y[h:]} if split else y)
    nout = 0 if out != 'array' else 2 if split else 1
    xs = build_xs(xs_kind, None if leaves is None else [jnp.asarray(l) for l in leaves])
    ltok = 'N' if leaves is None else '/'.join(D.imat(np.asarray(l).reshape(l.shape[0], int(np.prod(l.shape[1:])))) for l in leaves)
    inp = dict(carry_tree=cspec.name, prog=zp(prog), ysel=ysel, init=init.tolist(), xs_kind=xs_kind,
               xs=None if leaves is None else [l.tolist() for l in leaves], length=length,
               xs_shapes=None if shapes is None else [list(sh) for sh in shapes],
               nested_lengths=list(ls), tag=tag, output=out, output_leaves=nout)
    ctx.dist[f'nscan:{tag}'] += 1
    ctx.dist[f'nscan:depth={len(ls)}'] += 1
    ctx.dist[f'nscan:xs={xs_kind}'] += 1
    ctx.dist[f'nscan:output-leaves={nout}'] += 1
    ctx.case(('nscan', inp['prog'], tuple(ysel), tuple(inp['init']), ltok, length, tuple(ls), out),
             nontrivial=tag not in ('valid', 'valid-no-output') or (p >= 2 and kind != 'identity'),
             sample=inp if (tag == 'valid' and len(ls) == 3 and len(ctx.samples) < 6) else None)
    try:
      with warnings.catch_warnings():
        warnings.simplefilter('ignore')
        carry, ys = ti.nested_checkpoint_scan(body, to_tree(cspec, init), xs, length, nested_lengths=list(ls))
      if nout == 0:
        # the stacked output of an output-less body is the same empty pytree (None / ())
        same = ys is None if out == 'none' else (isinstance(ys, tuple) and len(ys) == 0)
        ys_out = None if same else ('not-the-empty-output', repr(ys))
      else:
        ys_out = rows_of(ys)
      impl = ('ok', flat_of(carry), ys_out)
    except Exception as e:  # pylint: disable=broad-except
      impl = (err_kind(e),)

    def dec(o):
      t = o.split(' ')
      return ('ok', D.univec(t[1]), None if t[2] == 'N' else D.unimat(t[2])) if t[0] == 'ok' else (o,)
    tail = f'{D.ivec(init)} {ltok} {"N" if length is None else length} {D.ivec(ls)}'
    if nout and not zero_size:   # the model instance "at least one output leaf" (`nestedCheckpointScan`)
      add(f'comb Z nscan {inp["prog"]} {dc} {D.ivec(ysel)} {tail}', 'nested_checkpoint_scan', inp, impl, dec)
    if not zero_size:            # the general model (`nestedCheckpointScanOut`, number of output leaves as a parameter);
      # both test `leading length != prod(nested_lengths)`: the real reshape test only for trailing shapes of
      # positive size (theorem nestedCheckpointScanSized_pos)
      add(f'comb Z nscano {inp["prog"]} {dc} {D.ivec(ysel)} {nout} {tail}', 'nested_checkpoint_scan[out-leaves]',
          inp, impl, dec)
    # the model with the real reshape test (total sizes; `nestedCheckpointScanSized` / `…TreeSized`): every case
    add(f'comb Z nscans {inp["prog"]} {dc} {D.ivec(ysel)} {nout} {D.ivec(init)} {ltok} {D.ivec(sizes)} '
        f'{"N" if length is None else length} {D.ivec(ls)}', 'nested_checkpoint_scan[reshape-total-sizes]',
        inp, impl, dec)
    if expect is not None and nout == 0:
      expect = (expect[0], None)
    return impl, expect, inp, (body, cspec, init, xs)

  def with_ones(f):
    g = list(f)
    for _ in range(int(rng.integers(1, 3))):
      g.insert(int(rng.integers(0, len(g) + 1)), 1)
    return g

  maxlen = 24
  facs = []
  for n in range(1, maxlen + 1):
    for f in D.ordered_factorisations(n):
      facs.append(f)
  facs.append([1, 1])
  facs.append([1, 1, 1])
  if not ctx.quick:
    for n in (36, 48, 60, 64, 72, 96, 120, 128, 144, 180, 210, 240, 243, 256, 360):
      fs = D.ordered_factorisations(n)
      pick = rng.choice(len(fs), size=min(len(fs), 25), replace=False)
      facs.extend(fs[int(i)] for i in pick)
  ctx.notes.append(f'nested scan: {len(facs)} ordered factorisations: all of every length <= {maxlen}'
                   + ('' if ctx.quick else ', plus at most 25 sampled ordered factorisations of each of the 15 lengths '
                      '36, 48, 60, 64, 72, 96, 120, 128, 144, 180, 210, 240, 243, 256, 360 (sampled, not exhaustive)'))
  xs_kinds = ['array', 'dict', 'tuple', 'none', 'matrix']
  for fi, f in enumerate(facs):
    ls = f if fi % 4 else with_ones(f)
    p = int(np.prod(ls))
    kind = xs_kinds[fi % len(xs_kinds)]
    length = p if (fi % 3 == 0 or kind == 'none' and fi % 2) else None
    impl, expect, inp, fn = nscan_case(ls, kind, length)
    ok = impl[0] == 'ok'
    ctx.expect(ok, 'nested-scan-rejects-valid', f'valid factorisation rejected: {impl}', inp)
    if ok:
      ctx.expect(impl[1] == expect[0], 'nested-scan-carry-vs-loop',
                 f'final carry != sequential loop: {impl[1]} vs {expect[0]}', inp)
      ctx.expect(impl[2] == expect[1], 'nested-scan-outputs-vs-loop',
                 f'stacked outputs != sequential loop (order / content)', inp)
      if fi % 5 == 0:
        body, cspec, init, xs = fn
        with ctx.impl('flat-scan-exception', inp):
          c2, y2 = jax.lax.scan(body, to_tree(cspec, init), xs, p if xs is None else None)
          ctx.expect(flat_of(c2) == impl[1] and rows_of(y2) == impl[2], 'nested-vs-flat-scan',
                     'nested_checkpoint_scan != jax.lax.scan', inp)

  # bodies without an output leaf (`return carry, None` / `return carry, ()`), normal lengths: the nested scan
  # returns the final carry of the sequential loop and the same empty output
  nno = ctx.n(30, 150)
  for ni in range(nno):
    f = [[2, 3], [1], [4], [2, 2, 2], [3, 1, 2], [1, 1]][ni] if ni < 6 else facs[int(rng.integers(0, len(facs)))]
    ls = list(f) if ni % 4 else with_ones(f)
    p = int(np.prod(ls))
    kind = xs_kinds[ni % len(xs_kinds)]
    length = p if (ni % 3 == 0 or kind == 'none') else None
    impl, expect, inp, fn = nscan_case(ls, kind, length, tag='valid-no-output', out='none' if ni % 3 else 'unit')
    ctx.expect(impl[0] == 'ok', 'nested-scan-rejects-valid', f'valid factorisation rejected (output-less body): {impl}',
               inp)
    if impl[0] == 'ok':
      ctx.expect(impl[1] == expect[0], 'nested-scan-carry-vs-loop',
                 f'final carry != sequential loop (output-less body): {impl[1]} vs {expect[0]}', inp)
      ctx.expect(impl[2] is None, 'nested-scan-outputs-vs-loop',
                 f'an output-less body does not give the empty output: {impl[2]}', inp)
      if ni % 5 == 0:
        body, cspec, init, xs = fn
        with ctx.impl('flat-scan-exception', inp):
          c2, y2 = jax.lax.scan(body, to_tree(cspec, init), xs, p if xs is None else None)
          ctx.expect(flat_of(c2) == impl[1] and jax.tree_util.tree_leaves(y2) == [], 'nested-vs-flat-scan',
                     'nested_checkpoint_scan != jax.lax.scan (output-less body)', inp)

  # malformed / corner stream: the validation logic
  modes = ['length-mismatch', 'xs-short', 'xs-long', 'leaf-mismatch', 'empty-nesting', 'empty-nesting-1',
           'zero-outer', 'zero-inner', 'zero-only', 'zero-middle', 'length-ok',
           'empty-nesting-0', 'empty-nesting-length', 'noout-zero-outer', 'noout-zero-middle', 'noout-zero-inner',
           'noout-zero-all', 'noout-empty-nesting', 'noout-length-mismatch', 'noout-xs-short']
  nmal = ctx.n(3 * len(modes), 12 * len(modes))
  zero_outer_rejected = [0]
  for mi in range(nmal):
    mode = modes[mi % len(modes)]
    base = facs[int(rng.integers(0, len(facs)))] if mi >= len(modes) else [2, 3]
    ls = list(base)
    p = int(np.prod(ls))
    kind = str(rng.choice(['array', 'dict', 'tuple']))
    length, leaf_lengths, total = None, None, None
    should_fail = True
    out = 'array'
    if mode.startswith('noout-'):
      out = 'none' if rng.random() < 0.7 else 'unit'
    if mode == 'length-mismatch':
      length = p + int(rng.choice([-1, 1, 2]))
      if rng.random() < 0.3:
        kind = 'none'
    elif mode == 'xs-short':
      total = max(p - int(rng.integers(1, 3)), 0)
    elif mode == 'xs-long':
      total = p + int(rng.integers(1, 3))
      if rng.random() < 0.5:
        length = total          # consistent with xs, inconsistent with the nesting
    elif mode == 'leaf-mismatch':
      kind = str(rng.choice(['dict', 'tuple']))
      leaf_lengths = [p, p + int(rng.choice([-1, 1]))] if rng.random() < 0.5 else [max(p - 1, 0), p]
    elif mode == 'empty-nesting':
      ls, total = [], int(rng.integers(2, 5))
    elif mode == 'empty-nesting-1':
      ls, total = [], 1
      if rng.random() < 0.5:
        kind = 'none'
    elif mode == 'zero-outer':
      ls, total = [0] + ls, 0
    elif mode == 'zero-middle':
      ls, total = ls[:1] + [0] + ls[1:], 0
    elif mode == 'zero-inner':
      ls, total, should_fail = ls + [0], 0, False
    elif mode == 'zero-only':
      ls, total, should_fail = [0], 0, False
    elif mode == 'length-ok':
      length, should_fail = p, False
    elif mode == 'empty-nesting-0':
      ls, total = [], 0
    elif mode == 'empty-nesting-length':
      # math.prod([]) = 1: length 1 is consistent (then IndexError / TypeError), every other one a ValueError
      ls, total = [], int(rng.choice([0, 1, 1, 2, 5]))
      length = int(rng.choice([0, 1, 1, total]))
      if rng.random() < 0.3:
        kind = 'none'
    elif mode == 'noout-zero-outer':
      # the same nestings that are rejected with an output leaf are accepted without one
      ls, total, should_fail = [0] + ls, 0, False
      length = 0 if rng.random() < 0.5 else None
      if rng.random() < 0.3:
        kind, length = 'none', 0
    elif mode == 'noout-zero-middle':
      ls, total, should_fail = ls[:1] + [0] + ls[1:], 0, False
    elif mode == 'noout-zero-inner':
      ls, total, should_fail = ls + [0], 0, False
    elif mode == 'noout-zero-all':
      ls, total, should_fail = [0] * int(rng.integers(1, 4)), 0, False
    elif mode == 'noout-empty-nesting':
      ls, total = [], int(rng.choice([0, 1, 1, 3]))
    elif mode == 'noout-length-mismatch':
      length = p + int(rng.choice([-1, 1, 2]))
    elif mode == 'noout-xs-short':
      total = max(p - int(rng.integers(1, 3)), 0)
    impl, expect, inp, fn = nscan_case(ls, kind, length, leaf_lengths=leaf_lengths, tag=mode, total=total, out=out)
    if mode in ('zero-outer', 'zero-middle'):
      # facts for review F2 / C14 N7: the documented precondition holds (prod(nested_lengths) = 0 = leading length of every
      # leaf, = length when given) and lax.scan accepts the same call and returns (init, empty stacked outputs)
      body, cspec, init, xs = fn
      flat_ok = False
      with ctx.impl('flat-scan-exception', inp):
        c2, y2 = jax.lax.scan(body, to_tree(cspec, init), xs, 0 if xs is None else None)
        flat_ok = flat_of(c2) == [int(v) for v in init] and all(np.asarray(l).shape[0] == 0
                                                               for l in jax.tree_util.tree_leaves(y2))
      ctx.expect(flat_ok, 'flat-scan-empty-input', 'lax.scan of an empty input does not return (init, empty outputs)', inp)
      if flat_ok and impl[0] == 'value-error':
        zero_outer_rejected[0] += 1
        if True:   # a failure of the property on the real code: KNOWN-FINDING when recorded, VIOLATION otherwise
          ctx.fail('nested-scan-zero-outer', 'nested_checkpoint_scan raises ValueError (jnp.concatenate of an empty '
                   'sequence) for a nesting of product 0 with a zero in a non-innermost position and a body with an '
                   'output leaf, where lax.scan returns (init, empty outputs)', inp)
    if mode in ('length-mismatch', 'xs-short', 'xs-long', 'leaf-mismatch', 'empty-nesting', 'empty-nesting-0',
                'noout-empty-nesting', 'noout-length-mismatch', 'noout-xs-short'):
      # the property: inconsistent lengths are rejected
      ctx.expect(impl[0] != 'ok', 'nested-scan-accepts-mismatch',
                 f'inconsistent length / nesting accepted ({mode})', inp)
    if not should_fail:
      ctx.expect(impl[0] == 'ok' and impl[1] == expect[0] and impl[2] == expect[1], 'nested-scan-vs-loop-corner',
                 f'corner case {mode}: {impl} vs {expect}', inp)
  ctx.notes.append('nested_lengths with a zero in a non-innermost position (e.g. [0, 3] for an empty xs) '
                   'raise ValueError (jnp.concatenate of an empty sequence) although the flat scan of the '
                   f'empty input is valid ({zero_outer_rejected[0]} such calls in this run: lax.scan on the same body / '
                   'init / xs returned (init, empty outputs), and the documented precondition "the product of '
                   'nested_lengths must match length (if provided) and the size of the leading axis for all arrays '
                   'in xs" held; [3, 0] and [0] are accepted and agree with lax.scan); reported as a failure of the '
                   'property only if a known finding `nested-scan-zero-outer` is recorded, otherwise a stated '
                   'domain restriction; the model mirrors this (theorems '
                   'nestedCheckpointScan(Out/Tree/TreeOut)_zero_outer_rejected), T14.4 is stated for positive outer lengths; a body '
                   'returning None / () as output (no output leaf) is accepted with such nestings and returns '
                   '(init, None) (tree_map(jnp.concatenate, None) calls nothing): theorems '
                   'nestedCheckpointScanOut_ok_iff / nestedCheckpointScanOut_no_output')

  # ---- DOMAIN: leaves whose trailing shape has size 0.  `reshape` compares TOTAL sizes (n*0 = prod*0), so the real code
  # accepts such a leaf with EVERY leading length n and then runs prod(nested_lengths) iterations on empty rows.  The
  # theorems about `nestedCheckpointScan…` / `…Out` / `…TreeOut` are tied to the real call only for trailing shapes of
  # positive size (hypothesis `0 < rowSize` of nestedCheckpointScanSized_pos); the model carrying the row size
  # (`nestedCheckpointScanSized`, theorems `…Sized_zero`, `…Sized_ok_iff`) is compared here, and the expectation below
  # pins the real behaviour at the excluded point.
  zmodes = ['match', 'short', 'long', 'zero-rows', 'rank3', 'mixed-ok', 'mixed-bad', 'zero-outer', 'empty-nesting',
            'length-mismatch', 'noout-short', 'inner-zero', 'review-F2-N1']
  nzs = ctx.n(2 * len(zmodes), 8 * len(zmodes))
  zs_accepted_mismatch = 0
  for zi in range(nzs):
    mode = zmodes[zi % len(zmodes)]
    ls = [2, 3] if zi < len(zmodes) else list(facs[int(rng.integers(0, len(facs)))])
    if len(ls) == 1 and mode in ('zero-outer',):
      ls = ls + [2]
    p = int(np.prod(ls))
    out, length, kind = 'array', None, 'array'
    accept = True
    n_bad = max(p - int(rng.integers(1, 3)), 0) if rng.random() < 0.5 else p + int(rng.integers(1, 3))
    if mode == 'match':
      shapes = [(p, 0)]
    elif mode == 'short':
      shapes = [(max(p - int(rng.integers(1, 3)), 0), 0)]
    elif mode == 'long':
      shapes, length = [(p + int(rng.integers(1, 4)), 0)], (p if rng.random() < 0.5 else None)
    elif mode == 'zero-rows':
      shapes = [(0, 0)]
    elif mode == 'rank3':
      shapes = [(n_bad, 2, 0)] if rng.random() < 0.5 else [(n_bad, 0, 3)]
    elif mode == 'mixed-ok':       # a well-sized leaf beside a leaf of size 0 with the wrong leading length
      kind, shapes = str(rng.choice(['dict', 'tuple'])), [(p, 2), (n_bad, 0)]
    elif mode == 'mixed-bad':      # the positive-size leaf has the wrong leading length: TypeError
      kind, shapes, accept = str(rng.choice(['dict', 'tuple'])), [(p + 1, 1), (p, 0)], False
    elif mode == 'zero-outer':     # with an output leaf: ValueError from jnp.concatenate, as for ordinary leaves
      ls, shapes, accept = [0] + ls, [(int(rng.integers(0, 4)), 0)], False
    elif mode == 'empty-nesting':  # reshape to the trailing shape succeeds (0 = 0), then lengths[0]: IndexError
      ls, shapes, accept = [], [(int(rng.integers(0, 4)), 0)], False
    elif mode == 'length-mismatch':
      shapes, length, accept = [(n_bad, 0)], p + 1, False
    elif mode == 'noout-short':
      shapes, out = [(max(p - 1, 0), 0)], 'none'
    elif mode == 'inner-zero':
      ls, shapes = ls + [0], [(int(rng.integers(1, 4)), 0)]
    else:                          # the call of review F2, C14 N1: zeros((5, 0)) with nested_lengths [2, 3]
      ls, shapes = [2, 3], [(5, 0)]
    impl, expect, inp, _ = nscan_case(ls, kind, length, tag='zero-size:' + mode, out=out, shapes=shapes)
    if accept:
      okz = impl[0] == 'ok' and expect is not None and impl[1] == expect[0] and impl[2] == expect[1]
      ctx.expect(okz, 'zero-size-leaf-domain',
                 'DOMAIN statement no longer true: a leaf whose trailing shape has size 0 is accepted by reshape with '
                 f'every leading length and scanned as prod(nested_lengths) empty rows; got {impl} vs {expect}', inp)
      pp = int(np.prod(ls))
      if any(sh[0] != pp for sh in shapes if int(np.prod(sh[1:])) == 0) and impl[0] == 'ok':
        zs_accepted_mismatch += 1
    else:
      ctx.expect(impl[0] != 'ok', 'nested-scan-accepts-mismatch',
                 f'inconsistent length / nesting accepted (zero-size leaf, {mode})', inp)
  ctx.notes.append('DOMAIN (zero-size leaves): a leaf of xs whose trailing shape x.shape[1:] has size 0 passes '
                   'x.reshape(nested_lengths + x.shape[1:]) with EVERY leading length (jax compares total sizes, '
                   '0 = 0), so nested_checkpoint_scan does not reject a leading length != prod(nested_lengths) there '
                   '(lax.scan with the same `length` raises ValueError) and runs prod(nested_lengths) iterations on '
                   f'empty rows: {zs_accepted_mismatch} such calls accepted in this run, e.g. zeros((5, 0)) with '
                   'nested_lengths=[2, 3] returns carry after 6 steps and 6 outputs. The acceptance theorems '
                   'nestedCheckpointScan(Out/Tree/TreeOut)_ok_iff speak about the real call for trailing shapes of '
                   'positive size only (hypothesis 0 < rowSize of nestedCheckpointScanSized_pos / '
                   '…TreeSized_pos); nestedCheckpointScanSized_ok_iff states the exact condition '
                   '(0 < rowSize -> leading length = prod) and is the model compared on these inputs')
  ctx.obligation('zero-size leaves with a mismatched leading length were drawn and accepted', 'coverage',
                 zs_accepted_mismatch >= 4, f'{zs_accepted_mismatch}')

  # ---- DOMAIN: negative entries of nested_lengths are outside the model (lengths are natural numbers).  Recorded probe:
  # the real code never accepts them, but the exception is not always one of the modelled kinds.
  neg_kinds = collections.Counter()
  neg_calls = [([-2, -3], 'array', 6, None), ([-1, -6], 'array', 6, None), ([2, -3], 'array', 6, -6),
               ([-6], 'array', 6, None), ([-1, 6], 'array', 6, None), ([6, -1], 'array', 6, None),
               ([-1, 6], 'array', 12, None), ([-2, -3], 'none', 0, 6), ([-2, 3], 'none', 0, None),
               ([-2], 'none', 0, None), ([-1], 'none', 0, -1), ([-2, -3], 'dict', 6, 6), ([0, -3], 'array', 0, None),
               ([-3, 0], 'array', 0, None), ([-2, -3], 'array-noout', 6, None), ([-1, 6], 'none-noout', 0, None),
               ([-2, -3], 'none-noout', 0, 6), ([-2], 'none-noout', 0, None)]
  for ls, kind, n, length in neg_calls:
    noout = kind.endswith('-noout')
    kind = kind.replace('-noout', '')
    xs = build_xs(kind, None if kind == 'none' else [jnp.asarray(rng.integers(-3, 4, sh)) for sh in xs_shapes(kind, n)])
    inp = dict(nested_lengths=ls, xs_kind=kind, leading=n, length=length, output='none' if noout else 'array')
    ctx.case(('nscan-negative', tuple(ls), kind, n, length, noout), nontrivial=True)

    def nbody(c, x, noout=noout):
      return c + 1, (None if noout else c)
    carry = None
    try:
      with warnings.catch_warnings():
        warnings.simplefilter('ignore')
        carry, _ = ti.nested_checkpoint_scan(nbody, jnp.asarray(0), xs, length, nested_lengths=ls)
      k = 'ok'
    except Exception as e:  # pylint: disable=broad-except
      k = err_kind(e)
    neg_kinds[k] += 1
    ctx.dist[f'nscan:negative-lengths:{k}'] += 1
    # measured behaviour (jax 0.11): rejected as soon as there is an array leaf in xs or an output leaf; with xs = None
    # and an output-less body lax.scan treats a negative length as 0 iterations, so the call returns (init, None)
    quiet = kind == 'none' and noout
    ctx.expect((k == 'ok') == quiet and (k != 'ok' or int(carry) == 0), 'negative-length-domain',
               'DOMAIN statement no longer true: a negative entry in nested_lengths is rejected iff xs has an array '
               f'leaf or the body has an output leaf, and otherwise runs 0 iterations; got {k}, carry {carry}', inp)
  ctx.notes.append('DOMAIN (negative nested_lengths): outside the model (lengths are natural numbers) and outside the '
                   f'claim; recorded probe on {len(neg_calls)} calls; outcomes on the real code: {dict(neg_kinds)}: '
                   'TypeError from reshape when an array leaf is present and -1 is not usable as a wildcard, '
                   'ValueError from lax.scan when reshape takes -1 as a wildcard, for xs = None with an output leaf an '
                   'MLIRError from lowering a scan of negative length (not one of the modelled kinds), and for '
                   'xs = None with an output-less body the call is ACCEPTED: lax.scan runs 0 iterations for a '
                   'negative length and (init, None) is returned, even with length=6 and nested_lengths=[-2, -3]')

  phase('nested-scan')
  # ================================================================== accumulate_repeated
  nacc = ctx.n(20, 200)
  for ci in range(nacc):
    nw = [0, 1, 2, 3][ci] if ci < 4 else int(rng.integers(0, 7))
    spec = D.random_spec(rng)
    d = spec.dim

    def make(mod, d=d, nw=nw):
      prog, kind = D.gen_prog(rng, d, mod=mod)
      w = rng.integers(-3, 4, nw)
      x = rng.integers(-5, 6, d)
      s, acc = [int(v) for v in x], [0] * d
      for k in range(nw):
        s = D.run_py(prog, s)
        acc = [a + int(w[k]) * v for a, v in zip(acc, s)]
      if any(abs(a) >= D.LIMIT for a in acc):
        raise D.Overflow()
      return prog, kind, w, x, acc
    prog, kind, w, x, expect = retry(make)
    inp = dict(tree=spec.name, prog=zp(prog), weights=w.tolist(), state=x.tolist())
    ctx.dist[f'accumulate:weights={min(nw, 3)}{"+" if nw >= 3 else ""}'] += 1
    ctx.case(('acc', inp['prog'], tuple(inp['weights']), tuple(inp['state'])),
             nontrivial=nw >= 2 and kind != 'identity', sample=inp if ci == 5 else None)
    with ctx.impl('accumulate-exception', inp):
      out = flat_of(ti.accumulate_repeated(step_of(prog, spec), jnp.asarray(np.asarray(w, dtype=np.int64)),
                                           to_tree(spec, x)))
      ctx.expect(out == expect, 'accumulate-vs-sum', f'accumulate_repeated != sum_k w_k step^k: {out} vs {expect}',
                 inp)
      add(f'comb Z acc {inp["prog"]} {D.ivec(w)} {D.ivec(x)}', 'accumulate_repeated', inp, out, D.univec)

  phase('accumulate')
  # ================================================================== Lanczos weights and DFI (floats)
  def sinc_ref(x):
    return 1.0 if x == 0 else float(np.sin(np.pi * x) / (np.pi * x))

  nlan = ctx.n(40, 400)
  forced = [(6.0, 6.0, 1.0), (5.0, 6.0, 1.0), (7.0, 6.0, 1.0), (1.0, 6.0, 1.0), (0.9, 6.0, 1.0), (3.0, 6.0, 1.0),
            (-4.0, 6.0, 1.0), (6.0, 6.0, 0.0), (0.0, 6.0, 0.0), (6.0, 0.0, 1.0), (0.0, 0.0, 1.0),
            (21600.0, 21600.0, 600.0), (21600.0, 10800.0, 450.0), (6.0, 3.0, 0.5), (6.0, -6.0, 1.0),
            (6.0, 6.0, -1.0), (2.0, 6.0, 1.0), (9.0, 6.0, 1.0), (11.0, 8.0, 1.0)]
  for ci in range(nlan):
    if ci < len(forced):
      T, c, dt = forced[ci]
    else:
      dt = float(rng.choice([0.25, 0.5, 1.0, 7.5, 600.0, float(rng.uniform(0.1, 2))]))
      nn = float(rng.choice([0.0, 0.5, 1.0, 1.5, 2.5, 3.0, 4.5, 6.0, float(rng.uniform(0, 12))]))
      T = 2 * dt * nn
      c = float(rng.choice([T, 2 * T, T / 2, float(rng.uniform(0.2, 3)) * max(T, dt)]))
    inp = dict(time_span=T, cutoff_period=c, dt=dt)
    try:
      with np.errstate(all='ignore'), warnings.catch_warnings():
        warnings.simplefilter('ignore')
        w = ti._dfi_lanczos_weights(T, c, dt)
      impl = ('ok', np.asarray(w, dtype=float))
    except Exception as e:  # pylint: disable=broad-except
      impl = (err_kind(e),)
    ctx.dist[f'lanczos:{impl[0] if impl[0] != "ok" else "N=" + str(min(len(impl[1]), 4)) + ("+" if len(impl[1]) >= 4 else "")}'] += 1
    ctx.case(('lanczos', T, c, dt), nontrivial=impl[0] != 'ok' or len(impl[1]) >= 2,
             sample=inp if ci == 12 else None)
    add(f'comb F lanczos {fbits(T)} {fbits(c)} {fbits(dt)}', '_dfi_lanczos_weights', inp, impl,
        lambda o: ('ok', np.asarray(unfvec(o), dtype=float)) if (o == '_' or o[0].isdigit()) else (o,))
    # independent oracle: documented Lanczos window, N = nearest integer (ties to even)
    if impl[0] == 'ok' and dt > 0 and T > 0 and c > 0:
      x = T / (2 * dt)
      n_ref = int(np.floor(x)) if x - np.floor(x) < 0.5 else int(np.floor(x)) + 1 if x - np.floor(x) > 0.5 \
          else int(np.floor(x)) + (int(np.floor(x)) % 2)
      ref = np.array([sinc_ref(n / (n_ref + 1)) * sinc_ref(n * T / (c * n_ref)) for n in range(1, n_ref + 1)])
      ctx.expect(len(impl[1]) == n_ref and (n_ref == 0 or np.abs(impl[1] - ref).max() < 1e-12),
                 'lanczos-oracle', f'Lanczos weights differ from sinc(n/(N+1)) sinc(n T/(c N)), N={n_ref}', inp)

  ndfi = ctx.n(24, 240)
  for ci in range(ndfi):
    spec = D.random_spec(rng, ['scalar', 'dict'][ci] if ci < 2 else None)
    d = spec.dim
    steady = ci % 3 == 2
    solver_name = ['bfe', 'fe'][ci % 2]
    dt = float(rng.choice([0.25, 0.5, 1.0]))
    nn = [0.0, 1.0, 2.5, 3.0][ci] if ci < 4 else float(rng.choice([0.0, 1.0, 2.0, 2.5, 3.5, 4.0, 6.0, 8.0]))
    T = 2 * dt * nn
    c = float(rng.choice([T if T > 0 else 1.0, 2 * T + 1.0, float(rng.uniform(0.5, 2)) * (T + 1)]))
    s = rng.integers(-4, 5, d).astype(float)
    if steady and not s.any():
      s[0] = 1.0
    e = rng.integers(-3, 4, (d, d)) / 8.0
    im = rng.integers(-3, 4, (d, d)) / 8.0
    nf = int(rng.choice([0, 1, 2]))
    filters = []
    for _ in range(nf):
      # u_next + A (u_next - u): keeps every steady state
      a = rng.integers(-2, 3, (d, d)) / 8.0
      big = np.block([[np.eye(d), np.zeros((d, d))], [-a, np.eye(d) + a]])
      filters.append([('A', big, np.zeros(2 * d))])
    if steady:
      proj = np.eye(d) - np.outer(s, s) / float(s @ s)
      e, im = e @ proj, im @ proj
    inp = dict(tree=spec.name, solver=solver_name, explicit=e.tolist(), implicit=im.tolist(),
               filters=D.enc_progs(filters, **fenc), time_span=T, cutoff_period=c, dt=dt, state=s.tolist(),
               steady=steady)
    ctx.dist[f'dfi:solver={solver_name}'] += 1
    ctx.dist[f'dfi:steady={steady}'] += 1
    ctx.dist[f'dfi:filters={nf}'] += 1
    ctx.case(('dfi', solver_name, e.tobytes(), im.tobytes(), inp['filters'], T, c, dt, s.tobytes()),
             nontrivial=nn >= 2 and d >= 2, sample=inp if ci == 5 else None)
    ej, ij = jnp.asarray(e), jnp.asarray(im)
    eq = ti.ImplicitExplicitODE.from_functions(
        lambda st, spec=spec, ej=ej: spec.unflatten(ej @ spec.flatten(st)),
        lambda st, spec=spec, ij=ij: spec.unflatten(ij @ spec.flatten(st)),
        lambda st, eta, spec=spec, ij=ij: spec.unflatten(spec.flatten(st) + eta * (ij @ spec.flatten(st))))

    def fe_solver(equation, step):
      def step_fn(u):
        return jax.tree_util.tree_map(lambda a, b, c2: a + step * (b + c2), u, equation.explicit_terms(u),
                                      equation.implicit_terms(u))
      return step_fn
    solver = ti.backward_forward_euler if solver_name == 'bfe' else fe_solver
    with ctx.impl('dfi-exception', inp):
      out = ti.digital_filter_initialization(eq, solver, [filter_of(f, spec) for f in filters], T, c, dt)(
          to_tree(spec, s, dtype=float))
      out = np.asarray(flat_of(out), dtype=float)
      add(f'comb F dfi {solver_name} {fmat(e)} {fmat(im)} {inp["filters"]} {fbits(T)} {fbits(c)} {fbits(dt)} '
          f'{fvec(s)}', 'digital_filter_initialization', inp, out, lambda o: np.asarray(unfvec(o), dtype=float))
      if steady:
        ctx.expect(dinoutil.relerr(out, s) < 1e-10, 'dfi-steady-state',
                   f'DFI changes a state fixed by the forward and the reversed step: {out.tolist()}', inp)

  # ---- DFI applied several times in one process.  The property speaks about EVERY application of the returned function:
  # no state may be carried between calls (e.g. a memoised weight array normalised in place).  For each parameter set
  # the function is applied three times (same state, then another state), a second function is built with equal
  # parameters, the first one is re-traced under jit, and `_dfi_lanczos_weights` is called again afterwards; every
  # result is compared with the defining sum  h_0 x + sum_n h_n (F^n x + B^n x)  evaluated by a plain Python loop in
  # numpy (F / B written out as matrices, weights from the documented sinc formula) and with the Lean model.
  def nearest_even(x):
    fl = int(np.floor(x))
    return fl if x - fl < 0.5 else fl + 1 if x - fl > 0.5 else fl + (fl % 2)

  def lanczos_ref(T, c, dt):
    n_ref = nearest_even(T / (2 * dt))
    return np.array([sinc_ref(n / (n_ref + 1)) * sinc_ref(n * T / (c * n_ref)) for n in range(1, n_ref + 1)])

  def dfi_defining_sum(solver_name, e, im, filter_mats, T, c, dt, s):
    d = len(s)
    eye = np.eye(d)

    def one_step(sign):
      # forward (sign = +1) / time-reversed (sign = -1) step: both tendencies and the implicit step size negated
      if solver_name == 'fe':
        m = eye + sign * dt * (e + im)
      else:
        m = (eye + sign * dt * im) @ (eye + sign * dt * e)

      def stepf(u):
        un = m @ u
        for a in filter_mats:
          un = un + a @ (un - u)
        return un
      return stepf
    fwd, bwd = one_step(1.0), one_step(-1.0)
    w = lanczos_ref(T, c, dt)
    total = 1.0 + 2.0 * float(sum(w))
    acc = np.asarray(s, dtype=float) / total
    xf = xb = np.asarray(s, dtype=float)
    for wn in w:
      xf, xb = fwd(xf), bwd(xb)
      acc = acc + (wn / total) * (xf + xb)
    return acc

  nrepeat = ctx.n(4, 24)
  for ci in range(nrepeat):
    spec = D.random_spec(rng, ['pair', 'dict', 'array3', 'matrix'][ci] if ci < 4 else
                         str(rng.choice(['pair', 'dict', 'array3', 'matrix', 'tuple', 'list3'])))
    d = spec.dim
    solver_name = ['bfe', 'fe'][ci % 2]
    dt = float(rng.choice([0.125, 0.25, 0.5]))
    nn = [2.0, 3.0, 4.5, 6.0][ci] if ci < 4 else float(rng.choice([1.0, 2.0, 2.5, 3.0, 4.0, 5.5, 6.0, 8.0]))
    T = 2 * dt * nn
    c = float([T, 2 * T, 1.5 * T + 0.25][ci % 3])
    # an oscillator (rotation in the first two components) plus a weak random coupling: not a steady state
    omega = float(rng.choice([0.5, 0.75, 1.0, 1.5]))
    e = rng.integers(-2, 3, (d, d)) / 16.0
    e[0, 1] += omega
    e[1, 0] -= omega
    im = rng.integers(-2, 3, (d, d)) / 16.0
    nf = ci % 3
    filter_mats = [rng.integers(-2, 3, (d, d)) / 8.0 for _ in range(nf)]
    filters = [[('A', np.block([[np.eye(d), np.zeros((d, d))], [-a, np.eye(d) + a]]), np.zeros(2 * d))]
               for a in filter_mats]
    s1 = rng.integers(-4, 5, d).astype(float)
    s1[0] = s1[0] or 1.0
    s2 = rng.integers(-4, 5, d).astype(float)
    s2[1] = s2[1] or -2.0
    base = dict(tree=spec.name, solver=solver_name, explicit=e.tolist(), implicit=im.tolist(),
                filters=D.enc_progs(filters, **fenc), time_span=T, cutoff_period=c, dt=dt)
    ctx.dist['dfi-repeat:solver=' + solver_name] += 1
    ctx.dist[f'dfi-repeat:filters={nf}'] += 1
    ctx.case(('dfi-repeat', solver_name, e.tobytes(), im.tobytes(), base['filters'], T, c, dt, s1.tobytes(),
              s2.tobytes()), nontrivial=True, sample=dict(base, states=[s1.tolist(), s2.tolist()]) if ci == 0 else None)
    ej, ij = jnp.asarray(e), jnp.asarray(im)
    eq = ti.ImplicitExplicitODE.from_functions(
        lambda st, spec=spec, ej=ej: spec.unflatten(ej @ spec.flatten(st)),
        lambda st, spec=spec, ij=ij: spec.unflatten(ij @ spec.flatten(st)),
        lambda st, eta, spec=spec, ij=ij: spec.unflatten(spec.flatten(st) + eta * (ij @ spec.flatten(st))))

    def fe_solver2(equation, step):
      def step_fn(u):
        return jax.tree_util.tree_map(lambda a, b, c2: a + step * (b + c2), u, equation.explicit_terms(u),
                                      equation.implicit_terms(u))
      return step_fn
    solver = ti.backward_forward_euler if solver_name == 'bfe' else fe_solver2
    jfilters = [filter_of(f, spec) for f in filters]
    w_ref = lanczos_ref(T, c, dt)

    def weights_probe(when):
      winp = dict(time_span=T, cutoff_period=c, dt=dt, when=when)
      with ctx.impl('dfi-exception', winp):
        w = np.asarray(ti._dfi_lanczos_weights(T, c, dt), dtype=float)
        ctx.expect(w.shape == w_ref.shape and (w.size == 0 or np.abs(w - w_ref).max() < 1e-12),
                   'lanczos-oracle-repeated', f'Lanczos weights ({when}) differ from sinc(n/(N+1)) sinc(n T/(c N)): '
                   f'{w.tolist()} vs {w_ref.tolist()}', winp)
    weights_probe('before the DFI applications')
    with ctx.impl('dfi-exception', base):
      dfi_a = ti.digital_filter_initialization(eq, solver, jfilters, T, c, dt)
      dfi_b = None
      plan = [('1st application', 'a', s1), ('2nd application, same function and state', 'a', s1),
              ('3rd application, same function, another state', 'a', s2),
              ('second function built with equal parameters', 'b', s1),
              ('first function under jit (fresh trace)', 'jit', s2),
              ('second function, 2nd application', 'b', s2)]
      for label, which, s in plan:
        inp = dict(base, state=s.tolist(), application=label)
        if which == 'b' and dfi_b is None:
          dfi_b = ti.digital_filter_initialization(eq, solver, jfilters, T, c, dt)
        fn = dfi_a if which == 'a' else dfi_b if which == 'b' else jax.jit(dfi_a)
        out = np.asarray(flat_of(fn(to_tree(spec, s, dtype=float))), dtype=float)
        ref = dfi_defining_sum(solver_name, e, im, filter_mats, T, c, dt, s)
        ctx.dist['dfi-repeat:' + label.split(',')[0]] += 1
        ctx.expect(dinoutil.relerr(out, ref) < 1e-9, 'dfi-repeated-vs-defining-sum',
                   f'DFI ({label}) != h_0 x + sum_n h_n (F^n x + B^n x) by a plain loop with the documented Lanczos '
                   f'weights: {out.tolist()} vs {ref.tolist()}', inp)
        add(f'comb F dfi {solver_name} {fmat(e)} {fmat(im)} {base["filters"]} {fbits(T)} {fbits(c)} {fbits(dt)} '
            f'{fvec(s)}', 'digital_filter_initialization[repeated]', inp, out,
            lambda o: np.asarray(unfvec(o), dtype=float))
    weights_probe('after the DFI applications')

  # time reversal: the reversed equation negates both tendencies and the implicit step size
  for ci in range(ctx.n(6, 40)):
    d = int(rng.integers(1, 5))
    e, im = jnp.asarray(rng.integers(-3, 4, (d, d)) / 4.0), jnp.asarray(rng.integers(-3, 4, (d, d)) / 4.0)
    s = jnp.asarray(rng.integers(-4, 5, d).astype(float))
    eta = float(rng.choice([0.5, 1.0, -0.25]))
    eq = ti.ImplicitExplicitODE.from_functions(lambda x: e @ x, lambda x: im @ x, lambda x, h: x + h * (im @ x))
    inp = dict(explicit=np.asarray(e).tolist(), implicit=np.asarray(im).tolist(), state=np.asarray(s).tolist(), eta=eta)
    ctx.case(('reversed', str(inp)), nontrivial=d >= 2)
    with ctx.impl('time-reversed-exception', inp):
      r = ti.TimeReversedImExODE(eq)
      ok = (np.array_equal(r.explicit_terms(s), -(e @ s)) and np.array_equal(r.implicit_terms(s), -(im @ s))
            and np.array_equal(r.implicit_inverse(s, eta), s - eta * (im @ s)))
      rr = ti.TimeReversedImExODE(r)
      ok2 = (np.array_equal(rr.explicit_terms(s), e @ s) and np.array_equal(rr.implicit_inverse(s, eta),
                                                                         s + eta * (im @ s)))
      ctx.expect(ok and ok2, 'time-reversed', 'TimeReversedImExODE does not negate tendencies / step size', inp)

  phase('lanczos+dfi')
  # ================================================================== model run and comparison
  outs = ctx.model(lines)
  for (op, inp, impl, dec), o in zip(checks, outs):
    if o == 'bad-op':
      ctx.corr_mismatch(op, inp, impl, o, 'model rejected the operation')
      continue
    try:
      m = dec(o)
    except Exception as e:  # pylint: disable=broad-except
      ctx.corr_mismatch(op, inp, impl, o, f'undecodable model output: {e}')
      continue
    if isinstance(impl, tuple) and impl and isinstance(impl[0], str):     # ('ok', …) or (error kind,)
      if impl[0] != m[0] or len(impl) != len(m):
        ctx.corr_mismatch(op, inp, impl, m, 'outcome')
      elif len(impl) == 2:
        ctx.corr_float(op, inp, impl[1], m[1])
      else:
        ctx.corr_exact(op, inp, impl[1:], m[1:])
    elif isinstance(impl, np.ndarray):
      ctx.corr_float(op, inp, impl, m)
    else:
      ctx.corr_exact(op, inp, impl, m)

  phase('model')
  # ================================================================== gradient probes (sentinel)
  ngrad = ctx.n(10, 60)
  for gi in range(ngrad):
    f0 = facs[int(rng.integers(0, len(facs)))]
    while int(np.prod(f0)) > 12 or len(f0) < 2:
      f0 = facs[int(rng.integers(0, len(facs)))]
    ls = list(f0) if gi % 3 else with_ones(f0)
    p = int(np.prod(ls))
    dc, dx = int(rng.integers(1, 4)), int(rng.integers(1, 3))
    kind = ['poly', 'affine', 'noncommuting', 'mixed', 'permutation'][gi % 5]
    if kind == 'poly':
      prog = [('A', rng.integers(-1, 2, (dc + dx, dc + dx)) / 2.0, rng.integers(-1, 2, dc + dx).astype(float)),
              ('P', int(rng.integers(0, dc)), int(rng.integers(0, dc + dx))),
              ('A', np.eye(dc + dx) / 2.0, np.zeros(dc + dx))]
    else:
      prog = D.to_float_prog(D.gen_prog(rng, dc + dx, kind=kind)[0])
      prog.append(('A', np.eye(dc + dx) / 2.0, np.zeros(dc + dx)))    # keeps the values moderate
    init = rng.integers(-2, 3, dc).astype(float)
    xs = rng.integers(-2, 3, (p, dx)).astype(float)
    wc = rng.integers(-2, 3, dc).astype(float)
    wy = rng.integers(-2, 3, (p, dc + dx)).astype(float)
    inp = dict(prog=D.enc_prog(prog, num=repr, vec=lambda v: ','.join(repr(float(t)) for t in v),
                               mat=lambda m: ';'.join(','.join(repr(float(t)) for t in r) for r in m)),
               nested_lengths=ls, init=init.tolist(), xs=xs.tolist(), wc=wc.tolist(), wy=wy.tolist())
    ctx.dist[f'grad:{kind}'] += 1
    ctx.case(('grad', inp['prog'], tuple(ls), init.tobytes(), xs.tobytes()), nontrivial=True,
             sample=inp if gi == 0 else None)

    def body(c, x, prog=prog, dc=dc):
      z = D.run_jax(prog, jnp.concatenate([c, x]))
      return z[:dc], z

    def loss_of(scan):
      def loss(init, xs):
        c, ys = scan(init, xs)
        return jnp.sum(c * wc) + jnp.sum(ys * wy)
      return loss

    def unrolled(init, xs):
      c, ys = init, []
      for t in range(p):
        c, y = body(c, xs[t])
        ys.append(y)
      return c, jnp.stack(ys)
    with ctx.impl('nested-grad-exception', inp):
      nested = loss_of(lambda i, x: ti.nested_checkpoint_scan(body, i, x, nested_lengths=ls))
      flat = loss_of(lambda i, x: jax.lax.scan(body, i, x))
      ref = loss_of(unrolled)
      a = (jnp.asarray(init), jnp.asarray(xs))
      vn, gn = jax.value_and_grad(nested, argnums=(0, 1))(*a)
      vf, gf = jax.value_and_grad(flat, argnums=(0, 1))(*a)
      # reference: a really unrolled Python loop (p <= 12 here), differentiated without lax.scan, in every tier
      vr, gr = jax.value_and_grad(ref, argnums=(0, 1))(*a)
      ok_v = dinoutil.relerr(vn, vf) < 1e-12 and dinoutil.relerr(vn, vr) < 1e-12
      ok_f = all(dinoutil.relerr(x, y) < 1e-10 for x, y in zip(gn, gf))
      ok_r = all(dinoutil.relerr(x, y) < 1e-10 for x, y in zip(gn, gr))
      ctx.expect(ok_v, 'nested-value-vs-flat', 'loss through nested scan != flat scan / unrolled loop', inp)
      ctx.expect(ok_f, 'nested-grad-vs-flat', 'jax.grad through nested_checkpoint_scan != jax.grad through lax.scan',
                 inp)
      ctx.expect(ok_r, 'nested-grad-vs-unrolled', 'jax.grad through nested_checkpoint_scan != grad of the unrolled loop',
                 inp)

  ctx.notes.append('gradient probes: the reference of `nested-grad-vs-unrolled` is a really unrolled Python loop '
                   '(no lax.scan), differentiated eagerly, for every drawn length (p <= 12) in both tiers')
  phase('gradients')
  if not ctx.quick:
    ctx.leanchecker(['DinoProofs.Properties.C14'])
    phase('leanchecker')
  ctx.notes.append(f'seconds per phase: {seconds}')
  return ctx.finish(RULE, 'theorems are about the Lean model Dino.Comb with abstract step functions; jax.lax.scan is '
                    'modelled as the sequential loop and jax.checkpoint as the identity on values (gradients of '
                    'nested vs flat scan are compared by probes only); sinc / sin are external; the DFI total '
                    'weight is assumed non-zero (proved >= 1 over the reals for cutoff_period >= time_span > 0)')
