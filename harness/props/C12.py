"""C12 — physical results do not depend on the non-dimensionalisation scale.

Lean: DinoProofs/Properties/C12.lean over the models Dino/Scaling.lean (the action of the unit ratios on
parameters, states, tendencies, the inverse of the implicit matrix), Dino/Dynamics.lean, Dino/DynamicsSW.lean,
Dino/Forcing.lean, Dino/Imex.lean, Dino/Filters.lean.

Tie (correspondence, driver token `scl`): the numbers that the real `scales.Scale.nondimensionalize`,
`PrimitiveEquationsSpecs.from_si`, `ShallowWaterSpecs.from_si`, `HeldSuarezForcing.__init__`, `Grid(radius=…)`, the
state construction path and `numpy.linalg.inv(_get_implicit_term_matrix(…))` produce under a second scale are
compared with the model's action applied to the numbers produced under a first scale; the real
`explicit_terms` under the second scale is compared with the model's tendency action applied to the real
`explicit_terms` under the first.  Named hypotheses of the theorems (`OpsLaws`, `OpsScaled`, `ConstMode`,
`HorizScaled.lsp`, `ConstProj`) are validated on real grids; so is what the filter theorems
(`wavenumber_filter_scaled`, `pe_history_commutes_step_filters`) say about the real filters: they multiply the
coefficients of total wavenumber l by s[l], the factor at l = 0 is exactly 1.0 for cutoff >= 0 / order >= 1, scalar
leaves are left alone, and the scaling arrays of the step filters are the same under two scales.

Search (sentinel on the real code): the same SI problem (SI constants, radius, rotation, SI state, SI time step) is
built under DEFAULT_SCALE and under random scales (each base unit multiplied by 10^U(-3,7)); explicit_terms,
implicit_terms, implicit_inverse and 3-step filtered trajectories of several integrators are re-dimensionalised and
compared, for PrimitiveEquations, PrimitiveEquationsWithTime, MoistPrimitiveEquations, the cloud-moisture class,
HeldSuarezForcing and ShallowWaterEquations, uneven levels, with orography.

Static pass: module-level constants / default arguments evaluated under DEFAULT_SCALE, the call sites inside dinosaur
that rely on them, and numeric defaults of time scales, compared with a justified allow-list — so that a new bypass
is reported even though the default scale hides it dynamically.
"""
import numpy as np

import common
from common import fbits, fvec, fmat, unfvec, unfmat, unfbits
import dinoutil
from props import c12_real as R
from props import c12_static

TOL_TERMS = 1e-10     # explicit_terms / implicit_terms / forcing, relative per leaf (measured <= 1e-13, see NOTE)
TOL_FLOOR = 1e-12     # floor of the implicit_inverse tolerance (the a-posteriori bound is added to it)
TOL_TRAJ = 1e-10      # floor of the trajectory tolerance
HYP_TOL = 1e-11
RULE = ('scales: DEFAULT_SCALE and scales whose four base units are those of DEFAULT_SCALE times 10^U(-3,7) ("wide") or '
        '10^U(-1.5,1.5) ("moderate"), drawn independently per base unit; SI problems: constants within a factor 2 of the '
        'Earth values (or exactly those), with_wavenumbers grids M=5..6 (quadratic), 1..5 sigma layers incl. strongly '
        'uneven ones, red random spectra (vorticity 2e-5/s, divergence 4e-6/s, T\' 4 K, ln p_s variation 0.02, orography '
        '300 m), variable / constant T_ref, humidity + passive tracer for the moist classes, 1..3 shallow-water layers; '
        'a case is non-trivial when the scale differs from the default one in every base unit; distinct = distinct '
        '(class, operation, problem, scale) hashes')
NOTE = ('theorems are about the Lean models; the horizontal operators are abstract (laws = named hypotheses validated '
        'here), log/exp are external (the additive constant of ln p_s is a parameter c; exp c = wP in the Held-Suarez '
        'theorems over the reals), numpy.linalg.inv is external (InvScaled/ConstMode validated here); T12.2 is proved '
        'abstractly (K-module of states, or any +/0/scalar-action with the affine law on the proper states) and '
        'instantiated for the four primitive-equation classes on tree_math vectors (schemes, histories with filters, '
        'leapfrog); for shallow water and Held-Suarez the step theorem applies through the abstract form only. '
        'The filter hypothesis of histories (FilterScaled) is proved for multipliers of the total wavenumber with factor '
        'one at l = 0, hence for exponential_step_filter with cutoff >= 0 and horizontal_diffusion_step_filter with '
        'order >= 1 (hypotheses ConstProj and exp 0 = 1; that the real filters are such multipliers with factor '
        'exactly 1.0 at l = 0 is validated here, keys FilterScaled.*, ConstProj); leapfrog step filters: not covered. '
        'Tolerances: explicit/implicit terms agree to <= 1e-13 over all measured scales (products of '
        'powers of the unit ratios commute with every operation up to one rounding each), tolerance 1e-10; '
        'implicit_inverse inherits the rounding error of numpy.linalg.inv on S M S^-1, which is not invariant under '
        'the diagonal similarity S (measured up to 3e-10 for wide scales): its tolerance is an a-posteriori bound '
        '|X M - I| |X| |x| computed on the matrices the code inverted, so it is small (1e-14) for well scaled units and '
        'never smaller than the error numpy actually made; the additive constant of ln p_s is placed in a pure (0,0) '
        'coefficient (to_modal(1) has 1e-14 quadrature noise in other coefficients, which times |c| <= 40 would be a '
        'different physical state).')

# allow-list of the static pass: entry -> why it is not (or is known to be) a scale bypass
_DEF = ('default value only; every call site inside dinosaur passes the value taken from physics_specs (no `call` entry), '
        'and the sentinel runs these paths under random scales and non-Earth constants')
ALLOW = {
    'const scales.DEFAULT_SCALE': 'the default scale object itself',
    'const scales.ATMOSPHERIC_SCALE': 'an alternative scale object',
    'const primitive_equations.SCALE': 'alias of DEFAULT_SCALE used only for the module constants below',
    'const shallow_water.SCALE': 'alias of DEFAULT_SCALE, unused',
    'const primitive_equations.GRAVITY_ACCELERATION': 'module constant, used only as a default argument',
    'const primitive_equations.IDEAL_GAS_CONSTANT': 'module constant, used only as a default argument',
    'const primitive_equations.WATER_VAPOR_GAS_CONSTANT': 'module constant, used only as a default argument',
    'const primitive_equations.WATER_VAPOR_CP': 'module constant, unused',
    'const primitive_equations.KAPPA': 'module constant (a pure number: scale independent), default argument',
    'default primitive_equations.PrimitiveEquationsSpecs.from_si(scale=scales.DEFAULT_SCALE)':
        'the choice of the scale itself; the chosen scale is carried by the specs',
    'default shallow_water.ShallowWaterSpecs.from_si(scale=scales.DEFAULT_SCALE)':
        'the choice of the scale itself; the chosen scale is carried by the specs',
    'default primitive_equations._get_implicit_term_matrix(ideal_gas_constant=IDEAL_GAS_CONSTANT)': _DEF,
    'default primitive_equations._get_implicit_term_matrix(kappa=KAPPA)': _DEF,
    'default primitive_equations.get_geopotential(gravity_acceleration=GRAVITY_ACCELERATION)': _DEF,
    'default primitive_equations.get_geopotential(ideal_gas_constant=IDEAL_GAS_CONSTANT)': _DEF,
    'default primitive_equations.get_geopotential_diff(ideal_gas_constant=IDEAL_GAS_CONSTANT)': _DEF,
    'default primitive_equations.get_geopotential_weights(ideal_gas_constant=IDEAL_GAS_CONSTANT)': _DEF,
    'default primitive_equations.get_geopotential_with_moisture(gravity_acceleration=GRAVITY_ACCELERATION)': _DEF,
    'default primitive_equations.get_geopotential_with_moisture(ideal_gas_constant=IDEAL_GAS_CONSTANT)': _DEF,
    'default primitive_equations.get_geopotential_with_moisture(water_vapor_gas_constant=WATER_VAPOR_GAS_CONSTANT)': _DEF,
    'default primitive_equations.get_temperature_implicit(kappa=KAPPA)': _DEF,
    'default primitive_equations.get_temperature_implicit_weights(kappa=KAPPA)': _DEF,
    'literal time_integration.exponential_step_filter(tau=0.010938)':
        'documented default ("attenuation 16 for a time step of 20 minutes") in DEFAULT_SCALE time units; callers under '
        'another scale must pass tau (the sentinel does)',
    'literal time_integration.exponential_leapfrog_step_filter(tau=0.010938)':
        'same documented default in DEFAULT_SCALE time units',
    'call shallow_water.default_filters -> time_integration.exponential_leapfrog_step_filter(tau)':
        'a genuine scale bypass: default_filters(grid, dt) has no way to receive the scale, so the filter time scale is '
        '0.010938 units of whatever time scale is in use (measured by the probe sw-default-filters-tau; reported)',
    'si xarray_utils.nodal_orography_from_ds uses scales.GRAVITY_ACCELERATION.magnitude':
        'converts an SI dataset (geopotential at the surface, m^2/s^2) to metres before any non-dimensionalisation: no '
        'scale involved (it does hard-code the Earth value of g)',
}

# pint unit expression -> exponents [length, time, mass, temperature]
UNIT_DIMS = {
    'm': [1, 0, 0, 0], 's': [0, 1, 0, 0], 'kg': [0, 0, 1, 0], 'K': [0, 0, 0, 1], 'dimensionless': [0, 0, 0, 0],
    '1/s': [0, -1, 0, 0], 'm/s': [1, -1, 0, 0], 'm/s**2': [1, -2, 0, 0], 'm**2/s**2': [2, -2, 0, 0],
    'J/kg/K': [2, -2, 0, -1], 'pascal': [-1, -2, 1, 0], 'kg/m**3': [-3, 0, 1, 0], 'W/m**2': [0, -3, 1, 0],
    'N': [1, -2, 1, 0], 'K/s': [0, -1, 0, 1], '1/m**2': [-2, 0, 0, 0], 'm**2': [2, 0, 0, 0], 'J/kg': [2, -2, 0, 0],
    'kg/m**2/s': [-2, -1, 1, 0], 'day': [0, 1, 0, 0], 'km': [1, 0, 0, 0], 'hPa': [-1, -2, 1, 0], 'hour': [0, 1, 0, 0],
}


def _rand_base(rng, du, kind):
  lo, hi = (-3.0, 7.0) if kind == 'wide' else (-1.5, 1.5)
  return [du[i] * 10 ** float(rng.uniform(lo, hi)) for i in range(4)]


def _ratio_str(base, du):
  return ['%.1e' % (base[i] / du[i]) for i in range(4)]


def _jsonable_problem(p):
  return {k: (np.asarray(v).tolist() if isinstance(v, np.ndarray) else v) for k, v in p.items()}


# --------------------------------------------------------------------------
# (a) correspondence with the model


def _correspondence(ctx, env):
  rng, u = ctx.rng, env.units
  du = env.default_units()
  lines, checks = [], []

  def add(line, op, inp, impl, kind='vec'):
    lines.append(line)
    checks.append((op, inp, impl, kind))

  npairs = ctx.n(3, 12)
  for pi in range(npairs):
    a = du if pi % 2 == 0 else _rand_base(rng, du, 'moderate')
    b = _rand_base(rng, du, 'wide' if pi % 3 != 2 else 'moderate')
    sa, sb = env.scale(a), env.scale(b)
    A, B = fvec(a), fvec(b)
    inp0 = dict(a=a, b=b)
    ctx.dist['corr:a=' + ('default' if a is du else 'moderate')] += 1
    ctx.case(('corr', tuple(a), tuple(b)), nontrivial=True, sample=dict(a=a, b=b))
    # every unit: value under b = factor * value under a
    for unit, d in UNIT_DIMS.items():
      q = 1.0 * u(unit)
      ratio = float(sb.nondimensionalize(q)) / float(sa.nondimensionalize(q))
      add(f'scl F w {A} {B} {",".join(str(x) for x in d)}', f'Scale.nondimensionalize[{unit}]', dict(unit=unit, **inp0),
          [ratio], 'scalar')
    named_units = ['1/s', 'm/s', 'm/s**2', 'm**2/s**2', 'J/kg/K', '1/m', '1/m**2', 'm**2', 'pascal', 'kg/m**3']
    add(f'scl F named {A} {B}', 'named factors', inp0,
        [float(sb.nondimensionalize(1.0 * u(x))) / float(sa.nondimensionalize(1.0 * u(x))) for x in named_units])
    # PrimitiveEquationsSpecs.from_si
    c = R.si_constants(rng, earth=(pi == 0))
    pa = R.specs_of(env, dict(const=c), sa)
    pb = R.specs_of(env, dict(const=c), sb)
    vec = lambda s: [s.angular_velocity, s.gravity_acceleration, s.ideal_gas_constant, s.water_vapor_gas_constant,
                     s.water_vapor_isobaric_heat_capacity, s.kappa]
    add(f'scl F phys {A} {B} {fvec(vec(pa))}', 'PrimitiveEquationsSpecs.from_si', dict(const=c, **inp0), vec(pb))
    # Grid(radius=specs.radius)
    ga, gb = env.grid(5, pa.radius), env.grid(5, pb.radius)
    add(f'scl F grid {A} {B} {fbits(ga.radius)} {fvec(np.asarray(ga.laplacian_eigenvalues))}', 'Grid(radius)',
        dict(const=c, **inp0), (np.asarray([gb.radius]), np.asarray(gb.laplacian_eigenvalues)), 'parts')
    # ShallowWaterSpecs.from_si and the reference potentials
    swp = R.sw_problem(rng, 5, int(rng.integers(1, 4)), orography=True)
    wa, wb = R.SWSetup(env, swp, sa), R.SWSetup(env, swp, sb)
    swv = lambda s: [s.specs.radius, s.specs.angular_velocity, s.specs.gravity_acceleration]
    add(f'scl F sw {A} {B} {fvec(np.asarray(wa.specs.densities))} {fvec(swv(wa))} {fvec(wa.refpot)}',
        'ShallowWaterSpecs.from_si', dict(const=swp['const'], refpot=swp['refpot'], **inp0),
        (np.asarray(wb.specs.densities), np.asarray(swv(wb)), wb.refpot), 'parts')
    # orography: a height for the primitive equations, a geopotential for shallow water
    h = rng.standard_normal(4) * 500.
    nd = lambda s, x, unit: np.asarray(s.nondimensionalize(env.q(x, unit)))
    add(f'scl F oro {A} {B} {fvec(nd(sa, h, "m"))}', 'orography[pe]', dict(h=h.tolist(), **inp0), nd(sb, h, 'm'), 'part0')
    add(f'scl F oro {A} {B} {fvec(nd(sa, h, "m**2/s**2"))}', 'orography[sw]', dict(h=h.tolist(), **inp0),
        nd(sb, h, 'm**2/s**2'), 'part1')
    # HeldSuarezForcing.__init__
    b4 = np.array([0, 0.2, 0.5, 0.8, 1.0])
    prob = R.si_problem(rng, 5, b4, moist=(pi % 2 == 1), earth=(pi == 0))
    prob['const'] = c
    s_a, s_b = R.Setup(env, prob, sa), R.Setup(env, prob, sb)
    hp = R.hs_params(rng, default=(pi == 0))
    fa, fb = R.hs_forcing(env, s_a, hp), R.hs_forcing(env, s_b, hp)
    hsv = lambda f, s: [f.p0, s.specs.kappa, f.minT, f.maxT, f.dTy, f.dThz, f.sigma_b, f.kf, f.ka, f.ks]
    add(f'scl F hs {A} {B} {fvec(hsv(fa, s_a))}', 'HeldSuarezForcing.__init__', dict(hs=hp, **inp0), hsv(fb, s_b))
    # states: the construction path of the real code under both scales, one coefficient per level
    with_time = True
    xa, xb = s_a.state(with_time), s_b.state(with_time)
    mi, li = 1, 2
    pick = lambda x: np.asarray(x)[:, mi, li]
    one00 = s_a.one[0, 0]
    cshift = s_b.ln_unit - s_a.ln_unit
    tr = lambda x: (np.asarray(x.tracers[R.Q_KEY])[:, mi, li] if R.Q_KEY in x.tracers else np.zeros(0))
    lnp = lambda x: float(np.asarray(x.log_surface_pressure)[0, 0, 0] / one00)
    add(f'scl F state {A} {B} {fbits(cshift)} {fvec(pick(xa.vorticity))} {fvec(pick(xa.divergence))} '
        f'{fvec(pick(xa.temperature_variation))} {fbits(lnp(xa))} {fvec(tr(xa))} {fbits(float(xa.sim_time))}',
        'state construction', dict(problem='si_problem', **inp0),
        (pick(xb.vorticity), pick(xb.divergence), pick(xb.temperature_variation),
         np.asarray([lnp(xb), float(xb.sim_time)]), tr(xb)), 'parts')
    # the constant added to ln p_s is the logarithm of the pressure factor
    ratio_p = float(sb.nondimensionalize(1.0 * u.pascal)) / float(sa.nondimensionalize(1.0 * u.pascal))
    ctx.expect(abs(cshift - np.log(ratio_p)) <= 1e-12 * max(1, abs(cshift)), 'lnps-constant',
               'constant added to ln p_s is not log(wP)', dict(cshift=cshift, ratio=ratio_p, **inp0))
    # tendencies: the model's action on the real explicit_terms under a vs the real explicit_terms under b
    cls = 'MoistPrimitiveEquations' if R.Q_KEY in prob['tracers'] else 'PrimitiveEquationsWithTime'
    with ctx.impl('corr-explicit-terms', dict(cls=cls, **inp0)):
      ta, tb = s_a.equation(cls).explicit_terms(xa), s_b.equation(cls).explicit_terms(xb)
      flat = lambda x: np.asarray(x).ravel()
      lnpt = lambda x: float(np.asarray(x.log_surface_pressure)[0, mi, li])
      trt = lambda x: (flat(x.tracers[R.Q_KEY]) if R.Q_KEY in x.tracers else np.zeros(0))
      add(f'scl F tend {A} {B} {fvec(flat(ta.vorticity))} {fvec(flat(ta.divergence))} '
          f'{fvec(flat(ta.temperature_variation))} {fbits(lnpt(ta))} {fvec(trt(ta))} {fbits(float(ta.sim_time))}',
          f'{cls}.explicit_terms', dict(problem='si_problem', **inp0),
          (flat(tb.vorticity), flat(tb.divergence), flat(tb.temperature_variation),
           np.asarray([lnpt(tb), float(tb.sim_time)]), trt(tb)), 'parts')
    # shallow-water states and tendencies
    ya, yb = wa.state(), wb.state()
    with ctx.impl('corr-sw-explicit-terms', inp0):
      flat = lambda x: np.asarray(x).ravel()
      add(f'scl F swstate {A} {B} {fvec(flat(ya.vorticity))} {fvec(flat(ya.divergence))} {fvec(flat(ya.potential))}',
          'shallow-water state construction', inp0, (flat(yb.vorticity), flat(yb.divergence), flat(yb.potential)), 'parts')
      za, zb = wa.eq.explicit_terms(ya), wb.eq.explicit_terms(yb)
      add(f'scl F swtend {A} {B} {fvec(flat(za.vorticity))} {fvec(flat(za.divergence))} {fvec(flat(za.potential))}',
          'ShallowWaterEquations.explicit_terms', inp0, (flat(zb.vorticity), flat(zb.divergence), flat(zb.potential)),
          'parts')
    # the inverse of the implicit matrix: numpy's inverse under b, brought back to a by the model, vs numpy's under a
    if pi % 3 == 2 or a is du:
      bm = _rand_base(rng, a, 'moderate')
      s_m = R.Setup(env, prob, env.scale(bm))
      n = len(s_a.tref)
      frac = float(rng.choice([0.5, 1.0]))
      ma = np.asarray(env.pe._get_implicit_term_matrix(frac * s_a.dt, s_a.coords, s_a.tref, s_a.specs.kappa, s_a.specs.R))
      mm = np.asarray(env.pe._get_implicit_term_matrix(frac * s_m.dt, s_m.coords, s_m.tref, s_m.specs.kappa, s_m.specs.R))
      for l in sorted({0, 1, int(rng.integers(2, ma.shape[0]))}):
        add(f'scl F inv {fvec(bm)} {A} {n} {fmat(np.linalg.inv(mm[l]))}', 'numpy.linalg.inv(implicit matrix)',
            dict(l=l, frac=frac, a=a, b=bm), np.linalg.inv(ma[l]), 'mat')

  outs = ctx.model(lines)
  for (op, inp, impl, kind), o in zip(checks, outs):
    if o in ('bad-op', 'value-error'):
      ctx.corr_mismatch(op, inp, impl, o, 'model rejected the operation')
      continue
    if kind == 'scalar':
      ctx.corr_float(op, inp, impl, [unfbits(o)])
    elif kind == 'mat':
      ctx.corr_float(op, inp, np.asarray(impl), np.asarray(unfmat(o)), rtol=1e-8)
    elif kind == 'parts':
      parts = o.split(';')
      if len(parts) != len(impl):
        ctx.corr_mismatch(op, inp, len(impl), len(parts), 'number of parts')
        continue
      for k, (iv, ov) in enumerate(zip(impl, parts)):
        ctx.corr_float(f'{op}[{k}]', inp, iv, unfvec(ov))
    elif kind in ('part0', 'part1'):
      ctx.corr_float(op, inp, impl, unfvec(o.split(';')[int(kind[-1])]))
    else:
      ctx.corr_float(op, inp, impl, unfvec(o))


# --------------------------------------------------------------------------
# (a') named hypotheses of the theorems on real grids


def _hypotheses(ctx, env):
  rng, jnp = ctx.rng, env.jnp
  for M, l in ((5, 3.7), (6, 1e-3)) if ctx.quick else ((5, 3.7), (6, 1e-3), (7, 2.5e4), (5, 0.5)):
    g1, g2 = env.grid(M, 1.0 * 2.0), env.grid(M, l * 2.0)
    ms = g1.modal_shape
    mask = R.mask_of(g1)
    x, y = rng.standard_normal(ms) * mask, rng.standard_normal(ms) * mask
    z = rng.standard_normal(g1.nodal_shape)
    k = float(rng.uniform(-3, 3))
    inp = dict(M=M, l=l, k=k)
    rel = dinoutil.relerr
    J = jnp.asarray
    ctx.case(('hyp', M, l), nontrivial=True)
    with ctx.impl('hypothesis-exception', inp):
      lin_ops = dict(to_nodal=g1.to_nodal, d_dlon=g1.d_dlon, cos_lat_d_dlat=g1.cos_lat_d_dlat,
                     sec_lat_d_dlat_cos2=g1.sec_lat_d_dlat_cos2, laplacian=g1.laplacian,
                     inverse_laplacian=g1.inverse_laplacian, clip=g1.clip_wavenumbers)
      for name, f in lin_ops.items():
        ctx.expect(rel(f(J(k * x)), k * np.asarray(f(J(x)))) < HYP_TOL, f'OpsLaws.{name}_smul',
                   f'{name} is not homogeneous', inp)
      ctx.expect(rel(g1.to_modal(J(k * z)), k * np.asarray(g1.to_modal(J(z)))) < HYP_TOL, 'OpsLaws.toModal_smul',
                 'to_modal is not homogeneous', inp)
      for name in ('d_dlon', 'cos_lat_d_dlat', 'laplacian'):
        f = lin_ops[name]
        ctx.expect(rel(f(J(x + y)), np.asarray(f(J(x))) + np.asarray(f(J(y)))) < HYP_TOL, f'OpsLaws.{name}_add',
                   f'{name} is not additive', inp)
      one = R.one_modal(env, g1)
      for name in ('d_dlon', 'cos_lat_d_dlat', 'laplacian'):
        ctx.expect(np.abs(np.asarray(lin_ops[name](J(one)))).max() == 0.0, f'OpsLaws.{name}_one',
                   f'{name} does not annihilate the constant mode exactly', inp)
      # projection on a total wavenumber is linear (it is an index selection) — ProjLaws
      # OpsScaled: the grid of radius l*a
      same = dict(to_nodal=(g1.to_nodal, g2.to_nodal, x), d_dlon=(g1.d_dlon, g2.d_dlon, x),
                  cos_lat_d_dlat=(g1.cos_lat_d_dlat, g2.cos_lat_d_dlat, x),
                  sec_lat_d_dlat_cos2=(g1.sec_lat_d_dlat_cos2, g2.sec_lat_d_dlat_cos2, x),
                  clip=(g1.clip_wavenumbers, g2.clip_wavenumbers, x), to_modal=(g1.to_modal, g2.to_modal, z))
      for name, (f1, f2, arg) in same.items():
        ctx.expect(rel(f1(J(arg)), f2(J(arg))) < HYP_TOL, f'OpsScaled.{name}', f'{name} depends on the radius', inp)
      ctx.expect(rel(np.asarray(g2.laplacian(J(x))) * l ** 2, g1.laplacian(J(x))) < HYP_TOL, 'OpsScaled.laplacian',
                 'laplacian does not scale like radius^-2', inp)
      ctx.expect(rel(np.asarray(g2.inverse_laplacian(J(x))) / l ** 2, g1.inverse_laplacian(J(x))) < HYP_TOL,
                 'OpsScaled.inverseLaplacian', 'inverse laplacian does not scale like radius^2', inp)
      ctx.expect(rel(np.asarray(g2.laplacian_eigenvalues) * l ** 2, g1.laplacian_eigenvalues) < HYP_TOL,
                 'OpsScaled.lapEig', 'eigenvalues do not scale like radius^-2', inp)
      for name in ('cos_lat_grad', 'div_cos_lat', 'curl_cos_lat'):
        arg = J(x) if name == 'cos_lat_grad' else (J(x), J(y))
        r1, r2 = getattr(g1, name)(arg), getattr(g2, name)(arg)
        ctx.expect(rel(np.asarray(r2) * l, np.asarray(r1)) < HYP_TOL, f'OpsScaled.{name}',
                   f'{name} does not scale like radius^-1', inp)
      ctx.expect(g1.cos_lat.tolist() == g2.cos_lat.tolist() and rel(g1.sec2_lat, g2.sec2_lat) == 0,
                 'OpsScaled.tables', 'nodal tables depend on the radius', inp)
      # ConstProj: the constant field is a pure mode of total wavenumber 0 (lproj l = selection of index l of the last
      # modal axis, as in the driver's `lprojOf`), and the grid has that wavenumber
      lw = np.asarray(g1.modal_axes[1])
      ctx.expect(ms[-1] >= 1 and lw[0] == 0 and one[0, 0] != 0.0 and np.count_nonzero(one[:, 1:]) == 0
                 and np.count_nonzero(one[1:, 0]) == 0,
                 'ConstProj', 'the constant field is not a pure (0, 0) coefficient / total wavenumbers do not start at 0', inp)
      ctx.expect(float(np.asarray(g1.laplacian_eigenvalues)[0]) == 0.0 and float(np.asarray(g2.laplacian_eigenvalues)[0]) == 0.0,
                 'ConstProj.eigenvalue0', 'the Laplacian eigenvalue of total wavenumber 0 is not exactly 0', inp)
      # FilterScaled (discharged in Lean by `wavenumber_filter_scaled` / `pe_history_commutes_step_filters`): the
      # filters of filtering.py and the step filters of time_integration.py, on the domain of the theorem
      # (cutoff >= 0, order >= 1), are multipliers of the total wavenumber (`lMul`), additive, homogeneous, with
      # factor EXACTLY 1.0 at total wavenumber 0, and leave a scalar leaf (sim_time) alone
      from dinosaur import filtering
      dt_ = float(rng.uniform(0.01, 1.0))
      cut = float(rng.choice([0.0, 0.3, float(rng.uniform(0, 0.9))]))
      p_exp = int(rng.choice([1, 3, 18]))
      p_dif = int(rng.choice([1, 2, 4]))
      rk = lambda f: (lambda tree: f(None, tree))
      cand = (('exponential_filter', filtering.exponential_filter(g1, float(rng.uniform(1, 30)), p_exp, cut)),
              ('horizontal_diffusion_filter', filtering.horizontal_diffusion_filter(g1, float(rng.uniform(0.01, 1)), p_dif)),
              ('exponential_step_filter',
               rk(env.ti.exponential_step_filter(g1, dt_, tau=float(rng.uniform(0.5, 20)) * dt_, order=p_exp, cutoff=cut))),
              ('exponential_step_filter[defaults]', rk(env.ti.exponential_step_filter(g1, dt_))),
              # order 1, cutoff 0: the corner of the domain where a factor != 1 at l = 0 is largest in float64
              ('exponential_step_filter[order 1, cutoff 0]',
               rk(env.ti.exponential_step_filter(g1, dt_, tau=float(rng.uniform(0.5, 2)) * dt_, order=1, cutoff=0))),
              ('horizontal_diffusion_step_filter',
               rk(env.ti.horizontal_diffusion_step_filter(g1, dt_, tau=float(rng.uniform(0.5, 20)) * dt_, order=p_dif))),
              ('horizontal_diffusion_step_filter[radius l]',
               rk(env.ti.horizontal_diffusion_step_filter(g2, dt_, tau=float(rng.uniform(0.5, 20)) * dt_, order=p_dif))))
      for fname, flt in cand:
        finp = dict(filter=fname, cutoff=cut, order_exp=p_exp, order_diff=p_dif, dt=dt_, **inp)
        ctx.dist['filter-hyp:' + fname] += 1
        full = np.asarray(flt(J(np.ones(ms))))
        sc = full[0, :]
        ctx.expect(full.shape == tuple(ms) and bool(np.all(full == sc[None, :])) and len(sc) == ms[-1],
                   'FilterScaled.lmul-shape', f'{fname}: the scaling is not one factor per total wavenumber', finp)
        ctx.expect(float(sc[0]) == 1.0, 'FilterScaled.scaling-at-l0',
                   f'{fname}: the factor at total wavenumber 0 is {float(sc[0])!r}, not exactly 1.0', finp)
        ctx.expect(bool(np.all(np.asarray(flt(J(x))) == sc[None, :] * x)), 'FilterScaled.lmul',
                   f'{fname}: the filter is not the multiplication of the coefficients of total wavenumber l by s[l]', finp)
        ctx.expect(np.abs(np.asarray(flt(J(7.5 * one))) - 7.5 * one).max() == 0.0, 'FilterScaled.const-mode',
                   f'{fname} filter changes the constant mode', finp)
        ctx.expect(rel(flt(J(k * x)), k * np.asarray(flt(J(x)))) < HYP_TOL, 'FilterScaled.smul',
                   f'{fname} filter is not homogeneous', finp)
        ctx.expect(rel(flt(J(x + y)), np.asarray(flt(J(x))) + np.asarray(flt(J(y)))) < HYP_TOL, 'FilterScaled.add',
                   f'{fname} filter is not additive', finp)
        lev = np.arange(ms[-1] + 1.0)            # a 1-D leaf that cannot be broadcast with the scaling
        tree = flt(dict(a=J(x), sim_time=J(3.25), lev=J(lev)))
        ctx.expect(float(tree['sim_time']) == 3.25 and np.asarray(tree['lev']).tolist() == lev.tolist()
                   and bool(np.all(np.asarray(tree['a']) == sc[None, :] * x)),
                   'FilterScaled.scalar-leaf', f'{fname} filter changes a leaf whose shape the scaling does not preserve', finp)
      # outside the domain of the theorem the factor at l = 0 is NOT one (the Lean negative witness
      # `negative_cutoff_breaks_filter`); recorded, not asserted: it is a statement about inputs the theorem excludes
      neg = float(np.asarray(filtering.exponential_filter(g1, 16., 2, -0.25)(J(np.ones(ms))))[0, 0])
      neg0 = float(np.asarray(filtering.horizontal_diffusion_filter(g1, 0.5, 0)(J(np.ones(ms))))[0, 0])
      ctx.dist['filter-hyp:outside-domain factor at l=0 ' + ('!= 1' if (neg != 1.0 and neg0 != 1.0) else '== 1')] += 1
      # HorizScaled.lsp: adding c * (pure constant mode) adds c at every node
      c = float(rng.uniform(-40, 40))
      nod = np.asarray(g1.to_nodal(J(x + c * one))) - np.asarray(g1.to_nodal(J(x)))
      ctx.expect(np.abs(nod - c).max() < 1e-12 * max(1, abs(c)), 'HorizScaled.lsp',
                 'the constant mode is not the nodal constant', dict(c=c, **inp))


def _const_mode(ctx, env, s, eq, with_time, inp):
  """ConstMode: a uniform shift of ln p_s is a fixed point of implicit_inverse and does not reach the other fields."""
  jnp = env.jnp
  st = s.state(with_time)
  zero = lambda a: jnp.zeros_like(a)
  kw = dict(vorticity=zero(st.vorticity), divergence=zero(st.divergence),
            temperature_variation=zero(st.temperature_variation), log_surface_pressure=jnp.asarray(s.one)[None],
            tracers={k: zero(v) for k, v in st.tracers.items()})
  probe = env.pe.StateWithTime(sim_time=0.0, **kw) if with_time else env.pe.State(**kw)
  for eta in (s.dt, 0.5 * s.dt):
    out = eq.implicit_inverse(probe, eta)
    # divergence and temperature are compared with the magnitude they would have for an O(1) state of this scale
    dscale = np.abs(np.asarray(st.divergence)).max()
    tscale = np.abs(np.asarray(st.temperature_variation)).max()
    ok = (np.abs(np.asarray(out.divergence)).max() <= 1e-9 * dscale
          and np.abs(np.asarray(out.temperature_variation)).max() <= 1e-9 * tscale
          and np.abs(np.asarray(out.log_surface_pressure) - s.one[None]).max() <= 1e-12 * abs(s.one[0, 0]))
    ctx.expect(ok, 'ConstMode', 'implicit_inverse does not fix a uniform shift of ln p_s', dict(eta=eta, **inp))


# --------------------------------------------------------------------------
# (b) sentinel on the real code


def _check_terms(ctx, ref, out, key, what, inp, tol):
  err, leaf = R.compare(ref, out)
  ctx.expect(err <= tol, key, f'{what}: relative difference {err:.3e} in {leaf} (tolerance {tol:.1e})',
             dict(leaf=leaf, err=err, **inp))
  return err


def _pe_class(ctx, env, cls, moist, with_time, stats, rep=0, ci=0):
  rng = ctx.rng
  du = env.default_units()
  # corner cases first: one and two layers, strongly uneven levels
  forced = {(0, 0): (int(rng.choice([3, 4, 5])), 'strongly-uneven'), (0, 1): (int(rng.choice([1, 2])), None),
            (0, 2): (int(rng.choice([2, 3, 4])), 'uneven')}.get((rep, ci))
  n, kind0 = forced if forced else (int(rng.choice([1, 2, 3, 4, 5])), None)
  b, kind = dinoutil.random_boundaries(rng, n, kind0 if n > 1 else 'equidistant')
  M = int(rng.choice([5, 6]))
  tref = 'const' if rng.random() < 0.25 else 'variable'
  prob = R.si_problem(rng, M, b, moist=moist, orography=bool(rng.random() < 0.8), earth=bool(rng.random() < 0.3), tref=tref)
  if cls == 'MoistPrimitiveEquationsWithCloudMoisture':
    for k in ('specific_cloud_liquid_water_content', 'specific_cloud_ice_water_content'):
      prob['tracers'][k] = np.abs(prob['tracers']['x']) * 1e-4
  ctx.dist[f'{cls}:layers={n}'] += 1
  ctx.dist[f'{cls}:levels={kind}'] += 1
  ctx.dist[f'{cls}:tref={tref}'] += 1
  pj = _jsonable_problem(prob)
  kinds = ['wide'] * 3 + ['moderate'] * 2 if ctx.quick else ['wide'] * 6 + ['moderate'] * 3
  if ctx.quick and rep > 0:
    kinds = ['wide', 'wide', 'moderate']
  bases = [('default', du)] + [(k, _rand_base(rng, du, k)) for k in kinds]
  integrators = list(R.INTEGRATORS)
  if ctx.quick and rep > 0:
    integrators = [integrators[i] for i in rng.choice(len(integrators), size=2, replace=False)]
  tau_si = 4.0 * prob['dt']
  tau2_si = 20.0 * prob['dt']
  ref = {}
  for bi, (kname, base) in enumerate(bases):
    inp = dict(cls=cls, scale=base, ratio=_ratio_str(base, du), problem=pj)
    nontrivial = kname != 'default'
    with ctx.impl(f'{cls}:exception', inp):
      s = R.Setup(env, prob, env.scale(base))
      eq = s.equation(cls)
      st = s.state(with_time)
      res = {}
      res['explicit'] = s.to_si(eq.explicit_terms(st), True)
      res['implicit'] = s.to_si(eq.implicit_terms(st), True)
      bounds = {}
      for frac in (1.0, 0.5):
        o = eq.implicit_inverse(st, frac * s.dt)
        res[f'inverse{frac}'] = s.to_si(o, False)
        bounds[frac] = R.inverse_bound(s, st, o, frac * s.dt)
      # trajectories: 3 filtered steps of each integrator
      filters = [env.ti.exponential_step_filter(s.grid, s.dt, tau=float(s.specs.nondimensionalize(tau_si * env.units.s)),
                                                order=3, cutoff=0.3),
                 env.ti.horizontal_diffusion_step_filter(
                     s.grid, s.dt, tau=float(s.specs.nondimensionalize(tau2_si * env.units.s)), order=2)]
      # `pe_history_commutes_step_filters` (i): under the other scale the step filters compute the SAME scaling arrays
      # (dt and tau are both times, the radius enters through the eigenvalues only); factor exactly 1.0 at l = 0
      ones = env.jnp.ones(s.grid.modal_shape)
      res['_filter_scalings'] = [np.asarray(f(None, ones))[0, :] for f in filters]
      traj_bound = {}
      if bi <= 1 or kname == 'moderate':      # default, the first wide scale, every moderate scale
        for integ in integrators:
          rec = R.Recorder(env, eq)
          step = env.ti.step_with_filters(getattr(env.ti, integ)(rec.ode, s.dt), filters)
          x = st
          for _ in range(3):
            x = step(x)
          res[f'traj:{integ}'] = s.to_si(x, False)
          tb = 0.0
          for eta in sorted(set(rec.etas)):
            bb = R.inverse_bound(s, st, eq.implicit_inverse(st, eta), eta)
            tb += rec.etas.count(eta) * max(bb.values())
          traj_bound[integ] = tb
      if kname == 'default':
        ref = dict(res=res, bounds=bounds, traj_bound=traj_bound)
        _const_mode(ctx, env, s, eq, with_time, inp)
        ctx.case((cls, 'default', repr(pj)[:200]), nontrivial=False)
        continue
      for fi, fname in enumerate(('exponential_step_filter', 'horizontal_diffusion_step_filter')):
        sa, sb = ref['res']['_filter_scalings'][fi], res['_filter_scalings'][fi]
        d = float(np.abs(sa - sb).max() / np.abs(sa).max()) if sa.shape == sb.shape else float('inf')
        ctx.expect(d <= 1e-12, f'{cls}:step-filter-scaling', f'{fname}: the scaling arrays under two scales differ by {d:.3e}',
                   dict(filter=fname, err=d, **inp))
        ctx.expect(float(sa[0]) == 1.0 and float(sb[0]) == 1.0 and len(sb) == s.grid.modal_shape[-1],
                   'FilterScaled.scaling-at-l0', f'{fname}: factor at total wavenumber 0 is not exactly 1.0 '
                   f'({float(sa[0])!r}, {float(sb[0])!r})', dict(filter=fname, **inp))
        stats['filter-scaling'] = max(stats.get('filter-scaling', 0.0), d)
      for op in ('explicit', 'implicit'):
        ctx.case((cls, op, tuple(base), prob['sim_time']), nontrivial=nontrivial, sample=dict(cls=cls, op=op, ratio=inp['ratio']))
        e = _check_terms(ctx, ref['res'][op], res[op], f'{cls}:{op}_terms', f'{cls}.{op}_terms under two scales', inp,
                         TOL_TERMS)
        stats[f'{op}'] = max(stats.get(f'{op}', 0.0), e)
      for frac in (1.0, 0.5):
        ctx.case((cls, 'inverse', frac, tuple(base), prob['sim_time']), nontrivial=nontrivial)
        for leaf in bounds[frac]:
          tol = TOL_FLOOR + 4 * (bounds[frac][leaf] + ref['bounds'][frac][leaf])
          e = _check_terms(ctx, {leaf: ref['res'][f'inverse{frac}'][leaf]}, {leaf: res[f'inverse{frac}'][leaf]},
                           f'{cls}:implicit_inverse', f'{cls}.implicit_inverse(eta={frac} dt) under two scales',
                           dict(frac=frac, **inp), tol)
          stats['inverse/tol'] = max(stats.get('inverse/tol', 0.0), e / tol)
          stats['inverse:max(tol)'] = max(stats.get('inverse:max(tol)', 0.0), tol)
          stats['inverse:max(err)'] = max(stats.get('inverse:max(err)', 0.0), e)
        rest = {k: v for k, v in res[f'inverse{frac}'].items() if k not in bounds[frac]}
        _check_terms(ctx, {k: ref['res'][f'inverse{frac}'][k] for k in rest}, rest, f'{cls}:implicit_inverse',
                     f'{cls}.implicit_inverse (untouched leaves)', dict(frac=frac, **inp), TOL_TERMS)
      for integ in integrators:
        if f'traj:{integ}' not in res:
          continue
        ctx.case((cls, 'traj', integ, tuple(base), prob['sim_time']), nontrivial=nontrivial,
                 sample=dict(cls=cls, integrator=integ, ratio=inp['ratio']))
        ctx.dist[f'trajectory:{integ}'] += 1
        tol = TOL_TRAJ + 30 * (traj_bound[integ] + ref['traj_bound'][integ])
        e = _check_terms(ctx, ref['res'][f'traj:{integ}'], res[f'traj:{integ}'], f'{cls}:trajectory:{integ}',
                         f'3 filtered steps of {integ} under two scales', dict(integrator=integ, **inp), tol)
        stats['traj/tol'] = max(stats.get('traj/tol', 0.0), e / tol)
        stats['traj:max(tol)'] = max(stats.get('traj:max(tol)', 0.0), tol)
        stats['traj:max(err)'] = max(stats.get('traj:max(err)', 0.0), e)
  return prob


def _held_suarez(ctx, env, stats):
  rng = ctx.rng
  du = env.default_units()
  n = int(rng.choice([2, 3, 5]))
  b, kind = dinoutil.random_boundaries(rng, n)
  prob = R.si_problem(rng, int(rng.choice([5, 6])), b, moist=False, orography=True, earth=bool(rng.random() < 0.5))
  hp = R.hs_params(rng, default=bool(rng.random() < 0.3))
  pj = _jsonable_problem(prob)
  ctx.dist[f'HeldSuarez:layers={n}'] += 1
  kinds = ['wide'] * 3 + ['moderate'] * 2 if ctx.quick else ['wide'] * 6 + ['moderate'] * 3
  bases = [('default', du)] + [(k, _rand_base(rng, du, k)) for k in kinds]
  ref = {}
  for i, (kname, base) in enumerate(bases):
    inp = dict(cls='HeldSuarezForcing', scale=base, ratio=_ratio_str(base, du), hs=hp, problem=pj)
    with ctx.impl('HeldSuarezForcing:exception', inp):
      s = R.Setup(env, prob, env.scale(base))
      f = R.hs_forcing(env, s, hp)
      st = s.state(False)
      res = dict(explicit=s.to_si(f.explicit_terms(st), True))
      tb = 0.0
      if i <= 1 or kname == 'moderate':
        pe_eq = s.equation('PrimitiveEquations')
        rec = R.Recorder(env, pe_eq)
        ode = env.ti.compose_equations([rec.ode, f])
        step = env.ti.imex_rk_sil3(ode, s.dt)
        x = st
        for _ in range(3):
          x = step(x)
        res['traj'] = s.to_si(x, False)
        for eta in sorted(set(rec.etas)):
          tb += rec.etas.count(eta) * max(R.inverse_bound(s, st, pe_eq.implicit_inverse(st, eta), eta).values())
      if kname == 'default':
        ref = dict(res=res, tb=tb)
        continue
      ctx.case(('hs', tuple(base), prob['sim_time']), nontrivial=True, sample=dict(cls='HeldSuarezForcing', ratio=inp['ratio']))
      e = _check_terms(ctx, ref['res']['explicit'], res['explicit'], 'HeldSuarezForcing:explicit_terms',
                       'HeldSuarezForcing.explicit_terms under two scales', inp, TOL_TERMS)
      stats['hs'] = max(stats.get('hs', 0.0), e)
      if 'traj' in res:
        tol = TOL_TRAJ + 30 * (tb + ref['tb'])
        e = _check_terms(ctx, ref['res']['traj'], res['traj'], 'HeldSuarezForcing:trajectory',
                         '3 steps of imex_rk_sil3 on primitive equations + Held-Suarez under two scales', inp, tol)
        stats['traj/tol'] = max(stats.get('traj/tol', 0.0), e / tol)
        stats['traj:max(tol)'] = max(stats.get('traj:max(tol)', 0.0), tol)
        stats['traj:max(err)'] = max(stats.get('traj:max(err)', 0.0), e)


def _shallow_water(ctx, env, stats):
  rng = ctx.rng
  du = env.default_units()
  layers = int(rng.choice([1, 2, 3]))
  prob = R.sw_problem(rng, int(rng.choice([5, 6])), layers, orography=bool(rng.random() < 0.7))
  pj = _jsonable_problem(prob)
  ctx.dist[f'ShallowWater:layers={layers}'] += 1
  kinds = ['wide'] * 3 + ['moderate'] * 2 if ctx.quick else ['wide'] * 6 + ['moderate'] * 3
  bases = [('default', du)] + [(k, _rand_base(rng, du, k)) for k in kinds]
  tau_si = 4.0 * prob['dt']
  ref = {}
  for kname, base in bases:
    inp = dict(cls='ShallowWaterEquations', scale=base, ratio=_ratio_str(base, du), problem=pj)
    with ctx.impl('ShallowWaterEquations:exception', inp):
      s = R.SWSetup(env, prob, env.scale(base))
      st = s.state()
      res = dict(explicit=s.to_si(s.eq.explicit_terms(st), True), implicit=s.to_si(s.eq.implicit_terms(st), True),
                 inverse=s.to_si(s.eq.implicit_inverse(st, 0.5 * s.dt), False))
      tau = float(s.specs.nondimensionalize(tau_si * env.units.s))
      lf = env.ti.step_with_filters(
          env.ti.semi_implicit_leapfrog(s.eq, s.dt, 0.5),
          [env.ti.exponential_leapfrog_step_filter(s.grid, s.dt, tau=tau, order=3, cutoff=0.3),
           env.ti.robert_asselin_leapfrog_filter(0.05)])
      x = (st, st)
      for _ in range(3):
        x = lf(x)
      res['traj:leapfrog'] = s.to_si(x[1], False)
      rk = env.ti.step_with_filters(env.ti.imex_rk_sil3(s.eq, s.dt),
                                    [env.ti.exponential_step_filter(s.grid, s.dt, tau=tau, order=3, cutoff=0.3)])
      x = st
      for _ in range(3):
        x = rk(x)
      res['traj:imex_rk_sil3'] = s.to_si(x, False)
      # the scale bypass in shallow_water.default_filters (tau is not passed): attenuation of the top wavenumber
      fl = env.sw.default_filters(s.grid, s.dt)
      top = np.zeros(s.grid.modal_shape)
      top[0, -2] = 1.0
      filt = fl[0]((st, st), (st, env.sw.State(*(env.jnp.asarray(np.broadcast_to(top, np.asarray(st.vorticity).shape)),) * 3)))
      res['_default_filter_top'] = float(np.asarray(filt[1].vorticity)[0, 0, -2])
      if kname == 'default':
        ref = res
        continue
      for op in ('explicit', 'implicit', 'inverse', 'traj:leapfrog', 'traj:imex_rk_sil3'):
        ctx.case(('sw', op, tuple(base), prob['dt'], layers), nontrivial=True, sample=dict(cls='ShallowWater', op=op, ratio=inp['ratio']))
        tol = TOL_TERMS if not op.startswith('traj') else TOL_TRAJ
        e = _check_terms(ctx, ref[op], res[op], f'ShallowWaterEquations:{op}', f'ShallowWaterEquations {op} under two scales',
                         dict(op=op, **inp), tol)
        stats['sw'] = max(stats.get('sw', 0.0), e)
      d = abs(res['_default_filter_top'] - ref['_default_filter_top'])
      if d > 1e-9:
        key = 'sw-default-filters-tau'
        msg = (f'shallow_water.default_filters(grid, dt) attenuates the top wavenumber by {res["_default_filter_top"]:.6g} '
               f'under this scale and by {ref["_default_filter_top"]:.6g} under DEFAULT_SCALE for the same SI time step '
               '(tau=0.010938 is a number in DEFAULT_SCALE time units)')
        ctx.fail(key, msg, inp)   # a failure of the property on the real code: KNOWN-FINDING when recorded, VIOLATION otherwise



def _state_factories(ctx, env, stats):
  """primitive_equations_states: the test-case initial states must describe the same SI state under every scale."""
  from dinosaur import primitive_equations_states as pes
  from dinosaur import xarray_utils
  rng, u = ctx.rng, env.units
  du = env.default_units()
  n = int(rng.choice([3, 4, 6]))
  b, _ = dinoutil.random_boundaries(rng, n)
  M = int(rng.choice([5, 6]))
  c = R.si_constants(rng, earth=bool(rng.random() < 0.5))
  prob = dict(M=M, boundaries=b.tolist(), const=c)
  height = None
  kinds = ['wide', 'wide', 'moderate'] if ctx.quick else ['wide'] * 5 + ['moderate'] * 2
  bases = [('default', du)] + [(k, _rand_base(rng, du, k)) for k in kinds]
  p1 = float(rng.uniform(0, 500))
  ref = None
  for kname, base in bases:
    inp = dict(cls='primitive_equations_states', scale=base, ratio=_ratio_str(base, du), const=c, boundaries=b.tolist(), M=M)
    with ctx.impl('state-factories:exception', inp):
      sc = env.scale(base)
      specs = R.specs_of(env, prob, sc)
      grid = env.grid(M, specs.radius)
      coords = env.cs.CoordinateSystem(grid, env.sc.SigmaCoordinates(b))
      if height is None:
        lon, sin_lat = grid.nodal_mesh
        height = 800. * np.exp(-((lon - 2.0) ** 2 + (np.arcsin(sin_lat) - 0.5) ** 2) / 0.3)
      dim = specs.dimensionalize
      ln_unit = float(np.log(specs.nondimensionalize(1.0 * u.pascal)))

      def si_state(x):
        out = dict(vorticity=np.asarray(dim(np.asarray(x.vorticity), u('1/s')).magnitude),
                   divergence=np.asarray(dim(np.asarray(x.divergence), u('1/s')).magnitude),
                   temperature_variation=np.asarray(dim(np.asarray(x.temperature_variation), u.degK).magnitude))
        out['ln_ps_nodal'] = np.asarray(grid.to_nodal(env.jnp.asarray(x.log_surface_pressure))) - ln_unit
        return out

      res = {}
      fn, aux = pes.steady_state_jw(coords, specs)
      res['jw'] = si_state(fn())
      res['jw.aux'] = dict(orography=np.asarray(dim(np.asarray(aux[xarray_utils.OROGRAPHY]), u.m).magnitude),
                           geopotential=np.asarray(dim(np.asarray(aux[xarray_utils.GEOPOTENTIAL_KEY]), u('m**2/s**2')).magnitude),
                           ref_temperature=np.asarray(dim(np.asarray(aux[xarray_utils.REF_TEMP_KEY]), u.degK).magnitude))
      pert = pes.baroclinic_perturbation_jw(coords, specs)
      res['jw.perturbation'] = dict(vorticity=np.asarray(dim(np.asarray(pert.vorticity), u('1/s')).magnitude),
                                    divergence=np.asarray(dim(np.asarray(pert.divergence), u('1/s')).magnitude))
      fn2, aux2 = pes.isothermal_rest_atmosphere(coords, specs, p1=p1 * u.pascal, surface_height=height * u.m)
      res['rest'] = si_state(fn2(env.jax.random.PRNGKey(3)))
      res['rest.aux'] = dict(orography=np.asarray(dim(np.asarray(aux2[xarray_utils.OROGRAPHY]), u.m).magnitude),
                             ref_temperature=np.asarray(dim(np.asarray(aux2[xarray_utils.REF_TEMP_KEY]), u.degK).magnitude))
      res['gaussian'] = dict(q=np.asarray(pes.gaussian_scalar(coords, specs)))
      if kname == 'default':
        ref = res
        continue
      for name in res:
        ctx.case(('factory', name, tuple(base), M, n), nontrivial=True, sample=dict(factory=name, ratio=inp['ratio']))
        e = _check_terms(ctx, ref[name], res[name], f'primitive_equations_states:{name}',
                         f'initial state {name} under two scales', dict(factory=name, **inp), TOL_TERMS)
        stats['factories'] = max(stats.get('factories', 0.0), e)



def _radiation(ctx, env, stats):
  """radiation.SolarRadiation: incident flux in W/m^2 at the same SI time does not depend on the scale."""
  import datetime
  from dinosaur import radiation
  rng, u = ctx.rng, env.units
  du = env.default_units()
  b = np.array([0, 0.5, 1.0])
  prob = dict(M=5, boundaries=b.tolist(), const=R.si_constants(rng, earth=True))
  when = datetime.datetime(2000 + int(rng.integers(0, 20)), int(rng.integers(1, 13)), int(rng.integers(1, 28)),
                           int(rng.integers(0, 24)))
  times = rng.uniform(0, 1e7, 4)
  later = when + datetime.timedelta(days=float(rng.uniform(1, 300)))
  kinds = ['wide', 'moderate'] if ctx.quick else ['wide'] * 4 + ['moderate'] * 2
  bases = [('default', du)] + [(k, _rand_base(rng, du, k)) for k in kinds]
  ref = None
  for kname, base in bases:
    inp = dict(cls='SolarRadiation', scale=base, ratio=_ratio_str(base, du), reference=str(when), times=times.tolist())
    with ctx.impl('SolarRadiation:exception', inp):
      specs = R.specs_of(env, prob, env.scale(base))
      grid = env.grid(5, specs.radius)
      coords = env.cs.CoordinateSystem(grid, env.sc.SigmaCoordinates(b))
      sr = radiation.SolarRadiation(coords, specs, when)
      srn = radiation.SolarRadiation.normalized(coords, specs, when)
      res = {}
      for i, t_si in enumerate(times):
        t = float(specs.nondimensionalize(t_si * u.s))
        res[f'flux{i}'] = np.asarray(specs.dimensionalize(np.asarray(sr.radiation_flux(t)), u('W/m**2')).magnitude)
        res[f'normalized{i}'] = np.asarray(srn.radiation_flux(t))
      res['datetime_to_time'] = np.asarray([specs.dimensionalize(sr.datetime_to_time(later), u.s).magnitude])
      if kname == 'default':
        ref = res
        continue
      ctx.case(('radiation', tuple(base), str(when)), nontrivial=True, sample=dict(cls='SolarRadiation', ratio=inp['ratio']))
      e = _check_terms(ctx, ref, res, 'SolarRadiation:flux', 'SolarRadiation under two scales', inp, 10 * TOL_TERMS)
      stats['radiation'] = max(stats.get('radiation', 0.0), e)


# --------------------------------------------------------------------------
# (c) static pass


def _static(ctx):
  entries = c12_static.scan(common.REPO)
  ctx.notes.append(f'static pass: {len(entries)} entries, allow-list {len(ALLOW)}')
  for e in entries:
    ctx.case(('static', e), nontrivial=True)
    ctx.dist['static:' + e.split(' ')[0]] += 1
    ctx.expect(e in ALLOW, 'static-scale-bypass',
               f'value bound to DEFAULT_SCALE enters the code at a place that is not on the allow-list: {e}',
               dict(entry=e, repo=common.REPO))
  gone = [e for e in ALLOW if e not in entries]
  if gone:
    ctx.notes.append('allow-list entries no longer present in the source: ' + '; '.join(gone))
  return entries


def run(ctx: common.Ctx):
  jax = common.setup_jax()
  env = R.Env(jax)

  ctx.lean('DinoProofs.Properties.C12', 'C12.txt',
           extra_files=['DinoProofs/Lemmas/Scaling.lean', 'DinoProofs/Lemmas/ScalingDyn.lean',
                        'DinoProofs/Lemmas/ScalingTerms.lean', 'DinoProofs/Lemmas/ScalingMoist.lean',
                        'DinoProofs/Lemmas/ScalingInv.lean', 'DinoProofs/Lemmas/ScalingSW.lean',
                        'DinoProofs/Lemmas/ScalingHS.lean', 'DinoProofs/Lemmas/ScalingStep.lean',
                        'DinoProofs/Lemmas/ScalingTraj.lean', 'DinoProofs/Lemmas/ScalingFilter.lean',
                        'Dino/Scaling.lean', 'Dino/ScalingDrv.lean'])

  import time
  tm = {}
  t0 = time.time()
  _static(ctx)
  with ctx.impl('correspondence-exception', None):
    _correspondence(ctx, env)
  tm['correspondence'] = time.time() - t0
  t0 = time.time()
  _hypotheses(ctx, env)
  tm['hypotheses'] = time.time() - t0

  stats = {}
  classes = [('PrimitiveEquations', False, False), ('PrimitiveEquationsWithTime', False, True),
             ('MoistPrimitiveEquations', True, True), ('MoistPrimitiveEquationsWithCloudMoisture', True, True)]
  reps = ctx.n(2, 10)
  for rep in range(reps):
    todo = list(enumerate(classes))
    if ctx.quick and rep > 0:
      todo = [todo[i] for i in sorted(ctx.rng.choice(len(todo), size=2, replace=False))]
    for ci, (cls, moist, with_time) in todo:
      t0 = time.time()
      _pe_class(ctx, env, cls, moist, with_time, stats, rep, ci)
      tm[cls] = tm.get(cls, 0.0) + time.time() - t0
    if ctx.quick and rep > 0:
      continue
    t0 = time.time()
    _held_suarez(ctx, env, stats)
    tm['HeldSuarez'] = tm.get('HeldSuarez', 0.0) + time.time() - t0
    t0 = time.time()
    _shallow_water(ctx, env, stats)
    tm['ShallowWater'] = tm.get('ShallowWater', 0.0) + time.time() - t0
    if rep == 0 or not ctx.quick:
      t0 = time.time()
      _state_factories(ctx, env, stats)
      _radiation(ctx, env, stats)
      tm['factories'] = tm.get('factories', 0.0) + time.time() - t0
  ctx.notes.append('seconds: ' + ', '.join(f'{k}={v:.0f}' for k, v in tm.items()))
  ctx.notes.append('largest measured differences: ' + ', '.join(f'{k}={v:.2e}' for k, v in sorted(stats.items())))
  ctx.notes.append('effective tolerances: explicit/implicit terms, Held-Suarez, shallow water terms, state factories '
                   f'{TOL_TERMS:.0e} (radiation {10 * TOL_TERMS:.0e}); shallow-water trajectories {TOL_TRAJ:.0e}; '
                   f'implicit_inverse {TOL_FLOOR:.0e} + 4 x a-posteriori bound, largest value used in this run '
                   f'{stats.get("inverse:max(tol)", float("nan")):.2e} (largest error {stats.get("inverse:max(err)", float("nan")):.2e}); '
                   f'primitive-equation / Held-Suarez trajectories {TOL_TRAJ:.0e} + 30 x summed a-posteriori bound, largest '
                   f'value used in this run max(tol) = {stats.get("traj:max(tol)", float("nan")):.2e} (largest error '
                   f'{stats.get("traj:max(err)", float("nan")):.2e}, largest ratio error/tolerance '
                   f'{stats.get("traj/tol", float("nan")):.2e})')

  if not ctx.quick:
    ctx.leanchecker(['DinoProofs.Properties.C12'])
  return ctx.finish(RULE, NOTE)
