"""C03 — the implicit solve is the exact resolvent of (1 - step * implicit tendency).

Lean: DinoProofs/Properties/C03.lean over the model Dino/Implicit.lean (+ Dino/Sigma.lean).
Tie: H matrix, dense/sparse vertical products, the block matrix, implicit_terms and the three
solve strategies of the real PrimitiveEquations are compared column by column with the model;
numpy.linalg.inv is external (its outputs are captured and passed to the model, and its
left-inverse contract is checked on every captured matrix).  For method='blockwise' the two matrices
handed to numpy.linalg.inv are themselves compared with the model's blockwiseDivMatrix / blockwiseTpMatrix
(the matrices the hypotheses of Dino.C03.blockwise_is_resolvent are about).  All comparisons use 1e-9.
"""
import numpy as np

import common
from common import fvec, fbits, fmat, unfvec, unfmat, unfbits
import dinoutil

TOL = 1e-9
RULE = ('vertical discretisations with 1..8 layers (equidistant, uneven, strongly uneven), random reference '
        'temperature profiles (constant and variable), kappa, R, step sizes of either sign and magnitude 1e-3..1e3; '
        'full spectral states on a small grid; a case is non-trivial when layers >= 2 with unequal thickness or a '
        'non-constant reference temperature; distinct = distinct (level set, T_ref, eta, state) hashes')


RADIUS = [1.0]   # grid radius of the current case (the eigenvalues -l(l+1)/r^2 enter both L and the solve)


def _mk(pe, cs, sc, sh, b, tref, R, kappa, method=None):
  grid = sh.Grid.with_wavenumbers(4, radius=RADIUS[0])
  coords = cs.CoordinateSystem(horizontal=grid, vertical=sc.SigmaCoordinates(b))
  from dinosaur import scales
  specs = pe.PrimitiveEquationsSpecs(radius=RADIUS[0], angular_velocity=1.0, gravity_acceleration=9.8 / 10,
                                     ideal_gas_constant=R, water_vapor_gas_constant=R * 1.6,
                                     water_vapor_isobaric_heat_capacity=4 * R, kappa=kappa,
                                     scale=scales.DEFAULT_SCALE)
  eq = pe.PrimitiveEquations(np.asarray(tref), np.zeros(grid.modal_shape), coords, specs,
                             vertical_matmul_method=method)
  return grid, coords, specs, eq


def _parse_col(o):
  d, t, p = o.split('|')
  return unfvec(d), unfvec(t), unfbits(p)


def run(ctx: common.Ctx):
  jax = common.setup_jax()
  import jax.numpy as jnp
  from dinosaur import sigma_coordinates as sc
  from dinosaur import primitive_equations as pe
  from dinosaur import coordinate_systems as cs
  from dinosaur import spherical_harmonic as sh
  from dinosaur import shallow_water as sw

  ctx.lean('DinoProofs.Properties.C03', 'C03.txt',
           extra_files=['DinoProofs/Lemmas/Implicit.lean', 'Dino/Implicit.lean'])

  rng = ctx.rng
  lines, checks = [], []
  import os

  def add(line, op, inp, impl, kind='vec'):
    lines.append(line)
    checks.append((op, inp, impl, kind))

  inv_contract_worst = 0.0
  ncases = ctx.n(14, 120)
  for ci in range(ncases):
    forced = {0: (1, 'equidistant'), 1: (2, 'strongly-uneven'), 2: (5, 'uneven'), 3: (3, 'equidistant')}.get(ci)
    b, kind = dinoutil.random_boundaries(rng, *(forced or (int(rng.integers(1, 9)), None)))
    n = len(b) - 1
    const_t = bool(rng.random() < 0.3)
    tref = np.full(n, float(rng.uniform(200, 300))) if const_t else rng.uniform(180, 320, n)
    R = float(rng.choice([1.0, 287.0 / 100, rng.uniform(0.1, 5)]))
    kappa = float(rng.choice([2 / 7, rng.uniform(0.1, 0.5)]))
    eta = float(rng.choice([-1, 1]) * 10 ** rng.uniform(-3, 3))
    # the horizontal grid enters through its Laplacian eigenvalues only: every third case has a non-unit radius
    RADIUS[0] = 1.0 if ci % 3 else float(rng.choice([0.5, 2.0, 4.0]))
    ctx.dist[f'radius={RADIUS[0]:g}'] += 1
    grid, coords, specs, eq = _mk(pe, cs, sc, sh, b, tref, R, kappa)
    ds = coords.vertical.layer_thickness
    alpha = pe.get_sigma_ratios(coords.vertical)
    nontriv = (n >= 2 and np.ptp(ds) > 1e-12) or (n >= 2 and not const_t)
    ctx.dist[f'layers={n}'] += 1
    ctx.dist[f'kind={kind}'] += 1
    ctx.dist['Tref=const' if const_t else 'Tref=variable'] += 1
    ctx.dist['eta<0' if eta < 0 else 'eta>0'] += 1
    base = dict(boundaries=b.tolist(), tref=tref.tolist(), R=R, kappa=kappa, eta=eta, radius=RADIUS[0])
    ctx.case((b.tobytes(), tref.tobytes(), eta), nontrivial=nontriv, sample=base)
    common_args = f'{fvec(ds)} {fvec(tref)} {fvec(alpha)} {fbits(kappa)}'

    H = pe.get_temperature_implicit_weights(coords.vertical, tref, kappa)
    add(f'implicit F hmat {common_args}', 'get_temperature_implicit_weights', base, H, 'mat')
    dcol = rng.standard_normal((n, 2, 2))
    for method in ('dense', 'sparse'):
      out = np.asarray(pe.get_temperature_implicit(jnp.asarray(dcol), coords.vertical, tref, kappa, method=method))
      for (_, col), (_, ocol) in zip(dinoutil.columns(dcol, 0), dinoutil.columns(out, 0)):
        add(f'implicit F tempimp {method} {common_args} {fvec(col)}', f'get_temperature_implicit[{method}]',
            dict(base, d=col.tolist()), ocol)

    lam_all = grid.laplacian_eigenvalues
    M = pe._get_implicit_term_matrix(eta, coords, tref, kappa, R)
    shape = (n,) + grid.modal_shape
    state = pe.State(vorticity=jnp.asarray(rng.standard_normal(shape)),
                     divergence=jnp.asarray(rng.standard_normal(shape)),
                     temperature_variation=jnp.asarray(rng.standard_normal(shape) * 10),
                     log_surface_pressure=jnp.asarray(rng.standard_normal((1,) + grid.modal_shape)),
                     tracers={'q': jnp.asarray(rng.standard_normal(shape))})
    picks = [(0, 0), (1, 1), (3, 2), (6, 4), (2, 4)]
    for l in sorted({p[1] for p in picks}):
      add(f'implicit F matrix {fbits(eta)} {fbits(lam_all[l])} {fbits(R)} {common_args}', '_get_implicit_term_matrix',
          dict(base, l=l), M[l], 'mat')
    # implicit_terms, both vertical methods
    for method in ('dense', 'sparse'):
      eqm = _mk(pe, cs, sc, sh, b, tref, R, kappa, method)[3]
      it = eqm.implicit_terms(state)
      for (m, l) in picks:
        d = np.asarray(state.divergence)[:, m, l]
        t = np.asarray(state.temperature_variation)[:, m, l]
        p = float(np.asarray(state.log_surface_pressure)[0, m, l])
        exp = (np.asarray(it.divergence)[:, m, l], np.asarray(it.temperature_variation)[:, m, l],
               float(np.asarray(it.log_surface_pressure)[0, m, l]))
        add(f'implicit F terms {method} {fbits(lam_all[l])} {fbits(R)} {common_args} {fvec(d)} {fvec(t)} {fbits(p)}',
            f'implicit_terms[{method}]', dict(base, m=m, l=l, d=d.tolist(), t=t.tolist(), p=p), exp, 'col')
      ctx.expect(float(np.abs(np.asarray(it.vorticity)).max()) == 0.0 and
                 float(np.abs(np.asarray(it.tracers['q'])).max()) == 0.0, 'implicit-vorticity-tracers',
                 'implicit terms of vorticity/tracers are not zero', base)
    # the three solve strategies, with numpy.linalg.inv captured
    for smethod in ('split', 'stacked', 'blockwise'):
      captured = []
      orig = np.linalg.inv

      def spy(a, _c=captured, _o=orig):
        r = _o(a)
        _c.append((np.array(a), np.array(r)))
        return r
      np.linalg.inv = spy
      try:
        with ctx.impl('implicit-inverse-exception', dict(base, method=smethod)):
          inv_state = eq.implicit_inverse(state, eta, method=smethod)
      finally:
        np.linalg.inv = orig
      if not captured:
        ctx.corr_mismatch('implicit_inverse', dict(base, method=smethod), 'no call to numpy.linalg.inv', 'external inv expected')
        continue
      want_shapes = ([(len(lam_all), 2 * n + 1, 2 * n + 1)] if smethod != 'blockwise' else
                     [(len(lam_all), n, n), (len(lam_all), n + 1, n + 1)])
      if [a.shape for a, _ in captured] != want_shapes:
        ctx.corr_mismatch('implicit_inverse', dict(base, method=smethod), [list(a.shape) for a, _ in captured],
                          [list(w) for w in want_shapes], 'matrices handed to numpy.linalg.inv')
        continue
      # contract of the external call: left inverse
      for a, r in captured:
        res = np.abs(np.einsum('...ij,...jk->...ik', r, a) - np.eye(a.shape[-1])).max(axis=(-1, -2))
        cond = np.linalg.cond(a)
        inv_contract_worst = max(inv_contract_worst, float((res / (1e-9 + 1e-12 * cond)).max()))
      for (m, l) in picks:
        d = np.asarray(state.divergence)[:, m, l]
        t = np.asarray(state.temperature_variation)[:, m, l]
        p = float(np.asarray(state.log_surface_pressure)[0, m, l])
        exp = (np.asarray(inv_state.divergence)[:, m, l], np.asarray(inv_state.temperature_variation)[:, m, l],
               float(np.asarray(inv_state.log_surface_pressure)[0, m, l]))
        inp = dict(base, method=smethod, m=m, l=l, d=d.tolist(), t=t.tolist(), p=p)
        if smethod in ('split', 'stacked'):
          minv = captured[0][1][l]
          add(f'implicit F inv {smethod} {fmat(minv)} {fvec(d)} {fvec(t)} {fbits(p)}', f'implicit_inverse[{smethod}]',
              inp, exp, 'col')
        else:
          dinv, tpinv = captured[0][1][l], captured[1][1][l]
          # the hypotheses of blockwise_is_resolvent are about exactly these two matrices: what the code handed
          # to numpy.linalg.inv must be the model's I - M[div,tp] @ M[tp,div] and I - M[tp,div] @ M[div,tp]
          # (model op `blockmat`; unconditional: a driver without the op answers bad-op = correspondence break)
          for which, (a_in, _r) in zip(('div', 'tp'), captured[:2]):
            add(f'implicit F blockmat {which} {fbits(eta)} {fbits(lam_all[l])} {fbits(R)} {common_args}',
                f'implicit_inverse[blockwise].inverted-matrix[{which}]', dict(base, l=l, which=which), a_in[l], 'mat')
          add(f'implicit F invblock {fbits(eta)} {fbits(lam_all[l])} {fbits(R)} {common_args} {fmat(dinv)} {fmat(tpinv)} '
              f'{fvec(d)} {fvec(t)} {fbits(p)}', 'implicit_inverse[blockwise]', inp, exp, 'col')
      ctx.expect(np.array_equal(np.asarray(inv_state.vorticity), np.asarray(state.vorticity)) and
                 np.array_equal(np.asarray(inv_state.tracers['q']), np.asarray(state.tracers['q'])),
                 'inverse-vorticity-tracers', 'implicit_inverse changes vorticity or tracers', dict(base, method=smethod))

    # ---------------- sentinel: the property itself on the real code
    # 1. resolvent identity for every strategy pair, on x - eta L x
    if abs(eta) * abs(lam_all).max() * R * tref.max() < 1e8:   # keep the matrix well conditioned for a sound tolerance
      for vmethod in ('dense', 'sparse'):
        eqm = _mk(pe, cs, sc, sh, b, tref, R, kappa, vmethod)[3]
        it = eqm.implicit_terms(state)
        rhs = jax.tree_util.tree_map(lambda x, y: x - eta * y, state, it)
        for smethod in ('split', 'stacked', 'blockwise'):
          with ctx.impl('resolvent-exception', dict(base, method=smethod, vertical=vmethod)):
            # rounding is amplified by the condition number of the matrices the strategy actually inverts: the
            # block-wise strategy inverts I - GH-type blocks that can be far worse conditioned than 1 - eta L
            # (measured: cond 8.5e10 for a block of a matrix with cond 3.1e8 on strongly uneven levels, error 2e-4
            # in the temperature, 1e-10 with split / stacked), so the tolerance uses the worst captured one
            inverted, orig_inv = [], np.linalg.inv

            def spy2(a, _c=inverted, _o=orig_inv):
              _c.append(np.array(a))
              return _o(a)
            np.linalg.inv = spy2
            try:
              back = eqm.implicit_inverse(rhs, eta, method=smethod)
            finally:
              np.linalg.inv = orig_inv
            errs = [dinoutil.relerr(getattr(back, f), getattr(state, f))
                    for f in ('vorticity', 'divergence', 'temperature_variation', 'log_surface_pressure')]
            cond = max([float(np.linalg.cond(M).max())] + [float(np.linalg.cond(a).max()) for a in inverted])
            tol = max(1e-9, 1e-13 * cond)
            ctx.expect(max(errs) < tol, f'resolvent-{smethod}-{vmethod}',
                       f'implicit_inverse(x - eta*implicit_terms(x)) != x: rel err {max(errs):.3e} (cond {cond:.2e})',
                       dict(base, method=smethod, vertical=vmethod))
    # 1b. the time-reversed equation (TimeReversedImExODE: tendencies negated, step negated in the solve) is again an
    #     equation whose implicit_inverse is the exact resolvent of ITS implicit_terms (theorem timeReversed_resolvent)
    if abs(eta) * abs(lam_all).max() * R * tref.max() < 1e8:
      from dinosaur import time_integration as ti_
      rev = ti_.TimeReversedImExODE(eq)
      with ctx.impl('resolvent-time-reversed-exception', base):
        itr = rev.implicit_terms(state)
        rhs_r = jax.tree_util.tree_map(lambda x, y: x - eta * y, state, itr)
        back_r = rev.implicit_inverse(rhs_r, eta)
        errs = [dinoutil.relerr(getattr(back_r, f), getattr(state, f))
                for f in ('vorticity', 'divergence', 'temperature_variation', 'log_surface_pressure')]
        cond_r = float(np.linalg.cond(pe._get_implicit_term_matrix(-eta, coords, tref, kappa, R)).max())
        ctx.expect(max(errs) < max(1e-9, 1e-13 * cond_r), 'resolvent-time-reversed',
                   f'TimeReversedImExODE: implicit_inverse(x - eta*implicit_terms(x)) != x: rel err {max(errs):.3e} '
                   f'(cond {cond_r:.2e})', base)
        ctx.case(('time-reversed', b.tobytes(), eta), nontrivial=nontriv)
    # 2. dense vs sparse vertical products
    it_d = _mk(pe, cs, sc, sh, b, tref, R, kappa, 'dense')[3].implicit_terms(state)
    it_s = _mk(pe, cs, sc, sh, b, tref, R, kappa, 'sparse')[3].implicit_terms(state)
    for f in ('divergence', 'temperature_variation', 'log_surface_pressure'):
      ctx.expect(dinoutil.relerr(getattr(it_d, f), getattr(it_s, f)) < 1e-10, f'dense-vs-sparse-{f}',
                 f'implicit_terms differ between dense and sparse vertical products in {f}', base)
    # 3. linearity of implicit_terms
    a1, a2 = rng.standard_normal(2)
    state2 = jax.tree_util.tree_map(lambda x: jnp.asarray(rng.standard_normal(x.shape)), state)
    comb = jax.tree_util.tree_map(lambda x, y: a1 * x + a2 * y, state, state2)
    lhs = eq.implicit_terms(comb)
    r1, r2 = eq.implicit_terms(state), eq.implicit_terms(state2)
    for f in ('divergence', 'temperature_variation', 'log_surface_pressure'):
      ctx.expect(dinoutil.relerr(getattr(lhs, f), a1 * getattr(r1, f) + a2 * getattr(r2, f)) < 1e-10,
                 'linearity', f'implicit_terms is not linear in {f}', base)

  ctx.obligation('numpy.linalg.inv left-inverse contract on every captured matrix (|inv(M)·M - I| <= 1e-9 + 1e-12·cond(M))',
                 'external-contract', inv_contract_worst <= 1.0, f'worst residual / bound = {inv_contract_worst:.3e}')

  # ---------------- shallow water
  nsw = ctx.n(40, 400)
  grid = sh.Grid.with_wavenumbers(4)
  from dinosaur import scales
  for si in range(nsw):
    layers = int(rng.integers(1, 5))
    dens = np.sort(rng.uniform(0.5, 2.0, layers))
    phi = rng.uniform(0.1, 50, layers)
    eta = float(rng.choice([-1, 1]) * 10 ** rng.uniform(-3, 3))
    coords = cs.CoordinateSystem(horizontal=grid, vertical=sc.SigmaCoordinates.equidistant(layers))
    specs = sw.ShallowWaterSpecs(densities=dens, radius=1.0, angular_velocity=0.5, gravity_acceleration=1.0,
                                 scale=scales.DEFAULT_SCALE)
    eq = sw.ShallowWaterEquations(coords, specs, None, phi)
    shape = (layers,) + grid.modal_shape
    st = sw.State(jnp.asarray(rng.standard_normal(shape)), jnp.asarray(rng.standard_normal(shape)),
                  jnp.asarray(rng.standard_normal(shape)))
    inp = dict(layers=layers, phi=phi.tolist(), eta=eta)
    ctx.case(('sw', phi.tobytes(), eta), nontrivial=True)
    ctx.dist[f'sw-layers={layers}'] += 1
    it = eq.implicit_terms(st)
    iv = eq.implicit_inverse(st, eta)
    lam_all = grid.laplacian_eigenvalues
    for (m, l) in [(0, 0), (1, 1), (4, 3), (2, 4)]:
      k = int(rng.integers(0, layers))
      d = float(np.asarray(st.divergence)[k, m, l]); p = float(np.asarray(st.potential)[k, m, l])
      add(f'implicit F swterms {fbits(lam_all[l])} {fbits(phi[k])} {fbits(d)} {fbits(p)}', 'ShallowWater.implicit_terms',
          dict(inp, m=m, l=l, k=k), [float(np.asarray(it.divergence)[k, m, l]), float(np.asarray(it.potential)[k, m, l])])
      add(f'implicit F swinv {fbits(eta)} {fbits(lam_all[l])} {fbits(phi[k])} {fbits(d)} {fbits(p)}',
          'ShallowWater.implicit_inverse', dict(inp, m=m, l=l, k=k),
          [float(np.asarray(iv.divergence)[k, m, l]), float(np.asarray(iv.potential)[k, m, l])])
    rhs = jax.tree_util.tree_map(lambda x, y: x - eta * y, st, it)
    back = eq.implicit_inverse(rhs, eta)
    err = max(dinoutil.relerr(getattr(back, f), getattr(st, f)) for f in ('vorticity', 'divergence', 'potential'))
    ctx.expect(err < 1e-9, 'sw-resolvent', f'shallow-water implicit_inverse(x - eta L x) != x: {err:.3e}', inp)

  outs = ctx.model(lines)
  col_worst = {}
  op_count = {}
  for (op, inp, impl, kind), o in zip(checks, outs):
    op_count[op] = op_count.get(op, 0) + 1
    if o in ('bad-op', 'value-error'):
      ctx.corr_mismatch(op, inp, 'impl ok', o, 'model rejected the operation')
      continue
    if kind == 'mat':
      a_, b_ = np.asarray(impl, dtype=float), np.asarray(unfmat(o), dtype=float)
      if a_.shape == b_.shape and np.isfinite(a_).all() and np.isfinite(b_).all() and np.abs(a_).max() > 0:
        col_worst[op] = max(col_worst.get(op, 0.0), float(np.abs(a_ - b_).max() / np.abs(a_).max()))
      ctx.corr_float(op, inp, a_, b_)
    elif kind == 'col':
      d, t, p = _parse_col(o)
      a_ = np.concatenate([impl[0], impl[1], [impl[2]]])
      b_ = np.concatenate([d, t, [p]])
      if a_.shape == b_.shape and np.isfinite(a_).all() and np.isfinite(b_).all() and np.abs(a_).max() > 0:
        col_worst[op] = max(col_worst.get(op, 0.0), float(np.abs(a_ - b_).max() / np.abs(a_).max()))
      ctx.corr_float(op, inp, a_, b_, rtol=TOL)
    else:
      ctx.corr_float(op, inp, impl, unfvec(o))

  ctx.notes.append('worst relative deviation model vs code per op, column outputs and the matrices handed to '
                   'numpy.linalg.inv by method=blockwise (tolerance %g; n = comparisons): ' % TOL +
                   ', '.join(f'{k}={v:.2e} (n={op_count.get(k, 0)})' for k, v in sorted(col_worst.items())))
  n_bm = {w: op_count.get(f'implicit_inverse[blockwise].inverted-matrix[{w}]', 0) for w in ('div', 'tp')}
  ctx.obligation('the matrices captured from numpy.linalg.inv under method=blockwise were compared with the model '
                 'matrices blockwiseDivMatrix / blockwiseTpMatrix (hypotheses of blockwise_is_resolvent)',
                 'correspondence-coverage', min(n_bm.values()) >= 1,
                 f'comparisons: div={n_bm["div"]}, tp={n_bm["tp"]}')
  if os.environ.get('C03_VERBOSE'):
    print('col_worst', col_worst)
  if not ctx.quick:
    ctx.leanchecker(['DinoProofs.Properties.C03'])
  return ctx.finish(RULE, 'numpy.linalg.inv is external: its left-inverse contract is checked on every matrix it was '
                    'given; theorems take that contract as hypothesis')
