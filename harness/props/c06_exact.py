"""Helpers of C06: an exact number type that survives the float literals of time_integration.py,
random IMEX problems (polynomial F, dense linear G, exact resolvent) and their line-protocol
encoding for the Lean model `Dino.Imex`."""
from __future__ import annotations

import itertools
from fractions import Fraction

import numpy as np

import common


class Q(Fraction):
  """Fraction whose arithmetic with Python floats is EXACT (the float is read as the dyadic rational
  it is), so that `0.5 * dt`, `1/3 * f` inside the integrators stay in exact arithmetic and the
  real code can be compared with the model run at `Rat` without any tolerance."""

  @staticmethod
  def _c(o):
    if isinstance(o, Fraction):
      return o
    if isinstance(o, (bool, np.bool_)):
      return None
    if isinstance(o, (int, np.integer)):
      return Fraction(int(o))
    if isinstance(o, (float, np.floating)):
      return Fraction(float(o))
    return None

  def _bin(self, o, f):
    c = Q._c(o)
    if c is None:
      return NotImplemented
    return Q(f(Fraction(self), c))

  def __add__(self, o): return self._bin(o, lambda a, b: a + b)
  def __radd__(self, o): return self._bin(o, lambda a, b: b + a)
  def __sub__(self, o): return self._bin(o, lambda a, b: a - b)
  def __rsub__(self, o): return self._bin(o, lambda a, b: b - a)
  def __mul__(self, o): return self._bin(o, lambda a, b: a * b)
  def __rmul__(self, o): return self._bin(o, lambda a, b: b * a)
  def __truediv__(self, o): return self._bin(o, lambda a, b: a / b)
  def __rtruediv__(self, o): return self._bin(o, lambda a, b: b / a)
  def __neg__(self): return Q(-Fraction(self))
  def __pos__(self): return self
  def __abs__(self): return Q(abs(Fraction(self)))

  def __pow__(self, n):
    if isinstance(n, (int, np.integer)) and n >= 0:
      return Q(Fraction(self) ** int(n))
    return NotImplemented


def qarr(xs):
  a = np.empty(len(xs), dtype=object)
  for i, x in enumerate(xs):
    a[i] = Q(x)
  return a


def solve_exact(M, b):
  """Gauss-Jordan over Fractions; raises ZeroDivisionError when singular."""
  n = len(b)
  M = [[Fraction(v) for v in row] + [Fraction(b[i])] for i, row in enumerate(M)]
  for c in range(n):
    p = next((r for r in range(c, n) if M[r][c] != 0), None)
    if p is None:
      raise ZeroDivisionError('singular')
    M[c], M[p] = M[p], M[c]
    piv = M[c][c]
    M[c] = [v / piv for v in M[c]]
    for r in range(n):
      if r != c and M[r][c] != 0:
        f = M[r][c]
        M[r] = [a - f * b_ for a, b_ in zip(M[r], M[c])]
  return [M[i][n] for i in range(n)]


# ----------------------------------------------------------------------------- problems


class Problem:
  """du/dt = F(u) + G u on a pytree state; F polynomial, G a dense matrix on the flattened state."""

  def __init__(self, poly, G, layout):
    self.poly = poly        # per component: list of (coef, exps)
    self.G = G              # n x n list of lists
    self.layout = layout    # ('dict'|'tuple'|'flat', [shapes])
    self.n = len(G)

  # ---- pytree <-> flat
  def pack(self, flat, exact):
    kind, shapes = self.layout
    leaves, i = [], 0
    for shp in shapes:
      m = int(np.prod(shp))
      if exact:
        a = np.empty(m, dtype=object)
        for k in range(m):
          a[k] = Q(flat[i + k])
        a = a.reshape(shp)
      else:
        import jax.numpy as jnp
        a = jnp.asarray(np.array([float(v) for v in flat[i:i + m]]).reshape(shp))
      leaves.append(a)
      i += m
    if kind == 'flat':
      return leaves[0]
    if kind == 'tuple':
      return tuple(leaves)
    return {f'k{j}': l for j, l in enumerate(leaves)}

  def unpack(self, tree):
    kind, _ = self.layout
    leaves = [tree] if kind == 'flat' else (list(tree) if kind == 'tuple' else [tree[k] for k in sorted(tree)])
    out = []
    for l in leaves:
      out.extend(np.asarray(l).ravel().tolist())
    return out

  # ---- right-hand sides on flat lists
  def F_flat(self, u):
    out = []
    for comp in self.poly:
      acc = 0
      for c, ex in comp:
        t = c
        for x, e in zip(u, ex):
          for _ in range(e):
            t = t * x
        acc = acc + t
      out.append(acc)
    return out

  def G_flat(self, u):
    return [sum((self.G[i][j] * u[j] for j in range(self.n)), 0) for i in range(self.n)]

  def Ginv_flat(self, x, eta, exact):
    n = self.n
    if exact:
      M = [[(1 if i == j else 0) - Fraction(eta) * Fraction(self.G[i][j]) for j in range(n)] for i in range(n)]
      return solve_exact(M, [Fraction(v) for v in x])
    M = np.eye(n) - float(eta) * np.array([[float(v) for v in r] for r in self.G])
    return np.linalg.solve(M, np.array([float(v) for v in x])).tolist()

  def equation(self, ti, exact, explicit_only=False, implicit_only=False):
    def F(s):
      u = self.unpack(s)
      r = [0 * v for v in u] if implicit_only else self.F_flat(u)
      return self.pack(r, exact)

    def G(s):
      u = self.unpack(s)
      r = [0 * v for v in u] if explicit_only else self.G_flat(u)
      return self.pack(r, exact)

    def Ginv(s, eta):
      u = self.unpack(s)
      return self.pack(u if explicit_only else self.Ginv_flat(u, eta, exact), exact)

    return ti.ImplicitExplicitODE.from_functions(F, G, Ginv)

  # ---- encoding
  def enc_poly(self, num):
    comps = []
    for comp in self.poly:
      comps.append('+'.join(f'{num(c)}*{".".join(str(e) for e in ex)}' for c, ex in comp) if comp else '_')
    return '|'.join(comps)

  def enc_G(self, num, zero=False):
    return ';'.join(','.join(num(0 if zero else v) for v in row) for row in self.G)

  def zero_poly(self):
    return '|'.join('_' for _ in self.poly)


LAYOUTS = {
    1: [('flat', [(1,)]), ('dict', [(1,)]), ('tuple', [(1,)])],
    2: [('flat', [(2,)]), ('dict', [(1,), (1,)]), ('tuple', [(2,)])],
    3: [('dict', [(1,), (2,)]), ('flat', [(3,)]), ('tuple', [(2,), (1,)])],
    4: [('dict', [(2, 2)]), ('tuple', [(1,), (3,)]), ('dict', [(2,), (1, 2)])],
}


def small_q(rng, den=(1, 2, 4, 8), lo=-8, hi=8, nonzero=False):
  while True:
    d = int(rng.choice(den))
    v = Fraction(int(rng.integers(lo, hi + 1)), d)
    if v != 0 or not nonzero:
      return v


def random_problem(rng, n=None, max_deg=2, stable=False):
  n = int(n or rng.integers(1, 5))
  layout = LAYOUTS[n][int(rng.integers(0, len(LAYOUTS[n])))]
  poly = []
  for _ in range(n):
    comp = []
    for _ in range(int(rng.integers(0, 4))):
      ex = [0] * n
      for _ in range(int(rng.integers(0, max_deg + 1))):
        ex[int(rng.integers(0, n))] += 1
      comp.append((small_q(rng, den=(1, 2, 4), lo=-4, hi=4, nonzero=True), tuple(ex)))
    poly.append(comp)
  G = [[small_q(rng, den=(1, 2, 4, 8), lo=-6, hi=6) for _ in range(n)] for _ in range(n)]
  if stable:
    # -(A A^T)/8 + skew: eigenvalues in the closed left half-plane
    A = np.array([[int(rng.integers(-3, 4)) for _ in range(n)] for _ in range(n)])
    S = np.array([[int(rng.integers(-3, 4)) for _ in range(n)] for _ in range(n)])
    M = -(A @ A.T) + (S - S.T)
    G = [[Fraction(int(M[i, j]), 8) for j in range(n)] for i in range(n)]
  return Problem(poly, G, layout)


def random_state(rng, n):
  return [small_q(rng, den=(1, 2, 3, 4), lo=-6, hi=6) for _ in range(n)]


def qnum(v):
  return common.qstr(Fraction(v))


def fnum(v):
  return common.fbits(float(v))
