"""C15 — spectral filters are mean-preserving, non-amplifying and step-size consistent.

Lean: DinoProofs/Properties/C15.lean over the model Dino/Filters.lean.
Tie: the model operations are run on the inputs given to the real functions of
dinosaur.filtering / dinosaur.time_integration (float64, both spherical-harmonics layouts, padded
and unpadded) and compared; `_preserves_shape` is compared with the model and with
numpy.broadcast_shapes on a stream of shape pairs (raising cases included).
Sentinel probes evaluate the property itself on the real code.
"""
import functools

import numpy as np

import common
from common import fvec, fbits, unfvec, unfmat, ivec
import dinoutil

TOL = 1e-11
RULE = ('grids: (longitude_wavenumbers, total_wavenumbers) from 2..21, RealSphericalHarmonics / '
        'FastSphericalHarmonics unpadded / padded to multiples of 4 and 8, radius 1, 2, 6.37e6 or random; '
        'attenuation, dt/tau in [0, 40], order 1..18, cutoff in [0, 0.9] incl. exact ties k == cutoff; '
        'array-valued attenuation/order/scale with 1..3 leading slices; pytrees with scalars, clocks, '
        'integer counters and leaves of shape (3,), (2,3), (L,), spectrum, levels x spectrum; shape pairs of '
        'rank 0..4 with dimensions 0,1,2,3,5,7; a case is non-trivial when the scaling is not identically 1 '
        'or the shape pair has rank >= 1 on both sides; distinct = distinct input hashes')

GRID_TABLE = [  # (longitude_wavenumbers, total_wavenumbers); correspondence uses the first 9 only
    (2, 2), (2, 3), (3, 4), (4, 5), (5, 6), (4, 7), (8, 9), (7, 9), (11, 12), (16, 17), (21, 22), (32, 33),
]


def _impls():
  from dinosaur import spherical_harmonic as sh
  return [
      ('real', sh.RealSphericalHarmonics),
      ('fast', sh.FastSphericalHarmonics),
      ('fast-pad4', functools.partial(sh.FastSphericalHarmonics, base_shape_multiple=4)),
      ('fast-pad8', functools.partial(sh.FastSphericalHarmonics, base_shape_multiple=8)),
  ]


def make_grid(rng, ci=None, small=False):
  from dinosaur import spherical_harmonic as sh
  impls = _impls()
  if ci is not None and ci < len(impls) * 3:
    name, impl = impls[ci % len(impls)]
    m, l = [(2, 2), (5, 6), (8, 9)][ci // len(impls)]
  else:
    name, impl = impls[int(rng.integers(len(impls)))]
    m, l = GRID_TABLE[int(rng.integers(9 if small else len(GRID_TABLE)))]
  radius = float(rng.choice([1.0, 2.0, 6.37e6, rng.uniform(0.3, 3.0)]))
  grid = sh.Grid(longitude_wavenumbers=m, total_wavenumbers=l, longitude_nodes=4 * m,
                 latitude_nodes=2 * m, spherical_harmonics_impl=impl, radius=radius)
  return grid, name, radius


def exp_params(rng, lmax):
  a = float(rng.choice([0.0, 16.0, rng.uniform(0, 40), rng.uniform(0, 2)]))
  p = int(rng.choice([1, 2, 3, 18, int(rng.integers(1, 19))]))
  # exact ties k == cutoff are drawn on purpose: l / lmax for an l on the axis
  c = float(rng.choice([0.0, 0.5, rng.uniform(0, 0.9), int(rng.integers(0, lmax)) / lmax]))
  return a, p, c


def flat(x):
  return np.asarray(x, dtype=float).ravel()


def run(ctx: common.Ctx):
  jax = common.setup_jax()
  import jax.numpy as jnp
  from dinosaur import filtering
  from dinosaur import time_integration as ti

  ctx.lean('DinoProofs.Properties.C15', 'C15.txt',
           extra_files=['DinoProofs/Lemmas/Filters.lean', 'Dino/Filters.lean', 'Dino/FiltersDrv.lean'])

  rng = ctx.rng
  lines, checks = [], []   # checks: (op, inp, impl_value, kind)

  def add(line, op, inp, impl, kind='vec'):
    lines.append(line)
    checks.append((op, inp, impl, kind))

  # ------------------------------------------------------------------ shape-pair stream
  dims = [0, 1, 2, 3, 5, 7]
  corner = [((), ()), ((), (1,)), ((1,), ()), ((3,), (7, 5)), ((2, 3), (7, 5)), ((7, 5), (7, 5)),
            ((4, 7, 5), (7, 5)), ((7, 5), (5,)), ((7, 5), (1,)), ((7, 5), (1, 5)), ((7, 1), (7, 5)),
            ((7, 5), (7, 1)), ((0,), (1,)), ((1,), (0,)), ((0,), (0,)), ((0,), (5,)), ((5,), (0,)),
            ((2, 3, 7, 5), (2, 1, 1, 5)), ((7, 5), (2, 1, 1, 5)), ((5,), (5,)), ((), (5,)),
            ((3, 7, 5), (3, 1, 1)), ((1, 1), (1,)), ((1,), (1, 1)), ((2, 0, 5), (5,)), ((2, 0, 5), (1, 5))]
  nshape = ctx.n(300, 3000)
  for si in range(nshape):
    if si < len(corner):
      t, s = corner[si]
    else:
      rank = int(rng.integers(0, 5))
      t = tuple(int(rng.choice(dims)) for _ in range(rank))
      mode = ['trailing', 'ones', 'mutate', 'longer', 'random'][si % 5]
      k = int(rng.integers(0, rank + 1))
      s = list(t[rank - k:])
      if mode == 'ones':
        s = [1 if rng.random() < 0.5 else d for d in s]
      elif mode == 'mutate' and s:
        j = int(rng.integers(len(s)))
        s[j] = int(rng.choice(dims))
      elif mode == 'longer':
        s = [int(rng.choice(dims))] + list(t)
      elif mode == 'random':
        s = [int(rng.choice(dims)) for _ in range(int(rng.integers(0, 4)))]
      s = tuple(s)
    try:
      b = tuple(int(v) for v in np.broadcast_shapes(t, s))
      bs = ivec(b)
    except ValueError:
      b, bs = None, 'value-error'
    with ctx.impl('preserves-shape-exception', dict(target=list(t), scaling=list(s)),
                  what='_preserves_shape raised'):
      got = bool(filtering._preserves_shape(np.zeros(t), np.zeros(s)))
      ctx.dist[f'shape:{"incompatible" if b is None else ("preserved" if got else "changed")}'] += 1
      ctx.case(('shape', t, s), nontrivial=len(t) >= 1 and len(s) >= 1)
      inp = dict(target=list(t), scaling=list(s))
      add(f'filters F bshape {ivec(t)} {ivec(s)}', 'numpy.broadcast_shapes', inp, bs, 'str')
      add(f'filters F pshape {ivec(t)} {ivec(s)}', 'filtering._preserves_shape', inp, got, 'bool')
      # the stated rule (T15.5), evaluated independently on the real function
      ctx.expect(got == (b is not None and b == t), 'preserves-shape-rule',
                 f'_preserves_shape({t},{s}) = {got}, broadcast = {b}', inp)
      # old code (before 90e14fe): the ValueError escapes
      add(f'filters F pshape_old {ivec(t)} {ivec(s)}', 'old _preserves_shape (witness)', inp,
          'value-error' if b is None else ('1' if b == t else '0'), 'str')

  # ------------------------------------------------------------------ generic broadcasting product
  nb = ctx.n(60, 600)
  for bi in range(nb):
    rank = int(rng.integers(1, 5))
    t = tuple(int(rng.choice([1, 2, 3, 4])) for _ in range(rank))
    k = int(rng.integers(0, rank + 1))
    s = tuple(1 if rng.random() < 0.4 else d for d in t[rank - k:])
    if bi % 6 == 5:  # incompatible or shape-changing scaling: the leaf must come back untouched
      s = tuple(int(rng.choice([2, 3, 5])) for _ in range(int(rng.integers(1, 4))))
    sc = np.asarray(rng.standard_normal(s))
    x = np.asarray(rng.standard_normal(t))
    inp = dict(scaling_shape=list(s), scaling=flat(sc).tolist(), leaf_shape=list(t), leaf=flat(x).tolist())
    with ctx.impl('filter-fn-exception', inp):
      out = filtering._make_filter_fn(sc)(x)
      ctx.case(('bmul', t, s, x.tobytes()), nontrivial=True, branch=f'bmul:rank{rank}->{len(s)}')
      add(f'filters F leaf {ivec(s)} {fvec(flat(sc))} {ivec(t)} {fvec(flat(x))}', '_make_filter_fn', inp,
          flat(out))

  # ------------------------------------------------------------------ filters on grids
  ncases = ctx.n(36, 360)
  for ci in range(ncases):
    grid, gname, radius = make_grid(rng, ci, small=True)
    ls = np.asarray(grid.modal_axes[1], dtype=float)
    M, L = grid.modal_shape
    lmax = float(ls.max())
    a, p, c = exp_params(rng, lmax)
    lss = fvec(ls)
    ctx.dist[f'layout={gname}'] += 1
    ctx.dist[f'L={L}'] += 1
    ctx.dist[f'padded={int(grid.modal_axes[1][-1] == 0 and L > 1)}'] += 1
    ginfo = dict(layout=gname, modal_shape=[M, L], total_wavenumbers=ls.tolist(), radius=radius)
    ctx.case(('grid', gname, M, L, radius, a, p, c), nontrivial=a > 0,
             sample=dict(ginfo, attenuation=a, order=p, cutoff=c))

    # mixed pytree: scalars, clocks, counters, unrelated shapes, (L,), spectrum, levels x spectrum
    tree = {
        'scalar': 1.5, 'clock': np.float64(rng.uniform(0, 10)), 'count': 7,
        'sim_time': jnp.asarray(rng.uniform(0, 10)),
        'v3': rng.standard_normal(3), 'm23': rng.standard_normal((2, 3)),
        'Lvec': rng.standard_normal(L), 'spec': rng.standard_normal((M, L)),
        'lev': rng.standard_normal((3, M, L)), 'unit': np.ones((M, L)),
    }
    keys = sorted(tree)

    def add_tree(opname, mk_line, out_tree, inp):
      for k in keys:
        leaf = np.asarray(tree[k], dtype=float)
        add(mk_line(ivec(leaf.shape), fvec(leaf.ravel())), f'{opname}[{k}]',
            dict(inp, leaf=k, leaf_shape=list(leaf.shape)), flat(out_tree[k]))

    # exponential_filter
    inp = dict(ginfo, attenuation=a, order=p, cutoff=c)
    with ctx.impl('exponential-filter-exception', inp):
      f = filtering.exponential_filter(grid, a, p, c)
      add(f'filters F expscal {fbits(a)} {p} {fbits(c)} {lss}', 'exponential_filter scaling', inp,
          flat(f(np.ones(L))))
      add_tree('exponential_filter', lambda sh, xs: f'filters F expfilter {fbits(a)} {p} {fbits(c)} {lss} {sh} {xs}',
               f(tree), inp)

    # horizontal_diffusion_filter
    order = int(rng.choice([1, 1, 2, 3, 4]))
    eig = np.asarray(grid.laplacian_eigenvalues, dtype=float)
    scale = float(rng.choice([0.0, 1.0, 10 ** rng.uniform(-3, 1)]) / np.abs(eig).max() ** order)
    inp = dict(ginfo, scale=scale, order=order)
    add(f'filters F eigs {fbits(radius)} {lss}', 'Grid.laplacian_eigenvalues', ginfo, eig)
    with ctx.impl('diffusion-filter-exception', inp):
      f = filtering.horizontal_diffusion_filter(grid, scale, order)
      add_tree('horizontal_diffusion_filter',
               lambda sh, xs: f'filters F difffilter {fbits(scale)} {order} {fbits(radius)} {lss} {sh} {xs}',
               f(tree), inp)

    # array-valued attenuation / order / scale
    T = int(rng.choice([1, 2, 3]))
    mid = [(M,), (2, M), (3, 1, M)][ci % 3]
    as_ = rng.uniform(0, 20, T)
    ps_ = rng.integers(1, 7, T)
    xa = rng.standard_normal((T,) + mid + (L,))
    exp_dims = tuple(range(1, len(mid) + 2))
    a_arr = np.expand_dims(as_, exp_dims)
    p_arr = np.expand_dims(ps_, exp_dims) if ci % 2 == 0 else int(ps_[0])
    ps_eff = ps_ if ci % 2 == 0 else np.full(T, int(ps_[0]))
    inp = dict(ginfo, attenuation=as_.tolist(), order=ps_eff.tolist(), cutoff=c, leaf_shape=list(xa.shape))
    ctx.dist[f'array-slices={T}'] += 1
    with ctx.impl('array-exponential-filter-exception', inp):
      f = filtering.exponential_filter(grid, a_arr, p_arr, c)
      for leaf in (xa, tree['spec'], tree['v3'], 2.5):
        leaf = np.asarray(leaf, dtype=float)
        add(f'filters F expfilter_arr {fvec(as_)} {ivec(ps_eff)} {fbits(c)} {lss} {len(mid)} '
            f'{ivec(leaf.shape)} {fvec(leaf.ravel())}', 'exponential_filter[array]',
            dict(inp, leaf_shape=list(leaf.shape)), flat(f(leaf)))
      out = np.asarray(f(xa))
      for t in range(T):   # probe: slice-wise = scalar filter
        ref = np.asarray(filtering.exponential_filter(grid, float(as_[t]), int(ps_eff[t]), c)(xa[t]))
        ctx.expect(dinoutil.relerr(out[t], ref) < TOL, 'array-slicewise-exponential',
                   f'array-valued exponential filter differs from the scalar filter on slice {t}', inp)
    scs = scale * rng.uniform(0.5, 2.0, T)
    inp = dict(ginfo, scale=scs.tolist(), order=order, leaf_shape=list(xa.shape))
    with ctx.impl('array-diffusion-filter-exception', inp):
      f = filtering.horizontal_diffusion_filter(grid, np.expand_dims(scs, exp_dims), order)
      for leaf in (xa, tree['spec'], 2.5):
        leaf = np.asarray(leaf, dtype=float)
        add(f'filters F difffilter_arr {fvec(scs)} {order} {fbits(radius)} {lss} {len(mid)} '
            f'{ivec(leaf.shape)} {fvec(leaf.ravel())}', 'horizontal_diffusion_filter[array]',
            dict(inp, leaf_shape=list(leaf.shape)), flat(f(leaf)))
      out = np.asarray(f(xa))
      for t in range(T):
        ref = np.asarray(filtering.horizontal_diffusion_filter(grid, float(scs[t]), order)(xa[t]))
        ctx.expect(dinoutil.relerr(out[t], ref) < TOL, 'array-slicewise-diffusion',
                   f'array-valued diffusion filter differs from the scalar filter on slice {t}', inp)

    # step filters and adapters
    dt = float(rng.choice([1.0, 0.05, rng.uniform(0.01, 2.0)]))
    tau = float(dt / max(a, 1e-3)) if rng.random() < 0.5 else float(rng.uniform(0.05, 5.0))
    u = rng.standard_normal((M, L))
    un = rng.standard_normal((M, L))
    u0, u1, n0, n1 = (rng.standard_normal((2, M, L)) for _ in range(4))
    sh2, sh3 = ivec((M, L)), ivec((2, M, L))
    inp = dict(ginfo, dt=dt, tau=tau, order=p, cutoff=c)
    with ctx.impl('exponential-step-filter-exception', inp):
      out = ti.exponential_step_filter(grid, dt, tau, p, c)(u, un)
      add(f'filters F expstepf {fbits(dt)} {fbits(tau)} {p} {fbits(c)} {lss} {sh2} {fvec(u.ravel())} '
          f'{fvec(un.ravel())}', 'exponential_step_filter', inp, flat(out))
      out = ti.exponential_leapfrog_step_filter(grid, dt, tau, p, c)((u0, u1), (n0, n1))
      add(f'filters F explff {fbits(dt)} {fbits(tau)} {p} {fbits(c)} {lss} {sh3} {fvec(u0.ravel())} '
          f'{fvec(u1.ravel())} {fvec(n0.ravel())} {fvec(n1.ravel())}', 'exponential_leapfrog_step_filter',
          inp, np.stack([flat(out[0]), flat(out[1])]), 'mat')
    inp = dict(ginfo, dt=dt, tau=tau, order=order)
    with ctx.impl('diffusion-step-filter-exception', inp):
      out = ti.horizontal_diffusion_step_filter(grid, dt, tau, order)(u, un)
      add(f'filters F diffstepf {fbits(dt)} {fbits(tau)} {order} {fbits(radius)} {lss} {sh2} '
          f'{fvec(u.ravel())} {fvec(un.ravel())}', 'horizontal_diffusion_step_filter', inp, flat(out))
      add(f'filters F diffstep {fbits(dt)} {fbits(tau)} {order} {fbits(radius)} {lss}',
          'horizontal_diffusion_step_filter scaling', inp,
          flat(ti.horizontal_diffusion_step_filter(grid, dt, tau, order)(None, np.ones(L))))
    # array-valued time scales (per level / per sample): every slice must be the scalar step filter
    taus = tau * rng.uniform(0.3, 3.0, T) * np.array([1.0, 7.0, 0.05])[:T]
    tau_arr = np.expand_dims(taus, exp_dims)
    inp = dict(ginfo, dt=dt, tau=taus.tolist(), order=order, cutoff=c, leaf_shape=list(xa.shape))
    ctx.dist['array-tau-step-filters'] += 1
    with ctx.impl('array-tau-step-filter-exception', inp):
      outd = np.asarray(ti.horizontal_diffusion_step_filter(grid, dt, tau_arr, order)(None, xa))
      oute = np.asarray(ti.exponential_step_filter(grid, dt, tau_arr, p, c)(None, xa))
      for t in range(T):
        refd = np.asarray(ti.horizontal_diffusion_step_filter(grid, dt, float(taus[t]), order)(None, xa[t]))
        refe = np.asarray(ti.exponential_step_filter(grid, dt, float(taus[t]), p, c)(None, xa[t]))
        ctx.expect(dinoutil.relerr(outd[t], refd) < TOL, 'array-slicewise-diffusion-step',
                   f'horizontal_diffusion_step_filter with array-valued tau differs from the scalar-tau '
                   f'filter on slice {t} (tau={taus[t]:.4g})', inp)
        ctx.expect(dinoutil.relerr(oute[t], refe) < TOL, 'array-slicewise-exponential-step',
                   f'exponential_step_filter with array-valued tau differs from the scalar-tau filter on '
                   f'slice {t} (tau={taus[t]:.4g})', inp)
        add(f'filters F diffstepf {fbits(dt)} {fbits(float(taus[t]))} {order} {fbits(radius)} {lss} '
            f'{ivec(xa[t].shape)} {fvec(xa[t].ravel())} {fvec(xa[t].ravel())}',
            'horizontal_diffusion_step_filter[array tau, slice]', dict(inp, slice=t), flat(outd[t]))
    if ls[-1] == 0 and L > 1:   # padded: the old normalisation divides by zero (negative witness)
      add(f'filters F diffstep_old {fbits(dt)} {fbits(tau)} {order} {fbits(radius)} {lss}',
          'old horizontal_diffusion_step_filter (witness)', inp, None, 'old-nan')
    else:                       # unpadded: old and current normalisation coincide
      with ctx.impl('diffusion-step-filter-exception', inp):
        add(f'filters F diffstep_old {fbits(dt)} {fbits(tau)} {order} {fbits(radius)} {lss}',
            'horizontal_diffusion_step_filter scaling (old normalisation, unpadded)', inp,
            flat(ti.horizontal_diffusion_step_filter(grid, dt, tau, order)(None, np.ones(L))))

    # Robert-Asselin
    r = float(rng.choice([0.0, 0.5, 0.01, 0.05, rng.uniform(0, 0.5), rng.uniform(0, 1)]))
    pcf = rng.standard_normal((4, M * L))
    inp = dict(r=r, previous=pcf[0].tolist(), current=pcf[1].tolist(), future=pcf[3].tolist())
    with ctx.impl('robert-asselin-exception', inp):
      out = ti.robert_asselin_leapfrog_filter(r)((pcf[0], pcf[1]), (pcf[2], pcf[3]))
      add(f'filters F ra {fbits(r)} {fvec(pcf[0])} {fvec(pcf[1])} {fvec(pcf[2])} {fvec(pcf[3])}',
          'robert_asselin_leapfrog_filter', inp, np.stack([flat(out[0]), flat(out[1])]), 'mat')

  # old _make_filter_fn on an incompatible leaf (witness of the defect fixed by 90e14fe)
  add(f'filters F leaf_old 7,5 {fvec(np.ones(35))} 3 {fvec(np.ones(3))}', 'old _make_filter_fn (witness)',
      dict(scaling_shape=[7, 5], leaf_shape=[3]), 'value-error', 'str')
  add(f'filters F leaf_old 7,5 {fvec(np.ones(35))} 4,7,5 {fvec(np.ones(140))}', 'old _make_filter_fn (witness)',
      dict(scaling_shape=[7, 5], leaf_shape=[4, 7, 5]), np.ones(140))

  outs = ctx.model(lines)
  old_nan = []
  for (op, inp, impl, kind), o in zip(checks, outs):
    if o == 'bad-op' or (o == 'value-error' and kind != 'str'):
      ctx.corr_mismatch(op, inp, impl, o, 'model rejected the operation')
      continue
    if kind == 'bool':
      ctx.corr_exact(op, inp, bool(impl), o == '1')
    elif kind == 'str':
      ctx.corr_exact(op, inp, impl, o)
    elif kind == 'mat':
      ctx.corr_float(op, inp, np.asarray(impl), np.asarray(unfmat(o)))
    elif kind == 'old-nan':
      old_nan.append(not np.isfinite(unfvec(o)).all())
    else:
      ctx.corr_float(op, inp, impl, unfvec(o))

  ctx.obligation('model of the normalisation before 3d38ca0 (eigenvalues[-1]) is non-finite on every padded layout drawn',
                 'witness', all(old_nan), detail=f'{sum(old_nan)}/{len(old_nan)} padded layouts')

  # ------------------------------------------------------------------ probes on the real code
  nprobe = ctx.n(40, 400)
  for pi in range(nprobe):
    grid, gname, radius = make_grid(rng, pi)
    ls = np.asarray(grid.modal_axes[1], dtype=float)
    M, L = grid.modal_shape
    lmax = float(ls.max())
    nres = int(ls.argmax()) + 1          # resolved wavenumbers 0..lmax, the rest is padding
    a, p, c = exp_params(rng, lmax)
    order = int(rng.choice([1, 2, 3]))
    dt = float(rng.uniform(0.01, 2.0))
    tau = float(rng.uniform(0.05, 5.0))
    eig = np.asarray(grid.laplacian_eigenvalues, dtype=float)
    scale = float(10 ** rng.uniform(-3, 1) / np.abs(eig).max() ** order)
    ginfo = dict(layout=gname, modal_shape=[M, L], total_wavenumbers=ls.tolist(), radius=radius)
    ctx.case(('probe', gname, M, L, radius, a, p, c, order, dt, tau, scale), nontrivial=True)
    filters = {
        'exponential_filter': (lambda: filtering.exponential_filter(grid, a, p, c),
                               dict(ginfo, attenuation=a, order=p, cutoff=c)),
        'horizontal_diffusion_filter': (lambda: filtering.horizontal_diffusion_filter(grid, scale, order),
                                        dict(ginfo, scale=scale, order=order)),
        'exponential_step_filter': (lambda: functools.partial(ti.exponential_step_filter(grid, dt, tau, p, c), None),
                                    dict(ginfo, dt=dt, tau=tau, order=p, cutoff=c)),
        'horizontal_diffusion_step_filter': (
            lambda: functools.partial(ti.horizontal_diffusion_step_filter(grid, dt, tau, order), None),
            dict(ginfo, dt=dt, tau=tau, order=order)),
    }
    for fname, (mk, inp) in filters.items():
      with ctx.impl(f'{fname}-exception', inp):
        f = mk()
        # unit spectrum: the factors themselves
        s2 = np.asarray(f(np.ones((M, L))))
        s1 = s2[0]
        ctx.expect(np.isfinite(s2).all(), f'finite:{fname}', f'{fname}: non-finite factors on layout {gname}', inp)
        if not np.isfinite(s2).all():
          continue
        ctx.expect((s2 == s1[None, :]).all(), f'depends-on-l-only:{fname}',
                   f'{fname}: factor differs between zonal indices', inp)
        ctx.expect((s1 > 0).all() and (s1 <= 1).all(), f'factor-range:{fname}',
                   f'{fname}: factor outside (0,1]: {s1.tolist()}', inp)
        ctx.expect((s1[ls == 0] == 1).all(), f'mean-preserved:{fname}',
                   f'{fname}: factor at l = 0 (mean / padding) is not 1: {s1.tolist()}', inp)
        res = s1[:nres]
        ctx.expect((res[1:] <= res[:-1] * (1 + 1e-12)).all(), f'antitone:{fname}',
                   f'{fname}: factor increases with l: {res.tolist()}', inp)
        # mixed pytree: non-spectral leaves untouched, structure kept
        clock = np.float64(3.25)
        v3, m23 = rng.standard_normal(3), rng.standard_normal((2, 3))
        spec, lev = rng.standard_normal((M, L)), rng.standard_normal((3, M, L))
        tree = dict(a=1.5, clock=clock, n=7, t=jnp.asarray(2.0), v3=v3, m23=m23,
                    nested=dict(spec=spec, lev=lev, Lvec=np.ones(L)), tup=(spec, 4.0))
        out = f(tree)
        same_struct = jax.tree_util.tree_structure(out) == jax.tree_util.tree_structure(tree)
        ctx.expect(same_struct, f'tree-structure:{fname}', f'{fname}: tree structure changed', inp)
        if same_struct:
          ok = (out['a'] == 1.5 and out['clock'] == clock and out['n'] == 7 and float(out['t']) == 2.0
                and np.shape(out['a']) == () and np.shape(out['t']) == ()
                and np.array_equal(out['v3'], v3) and np.array_equal(out['m23'], m23) and out['tup'][1] == 4.0)
          # (L == 3 makes v3/m23 spectral-shaped by design; those grids are excluded from this check)
          if L != 3:
            ctx.expect(ok, f'untouched-leaf:{fname}', f'{fname}: a scalar / clock / unrelated leaf was modified', inp)
          ctx.expect(dinoutil.relerr(out['nested']['spec'], s2 * spec) < TOL
                     and dinoutil.relerr(out['nested']['lev'], s2[None] * lev) < TOL
                     and dinoutil.relerr(out['nested']['Lvec'], s1) < TOL
                     and dinoutil.relerr(out['tup'][0], s2 * spec) < TOL,
                     f'spectral-leaf:{fname}', f'{fname}: spectral leaves are not multiplied by the l-factors', inp)
    # exponential filter: untouched at or below the cutoff, exp(-a) at the top
    with ctx.impl('exponential_filter-exception', dict(ginfo, attenuation=a, order=p, cutoff=c)):
      s1 = np.asarray(filtering.exponential_filter(grid, a, p, c)(np.ones(L)))
      k = ls / lmax
      ctx.expect((s1[k <= c] == 1).all(), 'below-cutoff', 'modes at or below the cutoff are modified',
                 dict(ginfo, attenuation=a, order=p, cutoff=c))
      ctx.expect(abs(s1[nres - 1] - np.exp(-a)) <= 1e-12, 'top-mode-exponential',
                 f'top mode factor {s1[nres - 1]} != exp(-a)', dict(ginfo, attenuation=a, order=p, cutoff=c))
    # documented formulas (independent numpy oracle)
    k = ls / lmax
    lap = ls * (ls + 1)
    oracles = {
        'exponential_filter': np.where(k > c, np.exp(-a * ((k - c) / (1 - c)) ** (2 * p)), 1.0),
        'horizontal_diffusion_filter': np.exp(-scale * (lap / radius ** 2) ** order),
        'exponential_step_filter': np.where(k > c, np.exp(-(dt / tau) * ((k - c) / (1 - c)) ** (2 * p)), 1.0),
        'horizontal_diffusion_step_filter': np.exp(-(dt / tau) * (lap / (lmax * (lmax + 1))) ** order),
    }
    for fname, (mk, inp) in filters.items():
      with ctx.impl(f'{fname}-exception', inp):
        s1 = np.asarray(mk()(np.ones(L)))
        ctx.expect(np.isfinite(s1).all() and np.abs(s1 - oracles[fname]).max() <= 1e-11, f'formula:{fname}',
                   f'{fname}: factors {s1.tolist()} differ from the documented formula {oracles[fname].tolist()}', inp)
    # step-size consistency: two half steps = one full step; n steps of dt/n too
    x = rng.standard_normal((2, M, L))
    for fname, mk in (
        ('exponential_step_filter', lambda h: ti.exponential_step_filter(grid, h, tau, p, c)),
        ('horizontal_diffusion_step_filter', lambda h: ti.horizontal_diffusion_step_filter(grid, h, tau, order))):
      inp = dict(ginfo, dt=dt, tau=tau, order=p if fname.startswith('exp') else order, cutoff=c)
      with ctx.impl(f'{fname}-exception', inp):
        full = np.asarray(mk(dt)(None, x))
        half = mk(dt / 2)
        twice = np.asarray(half(None, half(None, x)))
        ctx.expect(np.isfinite(full).all() and dinoutil.relerr(twice, full) < 1e-10, f'half-steps:{fname}',
                   f'{fname}: two half steps differ from one full step', inp)
        third = mk(dt / 4)
        y = x
        for _ in range(4):
          y = third(None, y)
        ctx.expect(dinoutil.relerr(np.asarray(y), full) < 1e-10, f'quarter-steps:{fname}',
                   f'{fname}: four quarter steps differ from one full step', inp)
    with ctx.impl('exponential_leapfrog_step_filter-exception', dict(ginfo, dt=dt, tau=tau, order=p, cutoff=c)):
      inp = dict(ginfo, dt=dt, tau=tau, order=p, cutoff=c)
      cur, fut = rng.standard_normal((M, L)), rng.standard_normal((M, L))
      lf = ti.exponential_leapfrog_step_filter(grid, dt, tau, p, c)
      o = lf(('junk', None), (cur, fut))
      rk = np.asarray(ti.exponential_step_filter(grid, dt, tau, p, c)('junk', fut))
      ctx.expect(isinstance(o, tuple) and len(o) == 2 and o[0] is cur and dinoutil.relerr(o[1], rk) < TOL,
                 'leapfrog-adapter', 'leapfrog adapter does not pass the current slice through / filter the future slice',
                 inp)
      h = ti.exponential_leapfrog_step_filter(grid, dt / 2, tau, p, c)
      o2 = h(None, h(None, (cur, fut)))
      ctx.expect(o2[0] is cur and dinoutil.relerr(o2[1], o[1]) < 1e-10, 'half-steps:exponential_leapfrog_step_filter',
                 'leapfrog: two half steps differ from one full step', inp)
    # diffusion step filter: the top mode decays by exp(-dt/tau), also on padded layouts
    with ctx.impl('horizontal_diffusion_step_filter-exception', dict(ginfo, dt=dt, tau=tau, order=order)):
      s1 = np.asarray(ti.horizontal_diffusion_step_filter(grid, dt, tau, order)(None, np.ones(L)))
      ctx.expect(np.isfinite(s1).all() and abs(s1[nres - 1] - np.exp(-dt / tau)) <= 1e-12, 'top-mode-diffusion',
                 f'top mode factor {s1[nres - 1]} != exp(-dt/tau) = {np.exp(-dt / tau)}',
                 dict(ginfo, dt=dt, tau=tau, order=order))
    # adapters
    marker = rng.standard_normal((M, L))
    with ctx.impl('runge_kutta_step_filter-exception', ginfo):
      rkf = ti.runge_kutta_step_filter(lambda s: ('seen', s))
      o = rkf('ignored', marker)
      ctx.expect(o[0] == 'seen' and o[1] is marker, 'rk-adapter', 'runge_kutta_step_filter does not pass u_next', ginfo)
      lff = ti.leapfrog_step_filter(lambda s: ('seen', s))
      o = lff('ignored', ('cur', marker))
      ctx.expect(o[0] == 'cur' and o[1][0] == 'seen' and o[1][1] is marker, 'leapfrog-adapter',
                 'leapfrog_step_filter does not route (current, future)', ginfo)
    # Robert-Asselin laws
    r = float(rng.choice([0.0, 0.5, 0.01, 0.05, rng.uniform(0, 0.5)]))
    prev, cur, fut = (dict(x=rng.standard_normal((M, L)), s=float(rng.standard_normal())) for _ in range(3))
    inp = dict(r=r, shape=[M, L])
    with ctx.impl('robert-asselin-exception', inp):
      ra = ti.robert_asselin_leapfrog_filter(r)
      fc, ff = ra((prev, cur), ('discarded', fut))
      ctx.expect(ff is fut, 'ra-newest', 'Robert-Asselin changed the newest level', inp)
      lo = np.minimum(np.minimum(prev['x'], cur['x']), fut['x'])
      hi = np.maximum(np.maximum(prev['x'], cur['x']), fut['x'])
      ctx.expect((np.asarray(fc['x']) >= lo - 1e-12).all() and (np.asarray(fc['x']) <= hi + 1e-12).all()
                 and min(prev['s'], cur['s'], fut['s']) - 1e-12 <= fc['s'] <= max(prev['s'], cur['s'], fut['s']) + 1e-12,
                 'ra-convex', 'Robert-Asselin output outside the range of the three levels', inp)
      ref = (1 - 2 * r) * cur['x'] + r * (prev['x'] + fut['x'])
      ctx.expect(dinoutil.relerr(fc['x'], ref) < TOL, 'ra-formula', 'Robert-Asselin differs from (1-2r)c + r(p+f)', inp)
      d = dict(x=rng.standard_normal((M, L)), s=float(rng.standard_normal()))
      rr = float(rng.uniform(0, 1))   # linear sequences are fixed for every strength
      lin_prev = jax.tree_util.tree_map(lambda c_, d_: c_ - d_, cur, d)
      lin_fut = jax.tree_util.tree_map(lambda c_, d_: c_ + d_, cur, d)
      fc, ff = ti.robert_asselin_leapfrog_filter(rr)((lin_prev, cur), (cur, lin_fut))
      scale_ = max(1.0, np.abs(cur['x']).max() + np.abs(d['x']).max())
      ctx.expect(np.abs(np.asarray(fc['x']) - cur['x']).max() <= 1e-12 * scale_
                 and abs(fc['s'] - cur['s']) <= 1e-12 * (1 + abs(cur['s']) + abs(d['s'])) and ff is lin_fut,
                 'ra-linear-fixed', 'a sequence linear in time is not a fixed point of Robert-Asselin',
                 dict(r=rr, shape=[M, L]))

  # ------------------------------------------------------------------ the real code at the excluded points
  # (side conditions of the theorems; recorded, never an alarm)
  from dinosaur import spherical_harmonic as sh
  excluded = {}

  def at_excluded(name, fn):
    with np.errstate(all='ignore'):
      try:
        excluded[name] = flat(fn()).tolist()
      except Exception as e:  # pylint: disable=broad-except
        excluded[name] = f'{type(e).__name__}: {e}'

  g1 = sh.Grid(longitude_wavenumbers=1, total_wavenumbers=1, longitude_nodes=4, latitude_nodes=2)
  g4 = sh.Grid(longitude_wavenumbers=3, total_wavenumbers=4, longitude_nodes=8, latitude_nodes=4)
  at_excluded('lmax=0 (single total wavenumber)', lambda: filtering.exponential_filter(g1)(np.ones(g1.modal_shape)))
  at_excluded('cutoff=1', lambda: filtering.exponential_filter(g4, 2.0, 1, 1.0)(np.ones(4)))
  at_excluded('order=0 diffusion (mean not preserved)', lambda: filtering.horizontal_diffusion_filter(g4, 0.5, 0)(np.ones(4)))
  at_excluded('cutoff<0 (mean not preserved)', lambda: filtering.exponential_filter(g4, 2.0, 1, -0.5)(np.ones(4)))
  at_excluded('tau=0 step filter', lambda: ti.exponential_step_filter(g4, 1.0, 0.0, 1, 0.0)(None, np.ones(4)))
  at_excluded('attenuation=800 (exp underflow: factor 0)', lambda: filtering.exponential_filter(g4, 800.0, 1, 0.0)(np.ones(4)))
  at_excluded('non-integer 2*order with cutoff>0', lambda: filtering.exponential_filter(
      g4, 2.0, np.array([1.25]), 0.5)(np.ones(4)))
  ctx.notes.append(dict(excluded_points_on_real_code=excluded))

  # DOMAIN STATEMENTS (review C, C15 finding 1): the two excluded points at which the real code does NOT have the
  # property "factor 1 for the global mean".  Neither is an admissible parameter: `cutoff` is documented as "a
  # proportion of maximum total wavenumber" (so 0 <= cutoff < 1), and a "horizontal diffusion step" of order p applies
  # exp(-scale * (-lap)^p) with p >= 1 (p = 0 is a uniform damping exp(-scale), since 0 ** 0 = 1, not a diffusion);
  # the code validates neither.  The measured factor of the mean (l = 0) is recorded on every run; the theorems
  # expFactor_mean (0 <= c) and diffFactor_mean (1 <= order) carry the corresponding hypotheses.
  def mean_factor(fn):
    with np.errstate(all='ignore'):
      try:
        return float(flat(fn())[0])
      except Exception as e:  # pylint: disable=broad-except
        return f'{type(e).__name__}: {e}'
  dom = [
      dict(point='horizontal_diffusion_filter(order=0, scale=0.5)', hypothesis='1 <= order (diffFactor_mean)',
           admissible=False, reason='order 0 is a uniform damping exp(-scale) (0**0 = 1), not a diffusion; not validated '
           'by the code', measured_mean_factor=mean_factor(
               lambda: filtering.horizontal_diffusion_filter(g4, 0.5, 0)(np.ones(4))), property_holds=False),
      dict(point='exponential_filter(cutoff=-0.5, attenuation=2, order=1)', hypothesis='0 <= cutoff (expFactor_mean)',
           admissible=False, reason='cutoff is documented as a proportion of the maximum total wavenumber; with '
           'cutoff < 0 the mask (k > cutoff) is true at k = 0; not validated by the code',
           measured_mean_factor=mean_factor(
               lambda: filtering.exponential_filter(g4, 2.0, 1, -0.5)(np.ones(4))), property_holds=False),
  ]
  for d_ in dom:   # the statement is only a domain statement as long as the measurement says what is recorded
    mf = d_['measured_mean_factor']
    d_['as_recorded'] = bool(isinstance(mf, float) and 0 < mf < 1 - 1e-6)
    ctx.dist['domain-statement-' + ('as-recorded' if d_['as_recorded'] else 'CHANGED')] += 1
  ctx.notes.append(dict(domain_statements=dom, hypotheses_of_the_claim=(
      'attenuation >= 0, scale >= 0, dt/tau >= 0 (tau != 0); 0 <= cutoff < 1; diffusion order >= 1; orders are natural '
      'numbers; radius != 0; lmax > 0; Robert-Asselin 0 <= r <= 1/2 for convexity (newest level / linear sequences: any r); '
      'factor in (0,1] over the reals (float64: exp underflows to 0 for attenuation >~ 745); untouched leaves are those '
      'whose shape does not broadcast-preserve against the scaling (a 1-d leaf of length L IS rescaled)')))

  if not ctx.quick:
    ctx.leanchecker(['DinoProofs.Properties.C15'])
  return ctx.finish(RULE, 'theorems are about the Lean model Dino.Filters over the reals (Real.exp); exp is external to '
                    'the executable model (Float.exp in the correspondence); float rounding, exp underflow for '
                    'attenuation > ~700 and dtype promotion are outside the theorems (tolerance 1e-9 in the '
                    'correspondence); degenerate grids with a single total wavenumber (l.max() = 0 -> NaN), '
                    'cutoff = 1 and non-integer 2*order with cutoff > 0 are outside the stated domain; DOMAIN: order = 0 '
                    'diffusion and cutoff < 0 are not admissible parameters (there the real code does not preserve the '
                    'mean: measured in notes.domain_statements)')
