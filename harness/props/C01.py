"""C01 — spherical-harmonic analysis inverts synthesis; the basis is discretely orthonormal.

Lean: DinoProofs/Properties/C01.lean (+ Lemmas/SH, SHFast, SHCert, Legendre, FourierOrtho) over the model
Dino/{Legendre,Fourier,SH,SHCheck,SHCheck2}.lean, and the certificates DinoGen/SHCert.lean which the
translator harness/gen/shcert.py regenerates from the basis arrays of live `Grid` objects on every run.

Tie (correspondence, float64, rtol 1e-9): `associated_legendre._evaluate_rhombus / evaluate`,
`fourier.real_basis / real_basis_with_zero_imag`, `RealSphericalHarmonics` and `FastSphericalHarmonics`
`.basis / .transform / .inverse_transform` (flat and stacked Fourier step, padded layouts), `Grid.integrate`,
masks, modal axes, shapes and paddings are compared with the model on a table of grid configurations; the
model is run both on the basis arrays of the real code and on a basis it rebuilds from the latitude nodes
and weights alone.  Every unit spectral vector of the certificate grids is sent through both.

Hyp: the separable Gram criterion proved sufficient in `Dino.SH.gram_of_separable` is evaluated in float64
on the T*/TL* factory grids over the block the spacing rule says is resolved (1e-10).

T1.5 tie: the discrete Fourier Gram matrix of the REAL `fourier.real_basis*` arrays under the `quadrature_nodes` weight is
compared, for a sweep of (M, N) including N = M, 2M-2, 2M-1, odd / even N, with the closed form proved in
Lemmas/FourierOrtho.lean for all sizes: identity (1e-12) iff 2(M-1) < N, a defect >= 1 otherwise.

Sentinel probes (tests on the real code): round trip, integral, independence from / absence of
coefficients outside the triangle, on random and unit spectra with leading batch axes.
"""
import functools
import math

import numpy as np

import common
from common import fbits, fvec, fmat, unfvec, unfmat, unfbits
from gen import shcert

TOL = 1e-10          # eps of the round-trip / Gram statements evaluated on the real code
RULE = ('grids: impl in {Real, Fast(base_shape_multiple 1/2/4/8, stacked on/off/auto)}, M 1..6 (quick) / 1..12, '
        'L = M..M+3, N from M (aliased) to 3M+2, J from the smallest resolving count to L+3, spacing gauss / '
        'equiangular / equiangular_with_poles, longitude offset, radius; corner grids first (1x1, M=1, N=M, J=1); '
        'spectra: every unit vector on the certificate grids, integer and normal random spectra supported on the '
        'resolved block, leading batch axes () / (2,) / (2,3); nodal data: normal random; a case is non-trivial when '
        'M >= 2 and the field has a coefficient with m != 0; distinct = distinct (op, grid, data) hashes')

FACTORY_QUICK = ['T21', 'TL31', 'TL47']
FACTORY_THOROUGH = ['T21', 'T31', 'T42', 'T85', 'T106', 'TL31', 'TL47', 'TL63', 'TL95', 'TL127']


# ----------------------------------------------------------------------------- grid table

def make_grid(sh, cfg):
  impl, M, L, N, J, spacing, off, radius, kw = cfg
  cls = sh.RealSphericalHarmonics if impl == 'real' else functools.partial(sh.FastSphericalHarmonics, **kw)
  return sh.Grid(longitude_wavenumbers=M, total_wavenumbers=L, longitude_nodes=N, latitude_nodes=J,
                 latitude_spacing=spacing, longitude_offset=off, radius=radius, spherical_harmonics_impl=cls)


def quad_degree(spacing, J):
  return max(2 * J - 1, 0) if spacing == 'gauss' else max(J - 1, 0)


def resolved_mask(grid, cfg):
  """the spacing rule of DESIGN 6/C01 (the same function as Lean's `resolvedRealMask/resolvedFastMask`;
  compared exactly with it in the correspondence)"""
  impl, M, L, N, J, spacing = cfg[:6]
  deg = quad_degree(spacing, J)
  m, _ = grid.modal_axes
  R, Lm = grid.modal_shape
  pos = np.arange(Lm)
  ok_l = (pos + (L - 1) <= deg)[None, :]
  ok_m = (np.abs(m) + (M - 1) < N)[:, None]
  return np.asarray(grid.mask) & ok_l & ok_m


def corner_cfgs():
  return [
      ('real', 1, 1, 1, 1, 'gauss', 0.0, None, {}),
      ('fast', 1, 1, 1, 1, 'gauss', 0.0, None, {}),
      ('real', 1, 2, 1, 2, 'equiangular', 0.0, 2.0, {}),
      ('real', 2, 2, 2, 2, 'gauss', 0.0, None, {}),                       # N = M: only m' = 0 resolved
      ('fast', 2, 3, 3, 3, 'equiangular_with_poles', 0.5, None, dict(base_shape_multiple=2)),
      ('real', 3, 3, 4, 2, 'gauss', 0.0, None, {}),                       # N = 2M-2 aliased, J small
      ('fast', 2, 4, 5, 4, 'equiangular', 0.0, 3.0, dict(stacked_fourier_transforms=True)),
      ('real', 3, 5, 7, 2, 'equiangular_with_poles', 0.0, None, {}),      # two polar nodes: the rule resolves nothing
  ]


def random_cfg(rng, mmax):
  impl = 'real' if rng.random() < 0.45 else 'fast'
  M = int(rng.integers(1, mmax + 1))
  L = M + int(rng.choice([0, 1, 1, 1, 2, 3]))
  spacing = str(rng.choice(['gauss', 'gauss', 'equiangular', 'equiangular_with_poles']))
  if rng.random() < 0.2:
    N = int(rng.integers(M, max(2 * M - 1, M + 1)))            # aliased in longitude
  else:
    N = int(rng.integers(max(2 * M - 1, 1), 3 * M + 3))
  jmin = (L + 1) // 2 if spacing == 'gauss' else L
  J = int(rng.integers(max(jmin - 1, 1), L + 4))
  if spacing == 'equiangular_with_poles':
    J = max(J, 2)
  off = float(rng.choice([0.0, 0.0, 0.25, 1.0]))
  radius = [None, None, 2.5, 6.37122e6, 0.5][int(rng.integers(0, 5))]
  kw = {}
  if impl == 'fast':
    base = int(rng.choice([1, 1, 2, 4, 8]))
    if base != 1:
      kw['base_shape_multiple'] = base
    st = [None, True, False][int(rng.integers(0, 3))]
    if st is not None:
      kw['stacked_fourier_transforms'] = st
  return (impl, M, L, N, J, spacing, off, radius, kw)


def cfg_key(cfg):
  return (cfg[0],) + tuple(cfg[1:8]) + (tuple(sorted(cfg[8].items())),)


def cfg_dict(cfg):
  impl, M, L, N, J, spacing, off, radius, kw = cfg
  return dict(impl=impl, longitude_wavenumbers=M, total_wavenumbers=L, longitude_nodes=N, latitude_nodes=J,
              latitude_spacing=spacing, longitude_offset=off, radius=radius, **{k: v for k, v in kw.items()})


# ----------------------------------------------------------------------------- encodings

def ften(t):
  t = np.asarray(t)
  return '|'.join(fmat(m) for m in t) if t.shape[0] else '_'


def unften(s):
  return [] if s == '_' else [unfmat(m) for m in s.split('|')]


def flat_basis(b):
  """basis arrays with a flat Fourier matrix (undo the stacking reshape)"""
  f = np.asarray(b.f, dtype=float)
  stacked = f.ndim == 3
  if stacked:
    flat = np.zeros((f.shape[0], 2 * f.shape[2]))
    flat[:, 0::2] = f[:, 0, :]
    flat[:, 1::2] = f[:, 1, :]
    f = flat
  return f, np.asarray(b.p, dtype=float), np.asarray(b.w, dtype=float), stacked


def unbool(s):
  return [] if s == '_' else [[] if r == '_' else [c == '1' for c in r.split(',')] for r in s.split(';')]


# ----------------------------------------------------------------------------- main

def run(ctx: common.Ctx):
  jax = common.setup_jax()
  import jax.numpy as jnp
  from dinosaur import spherical_harmonic as sh
  from dinosaur import associated_legendre as al
  from dinosaur import fourier

  import time
  t_phase = [time.time()]

  def phase(name):
    now = time.time()
    ctx.notes.append(f'phase {name}: {now - t_phase[0]:.1f}s')
    t_phase[0] = now

  # ------------------------------------------------------------------ translator + Lean
  gen = None
  try:
    gen = shcert.generate(ctx.tier)
    ctx.obligation('translator:DinoGen.SHCert', 'translator', True,
                   'regenerated (changed)' if gen['changed'] else 'regenerated (unchanged)')
  except Exception as e:  # pylint: disable=broad-except
    ctx.obligation('translator:DinoGen.SHCert', 'translator', False, f'{type(e).__name__}: {str(e)[:300]}')
  import os
  ctx.lean('DinoProofs.Properties.C01', 'C01.txt',
           extra_files=[f_ for f_ in ['DinoProofs/Lemmas/SH.lean', 'DinoProofs/Lemmas/SHFast.lean', 'DinoProofs/Lemmas/SHCert.lean',
                        'DinoProofs/Lemmas/Legendre.lean', 'DinoProofs/Lemmas/FourierOrtho.lean',
                        'DinoProofs/Lemmas/Lin.lean', 'DinoProofs/Lemmas/Fx.lean',
                        'Dino/SH.lean', 'Dino/SHCheck.lean', 'Dino/SHCheck2.lean', 'Dino/Legendre.lean',
                        'Dino/Fourier.lean', 'Dino/Lin.lean', 'Dino/Fx.lean', 'DinoGen/SHCert.lean']
                        if os.path.exists(os.path.join(common.LEAN, f_))],
           gen_targets=['DinoGen.SHCert'])
  # the 8-digit literal `_CONSTANT_NORMALIZATION_FACTOR` of primitive_equations.py (theorems
  # constant_normalization_literal / constant_normalization_vs_b0): the literal in the Lean statement is the one in the code
  import re
  try:
    c01src = open(os.path.join(common.LEAN, 'DinoProofs/Properties/C01.lean')).read()
  except OSError:
    c01src = ''
  mlit = re.search(r'theorem constant_normalization_literal :\s*\|\(([0-9.]+) : ℝ\)', c01src)
  if mlit is not None:
    with ctx.impl('probe-exception', dict(what='_CONSTANT_NORMALIZATION_FACTOR')):
      from dinosaur import primitive_equations as pe
      ctx.corr_exact('primitive_equations._CONSTANT_NORMALIZATION_FACTOR (literal of constant_normalization_literal)',
                     dict(lean=mlit.group(1)), repr(float(pe._CONSTANT_NORMALIZATION_FACTOR)), repr(float(mlit.group(1))))
  if not ctx.quick and gen is not None and gen['xnames']:
    # larger certificate family: one module per grid (built in parallel), audited like the indexed theorems
    if ctx.lean_build(gen['xmodules'], what='proof'):
      ctx.audit('DinoGen.SHCertX', gen['xnames'], gen['xfiles'])
    else:
      for t in gen['xnames']:
        ctx.obligations.append(dict(name=t, kind='theorem', ok=False, detail='module does not build'))
  t15 = os.path.exists(os.path.join(common.LEAN, 'DinoProofs/Lemmas/FourierOrtho.lean'))
  if t15:
    ctx.assumptions.append('configuration quantifier of C01: the LONGITUDE direction is proved for every size over the reals '
                           '(T1.5: the Fourier Gram matrix under the weight 2 pi / N is the identity iff 2(M-1) < N, and the round '
                           'trip reduces to the orthonormality of the Legendre tables under the latitude weights alone; tied to '
                           'the real arrays by the Gram sweep); the LATITUDE direction is certified (kernel-checked on the live '
                           'arrays of the generated grids) and sampled (factory grids), not proved: no Gauss-Legendre theory in '
                           'Mathlib')
  else:
    ctx.assumptions.append('configuration quantifier of C01 is certified (kernel-checked on the live arrays of the '
                           'generated grids) and sampled (factory grids), not proved: no Gauss-Legendre theory in Mathlib')

  phase('translator+lean+audit')
  rng = ctx.rng
  lines, checks = [], []   # checks: (op, inp, impl, kind)

  def add(line, op, inp, impl, kind='mat'):
    lines.append(line)
    checks.append((op, inp, impl, kind))

  # ------------------------------------------------------------------ the table of grids
  cert_cfgs = [tuple(c[1:]) for c in shcert.QUICK]
  cfgs = corner_cfgs() + cert_cfgs
  mmax = ctx.n(6, 12)
  for _ in range(ctx.n(14, 70)):
    cfgs.append(random_cfg(rng, mmax if rng.random() < 0.3 else min(mmax, 5)))
  grids = []
  for cfg in cfgs:
    inp = cfg_dict(cfg)
    with ctx.impl('grid-construction', inp):
      g = make_grid(sh, cfg)
      s = g.spherical_harmonics
      _ = s.basis
      grids.append((cfg, g))
  ncert = len(corner_cfgs()) + len(cert_cfgs)

  # ------------------------------------------------------------------ correspondence
  for gi, (cfg, g) in enumerate(grids):
    impl, M, L, N, J, spacing, off, radius, kw = cfg
    s = g.spherical_harmonics
    inp0 = cfg_dict(cfg)
    (R, Lm), (Nn, Jn) = s.modal_shape, s.nodal_shape
    padR, padL = s.modal_padding
    padN, padJ = s.nodal_padding
    ctx.dist[f'impl={impl}'] += 1
    ctx.dist[f'spacing={spacing}'] += 1
    ctx.dist[f'M={M}'] += 1
    ctx.dist[f'pad={"yes" if (padR or padL or padN or padJ) else "no"}'] += 1
    f, p, w, stacked = flat_basis(s.basis)
    ctx.dist[f'stacked={stacked}'] += 1
    mimpl = 'real' if impl == 'real' else ('faststacked' if stacked else 'fast')
    x_nodes, wlat = sh.get_latitude_nodes(J, spacing)
    key0 = cfg_key(cfg)
    # --- shapes, axes, masks (exact)
    if impl == 'real':
      add(f'sh N shapes real {M} {L} {N} {J}', 'shapes', inp0,
          [R, Lm, Nn, Jn, padR, padL, padN, padJ], 'ivec')
      add(f'sh N axes real {M} {L}', 'modal_axes', inp0, s.modal_axes, 'axes')
      add(f'sh N mask real {M} {L}', 'mask', inp0, np.asarray(s.mask), 'bmat')
      add(f'sh N resmask real {M} {L} {N} {spacing} {J}', 'resolved-block rule', inp0, resolved_mask(g, cfg), 'bmat')
    else:
      base = kw.get('base_shape_multiple', 1)
      add(f'sh N shapes fast {M} {L} {N} {J} {base} 1 1', 'shapes', inp0,
          [R, Lm, Nn, Jn, padR, padL, padN, padJ], 'ivec')
      add(f'sh N axes fast {M} {L} {padR} {padL}', 'modal_axes', inp0, s.modal_axes, 'axes')
      add(f'sh N mask fast {M} {L} {padR} {padL}', 'mask', inp0, np.asarray(s.mask), 'bmat')
      add(f'sh N resmask fast {M} {L} {padR} {padL} {N} {spacing} {J}', 'resolved-block rule', inp0,
          resolved_mask(g, cfg), 'bmat')
    ctx.case(('struct',) + key0, nontrivial=M >= 2)
    # --- Legendre tables, Fourier matrices, the basis rebuilt from the nodes
    add(f'sh F evaluate {M} {L} {fvec(x_nodes)}', 'associated_legendre.evaluate', dict(inp0, x=list(map(float, x_nodes))),
        al.evaluate(M, L, x_nodes), 'ten')
    add(f'sh F real_basis {M} {N}', 'fourier.real_basis', inp0, fourier.real_basis(M, N), 'mat')
    add(f'sh F real_basis_zi {M} {N}', 'fourier.real_basis_with_zero_imag', inp0,
        fourier.real_basis_with_zero_imag(M, N), 'mat')
    add(f'sh F basis {impl} {M} {L} {N} {padN} {padR} {padJ} {padL} {fvec(x_nodes)} {fvec(wlat)}',
        f'{impl}.basis', inp0, (f, p, w), 'basis')
    ctx.case(('tables',) + key0, nontrivial=M >= 2)
    # --- transforms on spectra / nodal fields, with leading batch axes
    head = f'{M} {L} {N} {padN} {padR} {padJ} {padL} {fvec(x_nodes)} {fvec(wlat)}'
    batch = [(), (2,), (2, 3)][gi % 3]
    ctx.dist[f'batch={batch}'] += 1
    rmask = resolved_mask(g, cfg)
    xs = rng.standard_normal(batch + (R, Lm))
    if gi % 2:
      xs = np.round(xs * 3)
    xs = xs * np.where(rng.random(xs.shape) < 0.8, 1.0, 0.0)
    if gi % 4 != 3:
      xs = xs * np.asarray(s.mask)                # otherwise: junk outside the mask as well
    zs = rng.standard_normal(batch + (Nn, Jn))
    with ctx.impl('transform-exception', inp0):
      znod = np.asarray(s.inverse_transform(jnp.asarray(xs)))
      ymod = np.asarray(s.transform(jnp.asarray(zs)))
      integ = np.asarray(g.integrate(jnp.asarray(zs)))
      xs2 = xs.reshape((-1, R, Lm))
      zs2 = zs.reshape((-1, Nn, Jn))
      for bi in range(xs2.shape[0]):
        xi, zi = xs2[bi], zs2[bi]
        nz = bool(M >= 2 and np.abs(xi[2:]).sum() > 0)
        i1 = dict(inp0, x=xi.tolist())
        i2 = dict(inp0, z=zi.tolist())
        zimp = znod.reshape((-1, Nn, Jn))[bi]
        yimp = ymod.reshape((-1, R, Lm))[bi]
        if bi == 0:
          add(f'sh F synth {mimpl} {fmat(f)} {ften(p)} {fvec(w)} {fmat(xi)}', f'{impl}.inverse_transform[arrays]',
              i1, zimp)
          add(f'sh F analysis {mimpl} {R} {Lm} {fmat(f)} {ften(p)} {fvec(w)} {fmat(zi)}',
              f'{impl}.transform[arrays]', i2, yimp)
          add(f'sh F integrate {fvec(w)} {fbits(g.radius)} {fmat(zi)}', 'Grid.integrate[arrays]', i2,
              integ.reshape(-1)[bi], 'scalar')
        add(f'sh F nsynth {mimpl} {head} {fmat(xi)}', f'{impl}.inverse_transform[rebuilt]', i1, zimp)
        add(f'sh F nanalysis {mimpl} {head} {fmat(zi)}', f'{impl}.transform[rebuilt]', i2, yimp)
        add(f'sh F nintegrate {N} {padJ} {fvec(wlat)} {fbits(g.radius)} {fmat(zi)}', 'Grid.integrate[rebuilt]', i2,
            integ.reshape(-1)[bi], 'scalar')
        ctx.case(('transform',) + key0 + (xi.tobytes(), zi.tobytes()), nontrivial=nz,
                 sample=dict(grid=inp0, batch=list(batch)) if gi < 3 and bi == 0 else None)
      # both Fourier-step variants of the model on the same data (the real class uses one of them)
      if impl == 'fast':
        other = 'fast' if stacked else 'faststacked'
        add(f'sh F nsynth {other} {head} {fmat(xs2[0])}', 'fast.inverse_transform[other Fourier step]',
            dict(inp0, x=xs2[0].tolist()), znod.reshape((-1, Nn, Jn))[0])
        add(f'sh F nanalysis {other} {head} {fmat(zs2[0])}', 'fast.transform[other Fourier step]',
            dict(inp0, z=zs2[0].tolist()), ymod.reshape((-1, R, Lm))[0])
      # exact arithmetic on the float arrays (mode Q), integer spectra
      if gi % 5 == 0 and R * Lm <= 40:
        from fractions import Fraction
        xi = np.round(rng.standard_normal((R, Lm)) * 3) * np.asarray(s.mask)
        q = lambda a: ';'.join(','.join(common.qstr(Fraction(float(v))) for v in r) for r in a)
        qt = lambda t: '|'.join(q(m) for m in t)
        zq = np.asarray(s.inverse_transform(jnp.asarray(xi)))
        add(f'sh Q synth {mimpl} {q(f)} {qt(p)} {",".join(common.qstr(Fraction(float(v))) for v in w)} {q(xi)}',
            f'{impl}.inverse_transform[exact arithmetic]', dict(inp0, x=xi.tolist()), zq, 'qmat')
        ctx.case(('exact',) + key0 + (xi.tobytes(),), nontrivial=M >= 2)
    # --- every unit spectral vector (certificate and corner grids)
    if gi < ncert and R * Lm <= 160:
      eye = np.eye(R * Lm).reshape((R * Lm, R, Lm))
      with ctx.impl('transform-exception', inp0):
        zall = np.asarray(s.inverse_transform(jnp.asarray(eye)))
        for k in range(R * Lm):
          add(f'sh F nsynth {mimpl} {head} {fmat(eye[k])}', f'{impl}.inverse_transform[unit vector]',
              dict(inp0, unit=[k // Lm, k % Lm]), zall[k])
          ctx.case(('unit',) + key0 + (k,), nontrivial=(k // Lm) >= 2)
        ctx.dist['unit-vectors'] += R * Lm

  # --- recurrence on random nodes, both truncations; sectoral values
  for ri in range(ctx.n(8, 60)):
    nl = int(rng.integers(1, ctx.n(7, 13)))
    nm = int(rng.integers(1, ctx.n(7, 13)))
    xr = np.concatenate([rng.uniform(-1, 1, int(rng.integers(1, 4))), [[0.0], [1.0], [-1.0], []][ri % 4]])
    for trunc in ('rhombus', 'triangle'):
      add(f'sh F rhombus {nl} {nm} {fvec(xr)} {int(trunc == "triangle")}', f'_evaluate_rhombus[{trunc}]',
          dict(n_l=nl, n_m=nm, x=xr.tolist(), truncation=trunc),
          al._evaluate_rhombus(nl, nm, xr, truncation=trunc), 'ten')  # pylint: disable=protected-access
    ctx.case(('rhombus', nl, nm, xr.tobytes()), nontrivial=nl >= 3 and nm >= 2)
  # --- malformed stream: the guards
  for vi in range(ctx.n(10, 60)):
    nm, nl = int(rng.integers(1, 6)), int(rng.integers(1, 6))
    xr = rng.uniform(-1, 1, 2)
    try:
      out = al.evaluate(nm, nl, xr)
      kind, val = 'ten', out
    except ValueError:
      kind, val = 'error', 'value-error'
    add(f'sh F evaluate {nm} {nl} {fvec(xr)}', 'associated_legendre.evaluate[guard]', dict(n_m=nm, n_l=nl), val, kind)
    ctx.dist[f'evaluate-guard:{"ok" if kind == "ten" else "reject"}'] += 1
    Mv, Nv = int(rng.integers(1, 6)), int(rng.integers(1, 8))
    for nm_, fn in (('real_basis', fourier.real_basis), ('real_basis_zi', fourier.real_basis_with_zero_imag)):
      try:
        out = fn(Mv, Nv)
        kind, val = 'mat', out
      except ValueError:
        kind, val = 'error', 'value-error'
      add(f'sh F {nm_} {Mv} {Nv}', f'fourier.{nm_}[guard]', dict(wavenumbers=Mv, nodes=Nv), val, kind)
      ctx.dist[f'{nm_}-guard:{"ok" if kind == "mat" else "reject"}'] += 1
    ctx.case(('guard', nm, nl, Mv, Nv), nontrivial=True)

  phase('correspondence: real code')
  outs = ctx.model(lines)
  phase(f'correspondence: model ({len(lines)} lines, {sum(map(len, lines)) // 1000} kB)')
  for (op, inp, impl_v, kind), o in zip(checks, outs):
    if kind == 'error':
      ctx.corr_exact(op, inp, impl_v, o)
      continue
    if o in ('bad-op', 'value-error'):
      ctx.corr_mismatch(op, inp, _shape(impl_v), o, 'model rejected the operation')
      continue
    try:
      if kind == 'ivec':
        ctx.corr_exact(op, inp, [int(v) for v in impl_v], common.univec(o))
      elif kind == 'axes':
        ms, ls = o.split('#')
        ctx.corr_exact(op, inp, ([int(v) for v in impl_v[0]], [int(v) for v in impl_v[1]]),
                       (common.univec(ms), common.univec(ls)))
      elif kind == 'bmat':
        ctx.corr_exact(op, inp, [[bool(v) for v in r] for r in np.asarray(impl_v)], unbool(o))
      elif kind == 'ten':
        t = unften(o)
        a = np.asarray(impl_v, dtype=float)
        ctx.corr_float(op, inp, a, _arr(t, a.shape))
      elif kind == 'basis':
        fs, ps, ws = o.split('#')
        fi, pi, wi = impl_v
        ctx.corr_float(op + '.f', inp, fi, _arr(unfmat(fs), fi.shape))
        ctx.corr_float(op + '.p', inp, pi, _arr(unften(ps), pi.shape))
        ctx.corr_float(op + '.w', inp, wi, _arr(unfvec(ws), wi.shape))
      elif kind == 'scalar':
        ctx.corr_float(op, inp, [float(impl_v)], [unfbits(o)], atol=1e-12 * max(1.0, abs(float(impl_v))))
      elif kind == 'qmat':
        from fractions import Fraction
        m = [[float(Fraction(t)) for t in r.split(',')] for r in o.split(';')] if o != '_' else []
        a = np.asarray(impl_v, dtype=float)
        ctx.corr_float(op, inp, a, _arr(m, a.shape))
      else:
        a = np.asarray(impl_v, dtype=float)
        ctx.corr_float(op, inp, a, _arr(unfmat(o), a.shape))
    except (ValueError, IndexError) as e:
      ctx.corr_mismatch(op, inp, _shape(impl_v), o[:200], f'unparsable model output: {e}')

  phase('correspondence: compare')
  # ------------------------------------------------------------------ sentinel probes on the table
  for cfg, g in grids:
    probe_grid(ctx, jnp, sh, g, cfg, cfg_dict(cfg), nspec=ctx.n(2, 4), units=ctx.n(6, 20))
  # the quadrature rules themselves (contract of scipy roots_legendre / _compute_weights)
  for spacing in sh.LATITUDE_SPACINGS:
    for J in ([1, 2, 3, 4, 7, 16, 32] if ctx.quick else list(range(1, 41)) + [64, 96, 128]):
      if spacing == 'equiangular_with_poles' and J < 2:
        continue
      inp = dict(spacing=spacing, J=J)
      with ctx.impl('quadrature', inp):
        xq, wq = sh.get_latitude_nodes(J, spacing)
        deg = quad_degree(spacing, J)
        ks = np.arange(deg + 1)
        mom = (wq[None, :] * xq[None, :] ** ks[:, None]).sum(1)
        exact = np.where(ks % 2 == 0, 2.0 / (ks + 1), 0.0)
        err = np.abs(mom - exact).max()
        # the solved equiangular weights lose digits with J (cond of the Legendre Vandermonde matrix)
        tol = 1e-11 if spacing == 'gauss' or J <= 40 else 1e-8
        ctx.expect(err <= tol, 'quadrature-exactness',
                   f'{spacing} rule with {J} nodes: moment error {err:.3e} up to degree {deg}', inp)
        ctx.case(('quad', spacing, J), nontrivial=J >= 2)

  # ------------------------------------------------------------------ T1.5: Fourier Gram of the REAL basis arrays, all sizes
  if os.path.exists(os.path.join(common.LEAN, 'DinoProofs/Lemmas/FourierOrtho.lean')):
    probe_fourier_gram(ctx, fourier)
    probe_factory_resolution(ctx, sh)
  phase('probes')
  # ------------------------------------------------------------------ Hyp: separable Gram criterion on factory grids
  for name in (FACTORY_QUICK if ctx.quick else FACTORY_THOROUGH):
    for impl_cls, iname in ((sh.RealSphericalHarmonics, 'real'), (sh.FastSphericalHarmonics, 'fast')):
      if iname == 'fast' and ctx.quick and name != 'T21':
        continue
      inp = dict(factory=name, impl=iname)
      with ctx.impl('factory-grid', inp):
        g = getattr(sh.Grid, name)(spherical_harmonics_impl=impl_cls)
        cfg = (iname, g.longitude_wavenumbers, g.total_wavenumbers, g.longitude_nodes, g.latitude_nodes,
               g.latitude_spacing, 0.0, None, {})
        dev, detail = separable_gram_deviation(g, cfg)
        ok = dev <= TOL
        ctx.obligation(f'hyp:gram[{name},{iname}]', 'hypothesis', ok, f'max deviation {dev:.2e} ({detail})')
        ctx.case(('hyp', name, iname), nontrivial=True)
        if not ok:
          ctx.fail('factory-gram', f'Gram tensor of {name} ({iname}) deviates {dev:.3e} from the identity on the '
                   f'resolved block at {detail}', inp)
        probe_grid(ctx, jnp, sh, g, cfg, dict(factory=name, impl=iname), nspec=ctx.n(1, 3), units=ctx.n(4, 12))

  phase('hyp: factory grids')
  if not ctx.quick:
    ctx.leanchecker(['DinoProofs.Properties.C01'])
  return ctx.finish(RULE, 'theorems are about the Lean model Dino.SH/Legendre/Fourier; sqrt, cos, sin, pi and the '
                    'quadrature nodes are external; the configuration quantifier is certified on the generated '
                    'grids and sampled on factory grids (partial, DESIGN 1/8/10); float rounding is outside the '
                    'theorems (tolerance 1e-9 in the correspondence, 1e-10 in the probes)')


def _shape(v):
  try:
    return list(np.asarray(v).shape)
  except Exception:  # pylint: disable=broad-except
    return repr(type(v))


def _arr(nested, shape):
  """model output as an array of `shape` (empty dimensions included)"""
  if 0 in shape:
    return np.zeros(shape)
  return np.asarray(nested, dtype=float).reshape(shape)


def separable_gram_deviation(g, cfg):
  """float64 evaluation of the hypotheses of `Dino.SH.gram_of_separable` on the resolved block:
  max over (r' in block rows, r != r') of 8|FG[r][r']|, and over (r',l') in block, l of
  |FG[r'][r'] LG[r',r'][l][l'] - delta|; requires w >= 0 and LG[r,r][l][l] <= 8."""
  f, p, w, _ = flat_basis(g.spherical_harmonics.basis)
  R = f.shape[1]
  pdiv = 1 if p.shape[0] == R else 2
  rm = resolved_mask(g, cfg)
  if not rm.any():
    return np.inf, 'empty resolved block'
  if (w < 0).any():
    return np.inf, 'negative quadrature weight'
  fg = f.T @ f
  rows = np.nonzero(rm.any(axis=1))[0]
  off = fg[:, rows].copy()
  off[rows, np.arange(len(rows))] = 0.0
  worst, where = 8 * np.abs(off).max(), 'Fourier off-diagonal'
  nt = p.shape[0]
  lgd = np.einsum('j,tjl,tjk->tlk', w, p, p)            # [t][l][l']
  if np.einsum('tll->tl', lgd).max() > 8:
    return np.inf, 'Legendre norm > 8'
  for r in rows:
    t = r // pdiv
    cols = np.nonzero(rm[r])[0]
    blk = fg[r, r] * lgd[t][:, cols]                    # [l][l' in cols]
    blk[cols, np.arange(len(cols))] -= 1.0
    d = np.abs(blk).max()
    if d > worst:
      l, c = np.unravel_index(np.abs(blk).argmax(), blk.shape)
      worst, where = d, f'row {int(r)}, (l, l\') = ({int(l)}, {int(cols[c])})'
  return float(worst), where


def fourier_gram_closed_form(M, N):
  """the exact Gram matrix of `real_basis(M, N)` under the weight 2 pi / N proved in Lemmas/FourierOrtho.lean
  (gram_const_const / const_cos / const_sin / cos_cos / sin_sin / cos_sin), with [.] = `N divides .`"""
  R = 2 * M - 1
  dv = lambda k: 1.0 if k % N == 0 else 0.0
  g = np.zeros((R, R))
  for r in range(R):
    for q in range(R):
      m, k = (r + 1) // 2, (q + 1) // 2
      if r == 0 and q == 0:
        g[r, q] = 1.0
      elif r == 0 or q == 0:
        other = q if r == 0 else r
        g[r, q] = math.sqrt(2.0) * dv(max(m, k)) if other % 2 == 1 else 0.0
      elif r % 2 == 1 and q % 2 == 1:
        g[r, q] = dv(m - k) + dv(m + k)
      elif r % 2 == 0 and q % 2 == 0:
        g[r, q] = dv(m - k) - dv(m + k)
  return g


def fourier_sweep(ctx):
  """(M, N) with N >= M (the guard of real_basis): all small sizes, the boundary cases N = 2M-1 (smallest resolved),
  N = 2M-2 (largest aliased), N = M, odd / even N, M = 1, and the sizes of the factory grids"""
  mmax = ctx.n(9, 24)
  out = []
  for M in range(1, mmax + 1):
    for N in range(M, 3 * M + 3):
      out.append((M, N))
  for M in ([16, 22, 32, 43] if ctx.quick else [16, 22, 32, 43, 48, 64, 86, 107, 128]):
    for N in sorted({M, 2 * M - 3, 2 * M - 2, 2 * M - 1, 2 * M, 3 * M + 1, 4 * ((3 * M + 3) // 4)}):
      if N >= max(M, 1):
        out.append((M, N))
  out += [(22, 64), (32, 64), (48, 96)]                      # T21, TL31, TL47
  return out


def probe_fourier_gram(ctx, fourier):
  """Tie of T1.5 (Dino.C01.fourier_orthonormal_iff, fourier_column_orthonormal, fourier_zero_imag_orthonormal,
  fourier_aliasing_at_boundary) to the arrays of the real `fourier.real_basis*` / `quadrature_nodes`."""
  worst_res, worst_form, n_res, n_alias, min_defect = 0.0, 0.0, 0, 0, np.inf
  for M, N in fourier_sweep(ctx):
    inp = dict(wavenumbers=M, nodes=N)
    resolved = 2 * (M - 1) < N                                # the resolution condition of the theorem
    with ctx.impl('fourier-gram', inp):
      f = np.asarray(fourier.real_basis(M, N), dtype=float)
      fz = np.asarray(fourier.real_basis_with_zero_imag(M, N), dtype=float)
      xs, w = fourier.quadrature_nodes(N)
      ctx.expect(np.ndim(w) == 0 and abs(float(w) * N / (2 * math.pi) - 1) <= 1e-15, 'fourier-weight',
                 f'quadrature_nodes({N}) weight {w!r} is not 2 pi / N', inp)
      ctx.expect(np.abs(np.asarray(xs) - 2 * math.pi * np.arange(N) / N).max() <= 1e-14 * 2 * math.pi, 'fourier-nodes',
                 'quadrature_nodes are not 2 pi i / N', inp)
      g = float(w) * f.T @ f
      gz = float(w) * fz.T @ fz
      pred = fourier_gram_closed_form(M, N)
      R = 2 * M - 1
      eye = np.eye(R)
      # the closed form is the identity exactly when the theorem says so (pure arithmetic on the statement)
      if resolved != bool((pred == eye).all()):
        ctx.corr_mismatch('T1.5 closed form vs resolution condition', inp, resolved, pred.tolist(),
                          'the closed-form Gram matrix is the identity iff 2(M-1) < N')
      err_form = float(np.abs(g - pred).max())
      worst_form = max(worst_form, err_form)
      ctx.corr_float('fourier Gram of real_basis vs closed form (T1.5)', inp, g, pred, rtol=0.0, atol=1e-12)
      # zero-imag layout: the same matrix with a zero row / column inserted at index 1
      src = np.array([0] + list(range(2, 2 * M)))
      predz = np.zeros((2 * M, 2 * M))
      predz[np.ix_(src, src)] = pred
      ctx.corr_float('fourier Gram of real_basis_with_zero_imag vs closed form (T1.5)', inp, gz, predz, rtol=0.0,
                     atol=1e-12)
      # per column: unit vector as soon as (r'+1)/2 + (M-1) < N  (fourier_column_orthonormal)
      cols = np.array([(q + 1) // 2 + (M - 1) < N for q in range(R)])
      if cols.any():
        dcol = float(np.abs((g - eye)[:, cols]).max())
        ctx.expect(dcol <= 1e-12, 'fourier-gram', f'resolved columns of the Fourier Gram matrix deviate {dcol:.3e} from the '
                   f'unit vectors (M={M}, N={N})', inp)
      if resolved:
        n_res += 1
        d = float(np.abs(g - eye).max())
        worst_res = max(worst_res, d)
        ctx.expect(d <= 1e-12, 'fourier-gram',
                   f'2(M-1) < N but the Fourier Gram matrix deviates {d:.3e} from the identity (M={M}, N={N})', inp)
        ez = np.eye(2 * M)
        ez[1, 1] = 0.0
        dz = float(np.abs(gz - ez).max())
        ctx.expect(dz <= 1e-12, 'fourier-gram',
                   f'zero-imag Gram matrix deviates {dz:.3e} from identity-without-row-1 (M={M}, N={N})', inp)
      else:
        n_alias += 1
        d = float(np.abs(g - eye).max())
        min_defect = min(min_defect, d)
        if not d >= 1.0 - 1e-12:
          ctx.corr_mismatch('T1.5 aliasing defect', inp, d, '>= 1',
                            'N <= 2(M-1): the theorem says some Gram entry is off by at least 1')
        if N == 2 * (M - 1):                                  # fourier_aliasing_at_boundary
          ctx.corr_float('T1.5 boundary N = 2(M-1): cos / sin norms of the top wavenumber', inp,
                         [g[R - 2, R - 2], g[R - 1, R - 1]], [2.0, 0.0], rtol=0.0, atol=1e-12)
      kind = ('N=2M-1' if N == 2 * M - 1 else 'N=2M-2' if N == 2 * M - 2 else 'N=M' if N == M else
              'resolved' if resolved else 'aliased')
      ctx.dist[f'fourier-gram:{kind}'] += 1
      ctx.dist[f'fourier-gram:N {"odd" if N % 2 else "even"}'] += 1
      ctx.case(('fourier-gram', M, N), nontrivial=M >= 2)
  ok = worst_res <= 1e-12 and worst_form <= 1e-12 and (n_alias == 0 or min_defect >= 1.0 - 1e-12)
  ctx.obligation('tie:T1.5 Fourier Gram of the real basis arrays', 'hypothesis', ok,
                 f'{n_res} resolved sizes: max |G - 1| = {worst_res:.2e}; {n_alias} aliased sizes: min defect = '
                 f'{min_defect:.3f}; closed form max error {worst_form:.2e}')


def probe_factory_resolution(ctx, sh):
  """what the code's own grid constructors guarantee: every T*/TL* factory grid and `with_wavenumbers` (all three
  de-aliasing orders) satisfies the resolution condition 2(M-1) < N of T1.5 (the TL* grids with N = 2M, two nodes above
  the boundary); `Grid(...)` itself validates nothing and `real_basis` only N >= M, which admits aliased sizes"""
  import re
  names = sorted(n for n in dir(sh.Grid) if re.fullmatch(r'TL?\d+', n))
  margins = []
  for name in names:
    inp = dict(factory=name)
    with ctx.impl('factory-grid', inp):
      g = getattr(sh.Grid, name)()
      M, N = g.longitude_wavenumbers, g.longitude_nodes
      margins.append(N - 2 * (M - 1))
      ctx.expect(2 * (M - 1) < N, 'factory-longitude-resolution',
                 f'{name}: longitude_nodes = {N} does not resolve longitude_wavenumbers = {M} (needs 2(M-1) < N)', inp)
      ctx.case(('factory-resolution', name), nontrivial=True)
  for M in range(1, ctx.n(12, 40)):
    for dealiasing in ('linear', 'quadratic', 'cubic'):
      inp = dict(with_wavenumbers=M, dealiasing=dealiasing)
      with ctx.impl('factory-grid', inp):
        g = sh.Grid.with_wavenumbers(M, dealiasing=dealiasing)
        ctx.expect(2 * (g.longitude_wavenumbers - 1) < g.longitude_nodes, 'factory-longitude-resolution',
                   f'with_wavenumbers({M}, {dealiasing}): N = {g.longitude_nodes} does not resolve M = {M}', inp)
  ctx.dist['factory-resolution:grids'] += len(names)
  ctx.notes.append(f'T1.5 resolution margin N - 2(M-1) over {len(names)} factory grids: min {min(margins) if margins else None}')


def probe_grid(ctx, jnp, sh, g, cfg, inp0, nspec, units):
  """round trip / integral / triangle probes on the real code for one grid"""
  rng = ctx.rng
  s = g.spherical_harmonics
  R, Lm = s.modal_shape
  Nn, Jn = s.nodal_shape
  rm = resolved_mask(g, cfg)
  mask = np.asarray(g.mask)
  c0 = math.sqrt(4 * math.pi) * g.radius ** 2
  key = cfg_key(cfg)
  if not rm.any():
    ctx.dist['probe:empty-block'] += 1
    return
  ctx.dist['probe:grids'] += 1
  fields = []
  for k in range(nspec):
    batch = [(), (3,), (2, 2)][k % 3]
    x = rng.standard_normal(batch + (R, Lm)) * rm
    if k % 2:
      x = x * (1.0 + np.arange(Lm)) ** 2      # growing, not decaying, amplitudes
    fields.append(('random', x))
  idx = np.argwhere(rm)
  sel = idx if len(idx) <= units else idx[rng.choice(len(idx), units, replace=False)]
  # always include the corners of the block
  sel = np.concatenate([sel, idx[[0, -1]], idx[[np.argmax(idx[:, 1])]]])
  u = np.zeros((len(sel), R, Lm))
  u[np.arange(len(sel)), sel[:, 0], sel[:, 1]] = 1.0
  fields.append(('unit', u))
  for kind, x in fields:
    inp = dict(inp0, kind=kind, x=_small(x), units=sel.tolist() if kind == 'unit' else None)
    with ctx.impl('probe-exception', inp):
      z = g.to_nodal(jnp.asarray(x))
      y = np.asarray(g.to_modal(z))
      z = np.asarray(z)
      l1 = np.abs(x).sum(axis=(-2, -1), keepdims=True)
      err = np.abs(y - x).max(axis=(-2, -1), keepdims=True)
      bad = err > TOL * np.maximum(l1, 1e-300)
      ctx.expect(not bad.any(), 'roundtrip',
                 f'to_modal(to_nodal(x)) != x: max error {float(err.max()):.3e} for ||x||_1 = {float(l1.max()):.3e} '
                 f'({kind} spectrum, worst entry {_worst(y - x)})', inp)
      integ = np.asarray(g.integrate(jnp.asarray(z)))
      target = c0 * x[..., 0, 0]
      ierr = np.abs(integ - target)
      ctx.expect(not (ierr > 1e-9 * g.radius ** 2 * np.maximum(l1[..., 0, 0], 1e-300)).any(), 'integral',
                 f'integrate(to_nodal(x)) != r^2 sqrt(4 pi) x00: error {float(ierr.max()):.3e}', inp)
      # entries outside the triangle: never influence, never appear
      junk = rng.standard_normal(x.shape) * ~mask
      z2 = np.asarray(g.to_nodal(jnp.asarray(x + junk)))
      ctx.expect(np.abs(z2 - z).max() <= 1e-12 * max(1.0, np.abs(z).max()), 'outside-triangle-influences',
                 'coefficients outside the mask change the synthesised field', inp)
      ctx.expect(np.abs(y * ~mask).max() <= 1e-12 * max(1.0, float(l1.max())), 'outside-triangle-appears',
                 f'analysis produced coefficients outside the mask: {float(np.abs(y * ~mask).max()):.3e}', inp)
      ctx.case(('probe', kind) + key + (x.tobytes(),), nontrivial=R >= 3)
  # integer-dtype nodal and modal fields are admissible data (masks, counts, integer-valued spectra): analysis,
  # synthesis and the integral must act on them as on the same values in float64 (seeded C01-6)
  with ctx.impl('probe-exception', dict(inp0, kind='integer-dtype')):
    zi = rng.integers(-5, 6, size=tuple(g.nodal_shape))
    xi = (rng.integers(-5, 6, size=(R, Lm)) * mask).astype(np.int64)
    iinp = dict(inp0, kind='integer-dtype', z_int=_small(zi))
    for nm, fn, arg in (('to_modal', g.to_modal, zi), ('integrate', g.integrate, zi), ('to_nodal', g.to_nodal, xi)):
      gi = np.asarray(fn(jnp.asarray(arg)), dtype=np.float64)
      gf = np.asarray(fn(jnp.asarray(arg.astype(np.float64))))
      ctx.expect(gi.shape == gf.shape and np.abs(gi - gf).max() <= 1e-11 * (1 + np.abs(gf).max()), 'integer-dtype',
                 f'{nm} of an integer-dtype field differs from the same values in float64 '
                 f'(max {np.abs(gi - gf).max() if gi.shape == gf.shape else "shape"})', dict(iinp, op=nm))
    ctx.case(('probe', 'integer-dtype') + key, nontrivial=True)
  # the constant field 1 has the spectral coefficient 1/b0 = sqrt(4 pi) (T1.4, |b0^2 4 pi - 1| <= 1e-15), and the 8-digit
  # literal of primitive_equations._add_constant agrees with it within its stated digits (|literal b0 - 1| <= 1e-9)
  with ctx.impl('probe-exception', dict(inp0, kind='ones')):
    from dinosaur import primitive_equations as pe
    ones00 = float(np.asarray(g.to_modal(jnp.ones((Nn, Jn))))[0, 0])
    ctx.expect(abs(ones00 / math.sqrt(4 * math.pi) - 1) <= TOL, 'constant-normalization',
               f'to_modal(1)[0,0] = {ones00!r} is not sqrt(4 pi) = {math.sqrt(4 * math.pi)!r}', dict(inp0, kind='ones'))
    lit = float(pe._CONSTANT_NORMALIZATION_FACTOR)
    ctx.expect(abs(lit / ones00 - 1) <= 1e-9, 'constant-normalization-literal',
               f'_CONSTANT_NORMALIZATION_FACTOR = {lit!r} differs from to_modal(1)[0,0] = {ones00!r} by more than 1e-9 '
               f'relative', dict(inp0, kind='ones'))
  # nodal data: analysis output is confined to the mask for arbitrary input
  zr = rng.standard_normal((2, Nn, Jn))
  with ctx.impl('probe-exception', dict(inp0, kind='nodal')):
    yr = np.asarray(g.to_modal(jnp.asarray(zr)))
    ctx.expect(np.abs(yr * ~mask).max() <= 1e-12 * np.abs(zr).sum(), 'outside-triangle-appears',
               'analysis of a random nodal field produced coefficients outside the mask', dict(inp0, z=_small(zr)))


def _small(a):
  a = np.asarray(a)
  return a.tolist() if a.size <= 400 else dict(shape=list(a.shape), nonzero=[[list(map(int, i)), float(a[tuple(i)])]
                                                                               for i in np.argwhere(a)[:40]])


def _worst(d):
  i = np.unravel_index(np.abs(d).argmax(), d.shape)
  return [int(v) for v in i]
