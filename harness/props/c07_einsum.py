"""C07 helper: the hand-written string / index logic of jax_numpy_utils.sharded_einsum.

Model: lean/Dino/ShardEinsum.lean (driver ops `shard es …`).  The real private functions
_parse_einsum_subscripts, _determine_reduce_subscript, _determine_transfer_subscript are called directly;
_reversed_arg_order_einsum and sharded_einsum are run with their *callees* (jnp.einsum resp. shard_map and the
two collective matmuls) replaced by recorders for the duration of the call, so that the subscripts / argument
order / strategy / lhs_spec / split or scatter axis / axis name they decide on can be compared with the model.
The einsum patterns and partition specs are not transcribed: they are recorded from the real
spherical_harmonic._transform_einsum on every call the transforms make (0 and 1 leading dimensions, one or
many levels, stacked and unstacked Fourier step).
"""
import contextlib

import numpy as np


def chars(s):
  return '_' if s == '' else ','.join(str(ord(c)) for c in s)


def unchars(t):
  return '' if t == '_' else ''.join(chr(int(v)) for v in t.split(','))


def axis_str(a):
  if a is None:
    return '-'
  if isinstance(a, (tuple, list)):
    return '+'.join(a)
  return str(a)


def spec_str(spec):
  items = [axis_str(a) for a in tuple(spec)]
  return '_' if not items else ','.join(items)


def ivec(v):
  v = list(v)
  return '_' if not v else ','.join(str(int(x)) for x in v)


def call(fn, *a, **k):
  """result of a real function, or the tag of the exception the model is expected to mirror."""
  try:
    return fn(*a, **k)
  except ValueError:
    return 'value-error'
  except IndexError:
    return 'index-error'


@contextlib.contextmanager
def patched(obj, name, new):
  old = getattr(obj, name)
  setattr(obj, name, new)
  try:
    yield
  finally:
    setattr(obj, name, old)


def real_reversed(env, subscripts):
  """(new_subscripts, order) handed to jnp.einsum by the real _reversed_arg_order_einsum."""
  import jax.numpy as jnp_mod
  rec = {}
  X, Y = object(), object()

  def fake(sub, a, b, **kw):
    rec['sub'] = sub
    rec['swapped'] = (a is Y and b is X)
    return None

  with patched(jnp_mod, 'einsum', fake):
    try:
      env.jnu._reversed_arg_order_einsum(subscripts, X, Y, precision='float32')
    except ValueError:
      return 'value-error'
  return rec['sub'] if rec.get('swapped') else 'arguments-not-swapped'


def real_plan(env, subscripts, lhs, rhs, gather, rev, mesh, rhs_spec, out_spec):
  """decisions of the real sharded_einsum (callees replaced by recorders)."""
  jnu = env.jnu
  rec = {}

  def fake_shard_map(f, mesh=None, in_specs=None, out_specs=None, check_rep=True, **kw):
    rec['in_specs'] = in_specs
    rec['out_specs'] = out_specs
    return f

  def fake_ag(spec, l, r, split_axis=None, axis_name=None, reverse_arg_order=False, precision='float32'):
    rec.update(gather=True, axis=split_axis, axis_name=axis_name, rev=reverse_arg_order, spec=spec)
    return env.jnp.zeros(())

  def fake_rs(spec, l, r, scatter_axis=None, axis_name=None, reverse_arg_order=False, precision='float32'):
    rec.update(gather=False, axis=scatter_axis, axis_name=axis_name, rev=reverse_arg_order, spec=spec)
    return env.jnp.zeros(())

  with patched(jnu.shard_map, 'shard_map', fake_shard_map), patched(jnu, '_allgather_matmul_twoway', fake_ag), \
      patched(jnu, '_matmul_reducescatter_twoway', fake_rs):
    try:
      jnu.sharded_einsum(subscripts, lhs, rhs, gather_inputs=gather, reverse_arg_order=rev, precision='float32',
                         mesh=mesh, rhs_spec=rhs_spec, out_spec=out_spec)
    except ValueError:
      return 'value-error', rec
    except IndexError:
      return 'index-error', rec
  if 'gather' not in rec:
    return 'no-collective-called', rec
  ok = (rec['spec'] == subscripts and rec['rev'] == rev and tuple(rec['in_specs'][1]) == tuple(rhs_spec)
        and tuple(rec['out_specs']) == tuple(out_spec))
  if not ok:
    return 'inconsistent-call', rec
  return (f"{int(rec['gather'])} {spec_str(rec['in_specs'][0])} {rec['axis']} {axis_str(rec['axis_name'])}"), rec


def library_calls(env, mesh):
  """(subscripts, lhs shape, rhs shape, rhs_spec, out_spec) of every sharded_einsum call the transforms make."""
  jnp, sh, jnu = env.jnp, env.sh, env.jnu
  seen = []

  def recorder(subscripts, lhs, rhs, /, *, mesh, rhs_spec, out_spec, reverse_arg_order=False, precision='float32',
               gather_inputs=None):
    seen.append((subscripts, tuple(lhs.shape), tuple(rhs.shape), rhs_spec, out_spec))
    return jnp.einsum(subscripts, lhs, rhs, precision=precision)

  with patched(jnu, 'sharded_einsum', recorder):
    for stacked in (False, True):
      g = env.grid(4, None, base=2, stacked=stacked)
      impl = g.spherical_harmonics
      import dataclasses
      impl = dataclasses.replace(impl, spmd_mesh=mesh)
      for lead in ((), (1,), (2,)):
        impl.inverse_transform(jnp.zeros(lead + impl.modal_shape))
        impl.transform(jnp.zeros(lead + impl.nodal_shape))
  out, keys = [], set()
  for c in seen:
    k = (c[0], c[1], c[2], spec_str(c[3]), spec_str(c[4]))
    if k not in keys:
      keys.add(k)
      out.append(c)
  return out


MALFORMED = ['ab,bc->ac', 'ab,bc->', 'a...b,bc->ac', '...ab,bc->...ac', 'ab,bc->ac->d', 'ab,,bc->ac', 'a b,bc->ac',
             'ab,bc->ac\n', '', ',->', 'a_1,b->c', 'ab,bc>ac', 'ab,bc-ac', 'ab,bc->a-c', 'ab;bc->ac', 'ab,bc->ac ',
             'AB,Bc->Ac', '..,a->b', 'a,b->c,d', 'ab,bc', 'ab->a', 'a,b,c->d', '->', ',', 'a,->b', ',a->b', 'a-,b->c',
             'a,b-->c', 'a,b->>c', '-->', 'a->b->c', 'a,b->c->', '0,1->2', '_,_->_', 'a.b,c->d', 'ab,bc- >ac']


def part_einsum_logic(ctx, env):
  """model-vs-code correspondence of the string logic + the reversed-order sentinel; returns nothing."""
  jnp, jnu, P = env.jnp, env.jnu, env.P
  rng = ctx.rng
  lines, checks = [], []

  def add(line, op, inp, impl):
    lines.append(line)
    checks.append((op, inp, impl))

  # --- the patterns and specs the library really uses (recorded from _transform_einsum)
  mesh = env.mesh((2, 2, 2))
  with ctx.impl('einsum-logic-exception:library-calls', dict(mesh=[2, 2, 2])):
    calls = library_calls(env, mesh)
    ctx.expect(len(calls) >= 12, 'einsum-logic:library-calls',
               f'expected at least 12 distinct sharded_einsum call signatures from the transforms, got {len(calls)}',
               dict(calls=[c[0] for c in calls]))
    extra = [('gh,hml->gml', (4, 4), (4, 4, 4), P('z', 'x', 'y'), P('z', 'x', 'y')),
             ('lgh,hml->gml', (4, 4, 4), (4, 4, 4), P('z', 'x', 'y'), P('z', 'x', 'y')),
             ('oc,zc->zo', (4, 8), (2, 8), P('z', ('x', 'y')), P('z', ('x', 'y')))]
    for (sub, ls, rs, rspec, ospec) in calls + extra:
      ctx.dist[f'einsum-logic:{sub}'] += 1
      lhs_s, rhs_s, out_s = sub.split('->')[0].split(',') + [sub.split('->')[1]]
      inp0 = dict(subscripts=sub, lhs_shape=list(ls), rhs_shape=list(rs), rhs_spec=spec_str(rspec), out_spec=spec_str(ospec))
      ctx.case(('es', sub, ls, rs, spec_str(rspec), spec_str(ospec)), nontrivial=True, sample=inp0)
      add(f'shard es parse {chars(sub)}', '_parse_einsum_subscripts', inp0,
          ' '.join(chars(t) for t in jnu._parse_einsum_subscripts(sub)))
      red = call(jnu._determine_reduce_subscript, lhs_s, rhs_s, out_s, rspec)
      tr = call(jnu._determine_transfer_subscript, lhs_s, rhs_s, out_s, ospec)
      add(f'shard es reduce {chars(lhs_s)} {chars(rhs_s)} {chars(out_s)} {spec_str(rspec)}',
          '_determine_reduce_subscript', inp0, str(ord(red)) if len(red) == 1 else red)
      add(f'shard es transfer {chars(lhs_s)} {chars(rhs_s)} {chars(out_s)} {spec_str(ospec)}',
          '_determine_transfer_subscript', inp0, str(ord(tr)) if len(tr) == 1 else tr)
      # sentinel: the chosen letters are contracted + sharded in rhs / kept + sharded in out
      if len(red) == 1 and len(tr) == 1:
        ok = (red in lhs_s and red in rhs_s and red not in out_s and tuple(rspec)[rhs_s.index(red)] is not None
              and tr in lhs_s and tr in out_s and tr not in rhs_s and tuple(ospec)[out_s.index(tr)] is not None)
        ctx.expect(ok, 'einsum-logic:letters', f'reduce letter {red!r} / transfer letter {tr!r} of {sub} are not the '
                   'contracted-and-sharded / transferred-and-sharded letters', inp0)
      r = real_reversed(env, sub)
      add(f'shard es rev {chars(sub)}', '_reversed_arg_order_einsum subscripts', inp0, r if r.endswith('error') or r.startswith('arg') else chars(r))
      lhs = rng.standard_normal(ls)
      rhs = rng.standard_normal(rs)
      a = np.asarray(jnu._reversed_arg_order_einsum(sub, jnp.asarray(lhs), jnp.asarray(rhs), precision='float32'))
      b = np.einsum(sub, lhs, rhs)
      ctx.expect(a.shape == b.shape and np.abs(a - b).max() <= 1e-12 * max(1.0, np.abs(b).max()),
                 'einsum-logic:reversed-value', f'_reversed_arg_order_einsum({sub}) != einsum({sub})', inp0)
      for gather in (None, True, False):
        for rev in (False, True):
          inp = dict(inp0, gather_inputs=gather, reverse_arg_order=rev)
          res, _ = real_plan(env, sub, lhs, jnp.asarray(rhs), gather, rev, mesh, rspec, ospec)
          gs = 'n' if gather is None else str(int(gather))
          add(f'shard es plan {chars(sub)} {ivec(ls)} {ivec(rs)} {gs} {spec_str(rspec)} {spec_str(ospec)}',
              'sharded_einsum strategy / lhs_spec / axis / axis name', inp, res)
          ctx.case(('es-plan', sub, ls, rs, gs, rev), nontrivial=True)

  # --- volume rule on other shapes (gather_inputs=None), one pattern
  for _ in range(ctx.n(6, 40)):
    i, m, j, z = (int(v) for v in rng.integers(1, 5, 4) * 2)
    sub, ls, rs = 'im,zmj->zij', (i, m), (z, m, j)
    rspec, ospec = P('z', 'x', 'y'), P('z', 'x', 'y')
    res, _ = real_plan(env, sub, np.zeros(ls), jnp.zeros(rs), None, False, mesh, rspec, ospec)
    inp = dict(subscripts=sub, lhs_shape=list(ls), rhs_shape=list(rs), gather_inputs=None)
    ctx.case(('es-volume', ls, rs), nontrivial=True)
    ctx.dist['einsum-logic:volume-rule gather=' + res.split()[0]] += 1
    add(f'shard es plan {chars(sub)} {ivec(ls)} {ivec(rs)} n {spec_str(rspec)} {spec_str(ospec)}',
        'sharded_einsum default strategy', inp, res)

  # --- malformed stream: parsing and the reversed form
  strs = list(MALFORMED)
  alphabet = list('abc,->._ 1')
  for _ in range(ctx.n(40, 400)):
    strs.append(''.join(rng.choice(alphabet, size=int(rng.integers(0, 9)))))
  for s in strs:
    inp = dict(subscripts=s)
    p = call(jnu._parse_einsum_subscripts, s)
    ctx.case(('es-malformed', s), nontrivial=True)
    ctx.dist['einsum-logic:parse ' + ('accepted' if isinstance(p, tuple) else 'rejected')] += 1
    add(f'shard es parse {chars(s)}', '_parse_einsum_subscripts [malformed stream]', inp,
        ' '.join(chars(t) for t in p) if isinstance(p, tuple) else p)
    r = real_reversed(env, s)
    ctx.dist['einsum-logic:reversed ' + ('rejected' if r == 'value-error' else 'accepted')] += 1
    add(f'shard es rev {chars(s)}', '_reversed_arg_order_einsum subscripts [malformed stream]', inp,
        r if r in ('value-error', 'arguments-not-swapped') else chars(r))

  # --- malformed stream: reduce / transfer letters on random subscripts and specs (too short, all None, several sharded)
  names = [None, None, 'x', 'y', 'z', ('x', 'y')]
  for _ in range(ctx.n(60, 600)):
    def word():
      return ''.join(rng.choice(list('abcd'), size=int(rng.integers(1, 5))))
    l, r, o = word(), word(), word()
    def spec(n):
      k = int(rng.choice([n, n, n, max(n - 1, 0), n + 1]))
      return P(*[names[int(rng.integers(0, len(names)))] for _ in range(k)])
    rspec, ospec = spec(len(r)), spec(len(o))
    inp = dict(lhs=l, rhs=r, out=o, rhs_spec=spec_str(rspec), out_spec=spec_str(ospec))
    red = call(jnu._determine_reduce_subscript, l, r, o, rspec)
    tr = call(jnu._determine_transfer_subscript, l, r, o, ospec)
    ctx.case(('es-letters', l, r, o, spec_str(rspec), spec_str(ospec)), nontrivial=True)
    ctx.dist['einsum-logic:reduce ' + (red if len(red) > 1 else 'ok')] += 1
    ctx.dist['einsum-logic:transfer ' + (tr if len(tr) > 1 else 'ok')] += 1
    add(f'shard es reduce {chars(l)} {chars(r)} {chars(o)} {spec_str(rspec)}', '_determine_reduce_subscript [random]',
        inp, str(ord(red)) if len(red) == 1 else red)
    add(f'shard es transfer {chars(l)} {chars(r)} {chars(o)} {spec_str(ospec)}', '_determine_transfer_subscript [random]',
        inp, str(ord(tr)) if len(tr) == 1 else tr)

  # --- malformed plans: subscripts / specs for which sharded_einsum must raise before any collective
  bad = [('ab,bc->ac', (2, 2), (2, 2), P(None, None), P(None, None)),     # nothing sharded is reduced
         ('ab,bc->ac', (2, 2), (2, 2), P('x', None), P(None, None)),      # nothing sharded is transferred
         ('ab,bc->ac', (2, 2), (2, 2), P('x'), P('x')),                   # specs too short
         ('abd,bdc->ac', (2, 2, 2), (2, 2, 2), P('x', 'y', None), P('x', None)),   # two sharded reduced axes
         ('ab,cb->ac', (2, 2), (2, 2), P('x'), P('x', None)),               # IndexError: rhs_spec shorter than rhs
         ('ab,bc', (2, 2), (2, 2), P('x', None), P('x', None)),
         ('a...b,bc->ac', (2, 2), (2, 2), P('x', None), P('x', None))]
  for (sub, ls, rs, rspec, ospec) in bad:
    for gather in (None, True, False):
      inp = dict(subscripts=sub, rhs_spec=spec_str(rspec), out_spec=spec_str(ospec), gather_inputs=gather)
      res, _ = real_plan(env, sub, np.zeros(ls), jnp.zeros(rs), gather, False, mesh, rspec, ospec)
      gs = 'n' if gather is None else str(int(gather))
      ctx.case(('es-bad-plan', sub, spec_str(rspec), spec_str(ospec), gs), nontrivial=True)
      ctx.dist['einsum-logic:bad-plan ' + res.split()[0]] += 1
      add(f'shard es plan {chars(sub)} {ivec(ls)} {ivec(rs)} {gs} {spec_str(rspec)} {spec_str(ospec)}',
          'sharded_einsum [malformed]', inp, res)

  outs = ctx.model(lines)
  for (op, inp, impl), o in zip(checks, outs):
    if op.startswith('sharded_einsum') and len(o.split()) == 6:
      o = ' '.join(o.split()[:4])       # the model also reports the reduce / transfer letters
    ctx.corr_exact(op, inp, impl, o)
