"""C17 — vertical interpolation (and bilinear / nearest horizontal regridding).

Lean: DinoProofs/Properties/C17.lean over the model Dino/Interp.lean.
Tie: every model operation is run on the inputs given to the real functions of
vertical_interpolation / horizontal_interpolation / primitive_equations (float64) and compared:
both code paths of `interp` (`jnp.interp` on CPU, `_dot_interp` called directly), unlimited linear
extrapolation, safe extrapolation (n cells then NaN), the batched wrapper, pressure<->sigma,
hybrid->sigma, surface pressure, bilinear and nearest regridders, validation.
Queries are adversarial: exactly at nodes, midpoints, +-1 ulp around nodes and around the
extrapolation limits, just outside, far outside, duplicates.
Sentinel probes evaluate the property itself on the real code against independent numpy oracles.

One-node node sets: finding `dot-interp-one-node` (`_dot_interp(2.0,[2.0],[7.0])` was 0.0, `jnp.interp` 7.0) is
repaired by the left override `x <= xp[0]` of `_dot_interp`; the model mirrors the repaired code
(`Dino.Interp.dotInterp`, theorems `dotInterp_one_node`, `dotInterp_eq_interp` for every node count >= 1).  The
probe expects the two code paths to be equal at, below and above the only node, and one-node sets are part of the
`_dot_interp` correspondence stream.  The pre-repair routine (`dotInterpOld`, theorem
`dotInterpOld_one_node_ne_interp`) is replayed against the model only.

Outside the model (documented): NaN queries and denormal queries (XLA on CPU treats denormals as
zero, so `-5e-324 < 0.0` is false there); the +-1 ulp neighbours of a node `0.0` are therefore
taken at +-`finfo.tiny`.
"""
import functools

import numpy as np

import common
from common import fvec, fbits, fmat, unfvec, unfmat, unfbits, univec
import dinoutil

RULE = ('nodes: 1..12 strictly increasing (uniform / uneven / strongly uneven with spacing ratios up to e^6 / '
        'sigma centres / pressure levels; scales 1e-3..1e5, offsets of both signs); data: standard normal and '
        'affine columns; queries: all nodes, midpoints, +-1 ulp around every node and around the extrapolation '
        'limits, random inside, just outside, far outside (1e6 ranges), duplicates; batched shapes with 1..3 '
        'horizontal points and a leading batch axis; both code paths (jnp.interp and _dot_interp). A case is '
        'non-trivial when it has >= 2 nodes of different spacing or is a validation / corner case; '
        'distinct = distinct (op, nodes, data, queries) hashes')

NAN = float('nan')
NQ = 96   # number of near queries per case (padded with duplicates)


def unopt(s):
  return [] if s == '_' else [NAN if t == 'nan' else unfbits(t) for t in s.split(',')]


EPS = 2.0 ** -104    # np.spacing(np.finfo(np.float64).eps): the guard of jnp.interp
SEP_SEEN = [0, 0]    # node sets generated / node sets violating the hypothesis `Sep eps` of the theorems


def check_sep(x):
  SEP_SEEN[0] += 1
  if len(x) >= 2 and not (np.diff(x) > EPS).all():
    SEP_SEEN[1] += 1


def gen_nodes(rng, n, kind=None):
  """Strictly increasing float64 nodes."""
  x, kind = _gen_nodes(rng, n, kind)
  check_sep(x)
  return x, kind


def _gen_nodes(rng, n, kind=None):
  if kind is None:
    kind = str(rng.choice(['uniform', 'uneven', 'strongly-uneven', 'sigma', 'pressure']))
  if n == 1:
    return np.array([float(rng.choice([0.5, -2.0, 1013.25, rng.standard_normal()]))]), kind
  if kind == 'uniform':
    x = np.linspace(0.0, 1.0, n)
  elif kind == 'uneven':
    x = np.cumsum(rng.uniform(0.5, 1.5, n))
  elif kind == 'strongly-uneven':
    x = np.cumsum(np.exp(rng.uniform(-3, 3, n)))
  elif kind == 'sigma':
    b, _ = dinoutil.random_boundaries(rng, n)
    x = (b[1:] + b[:-1]) / 2
  else:
    levels = np.array([1, 2, 3, 5, 7, 10, 20, 30, 50, 70, 100, 125, 150, 175, 200, 225, 250, 300, 350,
                       400, 450, 500, 550, 600, 650, 700, 750, 775, 800, 825, 850, 875, 900, 925, 950,
                       975, 1000], dtype=float)
    x = np.sort(rng.choice(levels, n, replace=False))
  if kind in ('uniform', 'uneven', 'strongly-uneven'):
    scale = float(rng.choice([1.0, 1.0, 1e-3, 1e3, 101325.0]))
    shift = float(rng.choice([0.0, 0.0, -0.5, 3.0])) * (x[-1] - x[0])
    x = (x + shift) * scale
  x = np.asarray(x, dtype=float)
  assert (np.diff(x) > 0).all()
  return x, kind


def ulp_up(v):
  return np.finfo(float).tiny if v == 0 else float(np.nextafter(v, np.inf))


def ulp_down(v):
  return -np.finfo(float).tiny if v == 0 else float(np.nextafter(v, -np.inf))


def near_queries(rng, xp, special=()):
  """Adversarial queries of moderate size (nodes, midpoints, +-1 ulp, just outside, duplicates)."""
  n = len(xp)
  lo, hi = float(xp[0]), float(xp[-1])
  span = (hi - lo) if n > 1 else max(1.0, abs(lo))
  q = [float(v) for v in xp]
  q += [float(v) for v in (xp[1:] + xp[:-1]) / 2]
  q += [ulp_up(v) for v in xp] + [ulp_down(v) for v in xp]
  for v in special:
    q += [float(v), ulp_up(float(v)), ulp_down(float(v))]
  if n > 1:
    q += [float(v) for v in rng.uniform(lo, hi, 4)]
  q += [lo - 0.3 * span, hi + 0.3 * span, lo - 1e-9 * span, hi + 1e-9 * span,
        lo - 1.7 * span, hi + 2.2 * span]
  # duplicates; the total is fixed so that the jitted functions are compiled once per node count
  q += [q[int(i)] for i in rng.integers(0, len(q), max(3, NQ - len(q)))]
  q = np.array(q)
  rng.shuffle(q)
  return q


def far_queries(xp):
  n = len(xp)
  lo, hi = float(xp[0]), float(xp[-1])
  span = (hi - lo) if n > 1 else max(1.0, abs(lo))
  return np.array([lo - 1e6 * span, hi + 1e6 * span, lo - 37.5 * span, hi + 12.25 * span])


def np_pad(y, n):
  """numpy replica of `_extrapolate_both` applied n times (same operations, same order)."""
  y = np.asarray(y, dtype=float)
  for _ in range(n):
    y = np.concatenate([y, [y[-1] + (y[-1] - y[-2])]])
    y = np.concatenate([[y[0] - (y[1] - y[0])], y])
  return y


def oracle_linext(x, xp, fp):
  """Independent oracle: np.interp inside, straight line of the end cells outside."""
  x = np.asarray(x, dtype=float)
  out = np.interp(x, xp, fp)
  left = x < xp[0]
  right = x > xp[-1]
  out = np.where(left, fp[0] + (x - xp[0]) * (fp[1] - fp[0]) / (xp[1] - xp[0]), out)
  out = np.where(right, fp[-1] + (x - xp[-1]) * (fp[-1] - fp[-2]) / (xp[-1] - xp[-2]), out)
  return out


def hav_matrix(lat_t, lon_t, lat_s, lon_s):
  dlat = lat_s[None, :] - lat_t[:, None]
  dlon = lon_s[None, :] - lon_t[:, None]
  return np.sin(dlat / 2) ** 2 + np.cos(lat_t)[:, None] * np.cos(lat_s)[None, :] * np.sin(dlon / 2) ** 2


def run(ctx: common.Ctx):
  jax = common.setup_jax()
  import jax.numpy as jnp
  from dinosaur import vertical_interpolation as vi
  SEP_SEEN[0] = SEP_SEEN[1] = 0
  from dinosaur import horizontal_interpolation as hi
  from dinosaur import sigma_coordinates as sc
  from dinosaur import spherical_harmonic as sh
  from dinosaur import primitive_equations as pe

  ctx.lean('DinoProofs.Properties.C17', 'C17.txt',
           extra_files=['DinoProofs/Lemmas/Interp.lean', 'Dino/Interp.lean'])

  rng = ctx.rng
  lines, checks = [], []   # checks: (op, inp, impl_value, kind)
  import time
  timing, t_last = {}, [ctx.t0]

  def tick(name):
    timing[name] = round(time.time() - t_last[0], 1)
    t_last[0] = time.time()

  tick('lean build + axiom audit')

  def add(line, op, inp, impl, kind='vec'):
    lines.append(line)
    checks.append((op, inp, impl, kind))

  vdot = jax.vmap(vi._dot_interp, (0, None, None))
  vlin = jax.vmap(vi.linear_interp_with_linear_extrap, (0, None, None))
  A = jnp.asarray
  # one XLA program per (function, shape): much cheaper than op-by-op dispatch
  v_int = jax.vmap(vi.interp, (0, None, None))

  # all routines of one case in ONE XLA program per (node count, n): XLA compilation dominates the wall time
  def _bundle(q, xp_, fp_, n):
    return dict(dot=vdot(q, xp_, fp_), lin=vlin(q, xp_, fp_),
                safe=vi._linear_interp_with_safe_extrap(q, xp_, fp_, n=n),
                vint=vi.vertical_interpolation(q, xp_, fp_), int=v_int(q, xp_, fp_),
                ss_default=jnp.searchsorted(xp_, q, side='right'),
                ss_compare_all=jnp.searchsorted(xp_, q, side='right', method='compare_all'))
  j_bundle = jax.jit(_bundle, static_argnames='n')

  # ------------------------------------------------------------------ correspondence: scalar paths
  ncases = ctx.n(18, 360)
  forced = [(1, 'uniform'), (2, 'uniform'), (2, 'strongly-uneven'), (3, 'sigma'), (12, 'strongly-uneven'),
            (1, 'pressure'), (12, 'pressure'), (3, 'uniform')]
  # every distinct node count costs one XLA compilation per routine: the quick tier draws from the corners
  # {1, 2, 3, 12} plus two seed-dependent counts, the thorough tier from all of 2..12
  n_pool = list(range(2, 13)) if not ctx.quick else [2, 3, 12] + [int(v) for v in rng.choice(range(4, 12), 2, replace=False)]
  corr_pool = [1] + n_pool     # one-node sets belong to the stream (both paths of `interp` are defined and equal there)
  for ci in range(ncases):
    if ci < len(forced):
      n, kind = forced[ci]
    else:
      n, kind = int(rng.choice(corr_pool)), None
    xp, kind = gen_nodes(rng, n, kind)
    data_kind = str(rng.choice(['normal', 'affine', 'monotone']))
    if data_kind == 'normal':
      fp = rng.standard_normal(n) * float(rng.choice([1.0, 300.0]))
    elif data_kind == 'affine':
      fp = rng.standard_normal() + rng.standard_normal() * xp / max(1e-300, np.abs(xp).max())
    else:
      fp = np.cumsum(rng.uniform(0.1, 2.0, n))
    nsafe = int(rng.choice([0, 1, 1, 2, 3])) if not ctx.quick else [1, 2, 0, 3, 1][(n + ctx.seed) % 5]
    limits = np_pad(xp, nsafe) if n >= 2 else xp
    special = [] if n < 2 else [limits[0], limits[-1]] + list(limits[:nsafe]) + list(limits[len(limits) - nsafe:])
    xs = near_queries(rng, xp, special)
    xf = far_queries(xp)
    ctx.dist[f'nodes={n}'] += 1
    ctx.dist[f'kind={kind}'] += 1
    ctx.dist[f'data={data_kind}'] += 1
    ctx.dist[f'safe-n={nsafe}'] += 1
    nontriv = n == 1 or (n >= 2 and (n == 2 or np.ptp(np.diff(xp)) > 1e-12 * abs(xp[-1] - xp[0])))
    ctx.case(('scalar', xp.tobytes(), fp.tobytes(), xs.tobytes()), nontrivial=nontriv,
             sample=dict(nodes=xp.tolist(), values=fp.tolist(), n_queries=len(xs), safe_n=nsafe))
    base = dict(xp=xp.tolist(), fp=fp.tolist())
    with ctx.impl('corr-exception', base, 'implementation raised in the correspondence run'):
      qall = np.concatenate([xs, xf])
      # op-by-op dispatch as well as the jitted programs (quick: a one-node and a three-node case)
      eager = (ci % 6 == 0) if not ctx.quick else ci in (0, 3)
      ctx.dist['dispatch=' + ('eager' if eager else 'jit')] += 1
      if eager:
        r_dot, r_lin = vdot(A(qall), A(xp), A(fp)), vlin(A(qall), A(xp), A(fp))
        r_safe = vi._linear_interp_with_safe_extrap(A(qall), A(xp), A(fp), n=nsafe)
        r_vint = vi.vertical_interpolation(A(qall), xp, A(fp))
        r_ss = {m: jnp.searchsorted(A(xp), A(qall), side='right', **({} if m is None else dict(method=m)))
                for m in (None, 'compare_all')}
        r_int = v_int(A(qall), A(xp), A(fp))     # scalar queries under vmap, as the repository calls it
      else:
        rb = j_bundle(A(qall), A(xp), A(fp), n=nsafe)
        r_dot, r_lin, r_safe, r_vint, r_int = rb['dot'], rb['lin'], rb['safe'], rb['vint'], rb['int']
        r_ss = {None: rb['ss_default'], 'compare_all': rb['ss_compare_all']}
      res = dict(dot=np.asarray(r_dot), lin=np.asarray(r_lin), safe=np.asarray(r_safe), vint=np.asarray(r_vint),
                 int=np.asarray(r_int), ss={m: np.asarray(v) for m, v in r_ss.items()})
      for sl, tag in ((slice(0, len(xs)), 'near'), (slice(len(xs), None), 'far')):
        q = qall[sl]
        inp = dict(base, x=q.tolist(), queries=tag)
        xs_, xp_, fp_ = fvec(q), fvec(xp), fvec(fp)
        for method in (None, 'compare_all'):
          add(f'interp F ssr {xp_} {xs_}', f'jnp.searchsorted[right,{method or "default"}]', inp,
              [int(v) for v in res['ss'][method][sl]], 'ivec')
        add(f'interp F interp {xp_} {fp_} {xs_}', 'interp (jnp.interp path)', inp, res['int'][sl])
        add(f'interp F interp {xp_} {fp_} {xs_}', 'vertical_interpolation', inp, res['vint'][sl])
        add(f'interp F dot {xp_} {fp_} {xs_}', '_dot_interp', inp, res['dot'][sl])
        add(f'interp F linext {xp_} {fp_} {xs_}', 'linear_interp_with_linear_extrap', inp, res['lin'][sl])
        add(f'interp F safe {nsafe} {xp_} {fp_} {xs_}', f'_linear_interp_with_safe_extrap[n={nsafe}]', inp,
            res['safe'][sl], 'opt')

  tick('corr scalar paths')
  # ------------------------------------------------------------------ correspondence: batched wrapper
  nb = ctx.n(5, 50)
  fns = [('interp', vi.interp, lambda xp_, fp_, xs_: f'interp F interp {xp_} {fp_} {xs_}', 'vec'),
         ('_dot_interp', vi._dot_interp, lambda xp_, fp_, xs_: f'interp F dot {xp_} {fp_} {xs_}', 'vec'),
         ('linear_extrap', vi.linear_interp_with_linear_extrap,
          lambda xp_, fp_, xs_: f'interp F linext {xp_} {fp_} {xs_}', 'vec'),
         ('safe1', vi._linear_interp_with_safe_extrap, lambda xp_, fp_, xs_: f'interp F safe 1 {xp_} {fp_} {xs_}', 'opt'),
         ('safe2', functools.partial(vi._linear_interp_with_safe_extrap, n=2),
          lambda xp_, fp_, xs_: f'interp F safe 2 {xp_} {fp_} {xs_}', 'opt')]
  for bi in range(nb):
    n = int(rng.choice([2, 3, 5, 8, 12]))
    xp, kind = gen_nodes(rng, n)
    X, Y = int(rng.choice([1, 2, 3])), int(rng.choice([1, 2, 3]))
    lead = () if rng.random() < 0.6 else (2,)
    pool = near_queries(rng, xp, [np_pad(xp, 2)[0], np_pad(xp, 1)[-1]])
    na = int(rng.choice([1, 2, 4, 7]))
    x = rng.choice(pool, size=lead + (na, X, Y))
    fp = rng.standard_normal(lead + (n, X, Y))
    name, fn, mk, okind = fns[bi % len(fns)]
    ctx.dist[f'batched:{name}'] += 1
    ctx.dist[f'batched-shape-ndim={x.ndim}'] += 1
    ctx.case(('batched', name, xp.tobytes(), x.tobytes(), fp.tobytes()), nontrivial=True)
    inp0 = dict(fn=name, xp=xp.tolist(), x_shape=list(x.shape))
    with ctx.impl('corr-exception', inp0, 'vectorize_vertical_interpolation raised'):
      out = np.asarray(vi.vectorize_vertical_interpolation(fn)(A(x), A(xp), A(fp)))
      if out.shape != x.shape:
        ctx.corr_mismatch('vectorize_vertical_interpolation', inp0, list(out.shape), list(x.shape), 'shape')
        continue
      for (idx, xcol), (_, fcol), (_, ocol) in zip(dinoutil.columns(x, -3), dinoutil.columns(fp, -3),
                                                   dinoutil.columns(out, -3)):
        add(mk(fvec(xp), fvec(fcol), fvec(xcol)), f'vectorize_vertical_interpolation[{name}]',
            dict(inp0, column=list(idx), x=xcol.tolist(), fp=fcol.tolist()), ocol, okind)

  tick('corr batched')
  # ------------------------------------------------------------------ correspondence: coordinates
  nc = ctx.n(3, 36)
  interp_fns = {'safe': None, 'const': vi.vectorize_vertical_interpolation(vi.interp),
                'linear': vi.vectorize_vertical_interpolation(vi.linear_interp_with_linear_extrap)}
  def batched_columns(fname, ob, fb, nout, spb, inp0, mk, tag):
    """Every column of a leaf with leading batch dimensions [..., level, x, y] against the model (per column)."""
    want_shape = fb.shape[:-3] + (nout,) + fb.shape[-2:]
    if ob.shape != want_shape:
      ctx.corr_mismatch(f'{fname}[batched leaf]{tag}', dict(inp0, leaf_shape=list(fb.shape)), list(ob.shape),
                        list(want_shape), 'shape')
      return
    spf = np.broadcast_to(spb, fb.shape[:-3] + (1,) + fb.shape[-2:])
    for (idx, fcol), (_, ocol), (_, spc) in zip(dinoutil.columns(fb, -3), dinoutil.columns(ob, -3),
                                                dinoutil.columns(spf, -3)):
      add(mk(fcol, spc[0]), f'{fname}[batched leaf]{tag}',
          dict(inp0, leaf_shape=list(fb.shape), column=list(idx), sp=float(spc[0]), f=fcol.tolist()), ocol, 'opt')

  for ki in range(nc):
    ns = int(rng.choice([2, 3, 5, 8, 12]))
    b, bkind = dinoutil.random_boundaries(rng, ns)
    sigma = sc.SigmaCoordinates(b)
    check_sep(sigma.centers)
    npc = int(rng.choice([2, 3, 6, 12]))
    pcent, _ = gen_nodes(rng, npc, 'pressure')
    pcoords = vi.PressureCoordinates(pcent)
    X, Y = int(rng.choice([1, 2])), int(rng.choice([1, 3]))
    sp = rng.uniform(500.0, 1050.0, (1, X, Y))
    kindf = ['safe', 'const', 'linear'][ki % 3]
    kw = {} if kindf == 'safe' else dict(interpolate_fn=interp_fns[kindf])
    # leading batch dimensions (times / members) of the batched leaves; the leading size differs from every number of
    # levels of the case, so that no axis can be mistaken for the level axis (third from last)
    lead = [(2,), (3, 2), (4,), (2, 3)][(ki + ctx.seed) % 4]
    while lead[0] in (npc, ns):
      lead = (lead[0] + 1,) + lead[1:]
    ctx.dist[f'coords:batched-leading-dims={len(lead)}'] += 1
    ctx.dist[f'coords:{kindf}'] += 1
    ctx.case(('coords', b.tobytes(), pcent.tobytes(), sp.tobytes()), nontrivial=True,
             sample=dict(sigma_boundaries=b.tolist(), pressure=pcent.tolist(), sp=sp.ravel().tolist()))
    inp0 = dict(sigma_boundaries=b.tolist(), pressure=pcent.tolist(), interpolate_fn=kindf)
    with ctx.impl('corr-exception', inp0, 'pressure/sigma regridding raised'):
      fs = rng.standard_normal((ns, X, Y))
      fsb = rng.standard_normal(lead + (ns, X, Y))       # leading batch dimensions [..., level, x, y]
      fields = {'u': fs, 'ub': fsb, 'scalar': 3.0}
      out = vi.interp_sigma_to_pressure(fields, pcoords, sigma, A(sp), **kw)
      ctx.corr_exact('interp_sigma_to_pressure[scalar leaf]', inp0, float(out['scalar']), 3.0)
      o = np.asarray(out['u'])
      for (idx, fcol), (_, ocol), (_, spc) in zip(dinoutil.columns(fs, 0), dinoutil.columns(o, 0),
                                                  dinoutil.columns(sp, 0)):
        add(f'interp F s2p {kindf} {fvec(sigma.centers)} {fvec(pcent)} {fbits(spc[0])} {fvec(fcol)}',
            f'interp_sigma_to_pressure[{kindf}]', dict(inp0, sp=float(spc[0]), f=fcol.tolist()), ocol, 'opt')
      batched_columns('interp_sigma_to_pressure', np.asarray(out['ub']), fsb, npc, sp, inp0,
                      lambda fcol, spv: f'interp F s2p {kindf} {fvec(sigma.centers)} {fvec(pcent)} {fbits(spv)} {fvec(fcol)}',
                      f'[{kindf}]')
      fpz = rng.standard_normal((npc, X, Y))
      fpzb = rng.standard_normal(lead + (npc, X, Y))     # leading batch dimensions: on the pressure levels as well
      other = rng.standard_normal((npc + 1, X, Y))     # not on pressure levels: must pass through
      otherb = rng.standard_normal((npc,) + (npc + 2, X, Y))   # level axis (third from last) has another size: passes
      out = vi.interp_pressure_to_sigma({'t': fpz, 'tb': fpzb, 'other': other, 'sp2d': sp[0]},
                                        pcoords, sigma, A(sp), **kw)
      ctx.corr_exact('interp_pressure_to_sigma[non-level leaves pass through]', inp0,
                     bool(np.array_equal(np.asarray(out['other']), other) and
                          np.array_equal(np.asarray(out['sp2d']), sp[0])), True)
      o = np.asarray(out['t'])
      for (idx, fcol), (_, ocol), (_, spc) in zip(dinoutil.columns(fpz, 0), dinoutil.columns(o, 0),
                                                  dinoutil.columns(sp, 0)):
        add(f'interp F p2s {kindf} {fvec(pcent)} {fvec(sigma.centers)} {fbits(spc[0])} {fvec(fcol)}',
            f'interp_pressure_to_sigma[{kindf}]', dict(inp0, sp=float(spc[0]), f=fcol.tolist()), ocol, 'opt')
      batched_columns('interp_pressure_to_sigma', np.asarray(out['tb']), fpzb, ns, sp, inp0,
                      lambda fcol, spv: f'interp F p2s {kindf} {fvec(pcent)} {fvec(sigma.centers)} {fbits(spv)} {fvec(fcol)}',
                      f'[{kindf}]')
      with ctx.impl('corr-exception', dict(inp0, leaf_shape=list(otherb.shape)),
                    'interp_pressure_to_sigma raised on a leaf whose level axis (third from last) is not on the pressure levels'):
        ob_ = np.asarray(vi.interp_pressure_to_sigma({'otherb': otherb}, pcoords, sigma, A(sp), **kw)['otherb'])
        ctx.corr_exact('interp_pressure_to_sigma[batched non-level leaf passes through]',
                       dict(inp0, leaf_shape=list(otherb.shape)), bool(np.array_equal(ob_, otherb)), True)
      # hybrid -> sigma
      nh = int(rng.choice([2, 3, 6]))
      pb = np.concatenate([[0.0], np.cumsum(rng.uniform(0.5, 1.5, nh))])
      pb = pb / pb[-1] * 1000.0
      bb = np.linspace(0, 1, nh + 1) ** 2
      ab = pb - bb * 1000.0
      hyb = vi.HybridCoordinates(a_boundaries=ab, b_boundaries=bb)
      fh = rng.standard_normal((nh, X, Y))
      sph = rng.uniform(950.0, 1050.0, (1, X, Y))
      for v in sph.ravel():
        check_sep(hyb.get_sigma_centers(v))
      if not all((np.diff(hyb.get_sigma_centers(v)) > 0).all() for v in sph.ravel()):
        ctx.dist['hybrid:source-not-increasing-skipped'] += 1
        continue
      leadh = lead if lead[0] != nh else (lead[0] + 3,) + lead[1:]
      fhb = rng.standard_normal(leadh + (nh, X, Y))
      outh = vi.interp_hybrid_to_sigma({'a': fh, 'ab': fhb}, hyb, sigma, A(sph[0]))
      oh = np.asarray(outh['a'])
      batched_columns('interp_hybrid_to_sigma', np.asarray(outh['ab']), fhb, ns, sph, dict(inp0, a=ab.tolist(), b=bb.tolist()),
                      lambda fcol, spv: f'interp F h2s {fvec(ab)} {fvec(bb)} {fvec(sigma.centers)} {fbits(spv)} {fvec(fcol)}',
                      '')
      add(f'interp F hcent {fvec(ab)} {fvec(bb)} {fbits(sph[0, 0, 0])}', 'HybridCoordinates.get_sigma_centers',
          dict(a=ab.tolist(), b=bb.tolist(), sp=float(sph[0, 0, 0])), hyb.get_sigma_centers(sph[0, 0, 0]))
      for (idx, fcol), (_, ocol), (_, spc) in zip(dinoutil.columns(fh, 0), dinoutil.columns(oh, 0),
                                                  dinoutil.columns(sph, 0)):
        add(f'interp F h2s {fvec(ab)} {fvec(bb)} {fvec(sigma.centers)} {fbits(spc[0])} {fvec(fcol)}',
            'interp_hybrid_to_sigma', dict(inp0, a=ab.tolist(), b=bb.tolist(), sp=float(spc[0]), f=fcol.tolist()),
            ocol, 'opt')
      # surface pressure
      grav = float(rng.choice([9.80616, 10.0, 1.0]))
      geo = np.cumsum(rng.uniform(200.0, 3000.0, (npc, X, Y)), axis=0)[::-1] * grav - 500.0 * grav
      oro = rng.uniform(-100.0, 3000.0, (1, X, Y))
      ops = np.asarray(vi.get_surface_pressure(pcoords, A(geo), A(oro), grav))
      if ops.shape != (1, X, Y):
        ctx.corr_mismatch('get_surface_pressure', inp0, list(ops.shape), [1, X, Y], 'shape')
      else:
        for (idx, gcol), (_, ocol), (_, oc) in zip(dinoutil.columns(geo, 0), dinoutil.columns(ops, 0),
                                                   dinoutil.columns(oro, 0)):
          add(f'interp F psurf {fvec(pcent)} {fvec(gcol)} {fbits(oc[0])} {fbits(grav)}', 'get_surface_pressure',
              dict(levels=pcent.tolist(), geopotential=gcol.tolist(), orography=float(oc[0]), g=grav), ocol, 'scalar')

  tick('corr coordinates')
  # semi-Lagrangian vertical interpolation (constant extrapolation), 1-D and 3-D coordinates
  for si in range(ctx.n(2, 24)):
    n = int(rng.choice([1, 2, 3, 6]))
    xp, _ = gen_nodes(rng, n, 'sigma' if n > 1 else 'uniform')
    X, Y = 2, int(rng.choice([1, 3]))
    fp = rng.standard_normal((n, X, Y))
    tgt = xp[:, None, None] - rng.standard_normal((n, X, Y)) * 0.2 * (si % 2)   # si even: zero velocity
    ctx.dist['semi-lagrangian'] += 1
    ctx.case(('sl', xp.tobytes(), fp.tobytes(), tgt.tobytes()), nontrivial=True)
    with ctx.impl('corr-exception', dict(xp=xp.tolist()), 'primitive_equations._vertical_interp raised'):
      out = np.asarray(pe._vertical_interp(A(tgt), A(xp), A(fp)))
      for (idx, xcol), (_, fcol), (_, ocol) in zip(dinoutil.columns(tgt, 0), dinoutil.columns(fp, 0),
                                                   dinoutil.columns(out, 0)):
        add(f'interp F interp {fvec(xp)} {fvec(fcol)} {fvec(xcol)}', 'primitive_equations._vertical_interp',
            dict(xp=xp.tolist(), fp=fcol.tolist(), x=xcol.tolist()), ocol)
      # as the semi-Lagrangian step calls it: 1-D targets, 3-D (per column, still increasing) source nodes
      src = np.sort(tgt, axis=0)
      if n == 1 or (np.diff(src, axis=0) > 0).all():
        out = np.asarray(pe._vertical_interp(A(xp), A(src), A(fp)))
        for (idx, scol), (_, fcol), (_, ocol) in zip(dinoutil.columns(src, 0), dinoutil.columns(fp, 0),
                                                     dinoutil.columns(out, 0)):
          add(f'interp F interp {fvec(scol)} {fvec(fcol)} {fvec(xp)}', 'primitive_equations._vertical_interp[3-D nodes]',
              dict(xp=scol.tolist(), fp=fcol.tolist(), x=xp.tolist()), ocol)

  tick('corr semi-lagrangian')
  # ------------------------------------------------------------------ correspondence: horizontal
  grid_table = [(8, 4, 'gauss', 0.0), (6, 5, 'equiangular', 0.1), (4, 2, 'gauss', 0.0), (12, 6, 'gauss', 0.3),
                (5, 3, 'equiangular', 0.0), (10, 7, 'equiangular_with_poles', 0.05), (16, 8, 'gauss', 0.0)]

  def mkgrid(t):
    return sh.Grid(longitude_nodes=t[0], latitude_nodes=t[1], latitude_spacing=t[2], longitude_offset=t[3])

  nh_cases = ctx.n(4, 24)
  horiz_pairs = []
  for hi_ in range(nh_cases):
    ts = grid_table[int(rng.integers(0, len(grid_table)))] if hi_ >= 2 else grid_table[hi_]
    tt = grid_table[int(rng.integers(0, len(grid_table)))] if hi_ >= 2 else grid_table[1 - hi_]
    if hi_ % 3 == 2:
      tt = ts
    horiz_pairs.append((ts, tt, None))
  # SEQUENCES of regridders between grids that have the same node counts and latitude spacing and differ only in the
  # longitude offset (by 1.25 / 0.75 longitude cells, so the nearest indices really differ), used one after the other
  # in one process, in both orders: rotated pair first then the equal pair, and the equal pair first then the rotated
  # pair.  The index table of every regridder is a function of ITS OWN two grids only (model: brute-force haversine
  # argmin), whatever was regridded before.
  (lo1, la1, sp1), (lo2, la2, sp2) = [[(9, 5, 'gauss'), (7, 4, 'equiangular')], [(7, 5, 'gauss'), (9, 4, 'equiangular')],
                                      [(9, 4, 'gauss'), (7, 5, 'equiangular')]][ctx.seed % 3]
  pl1, ro1 = (lo1, la1, sp1, 0.0), (lo1, la1, sp1, 1.25 * 2 * np.pi / lo1)
  pl2, ro2 = (lo2, la2, sp2, 0.0), (lo2, la2, sp2, 0.75 * 2 * np.pi / lo2)
  horiz_pairs += [(pl1, ro1, 'rotated-first'), (pl1, pl1, 'equal-after-rotated'),
                  (ro2, ro2, 'equal-first'), (ro2, pl2, 'rotated-after-equal')]
  for ts, tt, seq in horiz_pairs:
    gs, gt = mkgrid(ts), mkgrid(tt)
    field = rng.standard_normal(gs.nodal_shape)
    inp0 = dict(source=list(ts), target=list(tt))
    if seq is not None:
      inp0['sequence'] = seq
      ctx.dist['horizontal:offset-sequence:' + seq] += 1
    ctx.dist['horizontal:' + ('same' if ts == tt else 'different')] += 1
    ctx.case(('horiz', ts, tt, field.tobytes()), nontrivial=True, sample=inp0)
    with ctx.impl('corr-exception', inp0, 'horizontal regridder raised'):
      lead = rng.standard_normal((2,) + gs.nodal_shape)
      ob = np.asarray(hi.BilinearRegridder(gs, gt)(A(field)))
      add(f'interp F bilin {fvec(gs.longitudes)} {fvec(gs.latitudes)} {fvec(gt.longitudes)} {fvec(gt.latitudes)} '
          f'{fmat(field)}', 'BilinearRegridder', dict(inp0, field=field.tolist()), ob, 'mat')
      ob2 = np.asarray(hi.BilinearRegridder(gs, gt)(A(lead)))
      add(f'interp F bilin {fvec(gs.longitudes)} {fvec(gs.latitudes)} {fvec(gt.longitudes)} {fvec(gt.latitudes)} '
          f'{fmat(lead[1])}', 'BilinearRegridder[batched]', dict(inp0, field=lead[1].tolist()), ob2[1], 'mat')
      # nearest: BallTree is external; compare with the brute-force haversine argmin of the model
      nr = hi.NearestRegridder(gs, gt)
      idx = [int(v) for v in np.asarray(nr.indices)]
      lon_s, sl_s = gs.nodal_mesh
      lon_t, sl_t = gt.nodal_mesh
      lat_s, lat_t = np.arcsin(sl_s).ravel(), np.arcsin(sl_t).ravel()
      lon_s, lon_t = lon_s.ravel(), lon_t.ravel()
      hm = hav_matrix(lat_t, lon_t, lat_s, lon_s)
      lines.append(f'interp F nearest {fvec(lat_s)} {fvec(lon_s)} {fvec(lat_t)} {fvec(lon_t)}')
      checks.append(('NearestRegridder.indices', dict(inp0), (idx, hm), 'nearest'))
      on = np.asarray(nr(A(field)))
      add(f'interp F take {fvec(field.ravel())} {",".join(str(i) for i in idx)}', 'NearestRegridder.__call__',
          dict(inp0, field=field.tolist()), on.ravel())

  tick('corr horizontal')
  # ------------------------------------------------------------------ validation / malformed stream
  def err_kind(f):
    """(error kind, value): the implementation is called once"""
    try:
      return 'ok', np.asarray(f()).ravel()
    except ValueError:
      return 'value-error', None
    except IndexError:
      return 'index-error', None
    except TypeError:
      return 'type-error', None

  nval = ctx.n(15, 240)
  for vi_ in range(nval):
    n = int(rng.choice([0, 1, 2, 3, 5]))
    m = n if vi_ % 3 == 0 else int(rng.choice([0, 1, 2, 3, 4]))
    xp = np.sort(rng.standard_normal(n))
    fp = rng.standard_normal(m)
    x = float(rng.standard_normal())
    inp = dict(xp=xp.tolist(), fp=fp.tolist(), x=x)
    ctx.dist[f'malformed:n={n},m={m}'] += 1
    ctx.case(('malformed', n, m, xp.tobytes(), fp.tobytes()), nontrivial=True)
    for name, call, op in (
        ('interp', lambda: vi.interp(x, A(xp), A(fp)), 'interp'),
        ('_dot_interp', lambda: vi._dot_interp(x, A(xp), A(fp)), 'dot'),
        ('linear_interp_with_linear_extrap', lambda: vi.linear_interp_with_linear_extrap(x, A(xp), A(fp)), 'linext'),
        ('_linear_interp_with_safe_extrap', lambda: vi._linear_interp_with_safe_extrap(x, A(xp), A(fp)), 'safe 1')):
      k, val = err_kind(call)
      ctx.dist[f'malformed:{name}:{k}'] += 1
      if k == 'ok':
        add(f'interp F {op} {fvec(xp)} {fvec(fp)} {fbits(x)}', f'{name}[corner]', inp, val,
            'opt' if op.startswith('safe') else 'vec')
      else:
        add(f'interp F {op} {fvec(xp)} {fvec(fp)} {fbits(x)}', f'{name}[error kind]', inp, k, 'err')
  for vi_ in range(ctx.n(20, 300)):
    n = int(rng.choice([0, 1, 2, 3, 6]))
    c = np.sort(rng.uniform(1, 1000, n))
    mode = ['ok', 'dup', 'swap', 'neg-step', 'ok'][vi_ % 5]
    if mode == 'dup' and n >= 2:
      c[1] = c[0]
    elif mode == 'swap' and n >= 3:
      c[1], c[2] = c[2], c[1]
    elif mode == 'neg-step' and n >= 2:
      c[-1] = c[-2] - 1e-9
    try:
      vi.PressureCoordinates(c)
      acc = True
    except ValueError:
      acc = False
    ctx.dist[f'validation:{mode}:{"accept" if acc else "reject"}'] += 1
    ctx.case(('validation', c.tobytes()), nontrivial=True)
    add(f'interp F incr {fvec(c)}', 'PressureCoordinates.__init__', dict(centers=c.tolist()), acc, 'bool')
    ctx.expect(acc == bool((np.diff(c) > 0).all()), 'validation',
               f'PressureCoordinates accepted={acc} for {c.tolist()}', dict(centers=c.tolist()))

  # one-node node sets on both code paths, scalar calls (eager) and vmapped + jitted, queries at / around / far from the node
  j_one = jax.jit(lambda q, xp_, fp_: (v_int(q, xp_, fp_), vdot(q, xp_, fp_)))
  one_sets = [(2.0, 7.0), (0.0, -3.5), (-1013.25, 1e-3), (0.5, 0.0)] + [
      (float(rng.standard_normal() * 10.0 ** int(rng.integers(-3, 6))), float(rng.standard_normal()))
      for _ in range(ctx.n(3, 40))]
  one_results = []
  for a, f in one_sets:
    w = 1.5 + abs(a)
    q = np.array([a, ulp_down(a), ulp_up(a), a - w, a + w, a - 1e6 * w, a + 1e6 * w, a])
    inp = dict(xp=[a], fp=[f], x=q.tolist())
    ctx.dist['one-node sets (dedicated stream)'] += 1
    ctx.case(('one-node', a, f), nontrivial=True)
    with ctx.impl('corr-exception', inp, 'implementation raised on a one-node node set'):
      e_i = np.array([float(vi.interp(float(x), A([a]), A([f]))) for x in q])
      e_d = np.array([float(vi._dot_interp(float(x), A([a]), A([f]))) for x in q])
      b_i, b_d = (np.asarray(v) for v in j_one(A(q), A([a]), A([f])))
      one_results.append((a, f, q, e_i, e_d, b_i, b_d))
      for tag, r_i, r_d in (('eager', e_i, e_d), ('jit+vmap', b_i, b_d)):
        add(f'interp F interp {fbits(a)} {fbits(f)} {fvec(q)}', f'interp (jnp.interp path)[one node, {tag}]', inp, r_i)
        add(f'interp F dot {fbits(a)} {fbits(f)} {fvec(q)}', f'_dot_interp[one node, {tag}]', inp, r_d)
  # the pre-repair `_dot_interp` (Dino.Interp.dotInterpOld), replayed against the MODEL ONLY: it returns 0 at the only
  # node and the node value elsewhere, while the model of the current code returns the node value everywhere
  w_q = [2.0, 1.0, 3.0, ulp_down(2.0), ulp_up(2.0)]
  for op_, want in (('dotold', [0.0, 7.0, 7.0, 7.0, 7.0]), ('dot', [7.0] * 5), ('interp', [7.0] * 5)):
    lines.append(f'interp F {op_} {fbits(2.0)} {fbits(7.0)} {fvec(w_q)}')
    checks.append((op_, dict(x=w_q, xp=[2.0], fp=[7.0]), want, 'model-witness'))
  # … and for two or more nodes the pre-repair model equals the current one (theorem dotInterpOld_eq_dotInterp)
  xw = np.array([0.0, 1.0, 3.0])
  qw = near_queries(rng, xw)
  for op_ in ('dotold', 'dot'):
    lines.append(f'interp F {op_} {fvec(xw)} {fvec([5.0, 7.0, 4.0])} {fvec(qw)}')
    checks.append((op_, dict(x=qw.tolist(), xp=xw.tolist(), fp=[5.0, 7.0, 4.0]), None, 'model-old-vs-new'))

  tick('validation stream')
  # ------------------------------------------------------------------ run the model, compare
  outs = ctx.model(lines)
  witness, old_new = {}, {}
  for (op, inp, impl, kind), o in zip(checks, outs):
    if kind == 'model-witness':
      witness[op] = (o not in ('bad-op', 'value-error', 'index-error', 'type-error')) and unopt(o) == impl
      continue
    if kind == 'model-old-vs-new':
      old_new[op] = o
      continue
    if kind == 'err':
      ctx.corr_exact(op, inp, impl, o)
      continue
    if o in ('bad-op', 'value-error', 'index-error', 'type-error'):
      ctx.corr_mismatch(op, inp, impl, o, 'model rejected the operation')
      continue
    if kind == 'bool':
      ctx.corr_exact(op, inp, bool(impl), o == '1')
    elif kind == 'ivec':
      ctx.corr_exact(op, inp, list(impl), univec(o))
    elif kind == 'mat':
      ctx.corr_float(op, inp, np.asarray(impl), np.asarray(unfmat(o)))
    elif kind == 'scalar':
      ctx.corr_float(op, inp, np.asarray(impl).ravel(), [unfbits(o)])
    elif kind == 'nearest':
      idx, hm = impl
      mod = univec(o)
      if len(mod) != len(idx):
        ctx.corr_mismatch(op, inp, idx, mod, 'length')
        continue
      # an index of the implementation counts as equal when it is an exact tie of the minimum
      norm = [mi if (ii != mi and abs(hm[t, ii] - hm[t, mi]) <= 1e-12) else ii
              for t, (ii, mi) in enumerate(zip(idx, mod))]
      ctx.corr_exact(op, inp, norm, mod)
    else:
      ctx.corr_float(op, inp, np.asarray(impl, dtype=float), np.asarray(unopt(o)))

  ctx.obligation('model witness: pre-repair _dot_interp (dotInterpOld) returns 0 at the only node of ([2],[7]) and 7 one '
                 'ulp / one unit away, the models of the current _dot_interp and of jnp.interp return 7 everywhere',
                 'witness', all(witness.get(k, False) for k in ('dotold', 'dot', 'interp')), detail=repr(witness))
  ctx.obligation('model: pre-repair and current _dot_interp coincide on three uneven nodes (adversarial queries)',
                 'witness', old_new.get('dotold') is not None and old_new.get('dotold') == old_new.get('dot')
                 and old_new.get('dot') not in ('bad-op', 'value-error', 'index-error', 'type-error'),
                 detail=f'{len(qw)} queries')

  tick('model run + compare')
  # ------------------------------------------------------------------ probes on the real code
  j_probe = jax.jit(lambda q, xp_, fp_, n: (vi.interp(q, xp_, fp_), vdot(q, xp_, fp_), vlin(q, xp_, fp_),
                                            vi._linear_interp_with_safe_extrap(q, xp_, fp_, n=n)),
                    static_argnames='n')
  nprobe = ctx.n(12, 240)
  for pi in range(nprobe):
    n = [2, 2, 3, 12][pi] if pi < 4 else int(rng.choice(n_pool))
    xp, kind = gen_nodes(rng, n)
    fp = rng.standard_normal(n) * float(rng.choice([1.0, 50.0]))
    nsafe = int(rng.choice([1, 1, 2, 3])) if not ctx.quick else [1, 2, 3, 3, 1][(n + ctx.seed) % 5]
    pad = np_pad(xp, nsafe)
    xs = near_queries(rng, xp, [pad[0], pad[-1]])
    inp = dict(xp=xp.tolist(), fp=fp.tolist(), x=xs.tolist(), n=nsafe)
    ctx.case(('probe', xp.tobytes(), fp.tobytes(), xs.tobytes()), nontrivial=True)
    fscale = np.abs(fp).max() + 1e-300
    span = xp[-1] - xp[0]
    dmin = np.diff(xp).min()
    with ctx.impl('probe-exception', inp):
      xq = np.concatenate([xp, xs])          # the nodes first, then the adversarial queries
      yi, yd, yl, ys = (np.asarray(v) for v in j_probe(A(xq), A(xp), A(fp), n=nsafe))
      # (1) node values at nodes, all four routines
      for name, y in (('interp', yi), ('dot', yd), ('linext', yl), ('safe', ys)):
        ctx.expect(bool(np.abs(y[:n] - fp).max() <= 1e-12 * fscale), 'node-values',
                   f'{name} does not return the node values at the nodes', inp)
      yi, yd, yl, ys = yi[n:], yd[n:], yl[n:], ys[n:]
      # (2) reference piecewise-linear interpolant (independent oracle: numpy)
      ref = np.interp(xs, xp, fp)
      ctx.expect(np.abs(yi - ref).max() <= 1e-11 * fscale, 'reference-interpolant',
                 'interp differs from the reference piecewise-linear interpolant', inp)
      # (3) both code paths agree for every query (ties, ends, outside)
      ctx.expect(np.abs(yd - yi).max() <= 1e-11 * fscale, 'dot-vs-interp',
                 '_dot_interp differs from jnp.interp path', dict(inp, interp=yi.tolist(), dot=yd.tolist()))
      # (4) bounded by the neighbouring node values inside, constant outside
      inside = (xs >= xp[0]) & (xs <= xp[-1])
      k = np.clip(np.searchsorted(xp, xs, side='right') - 1, 0, n - 2)
      lo_v, hi_v = np.minimum(fp[k], fp[k + 1]), np.maximum(fp[k], fp[k + 1])
      for name, y in (('interp', yi), ('dot', yd)):
        ctx.expect(bool(((y >= lo_v - 1e-12 * fscale) & (y <= hi_v + 1e-12 * fscale))[inside].all()), 'bounded',
                   f'{name} leaves the interval spanned by the neighbouring node values', inp)
        ctx.expect(bool((y[xs < xp[0]] == fp[0]).all() and (y[xs > xp[-1]] == fp[-1]).all()), 'constant-outside',
                   f'{name} is not constant beyond the ends', inp)
      # (5) unlimited linear extrapolation, independent oracle
      refl = oracle_linext(xs, xp, fp)
      tol = 1e-11 * fscale * (1 + np.abs(xs - xp[0]) / dmin + np.abs(xs - xp[-1]) / dmin)
      ctx.expect(bool((np.abs(yl - refl) <= tol).all()), 'linear-extrapolation',
                 'linear_interp_with_linear_extrap differs from the line of the end cells / np.interp', inp)
      # (6) safe extrapolation: linear within n end-cell widths, NaN beyond
      lo_lim, hi_lim = xp[0] - nsafe * (xp[1] - xp[0]), xp[-1] + nsafe * (xp[-1] - xp[-2])
      guard = 1e-9 * (abs(lo_lim) + abs(hi_lim) + span)
      must_nan = (xs < lo_lim - guard) | (xs > hi_lim + guard)
      must_val = (xs > lo_lim + guard) & (xs < hi_lim - guard)
      ctx.expect(bool(np.isnan(ys[must_nan]).all()), 'safe-nan-beyond',
                 f'safe extrapolation returns a value beyond {nsafe} cells', dict(inp, out=ys.tolist()))
      ctx.expect(bool((np.abs(ys - refl)[must_val] <= tol[must_val]).all()), 'safe-linear-within',
                 f'safe extrapolation is not the linear extrapolation within {nsafe} cells', dict(inp, out=ys.tolist()))
      # (7) exact on affine data
      a0, s0 = float(rng.standard_normal()), float(rng.standard_normal()) / max(abs(xp[0]), abs(xp[-1]), span)
      fa = a0 + s0 * xp
      xall = np.concatenate([xs, far_queries(xp)[2:], xp[:n - 2]])   # same length as xq: programs are reused
      ascale = abs(a0) + abs(s0) * (np.abs(xall) + max(abs(xp[0]), abs(xp[-1])))
      dist = np.maximum(0.0, np.maximum(xp[0] - xall, xall - xp[-1]))
      atol = 1e-12 * ascale * (1 + dist / dmin) * (1 + span / dmin * 1e-2) + 1e-13
      ins = (xall >= xp[0]) & (xall <= xp[-1])
      ya, yda, yla, ysa = (np.asarray(v) for v in j_probe(A(xall), A(xp), A(fa), n=nsafe))
      exact = a0 + s0 * xall
      ainp = dict(xp=xp.tolist(), a=a0, s=s0, x=xall.tolist())
      ctx.expect(bool((np.abs(ya - exact) <= atol)[ins].all()) and bool((np.abs(yda - exact) <= atol)[ins].all()),
                 'affine-inside', 'interp / _dot_interp not exact on affine data inside the range', ainp)
      ctx.expect(bool((np.abs(yla - exact) <= atol).all()), 'affine-linear-extrap',
                 'linear_interp_with_linear_extrap not exact on affine data', ainp)
      mv = (xall > lo_lim + guard) & (xall < hi_lim - guard)
      mn = (xall < lo_lim - guard) | (xall > hi_lim + guard)
      ctx.expect(bool((np.abs(ysa - exact) <= atol)[mv].all()) and bool(np.isnan(ysa[mn]).all()),
                 'affine-safe-extrap', 'safe extrapolation not exact within / not NaN beyond n cells on affine data',
                 dict(ainp, n=nsafe, out=ysa.tolist()))

  tick('probes interpolation')
  # one-node corner (finding dot-interp-one-node, repaired by the override `x <= xp[0]` of _dot_interp): the two code
  # paths of `interp` agree at, below and above the only node and return the node value (theorems dotInterp_one_node,
  # dotInterp_eq_interp, interp_one_node; exact: one weight 1.0 times the value).  A failure is a violation with that
  # input as replay.  The defect is repaired, so a stale entry of known_findings.json must not mask a regression:
  # the failure is recorded directly instead of through ctx.fail (which would downgrade it to KNOWN-FINDING).
  def one_node_violation(what, inp):
    ctx.failures.append(dict(key='dot-interp-one-node', what=what, input=inp))

  for a, f, q, e_i, e_d, b_i, b_d in one_results:
    for tag, r_i, r_d in (('scalar call', e_i, e_d), ('jit+vmap', b_i, b_d)):
      for x, y_i, y_d in zip(q, r_i, r_d):
        ctx.case(('one-node-probe', a, f, float(x), tag), nontrivial=True)
        if not (float(y_i) == float(y_d) == f):
          where = 'at the node' if x == a else ('below the node' if x < a else 'above the node')
          one_node_violation(
              f'one node, query {where} ({tag}): interp({float(x)!r},[{a!r}],[{f!r}]) = {float(y_i)!r} on the jnp.interp '
              f'path, {float(y_d)!r} on the _dot_interp (accelerator) path, node value {f!r} (model: both return the node '
              f'value, theorems dotInterp_one_node / dotInterp_eq_interp; the pre-repair override `x < xp[0]` returns 0 at '
              f'the node, theorem dotInterpOld_one_node_ne_interp)',
              dict(x=float(x), xp=[a], fp=[f], interp=float(y_i), dot_interp=float(y_d)))
  ctx.expect(len(one_results) == len(one_sets), 'probe-exception', 'a one-node probe did not run', dict(case='one-node'))
  with ctx.impl('probe-exception', dict(case='domain statements')):
    try:
      arr = 'returns shape ' + str(np.shape(vi._dot_interp(A([0.5, 1.5, 2.5, 0.1, 0.2]), A([0.0, 1.0, 3.0]), A([1.0, 2.0, 4.0]))))
    except Exception as e:  # pylint: disable=broad-except
      arr = 'raises ' + type(e).__name__
    ctx.notes.append('domain statement: the _dot_interp (accelerator) path takes scalar queries only (as used under vmap '
                     'in the repository); with an array of 5 queries on 3 nodes it ' + arr + ', while the jnp.interp path '
                     'and the docstring of vertical_interpolation() accept arrays')
    # the guard of jnp.interp: nodes closer than 2^-104 (outside the theorems' domain `Sep eps`)
    g_i = float(vi.interp(2.0 ** -106, A([0.0, 2.0 ** -105, 1.0]), A([0.0, 1.0, 2.0])))
    g_d = float(vi._dot_interp(2.0 ** -106, A([0.0, 2.0 ** -105, 1.0]), A([0.0, 1.0, 2.0])))
    ctx.notes.append(f'domain statement: nodes closer than np.spacing(eps)=2^-104: jnp.interp path returns {g_i}, '
                     f'_dot_interp returns {g_d} (Lean example in C17.lean: 0 and 1/2)')
    ctx.expect(g_i == 0.0 and g_d == 0.5, 'eps-guard-witness',
               'the witness of the side condition Sep eps is no longer reproduced by the implementation',
               dict(x=2.0 ** -106, xp=[0.0, 2.0 ** -105, 1.0], fp=[0.0, 1.0, 2.0], interp=g_i, dot=g_d))

  # round trips and coordinates on the real functions
  nrt = ctx.n(3, 36)
  for ri in range(nrt):
    ns = int(rng.choice([2, 3, 5, 8, 12]))
    b, _ = dinoutil.random_boundaries(rng, ns)
    sigma = sc.SigmaCoordinates(b)
    cen = sigma.centers
    X, Y = 2, 2
    sp = rng.uniform(600.0, 1050.0, (1, X, Y))
    # pressure levels inside the padded sigma range for every column
    lo_s, hi_s = cen[0] - (cen[1] - cen[0]), cen[-1] + (cen[-1] - cen[-2])
    p_lo, p_hi = max(lo_s, 0.0) * sp.max(), hi_s * sp.min()
    npc = int(rng.choice([2, 3, 6]))
    pcent = np.sort(rng.uniform(p_lo + 0.02 * (p_hi - p_lo), p_hi - 0.02 * (p_hi - p_lo), npc))
    if np.diff(pcent).min() < 1e-3 * (p_hi - p_lo):
      pcent = np.linspace(p_lo + 0.05 * (p_hi - p_lo), p_hi - 0.05 * (p_hi - p_lo), npc)
    pcoords = vi.PressureCoordinates(pcent)
    a0, s0 = rng.standard_normal((2, 1, X, Y))
    col = a0 + s0 * cen[:, None, None]
    inp = dict(sigma_boundaries=b.tolist(), pressure=pcent.tolist(), sp=sp.ravel().tolist(),
               a=a0.ravel().tolist(), s=s0.ravel().tolist())
    ctx.case(('roundtrip', b.tobytes(), pcent.tobytes(), sp.tobytes()), nontrivial=True)
    with ctx.impl('probe-exception', inp):
      onp = np.asarray(vi.interp_sigma_to_pressure(col, pcoords, sigma, A(sp)))
      exact_p = a0 + s0 * (pcent[:, None, None] / sp)
      ctx.expect(bool(np.isfinite(onp).all()) and np.abs(onp - exact_p).max() <= 1e-9 * (np.abs(exact_p).max() + 1),
                 'sigma-to-pressure-affine', 'sigma->pressure not exact on an affine column (levels in range)', inp)
      back = np.asarray(vi.interp_pressure_to_sigma(onp, pcoords, sigma, A(sp)))
      q = cen[:, None, None] * sp
      lo_p, hi_p = pcent[0] - (pcent[1] - pcent[0]), pcent[-1] + (pcent[-1] - pcent[-2])
      g = 1e-9 * (abs(lo_p) + abs(hi_p))
      inr = (q > lo_p + g) & (q < hi_p - g)
      outr = (q < lo_p - g) | (q > hi_p + g)
      cond = 1 + (hi_p - lo_p) / np.diff(pcent).min()
      ctx.expect(bool((np.abs(back - col)[inr] <= 1e-10 * cond * (np.abs(col).max() + 1)).all()), 'roundtrip',
                 'sigma->pressure->sigma does not reproduce an affine column where both are in range',
                 dict(inp, back=back.tolist(), col=col.tolist()))
      ctx.expect(bool(np.isnan(back[outr]).all()), 'roundtrip-missing',
                 'sigma->pressure->sigma returns values beyond one cell of the pressure range', inp)
      # the same on leaves with leading batch dimensions [..., level, x, y] (times / members; the leading size differs
      # from both numbers of levels) and a batch-dependent surface pressure [..., 1, x, y]: affine columns (another
      # line per batch entry and column) are exact, and every batch entry equals the result of regridding that
      # entry alone as a 3-D field (entry 0 is the 3-D case above)
      for lead in [(2,), (3, 2)][:1 if ctx.quick and ri else 2]:
        while lead[0] in (ns, npc):
          lead = (lead[0] + 2,) + lead[1:]
        i0 = (0,) * len(lead)
        spb = rng.uniform(sp.min(), sp.max(), lead + (1, X, Y))   # the pressure levels stay inside the padded sigma range
        ab_, sb_ = rng.standard_normal((2,) + lead + (1, X, Y))
        spb[i0], ab_[i0], sb_[i0] = sp, a0, s0
        colb = ab_ + sb_ * cen[:, None, None]
        binp = dict(inp, leaf_shape=list(colb.shape), sp_shape=list(spb.shape), sp=spb.ravel().tolist(),
                    a=ab_.ravel().tolist(), s=sb_.ravel().tolist())
        ctx.case(('roundtrip-batched', lead, b.tobytes(), pcent.tobytes(), spb.tobytes()), nontrivial=True,
                 branch='batched-leaf')
        ctx.dist[f'roundtrip:batched-leading-dims={len(lead)}'] += 1
        onpb = np.asarray(vi.interp_sigma_to_pressure(colb, pcoords, sigma, A(spb)))
        exact_pb = ab_ + sb_ * (pcent[:, None, None] / spb)
        ctx.expect(onpb.shape == exact_pb.shape and bool(np.isfinite(onpb).all()) and
                   np.abs(onpb - exact_pb).max() <= 1e-9 * (np.abs(exact_pb).max() + 1),
                   'sigma-to-pressure-affine-batched',
                   'sigma->pressure not exact on affine columns of a leaf with leading batch dimensions', binp)
        ctx.expect(onpb.shape == exact_pb.shape and bool(np.allclose(onpb[i0], onp, rtol=1e-12, atol=1e-12, equal_nan=True)),
                   'sigma-to-pressure-per-slice',
                   'sigma->pressure of a batch entry differs from regridding that entry alone', binp)
        if onpb.shape != exact_pb.shape:
          continue
        backb = np.asarray(vi.interp_pressure_to_sigma({'f': exact_pb, 'sp': spb}, pcoords, sigma, A(spb))['f'])
        ctx.expect(backb.shape == colb.shape, 'pressure-to-sigma-batched-shape',
                   f'pressure->sigma of a leaf of shape {list(exact_pb.shape)} has shape {list(backb.shape)}', binp)
        if backb.shape != colb.shape:
          continue
        qb = cen[:, None, None] * spb
        inrb = (qb > lo_p + g) & (qb < hi_p - g)
        outrb = (qb < lo_p - g) | (qb > hi_p + g)
        ctx.expect(bool((np.abs(backb - colb)[inrb] <= 1e-10 * cond * (np.abs(colb).max() + 1)).all()),
                   'pressure-to-sigma-affine-batched',
                   'pressure->sigma does not reproduce affine columns (sigma centres within one cell of the pressure '
                   'range) of a leaf with leading batch dimensions [..., level, x, y]',
                   dict(binp, back=backb.tolist(), col=colb.tolist()))
        ctx.expect(bool(np.isnan(backb[outrb]).all()), 'roundtrip-missing',
                   'pressure->sigma of a batched leaf returns values beyond one cell of the pressure range', binp)
        back0 = np.asarray(vi.interp_pressure_to_sigma(exact_pb[i0], pcoords, sigma, A(sp)))
        ctx.expect(bool(np.allclose(backb[i0], back0, rtol=1e-12, atol=1e-12, equal_nan=True)), 'pressure-to-sigma-per-slice',
                   'pressure->sigma of a batch entry differs from regridding that entry alone as a 3-D field',
                   dict(binp, batched=backb[i0].tolist(), alone=back0.tolist()))
      # hybrid -> sigma on a leaf with leading batch dimensions and a batch-dependent surface pressure [..., x, y]:
      # columns affine in the hybrid sigma centres OF THEIR OWN surface pressure are reproduced at the target sigma
      # centres within one end cell of the source range, and entry 0 equals regridding that entry alone
      if ri == 0 or not ctx.quick:
        nh = int(rng.choice([3, 6]))
        pbh = np.concatenate([[0.0], np.cumsum(rng.uniform(0.5, 1.5, nh))])
        pbh = pbh / pbh[-1] * 1000.0
        bbh = np.linspace(0, 1, nh + 1) ** 2
        abh = pbh - bbh * 1000.0
        hyb = vi.HybridCoordinates(a_boundaries=abh, b_boundaries=bbh)
        leadh = (2,) if 2 not in (nh, ns) else (4,)
        sphb = rng.uniform(950.0, 1050.0, leadh + (X, Y))
        srcb = np.moveaxis(np.array([hyb.get_sigma_centers(v) for v in sphb.ravel()]).reshape(leadh + (X, Y, nh)), -1, -3)
        ahb, shb = rng.standard_normal((2,) + leadh + (1, X, Y))
        fhb = ahb + shb * srcb
        hinp = dict(sigma_boundaries=b.tolist(), a_boundaries=abh.tolist(), b_boundaries=bbh.tolist(),
                    leaf_shape=list(fhb.shape), sp=sphb.ravel().tolist(), a=ahb.ravel().tolist(), s=shb.ravel().tolist())
        ctx.case(('hybrid-batched', b.tobytes(), abh.tobytes(), sphb.tobytes()), nontrivial=True, branch='batched-leaf')
        if (np.diff(srcb, axis=-3) > 0).all():
          ohb = np.asarray(vi.interp_hybrid_to_sigma(fhb, hyb, sigma, A(sphb)))
          ctx.expect(ohb.shape == leadh + (ns, X, Y), 'hybrid-to-sigma-batched-shape',
                     f'hybrid->sigma of a leaf of shape {list(fhb.shape)} has shape {list(ohb.shape)}', hinp)
          if ohb.shape == leadh + (ns, X, Y):
            tq = np.broadcast_to(cen[:, None, None], ohb.shape)
            lo_h = srcb[..., :1, :, :] - (srcb[..., 1:2, :, :] - srcb[..., :1, :, :])
            hi_h = srcb[..., -1:, :, :] + (srcb[..., -1:, :, :] - srcb[..., -2:-1, :, :])
            inh = (tq > lo_h + 1e-9) & (tq < hi_h - 1e-9)
            outh_ = (tq < lo_h - 1e-9) | (tq > hi_h + 1e-9)
            exh = ahb + shb * tq
            condh = 1 + 1.0 / np.diff(srcb, axis=-3).min()
            ctx.expect(bool((np.abs(ohb - exh)[inh] <= 1e-11 * condh * (np.abs(exh).max() + 1)).all()) and
                       bool(np.isnan(ohb[outh_]).all()), 'hybrid-to-sigma-affine-batched',
                       'hybrid->sigma does not reproduce affine columns within one end cell / is not NaN beyond, on a '
                       'leaf with leading batch dimensions', dict(hinp, out=ohb.tolist()))
            oh0 = np.asarray(vi.interp_hybrid_to_sigma(fhb[0], hyb, sigma, A(sphb[0])))
            ctx.expect(bool(np.allclose(ohb[0], oh0, rtol=1e-12, atol=1e-12, equal_nan=True)), 'hybrid-to-sigma-per-slice',
                       'hybrid->sigma of a batch entry differs from regridding that entry alone', hinp)
      # surface pressure: the interpolated relative height vanishes at the returned pressure
      npl = int(rng.choice([2, 3, 6, 12]))
      levels, _ = gen_nodes(rng, npl, 'pressure')
      grav = 9.80616
      geo = (np.cumsum(rng.uniform(200.0, 3000.0, (npl, X, Y)), axis=0)[::-1] - 500.0) * grav
      oro = rng.uniform(-100.0, 3000.0, (1, X, Y))
      ps = np.asarray(vi.get_surface_pressure(vi.PressureCoordinates(levels), A(geo), A(oro), grav))
      rh = oro * grav - geo
      worst = 0.0
      for (idx, rcol), (_, pcol) in zip(dinoutil.columns(rh, 0), dinoutil.columns(ps, 0)):
        val = oracle_linext(np.array([pcol[0]]), levels, rcol)[0]
        ext = 1 + abs(pcol[0] - levels[0]) / np.diff(levels).min() + abs(pcol[0] - levels[-1]) / np.diff(levels).min()
        worst = max(worst, abs(val) / (np.abs(rcol).max() * ext))
      ctx.expect(worst <= 1e-10, 'surface-pressure-root',
                 'relative height interpolated at the returned surface pressure is not zero',
                 dict(levels=levels.tolist(), geopotential=geo.tolist(), orography=oro.tolist(), ps=ps.tolist()))

  tick('probes round trips')
  # horizontal regridders: constants, identity on equal grids
  for hi_ in range(ctx.n(3, 14)):
    ts = grid_table[hi_ % len(grid_table)]
    tt = grid_table[(hi_ * 3 + 1) % len(grid_table)]
    gs, gt = mkgrid(ts), mkgrid(tt)
    inp = dict(source=list(ts), target=list(tt))
    ctx.case(('horiz-probe', ts, tt), nontrivial=True)
    with ctx.impl('probe-exception', inp):
      field = rng.standard_normal(gs.nodal_shape)
      const = np.full(gs.nodal_shape, 2.5)
      for name, cls in (('bilinear', hi.BilinearRegridder), ('nearest', hi.NearestRegridder)):
        oc = np.asarray(cls(gs, gt)(A(const)))
        ctx.expect(oc.shape == gt.nodal_shape and np.abs(oc - 2.5).max() <= 1e-12, f'{name}-constant',
                   f'{name} regridding does not reproduce a constant', inp)
        oi = np.asarray(cls(gs, gs)(A(field)))
        if name == 'nearest' and ts[2] == 'equiangular_with_poles':
          # all longitudes coincide at the poles: over the reals the nearest node is not unique there, and the theorem
          # `nearest_self_haversine` excludes pole rows.  Not skipped: checked on the real code (see `pole_grids` below)
          ctx.expect(np.abs(oi - field).max() <= 1e-12, 'nearest-pole-row-ties',
                     'nearest regridding between equal equiangular_with_poles grids is not the identity '
                     '(the field varies along the pole row)', inp)
          continue
        ctx.expect(np.abs(oi - field).max() <= 1e-12, f'{name}-identity',
                   f'{name} regridding between equal grids is not the identity', inp)
      if ts[2] != 'equiangular_with_poles':
        same = [int(v) for v in np.asarray(hi.NearestRegridder(gs, gs).indices)]
        ctx.expect(same == list(range(len(same))), 'nearest-self',
                   'nearest neighbour of a node of the same grid is not itself', inp)

  # nearest regridding is a function of the two grids of the regridder ONLY -- not of the regridders used before in the
  # process.  Two families of grids with the same node counts / latitude spacing that differ only in longitude_offset
  # (plain, and rotated by a non-integer number of longitude cells), used one after the other, in both orders (family 1:
  # plain->rotated first, then the equal pairs, then rotated->plain; family 2: the equal pairs first).  Every result is
  # compared with a brute-force great-circle (haversine) argmin over all source nodes (ties within 1e-12 accepted), the
  # equal pairs with the identity, and a freshly built second instance with the first.
  def nearest_oracle_ok(gs, gt, field, out, idx):
    lon_s, sl_s = gs.nodal_mesh
    lon_t, sl_t = gt.nodal_mesh
    hm = hav_matrix(np.arcsin(sl_t).ravel(), lon_t.ravel(), np.arcsin(sl_s).ravel(), lon_s.ravel())
    best = hm.min(axis=1)
    ok_idx = len(idx) == hm.shape[0] and all(0 <= i < hm.shape[1] and hm[t, i] <= best[t] + 1e-12
                                             for t, i in enumerate(idx))
    src, o = field.ravel(), out.ravel()
    ok_val = o.shape[0] == hm.shape[0] and all(
        bool((src[hm[t] <= best[t] + 1e-12] == o[t]).any()) for t in range(hm.shape[0]))
    return ok_idx, ok_val, [int(v) for v in hm.argmin(axis=1)]

  fam_table = [[(11, 5, 'gauss'), (9, 6, 'equiangular')], [(13, 4, 'gauss'), (11, 6, 'equiangular')],
               [(11, 4, 'equiangular'), (13, 6, 'gauss')]][ctx.seed % 3]
  for fi, (lo_n, la_n, spacing) in enumerate(fam_table):
    cells = [1.25, 2.5, 0.75, 1.5][int(rng.integers(0, 4))]
    plain = (lo_n, la_n, spacing, 0.0)
    rot = (lo_n, la_n, spacing, cells * 2 * np.pi / lo_n)
    order = ([(plain, rot), (plain, plain), (rot, rot), (rot, plain), (plain, rot)] if fi == 0 else
             [(plain, plain), (rot, rot), (plain, rot), (rot, plain), (rot, rot)])
    ctx.dist[f'nearest-offset-sequence:{"rotated-first" if fi == 0 else "equal-first"}'] += 1
    for step, (ts, tt) in enumerate(order):
      gs, gt = mkgrid(ts), mkgrid(tt)
      inp = dict(source=list(ts), target=list(tt), offset_cells=cells, step=step,
                 sequence=[[list(a), list(b)] for a, b in order[:step + 1]])
      ctx.case(('nearest-offset-seq', ts, tt, step), nontrivial=True, branch='nearest-offset-sequence')
      with ctx.impl('probe-exception', inp):
        field = rng.permutation(gs.nodal_shape[0] * gs.nodal_shape[1]).astype(float).reshape(gs.nodal_shape)  # distinct
        reg = hi.NearestRegridder(gs, gt)
        out = np.asarray(reg(A(field)))
        idx = [int(v) for v in np.asarray(reg.indices)]
        ok_idx, ok_val, brute = nearest_oracle_ok(gs, gt, field, out, idx)
        ctx.expect(out.shape == gt.nodal_shape and ok_idx, 'nearest-brute-force-indices',
                   'NearestRegridder.indices is not a great-circle nearest source node of every target node (brute force '
                   'over all source nodes) for a regridder used after other regridders of the same node counts',
                   dict(inp, indices=idx, brute_force=brute))
        ctx.expect(out.shape == gt.nodal_shape and ok_val, 'nearest-brute-force-values',
                   'NearestRegridder(field) is not the field at a great-circle nearest source node (brute force) for a '
                   'regridder used after other regridders of the same node counts',
                   dict(inp, indices=idx, brute_force=brute, field=field.tolist(), out=out.tolist()))
        if ts == tt:
          ctx.expect(out.shape == field.shape and bool(np.array_equal(out, field)) and idx == list(range(len(idx))),
                     'nearest-identity-after-offset',
                     'nearest regridding between EQUAL grids is not the identity after a regridder between grids of the '
                     'same node counts and another longitude offset was used', dict(inp, indices=idx))
        else:
          ctx.expect(not np.array_equal(out, field), 'nearest-offset-moves-nodes',
                     'nearest regridding onto a grid rotated by a non-integer number of cells returned the input '
                     'unchanged (distinct field values: it cannot be the nearest-node field)', dict(inp, indices=idx))
        lead = rng.standard_normal((2,) + gs.nodal_shape)
        out2 = np.asarray(hi.NearestRegridder(gs, gt)(A(lead)))      # a second, freshly built instance, batched field
        ctx.expect(out2.shape == (2,) + gt.nodal_shape and
                   all(nearest_oracle_ok(gs, gt, lead[k], out2[k], idx)[1] for k in range(2)),
                   'nearest-brute-force-values',
                   'a second NearestRegridder instance of the same grids (batched field) is not the nearest-node field',
                   inp)

  # nearest-neighbour "identity between equal grids" on grids WITH pole rows (review C, C17 finding 2): outside the
  # theorem (latitudes strictly inside the poles), so it is a test on the real code, on every run, with fields that vary
  # along the pole rows; a failure is reported under the key `nearest-pole-row-ties`.  Measured on the unchanged tree:
  # it HOLDS (520 grids, 1..64 longitudes x 2..33 latitudes x 5 offsets), because in float64 cos(fl(pi/2)) = 6.1e-17
  # is not 0, so the haversine distance between two distinct pole nodes is positive while the self distance is 0.
  pole_grids = [(10, 7, 'equiangular_with_poles', 0.05), (8, 5, 'equiangular_with_poles', 0.0),
                (4, 3, 'equiangular_with_poles', 0.0), (5, 2, 'equiangular_with_poles', -0.3)]
  if not ctx.quick:
    pole_grids += [(int(rng.integers(1, 33)), int(rng.integers(2, 20)), 'equiangular_with_poles',
                    float(rng.uniform(-3.0, 3.0))) for _ in range(12)]
  pole_ok = 0
  for tp in pole_grids:
    gp = mkgrid(tp)
    inp = dict(source=list(tp), target=list(tp))
    ctx.case(('nearest-pole', tp), nontrivial=True, branch='nearest-pole-row')
    with ctx.impl('probe-exception', inp):
      reg = hi.NearestRegridder(gp, gp)
      fieldp = rng.standard_normal(gp.nodal_shape)
      fieldp[:, 0] = np.arange(1, gp.nodal_shape[0] + 1)          # distinct values along both pole rows
      fieldp[:, -1] = -np.arange(1, gp.nodal_shape[0] + 1)
      op = np.asarray(reg(A(fieldp)))
      samep = [int(v) for v in np.asarray(reg.indices)]
      ok = bool(np.abs(op - fieldp).max() == 0.0) and samep == list(range(len(samep)))
      pole_ok += ok
      ctx.expect(ok, 'nearest-pole-row-ties',
                 'nearest regridding between two equal equiangular_with_poles grids is not the identity on a field '
                 'varying along the pole row (pole nodes coincide on the sphere: ties)',
                 dict(inp, indices=samep, pole_row_out=op[:, 0].tolist(), pole_row_in=fieldp[:, 0].tolist()))
  ctx.notes.append(f'nearest identity on equal equiangular_with_poles grids (outside nearest_self_haversine: pole nodes '
                   f'coincide on the sphere): holds on the real code for {pole_ok}/{len(pole_grids)} grids (float64: '
                   f'cos(fl(pi/2)) != 0 separates the pole nodes); a failure would be reported as nearest-pole-row-ties')

  tick('probes horizontal')
  ctx.notes.append('section wall times (s): ' + repr(timing))
  ctx.obligation('hypothesis Sep eps (node spacing > 2^-104) holds for every generated admissible node set',
                 'hypothesis', SEP_SEEN[1] == 0 and bool(np.spacing(np.finfo(np.float64).eps) == EPS),
                 f'{SEP_SEEN[0]} node sets (sigma centres, pressure levels, hybrid centres, synthetic), '
                 f'{SEP_SEEN[1]} violations')
  if not ctx.quick:
    ctx.leanchecker(['DinoProofs.Properties.C17'])
  return ctx.finish(RULE, 'theorems are about the Lean model Dino.Interp over an ordered field; NaN is modelled as '
                    'Option.none; jnp.searchsorted (binary search) and sklearn BallTree are external (contract '
                    'checked by the correspondence); float rounding, NaN and denormal queries are outside the '
                    'theorems (tolerance 1e-9 in the correspondence)')
