"""C06 — IMEX integrators reach their design order and never amplify stiff linear modes.

Lean: DinoProofs/Properties/C06.lean over the model Dino/Imex.lean and the coefficient tables
DinoGen/Tableaux.lean, which the translator harness/gen/tableaux.py regenerates from
dinosaur/time_integration.py on every run.
Tie: every integrator of the real code is run on random IMEX problems (polynomial F, dense linear
G with exact resolvent, pytree states, both signs of dt) and compared with the model, EXACTLY in
rational arithmetic (the number type `c06_exact.Q` reads the float literals of the source as the
dyadic rationals they are) and in float64 (rtol 1e-9); a malformed stream of coefficient lengths
exercises the validation logic.  In the exact stream every one-step scheme is also compared with the model's
generic IMEX Runge-Kutta method run on the combined (explicit, implicit) Butcher pair of the scheme (`lstab`,
`pairtab`; theorems lsrk_eq_imexRK, bfe_eq_imexRK, cnrk2_eq_imexRK), which ties the pair order conditions
(rk3/rk4/cnrk2/bfe_pair_order*, rk3/rk4_coupling2) to the code.
Sentinel probes evaluate the property itself on the real code: empirical order by dt-halving,
amplification sweep over |dt*mu| in [1e-3, 1e6], reductions, rejection of inconsistent lengths.
"""
import math
import os
from fractions import Fraction

import numpy as np

import common
from common import unqvec, unfvec
from gen import tableaux
from props import c06_exact as cx
from props.c06_exact import Q, qnum, fnum

RULE = ('problems: dimension 1-4, pytree layouts (flat/dict/tuple, 1-D and 2-D leaves), polynomial F of degree '
        '<= 2 with 0-3 terms per component, dense rational G (entries k/8), rational states, '
        'dt in +-{1/16,1/8,1/4,3/10,1}; integrators: Euler pair, CN-RK2, leapfrog (alpha in {1/2,2/3,1,0,default}), '
        'low-storage factory with 1-4 random stages and the RK3/RK4 tables, tableau factory with 1-4 random '
        'stages (zero entries included) and SIL3; in the exact stream the Euler pair, CN-RK2, the random low-storage '
        'schemes and crank_nicolson_rk3/rk4 are ALSO compared with the model\'s generic IMEX Runge-Kutta run on the '
        'combined (explicit, implicit) Butcher pair bfeTab / cnrk2Tab / lsTableau(alphas, betas, gammas) that the '
        'pair order conditions are evaluated on; a case is non-trivial when F has a nonlinear term or G is '
        'not diagonal or the op is a validation case; distinct = distinct (op, problem, state, dt) hashes')

NAMED = {'crank_nicolson_rk3': 'rk3', 'crank_nicolson_rk4': 'rk4', 'imex_rk_sil3': 'sil3'}


def _nontrivial(prob):
  nonlin = any(sum(ex) >= 2 for comp in prob.poly for _, ex in comp)
  offdiag = any(prob.G[i][j] != 0 for i in range(prob.n) for j in range(prob.n) if i != j)
  return nonlin or offdiag


def run(ctx: common.Ctx):
  jax = common.setup_jax()
  import jax.numpy as jnp
  from dinosaur import time_integration as ti

  # ------------------------------------------------------------------ translator + Lean
  cap = None
  try:
    cap, changed = tableaux.generate()
    ctx.obligation('translator:DinoGen.Tableaux', 'translator', True,
                   'regenerated (changed)' if changed else 'regenerated (unchanged)')
  except Exception as e:  # pylint: disable=broad-except
    ctx.obligation('translator:DinoGen.Tableaux', 'translator', False, f'{type(e).__name__}: {e}')
  extra_files = ['DinoProofs/Lemmas/Imex.lean', 'Dino/Imex.lean']
  if os.path.exists(os.path.join(common.LEAN, 'DinoProofs/Lemmas/ImexPair.lean')):
    extra_files.append('DinoProofs/Lemmas/ImexPair.lean')
  ctx.lean('DinoProofs.Properties.C06', 'C06.txt', extra_files=extra_files, gen_targets=['DinoGen.Tableaux'])
  # ops `lstab` / `pairtab` (the schemes run as imex_runge_kutta of the model's combined Butcher pair, theorems
  # lsrk_eq_imexRK / bfe_eq_imexRK / cnrk2_eq_imexRK) exist only in drivers built from the extended model
  try:
    has_pair = '"lstab"' in open(os.path.join(common.LEAN, 'Dino/ImexDrv.lean')).read()
  except OSError:
    has_pair = False
  if not has_pair:
    ctx.notes.append('driver without the lstab/pairtab ops: Butcher-pair correspondence skipped')
  if cap is None:
    # fall back to the factories' arguments only for the correspondence (the break is already recorded)
    cap = {}

  rng = ctx.rng
  lines, checks = [], []   # checks: (op, inp, impl, kind)

  def add(line, op, inp, impl, kind):
    lines.append(line)
    checks.append((op, inp, impl, kind))

  dts = [Fraction(1, 16), Fraction(1, 8), Fraction(1, 4), Fraction(3, 10), Fraction(1)]

  def rand_dt():
    d = dts[int(rng.integers(0, len(dts)))]
    return d if rng.random() < 0.65 else -d

  def rand_ls(s):
    """random low-storage coefficients with s stages"""
    al = [Fraction(0)] + sorted(cx.small_q(rng, den=(2, 3, 4), lo=0, hi=4) for _ in range(s))
    if rng.random() < 0.3:
      rng.shuffle(al)
    be = [Fraction(0)] + [cx.small_q(rng, den=(1, 2, 4), lo=-4, hi=2) for _ in range(s - 1)]
    ga = [cx.small_q(rng, den=(2, 3, 4), lo=-2, hi=4) for _ in range(s)]
    return [Fraction(a) for a in al], be, ga

  def rand_tab(s):
    """random tableau with s stages (s >= 1): a_ex row i has i entries (+ optional ignored extras),
    a_im row i has i+1 entries; zeros are frequent to exercise the skipping branches"""
    def c():
      return Fraction(0) if rng.random() < 0.35 else cx.small_q(rng, den=(2, 3, 4), lo=-3, hi=4)
    a_ex = [[c() for _ in range(i)] + ([c()] if rng.random() < 0.2 else []) for i in range(1, s)]
    a_im = [[c() for _ in range(i)] + [cx.small_q(rng, den=(4, 8), lo=0, hi=3)] for i in range(1, s)]
    b_ex, b_im = [c() for _ in range(s)], [c() for _ in range(s)]
    if s >= 2 and rng.random() < 0.3:
      # stiffly accurate implicit part (b_im = last row of a_im) with a vanishing last explicit weight, while the
      # explicit weights are NOT the last explicit row: the last stage is not the new state (seeded C06-5)
      b_im, b_ex[-1] = list(a_im[-1]), Fraction(0)
      if all(b_ex[j] == (a_ex[-1][j] if j < s - 1 else 0) for j in range(s)):
        b_ex[0] += Fraction(1, 2)
      ctx.dist['tableau-stiffly-accurate'] += 1
    return a_ex, a_im, b_ex, b_im

  def enc_tab(t, num):
    a_ex, a_im, b_ex, b_im = t
    mat = lambda m: ';'.join((','.join(num(v) for v in r) if r else '_') for r in m) if m else '_'
    vec = lambda v: ','.join(num(x) for x in v) if v else '_'
    return f'{mat(a_ex)} {mat(a_im)} {vec(b_ex)} {vec(b_im)}'

  def vec(v, num):
    return ','.join(num(x) for x in v) if len(v) else '_'

  def named_coeffs(name, conv):
    c = cap.get(name)
    if c is None:
      return None
    if c['kind'] == 'ls':
      return [conv(x) for x in c['alphas']], [conv(x) for x in c['betas']], [conv(x) for x in c['gammas']]
    return ([[conv(x) for x in r] for r in c['a_ex']], [[conv(x) for x in r] for r in c['a_im']],
            [conv(x) for x in c['b_ex']], [conv(x) for x in c['b_im']])

  # ------------------------------------------------------------------ correspondence: integrators
  ncases = ctx.n(36, 400)
  for ci in range(ncases):
    exact = (ci % 3) != 2            # two thirds exact (Q), one third float64 (F)
    n_forced = {0: 1, 1: 2, 2: 1, 3: 4}.get(ci)
    while True:
      prob = cx.random_problem(rng, n=n_forced, max_deg=2, stable=not exact)
      dt = rand_dt()
      if exact:
        break
      # float mode: keep the resolvents well conditioned
      Gf = np.array([[float(v) for v in r] for r in prob.G])
      if all(np.linalg.cond(np.eye(prob.n) - e * float(dt) * Gf) < 50 for e in (0.125, 0.25, 0.5, 1.0, 2.0)):
        break
    mode, num = ('Q', qnum) if exact else ('F', fnum)
    conv = (lambda x: Fraction(x)) if exact else float
    u0 = cx.random_state(rng, prob.n)
    u1 = cx.random_state(rng, prob.n)
    nontriv = _nontrivial(prob)
    P, Gm, dts_, us = prob.enc_poly(num), prob.enc_G(num), num(dt), vec(u0, num)
    inp0 = dict(mode=mode, poly=[[(str(c), list(e)) for c, e in comp] for comp in prob.poly],
                G=[[str(v) for v in r] for r in prob.G], layout=str(prob.layout), dt=str(dt),
                u0=[str(v) for v in u0])
    ctx.dist[f'mode={mode}'] += 1
    ctx.dist[f'dim={prob.n}'] += 1
    ctx.dist[f'layout={prob.layout[0]}'] += 1
    ctx.dist['dt<0' if dt < 0 else 'dt>0'] += 1
    ctx.case(('integ', mode, P, Gm, dts_, us), nontrivial=nontriv, sample=inp0 if ci < 4 else None)
    eq = prob.equation(ti, exact)
    dtv = Q(dt) if exact else float(dt)
    s0 = prob.pack(u0, exact)
    kind = 'qvec' if exact else 'fvec'

    def call(opname, inp, fn, line, kind=kind):
      try:
        out = fn()
      except ZeroDivisionError:
        ctx.dist['singular-resolvent-skipped'] += 1
        return
      except np.linalg.LinAlgError:
        ctx.dist['singular-resolvent-skipped'] += 1
        return
      except Exception as e:  # pylint: disable=broad-except
        ctx.fail('integrator-exception', f'{opname} raised {type(e).__name__}: {str(e)[:200]}', inp)
        return
      add(line, opname, inp, out, kind)

    call('backward_forward_euler', inp0,
         lambda: prob.unpack(ti.backward_forward_euler(eq, dtv)(s0)),
         f'imex {mode} bfe {P} {Gm} {dts_} {us}')
    call('crank_nicolson_rk2', inp0,
         lambda: prob.unpack(ti.crank_nicolson_rk2(eq, dtv)(s0)),
         f'imex {mode} cnrk2 {P} {Gm} {dts_} {us}')
    if exact and has_pair:
      # the same two steps vs the model's generic IMEX Runge-Kutta on the Butcher pairs bfeTab / cnrk2Tab
      ctx.dist['pair-form:bfe,cnrk2'] += 1
      call('backward_forward_euler vs imex_runge_kutta(bfeTab)', inp0,
           lambda: prob.unpack(ti.backward_forward_euler(eq, dtv)(s0)),
           f'imex Q pairtab bfe {P} {Gm} {dts_} {us}')
      call('crank_nicolson_rk2 vs imex_runge_kutta(cnrk2Tab)', inp0,
           lambda: prob.unpack(ti.crank_nicolson_rk2(eq, dtv)(s0)),
           f'imex Q pairtab cnrk2 {P} {Gm} {dts_} {us}')
    # leapfrog
    alpha = [None, Fraction(1, 2), Fraction(2, 3), Fraction(1), Fraction(0)][int(rng.integers(0, 5))]
    ctx.dist[f'leapfrog-alpha={alpha}'] += 1
    s1 = prob.pack(u1, exact)

    def lf():
      kw = {} if alpha is None else dict(alpha=(Q(alpha) if exact else float(alpha)))
      a, b = ti.semi_implicit_leapfrog(eq, dtv, **kw)((s0, s1))
      return prob.unpack(a) + prob.unpack(b)
    call('semi_implicit_leapfrog', dict(inp0, u1=[str(v) for v in u1], alpha=str(alpha)), lf,
         f'imex {mode} leapfrog {P} {Gm} {dts_} {num(Fraction(1, 2) if alpha is None else alpha)} {us} {vec(u1, num)}',
         kind=kind + '2')
    # low-storage factory, random coefficients
    s = int(rng.integers(1, 5))
    al, be, ga = rand_ls(s)
    ctx.dist[f'lsrk-stages={s}'] += 1
    call('low_storage_runge_kutta_crank_nicolson',
         dict(inp0, alphas=[str(v) for v in al], betas=[str(v) for v in be], gammas=[str(v) for v in ga]),
         lambda: prob.unpack(ti.low_storage_runge_kutta_crank_nicolson(
             [conv(v) for v in al], [conv(v) for v in be], [conv(v) for v in ga], eq, dtv)(s0)),
         f'imex {mode} lsrk {P} {Gm} {dts_} {vec(al, num)} {vec(be, num)} {vec(ga, num)} {us}')
    if exact and has_pair:
      # ... and vs the generic IMEX Runge-Kutta on the model's combined Butcher pair lsTableau(alphas, betas, gammas)
      ctx.dist['pair-form:lsrk-random'] += 1
      call('low_storage_runge_kutta_crank_nicolson vs imex_runge_kutta(lsTableau)',
           dict(inp0, alphas=[str(v) for v in al], betas=[str(v) for v in be], gammas=[str(v) for v in ga]),
           lambda al=al, be=be, ga=ga: prob.unpack(ti.low_storage_runge_kutta_crank_nicolson(
               [conv(v) for v in al], [conv(v) for v in be], [conv(v) for v in ga], eq, dtv)(s0)),
           f'imex Q lstab {P} {Gm} {dts_} {vec(al, num)} {vec(be, num)} {vec(ga, num)} {us}')
    # tableau factory, random tableau
    s = int(rng.integers(1, 5))
    tab = rand_tab(s)
    ctx.dist[f'tableau-stages={s}'] += 1

    def rk(tab=tab):
      t = ti.ImExButcherTableau(*[[[conv(v) for v in r] for r in m] for m in tab[:2]],
                                *[[conv(v) for v in m] for m in tab[2:]])
      return prob.unpack(ti.imex_runge_kutta(t, eq, dtv)(s0))
    call('imex_runge_kutta', dict(inp0, tableau=[[[str(v) for v in r] for r in m] for m in tab[:2]] +
                                  [[str(v) for v in m] for m in tab[2:]]), rk,
         f'imex {mode} tab {P} {Gm} {dts_} {enc_tab(tab, num)} {us}')
    # the named schemes: real function vs generic model factory on the intercepted coefficients
    for name in NAMED:
      co = named_coeffs(name, (lambda x: Fraction(x)) if exact else float)
      if co is None:
        continue
      if len(co) == 3:
        line = f'imex {mode} lsrk {P} {Gm} {dts_} {vec(co[0], num)} {vec(co[1], num)} {vec(co[2], num)} {us}'
      else:
        line = f'imex {mode} tab {P} {Gm} {dts_} {enc_tab(co, num)} {us}'
      call(name, inp0, lambda name=name: prob.unpack(getattr(ti, name)(eq, dtv)(s0)), line)
      if exact and has_pair and len(co) == 3:
        # crank_nicolson_rk3 / rk4: real step vs IMEX-RK of the combined (explicit, implicit) Butcher pair the
        # order conditions rk3/rk4_pair_order2, rk3/rk4_coupling2 are evaluated on
        ctx.dist[f'pair-form:{name}'] += 1
        call(name + ' vs imex_runge_kutta(lsTableau)', inp0,
             lambda name=name: prob.unpack(getattr(ti, name)(eq, dtv)(s0)),
             f'imex Q lstab {P} {Gm} {dts_} {vec(co[0], num)} {vec(co[1], num)} {vec(co[2], num)} {us}')
    # time reversal (float only: the class applies jnp.negative) and composition
    if not exact:
      req = ti.TimeReversedImExODE(eq)
      call('TimeReversedImExODE+backward_forward_euler', inp0,
           lambda: prob.unpack(ti.backward_forward_euler(req, dtv)(s0)),
           f'imex F rev bfe {P} {Gm} {dts_} {us}')
      call('TimeReversedImExODE+crank_nicolson_rk2', inp0,
           lambda: prob.unpack(ti.crank_nicolson_rk2(req, dtv)(s0)),
           f'imex F rev cnrk2 {P} {Gm} {dts_} {us}')
    else:
      extra = [cx.random_problem(rng, n=prob.n, max_deg=2) for _ in range(int(rng.integers(0, 3)))]
      for e in extra:
        e.layout = prob.layout
      pos = int(rng.integers(0, len(extra) + 1))
      members = extra[:pos] + [prob] + extra[pos:]
      flags = [m is prob for m in members]

      def comp():
        eqs = [eq if f else ti.ExplicitODE.from_functions(m.equation(ti, True).explicit_terms)
               for m, f in zip(members, flags)]
        return prob.unpack(ti.backward_forward_euler(ti.compose_equations(eqs), dtv)(s0))
      ctx.dist[f'compose-members={len(members)}'] += 1
      call('compose_equations', dict(inp0, members=len(members), imex_at=pos), comp,
           f'imex Q compose {",".join("1" if f else "0" for f in flags)} '
           f'{"&".join(m.enc_poly(qnum) for m in members)} {Gm} {dts_} {us}')
    # T6.2 on the code: low-storage recursion with G = 0 vs explicit RK in the derived Butcher form
    if exact:
      s = int(rng.integers(1, 5))
      al, be, ga = rand_ls(s)
      eqx = prob.equation(ti, True, explicit_only=True)
      call('low_storage[G=0] vs Butcher form',
           dict(inp0, betas=[str(v) for v in be], gammas=[str(v) for v in ga]),
           lambda: prob.unpack(ti.low_storage_runge_kutta_crank_nicolson(al, be, ga, eqx, dtv)(s0)),
           f'imex Q lserk {P} {dts_} {vec(be, qnum)} {vec(ga, qnum)} {us}')

  # ------------------------------------------------------------------ correspondence: amplification functions
  namp = ctx.n(12, 150)
  for ai in range(namp):
    lam = cx.small_q(rng, den=(1, 2, 4), lo=-6, hi=6)
    mu = cx.small_q(rng, den=(1, 2, 4), lo=-12, hi=2)
    dt = rand_dt()
    u = cx.small_q(rng, den=(1, 3), lo=-5, hi=5, nonzero=True)
    prob = cx.Problem([[(lam, (1,))]], [[mu]], ('flat', [(1,)]))
    eq = prob.equation(ti, True)
    s0, dtv = prob.pack([u], True), Q(dt)
    x, y = dt * lam, dt * mu
    inp = dict(lam=str(lam), mu=str(mu), dt=str(dt), u=str(u))
    ctx.case(('ampl', str(lam), str(mu), str(dt), str(u)), nontrivial=(lam != 0 and mu != 0))

    def amp(opname, fn, line, second=None):
      try:
        out = fn()
      except ZeroDivisionError:
        ctx.dist['singular-resolvent-skipped'] += 1
        return
      except Exception as e:  # pylint: disable=broad-except
        ctx.fail('integrator-exception', f'{opname} raised {type(e).__name__}: {str(e)[:200]}', inp)
        return
      add(line, opname, inp, (out, u, second), 'ampl')

    amp('ampl:backward_forward_euler', lambda: prob.unpack(ti.backward_forward_euler(eq, dtv)(s0))[0],
        f'imex Q ampl bfe {qnum(x)} {qnum(y)}')
    amp('ampl:crank_nicolson_rk2', lambda: prob.unpack(ti.crank_nicolson_rk2(eq, dtv)(s0))[0],
        f'imex Q ampl cnrk2 {qnum(x)} {qnum(y)}')
    al_ = [Fraction(1, 2), Fraction(3, 4), Fraction(1)][ai % 3]
    v = cx.small_q(rng, den=(1, 3), lo=-5, hi=5)
    amp('ampl:semi_implicit_leapfrog',
        lambda: prob.unpack(ti.semi_implicit_leapfrog(eq, dtv, Q(al_))((s0, prob.pack([v], True)))[1])[0],
        f'imex Q ampl leapfrog {qnum(al_)} {qnum(x)} {qnum(y)}', second=v)
    for name in NAMED:
      co = named_coeffs(name, lambda z: Fraction(z))
      if co is None:
        continue
      if len(co) == 3:
        line = f'imex Q ampl lsrk {vec(co[0], qnum)} {vec(co[1], qnum)} {vec(co[2], qnum)} {qnum(x)} {qnum(y)}'
      else:
        line = f'imex Q ampl tab {enc_tab(co, qnum)} {qnum(x)} {qnum(y)}'
      amp('ampl:' + name, lambda name=name: prob.unpack(getattr(ti, name)(eq, dtv)(s0))[0], line)

  # ------------------------------------------------------------------ malformed stream: validation logic
  nval = ctx.n(60, 1200)
  dummy = ti.ImplicitExplicitODE.from_functions(lambda s: s, lambda s: s, lambda s, e: s)
  for vi in range(nval):
    forced = {0: (5, 3, 3), 1: (4, 3, 3), 2: (0, 0, 0), 3: (1, 0, 0), 4: (3, 3, 3), 5: (4, 3, 2), 6: (3, 3, 2),
              7: (2, 3, 3)}.get(vi)
    if forced is None:
      nb = int(rng.integers(0, 6))
      na = int(rng.choice([nb + 1, nb + 1, nb, nb + 2, int(rng.integers(0, 7))]))
      ng = int(rng.choice([nb, nb, nb + 1, max(nb - 1, 0), int(rng.integers(0, 6))]))
    else:
      na, nb, ng = forced
    try:
      ti.low_storage_runge_kutta_crank_nicolson([0.0] * na, [0.0] * nb, [0.5] * ng, dummy, 0.1)
      acc = True
    except ValueError:
      acc = False
    except Exception as e:  # pylint: disable=broad-except
      ctx.fail('lsrk-length-validation', f'factory raised {type(e).__name__} for lengths {(na, nb, ng)}',
               dict(lengths=[na, nb, ng]))
      continue
    old = not (na - 1 != nb != ng)   # the comparison before commit 2616c50 (reference, not the code)
    consistent = (na - 1 == nb) and (nb == ng)
    ctx.dist[f'lsrk-lengths:{"consistent" if consistent else "inconsistent"}:{"accept" if acc else "reject"}'] += 1
    ctx.case(('val-ls', na, nb, ng), nontrivial=True)
    add(f'imex accepts lsrk {na} {nb} {ng}', 'low_storage length validation', dict(lengths=[na, nb, ng]),
        (acc, old), 'bool2')
    # the property: inconsistent lengths are rejected, consistent ones accepted
    ctx.expect(acc == consistent, 'lsrk-length-validation',
               f'low_storage_runge_kutta_crank_nicolson accepted={acc} for lengths (alphas,betas,gammas)={(na, nb, ng)}',
               dict(lengths=[na, nb, ng]))
    # tableau lengths
    base = int(rng.integers(1, 5))
    ls4 = [base - 1, base - 1, base, base]
    # one list wrong, or JOINT mismatches in which the two halves still agree with each other (both b's longer than
    # len(a) + 1, both a's changed, explicit against implicit half), or all four at random
    tmode = ['consistent', 'single', 'single', 'joint-b', 'joint-a', 'halves', 'random'][vi % 7]
    if tmode == 'single':
      ls4[int(rng.integers(0, 4))] = int(rng.integers(0, 5))
    elif tmode == 'joint-b':
      ls4[2] = ls4[3] = int(rng.integers(0, 6))
    elif tmode == 'joint-a':
      ls4[0] = ls4[1] = int(rng.integers(0, 5))
    elif tmode == 'halves':
      other = int(rng.integers(1, 5))
      ls4[1], ls4[3] = other - 1, other
    elif tmode == 'random':
      ls4 = [int(v) for v in rng.integers(0, 5, 4)]
    ctx.dist[f'tableau-mode:{tmode}'] += 1
    try:
      ti.ImExButcherTableau([[0.0]] * ls4[0], [[0.0, 0.0]] * ls4[1], [0.0] * ls4[2], [0.0] * ls4[3])
      acc = True
    except ValueError:
      acc = False
    consistent = len({ls4[0] + 1, ls4[1] + 1, ls4[2], ls4[3]}) == 1
    ctx.dist[f'tableau-lengths:{"consistent" if consistent else "inconsistent"}:{"accept" if acc else "reject"}'] += 1
    ctx.case(('val-tab', tuple(ls4)), nontrivial=True)
    add(f'imex accepts tab {ls4[0]} {ls4[1]} {ls4[2]} {ls4[3]}', 'ImExButcherTableau.__post_init__',
        dict(lengths=ls4), acc, 'bool')
    ctx.expect(acc == consistent, 'tableau-length-validation',
               f'ImExButcherTableau accepted={acc} for lengths (a_ex,a_im,b_ex,b_im)={ls4}', dict(lengths=ls4))
    # compose_equations: number of IMEX members
    flags = [bool(rng.integers(0, 2)) for _ in range(int(rng.integers(0, 4)))]
    try:
      ti.compose_equations([dummy if f else ti.ExplicitODE.from_functions(lambda s: s) for f in flags])
      acc = True
    except ValueError:
      acc = False
    ctx.case(('val-compose', tuple(flags)), nontrivial=True)
    add(f'imex accepts compose {",".join("1" if f else "0" for f in flags) or "_"}', 'compose_equations',
        dict(flags=flags), acc, 'bool')

  # ------------------------------------------------------------------ compare with the model
  outs = ctx.model(lines)
  for (op, inp, impl, kind), o in zip(checks, outs):
    if o == 'bad-op' or (o == 'value-error' and kind not in ('bool', 'bool2')):
      ctx.corr_mismatch(op, inp, impl, o, 'model rejected the operation')
      continue
    if kind == 'bool':
      ctx.corr_exact(op, inp, bool(impl), o == '1')
    elif kind == 'bool2':
      new, old = o.split(' ')
      ctx.corr_exact(op, inp, bool(impl[0]), new == '1')
      ctx.corr_exact(op + ' (pre-2616c50 chained comparison)', inp, bool(impl[1]), old == '1')
    elif kind in ('qvec', 'qvec2'):
      got = [Fraction(v) for part in o.split(' ') for v in unqvec(part)]
      ctx.corr_exact(op, inp, [qnum(v) for v in impl], [qnum(v) for v in got])
    elif kind in ('fvec', 'fvec2'):
      got = [v for part in o.split(' ') for v in unfvec(part)]
      ctx.corr_float(op, inp, np.array([float(v) for v in impl]), np.array(got))
    elif kind == 'ampl':
      out, u, second = impl
      parts = [Fraction(p) for p in o.split(' ')]
      want = parts[0] * u if second is None else parts[0] * u + parts[1] * second
      ctx.corr_exact(op, inp, qnum(out), qnum(want))

  # ------------------------------------------------------------------ probes on the real code
  _probe_order(ctx, ti, jnp)
  _probe_amplification(ctx, ti, jnp)
  _probe_reductions(ctx, ti, jnp)

  if not ctx.quick:
    ctx.leanchecker(['DinoProofs.Properties.C06'])
  return ctx.finish(RULE, 'theorems are about the Lean model Dino.Imex and the regenerated tables DinoGen.Tableaux; '
                    'Butcher\'s theorem (order conditions => order for every smooth right-hand side) is classical '
                    'and not formalised; float rounding is outside the theorems (the exact correspondence uses '
                    'rational arithmetic, the float one rtol 1e-9)')


# ---------------------------------------------------------------------------- probes


def _ref_solution(f, u0, T, nsteps):
  """classical RK4 with a tiny step: reference solution (error ~1e-13)"""
  u = np.array(u0, dtype=float)
  h = T / nsteps
  for _ in range(nsteps):
    k1 = f(u)
    k2 = f(u + 0.5 * h * k1)
    k3 = f(u + 0.5 * h * k2)
    k4 = f(u + h * k3)
    u = u + h / 6 * (k1 + 2 * k2 + 2 * k3 + k4)
  return u


def _probe_order(ctx, ti, jnp):
  """empirical order by dt-halving on nonlinear, non-commuting problems"""
  rng = ctx.rng
  nprob = ctx.n(2, 10)
  for pi in range(nprob):
    a, b, c, d = rng.uniform(0.5, 1.5, 4)
    w = rng.uniform(0.5, 2.0)
    # stiff-ish linear part (non-normal, does not commute with the Jacobian of F)
    Gm = np.array([[-1.0 * a, w, 0.3], [-w, -0.5 * b, 0.0], [0.0, 0.7, -1.5 * c]])
    def Fn(u, d=d):
      return np.array([d * u[1] * u[2] + np.sin(u[0]), -u[0] * u[2] + 0.5 * u[1] ** 2, 0.5 * u[0] * u[1] - u[2] ** 3])
    u0 = rng.uniform(0.4, 1.0, 3) * rng.choice([-1, 1], 3)
    inp = dict(G=Gm.tolist(), d=float(d), u0=u0.tolist())

    def make_eq(useF=True, useG=True, linearF=False):
      Fl = np.array([[0.2, -1.0, 0.3], [1.0, 0.1, -0.4], [-0.3, 0.4, 0.0]]) * d
      def F(u):
        if not useF:
          return jnp.zeros_like(u)
        return jnp.asarray(Fl @ np.asarray(u)) if linearF else jnp.asarray(Fn(np.asarray(u)))
      def G(u):
        return jnp.asarray(Gm @ np.asarray(u)) if useG else jnp.zeros_like(u)
      def Ginv(u, eta):
        return jnp.asarray(np.linalg.solve(np.eye(3) - eta * Gm, np.asarray(u))) if useG else u
      def rhs(u):
        r = np.zeros(3)
        if useF:
          r = r + (Fl @ u if linearF else Fn(u))
        if useG:
          r = r + Gm @ u
        return r
      return ti.ImplicitExplicitODE.from_functions(F, G, Ginv), rhs

    T = 1.0
    configs = [
        ('backward_forward_euler', ti.backward_forward_euler, dict(), 1, (64, 128, 256)),
        ('crank_nicolson_rk2', ti.crank_nicolson_rk2, dict(), 2, (32, 64, 128)),
        ('crank_nicolson_rk3', ti.crank_nicolson_rk3, dict(), 2, (32, 64, 128)),
        ('crank_nicolson_rk4', ti.crank_nicolson_rk4, dict(), 2, (32, 64, 128)),
        ('imex_rk_sil3', ti.imex_rk_sil3, dict(), 2, (32, 64, 128)),
        ('crank_nicolson_rk2[G=0]', ti.crank_nicolson_rk2, dict(useG=False), 2, (32, 64, 128)),
        ('crank_nicolson_rk3[G=0]', ti.crank_nicolson_rk3, dict(useG=False), 3, (16, 32, 64)),
        ('crank_nicolson_rk4[G=0]', ti.crank_nicolson_rk4, dict(useG=False), 4, (8, 16, 32)),
        ('imex_rk_sil3[G=0,linear F]', ti.imex_rk_sil3, dict(useG=False, linearF=True), 3, (16, 32, 64)),
        ('imex_rk_sil3[F=0]', ti.imex_rk_sil3, dict(useF=False), 2, (32, 64, 128)),
        ('crank_nicolson_rk3[F=0]', ti.crank_nicolson_rk3, dict(useF=False), 2, (32, 64, 128)),
        ('semi_implicit_leapfrog', None, dict(), 2, (64, 128, 256)),
    ]
    refs = {}
    for name, fac, kw, order, ns in configs:
      eq, rhs = make_eq(**kw)
      key = tuple(sorted(kw.items()))
      if key not in refs:
        refs[key] = _ref_solution(rhs, u0, T, 4096)
      ref = refs[key]
      errs = []
      with ctx.impl('order-exception', dict(inp, scheme=name)):
        for nst in ns:
          dt = T / nst
          if fac is None:
            step = ti.semi_implicit_leapfrog(eq, dt)
            u1 = _ref_solution(rhs, u0, dt, 64)
            st = (jnp.asarray(u0), jnp.asarray(u1))
            for _ in range(nst - 1):
              st = step(st)
            u = np.asarray(st[1])
          else:
            step = fac(eq, dt)
            u = jnp.asarray(u0)
            for _ in range(nst):
              u = step(u)
            u = np.asarray(u)
          errs.append(float(np.abs(u - ref).max()))
        slopes = [math.log2(errs[i] / errs[i + 1]) for i in range(2)] if min(errs) > 0 else [float('inf')] * 2
        ctx.case(('order', name, pi), nontrivial=True)
        ctx.dist[f'order-probe:{name}'] += 1
        # the finest pair decides; errors must be well above rounding to be meaningful
        ok = (min(errs) < 1e-11) or slopes[1] >= order - 0.2
        ctx.expect(ok, f'order:{name.split("[")[0]}',
                   f'{name}: empirical order {slopes[1]:.3f} (coarser pair {slopes[0]:.3f}) below design order {order}; '
                   f'errors {errs} at steps {ns}', dict(inp, scheme=name, steps=list(ns), errors=errs))


def _probe_amplification(ctx, ti, jnp):
  """|R| <= 1 for purely implicit linear dynamics with eigenvalue in the closed left half-plane"""
  rng = ctx.rng
  nsw = ctx.n(150, 3000)
  for si in range(nsw):
    mag = 10 ** rng.uniform(-3, 6)
    ang = {0: math.pi / 2, 1: math.pi, 2: 3 * math.pi / 2}.get(si % 10, rng.uniform(math.pi / 2, 3 * math.pi / 2))
    dt = 10 ** rng.uniform(-3, 3)
    z = mag * complex(math.cos(ang), math.sin(ang))
    if z.real > 0:
      z = complex(0.0, z.imag)
    mu = z / dt
    if (dt * mu).real > 0:
      mu = complex(0.0, mu.imag)
    eq = ti.ImplicitExplicitODE.from_functions(
        lambda u: jnp.zeros_like(u), lambda u: mu * u, lambda u, eta: u / (1 - eta * mu))
    u0 = jnp.asarray(np.array([complex(rng.standard_normal(), rng.standard_normal())]))
    n0 = float(np.abs(np.asarray(u0))[0])
    inp = dict(dt=dt, mu=[mu.real, mu.imag], dt_mu_abs=abs(dt * mu))
    ctx.case(('amp', si), nontrivial=True)
    for name, fac in (('backward_forward_euler', ti.backward_forward_euler),
                      ('crank_nicolson_rk2', ti.crank_nicolson_rk2),
                      ('crank_nicolson_rk3', ti.crank_nicolson_rk3),
                      ('crank_nicolson_rk4', ti.crank_nicolson_rk4),
                      ('imex_rk_sil3', ti.imex_rk_sil3)):
      with ctx.impl('amplification-exception', dict(inp, scheme=name)):
        u = np.asarray(fac(eq, dt)(u0))
        r = float(np.abs(u)[0]) / n0
        ctx.expect(r <= 1 + 1e-12 and math.isfinite(r), f'amplification:{name}',
                   f'{name}: |u1|/|u0| = {r!r} > 1 at dt*mu = {dt * mu!r}', dict(inp, scheme=name, ratio=r))
    alpha = float(rng.choice([0.5, 0.5, 0.75, 1.0, rng.uniform(0.5, 1.0)]))
    with ctx.impl('amplification-exception', dict(inp, scheme='semi_implicit_leapfrog')):
      prev, cur = u0, jnp.asarray(np.array([complex(rng.standard_normal(), rng.standard_normal())]))
      fut = np.asarray(ti.semi_implicit_leapfrog(eq, dt, alpha)((prev, cur))[1])
      r = float(np.abs(fut)[0]) / n0
      ctx.expect(r <= 1 + 1e-12 and math.isfinite(r), 'amplification:semi_implicit_leapfrog',
                 f'leapfrog(alpha={alpha}): |u_{{n+1}}|/|u_{{n-1}}| = {r!r} > 1 at dt*mu = {dt * mu!r}',
                 dict(inp, alpha=alpha, ratio=r))


def _probe_reductions(ctx, ti, jnp):
  """G = 0 -> explicit parent method, F = 0 -> implicit parent method (independent numpy oracles)"""
  rng = ctx.rng
  for ri in range(ctx.n(6, 60)):
    n = int(rng.integers(1, 5))
    A = rng.standard_normal((n, n))
    Gm = -(A @ A.T) / n + (lambda S: S - S.T)(rng.standard_normal((n, n)))
    c3 = rng.standard_normal((n, n, n)) * 0.3
    def Fn(u):
      return np.einsum('ijk,j,k->i', c3, u, u) + np.cos(u)
    u0 = rng.standard_normal(n)
    dt = float(rng.choice([0.05, 0.1, 0.25]) * rng.choice([1, 1, -1]))
    inp = dict(n=n, dt=dt, u0=u0.tolist())
    eqx = ti.ImplicitExplicitODE.from_functions(
        lambda u: jnp.asarray(Fn(np.asarray(u))), lambda u: jnp.zeros_like(u), lambda u, eta: u)
    eqi = ti.ImplicitExplicitODE.from_functions(
        lambda u: jnp.zeros_like(u), lambda u: jnp.asarray(Gm @ np.asarray(u)),
        lambda u, eta: jnp.asarray(np.linalg.solve(np.eye(n) - eta * Gm, np.asarray(u))))
    ctx.case(('red', ri), nontrivial=n >= 2)
    tol = 1e-10

    def close(a, b):
      a, b = np.asarray(a), np.asarray(b)
      return float(np.abs(a - b).max()) <= tol * max(1.0, float(np.abs(b).max()))

    def erk(Arows, b):
      ks = []
      for row in Arows:
        y = u0 + dt * sum((a * k for a, k in zip(row, ks)), np.zeros(n))
        ks.append(Fn(y))
      return u0 + dt * sum((bi * k for bi, k in zip(b, ks)), np.zeros(n))

    def cn(u, h):
      return np.linalg.solve(np.eye(n) - 0.5 * h * Gm, u + 0.5 * h * (Gm @ u))

    with ctx.impl('reduction-exception', inp):
      j0 = jnp.asarray(u0)
      ctx.expect(close(ti.backward_forward_euler(eqx, dt)(j0), u0 + dt * Fn(u0)), 'reduction:bfe-explicit',
                 'Euler pair with G=0 is not forward Euler', inp)
      ctx.expect(close(ti.backward_forward_euler(eqi, dt)(j0), np.linalg.solve(np.eye(n) - dt * Gm, u0)),
                 'reduction:bfe-implicit', 'Euler pair with F=0 is not backward Euler', inp)
      ctx.expect(close(ti.crank_nicolson_rk2(eqx, dt)(j0), erk([[], [1.0]], [0.5, 0.5])), 'reduction:cnrk2-explicit',
                 'CN-RK2 with G=0 is not Heun', inp)
      ctx.expect(close(ti.crank_nicolson_rk2(eqi, dt)(j0), cn(u0, dt)), 'reduction:cnrk2-implicit',
                 'CN-RK2 with F=0 is not Crank-Nicolson', inp)
      ctx.expect(close(ti.crank_nicolson_rk3(eqx, dt)(j0),
                       erk([[], [1 / 3], [-3 / 16, 15 / 16]], [1 / 6, 3 / 10, 8 / 15])), 'reduction:rk3-explicit',
                 'RK3-CN with G=0 is not Williamson RK3 in Butcher form', inp)
      u = u0
      for f in (1 / 3, 3 / 4 - 1 / 3, 1 / 4):
        u = cn(u, f * dt)
      ctx.expect(close(ti.crank_nicolson_rk3(eqi, dt)(j0), u), 'reduction:rk3-implicit',
                 'RK3-CN with F=0 is not the chain of Crank-Nicolson sub-steps', inp)
      ctx.expect(close(ti.imex_rk_sil3(eqx, dt)(j0),
                       erk([[], [1 / 3], [1 / 6, 1 / 2], [1 / 2, -1 / 2, 1]], [1 / 2, -1 / 2, 1, 0])),
                 'reduction:sil3-explicit', 'SIL3 with G=0 is not the explicit RK of (a_ex, b_ex)', inp)
      # DIRK of (a_im, b_im)
      a_im = [[1 / 6, 1 / 6], [1 / 3, 0, 1 / 3], [3 / 8, 0, 3 / 8, 1 / 4]]
      gs = [Gm @ u0]
      for i, row in enumerate(a_im, start=1):
        ystar = u0 + dt * sum((row[j] * gs[j] for j in range(i)), np.zeros(n))
        gs.append(Gm @ np.linalg.solve(np.eye(n) - dt * row[i] * Gm, ystar))
      want = u0 + dt * sum((b * g for b, g in zip([3 / 8, 0, 3 / 8, 1 / 4], gs)), np.zeros(n))
      ctx.expect(close(ti.imex_rk_sil3(eqi, dt)(j0), want), 'reduction:sil3-implicit',
                 'SIL3 with F=0 is not the DIRK of (a_im, b_im)', inp)
      # user-supplied tableaux (random consistent ones; the last explicit/implicit weights are non-zero)
      s_ = int(rng.integers(2, 5))
      ta_ex = [[float(v) for v in rng.uniform(-1, 1, i + 1)] for i in range(s_ - 1)]
      ta_im = [[float(v) for v in rng.uniform(-0.5, 0.5, i + 1)] + [float(rng.uniform(0.1, 0.6))]
               for i in range(s_ - 1)]
      tb_ex = [float(v) for v in rng.uniform(0.2, 1, s_)]
      tb_im = [float(v) for v in rng.uniform(0.2, 1, s_)]
      if rng.random() < 0.4:   # stiffly accurate implicit part, last explicit weight zero, b_ex != last explicit row
        tb_im, tb_ex[-1] = list(ta_im[-1]), 0.0
      tab = ti.ImExButcherTableau(a_ex=ta_ex, a_im=ta_im, b_ex=tb_ex, b_im=tb_im)
      inpt = dict(inp, a_ex=ta_ex, a_im=ta_im, b_ex=tb_ex, b_im=tb_im)
      ctx.expect(close(ti.imex_runge_kutta(tab, eqx, dt)(j0), erk([[]] + ta_ex, tb_ex)),
                 'reduction:imexrk-explicit',
                 'imex_runge_kutta with G=0 is not the explicit RK of the supplied (a_ex, b_ex)', inpt)
      gs = [Gm @ u0]
      for i, row in enumerate(ta_im, start=1):
        ystar = u0 + dt * sum((row[j] * gs[j] for j in range(i)), np.zeros(n))
        gs.append(Gm @ np.linalg.solve(np.eye(n) - dt * row[i] * Gm, ystar))
      want = u0 + dt * sum((b * g for b, g in zip(tb_im, gs)), np.zeros(n))
      ctx.expect(close(ti.imex_runge_kutta(tab, eqi, dt)(j0), want), 'reduction:imexrk-implicit',
                 'imex_runge_kutta with F=0 is not the DIRK of the supplied (a_im, b_im)', inpt)
      p, c = u0, rng.standard_normal(n)
      lf = ti.semi_implicit_leapfrog(eqx, dt)((jnp.asarray(p), jnp.asarray(c)))
      ctx.expect(close(lf[0], c) and close(lf[1], p + 2 * dt * Fn(c)), 'reduction:leapfrog-explicit',
                 'leapfrog with G=0 is not the explicit leapfrog', inp)
      al = float(rng.choice([0.5, 0.75, 1.0]))
      lf = ti.semi_implicit_leapfrog(eqi, dt, al)((jnp.asarray(p), jnp.asarray(c)))
      want = np.linalg.solve(np.eye(n) - 2 * dt * al * Gm, p + 2 * dt * (1 - al) * (Gm @ p))
      ctx.expect(close(lf[1], want), 'reduction:leapfrog-implicit',
                 'leapfrog with F=0 is not the alpha-weighted two-level implicit scheme', inp)
