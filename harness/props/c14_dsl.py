"""DSL of concrete step functions for C14 (stepping and scan combinators).

A program is a list of instructions acting on the flattened pytree state (a vector):

  ('A', A, b)   s <- A @ s + b          affine map (integer matrix)
  ('M', m)      s <- s mod m            elementwise Python/jnp mod (m > 0)
  ('C', i, k)   s[i] += k               counter
  ('X', i, j)   s[i] += s[j]            non-commuting update
  ('P', i, j)   s[i] *= s[j]            non-commuting, non-linear update

The same program is interpreted three times: by `run_jax` inside the functions handed to the real
dinosaur combinators, by `run_py` on Python integers (unbounded; the independent sequential-loop
oracle, which also detects int64 overflow), and by the Lean model (`Dino/CombDrv.lean`).
"""
from __future__ import annotations

import numpy as np

LIMIT = 2 ** 60


class Overflow(Exception):
  pass


# ---------------------------------------------------------------- interpreters


def run_jax(prog, s):
  import jax.numpy as jnp
  for ins in prog:
    k = ins[0]
    if k == 'A':
      s = jnp.asarray(ins[1], s.dtype) @ s + jnp.asarray(ins[2], s.dtype)
    elif k == 'M':
      s = jnp.mod(s, ins[1])
    elif k == 'C':
      s = s.at[ins[1]].add(ins[2])
    elif k == 'X':
      s = s.at[ins[1]].add(s[ins[2]])
    elif k == 'P':
      s = s.at[ins[1]].multiply(s[ins[2]])
    else:
      raise AssertionError(k)
  return s


def run_py(prog, s):
  """Pure Python integers / floats; raises Overflow beyond 2**60 (integers only)."""
  s = list(s)
  for ins in prog:
    k = ins[0]
    if k == 'A':
      a, b = ins[1], ins[2]
      s = [sum(_py(a[r][c]) * s[c] for c in range(len(s))) + _py(b[r]) for r in range(len(a))]
    elif k == 'M':
      s = [v % ins[1] for v in s]
    elif k == 'C':
      s[ins[1]] = s[ins[1]] + _py(ins[2])
    elif k == 'X':
      s[ins[1]] = s[ins[1]] + s[ins[2]]
    elif k == 'P':
      s[ins[1]] = s[ins[1]] * s[ins[2]]
    for v in s:
      if isinstance(v, int) and abs(v) >= LIMIT:
        raise Overflow()
  return s


def _py(v):
  v = v.item() if hasattr(v, 'item') else v
  return v


# ---------------------------------------------------------------- encoding


def enc_prog(prog, num, vec, mat):
  """num/vec/mat: encoders of scalars, vectors, matrices (ints or float bit patterns)."""
  if not prog:
    return '.'
  out = []
  for ins in prog:
    k = ins[0]
    if k == 'A':
      out.append(f'A:{mat(ins[1])}:{vec(ins[2])}')
    elif k == 'M':
      out.append(f'M:{int(ins[1])}')
    elif k == 'C':
      out.append(f'C:{int(ins[1])}:{num(ins[2])}')
    else:
      out.append(f'{k}:{int(ins[1])}:{int(ins[2])}')
  return '|'.join(out)


def enc_progs(progs, num, vec, mat):
  return '~'.join(enc_prog(p, num, vec, mat) for p in progs) if progs else '_'


def imat(rows):
  rows = [list(r) for r in rows]
  return ';'.join((','.join(str(int(x)) for x in r) if r else '_') for r in rows) if rows else '_'


def ivec(xs):
  xs = list(xs)
  return ','.join(str(int(x)) for x in xs) if xs else '_'


def unimat(s):
  if s == '_':
    return []
  return [([] if r == '_' else [int(t) for t in r.split(',')]) for r in s.split(';')]


def univec(s):
  return [] if s == '_' else [int(t) for t in s.split(',')]


# ---------------------------------------------------------------- generators


def gen_prog(rng, d, kind=None, mod=None):
  """Random program on a vector of dimension d >= 1."""
  kinds = ['affine', 'counter', 'noncommuting', 'mixed', 'product', 'permutation', 'identity']
  if kind is None:
    kind = str(rng.choice(kinds, p=[0.25, 0.1, 0.2, 0.2, 0.1, 0.1, 0.05]))
  prog = []
  if kind == 'identity':
    pass
  elif kind == 'affine':
    prog.append(('A', rng.integers(-1, 3, (d, d)), rng.integers(-3, 4, d)))
  elif kind == 'permutation':
    p = rng.permutation(d)
    a = np.zeros((d, d), dtype=np.int64)
    a[np.arange(d), p] = rng.choice([1, -1], d)
    prog.append(('A', a, rng.integers(-2, 3, d)))
  elif kind == 'counter':
    for _ in range(int(rng.integers(1, 3))):
      prog.append(('C', int(rng.integers(0, d)), int(rng.integers(-3, 4))))
  elif kind == 'noncommuting':
    for _ in range(int(rng.integers(2, 5))):
      if rng.random() < 0.6:
        prog.append(('X', int(rng.integers(0, d)), int(rng.integers(0, d))))
      else:
        prog.append(('C', int(rng.integers(0, d)), int(rng.integers(-2, 3))))
  elif kind == 'mixed':
    prog.append(('X', int(rng.integers(0, d)), int(rng.integers(0, d))))
    prog.append(('A', rng.integers(-1, 2, (d, d)), rng.integers(-2, 3, d)))
    prog.append(('C', int(rng.integers(0, d)), 1))
  elif kind == 'product':
    m = int(rng.choice([5, 7, 11, 97, 1009]))
    prog.append(('M', m))
    prog.append(('P', int(rng.integers(0, d)), int(rng.integers(0, d))))
    prog.append(('C', int(rng.integers(0, d)), int(rng.integers(1, 4))))
    prog.append(('X', int(rng.integers(0, d)), int(rng.integers(0, d))))
    prog.append(('M', m))
  if mod is not None and kind not in ('product', 'identity'):
    prog.append(('M', int(mod)))
  return prog, kind


def to_float_prog(prog):
  out = []
  for ins in prog:
    if ins[0] == 'A':
      out.append(('A', np.asarray(ins[1], float), np.asarray(ins[2], float)))
    elif ins[0] == 'C':
      out.append(('C', ins[1], float(ins[2])))
    else:
      out.append(ins)
  return out


# ---------------------------------------------------------------- pytrees

TREE_SHAPES = [
    ('scalar', lambda: 0, [()]),
    ('array3', lambda: 0, [(3,)]),
    ('dict', lambda: 0, [(2,), (), (1, 2)]),
    ('tuple', lambda: 0, [(3,), ()]),
    ('list3', lambda: 0, [(), (), ()]),
    ('matrix', lambda: 0, [(2, 2)]),
    ('pair', lambda: 0, [(), ()]),
]


def build_tree(name, leaves):
  """Assemble the named structure from its leaves (in jax leaf order)."""
  if name in ('scalar', 'array3', 'matrix'):
    return leaves[0]
  if name == 'dict':   # sorted keys: 'u', 'v' -> {'w', 'z'}
    return {'u': leaves[0], 'v': {'w': leaves[1], 'z': leaves[2]}}
  if name in ('tuple', 'pair'):
    return tuple(leaves)
  if name == 'list3':
    return list(leaves)
  raise AssertionError(name)


class TreeSpec:
  """A pytree structure with fixed leaf shapes; flatten <-> vector of size `dim`."""

  def __init__(self, name):
    self.name = name
    self.shapes = [s for n, _, s in TREE_SHAPES if n == name][0]
    self.sizes = [int(np.prod(s)) for s in self.shapes]
    self.dim = sum(self.sizes)

  def unflatten(self, vec):
    leaves, o = [], 0
    for shp, sz in zip(self.shapes, self.sizes):
      leaves.append(vec[o:o + sz].reshape(shp))
      o += sz
    return build_tree(self.name, leaves)

  def flatten(self, tree):
    import jax
    import jax.numpy as jnp
    leaves = jax.tree_util.tree_leaves(tree)
    return jnp.concatenate([jnp.ravel(l) for l in leaves])

  def stacked_rows(self, tree):
    """Stacked tree (leading time axis on every leaf) -> list of rows (numpy)."""
    import jax
    leaves = [np.asarray(l) for l in jax.tree_util.tree_leaves(tree)]
    n = leaves[0].shape[0]
    return np.concatenate([l.reshape(n, -1) for l in leaves], axis=1)


def random_spec(rng, name=None):
  if name is None:
    name = str(rng.choice([n for n, _, _ in TREE_SHAPES]))
  return TreeSpec(name)


def ordered_factorisations(n, with_ones=False):
  """All ordered factorisations of n >= 1 into factors >= 2 (n = 1 -> [[1]])."""
  if n == 1:
    return [[1]]
  res = []

  def rec(m, acc):
    if m == 1:
      res.append(list(acc))
      return
    for f in range(2, m + 1):
      if m % f == 0:
        acc.append(f)
        rec(m // f, acc)
        acc.pop()
  rec(n, [])
  return res
