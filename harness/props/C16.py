"""C16 — conservative regridding preserves constants, bounds and integrals.

Lean: DinoProofs/Properties/C16.lean over the model Dino/Regrid.lean.
Tie: the model's weight matrices, cell bounds, phase alignment, vertical weights and the
whole `ConservativeRegridder.__call__` (NaN bookkeeping, both `skipna` modes) are run on the
inputs given to the real functions of horizontal_interpolation / vertical_interpolation
(float64) and compared.  Sentinel probes evaluate the property itself on the real code against
an independent geometric oracle (cells = arcs between circular mid-points, overlaps by
brute-force unwrapping).

Domain: integral conservation in longitude is proved (lonWeights_conservative_of_offset_points)
for strictly increasing longitudes spanning less than a period, anywhere on the real line (any
`longitude_offset`: `% period` then rotates the vector), whose largest circular gaps satisfy
`gap_s + gap_t <= period/2`.  It is asserted on the real code wherever
`width(source cell) + width(target cell) <= period/2` for every pair of cells (a superset).
Outside the theorem's domain (e.g. 3 -> 4 equispaced longitudes) `_periodic_overlap`
under-estimates the overlap although its stated precondition (no cell wider than period/2) holds:
the real code need NOT conserve there (some pairs outside the domain are conserved all the same: the
evidence counts both).  A lost integral is reported through `ctx.fail` with the structural
key `lon-conservation-wide-cells` (a recorded finding), from a fixed witness evaluated on every run
and from every generated pair outside the domain on which conservation actually fails.

Vertical: conservation is claimed over the covered range only, for sorted source and target bounds
(`vertical_conservation`; `hs`, `ht` of `regridHybridToSigma_conservation`).  The hybrid boundaries
`a/sp + b` are sorted only above a surface pressure that depends on the coefficient set (303.3 hPa for
ECMWF137, 264.5 hPa for UFS127: below any surface pressure on Earth); columns with unsorted
boundaries are counted, only the hypothesis-free statements (non-negative weights, unit row sums)
are asserted on them, and `probe_hybrid_threshold` records on every run what the real code does
below the threshold (explicitly NOT claimed).
"""
from fractions import Fraction

import numpy as np

import common
from common import fvec, fbits, fmat, unfvec, unfmat, unfbits, qvec, qstr, unqmat

TWO_PI = 2 * np.pi
HALF_PI = np.pi / 2
ISCLOSE_TOL = 1e-3 + 1e-8          # jnp.isclose(x, 1, rtol=1e-3): atol + rtol*|1|
SLIVER_KEY = 'skipna-false-sliver-overlap'
WIDE_KEY = 'lon-conservation-wide-cells'
EPS = 1e-12

RULE = ('horizontal: grid pairs from spherical_harmonic.Grid with 4..24 longitudes, 1..16 latitudes, '
        'gauss / equiangular / equiangular_with_poles spacing, longitude offsets (0, random, negative, '
        'beyond one cell, beyond 2pi, the [-pi, pi) layout, 0.05% and 0.2% of a cell), coarser / finer / '
        'equal / non-nested, 3 -> 4 and 4 -> 3 longitudes (outside the domain), plus raw non-uniform '
        'coordinate vectors (sizes 1,2,3 first); fields standard normal with NaN patterns (none, one cell, '
        '10%, a full row, all); stacked fields with leading shapes (3,), (4,), (2,2) whose NaN pattern differs '
        'between slices (moving hole, one slice with a missing row, one slice entirely missing, random densities), '
        'random and constant values; vertical: random hybrid coefficient sets (1..12 layers, top at or above '
        'zero pressure), surface pressures 500..1100, sigma level sets from dinoutil.random_boundaries, raw '
        'bound vectors with the source range inside / beyond / disjoint from the target range; a case is '
        'non-trivial when the two partitions are not identical; distinct = distinct input hashes')


# --------------------------------------------------------------------------
# independent oracle


def lon_cells_oracle(points, period=TWO_PI):
  """Cells of circularly ordered points: arcs between the mid-points to the two neighbours."""
  p = np.mod(np.asarray(points, dtype=float), period)
  nxt = np.mod(np.roll(p, -1) - p, period)
  prv = np.mod(p - np.roll(p, 1), period)
  return p - prv / 2, p + nxt / 2


def arc_gap(a0, a1, b0, b1, period=TWO_PI):
  """max over unwrappings of min(upper) - max(lower): > 0 overlap length, < 0 distance."""
  best = -np.inf
  for k in range(-3, 4):
    best = np.maximum(best, np.minimum(a1, b1 + k * period) - np.maximum(a0, b0 + k * period))
  return best


def arc_overlap(a0, a1, b0, b1, period=TWO_PI):
  tot = 0.0
  for k in range(-3, 4):
    tot = tot + np.maximum(np.minimum(a1, b1 + k * period) - np.maximum(a0, b0 + k * period), 0)
  return tot


def lat_bounds_oracle(lat):
  lat = np.asarray(lat, dtype=float)
  return np.concatenate([[-HALF_PI], (lat[:-1] + lat[1:]) / 2, [HALF_PI]])


def lin_gap(tb, sb):
  return np.minimum(tb[1:, None], sb[None, 1:]) - np.maximum(tb[:-1, None], sb[None, :-1])


def cyc_gaps(p, period):
  """Circular gaps of raw increasing points (no modulo): the differences and the wrap-around gap."""
  return [b - a for a, b in zip(p[:-1], p[1:])] + [period - (p[-1] - p[0])]


def theorem_applies(lon_s, lon_t, exact=False):
  """Hypotheses of Dino.C16.lonWeights_conservative_of_offset_points on raw coordinate vectors:
  >= 2 strictly increasing points spanning less than a period each, largest circular gaps adding
  up to at most half a period.  `exact`: decided in rational arithmetic on the doubles."""
  conv = Fraction if exact else float
  per = conv(TWO_PI)
  gmax = []
  for p in (lon_s, lon_t):
    p = [conv(float(v)) for v in p]
    if len(p) < 2 or not all(b > a for a, b in zip(p[:-1], p[1:])) or not p[-1] - p[0] < per:
      return False
    gmax.append(max(cyc_gaps(p, per)))
  return gmax[0] + gmax[1] <= per / 2


class Geometry:
  """Oracle geometry of a (source, target) pair of lon/lat coordinate vectors."""

  def __init__(self, lon_s, lat_s, lon_t, lat_t):
    self.ls0, self.ls1 = lon_cells_oracle(lon_s)
    self.lt0, self.lt1 = lon_cells_oracle(lon_t)
    self.lon_gap = arc_gap(self.lt0[:, None], self.lt1[:, None], self.ls0[None, :], self.ls1[None, :])
    self.lon_ov = arc_overlap(self.lt0[:, None], self.lt1[:, None], self.ls0[None, :], self.ls1[None, :])
    self.wlon_s, self.wlon_t = self.ls1 - self.ls0, self.lt1 - self.lt0
    bs, bt = lat_bounds_oracle(lat_s), lat_bounds_oracle(lat_t)
    sbs, sbt = np.sin(bs), np.sin(bt)
    self.lat_gap = lin_gap(bt, bs)
    self.lat_ov = np.maximum(np.minimum(sbt[1:, None], sbs[None, 1:]) - np.maximum(sbt[:-1, None], sbs[None, :-1]), 0)
    self.lat_ov = np.where(self.lat_gap > 0, self.lat_ov, 0)
    self.wlat_s, self.wlat_t = np.diff(sbs), np.diff(sbt)
    with np.errstate(all='ignore'):
      self.lon_w = self.lon_ov / self.wlon_t[:, None]
      self.lat_w = self.lat_ov / self.wlat_t[:, None]
    gaps = [np.mod(np.roll(np.mod(p, TWO_PI), -1) - np.mod(p, TWO_PI), TWO_PI) for p in
            (np.asarray(lon_s, dtype=float), np.asarray(lon_t, dtype=float))]
    # domain of the longitude theorems: circular gaps below half a period (cells are what the oracle
    # says) and width_s + width_t <= half a period (overlaps are what the oracle says)
    self.lon_domain = bool(len(self.wlon_s) >= 3 and len(self.wlon_t) >= 3 and
                           max(g.max() for g in gaps) < TWO_PI / 2 * (1 - 1e-9) and
                           min(g.min() for g in gaps) > 0 and
                           self.wlon_s.max() + self.wlon_t.max() <= TWO_PI / 2 * (1 + 1e-12))
    # domain of lonWeights_conservative_of_offset_points (condition on the largest circular gaps): a subset
    self.thm_domain = theorem_applies(lon_s, lon_t)
    self.area_s = self.wlon_s[:, None] * self.wlat_s[None, :]
    self.area_t = self.wlon_t[:, None] * self.wlat_t[None, :]


# --------------------------------------------------------------------------
# generators

# eager jnp code compiles once per shape: sizes are drawn from a fixed table (corner sizes first)
# (quick: 8 shapes, every one costs a few seconds of XLA compilation; thorough adds SHAPES_MORE)
SHAPES = [(1, 1), (2, 1), (2, 3), (1, 4), (4, 4), (5, 4), (4, 7), (7, 5)]
SHAPES_MORE = SHAPES + [(3, 3), (3, 4), (12, 7), (5, 12), (6, 6), (9, 4), (4, 9), (16, 8), (8, 16), (13, 11),
                        (24, 5), (2, 8)]
VSHAPES = [(1, 1), (1, 2), (2, 1), (2, 2), (3, 5), (5, 3), (4, 4), (9, 2), (2, 9), (7, 8)]


def pick_shape(ctx, table, ci, min_size=1):
  tab = [t for t in (table if ctx.quick else table + SHAPES_MORE) if min(t) >= min_size]
  return tab[ci % len(tab)]


def make_grid(sh, nlon, nlat, spacing, offset):
  return sh.Grid(longitude_nodes=int(nlon), latitude_nodes=int(nlat), latitude_spacing=spacing,
                 longitude_offset=float(offset))


SPACINGS = ['gauss', 'equiangular', 'equiangular_with_poles']


def grid_pair_specs(rng, n, n_forced=12):
  """(source spec, target spec, tag); spec = (nlon, nlat, spacing, offset)."""
  forced = [
      # the recorded finding: 0.05 % of a cell (NaN not propagated), then 0.2 % (propagated)
      ((8, 5, 'gauss', 0.1), (8, 4, 'equiangular_with_poles', 0.1 + 0.0005 * TWO_PI / 8), 'sliver-0.05%'),
      ((8, 5, 'gauss', 0.0), (8, 5, 'gauss', 0.002 * TWO_PI / 8), 'sliver-0.2%'),
      ((8, 4, 'gauss', 0.0), (8, 4, 'gauss', 0.0), 'identical'),
      # both grids offset by more than one period (`% period` matters), still nested
      ((8, 4, 'gauss', 6.5), (4, 2, 'gauss', 6.5), 'coarser-nested'),
      ((4, 2, 'equiangular', 0.0), (8, 4, 'equiangular', 0.0), 'finer-nested'),
      ((6, 3, 'gauss', 0.3), (5, 4, 'equiangular', -0.2), 'non-nested'),
      ((4, 1, 'gauss', 0.0), (5, 1, 'equiangular', 1.0), 'one-latitude'),
      # offset grids: `% period` rotates the longitude vector (first node negative / last node beyond 2pi)
      ((8, 4, 'gauss', -0.05), (5, 4, 'equiangular', 0.0), 'offset-negative'),
      ((8, 4, 'gauss', -np.pi), (5, 4, 'equiangular', -np.pi), 'offset-minus-pi-layout'),
      ((5, 4, 'equiangular', 2.3 * TWO_PI / 5), (8, 4, 'gauss', -0.3), 'offset-beyond-one-cell'),
      # thorough tier only (n_forced below)
      ((12, 6, 'equiangular_with_poles', 6.5), (9, 7, 'gauss', 0.0), 'offset-beyond-2pi'),
      ((16, 8, 'gauss', 0.0), (16, 8, 'gauss', np.pi / 16), 'half-cell-offset'),
  ]
  out = forced[:min(n, n_forced)]
  while len(out) < n:
    specs = []
    for _ in range(2):
      nlon = rng.choice([4, 5, 6, 8, 9, 12, 16, 24])
      nlat = rng.choice([1, 2, 3, 4, 5, 8, 9, 16])
      spacing = SPACINGS[int(rng.integers(0, 3))]
      if spacing == 'equiangular_with_poles' and nlat < 2:
        nlat = 2
      off = float(rng.choice([0.0, rng.uniform(0, TWO_PI), -rng.uniform(0, 1), rng.uniform(0, 0.01)]))
      specs.append((int(nlon), int(nlat), spacing, off))
    out.append((specs[0], specs[1], 'random'))
  return out


def random_increasing(rng, n, lo, hi, kind):
  if kind == 'uniform':
    return lo + (hi - lo) * (np.arange(n) + 0.5) / n
  d = rng.uniform(0.5, 1.5, n + 1) if kind == 'mild' else np.exp(rng.uniform(-2, 2, n + 1))
  c = np.cumsum(d)
  return lo + (hi - lo) * c[:-1] / c[-1]


def nan_patterns(rng, shape, k):
  f = rng.standard_normal(shape)
  mode = ['none', 'one', 'ten-percent', 'row', 'all', 'half'][k % 6]
  if mode == 'one':
    f[tuple(int(rng.integers(0, s)) for s in shape)] = np.nan
  elif mode == 'ten-percent':
    f[rng.random(shape) < 0.1] = np.nan
  elif mode == 'row':
    f[int(rng.integers(0, shape[0]))] = np.nan
  elif mode == 'all':
    f[:] = np.nan
  elif mode == 'half':
    f[rng.random(shape) < 0.5] = np.nan
  return f, mode


def optmat(f):
  return ';'.join(','.join('n' if np.isnan(v) else fbits(v) for v in row) for row in f)


def unoptmat(s):
  return [] if s == '_' else [[np.nan if t == 'n' else unfbits(t) for t in r.split(',')] for r in s.split(';')]


def random_hybrid(rng, n=None):
  """Hybrid coefficients (a in hPa, b) whose sigma boundaries increase for sp around 1000."""
  if n is None:
    n = int(rng.choice([1, 2, 3, 4, 5, 7, 12]))
  top = float(rng.choice([0.0, 0.0, rng.uniform(0.1, 50)]))
  d = np.exp(rng.uniform(-1.5, 1.5, n))
  p = top + (1000 - top) * np.concatenate([[0], np.cumsum(d) / d.sum()])
  p[-1] = 1000.0
  frac = np.clip((p / 1000 - 0.1) / 0.9, 0, 1) ** float(rng.uniform(1, 3))   # b/sigma, 0 aloft, 1 at surface
  b = frac * p / 1000
  b[-1] = 1.0
  a = p - 1000 * b
  a[-1] = 0.0
  return a, b


# --------------------------------------------------------------------------


def run(ctx: common.Ctx):
  jax = common.setup_jax()
  import jax.numpy as jnp
  from dinosaur import horizontal_interpolation as hi
  from dinosaur import vertical_interpolation as vi
  from dinosaur import spherical_harmonic as sh
  from dinosaur import sigma_coordinates as sc
  import dinoutil

  extra = ['DinoProofs/Lemmas/Regrid.lean', 'DinoProofs/Lemmas/RegridCyclic.lean', 'Dino/Regrid.lean',
           'Dino/RegridDrv.lean']
  ctx.lean('DinoProofs.Properties.C16', 'C16.txt', extra_files=extra)

  rng = ctx.rng
  lines, checks = [], []

  def add(line, op, inp, impl, kind='mat'):
    lines.append(line)
    checks.append((op, inp, impl, kind))

  hp, per = fbits(HALF_PI), fbits(TWO_PI)

  # ================================================================ correspondence
  # ---- 1. coordinate vectors: raw (sizes 1,2,3 first, non-uniform) and from Grid objects
  nvec = ctx.n(16, 360)
  for ci in range(nvec):
    ns, nt = pick_shape(ctx, SHAPES, ci)
    kind = ['uniform', 'mild', 'strong'][ci % 3]
    ctx.dist[f'vec:kind={kind}'] += 1
    lat_s = random_increasing(rng, ns, -HALF_PI, HALF_PI, kind)
    lat_t = random_increasing(rng, nt, -HALF_PI, HALF_PI, ['mild', 'uniform', 'strong'][ci % 3])
    if ci % 7 == 3 and ns >= 2:
      lat_s[0], lat_s[-1] = -HALF_PI, HALF_PI      # points at the poles
    lon_s = random_increasing(rng, ns, 0, TWO_PI, kind) + float(rng.choice([0, 0, rng.uniform(-7, 7)]))
    lon_t = random_increasing(rng, nt, 0, TWO_PI, ['mild', 'uniform', 'strong'][ci % 3]) \
        + float(rng.choice([0, rng.uniform(-7, 7)]))
    inp = dict(lat_s=lat_s.tolist(), lat_t=lat_t.tolist(), lon_s=lon_s.tolist(), lon_t=lon_t.tolist())
    ctx.case(('vec', lat_s.tobytes(), lat_t.tobytes(), lon_s.tobytes(), lon_t.tobytes()),
             nontrivial=(ns != nt or kind != 'uniform'), sample=inp if ci in (3, 9) else None)
    add(f'regrid F latbounds {hp} {fvec(lat_s)}', '_latitude_cell_bounds', inp,
        np.asarray(hi._latitude_cell_bounds(jnp.asarray(lat_s))), 'vec')
    add(f'regrid F latov {hp} {fvec(lat_s)} {fvec(lat_t)}', '_latitude_overlap', inp,
        np.asarray(hi._latitude_overlap(lat_s, lat_t)))
    add(f'regrid F latw {hp} {fvec(lat_s)} {fvec(lat_t)}', 'conservative_latitude_weights', inp,
        np.asarray(hi.conservative_latitude_weights(lat_s, lat_t)))
    ps = lon_s % TWO_PI
    add(f'regrid F lonbounds {per} {fvec(lon_s)}', '_periodic_lower/upper_bounds', inp,
        np.stack([np.asarray(hi._periodic_lower_bounds(ps, TWO_PI)),
                  np.asarray(hi._periodic_upper_bounds(ps, TWO_PI))]))
    add(f'regrid F lonov {per} {fvec(lon_t)} {fvec(lon_s)}', '_longitude_overlap', inp,
        np.asarray(hi._longitude_overlap(lon_t, lon_s)))
    add(f'regrid F lonw {per} {fvec(lon_s)} {fvec(lon_t)}', 'conservative_longitude_weights', inp,
        np.asarray(hi.conservative_longitude_weights(lon_s, lon_t)))
    # another period
    p2 = float(rng.choice([1.0, 360.0]))
    add(f'regrid F lonov {fbits(p2)} {fvec(lon_t * p2 / TWO_PI)} {fvec(lon_s * p2 / TWO_PI)}',
        '_longitude_overlap[period]', dict(inp, period=p2),
        np.asarray(hi._longitude_overlap(lon_t * p2 / TWO_PI, lon_s * p2 / TWO_PI, period=p2)))

  # ---- 2. _align_phase_with on scalars (ties at +-period/2 first)
  nal = ctx.n(60, 600)
  for ci in range(nal):
    p = float(rng.choice([TWO_PI, 1.0, 360.0]))
    t = float(rng.uniform(-p, 2 * p))
    x = {0: t + p / 2, 1: t - p / 2, 2: t, 3: t + p, 4: t - p}.get(ci % 12, float(rng.uniform(-2 * p, 3 * p)))
    r = float(hi._align_phase_with(x, t, p))
    ctx.dist['align:' + ('down' if r < x else 'up' if r > x else 'same')] += 1
    ctx.case(('align', x, t, p), nontrivial=True)
    add(f'regrid F align {fbits(x)} {fbits(t)} {fbits(p)}', '_align_phase_with', dict(x=x, target=t, period=p),
        r, 'scalar')

  # ---- 3. malformed stream: `_assert_increasing`
  nbad = ctx.n(24, 240)
  for ci in range(nbad):
    n = int(rng.integers(2, 7))
    good = random_increasing(rng, n, 0.1, 1.4, 'mild')
    bad = good.copy()
    mode = ['swap', 'dup', 'ok', 'reverse'][ci % 4]
    if mode == 'swap':
      i = int(rng.integers(0, n - 1))
      bad[i], bad[i + 1] = bad[i + 1], bad[i]
    elif mode == 'dup':
      i = int(rng.integers(0, n - 1))
      bad[i + 1] = bad[i]
    elif mode == 'reverse':
      bad = bad[::-1].copy()
    which = ['source', 'target'][ci % 2]
    a, b = (bad, good) if which == 'source' else (good, bad)
    for name, fn, op in (('lat', hi.conservative_latitude_weights, f'latw {hp}'),
                         ('lon', hi.conservative_longitude_weights, f'lonw {per}')):
      try:
        fn(a, b)
        res = 'ok'
      except ValueError:
        res = 'value-error'
      ctx.dist[f'validation:{name}:{mode}:{res}'] += 1
      ctx.case(('bad', name, a.tobytes(), b.tobytes()), nontrivial=True)
      add(f'regrid F {op} {fvec(a)} {fvec(b)}', f'conservative_{name}_weights[validation]',
          dict(source=a.tolist(), target=b.tolist()), res, 'status')
      ctx.expect((res == 'ok') == (mode == 'ok'), 'validation',
                 f'conservative_{name}_weights: {res} for a {mode} coordinate vector',
                 dict(source=a.tolist(), target=b.tolist()))

  # ---- 4. vertical: raw bounds and hybrid -> sigma
  nver = ctx.n(40, 400)
  for ci in range(nver):
    ns, nt = VSHAPES[ci % len(VSHAPES)] if (ctx.quick or ci % 3) else (int(rng.integers(1, 10)), int(rng.integers(1, 10)))
    tb = np.concatenate([[0], np.cumsum(rng.uniform(0.2, 2, nt))])
    tb = tb / tb[-1]
    mode = ['same-range', 'inside', 'beyond', 'disjoint', 'shifted'][ci % 5]
    lo, hi_ = dict([('same-range', (0, 1)), ('inside', (0.13, 0.9)), ('beyond', (-0.2, 1.3)),
                    ('disjoint', (1.5, 2.5)), ('shifted', (0.3, 1.4))])[mode]
    sb = np.concatenate([[0], np.cumsum(rng.uniform(0.2, 2, ns))])
    sb = lo + (hi_ - lo) * sb / sb[-1]
    inp = dict(source_bounds=sb.tolist(), target_bounds=tb.tolist())
    ctx.dist[f'vertical:raw:{mode}'] += 1
    ctx.case(('vraw', sb.tobytes(), tb.tobytes()), nontrivial=True, sample=inp if ci == 6 else None)
    add(f'regrid F intov {fvec(sb)} {fvec(tb)}', '_interval_overlap', inp,
        np.asarray(vi._interval_overlap(jnp.asarray(sb), jnp.asarray(tb))))
    add(f'regrid F vertw {fvec(sb)} {fvec(tb)}', 'conservative_regrid_weights', inp,
        np.asarray(vi.conservative_regrid_weights(jnp.asarray(sb), jnp.asarray(tb))))

  nhy = ctx.n(6, 60)
  hybrid_cases = []
  for ci in range(nhy):
    forced = {0: 1, 1: 2}.get(ci)
    if not ctx.quick and ci == 2:
      hc, tag = vi.HybridCoordinates.ECMWF137(), 'ECMWF137'
    elif not ctx.quick and ci == 3:
      hc, tag = vi.HybridCoordinates.UFS127(), 'UFS127'
    else:
      a, b = random_hybrid(rng, forced)
      hc, tag = vi.HybridCoordinates(a_boundaries=a, b_boundaries=b), 'random'
    sb_, skind = dinoutil.random_boundaries(rng, *((1, 'equidistant') if ci == 0 else (None, None)))
    sig = sc.SigmaCoordinates(sb_)
    sp = rng.uniform(500, 1100, (2, 3))
    sp[0, 0] = 1000.0
    f = rng.standard_normal((hc.layers, 2, 3)) * 10 + 250
    out = np.asarray(vi.regrid_hybrid_to_sigma(jnp.asarray(f), hc, sig, jnp.asarray(sp)))
    hybrid_cases.append((hc, sig, sp, f, out, tag))
    ctx.dist[f'vertical:hybrid:{tag}:layers={hc.layers}->{sig.layers}'] += 1
    for i in range(2):
      for j in range(3):
        inp = dict(a=np.asarray(hc.a_boundaries).tolist(), b=np.asarray(hc.b_boundaries).tolist(),
                   surface_pressure=float(sp[i, j]), sigma_boundaries=sb_.tolist(), field=f[:, i, j].tolist())
        ctx.case(('hyb', np.asarray(hc.a_boundaries).tobytes(), sb_.tobytes(), float(sp[i, j])), nontrivial=True,
                 sample=inp if (ci, i, j) == (2, 0, 1) else None)
        if i == 0:
          add(f'regrid F hybounds {fvec(hc.a_boundaries)} {fvec(hc.b_boundaries)} {fbits(sp[i, j])}',
              'get_sigma_boundaries', inp, np.asarray(hc.get_sigma_boundaries(sp[i, j])), 'vec')
        add(f'regrid F hybrid {fvec(hc.a_boundaries)} {fvec(hc.b_boundaries)} {fbits(sp[i, j])} {fvec(sb_)} '
            f'{fvec(f[:, i, j])}', 'regrid_hybrid_to_sigma', inp, out[:, i, j], 'vec')

  # ---- 5. the regridder objects: weights and __call__ with NaN patterns, both skipna modes
  npairs = ctx.n(11, 100)         # quick: 10 forced pairs + 1 random pair
  import time as _time
  t_batched = 0.0
  pairs = []
  not_equispaced, equi_not_applied = [], []
  for pi, (ss, ts, tag) in enumerate(grid_pair_specs(rng, npairs, ctx.n(10, 12))):
    gs, gt = make_grid(sh, *ss), make_grid(sh, *ts)
    geo = Geometry(gs.longitudes, gs.latitudes, gt.longitudes, gt.latitudes)
    ctx.dist[f'pair:{tag}'] += 1
    ctx.dist[f'pair:lat:{ss[2]}->{ts[2]}'] += 1
    rel = 'finer' if ts[0] * ts[1] > ss[0] * ss[1] else 'coarser' if ts[0] * ts[1] < ss[0] * ss[1] else 'equal-size'
    ctx.dist[f'pair:{rel}'] += 1
    # hypotheses of Dino.C16.lonWeights_conservative_of_(offset_)points / latWeights_conservative on this pair
    in_period = all(0 <= p[0] and p[-1] < TWO_PI for p in (gs.longitudes, gt.longitudes))
    ctx.dist[f'hyp:lonWeights_conservative_of_points applies={in_period and geo.thm_domain}'] += 1
    ctx.dist[f'hyp:lonWeights_conservative_of_offset_points applies={geo.thm_domain}'] += 1
    rotated = [bool((np.diff(np.mod(p, TWO_PI)) < 0).any()) for p in (gs.longitudes, gt.longitudes)]
    ctx.dist[f'pair:lon % period rotates source={rotated[0]} target={rotated[1]}'] += 1
    ctx.obligation(f'theorem domain inside the probed domain for {ss}->{ts}', 'hypothesis',
                   (not geo.thm_domain) or geo.lon_domain,
                   'gap_s + gap_t <= period/2 implies width_s + width_t <= period/2 and gaps below period/2')
    # Grid.longitudes are the equispaced points `off + i P/n` of lonWeights_conservative_equispaced, whose
    # hypothesis is 1/n_s + 1/n_t <= 1/2 (strictly inside it the float gaps satisfy gap_s + gap_t <= P/2 too;
    # on the boundary, 4 <-> 4 and 3 <-> 6, rounding decides); hmd: the float % reduces into [0, P) by whole periods
    for spec, g_ in ((ss, gs), (ts, gt)):
      lon = np.asarray(g_.longitudes, dtype=float)
      if np.abs(lon - (spec[3] + np.arange(spec[0]) * (TWO_PI / spec[0]))).max() > 1e-12 * max(1.0, abs(spec[3])):
        not_equispaced.append(spec)
      red = lon % TWO_PI
      hmd_ok = bool(((red >= 0) & (red < TWO_PI)).all() and
                    np.abs(lon - np.round((lon - red) / TWO_PI) * TWO_PI - red).max() < 1e-12 * max(1.0, abs(spec[3])))
      ctx.dist[f'hyp:hmd (float % reduces into [0, P) by whole periods) holds={hmd_ok}'] += 1
    equi_hyp = Fraction(1, ss[0]) + Fraction(1, ts[0])
    ctx.dist[f'hyp:lonWeights_conservative_equispaced 1/n_s + 1/n_t {"<" if equi_hyp < Fraction(1, 2) else "=" if equi_hyp == Fraction(1, 2) else ">"} 1/2'] += 1
    if equi_hyp < Fraction(1, 2) and not geo.thm_domain:
      equi_not_applied.append((ss, ts))
    lat_ok = all((np.diff(x) > 0).all() and x[0] >= -HALF_PI and x[-1] <= HALF_PI for x in (gs.latitudes, gt.latitudes))
    ctx.obligation(f'hypotheses of latWeights_conservative hold for {ss}->{ts}', 'hypothesis', lat_ok,
                   'latitudes strictly increasing inside [-pi/2, pi/2]')
    regs = {skip: hi.ConservativeRegridder(gs, gt, skipna=skip) for skip in (False, True)}
    inp0 = dict(source=ss, target=ts)
    pairs.append((ss, ts, tag, gs, gt, geo, regs))
    add(f'regrid F latw {hp} {fvec(gs.latitudes)} {fvec(gt.latitudes)}', 'ConservativeRegridder.lat_weights',
        inp0, np.asarray(regs[False].lat_weights))
    add(f'regrid F lonw {per} {fvec(gs.longitudes)} {fvec(gt.longitudes)}', 'ConservativeRegridder.lon_weights',
        inp0, np.asarray(regs[False].lon_weights))
    for k in range(ctx.n(3, 6)):
      f, mode = nan_patterns(rng, gs.nodal_shape, k + pi)
      if tag.startswith('sliver') and k == 0:
        f = rng.standard_normal(gs.nodal_shape)
        f[3, 2] = np.nan
        mode = 'one'
      ctx.dist[f'nan:{mode}'] += 1
      for skip in (False, True):
        out = np.asarray(regs[skip](jnp.asarray(f)))
        inp = dict(source=ss, target=ts, skipna=skip, field=f.tolist())
        ctx.case(('call', repr(ss), repr(ts), skip, f.tobytes()), nontrivial=(ss != ts),
                 sample=dict(source=ss, target=ts, skipna=skip, nan=mode) if pi == 5 and k == 1 else None)
        add(f'regrid F call {int(skip)} {hp} {per} {fvec(gs.longitudes)} {fvec(gt.longitudes)} '
            f'{fvec(gs.latitudes)} {fvec(gt.latitudes)} {optmat(f)}', 'ConservativeRegridder.__call__', inp, out,
            'optmat')
        probe_nan(ctx, geo, f, out, skip, inp)
    # fields with leading (time / level / batch) dimensions whose NaN pattern differs from slice to slice
    if tag in BATCH_TAGS or (not ctx.quick and tag == 'random' and pi % 4 == 0):
      t0 = _time.time()
      batched_nan_cases(ctx, jnp, add, ss, ts, tag, gs, gt, geo, regs, hp, per)
      t_batched += _time.time() - t0

  ctx.notes.append(f'timing [s]: batched NaN cases (real code, slice-by-slice reference, oracle) = {t_batched:.1f}')
  ctx.obligation('Grid.longitudes are the equispaced points off + i P/n of lonWeights_conservative_equispaced',
                 'hypothesis', not not_equispaced, f'not equispaced: {not_equispaced[:3]}')
  ctx.obligation('1/n_s + 1/n_t < 1/2 implies the hypotheses of lonWeights_conservative_of_offset_points on the doubles',
                 'hypothesis', not equi_not_applied, f'pairs: {equi_not_applied[:3]}')

  # ---- 6. the decision rule of one cell around the isclose threshold
  for ci in range(ctx.n(40, 200)):
    frac = float({0: 1.0, 1: 0.0, 2: 1 - 1e-3, 3: 1 - 1.0001e-3, 4: 1 + 1e-3, 5: 1 - 5e-4, 6: 1 - 2e-3}.get(
        ci, 1 - 10 ** rng.uniform(-6, -1) if ci % 2 else rng.uniform(0, 1)))
    mean = float(rng.standard_normal()) * (frac > 0)
    for skip in (False, True):
      with np.errstate(all='ignore'):
        if skip:
          r = float(jnp.asarray(mean) / jnp.asarray(frac))
        else:
          r = float(jnp.where(jnp.isclose(frac, 1, rtol=1e-3), jnp.asarray(mean) / jnp.asarray(frac), jnp.nan))
      ctx.dist[f'cell:skipna={skip}:{"nan" if np.isnan(r) else "value"}'] += 1
      ctx.case(('cell', mean, frac, skip), nontrivial=True)
      add(f'regrid F cell {int(skip)} {fbits(mean)} {fbits(frac)}', '__call__[decision rule]',
          dict(mean=mean, frac=frac, skipna=skip), [[r]], 'optmat')

  # ---- run the model
  outs = ctx.model(lines)
  for (op, inp, impl, kind), o in zip(checks, outs):
    if kind == 'status':
      ctx.corr_exact(op, inp, impl, 'value-error' if o == 'value-error' else 'ok')
      continue
    if o in ('bad-op', 'value-error'):
      ctx.corr_mismatch(op, inp, impl, o, 'model rejected the operation')
      continue
    if kind == 'mat':
      ctx.corr_float(op, inp, np.asarray(impl), np.asarray(unfmat(o), dtype=float))
    elif kind == 'optmat':
      ctx.corr_float(op, inp, np.asarray(impl), np.asarray(unoptmat(o), dtype=float))
    elif kind == 'scalar':
      ctx.corr_float(op, inp, [impl], [unfbits(o)])
    else:
      ctx.corr_float(op, inp, impl, unfvec(o))

  # ---- 7. exact (rational) run of the model on real grid coordinates: the conclusions of the
  #         theorems (row sums = target widths, column sums = source widths) hold exactly
  qlines, qmeta = [], []
  P = Fraction(TWO_PI)
  n_exact_min = 5
  for (ss, ts, tag, gs, gt, geo, regs) in pairs[:ctx.n(11, 30)]:
    # exactly the domain of lonWeights_conservative_of_offset_points, decided in rational arithmetic on the
    # doubles (4 <-> 4 longitudes: gap_s + gap_t = period/2 up to rounding, on either side)
    exact_applies = theorem_applies(gs.longitudes, gt.longitudes, exact=True)
    ctx.dist[f'exact:lonWeights_conservative_of_offset_points applies={exact_applies}'] += 1
    if not exact_applies:
      continue
    qlines.append(f'regrid Q lonov {qstr(P)} {qvec(map(Fraction, gt.longitudes))} {qvec(map(Fraction, gs.longitudes))}')
    qlines.append(f'regrid Q lonbounds {qstr(P)} {qvec(map(Fraction, gt.longitudes))}')
    qlines.append(f'regrid Q lonbounds {qstr(P)} {qvec(map(Fraction, gs.longitudes))}')
    qmeta.append((ss, ts))
  if n_exact_min and len(qmeta) < n_exact_min:
    ctx.obligation('exact longitude overlap sums: enough pairs inside the theorem domain', 'hypothesis', False,
                   f'only {len(qmeta)} grid pairs satisfy the hypotheses exactly')
  qouts = ctx.model(qlines)
  for i, (ss, ts) in enumerate(qmeta):
    ov, bt, bs = (unqmat(x) for x in qouts[3 * i:3 * i + 3])
    wt = [u - l for l, u in zip(*bt)]
    ws = [u - l for l, u in zip(*bs)]
    ok = ([sum(r) for r in ov] == wt and [sum(r[j] for r in ov) for j in range(len(ws))] == ws
          and sum(wt) == P and sum(ws) == P and all(v >= 0 for r in ov for v in r))
    ctx.traces += 1
    ctx.obligation(f'exact longitude overlap sums {ss}->{ts}', 'hypothesis', ok,
                   'model at Rat on the float coordinates of the real grids (offset grids included: % period '
                   'rotates the vector): rows sum to target widths, columns to source widths, widths to the period')

  # ================================================================ probes on the real code
  for (ss, ts, tag, gs, gt, geo, regs) in pairs:
    probe_pair(ctx, jnp, hi, ss, ts, tag, gs, gt, geo, regs)
  probe_vectors(ctx, jnp, hi)
  for (hc, sig, sp, f, out, tag) in hybrid_cases:
    probe_vertical(ctx, jnp, vi, hc, sig, sp, f, out, tag)
  probe_vertical_raw(ctx, jnp, vi)
  probe_hybrid_threshold(ctx, jnp, vi, sc)
  probe_wide_cells(ctx, jnp, hi, sh)
  n_uns = {k: ctx.dist.get(f'vertical:{k}:source-increasing=False', 0) for k in ('hybrid', 'raw')}
  n_all = {k: n_uns[k] + ctx.dist.get(f'vertical:{k}:source-increasing=True', 0) for k in ('hybrid', 'raw')}
  ctx.notes.append(f'vertical: {n_uns["hybrid"]} of {n_all["hybrid"]} generated hybrid columns (random coefficient sets, '
                   f'sp 500..1100) and {n_uns["raw"]} of {n_all["raw"]} raw columns have unsorted source boundaries: the '
                   'hypothesis hs of vertical_conservation / regridHybridToSigma_conservation fails there, bounds and '
                   'conservation are NOT claimed and not asserted on them (only non-negative weights and unit row sums '
                   'of the finite rows, and the model/code correspondence); all other columns are asserted')
  ctx.obligation('vertical: enough hybrid columns satisfy the hypothesis hs (sorted a/sp + b)', 'hypothesis',
                 n_all['hybrid'] - n_uns['hybrid'] >= max(1, n_all['hybrid'] // 6),
                 f'{n_all["hybrid"] - n_uns["hybrid"]} of {n_all["hybrid"]} columns sorted')
  ctx.notes.append('gating: weights-oracle, overlap-based bounds, conservation and the NaN placement probes are '
                   'asserted on pairs with width_s + width_t <= period/2 for all cells and circular gaps below '
                   'period/2 (a superset of the domain of lonWeights_conservative_of_offset_points, offsets '
                   'included); outside it only non-negativity, unit row sums of finite rows and global bounds are '
                   'asserted, and a lost integral is reported as the recorded finding; the exact (Rat) check of '
                   'the theorem conclusions runs on exactly the pairs whose doubles satisfy the hypotheses '
                   '(4 <-> 4 longitudes fall on either side of gap_s + gap_t = period/2 by rounding)')

  if not ctx.quick:
    ctx.leanchecker(['DinoProofs.Properties.C16'])
  return ctx.finish(RULE, 'theorems are about the Lean model Dino.Regrid over an ordered field; sin enters as an '
                    'arbitrary (strictly) monotone function; float rounding is outside the theorems '
                    '(tolerance 1e-9 in the correspondence, 1e-11 in the probes); the hypothesis hmd of the offset-grid '
                    'theorems (% reduces into [0, P)) is proved for the exact % only: the float % can return P itself '
                    '(-1e-20 % (2 pi) == 2 pi); known findings (known_findings.json): skipna-false-sliver-overlap and '
                    'lon-conservation-wide-cells (outside gap_s + gap_t <= period/2 the real code need not conserve); '
                    'vertical conservation is over the covered range, for sorted bounds: unsorted hybrid boundaries '
                    '(ECMWF137 below 303.3 hPa, UFS127 below 264.5 hPa) are not claimed')


# --------------------------------------------------------------------------
# probes


def probe_nan(ctx, geo, f, out, skip, inp):
  """Missing values: propagated to every overlapping cell / ignored when skipping."""
  null = np.isnan(f)
  w4 = geo.lon_w[:, None, :, None] * geo.lat_w[None, :, None, :]            # [a, c, b, d]
  # pairs whose overlap is within rounding of zero (touching cells) are ambiguous
  amb = ((np.abs(geo.lon_gap) < 1e-9)[:, None, :, None] & (geo.lat_gap > -1e-9)[None, :, None, :]) | \
        ((np.abs(geo.lat_gap) < 1e-9)[None, :, None, :] & (geo.lon_gap > -1e-9)[:, None, :, None])
  nullw = (w4 * null[None, None]).sum((2, 3))
  validw = (w4 * ~null[None, None]).sum((2, 3))
  amb_null = (amb & null[None, None]).any((2, 3))
  amb_valid = (amb & ~null[None, None]).any((2, 3))
  isnan = np.isnan(out)
  if not geo.lon_domain:
    return
  for a in range(out.shape[0]):
    for c in range(out.shape[1]):
      cell = dict(inp, target_cell=[a, c], null_weight=float(nullw[a, c]))
      if skip:
        if validw[a, c] > 1e-9:
          ctx.expect(not isnan[a, c], 'skipna-true-spurious-nan',
                     'skipna=True returned NaN although a non-NaN input overlaps the target cell', cell)
        elif validw[a, c] == 0 and not amb_valid[a, c]:
          ctx.expect(isnan[a, c], 'skipna-true-missing-nan',
                     'skipna=True returned a number although every overlapping input is NaN', cell)
      else:
        if nullw[a, c] > 1e-9:
          if not isnan[a, c]:
            if nullw[a, c] < ISCLOSE_TOL * (1 - 1e-6):
              ctx.fail(SLIVER_KEY, 'ConservativeRegridder(skipna=False) does not propagate a NaN input whose '
                       f'overlap with the target cell is {nullw[a, c]:.3e} of the cell (< 0.1 %: isclose rtol=1e-3)',
                       cell)
              ctx.dist['nan:sliver-not-propagated'] += 1
            elif nullw[a, c] > ISCLOSE_TOL * (1 + 1e-6):
              ctx.fail('nan-propagation', 'skipna=False: NaN input overlapping the target cell by '
                       f'{nullw[a, c]:.3e} of the cell is not propagated', cell)
        elif nullw[a, c] == 0 and not amb_null[a, c]:
          ctx.expect(not isnan[a, c], 'nan-spurious',
                     'skipna=False returned NaN although no overlapping input is NaN', cell)
  # values where defined: weighted mean of the non-NaN overlapping inputs
  ok = ~isnan & (validw > 1e-3)
  if ok.any():
    with np.errstate(all='ignore'):
      ref = (w4 * np.where(null, 0, f)[None, None]).sum((2, 3)) / validw
    scale = np.nanmax(np.abs(np.where(null, 0, f))) + 1e-300
    ctx.expect(np.abs(out - ref)[ok].max() < 1e-9 * scale, 'nan-mean-value',
               f'skipna={skip}: output is not the weighted mean of the non-NaN overlapping inputs', inp)


BATCH_TAGS = ('coarser-nested', 'finer-nested', 'non-nested', 'offset-negative', 'half-cell-offset')


def batched_masks(rng, lead, shape, variant):
  """Missing-value masks (True = NaN) of shape lead + shape that differ between the leading slices."""
  m = np.zeros(lead + shape, dtype=bool)
  idx = list(np.ndindex(*lead))
  if variant == 'moving-hole':          # one hole per slice, at a different place; first slice complete
    for n, ix in enumerate(idx[1:]):
      i, j = (1 + 2 * n) % shape[0], n % shape[1]
      m[ix][i, j] = True
      m[ix][(i + 1) % shape[0], j] = True
  elif variant == 'one-slice-row':      # only the last slice has missing values: a whole longitude row
    m[idx[-1]][int(rng.integers(0, shape[0]))] = True
  elif variant == 'all-vs-none':        # one slice entirely missing, the others complete
    m[idx[len(idx) // 2]] = True
  else:                                 # independent random patterns with different densities
    for n, ix in enumerate(idx):
      m[ix] = rng.random(shape) < [0.0, 0.15, 0.5, 0.9][n % 4]
  return m


def batched_nan_cases(ctx, jnp, add, ss, ts, tag, gs, gt, geo, regs, hp, per):
  """`ConservativeRegridder.__call__` on stacked fields whose NaN pattern is NOT the same in every slice: every
  slice must come out as if it had been regridded on its own.  Expected values: the model (one `call` per slice, in
  the correspondence stream), the real regridder applied slice by slice, and the oracle geometry per slice
  (`probe_nan`: NaN exactly where the per-slice rule says, values = weighted mean of the valid overlapping inputs);
  constants with holes are reproduced and the outputs stay inside the range of the valid inputs of their slice."""
  rng = ctx.rng
  variants = ['moving-hole', 'one-slice-row', 'all-vs-none', 'random']
  plans = [((3,), variants[(len(ss) + ss[0] + ts[0]) % 4]), ((2, 2), variants[(ss[0] + ts[1] + 1) % 4])]
  if tag == 'non-nested':
    plans = [((3,), 'moving-hole'), ((2, 2), 'one-slice-row'), ((4,), 'random'), ((3,), 'all-vs-none')]
  for lead, variant in plans:
    mask = batched_masks(rng, lead, gs.nodal_shape, variant)
    c = float(rng.uniform(1, 5)) * float(rng.choice([-1, 1]))
    for kind in ('random', 'constant'):
      base = rng.standard_normal(lead + gs.nodal_shape) if kind == 'random' else np.full(lead + gs.nodal_shape, c)
      f = np.where(mask, np.nan, base)
      ctx.dist[f'batched-nan:lead={lead}:{variant}:{kind}'] += 1
      for skip in (False, True):
        inp = dict(source=ss, target=ts, skipna=skip, leading_shape=list(lead), nan_pattern=variant, values=kind,
                   field=f.tolist())
        ctx.case(('batched-call', repr(ss), repr(ts), skip, f.tobytes()), nontrivial=True,
                 sample=dict(inp, field='...') if (lead, variant, kind, skip) == ((3,), 'moving-hole', 'random', True)
                 else None)
        with ctx.impl('batched-nan-exception', inp):
          with np.errstate(all='ignore'):
            out = np.asarray(regs[skip](jnp.asarray(f)))
          ok_shape = out.shape == lead + tuple(gt.nodal_shape)
          ctx.expect(ok_shape, 'batched-nan-shape', f'output shape {out.shape} for a field of shape {f.shape}', inp)
          if not ok_shape:
            continue
          for ix in np.ndindex(*lead):
            fk, ok_ = f[ix], out[ix]
            inpk = dict(inp, slice=list(ix), field=fk.tolist(), other_slices_have_different_nans=True)
            # the model on this slice alone
            add(f'regrid F call {int(skip)} {hp} {per} {fvec(gs.longitudes)} {fvec(gt.longitudes)} '
                f'{fvec(gs.latitudes)} {fvec(gt.latitudes)} {optmat(fk)}', 'ConservativeRegridder.__call__[batched]',
                inpk, ok_, 'optmat')
            # the real regridder on this slice alone
            with np.errstate(all='ignore'):
              single = np.asarray(regs[skip](jnp.asarray(fk)))
            same_nan = np.array_equal(np.isnan(ok_), np.isnan(single))
            both = ~np.isnan(ok_) & ~np.isnan(single)
            scale = max(1.0, float(np.nanmax(np.abs(fk))) if (~np.isnan(fk)).any() else 1.0)
            with np.errstate(all='ignore'):
              close = bool((np.abs(ok_ - single)[both] <= 1e-11 * scale).all())
            ctx.expect(same_nan and close, 'batched-nan-slicewise',
                       f'skipna={skip}: slice {list(ix)} of a batched call differs from regridding that slice on its '
                       f'own (NaN placement equal: {same_nan}, values equal: {close})', inpk)
            # the per-slice rule on the oracle geometry
            probe_nan(ctx, geo, fk, ok_, skip, inpk)
            fin = ~np.isnan(ok_)
            if (~np.isnan(fk)).any():
              lo_, hi_ = float(np.nanmin(fk)), float(np.nanmax(fk))
              ctx.expect(bool(((ok_[fin] >= lo_ - 1e-11 * scale) & (ok_[fin] <= hi_ + 1e-11 * scale)).all()),
                         'batched-nan-range', f'skipna={skip}: slice {list(ix)} leaves the range [{lo_}, {hi_}] of its '
                         f'valid inputs: [{ok_[fin].min() if fin.any() else None}, {ok_[fin].max() if fin.any() else None}]',
                         inpk)
            else:
              ctx.expect(not fin.any(), 'batched-nan-all-missing',
                         f'skipna={skip}: a slice without any valid input gives numbers', inpk)
            if kind == 'constant':
              ctx.expect(bool((np.abs(ok_[fin] - c) <= 1e-11 * abs(c)).all()), 'batched-nan-constants',
                         f'skipna={skip}: constant {c} with holes not reproduced in slice {list(ix)}', inpk)


def probe_pair(ctx, jnp, hi, ss, ts, tag, gs, gt, geo, regs):
  rng = ctx.rng
  inp0 = dict(source=ss, target=ts)
  ctx.case(('pair-probe', repr(ss), repr(ts)), nontrivial=(ss != ts))
  with ctx.impl('probe-exception', inp0):
    lw = np.asarray(regs[False].lon_weights)
    tw = np.asarray(regs[False].lat_weights)
    # weights: non-negative, rows sum to one, equal to the oracle (overlap / target cell size)
    ctx.expect((lw >= 0).all() and (tw >= 0).all(), 'weights-nonneg', 'negative regridding weight', inp0)
    ctx.expect(np.abs(lw.sum(1) - 1).max() < 1e-12 and np.abs(tw.sum(1) - 1).max() < 1e-12, 'rows-sum-to-one',
               'rows of a weight matrix do not sum to one', inp0)
    ctx.expect(np.abs(tw - geo.lat_w).max() < 1e-11, 'lat-weights-oracle',
               'latitude weights differ from overlap(sin lat)/target cell size', inp0)
    if geo.lon_domain:
      ctx.expect(np.abs(lw - geo.lon_w).max() < 1e-11, 'lon-weights-oracle',
                 'longitude weights differ from arc overlap/target cell width', inp0)
      # column sums of the un-normalised overlaps are the source cell sizes (conservation premise)
      ctx.expect(np.abs((lw * geo.wlon_t[:, None]).sum(0) - geo.wlon_s).max() < 1e-11, 'lon-column-sums',
                 'longitude overlaps do not add up to the source cell widths', inp0)
    ctx.expect(np.abs((tw * geo.wlat_t[:, None]).sum(0) - geo.wlat_s).max() < 1e-11, 'lat-column-sums',
               'latitude overlaps do not add up to the source cell areas', inp0)
    for skip in (False, True):
      reg = regs[skip]
      # constants
      c = float(rng.standard_normal()) * 10
      out = np.asarray(reg(jnp.full(gs.nodal_shape, c)))
      ctx.expect(out.shape == gt.nodal_shape and np.abs(out - c).max() < 1e-11 * max(1, abs(c)), 'constants',
                 f'constant field not reproduced (skipna={skip})', dict(inp0, c=c, skipna=skip))
      # bounds and conservation (batched field for the forced pairs: the `...` of the einsum)
      nb = 2 if (tag in ('non-nested', 'coarser-nested') or not ctx.quick) else 1
      f = rng.standard_normal((nb,) + gs.nodal_shape)
      out = np.asarray(reg(jnp.asarray(f if nb > 1 else f[0]))).reshape((nb,) + gt.nodal_shape)
      inp = dict(inp0, skipna=skip, field=f.tolist())
      touching = (geo.lon_gap > -1e-9)[:, None, :, None] & (geo.lat_gap > -1e-9)[None, :, None, :]
      for b in range(nb):
        fb = np.broadcast_to(f[b][None, None], touching.shape)
        hi_ = np.where(touching, fb, -np.inf).max((2, 3))
        lo_ = np.where(touching, fb, np.inf).min((2, 3))
        if geo.lon_domain:
          ctx.expect(((out[b] <= hi_ + 1e-11) & (out[b] >= lo_ - 1e-11)).all(), 'bounds',
                     f'output outside the range of the overlapping inputs (skipna={skip})', inp)
        else:
          ctx.expect(out[b].max() <= f[b].max() + 1e-11 and out[b].min() >= f[b].min() - 1e-11, 'bounds',
                     f'output outside the range of the inputs (skipna={skip})', inp)
        it, is_ = (geo.area_t * out[b]).sum(), (geo.area_s * f[b]).sum()
        conserved = bool(abs(it - is_) < 1e-11 * (geo.area_s * np.abs(f[b])).sum())
        if geo.lon_domain:
          ctx.expect(conserved, 'conservation',
                     f'area-weighted integral not conserved: target {it!r} source {is_!r} (skipna={skip})', inp)
        else:
          report_wide(ctx, geo, conserved, f'area-weighted integral: target {it!r} source {is_!r} (skipna={skip})', inp)
    ctx.expect(abs(geo.area_s.sum() - 4 * np.pi) < 1e-11 and abs(geo.area_t.sum() - 4 * np.pi) < 1e-11, 'oracle-area',
               'oracle cells do not tile the sphere', inp0)


def probe_vectors(ctx, jnp, hi):
  """Weight functions on raw non-uniform coordinate vectors (non-nested partitions)."""
  rng = ctx.rng
  for ci in range(ctx.n(18, 300)):
    ns, nt = pick_shape(ctx, SHAPES, ci, min_size=4)
    kinds = ['uniform', 'mild', 'strong']
    lon_s = random_increasing(rng, ns, 0, TWO_PI, kinds[ci % 2]) + float(rng.choice([0, rng.uniform(-7, 7)]))
    lon_t = random_increasing(rng, nt, 0, TWO_PI, kinds[(ci + 1) % 2]) + float(rng.choice([0, rng.uniform(-7, 7)]))
    lat_s = random_increasing(rng, ns, -HALF_PI, HALF_PI, kinds[ci % 3])
    lat_t = random_increasing(rng, nt, -HALF_PI, HALF_PI, kinds[(ci + 1) % 3])
    geo = Geometry(lon_s, lat_s, lon_t, lat_t)
    inp = dict(lon_s=lon_s.tolist(), lon_t=lon_t.tolist(), lat_s=lat_s.tolist(), lat_t=lat_t.tolist())
    ctx.case(('vec-probe', lon_s.tobytes(), lon_t.tobytes(), lat_s.tobytes(), lat_t.tobytes()), nontrivial=True)
    ctx.dist[f'vec-probe:lon-domain={geo.lon_domain}'] += 1
    with ctx.impl('probe-exception', inp):
      tw = np.asarray(hi.conservative_latitude_weights(lat_s, lat_t))
      lw = np.asarray(hi.conservative_longitude_weights(lon_s, lon_t))
      # rows without any overlap (possible outside the longitude domain) are 0/0 = NaN: excluded
      fin = np.isfinite(lw).all(1)
      ctx.expect(geo.lon_domain <= bool(fin.all()), 'lon-weights-nan', 'NaN longitude weights inside the domain', inp)
      ctx.expect((tw >= 0).all() and (lw[fin] >= 0).all(), 'weights-nonneg', 'negative regridding weight', inp)
      ctx.expect(np.abs(tw.sum(1) - 1).max() < 1e-12 and np.abs(lw[fin].sum(1) - 1).max(initial=0) < 1e-12,
                 'rows-sum-to-one', 'rows of a weight matrix do not sum to one', inp)
      ctx.expect(np.abs(tw - geo.lat_w).max() < 1e-10, 'lat-weights-oracle',
                 'latitude weights differ from overlap(sin lat)/target cell size', inp)
      x = rng.standard_normal(ns)
      ctx.expect(abs((geo.wlat_t * (tw @ x)).sum() - (geo.wlat_s * x).sum()) < 1e-11 * np.abs(x).sum(),
                 'conservation-lat', 'sin-latitude-weighted integral not conserved', dict(inp, x=x.tolist()))
      with np.errstate(all='ignore'):
        lhs, rhs = (geo.wlon_t * (lw @ x)).sum(), (geo.wlon_s * x).sum()
      conserved = bool(abs(lhs - rhs) < 1e-11 * np.abs(x).sum() * TWO_PI)       # False when lw has NaN rows
      if geo.lon_domain:
        ctx.expect(np.abs(lw - geo.lon_w).max() < 1e-10, 'lon-weights-oracle',
                   'longitude weights differ from arc overlap/target cell width', inp)
        ctx.expect(conserved, 'conservation-lon', 'longitude-width-weighted integral not conserved',
                   dict(inp, x=x.tolist()))
      else:
        report_wide(ctx, geo, conserved, f'longitude-width-weighted integral: target {lhs!r} source {rhs!r}',
                    dict(inp, x=x.tolist()))


def covered_thm(cells_b, lo, hi):
  """`covered t lo hi = clamp t.1 t.2 hi - clamp t.1 t.2 lo` of the theorems, for the cells of `cells_b`."""
  c0, c1 = cells_b[:-1], cells_b[1:]
  return np.minimum(np.maximum(hi, c0), c1) - np.minimum(np.maximum(lo, c0), c1)


def vertical_checks(ctx, w, sb, tb, x, out, inp, key):
  """Oracle checks of one column: w[target, source], bounds sb (source), tb (target)."""
  gap = lin_gap(tb, sb)
  ov = np.maximum(gap, 0)
  cov_t, cov_s = ov.sum(1), ov.sum(0)
  inc = bool((np.diff(sb) > 0).all() and (np.diff(tb) > 0).all())
  ctx.dist[f'{key}:source-increasing={inc}'] += 1
  if not inc:
    # hypotheses `hs` / `ht` of vertical_conservation fail: bounds and conservation are NOT claimed.  What needs
    # no hypothesis (intervalOverlap_nonneg, verticalWeights_rows) is still asserted; the column is counted and
    # the count goes to the evidence notes (run()).
    if w is not None:
      fin = np.isfinite(w).all(1)
      ctx.expect((w[fin] >= 0).all(), 'vertical-weights-nonneg', 'negative vertical weight (unsorted bounds)', inp)
      ctx.expect(np.abs(w[fin].sum(1) - 1).max(initial=0) < 1e-12, 'vertical-rows-sum-to-one',
                 'finite rows of the vertical weight matrix do not sum to one (unsorted bounds)', inp)
    return
  covered = cov_t > 1e-9
  empty = (gap < -1e-9).all(1)
  n_amb = int((~covered & ~empty).sum())
  # the weights of the theorem (`covered`: the part of each layer inside the range of the other vector),
  # computed from the bounds alone: the oracle's overlap sums must agree with them
  cov_t_thm, cov_s_thm = covered_thm(tb, sb[0], sb[-1]), covered_thm(sb, tb[0], tb[-1])
  span = max(abs(sb).max(), abs(tb).max(), 1.0)
  ctx.expect(np.abs(cov_t - cov_t_thm).max() < 1e-12 * span * len(sb) and
             np.abs(cov_s - cov_s_thm).max() < 1e-12 * span * len(tb), 'vertical-covered-oracle',
             'row / column sums of the interval overlaps are not the covered thicknesses clamp(hi) - clamp(lo)', inp)
  if w is not None:
    ctx.expect((w[covered] >= 0).all(), 'vertical-weights-nonneg', 'negative vertical weight', inp)
    ctx.expect(np.abs(w[covered].sum(1) - 1).max(initial=0) < 1e-12, 'vertical-rows-sum-to-one',
               'rows of the vertical weight matrix (with overlap) do not sum to one', inp)
    with np.errstate(all='ignore'):
      ctx.expect(np.abs(w[covered] - (ov / cov_t[:, None])[covered]).max(initial=0) < 1e-10, 'vertical-weights-oracle',
                 'vertical weights differ from interval overlap / covered thickness', inp)
    ctx.expect(np.isnan(w[empty]).all(), 'vertical-empty-row', 'target layer without overlap does not give NaN (0/0)', inp)
  if out is not None:
    ctx.expect(not np.isnan(out[covered]).any() and np.isnan(out[empty]).all(), 'vertical-nan-rows',
               'NaN rows are not exactly the target layers without overlap', inp)
    over = gap > -1e-9
    xb = np.broadcast_to(x[None], over.shape)
    hi_, lo_ = np.where(over, xb, -np.inf).max(1), np.where(over, xb, np.inf).min(1)
    ctx.expect(((out <= hi_ + 1e-9) & (out >= lo_ - 1e-9))[covered].all(), 'vertical-bounds',
               'vertical output outside the range of the overlapping inputs', inp)
    # the statement of vertical_conservation, with the theorem's weights
    lhs, rhs = (cov_t_thm * np.where(covered, out, 0)).sum(), (cov_s_thm * x).sum()
    ctx.expect(abs(lhs - rhs) < 1e-10 * (cov_s_thm * np.abs(x)).sum() + (2e-9 * n_amb + 1e-13) * np.abs(x).max(),
               'vertical-conservation',
               f'thickness-weighted integral over the covered range not conserved: {lhs!r} vs {rhs!r}', inp)


# about the pressure at the summit of Everest (hPa): no surface pressure on Earth is lower
PHYS_MIN_SP = 330.0
UNSORTED_KEY = 'hybrid-bounds-unsorted'


def sorted_threshold(a, b):
  """Smallest surface pressure from which a/sp + b is non-decreasing: max over the interfaces with da < 0 of
  -da/db (infinite when db <= 0 there)."""
  da, db = np.diff(np.asarray(a, dtype=float)), np.diff(np.asarray(b, dtype=float))
  with np.errstate(all='ignore'):
    thr = np.where(da < 0, np.where(db > 0, -da / db, np.inf), 0.0)
  return float(thr.max(initial=0.0))


def probe_hybrid_threshold(ctx, jnp, vi, sc):
  """The unchecked hypothesis `hs` on the operational level sets.  ECMWF137 / UFS127: a/sp + b is sorted exactly
  from a threshold surface pressure upwards.  The real regrid_hybrid_to_sigma is run just above the threshold
  (conservation asserted), at 300 hPa and 2 % below the threshold (explicitly NOT claimed: the measurement goes
  to the evidence notes).  Were the threshold inside the physical range of surface pressures (>= 330 hPa) the
  loss would be a finding (`hybrid-bounds-unsorted`)."""
  sig = sc.SigmaCoordinates.equidistant(8)
  tb = np.asarray(sig.boundaries, dtype=float)
  for name in ('ECMWF137', 'UFS127'):
    hc = getattr(vi.HybridCoordinates, name)()
    a, b = np.asarray(hc.a_boundaries, dtype=float), np.asarray(hc.b_boundaries, dtype=float)
    thr = sorted_threshold(a, b)
    sp = np.array([[thr * (1 + 1e-3), 300.0, 0.98 * thr]])
    x = 250 + 10 * np.sin(np.arange(hc.layers, dtype=float))
    inp0 = dict(levels=name, sigma_boundaries=tb.tolist(), field='250 + 10 sin(k)')
    ctx.case(('hyb-threshold', name), nontrivial=True)
    ctx.obligation(f'{name}: threshold of the hypothesis hs (a/sp + b sorted) is finite', 'hypothesis',
                   np.isfinite(thr) and thr > 0, f'sorted iff surface pressure >= {thr!r} hPa')
    with ctx.impl('probe-exception', inp0):
      out = np.asarray(vi.regrid_hybrid_to_sigma(jnp.asarray(np.repeat(x[:, None, None], 3, 2)), hc, sig, jnp.asarray(sp)))
      meas = []
      for j in range(3):
        sb = a / sp[0, j] + b
        n_uns = int((np.diff(sb) < 0).sum())
        inp = dict(inp0, surface_pressure=float(sp[0, j]))
        if j == 0:
          ctx.expect(n_uns == 0, 'hybrid-threshold', f'{name}: boundaries unsorted above the computed threshold', inp)
          vertical_checks(ctx, None, sb, tb, x, out[:, 0, j], inp, 'vertical:threshold')
          continue
        if n_uns == 0:        # 300 hPa is above the threshold of this set
          vertical_checks(ctx, None, sb, tb, x, out[:, 0, j], inp, 'vertical:threshold')
          meas.append(f'sp={sp[0, j]:.6g} hPa: sorted, conserved')
          continue
        ctx.dist['vertical:threshold:source-increasing=False'] += 1
        # sb[0] / sb[-1] stay the extreme boundaries (the inversions are inside): the weights of the theorem,
        # signed for the inverted layers
        cov_t, cov_s = covered_thm(tb, sb[0], sb[-1]), covered_thm(sb, tb[0], tb[-1])
        lhs, rhs = float((cov_t * out[:, 0, j]).sum()), float((cov_s * x).sum())
        rel = abs(lhs - rhs) / float((np.abs(cov_s) * np.abs(x)).sum())
        meas.append(f'sp={sp[0, j]:.6g} hPa: {n_uns} inverted layers, sum_t covered_t*out_t = {lhs!r} vs '
                    f'sum_s covered_s*x_s = {rhs!r} (relative difference {rel:.3e})')
        if thr >= PHYS_MIN_SP and rel > 1e-9:
          what = (f'regrid_hybrid_to_sigma({name}) at surface pressure {sp[0, j]!r} hPa: boundaries a/sp + b unsorted '
                  f'({n_uns} inverted layers), thickness-weighted integral {rhs!r} -> {lhs!r}')
          ctx.fail(UNSORTED_KEY, what, inp)   # would be a genuine failure at a physically meaningful surface pressure
    ctx.notes.append(f'hybrid levels {name} -> 8 equidistant sigma layers, field 250 + 10 sin(k): a/sp + b is sorted iff '
                     f'sp >= {thr:.6g} hPa (below the physical range, >= {PHYS_MIN_SP:g} hPa: no finding); below the '
                     'threshold conservation is NOT claimed (hypothesis hs of regridHybridToSigma_conservation fails) '
                     'and the real code gives: ' + '; '.join(meas))


def probe_vertical(ctx, jnp, vi, hc, sig, sp, f, out, tag):
  rng = ctx.rng
  tb = np.asarray(sig.boundaries)
  for i in range(sp.shape[0]):
    for j in range(sp.shape[1]):
      sb = np.asarray(hc.a_boundaries) / sp[i, j] + np.asarray(hc.b_boundaries)
      inp = dict(a=np.asarray(hc.a_boundaries).tolist(), b=np.asarray(hc.b_boundaries).tolist(),
                 surface_pressure=float(sp[i, j]), sigma_boundaries=tb.tolist(), field=f[:, i, j].tolist())
      ctx.case(('hyb-probe', sb.tobytes(), tb.tobytes()), nontrivial=True)
      with ctx.impl('probe-exception', inp):
        w = np.asarray(vi.conservative_regrid_weights(jnp.asarray(sb), jnp.asarray(tb)))
        vertical_checks(ctx, w, sb, tb, f[:, i, j], out[:, i, j], inp, 'vertical:hybrid')
  # constants
  c = float(rng.standard_normal()) * 10
  inp = dict(a=np.asarray(hc.a_boundaries).tolist(), b=np.asarray(hc.b_boundaries).tolist(), c=c,
             sigma_boundaries=tb.tolist(), surface_pressure=sp.tolist())
  with ctx.impl('probe-exception', inp):
    o = np.asarray(vi.ConservativeRegridder(hc, sig)(jnp.full(f.shape, c), jnp.asarray(sp)))
    ok = ~np.isnan(o)
    ctx.expect(o.shape == (sig.layers,) + f.shape[1:] and np.abs(o[ok] - c).max(initial=0) < 1e-11 * max(1, abs(c)),
               'vertical-constants', 'constant column not reproduced by the vertical conservative regridder', inp)


def probe_vertical_raw(ctx, jnp, vi):
  rng = ctx.rng
  for ci in range(ctx.n(40, 400)):
    ns, nt = VSHAPES[ci % len(VSHAPES)] if (ctx.quick or ci % 3) else (int(rng.integers(1, 10)), int(rng.integers(1, 10)))
    tb = np.concatenate([[0], np.cumsum(np.exp(rng.uniform(-2, 2, nt)))])
    tb = tb / tb[-1]
    lo, hi_ = [(0, 1), (0.13, 0.9), (-0.2, 1.3), (1.5, 2.5), (0.3, 1.4), (0.0, 1.0)][ci % 6]
    sb = np.concatenate([[0], np.cumsum(np.exp(rng.uniform(-2, 2, ns)))])
    sb = lo + (hi_ - lo) * sb / sb[-1]
    if ci % 6 == 5:                       # nested: bounds shared
      sb = tb[::2] if (not ctx.quick and len(tb) > 2 and (len(tb) - 1) % 2 == 0) else tb.copy()
    x = rng.standard_normal(len(sb) - 1)
    inp = dict(source_bounds=sb.tolist(), target_bounds=tb.tolist(), x=x.tolist())
    ctx.case(('vraw-probe', sb.tobytes(), tb.tobytes()), nontrivial=True)
    with ctx.impl('probe-exception', inp):
      w = np.asarray(vi.conservative_regrid_weights(jnp.asarray(sb), jnp.asarray(tb)))
      with np.errstate(all='ignore'):
        out = np.where(np.isnan(w).any(1), np.nan, np.nan_to_num(w) @ x)
      vertical_checks(ctx, w, sb, tb, x, out, inp, 'vertical:raw')


def report_wide(ctx, geo, conserved, what, inp):
  """A pair outside the probed domain: conservation is not proved; a failure of the real code there is the
  recorded finding `lon-conservation-wide-cells` — reported only where the hypothesis `gap_s + gap_t <= period/2`
  of the theorem fails (inside it a failure stays an ordinary violation)."""
  ctx.dist[f'outside-domain:conserved={conserved}'] += 1
  if conserved:
    return
  if geo.thm_domain:
    ctx.fail('conservation', 'integral not conserved inside the domain of lonWeights_conservative_of_offset_points: '
             + what, inp)
  else:
    ctx.fail(WIDE_KEY, 'longitude cells too wide for _periodic_overlap (largest circular gaps of source and target '
             'add up to more than period/2): integral not conserved: ' + what, inp)


def probe_wide_cells(ctx, jnp, hi, sh):
  """Outside the domain, on real Grids: 3 -> 4 (and 4 -> 3, 3 -> 5) equispaced longitudes.  Every cell is
  narrower than period/2 (the precondition stated in `_periodic_overlap`) but gap_s + gap_t > period/2.  On
  the pairs where the real code loses part of the integral the failure is reported (recorded finding); where
  the hypothesis holds (>= 4 longitudes against >= 4, 3 against >= 6) conservation is asserted as usual."""
  for (ns, nt) in [(3, 4), (4, 3), (3, 6), (3, 5), (6, 3), (2, 4), (1, 4)][:ctx.n(3, 7)]:
    gs = sh.Grid(longitude_nodes=ns, latitude_nodes=2, latitude_spacing='gauss')
    gt = sh.Grid(longitude_nodes=nt, latitude_nodes=2, latitude_spacing='gauss')
    geo = Geometry(gs.longitudes, gs.latitudes, gt.longitudes, gt.latitudes)
    inp = dict(source=dict(longitude_nodes=ns, latitude_nodes=2), target=dict(longitude_nodes=nt, latitude_nodes=2))
    ctx.case(('wide', ns, nt), nontrivial=True)
    with ctx.impl('probe-exception', inp):
      reg = hi.ConservativeRegridder(gs, gt)
      lw = np.asarray(reg.lon_weights)
      f = np.zeros(gs.nodal_shape)
      f[0, :] = 1.0                                  # one source longitude column: zonal mean 1/ns
      with np.errstate(all='ignore'):
        out = np.asarray(reg(jnp.asarray(f)))
        it, is_ = (geo.area_t * out).sum(), (geo.area_s * f).sum()
      conserved = bool(abs(it - is_) < 1e-11 * 4 * np.pi)
      ctx.dist[f'wide-cells:{ns}->{nt}:theorem-applies={geo.thm_domain}:conserved={conserved}'] += 1
      what = (f'ConservativeRegridder(Grid(longitude_nodes={ns}), Grid(longitude_nodes={nt})): lon_weights = '
              f'{np.round(lw, 6).tolist()}; zonal mean of a unit column {is_ / (4 * np.pi)!r} -> {it / (4 * np.pi)!r}')
      if geo.lon_domain:
        ctx.expect(conserved, 'conservation', 'area-weighted integral not conserved: ' + what, inp)
      else:
        report_wide(ctx, geo, conserved, what, inp)
      if (ns, nt) == (3, 4):
        ctx.notes.append('outside the domain (recorded finding lon-conservation-wide-cells when not conserved): ' + what)
