"""C02 — spectral differential operators are exact on band-limited fields.

Lean: DinoProofs/Properties/C02.lean over the model Dino/Grid.lean (+ Dino/SH.lean transforms).
Tie: every model operator is run on the inputs given to the real `spherical_harmonic.Grid`
(float64) and compared (1e-9): both layouts, padded fast layouts, three spacings, radii, offsets,
both clip settings, every unit coefficient on small grids and random spectra.
Hypotheses Hyp-A / Hyp-B of theorem `vor_div_roundtrip` are sampled on the implementation, and CERTIFIED on five
small live grids: `c02_gridcert.py` regenerates lean/DinoGen/GridCert/H*.lean from the arrays of live `Grid` objects
(radius, recurrence weights, basis f/p/w, cos_lat as exact dyadic rationals) on every run, the Lean kernel checks the
Hyp-A / Hyp-B residuals of every unit field of Dom (`decide +kernel`, exact rational arithmetic) and
`Dino.C02.roundtrip_h1..h5` conclude the round-trip bound for ALL fields of Dom of those grids.
Sentinel probes (tests, not obligations): analytic oracle (scipy `lpmv` + textbook derivative
identities, independent of the code's recurrence weights), Laplacian and vor/div <-> wind round
trips on the stated domain, coefficient-space identities evaluated on the real operators.

Stated domain of the round-trip / exactness probes (DESIGN §6/C02) = `Dino.C02.Dom ly k` of the theorems:
  * MASKED fields (zero where `Grid.mask` is false: triangle l < |m|, row 1 and padding rows of the fast
    layout, padding columns), zero mean (column l = 0), top wavenumber empty for clip=False (k = 1, result
    compared *below* the top wavenumber), top TWO wavenumbers empty for the default clip=True (k = 2,
    whole array compared).  `dom()` draws exactly these; every draw (on every grid) is also sent to the
    model's Boolean test `domB` (= `Dom`, theorem `domB_iff`).  Negative control: a field with one entry
    off the mask is rejected by `domB` and violates Hyp-A on the real code (`control:hypA-unmasked`), so
    the domain is pinned from both sides.
  * latitude quadrature that resolves the truncation: gauss with nlat >= L, equiangular with
    nlat >= 2L;
  * side condition `cos(lat_j) != 0` of the wind theorems (`hcos`): grids with nodes at the poles
    (`equiangular_with_poles`) are EXCLUDED from everything that divides by cos(lat) (sec2_lat, both wind
    conversions, Hyp-A/B, round trips); on every grid used there `max|sin_lat| < 1` is checked
    (`admissible:cos-lat`), and that the pole grid violates it is recorded (`control:poles`).
"""
import functools
import math
import os
from fractions import Fraction

import numpy as np

import common
from common import fvec, fmat, fbits, unfvec, unfmat
from props import c02_gridcert

RTOL = 1e-9
RULE = ('grids from a table (both implementations; fast layout with base_shape_multiple padding in '
        'rows and columns; gauss / equiangular / equiangular_with_poles; radii 1, 0.54, 6.37, 2; '
        'longitude offsets; M from 1 to 6 for the model diff, up to 43 for the probes); spectra: every '
        'unit coefficient on the small grids, random masked and unmasked (padding filled) spectra; Hyp-A/B and '
        'round-trip fields drawn from Dom (normal * mask, column 0 and top k columns zeroed) plus one unit field '
        'off the mask per grid as negative control, '
        'random nodal fields; a case is non-trivial when M >= 2 and the input is not identically zero; '
        'distinct = distinct (op, grid, input) hashes')

SPACINGS = ['gauss', 'equiangular', 'equiangular_with_poles']


def make_grid(sh, fast, M, L, nlon, nlat, spacing='gauss', radius=1.0, offset=0.0, base=None):
  impl = sh.RealSphericalHarmonics
  if fast:
    impl = (sh.FastSphericalHarmonics if base is None
            else functools.partial(sh.FastSphericalHarmonics, base_shape_multiple=base))
  return sh.Grid(longitude_wavenumbers=M, total_wavenumbers=L, longitude_nodes=nlon,
                 latitude_nodes=nlat, latitude_spacing=spacing, radius=radius,
                 longitude_offset=offset, spherical_harmonics_impl=impl)


def gdesc(spec):
  fast, M, L, nlon, nlat, spacing, radius, offset, base = spec
  return dict(impl='fast' if fast else 'real', M=M, L=L, nlon=nlon, nlat=nlat, spacing=spacing,
              radius=radius, offset=offset, base_shape_multiple=base)


def layout_token(g, fast):
  pr, pc = g.modal_padding
  return f'{int(fast)},{g.longitude_wavenumbers},{g.total_wavenumbers},{pr},{pc}'


def pair(s):
  return [np.array(unfmat(t), dtype=float) for t in s.split('|')]


def resolves(spacing, nlat, L):
  """The spacing rule under which the quadrature resolves the truncation (see module docstring)."""
  if spacing == 'gauss':
    return nlat >= L
  if spacing == 'equiangular':
    return nlat >= 2 * L
  return False


# ----------------------------------------------------------------------------- analytic oracle


def pbar(m, l, x):
  """Orthonormal (unit L2([-1,1]) norm) associated Legendre function with Condon-Shortley phase."""
  from scipy.special import lpmv
  if l < m:
    return np.zeros_like(x)
  c = Fraction(2 * l + 1, 2) * Fraction(math.factorial(l - m), math.factorial(l + m))
  return math.sqrt(c) * lpmv(m, l, x)


def pbar_cosdtheta(m, l, x):
  """cos(theta) d/dtheta of pbar(m,l,sin theta) = (1-x^2) dP/dx = (l+m) P_{l-1} - l x P_l."""
  from scipy.special import lpmv
  c = Fraction(2 * l + 1, 2) * Fraction(math.factorial(l - m), math.factorial(l + m))
  pl1 = lpmv(m, l - 1, x) if l - 1 >= m else np.zeros_like(x)
  return math.sqrt(c) * ((l + m) * pl1 - l * x * lpmv(m, l, x))


def oracle_fields(m, l, sgn, lam, x):
  """Y, dY/dlambda, cos(theta) dY/dtheta on the (lon, lat) node mesh for the real harmonic (|m|, l):
  sgn=+1 -> cos(m lambda), sgn=-1 -> sin(m lambda)."""
  if m == 0:
    t, dt = np.full_like(lam, 1 / math.sqrt(2 * math.pi)), np.zeros_like(lam)
  elif sgn > 0:
    t, dt = np.cos(m * lam) / math.sqrt(math.pi), -m * np.sin(m * lam) / math.sqrt(math.pi)
  else:
    t, dt = np.sin(m * lam) / math.sqrt(math.pi), m * np.cos(m * lam) / math.sqrt(math.pi)
  p, dp = pbar(m, l, x), pbar_cosdtheta(m, l, x)
  return np.outer(t, p), np.outer(dt, p), np.outer(t, dp)


# ----------------------------------------------------------------------------- main


def run(ctx: common.Ctx):
  jax = common.setup_jax()
  import jax.numpy as jnp
  from dinosaur import spherical_harmonic as sh
  from dinosaur import jax_numpy_utils as jnu

  # translator: certificates of Hyp-A / Hyp-B on small live grids (regenerated from the real code on every run)
  gen = None
  try:
    gen = c02_gridcert.generate()
    ctx.obligation('translator:DinoGen.GridCert', 'translator', True,
                   'regenerated (changed)' if gen['changed'] else 'regenerated (unchanged)')
  except Exception as e:  # pylint: disable=broad-except
    ctx.obligation('translator:DinoGen.GridCert', 'translator', False, f'{type(e).__name__}: {str(e)[:300]}')
  extra = ['DinoProofs/Lemmas/Grid.lean', 'DinoProofs/Lemmas/GridFourier.lean', 'Dino/Grid.lean',
           'Dino/GridDrv.lean', 'DinoProofs/Lemmas/GridLinear.lean', 'DinoProofs/Lemmas/GridEps.lean',
           'Dino/GridCert.lean'] + (gen['files'] if gen is not None else [])
  ctx.lean('DinoProofs.Properties.C02', 'C02.txt', extra_files=extra, gen_targets=['DinoGen.GridCert'])
  if gen is not None:
    # the arrays the kernel checked are the arrays of the code under test: the files on disk are compared, number by
    # number, with the live `Grid` objects; and every certificate the generator emitted is indexed (hence audited)
    ctx.corr_exact('gridcert: arrays of DinoGen/GridCert/H*.lean == arrays of the live Grid objects',
                   dict(grids=[c[0] for c in c02_gridcert.GRIDS]), [], c02_gridcert.verify_on_disk(gen['arrays']))
    idx = {l.strip() for l in open(os.path.join(common.LEAN, 'index', 'C02.txt'))}
    top = [n for n in gen['names'] if '_r' not in n.rsplit('.', 1)[1]]
    ctx.corr_exact('gridcert: every generated certificate (shape, hyp0, hyp1 per grid) is indexed in lean/index/C02.txt',
                   dict(names=top), [], [n for n in top if n not in idx])
  ctx.assumptions.append(
      'C02 partial: the latitude-derivative recurrence is proved consistent with the Laplacian and with '
      'multiplication by sin(lat) (coefficient-space Legendre equation), not derived from a formal '
      'definition of P_l^m; T2.6 is an exact-arithmetic reduction (roundtrip_decomp) of the wind round trip '
      'to the two residuals Hyp-A / Hyp-B, with an epsilon-form (vor_div_roundtrip_eps: residuals <= eps '
      'relative to max|laplacian psi| => round trip within 2 eps); Hyp-A/Hyp-B themselves are kernel-checked '
      '(exact rational arithmetic on the live arrays, all unit fields of Dom, residual <= 2^-40 each) on the five '
      'small generated grids h1..h5 (M <= 3) only, where roundtrip_h1..h5 hold for ALL fields of Dom; on every other '
      'grid they are sampled numerically on the real code on fields drawn from exactly Dom (masked, zero mean, top '
      'wavenumber(s) empty); proved exactly on the rational M = 3 instance lyT; side condition cos(lat) != 0 '
      '(no nodes at the poles)')
  rng = ctx.rng
  lines, checks = [], []   # checks: (op, inp, impl_value, kind)

  def add(line, op, inp, impl, kind='mat'):
    lines.append(line)
    checks.append((op, inp, impl, kind))

  def rel(a, b, scale=None):
    a, b = np.asarray(a, dtype=float), np.asarray(b, dtype=float)
    if a.shape != b.shape or not (np.isfinite(a).all() and np.isfinite(b).all()):
      return np.inf
    s = max(np.abs(a).max(initial=0.0), np.abs(b).max(initial=0.0)) if scale is None else scale
    return 0.0 if s == 0 else float(np.abs(a - b).max(initial=0.0) / s)

  # ---------------------------------------------------------------- correspondence: grid table
  # (fast, M, L, nlon, nlat, spacing, radius, offset, base)
  table = [
      (0, 1, 2, 4, 2, 'gauss', 1.0, 0.0, None),
      (1, 1, 2, 4, 2, 'gauss', 6.37, 0.0, None),
      (0, 2, 3, 7, 4, 'gauss', 0.54, 0.3, None),
      (1, 2, 3, 7, 4, 'equiangular', 0.54, 0.0, 4),
      (0, 3, 4, 10, 5, 'gauss', 6.37, 0.0, None),
      (1, 3, 5, 10, 5, 'gauss', 1.0, 1.1, 4),          # padRows 2, padCols 3
      (0, 3, 4, 8, 9, 'equiangular', 1.0, 0.0, None),
      (1, 3, 4, 8, 9, 'equiangular_with_poles', 2.0, 0.0, None),
      (0, 4, 6, 12, 6, 'equiangular_with_poles', 0.54, 0.0, None),
      (1, 4, 6, 13, 7, 'gauss', 6.37, 0.0, 3),         # padRows 4, padCols 0
      (0, 5, 5, 16, 8, 'gauss', 1.0, 0.7, None),       # M = L
      (1, 5, 7, 16, 8, 'gauss', 2.0, 0.0, 5),          # padRows 0, padCols 3
      (0, 6, 7, 19, 10, 'gauss', 0.54, 0.0, None),
      (1, 6, 7, 19, 14, 'equiangular', 6.37, 0.0, 8),  # padRows 4, padCols 1
  ]
  extra = ctx.n(4, 40)
  for _ in range(extra):
    fast = int(rng.integers(0, 2))
    M = int(rng.integers(1, 7))
    L = M + int(rng.integers(0, 3))
    nlon = 2 * M + 1 + int(rng.integers(0, 6))
    spacing = SPACINGS[int(rng.integers(0, 3))]
    nlat = max(2, L + int(rng.integers(0, 6)))
    radius = float(rng.choice([1.0, 0.54, 6.37, float(rng.uniform(0.2, 9))]))
    offset = float(rng.choice([0.0, float(rng.uniform(0, 6))]))
    base = int(rng.choice([1, 2, 3, 4, 8])) if fast else None
    table.append((fast, M, L, nlon, nlat, spacing, radius, offset, base))
  n_unit_grids = ctx.n(4, 10)
  n_transform = 0

  for gi, spec in enumerate(table):
    fast, M, L, nlon, nlat, spacing, radius, offset, base = spec
    desc = gdesc(spec)
    with ctx.impl('construct', desc, 'Grid construction raised'):
      g = make_grid(sh, *spec)
      R, C = g.modal_shape
    if 'g' not in locals() or g.longitude_wavenumbers != M:
      continue
    pr, pc = g.modal_padding
    ly = layout_token(g, fast)
    rb = fbits(radius)
    ctx.dist[f'impl={"fast" if fast else "real"}'] += 1
    ctx.dist[f'spacing={spacing}'] += 1
    ctx.dist[f'pad={"yes" if (pr or pc) else "no"}'] += 1
    ctx.dist[f'M={M}'] += 1
    nontriv_grid = M >= 2

    # structure
    add(f'grid F shape {ly}', 'modal_shape', desc, [R, C], 'ints')
    add(f'grid F mvals {ly}', 'modal_axes[0]', desc, [int(v) for v in g.modal_axes[0]], 'ints')
    add(f'grid F lvals {ly}', 'modal_axes[1]', desc, [int(v) for v in g.modal_axes[1]], 'ints')
    add(f'grid F mask {ly}', 'mask', desc, np.asarray(g.mask).astype(int), 'boolmat')
    add(f'grid F eig {ly} {rb}', 'laplacian_eigenvalues', desc, g.laplacian_eigenvalues, 'vec')
    a_w, b_w = g._derivative_recurrence_weights
    add(f'grid F wts {ly}', '_derivative_recurrence_weights', desc, (a_w, b_w), 'pair')
    sin_lat = np.asarray(g.nodal_axes[1])
    add(f'grid F coslat {fvec(sin_lat)}', 'cos_lat', desc, g.cos_lat, 'vec')
    if spacing != 'equiangular_with_poles':
      add(f'grid F sec2lat {fvec(sin_lat)}', 'sec2_lat', desc, g.sec2_lat, 'vec')
    ctx.case(('grid', spec), nontrivial=nontriv_grid, sample=desc)

    clip_ns = sorted({1, 2, 3, max(L - 1, 1), L, C + 2})

    def all_ops(x, y, g=g, clip_ns=clip_ns):
      out = dict(lap=g.laplacian(x), ilap=g.inverse_laplacian(x), ddlon=g.d_dlon(x),
                 d1=g.cos_lat_d_dlat(x), d2=g.sec_lat_d_dlat_cos2(x), kx=g.k_cross((x, y)))
      for c in (True, False):
        ci = int(c)
        out[f'grad{ci}'] = g.cos_lat_grad(x, clip=c)
        out[f'div{ci}'] = g.div_cos_lat((x, y), clip=c)
        out[f'curl{ci}'] = g.curl_cos_lat((x, y), clip=c)
        out[f'gclv{ci}'] = sh.get_cos_lat_vector(x, y, g, clip=c)
      for n in clip_ns:
        out[f'clip{n}'] = g.clip_wavenumbers(x, n)
      return out
    bundle = jax.jit(all_ops)

    # inputs: units (small grids first), random masked, random unmasked (padding filled)
    inputs = []
    if gi < n_unit_grids or R * C <= 12:
      for i in range(R):
        for j in range(C):
          e = np.zeros((R, C))
          e[i, j] = 1.0
          inputs.append((f'unit({i},{j})', e))
    nrand = ctx.n(2, 4)
    for k in range(nrand):
      x = rng.standard_normal((R, C))
      inputs.append(('random-masked', x * g.mask) if k % 2 == 0 else ('random-full', x))

    for kind, x in inputs:
      ctx.dist[f'input={kind.split("(")[0]}'] += 1
      y = rng.standard_normal((R, C)) if not kind.startswith('unit') else np.roll(x, 1, axis=0)
      xs, ys = fmat(x), fmat(y)
      inp = dict(grid=desc, kind=kind, x=x.tolist())
      inp2 = dict(grid=desc, kind=kind, v0=x.tolist(), v1=y.tolist())
      ctx.case(('ops', spec, x.tobytes()), nontrivial=nontriv_grid and bool(np.any(x)))
      with ctx.impl('operators', inp, 'Grid operator raised'):
        out = bundle(jnp.asarray(x), jnp.asarray(y))
        add(f'grid F lap {ly} {rb} {xs}', 'laplacian', inp, out['lap'])
        add(f'grid F ilap {ly} {rb} {xs}', 'inverse_laplacian', inp, out['ilap'])
        add(f'grid F ddlon {ly} {xs}', 'd_dlon', inp, out['ddlon'])
        add(f'grid F d1 {ly} {xs}', 'cos_lat_d_dlat', inp, out['d1'])
        add(f'grid F d2 {ly} {xs}', 'sec_lat_d_dlat_cos2', inp, out['d2'])
        for c in (True, False):
          ci = int(c)
          add(f'grid F grad {ly} {rb} {ci} {xs}', f'cos_lat_grad[clip={c}]', inp, out[f'grad{ci}'], 'pair')
          add(f'grid F div {ly} {rb} {ci} {xs} {ys}', f'div_cos_lat[clip={c}]', inp2, out[f'div{ci}'])
          add(f'grid F curl {ly} {rb} {ci} {xs} {ys}', f'curl_cos_lat[clip={c}]', inp2, out[f'curl{ci}'])
          add(f'grid F gclv {ly} {rb} {ci} {xs} {ys}', f'get_cos_lat_vector[clip={c}]', inp2,
              out[f'gclv{ci}'], 'pair')
        add(f'grid F kx {xs} {ys}', 'k_cross', inp2, out['kx'], 'pair')
        if not kind.startswith('unit') or (x.nonzero()[1][0] >= C - 3):
          for n in clip_ns:
            add(f'grid F clip {ly} {n} {xs}', f'clip_wavenumbers[n={n}]', dict(inp, n=n), out[f'clip{n}'])
    # clip validation stream
    for n in (0, -1, -3):
      try:
        g.clip_wavenumbers(jnp.ones((R, C)), n)
        res = 'ok'
      except ValueError:
        res = 'value-error'
      add(f'grid F clip {ly} {n} {fmat(np.ones((R, C)))}', 'clip_wavenumbers[validation]',
          dict(grid=desc, n=n), res, 'str')
      ctx.case(('clipval', spec, n))
    # d_dlon shape validation (wrong row parity)
    xb = rng.standard_normal((R + 1, C))
    try:
      g.d_dlon(jnp.asarray(xb))
      res = 'ok'
    except ValueError:
      res = 'value-error'
    add(f'grid F ddlon {ly} {fmat(xb)}', 'd_dlon[validation]', dict(grid=desc, rows=R + 1), res, 'strmat')
    ctx.case(('ddlonval', spec))

    # transforms and wind conversions through the explicit basis (small grids only)
    if M <= 4 and n_transform < ctx.n(8, 16):
      n_transform += 1
      bs = g.spherical_harmonics.basis
      f, p, w = np.asarray(bs.f), np.asarray(bs.p), np.asarray(bs.w)
      if f.ndim != 2:
        continue
      head = f'{fmat(f)} {"|".join(fmat(pm) for pm in p)} {fvec(w)}'
      xm = rng.standard_normal((R, C)) * g.mask
      ym = rng.standard_normal((R, C)) * g.mask
      z = rng.standard_normal(g.nodal_shape)
      z2 = rng.standard_normal(g.nodal_shape)
      inp = dict(grid=desc, x=xm.tolist())
      ctx.case(('transforms', spec, xm.tobytes()), nontrivial=nontriv_grid)
      ctx.dist['transform-grids'] += 1
      with ctx.impl('transforms', inp, 'transform raised'):
        add(f'grid F tonodal {ly} {head} {fmat(xm)}', 'to_nodal', inp, g.to_nodal(jnp.asarray(xm)))
        add(f'grid F tomodal {ly} {head} {fmat(z)}', 'to_modal', dict(grid=desc, z=z.tolist()),
            g.to_modal(jnp.asarray(z)))
      if spacing != 'equiangular_with_poles':
        cosl = np.asarray(g.cos_lat)
        for c in (True, False):
          ci = int(c)
          with ctx.impl('wind', inp, 'wind conversion raised'):
            add(f'grid F uv2vd {ly} {rb} {ci} {head} {fvec(cosl)} {fmat(z)} {fmat(z2)}',
                f'uv_nodal_to_vor_div_modal[clip={c}]', dict(grid=desc, u=z.tolist(), v=z2.tolist()),
                sh.uv_nodal_to_vor_div_modal(g, jnp.asarray(z), jnp.asarray(z2), clip=c), 'pair')
            add(f'grid F vd2uv {ly} {rb} {ci} {head} {fvec(cosl)} {fmat(xm)} {fmat(ym)}',
                f'vor_div_to_uv_nodal[clip={c}]', dict(grid=desc, vor=xm.tolist(), div=ym.tolist()),
                sh.vor_div_to_uv_nodal(g, jnp.asarray(xm), jnp.asarray(ym), clip=c), 'pair')

  # shift / pad_in_dim
  for k in range(ctx.n(30, 200)):
    n = int(rng.integers(1, 9)) if k > 3 else k + 1
    v = rng.standard_normal(n)
    off = int(rng.integers(-n - 2, n + 3)) if k > 8 else [0, 1, -1, n, -n, n - 1, 1 - n, n + 1, -n - 1][k]
    add(f'grid F shift {fvec(v)} {off}', 'jax_numpy_utils.shift', dict(v=v.tolist(), offset=off),
        jnu.shift(jnp.asarray(v), off, axis=-1), 'vec')
    lo, hi = int(rng.integers(0, 4)), int(rng.integers(0, 4))
    add(f'grid F pad {fvec(v)} {lo} {hi}', 'jax_numpy_utils.pad_in_dim',
        dict(v=v.tolist(), pad=(lo, hi)), jnu.pad_in_dim(jnp.asarray(v), (lo, hi), axis=-1), 'vec')
    ctx.case(('shift', v.tobytes(), off))

  outs = ctx.model(lines)
  for (op, inp, impl, kind), o in zip(checks, outs):
    if o == 'bad-op':
      ctx.corr_mismatch(op, inp, 'n/a', o, 'model did not understand the request')
      continue
    if kind == 'str':
      ctx.corr_exact(op, inp, impl, 'value-error' if o == 'value-error' else 'ok')
    elif kind == 'strmat':
      ctx.corr_exact(op, inp, impl, 'value-error' if o == 'value-error' else 'ok')
    elif o == 'value-error':
      ctx.corr_mismatch(op, inp, 'value', o)
    elif kind == 'ints':
      ctx.corr_exact(op, inp, list(impl), common.univec(o))
    elif kind == 'boolmat':
      m = [[int(c) for c in r.split(',')] for r in o.split(';')] if o != '_' else []
      ctx.corr_exact(op, inp, np.asarray(impl).tolist(), m)
    elif kind == 'vec':
      ctx.corr_float(op, inp, np.asarray(impl), unfvec(o), rtol=RTOL)
    elif kind == 'pair':
      mo = pair(o)
      for comp in range(2):
        ctx.corr_float(f'{op}[{comp}]', inp, np.asarray(impl[comp]), mo[comp], rtol=RTOL)
    else:
      ctx.corr_float(op, inp, np.asarray(impl), np.array(unfmat(o), dtype=float), rtol=RTOL)

  # ---------------------------------------------------------------- Hyp-A / Hyp-B and round trips
  hyp_table = [
      (0, 4, 5, 13, 7, 'gauss', 1.0, 0.0, None),
      (1, 4, 5, 13, 7, 'gauss', 0.54, 0.0, 4),
      (0, 5, 6, 16, 12, 'equiangular', 6.37, 0.0, None),
      (1, 5, 6, 16, 12, 'equiangular', 1.0, 0.4, None),
      (0, 8, 10, 24, 12, 'gauss', 0.54, 0.0, None),
      (1, 8, 10, 24, 12, 'gauss', 6.37, 0.0, 8),
      (0, 8, 9, 17, 9, 'gauss', 2.0, 0.0, None),       # linear truncation
      (1, 11, 12, 33, 17, 'gauss', 1.0, 0.0, None),
      (0, 16, 17, 33, 17, 'gauss', 6.37, 0.2, None),
      (1, 16, 17, 49, 25, 'gauss', 0.54, 0.0, 8),
      (0, 22, 23, 64, 32, 'gauss', 1.0, 0.0, None),    # T21
      (1, 22, 23, 64, 32, 'gauss', 6.37, 0.0, None),
  ]
  if not ctx.quick:
    for fast in (0, 1):
      hyp_table += [
          (fast, 32, 33, 96, 48, 'gauss', 0.54, 0.0, None),   # T31
          (fast, 32, 33, 64, 32, 'gauss', 1.0, 0.0, None),    # TL31
          (fast, 43, 44, 128, 64, 'gauss', 6.37, 0.0, None),  # T42
          (fast, 12, 13, 40, 26, 'equiangular', 2.0, 0.0, None),
      ]
    while len(hyp_table) < 60:
      fast = int(rng.integers(0, 2))
      M = int(rng.integers(2, 30))
      L = M + int(rng.integers(1, 3))
      spacing = 'gauss' if rng.random() < 0.7 else 'equiangular'
      nlat = (L + int(rng.integers(0, L))) if spacing == 'gauss' else 2 * L + int(rng.integers(0, 8))
      nlon = 2 * M + 1 + int(rng.integers(0, 2 * M))
      radius = float(rng.choice([1.0, 0.54, 6.37, float(rng.uniform(0.2, 9))]))
      base = int(rng.choice([1, 4, 8])) if fast else None
      hyp_table.append((fast, M, L, nlon, nlat, spacing, radius, float(rng.uniform(0, 1)), base))

  def dom(g, k):
    """A random element of `Dino.C02.Dom ly k`: masked, zero mean, top k wavenumbers (and the padding) empty."""
    R, C = g.modal_shape
    L = g.total_wavenumbers
    x = rng.standard_normal((R, C)) * g.mask
    x[:, 0] = 0
    x[:, max(L - k, 0):] = 0
    return x

  def in_dom(g, k, x):
    """The three clauses of `Dino.C02.Dom ly k x` (shape; l = 0 and l >= L - k; mask), on the real grid."""
    R, C = g.modal_shape
    L = g.total_wavenumbers
    if x.shape != (R, C):
      return False
    band = np.zeros(C, dtype=bool)
    band[0] = True
    band[max(L - k, 0):] = True
    return not x[:, band].any() and not x[~np.asarray(g.mask, dtype=bool)].any()

  def off_mask_unit(g, k):
    """A unit field at an entry (i, l) with mask false and 1 <= l < L - k (it satisfies every clause of
    Dom except the mask), or None when the grid has no such entry."""
    R, C = g.modal_shape
    L = g.total_wavenumbers
    cand = [(i, l) for i in range(R) for l in range(1, max(L - k, 1)) if not g.mask[i, l]]
    if not cand:
      return None
    i, l = cand[int(rng.integers(0, len(cand)))]
    e = np.zeros((R, C))
    e[i, l] = 1.0
    return i, l, e

  dom_lines, dom_checks = [], []   # membership of the drawn fields in the model's Dom (driver op `dom`)

  def dom_member(g, fast, k, x, want, what, desc):
    R, C = g.modal_shape
    ctx.expect(in_dom(g, k, x) == want, 'domain:draw',
               f'{what}: membership in Dom(k={k}) is {in_dom(g, k, x)}, wanted {want}', dict(grid=desc, k=k))
    # every draw, on every grid, is also sent to the model's Boolean test `domB` (= `Dom`, theorem `domB_iff`)
    dom_lines.append(f'grid F dom {layout_token(g, fast)} {k} {fmat(x)}')
    dom_checks.append((dict(grid=desc, k=k, what=what, x=x.tolist() if R * C <= 60 else what), want))

  for spec in hyp_table:
    fast, M, L, nlon, nlat, spacing, radius, offset, base = spec
    desc = gdesc(spec)
    if not resolves(spacing, nlat, L):
      continue
    g = make_grid(sh, *spec)
    R, C = g.modal_shape
    ctx.dist['hyp-grids'] += 1
    # side condition `hcos` of the wind theorems: no node at a pole
    sl = np.asarray(g.nodal_axes[1])
    ctx.expect(bool(np.all(np.abs(sl) < 1) and np.all(np.asarray(g.cos_lat) > 0)), 'admissible:cos-lat',
               f'a {spacing} grid has a node with |sin(lat)| >= 1 or cos(lat) <= 0: max|sin_lat|={np.abs(sl).max()!r}',
               dict(grid=desc))
    for c in (False, True):
      k = 2 if c else 1
      psi, vor, dv = dom(g, k), dom(g, k), dom(g, k)
      for nm, fld in (('psi', psi), ('vor', vor), ('div', dv)):
        dom_member(g, fast, k, fld, True, f'dom() draw {nm}', desc)
      # negative control: one entry off the mask -> not in Dom, and Hyp-A fails on the real code
      off = off_mask_unit(g, k)
      if off is not None:
        i0, l0, e0 = off
        ctx.dist['control-unmasked'] += 1
        dom_member(g, fast, k, e0, False, f'unit off the mask at ({i0},{l0})', desc)
        with ctx.impl('control', dict(grid=desc, clip=c, row=i0, l=l0), 'operator raised'):
          gr0 = g.cos_lat_grad(jnp.asarray(e0), clip=c)
          S0 = tuple(g.to_modal(g.to_nodal(comp) * g.sec2_lat) for comp in gr0)
          A0 = np.asarray(g.div_cos_lat(S0, clip=c))
          lap0 = np.asarray(g.laplacian(jnp.asarray(e0)))
          ctx.case(('control', spec, c, i0, l0))
          ctx.expect(abs(A0[i0, l0] - lap0[i0, l0]) > 0.5 * abs(lap0[i0, l0]) > 0, 'control:hypA-unmasked',
                     f'negative control: Hyp-A was expected to FAIL for the unit field off the mask at row {i0}, '
                     f'l={l0} (to_nodal discards it, the Laplacian does not) but lhs={A0[i0, l0]!r} '
                     f'rhs={lap0[i0, l0]!r}: the domain Dom of the theorems would no longer be sharp',
                     dict(grid=desc, clip=c, row=i0, l=l0))
      inp = dict(grid=desc, clip=c, psi=psi.tolist() if R * C <= 60 else f'seeded dom sample {psi.shape}')
      ctx.case(('hyp', spec, c, psi.tobytes()))
      with ctx.impl('hyp', inp, 'operator raised'):
        def hyp_ops(psi, vor, dv, g=g, c=c):
          gr = g.cos_lat_grad(psi, clip=c)
          S = tuple(g.to_modal(g.to_nodal(comp) * g.sec2_lat) for comp in gr)
          u, v = sh.vor_div_to_uv_nodal(g, vor, dv, clip=c)
          v2, d2 = sh.uv_nodal_to_vor_div_modal(g, u, v, clip=c)
          return dict(lap=g.laplacian(psi), A=g.div_cos_lat(S, clip=c), B=g.curl_cos_lat(S, clip=c),
                      Dk=g.div_cos_lat(g.k_cross(S), clip=c), v2=v2, d2=d2)
        ho = {k_: np.asarray(v_) for k_, v_ in
              jax.jit(hyp_ops)(jnp.asarray(psi), jnp.asarray(vor), jnp.asarray(dv)).items()}
        lap, A, B, Dk = ho['lap'], ho['A'], ho['B'], ho['Dk']
        scale = max(np.abs(lap).max(), 1e-300)
        top = L - 1
        ctx.expect(rel(A[:, :top], lap[:, :top], scale) <= RTOL, 'hyp:A',
                   f'div(S(cos_lat_grad psi)) != laplacian(psi) below the top wavenumber: '
                   f'err={rel(A[:, :top], lap[:, :top], scale):.3e}', inp)
        ctx.expect(rel(B[:, :top], 0 * B[:, :top], scale) <= RTOL, 'hyp:B',
                   f'curl(S(cos_lat_grad psi)) != 0 below the top wavenumber: '
                   f'err={rel(B[:, :top], 0 * B[:, :top], scale):.3e}', inp)
        # div of a rotated gradient
        ctx.expect(rel(Dk[:, :top], 0 * Dk[:, :top], scale) <= RTOL, 'identity:div-kcross-grad',
                   'div(k x S(grad psi)) != 0 below the top wavenumber', inp)
        if c:
          ctx.expect(rel(A, lap, scale) <= RTOL and rel(B, 0 * B, scale) <= RTOL, 'hyp:clipped',
                     'with clip=True the identities must hold in the whole array', inp)
        # the round trip itself
        inp_rt = dict(grid=desc, clip=c,
                      vor=vor.tolist() if R * C <= 60 else 'seeded dom sample',
                      div=dv.tolist() if R * C <= 60 else 'seeded dom sample')
        v2, d2 = ho['v2'], ho['d2']
        sc = max(np.abs(vor).max(), np.abs(dv).max())
        e = max(rel(v2[:, :top], vor[:, :top], sc), rel(d2[:, :top], dv[:, :top], sc))
        ctx.expect(e <= RTOL, 'roundtrip:vor-div',
                   f'vor/div -> wind -> vor/div differs below the top wavenumber: err={e:.3e}', inp_rt)
        if c:
          e = max(rel(v2, vor, sc), rel(d2, dv, sc))
          ctx.expect(e <= RTOL, 'roundtrip:vor-div-clipped',
                     f'vor/div -> wind -> vor/div (clip=True) differs: err={e:.3e}', inp_rt)
        # Laplacian round trips on zero-mean fields
        xz = dom(g, 0)
        e1 = rel(np.asarray(g.laplacian(g.inverse_laplacian(xz))), xz)
        e2 = rel(np.asarray(g.inverse_laplacian(g.laplacian(xz))), xz)
        ctx.expect(max(e1, e2) <= RTOL, 'roundtrip:laplacian',
                   f'laplacian/inverse_laplacian round trip: err={max(e1, e2):.3e}', dict(grid=desc))
        il = np.asarray(g.inverse_laplacian(rng.standard_normal((R, C))))
        ctx.expect(not il[:, 0].any() and not il[:, L:].any(), 'roundtrip:laplacian',
                   'inverse_laplacian is not zero at l=0 / on the padding', dict(grid=desc))

  # the certified grids h1..h5: the real code's float64 round trip on random fields of Dom stays within the bound
  # that `Dino.C02.roundtrip_h*` prove for the exact rational round trip on the same arrays (plus float64 rounding)
  if gen is not None:
    for a in gen['arrays']:
      gid, fast = a['cfg'][0], a['cfg'][1]
      g = a['grid']
      R, C = g.modal_shape
      L = g.total_wavenumbers
      eps = R * C * 2.0 ** -c02_gridcert.DELTA_EXP
      desc = dict(cert=gid, cfg=[str(t) for t in a['cfg'][1:]])
      ctx.dist['cert-grids'] += 1
      for c in (False, True):
        k = 2 if c else 1
        vor, dv = dom(g, k), dom(g, k)
        dom_member(g, fast, k, vor, True, f'cert grid {gid} dom() draw vor', desc)
        dom_member(g, fast, k, dv, True, f'cert grid {gid} dom() draw div', desc)
        ctx.case(('cert-roundtrip', gid, c, vor.tobytes()), nontrivial=bool(vor.any() or dv.any()))
        with ctx.impl('cert-roundtrip', dict(grid=desc, clip=c), 'wind conversion raised'):
          u, v = sh.vor_div_to_uv_nodal(g, jnp.asarray(vor), jnp.asarray(dv), clip=c)
          v2, d2 = (np.asarray(t) for t in sh.uv_nodal_to_vor_div_modal(g, u, v, clip=c))
          B = max(np.abs(vor).max(), np.abs(dv).max())
          err = max(np.abs(v2[:, :L - 1] - vor[:, :L - 1]).max(initial=0.0),
                    np.abs(d2[:, :L - 1] - dv[:, :L - 1]).max(initial=0.0))
          ctx.expect(err <= 2 * eps * B + 1e-12 * max(B, 1e-300), 'cert:roundtrip-live',
                     f'certified grid {gid}, clip={c}: float64 round trip error {err:.3e} exceeds the certified bound '
                     f'2*eps*B = {2 * eps * B:.3e} (eps = rows*cols*2^-{c02_gridcert.DELTA_EXP}) + rounding',
                     dict(grid=desc, clip=c, vor=vor.tolist(), div=dv.tolist()))

  # membership of every drawn field (all grids) in the model's `Dom` (`domB`, theorem `domB_iff`)
  if dom_lines:
    douts = ctx.model(dom_lines)
    for (inp, want), o in zip(dom_checks, douts):
      if o not in ('0', '1'):
        ctx.corr_mismatch('Dom-membership', inp, want, o, 'driver op `grid dom` did not answer 0/1')
        continue
      ctx.corr_exact('Dom-membership', inp, want, o == '1')
    ctx.dist['dom-membership-model'] += len(dom_checks)

  # the side condition cos(lat) != 0 is violated by grids with nodes at the poles: recorded, and such grids are
  # excluded from every probe that divides by cos(lat)
  gp = make_grid(sh, 0, 3, 4, 8, 9, 'equiangular_with_poles', 1.0, 0.0, None)
  pole_ok = bool(np.abs(np.asarray(gp.nodal_axes[1])).max() == 1.0 and np.asarray(gp.cos_lat).min() == 0.0)
  ctx.case(('control-poles',))
  ctx.expect(pole_ok, 'control:poles',
             'negative control: equiangular_with_poles was expected to have nodes with cos(lat) = 0 '
             f'(min cos_lat = {np.asarray(gp.cos_lat).min()!r}); if it has none, the exclusion of this spacing from '
             'the wind probes should be lifted', dict(spacing='equiangular_with_poles', nlat=9))
  ctx.notes.append('equiangular_with_poles grids are excluded from sec2_lat, both wind conversions, Hyp-A/Hyp-B and the '
                   'round trips: they violate the side condition `∀ c ∈ cosl, c ≠ 0` (hcos) of vor_div_roundtrip / '
                   'vor_div_roundtrip_clipped / vor_div_roundtrip_eps / div_rotated_gradient / sandwich_linear '
                   '(cos(lat) = 0 at the poles: the code returns inf/nan there, the totalised model 0); gauss and '
                   'equiangular grids satisfy it (Lean: cosLat_ne_zero, equiangular_cosLat_ne_zero; checked on every '
                   'grid used: admissible:cos-lat)')
  ctx.notes.append('Hyp-A/Hyp-B are validated on fields drawn from exactly Dom (masked, zero mean, top 1 resp. 2 '
                   'wavenumbers empty); residuals are measured relative to max|laplacian psi|, which is the hypothesis '
                   'of vor_div_roundtrip_eps with eps = 1e-9 (conclusion: round trip within 2e-9 of the identity '
                   'relative to max(|vor|,|div|)); off the mask Hyp-A fails (control:hypA-unmasked)')

  # ---------------------------------------------------------------- coefficient-space identities on the real operators
  for spec in hyp_table[:ctx.n(8, 40)]:
    fast, M, L, nlon, nlat, spacing, radius, offset, base = spec
    if not resolves(spacing, nlat, L) or L < 4:
      continue
    desc = gdesc(spec)
    g = make_grid(sh, *spec)
    R, C = g.modal_shape
    x = dom(g, 3)
    x0 = x.copy()
    x0[:, 0] = (rng.standard_normal(R) * g.mask[:, 0])
    inp = dict(grid=desc, x=x0.tolist() if R * C <= 60 else 'seeded sample, top three wavenumbers empty')
    ctx.case(('ident', spec, x0.tobytes()))
    with ctx.impl('identities', inp, 'operator raised'):
      sinl = np.asarray(g.nodal_axes[1])
      w1 = dom(g, 1)

      def ident_ops(x, w, g=g, sinl=sinl, radius=radius):
        mu = lambda y: g.to_modal(g.to_nodal(y) * sinl)
        y = radius ** 2 * g.laplacian(x)
        v = (x, w)
        out = dict(d1=g.cos_lat_d_dlat(x), d2=g.sec_lat_d_dlat_cos2(x), mux=mu(x),
                   lhs=g.cos_lat_d_dlat(g.cos_lat_d_dlat(x)) + g.d_dlon(g.d_dlon(x)),
                   rhs=y - mu(mu(y)), dd=g.d_dlon(g.d_dlon(x)), kk=g.k_cross(g.k_cross(v)))
        for c in (True, False):
          ci = int(c)
          out[f'divk{ci}'] = g.div_cos_lat(g.k_cross(v), clip=c)
          out[f'curlk{ci}'] = g.curl_cos_lat(g.k_cross(v), clip=c)
          out[f'div{ci}'] = g.div_cos_lat(v, clip=c)
          out[f'curl{ci}'] = g.curl_cos_lat(v, clip=c)
        return out
      io = jax.tree_util.tree_map(np.asarray, jax.jit(ident_ops)(jnp.asarray(x0), jnp.asarray(w1)))
      d1, d2 = io['d1'], io['d2']
      sc = max(np.abs(d1).max(), np.abs(d2).max(), 1e-300)
      ctx.expect(rel(d1 - d2, 2 * io['mux'], sc) <= RTOL, 'identity:D1-D2',
                 f'cos_lat_d_dlat - sec_lat_d_dlat_cos2 != 2 sin(lat) x : err={rel(d1 - d2, 2 * io["mux"], sc):.3e}', inp)
      lhs, rhs = io['lhs'], io['rhs']
      sc = max(np.abs(lhs).max(), np.abs(rhs).max(), 1e-300)
      ctx.expect(rel(lhs, rhs, sc) <= RTOL, 'identity:legendre',
                 f'D1 D1 x + dlon dlon x != (1 - sin^2) r^2 laplacian x : err={rel(lhs, rhs, sc):.3e}', inp)
      kk = io['kk']
      ctx.expect(rel(kk[0], -x0) == 0 and rel(kk[1], -w1) == 0, 'identity:kcross', 'k x (k x v) != -v', inp)
      for ci in (1, 0):
        e = max(rel(io[f'divk{ci}'], -io[f'curl{ci}']), rel(io[f'curlk{ci}'], io[f'div{ci}']))
        ctx.expect(e <= RTOL, 'identity:kcross', f'div(k x v) = -curl v / curl(k x v) = div v: err={e:.3e}', inp)
      m = np.asarray(g.modal_axes[0])[:, None]
      ctx.expect(rel(io['dd'], -(m ** 2) * x0) <= RTOL, 'identity:dlon2', 'd_dlon d_dlon != -m^2', inp)

  # ---------------------------------------------------------------- analytic oracle (labelled test)
  oracle_table = [
      (0, 4, 6, 13, 7, 'gauss', 1.0, 0.0, None),
      (1, 4, 6, 13, 7, 'gauss', 0.54, 0.9, 4),
      (0, 6, 7, 19, 14, 'equiangular', 6.37, 0.0, None),
      (1, 7, 8, 22, 11, 'gauss', 6.37, 0.0, None),
      (0, 9, 10, 28, 14, 'gauss', 0.54, 0.5, None),
      (1, 5, 7, 11, 8, 'equiangular_with_poles', 1.0, 0.0, 2),
  ]
  if not ctx.quick:
    oracle_table += [
        (0, 16, 17, 49, 25, 'gauss', 6.37, 0.0, None),
        (1, 16, 18, 49, 25, 'gauss', 0.54, 0.0, 8),
        (0, 22, 23, 64, 32, 'gauss', 1.0, 0.3, None),
        (1, 12, 13, 40, 26, 'equiangular', 2.0, 0.0, None),
    ]
  for spec in oracle_table:
    fast, M, L, nlon, nlat, spacing, radius, offset, base = spec
    desc = gdesc(spec)
    g = make_grid(sh, *spec)
    R, C = g.modal_shape
    lam = np.asarray(g.nodal_axes[0])[:nlon] - offset
    xs = np.asarray(g.nodal_axes[1])[:nlat]
    mvals = np.asarray(g.modal_axes[0])
    ctx.dist['oracle-grids'] += 1

    def oracle_ops(e, g=g):
      nod = g.to_nodal
      gr = g.cos_lat_grad(e, clip=False)
      grc = g.cos_lat_grad(e, clip=True)
      return dict(Y=nod(e), dlon=nod(g.d_dlon(e)), dlat=nod(g.cos_lat_d_dlat(e)),
                  d2=nod(g.sec_lat_d_dlat_cos2(e)), lap=nod(g.laplacian(e)),
                  g0=nod(gr[0]), g1=nod(gr[1]), gc1=nod(grc[1]),
                  dv=nod(g.div_cos_lat((e, e), clip=True)), cu=nod(g.curl_cos_lat((e, e), clip=True)))
    try:
      oracle_jit = jax.jit(oracle_ops)
      oracle_jit(jnp.zeros((R, C)))
    except Exception as ex:  # pylint: disable=broad-except
      ctx.fail('oracle', f'operator raised: {type(ex).__name__}: {str(ex)[:300]}', dict(grid=desc))
      continue
    for i in range(R):
      for l in range(L - 1):          # every (m, l) below the top wavenumber
        if not g.mask[i, l]:
          continue
        m = abs(int(mvals[i]))
        if fast:
          sgn = 1 if i % 2 == 0 else -1
        else:
          sgn = 1 if (i % 2 == 1 or i == 0) else -1
        e = np.zeros((R, C))
        e[i, l] = 1.0
        inp = dict(grid=desc, row=i, m=m, l=l, part='cos' if sgn > 0 else 'sin')
        ctx.case(('oracle', spec, i, l))
        Y, dYl, dYt = oracle_fields(m, l, sgn, lam, xs)
        oo = {k_: np.asarray(v_)[:nlon, :nlat] for k_, v_ in oracle_jit(jnp.asarray(e)).items()}
        sc = max(np.abs(Y).max(), 1e-300) * max(l, 1)
        ctx.expect(rel(oo['Y'], Y, np.abs(Y).max()) <= RTOL, 'oracle:basis',
                   'to_nodal(unit) differs from the closed-form real spherical harmonic', inp)
        ctx.expect(rel(oo['dlon'], dYl, sc) <= RTOL, 'oracle:dlon',
                   'to_nodal(d_dlon Y) differs from the closed-form dY/dlambda', inp)
        ctx.expect(rel(oo['dlat'], dYt, sc) <= RTOL, 'oracle:dlat',
                   'to_nodal(cos_lat_d_dlat Y) differs from the closed-form cos(lat) dY/dlat', inp)
        ctx.expect(rel(oo['d2'], dYt - 2 * xs[None, :] * Y, 2 * sc + 2) <= RTOL,
                   'oracle:dlat-cos2', 'to_nodal(sec_lat_d_dlat_cos2 Y) differs from cos dY/dlat - 2 sin Y', inp)
        ctx.expect(rel(oo['lap'], -l * (l + 1) / radius ** 2 * Y,
                       max(l * (l + 1), 1) / radius ** 2 * np.abs(Y).max()) <= RTOL,
                   'oracle:laplacian', 'to_nodal(laplacian Y) differs from -l(l+1)/r^2 Y', inp)
        ctx.expect(rel(oo['g0'], dYl / radius, sc / radius) <= RTOL
                   and rel(oo['g1'], dYt / radius, sc / radius) <= RTOL,
                   'oracle:grad', 'to_nodal(cos_lat_grad Y) differs from the closed-form gradient / radius', inp)
        if l + 1 < L - 1:
          ctx.expect(rel(oo['gc1'], dYt / radius, sc / radius) <= RTOL, 'oracle:grad-clipped',
                     'clipped cos_lat_grad differs from the closed form two below the top wavenumber', inp)
          want_d = (dYl + dYt - 2 * xs[None, :] * Y) / radius
          want_c = (dYl - (dYt - 2 * xs[None, :] * Y)) / radius
          ctx.expect(rel(oo['dv'], want_d, (3 * sc + 2) / radius) <= RTOL
                     and rel(oo['cu'], want_c, (3 * sc + 2) / radius) <= RTOL,
                     'oracle:div-curl', 'div_cos_lat / curl_cos_lat of (Y, Y) differ from the closed form', inp)

  ctx.notes.append('analytic oracle, Hyp-A/B sampling, round trips and coefficient-space identities are '
                   'tests on the real code (sentinel probes), not proof obligations')
  return ctx.finish(RULE, 'C02 partial: latitude recurrence proved consistent with the Laplacian, '
                          'Hyp-A/B kernel-checked on five small live grids, sampled elsewhere (see assumptions)')
