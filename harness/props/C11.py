"""C11 — structural invariants survive any number of steps.

Lean: DinoProofs/Properties/C11.lean (+ Lemmas/Invariants*.lean) over the models Dino/Dynamics.lean (C04),
Dino/DynamicsSW.lean (C05: the one shallow-water model), Dino/Imex.lean (C06), Dino/Filters.lean (C15), Dino/Invariants.lean,
and the coefficient tables DinoGen/Tableaux.lean regenerated from dinosaur/time_integration.py on every run.

Tie:
 (a) every named closure hypothesis of the theorems (`OpsClosed`, `Mean0`, linearity, `div(uv) = delta`, the l = 0
     block of the numerically inverted implicit matrix, the filters) is validated on the real `Grid` operators, exact
     zeros bitwise; on unpadded layouts with Mk = the modal mask, on PADDED layouts (`base_shape_multiple`) with
     Mk = mask + first padding column of the total-wavenumber axis (`_mk`; the raw latitude derivatives write there, so
     Mk = mask does not satisfy `OpsClosed` on such layouts), S = mask below the clipped wavenumber in both cases;
 (b) model correspondence through the driver namespace `inv`: clock advances of the two integrator factories (exact,
     against the real integrators run on the scalar clock problem), the structural predicate, the shallow-water
     equation set, and whole model trajectories (integrator of Dino.Imex on a class of Dino.Dynamics followed by the
     filters of Dino.Filters) against `time_integration.step_with_filters` on the real classes, with the invariant
     evaluated after every model step;
 (c) sentinel probes on the real code: k-step runs of `step_with_filters` for every integrator x filter stack x
     equation class (+ shallow-water leapfrog) on small grids, checking after every step: exact zeros outside the mask
     and at the clipped wavenumber, (zeta, delta)_00, shallow-water phi_00, sim_time = t0 + k dt, uniform tracer.
"""
import functools
import math
import os
from fractions import Fraction

import numpy as np

import common
from common import fbits, fvec, fmat, qvec, qmat, unfvec, unfbits
import dinoutil
from gen import tableaux
from props import c04_dyn as D

# the shallow-water operations of the `inv` driver run Dino.DynamicsSW (the model shared with C05/C10/C12), which computes
# the density ratios itself from the DENSITIES: the wire format is fixed (a driver without these operations is a
# correspondence break, not a reason to switch formats)
LEMMA_FILES = ['DinoProofs/Lemmas/Invariants.lean', 'DinoProofs/Lemmas/InvariantsDyn.lean',
               'DinoProofs/Lemmas/InvariantsTM.lean', 'DinoProofs/Lemmas/InvariantsShape.lean',
               'DinoProofs/Lemmas/InvariantsMean.lean', 'DinoProofs/Lemmas/InvariantsPE.lean',
               'DinoProofs/Lemmas/InvariantsSW.lean', 'DinoProofs/Lemmas/InvariantsToy.lean',
               'DinoProofs/Lemmas/InvariantsUniform.lean']

TOL = 1e-9            # correspondence
LIN_TOL = 1e-12       # linearity of the horizontal operators (relative)
DIVUV_TOL = 1e-10     # div(uv) = delta after clipping (relative)
INV00_TOL = 1e-12     # l = 0 divergence rows of the numerical inverse vs [I 0 0]
MODE0_TOL = 1e-12     # (0,0) coefficient of the per-wavenumber product vs the l = 0 matrix applied to the (0,0) column
# ceiling on the share of planned probe steps that are lost because a trajectory (random physical constants, dt not
# tuned) became non-finite and was abandoned.  Measured on the unchanged tree (probe phases only): quick seeds 0..7:
# 0/140 steps lost each (7 runs x 20 steps); thorough seed 0: 0/7400; thorough seed 1: 3 of 37 runs abandoned, 244/7400
# = 3.3 % of the steps lost.  0.15 = one of the seven quick runs lost entirely = 4.5 x the worst measured share.
ABANDON_CEILING = 0.15
MOIST00_TOL = 1e-14   # (zeta, delta)_00 of the moist explicit tendencies, relative to the field scale
TIME_TOL = 1e-12      # sim_time, relative to |t0| + k |dt|
TRACER_TOL = 1e-11    # uniform tracer, relative to its value
DRIFT_TOL = 1e-13     # per step, relative: quantities that are conserved only to rounding (see `_tolerances`)
CLASSES = ('dry', 'time', 'moist', 'cloud')
# (M, dealiasing, impl, base_shape_multiple): layouts with a padded total-wavenumber axis
PADDED_TABLE = [(5, 'quadratic', 'fast', 4), (6, 'cubic', 'fast', 5), (4, 'quadratic', 'fast', 3), (6, 'quadratic', 'fast', 8),
                (9, 'linear', 'fast', 4)]
ONE_STATE = ('bfe', 'cnrk2', 'rk3', 'rk4', 'sil3')
RULE = ('hypotheses: Grid.with_wavenumbers M in {5,8,10(,21)} x {Real,Fast}SphericalHarmonics x {quadratic,linear,cubic} '
        '+ PADDED layouts FastSphericalHarmonics(base_shape_multiple in {3,4,5,8}) with Mk = mask + first padding column of '
        'the total-wavenumber axis, S = mask below the clipped wavenumber (1 padded grid quick, by rotation / 5 thorough; 1 / 3 padded '
        'equation configurations with orography on that column), '
        '4-8 random draws each, arbitrary (unmasked, unclipped, garbage on the padding) inputs where the theorem quantifies '
        'over every state; '
        'correspondence: M=4 grids, 2-3 uneven layers, random orography, k=3 steps; probes: M in {5..10(,21)}, 3-6 uneven '
        'layers, random orography, random physical constants, constant/variable T_ref, k=20 (quick) / 200 (thorough) '
        'steps, all integrators x filter stacks x classes by rotation over the seed (all combinations in thorough), one run '
        'per quick plan (every 6th of the thorough plan) and the shallow-water run of odd seeds on a padded layout; '
        'a case is non-trivial when layers >= 2; distinct = distinct (configuration, operation/step) hashes')
NOTE = ('(zeta,delta)_00: exact (bitwise) for the dry classes when the numerical inverse has an exactly decoupled l = 0 '
        'block, otherwise and for Robert-Asselin (a convex combination that is the identity only to rounding) within '
        '1e-13 per step relative to the field scale; moist classes put quadrature-level values (1e-19 measured) into '
        '(zeta,delta)_00: 1e-14 relative; the 13-digit RK4 table advances the clock by dt(1 + 7e-14) per step '
        '(certificate clock_tables); phi_00 / uniform tracer require delta_00 = 0 (admissible states)')


# --------------------------------------------------------------------------
# environment


class _Env:
  def __init__(self):
    self.jax = common.setup_jax()
    import jax.numpy as jnp
    from dinosaur import (coordinate_systems, filtering, primitive_equations, scales, shallow_water,
                          sigma_coordinates, spherical_harmonic, time_integration)
    self.jnp, self.pe, self.sh, self.sc, self.cs, self.scales = (
        jnp, primitive_equations, spherical_harmonic, sigma_coordinates, coordinate_systems, scales)
    self.ti, self.sw, self.flt = time_integration, shallow_water, filtering
    pe = primitive_equations
    self.CL = dict(dry=pe.PrimitiveEquations, time=pe.PrimitiveEquationsWithTime, moist=pe.MoistPrimitiveEquations,
                   cloud=pe.MoistPrimitiveEquationsWithCloudMoisture)
    ti = time_integration
    self.INT = dict(bfe=ti.backward_forward_euler, cnrk2=ti.crank_nicolson_rk2, rk3=ti.crank_nicolson_rk3,
                    rk4=ti.crank_nicolson_rk4, sil3=ti.imex_rk_sil3)
    self._grids = {}

  def grid(self, M, dealiasing='quadratic', impl='real', radius=1.0, base=None):
    """`base`: `base_shape_multiple` of FastSphericalHarmonics (a PADDED layout: modal and nodal shapes rounded up to
    multiples of it, as on a device mesh); None = the unpadded default"""
    key = (M, dealiasing, impl, float(radius), base)
    if key not in self._grids:
      cls = self.sh.RealSphericalHarmonics if impl == 'real' else self.sh.FastSphericalHarmonics
      if base is not None:
        assert impl == 'fast'
        cls = functools.partial(cls, base_shape_multiple=base)
      self._grids[key] = self.sh.Grid.with_wavenumbers(M, dealiasing=dealiasing, spherical_harmonics_impl=cls,
                                                       radius=radius)
    return self._grids[key]

  def specs(self, rng, radius=1.0):
    R = float(rng.uniform(0.5, 3.0)) * 1e-3
    return self.pe.PrimitiveEquationsSpecs(
        radius=float(radius), angular_velocity=float(rng.uniform(0.3, 1.0)),
        gravity_acceleration=float(rng.uniform(20.0, 80.0)), ideal_gas_constant=R,
        water_vapor_gas_constant=R * float(rng.uniform(1.2, 2.0)),
        water_vapor_isobaric_heat_capacity=R * float(rng.uniform(3.0, 9.0)),
        kappa=float(rng.choice([2 / 7, rng.uniform(0.2, 0.4)])), scale=self.scales.DEFAULT_SCALE)


def _keep(grid):
  """mask of the coefficients that may be non-zero in S: inside the modal mask, below the clipped wavenumber."""
  keep = np.array(grid.mask, dtype=bool)
  keep[:, -(1 + grid.modal_padding[-1]):] = False
  return keep


def _mk(grid):
  """the submodule `Mk` of the theorems (`OpsClosed h Mk S`): the modal mask and, on a layout whose total-wavenumber axis
  is PADDED (`base_shape_multiple`, device meshes), the first padding column l = L next to the resolved block as well (rows
  of the zonal wavenumbers resolved at l = L - 1).  `_derivative_recurrence_weights` zeroes `b[:, -1]`, the last column of
  the padded layout, so the raw `sec_lat_d_dlat_cos2` / `cos_lat_d_dlat` write `-(L-1) b[L-1] x[L-1]` there (C07's DOMAIN
  statement, C09 `fastDD_iota_colL`): with Mk = mask `OpsClosed.secLat_mem` is FALSE on such layouts (asserted below as
  `padded: ...`), with this Mk every hypothesis holds and `clip_wavenumbers` (which zeroes the padding) still maps Mk into S."""
  mk = np.array(grid.mask, dtype=bool)
  if grid.modal_padding[-1] > 0:
    L = grid.modal_shape[-1] - grid.modal_padding[-1]
    mk[:, L] = mk[:, L - 1]
  return mk


def _gname(M, dealiasing, impl, base=None):
  return f'{impl}-{dealiasing}{M}' + ('' if base is None else f'-padded{base}')


def _rel(a, b):
  a, b = np.asarray(a, dtype=float), np.asarray(b, dtype=float)
  s = max(np.abs(a).max(initial=0.0), np.abs(b).max(initial=0.0))
  return 0.0 if s == 0 else float(np.abs(a - b).max() / s)


def _off(x, sel):
  """largest |coefficient| outside `sel` (nan counts as a violation)."""
  v = np.asarray(x)[..., ~sel]
  if v.size == 0:
    return 0.0
  return float('inf') if not np.isfinite(v).all() else float(np.abs(v).max())


# --------------------------------------------------------------------------
# (a) the named hypotheses on the real Grid operators


def _hypotheses(ctx, E):
  rng, jnp = ctx.rng, E.jnp
  table = [(5, 'quadratic', 'real', None), (8, 'quadratic', 'fast', None), (7, 'linear', 'real', None),
           (6, 'cubic', 'fast', None)]
  # PADDED layouts (review 2, N3): base_shape_multiple pads the modal (m and l) and nodal shapes; Mk = mask + first padding
  # column (`_mk`), S = mask below the clipped wavenumber (`_keep`).  (5, 4): l axis padded by 2, nodal shape unpadded;
  # (6, 5, cubic): l axis padded by 3, latitudes padded by 2; (4, 3): l axis padded by 1, both nodal axes padded
  table += [PADDED_TABLE[ctx.seed % 3]] if ctx.quick else PADDED_TABLE      # quick: one of the first three, by rotation
  if not ctx.quick:
    table += [(10, 'quadratic', 'real', None), (10, 'linear', 'fast', None), (21, 'quadratic', 'real', None),
              (21, 'quadratic', 'fast', None), (4, 'quadratic', 'real', None), (12, 'cubic', 'real', None)]
  worst = {}       # hypothesis -> (violation, grid, exact, tol)
  grids_of = {}    # hypothesis -> the grids it was evaluated on

  def rec(h, val, gname, inp, exact=True, tol=0.0):
    ok = (val == 0.0) if exact else (val <= tol)
    if h not in worst or val > worst[h][0]:
      worst[h] = (val, gname, exact, tol)
    grids_of.setdefault(h, set()).add(gname)
    ctx.case((h, gname, ctx.seed, ctx.evaluations), nontrivial=True)
    ctx.expect(ok, f'hyp:{h}', f'closure hypothesis {h} fails on the real Grid ({gname}): violation {val:.3e}',
               dict(inp, hypothesis=h, violation=val))
    return ok

  for (M, deal, impl, base) in table:
    grid = E.grid(M, deal, impl, radius=float(rng.choice([1.0, 1.7])), base=base)
    gname = _gname(M, deal, impl, base)
    ms, ns, mask, keep = grid.modal_shape, grid.nodal_shape, np.array(grid.mask, dtype=bool), _keep(grid)
    mkset = _mk(grid)                       # Mk; = mask unless the l axis is padded
    real_nodes = tuple(slice(0, s - p) for s, p in zip(ns, grid.nodal_padding))
    if base is not None:
      # a padded entry of the table must really be one (otherwise it validates nothing new), and S <= mask <= Mk, Mk != mask
      ctx.expect(grid.modal_padding[-1] > 0 and bool((mkset & ~mask).any()) and not bool((keep & ~mask).any()),
                 'hyp:padded-layout', f'{gname} is not a layout with a padded total-wavenumber axis',
                 dict(grid=gname, modal_padding=list(grid.modal_padding)))
      ctx.dist[f'hyp-padded-l-axis-by={grid.modal_padding[-1]} nodal-padding={tuple(grid.nodal_padding)}'] += 1
    ctx.dist[f'hyp-grid={gname}'] += 1
    inp0 = dict(grid=gname, modal_shape=list(ms), nodal_shape=list(ns), radius=grid.radius, seed=ctx.seed,
                modal_padding=list(grid.modal_padding), nodal_padding=list(grid.nodal_padding),
                Mk='mask' if base is None else 'mask + first padding column of the l axis')
    ops = dict(d_dlon=grid.d_dlon, sec_lat_d_dlat_cos2=grid.sec_lat_d_dlat_cos2, laplacian=grid.laplacian)
    J = jnp.asarray
    for draw in range(ctx.n(4, 8)):
      n = int(rng.integers(1, 4))
      amp = float(10 ** rng.uniform(-3, 3))
      inp = dict(inp0, draw=draw, layers=n, amplitude=amp)
      any_x = rng.standard_normal((n,) + ms) * amp            # arbitrary: unmasked, unclipped, garbage on the padding
      mk_x = any_x * mkset
      s_x = any_x * keep
      z = rng.standard_normal((n,) + ns) * amp                # garbage on the nodal padding as well
      with ctx.impl('hyp:raises', inp):
        # OpsClosed (to_modal lands in the mask itself, a subset of Mk)
        rec('OpsClosed.toModal_mem', _off(grid.to_modal(J(z)), mask), gname, inp)
        for name, f in ops.items():
          h = dict(d_dlon='dDlon', sec_lat_d_dlat_cos2='secLat', laplacian='laplacian')[name]
          rec(f'OpsClosed.{h}_mem', _off(f(J(mk_x)), mkset), gname, inp)
          # Mean0: for EVERY input (also unmasked garbage) the (0,0) coefficient of the result is exactly zero
          rec(f'Mean0.{h}_mem', float(np.abs(np.asarray(f(J(any_x)))[..., 0, 0]).max()), gname, inp)
        rec('OpsClosed.clip_mem', _off(grid.clip_wavenumbers(J(mk_x)), keep), gname, inp)
        if base is not None:
          # why Mk is not the mask here: the raw latitude derivative of a MASKED field leaves the mask, and only through the
          # first padding column (DOMAIN: with Mk = mask the hypothesis OpsClosed.secLat_mem is false on these layouts)
          y = np.asarray(grid.sec_lat_d_dlat_cos2(J(any_x * mask)))
          ctx.dist['hyp-padded: secLat(masked) leaves the mask'] += int(_off(y, mask) > 0)
          rec('padded: secLat of a masked field stays in Mk = mask + first padding column', _off(y, mkset), gname, inp)
          # N = the nodal values on the real nodes: to_modal does not see the nodal padding
          zc = np.zeros_like(z)
          zc[(Ellipsis,) + real_nodes] = z[(Ellipsis,) + real_nodes]
          rec('padded: to_modal ignores the nodal padding',
              float(np.abs(np.asarray(grid.to_modal(J(z))) - np.asarray(grid.to_modal(J(zc)))).max()), gname, inp)
          # ... and to_nodal does not see the modal padding (nor anything else outside the mask)
          rec('padded: to_nodal ignores coefficients outside the mask',
              float(np.abs(np.asarray(grid.to_nodal(J(any_x))) - np.asarray(grid.to_nodal(J(any_x * mask))))[
                  (Ellipsis,) + real_nodes].max()) / amp, gname, inp, exact=False, tol=LIN_TOL)
        rec('OpsClosed.laplacian_S', _off(grid.laplacian(J(s_x)), keep), gname, inp)
        a = rng.standard_normal((ms[1], n, n))
        rec('OpsClosed.lproj_S', _off(E.pe._vertical_matvec_per_wavenumber(a, J(s_x)), keep), gname, inp)
        # Mode0 (the (0,0) coefficient sees only total wavenumber 0, whose Laplacian eigenvalue is zero): for ARBITRARY x
        res = np.asarray(E.pe._vertical_matvec_per_wavenumber(a, J(any_x)))
        rec('Mode0.lproj: (0,0) of the per-wavenumber product = (l = 0 matrix)(x_00)',
            _rel(res[:, 0, 0], np.einsum('gh,h->g', a[0], any_x[:, 0, 0])), gname, inp, exact=False, tol=MODE0_TOL)
        rec('Mode0.lapEig_zero', abs(float(np.asarray(grid.laplacian_eigenvalues)[0])), gname, inp)
        # the unit mode `u` of the uniform-tracer theorems: a (0,0)-only field with to_nodal(u) = 1.  (It is to_modal(1), not
        # the 8-digit literal _CONSTANT_NORMALIZATION_FACTOR, which is 1 - 5e-10 times it: a uniform tracer is any multiple)
        unit = np.zeros(ms)
        unit[0, 0] = float(np.asarray(grid.to_modal(jnp.ones(ns)))[0, 0])
        rec('UniformOk.toNodal_unit: to_nodal of the (0,0)-only unit mode = 1',
            float(np.abs(np.asarray(grid.to_nodal(J(unit)))[real_nodes] - 1.0).max()), gname, inp, exact=False, tol=LIN_TOL)
        # UniformOk.lproj_unit_*: a multiple of the unit mode lives in total wavenumber 0 only
        qs = rng.standard_normal(n)
        ru = np.asarray(E.pe._vertical_matvec_per_wavenumber(a, J(qs[:, None, None] * unit)))
        sel00 = np.zeros(ms, dtype=bool)
        sel00[0, 0] = True
        rec('UniformOk.lproj_unit: the per-wavenumber product of unit-mode columns is (0,0)-only', _off(ru, sel00), gname, inp)
        rec('UniformOk.lproj_unit: its (0,0) coefficient is the l = 0 matrix applied to the multiples',
            _rel(ru[:, 0, 0], (a[0] @ qs) * unit[0, 0]), gname, inp, exact=False, tol=MODE0_TOL)
        z0 = any_x.copy()
        z0[..., 0, 0] = 0
        rec('Mean0.clip_mem', float(np.abs(np.asarray(grid.clip_wavenumbers(J(z0)))[..., 0, 0]).max()), gname, inp)
        if ms[1] - grid.modal_padding[-1] >= 2:
          c = np.asarray(grid.clip_wavenumbers(J(any_x)))[..., 0, 0]
          rec('clip fixes the (0,0) coefficient', float(np.abs(c - any_x[..., 0, 0]).max()), gname, inp)
        # derived operators as the theorems use them
        v = (J(mk_x), J(rng.standard_normal((n,) + ms) * amp * mkset))
        for clip in (False, True):
          sel = keep if clip else mkset
          rec(f'div_cos_lat(clip={clip}) closed', _off(grid.div_cos_lat(v, clip=clip), sel), gname, inp)
          rec(f'curl_cos_lat(clip={clip}) closed', _off(grid.curl_cos_lat(v, clip=clip), sel), gname, inp)
          g = (J(any_x), J(rng.standard_normal((n,) + ms) * amp))
          rec(f'div_cos_lat(clip={clip})_00 = 0', float(np.abs(np.asarray(grid.div_cos_lat(g, clip=clip))[..., 0, 0]).max()),
              gname, inp)
          rec(f'curl_cos_lat(clip={clip})_00 = 0',
              float(np.abs(np.asarray(grid.curl_cos_lat(g, clip=clip))[..., 0, 0]).max()), gname, inp)
        # linearity (T11.4)
        al, be = float(rng.uniform(-2, 2)), float(rng.uniform(-2, 2))
        y = rng.standard_normal((n,) + ms) * amp * mkset
        for name, f in dict(ops, clip=grid.clip_wavenumbers).items():
          lhs = np.asarray(f(J(al * mk_x + be * y)))
          rhs = al * np.asarray(f(J(mk_x))) + be * np.asarray(f(J(y)))
          rec(f'IsLinearMap {name}', _rel(lhs, rhs), gname, inp, exact=False, tol=LIN_TOL)
        z2 = rng.standard_normal((n,) + ns) * amp
        rec('IsLinearMap to_modal', _rel(grid.to_modal(J(al * z + be * z2)),
                                         al * np.asarray(grid.to_modal(J(z))) + be * np.asarray(grid.to_modal(J(z2)))),
            gname, inp, exact=False, tol=LIN_TOL)
        # T11.4: clip(div_sec_lat(u, v)) = clip(to_modal(to_nodal(delta))) for (u, v) from (zeta, delta) in S, zero mean
        zeta, delta = s_x.copy(), rng.standard_normal((n,) + ms) * amp * keep
        zeta[..., 0, 0] = 0
        delta[..., 0, 0] = 0
        u, w = E.sh.get_cos_lat_vector(J(zeta), J(delta), grid, clip=False)
        lhs = grid.clip_wavenumbers(E.pe.div_sec_lat(grid.to_nodal(u), grid.to_nodal(w), grid))
        rhs = grid.clip_wavenumbers(grid.to_modal(grid.to_nodal(J(delta))))
        dv = max(_rel(lhs, rhs), _rel(rhs, delta))
        # asserted on every truncation, linear grids included: no product of fields enters (u, v) -> div, so the
        # identity does not depend on the de-aliasing rule (review finding 9)
        rec('div(uv) = delta and roundtrip, after clipping', dv, gname, inp, exact=False, tol=DIVUV_TOL)
        ctx.dist[f'hyp-divuv-{deal}-grid'] += 1
        # filters (state filters of filtering.py): S -> S exactly, l = 0 column and scalar leaves bitwise
        tree = dict(x=J(s_x), t=jnp.asarray(3.25), lsp=J(s_x[:1]))
        att = float(rng.uniform(1, 30))
        for fname, f in (('exponential_filter', E.flt.exponential_filter(grid, att, int(rng.integers(1, 6)),
                                                                        float(rng.choice([0.0, 0.4])))),
                         ('horizontal_diffusion_filter',
                          E.flt.horizontal_diffusion_filter(grid, float(rng.uniform(0.001, 0.1)), int(rng.integers(1, 3))))):
          out = f(tree)
          ox = np.asarray(out['x'])
          rec(f'{fname}: S -> S', max(_off(ox, keep), _off(out['lsp'], keep)), gname, inp)
          rec(f'{fname}: l = 0 column fixed', float(np.abs(ox[..., 0] - s_x[..., 0]).max()), gname, inp)
          rec(f'{fname}: scalar leaf untouched', abs(float(out['t']) - 3.25), gname, inp)

  for h in sorted(worst):
    val, gname, exact, tol = worst[h]
    ok = (val == 0.0) if exact else val <= tol
    npad = sum(1 for g in grids_of[h] if 'padded' in g)
    ctx.obligation(f'hyp:{h} [{"exact" if exact else "to rounding"}, {len(grids_of[h])} real grids, {npad} of them with a '
                   f'padded l axis (Mk = mask + first padding column)]', 'hypothesis', ok,
                   f'worst violation {val:.3e} on {gname}')


def _hyp_equations(ctx, E):
  """T11.1 on the real classes: for ARBITRARY states (unmasked, unclipped) the explicit terms land in S; dry (zeta,
  delta)_00 exactly zero; implicit terms / inverse map S -> S; the clock; the l = 0 block of the inverse."""
  rng, jnp, pe = ctx.rng, E.jnp, E.pe
  worst = {}

  def rec(h, val, inp, exact=True, tol=0.0):
    ok = (val == 0.0) if exact else (val <= tol)
    if h not in worst or val > worst[h][0]:
      worst[h] = (val, inp.get('grid'), exact, tol)
    ctx.case((h, inp.get('config'), ctx.seed), nontrivial=inp.get('layers', 1) >= 2)
    ctx.expect(ok, f'hyp:{h}', f'{h} fails on the real code: violation {val:.3e}', dict(inp, hypothesis=h, violation=val))

  configs = [(5, 'quadratic', 'real', 3, None), (6, 'quadratic', 'fast', 2, None),
             # a PADDED layout (review 2, N3): Mk = mask + first padding column, orography in Mk \ mask
             (5, 'quadratic', 'fast', 2, 4)]
  if not ctx.quick:
    configs += [(8, 'linear', 'real', 4, None), (5, 'cubic', 'fast', 1, None), (10, 'quadratic', 'real', 5, None),
                (6, 'cubic', 'fast', 3, 5), (4, 'quadratic', 'fast', 2, 3)]
  for ci, (M, deal, impl, n, base) in enumerate(configs):
    grid = E.grid(M, deal, impl, base=base)
    gname = _gname(M, deal, impl, base)
    ms, mask, keep, mkset = grid.modal_shape, np.array(grid.mask, dtype=bool), _keep(grid), _mk(grid)
    b, lkind = dinoutil.random_boundaries(rng, n, None if n > 1 else 'equidistant')
    coords = E.cs.CoordinateSystem(horizontal=grid, vertical=E.sc.SigmaCoordinates(b))
    specs = E.specs(rng)
    tref = np.full(n, 250.0) if rng.random() < 0.3 else rng.uniform(200.0, 300.0, n)
    oro = np.asarray(grid.to_modal(jnp.asarray(rng.uniform(0, 0.05, grid.nodal_shape))))
    if base is not None:
      # the theorems ask `orography in Mk`, not `in the mask`: put values on the first padding column too
      oro = oro + rng.uniform(0, 0.05, ms) * (mkset & ~mask)
      ctx.dist[f'hyp-eq-padded-grid={gname}'] += 1
    inp0 = dict(config=ci, grid=gname, layers=n, boundaries=b.tolist(), tref=tref.tolist(), seed=ctx.seed,
                orography='in Mk' + ('' if base is None else ' (mask + first padding column), non-zero on that column'))
    J = jnp.asarray

    def draw(sel, amp=1.0):
      g = lambda k, a: J(rng.standard_normal((k,) + ms) * a * amp * sel)
      tr = {D.Q_KEY: g(n, 1e-3), D.QL_KEY: g(n, 1e-5), D.QI_KEY: g(n, 1e-5), 'x': g(n, 1.0)}
      return dict(vorticity=g(n, 0.3), divergence=g(n, 0.05), temperature_variation=g(n, 2.0),
                  log_surface_pressure=g(1, 0.01), tracers=tr)

    for cls in CLASSES:
      eq = E.CL[cls](tref, J(oro), coords, specs)
      mk = (lambda kw: pe.State(**kw)) if cls == 'dry' else (lambda kw: pe.StateWithTime(sim_time=1.5, **kw))
      for kind, sel in ((('arbitrary', np.ones(ms, dtype=bool)), ('masked', mask)) +
                        ((('Mk', mkset),) if base is not None else ()) + (('S', keep),)):
        inp = dict(inp0, cls=cls, state=kind)
        with ctx.impl('hyp:raises', inp):
          s = mk(draw(sel))
          f = eq.explicit_terms(s)
          leaves = [f.vorticity, f.divergence, f.temperature_variation, f.log_surface_pressure] + list(f.tracers.values())
          rec(f'explicit_terms[{cls}] lands in S for every state', max(_off(x, keep) for x in leaves), inp)
          z00 = float(np.abs(np.asarray(f.vorticity)[..., 0, 0]).max())
          d00 = float(np.abs(np.asarray(f.divergence)[..., 0, 0]).max())
          if cls in ('dry', 'time'):
            rec(f'explicit_terms[{cls}] (zeta,delta)_00 = 0 exactly', max(z00, d00), inp)
          elif kind == 'S':
            sc = max(float(np.abs(np.asarray(f.vorticity)).max()), float(np.abs(np.asarray(f.divergence)).max()), 1e-30)
            rec(f'explicit_terms[{cls}] (zeta,delta)_00 = 0 to rounding', max(z00, d00) / sc, inp, exact=False,
                tol=MOIST00_TOL)
          if cls != 'dry':
            rec(f'explicit_terms[{cls}].sim_time = 1', abs(float(f.sim_time) - 1.0), inp)
          if kind != 'S':
            continue
          g = eq.implicit_terms(s)
          leaves = [g.vorticity, g.divergence, g.temperature_variation, g.log_surface_pressure] + list(g.tracers.values())
          rec('implicit_terms maps S -> S', max(_off(x, keep) for x in leaves), inp)
          rec('implicit_terms (zeta,delta)_00 = 0 exactly',
              max(float(np.abs(np.asarray(g.vorticity)[..., 0, 0]).max()),
                  float(np.abs(np.asarray(g.divergence)[..., 0, 0]).max())), inp)
          if cls != 'dry':
            rec('implicit_terms.sim_time = 0', abs(float(g.sim_time)), inp)
          eta = float(rng.choice([-1, 1]) * 10 ** rng.uniform(-3, 1))
          for method in (('split', 'stacked', 'blockwise') if cls == 'dry' else ('split',)):
            r = eq.implicit_inverse(s, eta, method) if cls == 'dry' else eq.implicit_inverse(s, eta)
            leaves = [r.vorticity, r.divergence, r.temperature_variation, r.log_surface_pressure] + list(r.tracers.values())
            rec(f'implicit_inverse[{method}] maps S -> S', max(_off(x, keep) for x in leaves), dict(inp, eta=eta))
            same = (np.array_equal(np.asarray(r.vorticity), np.asarray(s.vorticity)) and
                    all(np.array_equal(np.asarray(r.tracers[k]), np.asarray(s.tracers[k])) for k in s.tracers))
            rec(f'implicit_inverse[{method}] passes vorticity and tracers through', 0.0 if same else 1.0, dict(inp, eta=eta))
            if cls != 'dry':
              rec('implicit_inverse passes sim_time through', abs(float(r.sim_time) - 1.5), dict(inp, eta=eta))
            sc = max(float(np.abs(np.asarray(x)).max()) for x in (s.divergence, s.temperature_variation,
                                                                  s.log_surface_pressure))
            d = float(np.abs(np.asarray(r.divergence)[..., 0, 0] - np.asarray(s.divergence)[..., 0, 0]).max()) / sc
            rec(f'implicit_inverse[{method}] passes delta_00 through (to rounding)', d, dict(inp, eta=eta), exact=False,
                tol=100 * INV00_TOL)
          # the l = 0 block of the numerically inverted matrix: divergence rows = [I 0 0]
          m = pe._get_implicit_term_matrix(eta, coords, tref, specs.kappa, specs.R)
          top = np.linalg.inv(m)[0][:n, :]
          want = np.concatenate([np.eye(n), np.zeros((n, n + 1))], axis=1)
          rec('l = 0 divergence rows of inv(implicit matrix) = [I 0 0]', float(np.abs(top - want).max()),
              dict(inp, eta=eta), exact=False, tol=INV00_TOL)
          ctx.dist['inv00-' + ('exact' if (top == want).all() else 'rounded')] += 1
          # Inv0Ok, the contract of pe_respects_mean00 on numpy.linalg.inv at total wavenumber 0: size and right inverse
          m0, inv0 = np.asarray(m)[0], np.linalg.inv(m)[0]
          rec('Inv0Ok: inv(implicit matrix)[l = 0] is (2n+1) x (2n+1)', 0.0 if inv0.shape == (2 * n + 1, 2 * n + 1) else 1.0,
              dict(inp, eta=eta))
          rec('Inv0Ok: M[0] inv(M)[0] = I (to rounding)',
              float(np.abs(m0 @ inv0 - np.eye(2 * n + 1)).max() / max(1.0, np.abs(m0).max())), dict(inp, eta=eta), exact=False,
              tol=INV00_TOL)
  for h in sorted(worst):
    val, gname, exact, tol = worst[h]
    ctx.obligation(f'hyp:{h} [{"exact" if exact else "to rounding"}]', 'hypothesis', (val == 0.0) if exact else val <= tol,
                   f'worst violation {val:.3e} on {gname}')


# --------------------------------------------------------------------------
# (b) correspondence


def _ls_adv_exact(al, be, ga):
  """independent implementation: the low-storage loop on the clock problem F = 1, G = 0, G_inv = id, dt = 1"""
  h, u = Fraction(0), Fraction(0)
  if not (len(al) - 1 == len(be) == len(ga)):
    return None
  for k in range(len(be)):
    h = 1 + be[k] * h
    u = u + ga[k] * h
  return u


def _clock_equation(E):
  """the scalar clock problem as an ImplicitExplicitODE of the real code"""
  jnp = E.jnp
  return E.ti.ImplicitExplicitODE.from_functions(lambda x: jnp.ones_like(x), lambda x: jnp.zeros_like(x),
                                                 lambda x, eta: x)


def _corr_clock(ctx, E, cap):
  rng, jnp, ti = ctx.rng, E.jnp, E.ti
  lines, checks = [], []
  eqn = _clock_equation(E)
  u0 = jnp.asarray(0.0)
  # the named schemes: exact (intended rationals and float tables) + the real integrator on the clock problem
  for name in ('crank_nicolson_rk3', 'crank_nicolson_rk4'):
    t = cap.get(name)
    if not t:
      continue
    fl = [[Fraction(x) for x in t[k]] for k in ('alphas', 'betas', 'gammas')]
    lines.append(f'inv Q lsadv {qvec(fl[0])} {qvec(fl[1])} {qvec(fl[2])}')
    checks.append(('exact', f'lsrkAdv[{name}, float table]', dict(scheme=name), _ls_adv_exact(*fl)))
    real = float(getattr(ti, name)(eqn, 1.0)(u0))
    lines.append(f'inv F lsadv {fvec(t["alphas"])} {fvec(t["betas"])} {fvec(t["gammas"])}')
    checks.append(('float', f'lsrkAdv[{name}] vs the real step on the clock problem', dict(scheme=name), real))
  t = cap.get('imex_rk_sil3')
  if t:
    real = float(ti.imex_rk_sil3(eqn, 1.0)(u0))
    lines.append(f'inv F tabadv {fmat(t["a_ex"])} {fmat(t["a_im"])} {fvec(t["b_ex"])} {fvec(t["b_im"])}')
    checks.append(('float+stages', 'tabAdv[imex_rk_sil3] vs the real step on the clock problem', dict(scheme='sil3'),
                   (real, len(t['b_ex']))))
    ex = sum(Fraction(x) for x in t['b_ex'] if x)
    lines.append(f'inv Q tabadv {qmat([[Fraction(x) for x in r] for r in t["a_ex"]])} '
                 f'{qmat([[Fraction(x) for x in r] for r in t["a_im"]])} {qvec([Fraction(x) for x in t["b_ex"]])} '
                 f'{qvec([Fraction(x) for x in t["b_im"]])}')
    checks.append(('exact+stages', 'tabAdv[imex_rk_sil3, float table]', dict(scheme='sil3'), (ex, len(t['b_ex']))))
  # random coefficient lists of consistent lengths
  for i in range(ctx.n(12, 60)):
    s = int(rng.integers(1, 6))
    q = lambda: Fraction(int(rng.integers(-8, 9)), int(rng.choice([1, 2, 3, 4, 8])))
    al, be, ga = [q() for _ in range(s + 1)], [Fraction(0)] + [q() for _ in range(s - 1)], [q() for _ in range(s)]
    inp = dict(alphas=qvec(al), betas=qvec(be), gammas=qvec(ga))
    lines.append(f'inv Q lsadv {qvec(al)} {qvec(be)} {qvec(ga)}')
    checks.append(('exact', 'lsrkAdv[random]', inp, _ls_adv_exact(al, be, ga)))
    step = ti.low_storage_runge_kutta_crank_nicolson([float(x) for x in al], [float(x) for x in be],
                                                     [float(x) for x in ga], eqn, 1.0)
    lines.append(f'inv F lsadv {fvec(map(float, al))} {fvec(map(float, be))} {fvec(map(float, ga))}')
    checks.append(('float', 'lsrkAdv[random] vs the real step on the clock problem', inp, float(step(u0))))
    ctx.dist[f'clock-ls-stages={s}'] += 1
  for i in range(ctx.n(8, 40)):
    s = int(rng.integers(1, 5))
    q = lambda: Fraction(int(rng.integers(-4, 5)), int(rng.choice([1, 2, 3, 4])))   # zeros included (falsy weights)
    a_ex = [[q() for _ in range(r + 1)] for r in range(s - 1)]
    a_im = [[q() for _ in range(r + 2)] for r in range(s - 1)]
    b_ex, b_im = [q() for _ in range(s)], [q() for _ in range(s)]
    inp = dict(a_ex=qmat(a_ex) if a_ex else '_', b_ex=qvec(b_ex))
    tab = ti.ImExButcherTableau([[float(x) for x in r] for r in a_ex], [[float(x) for x in r] for r in a_im],
                                [float(x) for x in b_ex], [float(x) for x in b_im])
    real = float(jnp.asarray(0.0) + ti.imex_runge_kutta(tab, eqn, 1.0)(u0))
    lines.append(f'inv F tabadv {fmat(tab.a_ex)} {fmat(tab.a_im)} {fvec(tab.b_ex)} {fvec(tab.b_im)}')
    checks.append(('float+stages', 'tabAdv[random] vs the real step on the clock problem', inp, (real, s)))
    lines.append(f'inv Q tabadv {qmat(a_ex)} {qmat(a_im)} {qvec(b_ex)} {qvec(b_im)}')
    checks.append(('exact+stages', 'tabAdv[random]', inp, (sum(x for x in b_ex if x), s)))
    ctx.dist[f'clock-tab-stages={s}'] += 1
  # sentinel on the real code: every named integrator advances the clock problem by exactly one dt (to 1e-12)
  for name, mk in E.INT.items():
    for dt in (1.0, 0.01, float(rng.uniform(1e-3, 10.0))):
      inp = dict(integrator=name, dt=dt, problem='du/dt = 1 (explicit), 0 (implicit), G_inv = id')
      with ctx.impl(f'probe:clock:{name}:raises', inp):
        t0 = float(rng.uniform(-5, 50))
        t1 = float(mk(eqn, dt)(jnp.asarray(t0)))
        ctx.case(('clock', name, dt, ctx.seed), nontrivial=True)
        ctx.expect(abs(t1 - (t0 + dt)) <= TIME_TOL * (abs(t0) + abs(dt)), f'probe:clock:{name}',
                   f'one step of {name} advances a clock from {t0!r} to {t1!r}, expected {t0 + dt!r}', inp)
  for dt in (1.0, 0.01):
    for alpha in (0.5, 1.0):
      inp = dict(integrator='leapfrog', dt=dt, alpha=alpha)
      with ctx.impl('probe:clock:leapfrog:raises', inp):
        t0 = float(rng.uniform(-5, 50))
        cur, fut = ti.semi_implicit_leapfrog(eqn, dt, alpha)((jnp.asarray(t0 - dt), jnp.asarray(t0)))
        ctx.case(('clock', 'leapfrog', dt, alpha, ctx.seed), nontrivial=True)
        ctx.expect(float(cur) == t0 and abs(float(fut) - (t0 + dt)) <= TIME_TOL * (abs(t0) + abs(dt)),
                   'probe:clock:leapfrog', f'leapfrog maps clocks ({t0 - dt!r}, {t0!r}) to ({float(cur)!r}, {float(fut)!r})',
                   inp)
  outs = ctx.model(lines)
  for (kind, op, inp, impl), o in zip(checks, outs):
    ctx.case((op, repr(inp), ctx.seed), nontrivial=True, sample=dict(op=op, **inp) if len(ctx.samples) < 3 else None)
    if kind == 'exact':
      ctx.corr_exact(op, inp, common.qstr(impl), o)
    elif kind == 'float':
      ctx.corr_float(op, inp, [impl], [unfbits(o)] if o.isdigit() else [float('nan')], rtol=1e-12)
    else:
      parts = o.split(' ')
      if len(parts) != 2:
        ctx.corr_mismatch(op, inp, impl, o, 'malformed response')
        continue
      ctx.corr_exact(op + '[stages]', inp, impl[1], int(parts[1]))
      if kind == 'exact+stages':
        ctx.corr_exact(op, inp, common.qstr(impl[0]), parts[0])
      else:
        ctx.corr_float(op, inp, [impl[0]], [unfbits(parts[0])], rtol=1e-12)


def _corr_check(ctx, E):
  """the structural predicate `zeroOff` / `coef00` against an independent numpy evaluation"""
  rng = ctx.rng
  grid = E.grid(4)
  keep = _keep(grid).ravel()
  kb = ''.join('1' if k else '0' for k in keep)
  lines, checks = [], []
  for i in range(ctx.n(24, 120)):
    kind = ['member', 'member', 'one-violation', 'tiny-violation', 'negative-zero', 'nan', 'short', 'empty'][i % 8]
    x = rng.standard_normal(keep.size) * keep
    if kind == 'one-violation':
      x[int(rng.choice(np.flatnonzero(~keep)))] = float(rng.standard_normal())
    elif kind == 'tiny-violation':
      x[int(rng.choice(np.flatnonzero(~keep)))] = 5e-324
    elif kind == 'negative-zero':
      x[~keep] = -0.0
    elif kind == 'nan':
      x[int(rng.choice(np.flatnonzero(~keep)))] = float('nan')
    elif kind == 'short':
      x = x[:-1]
    elif kind == 'empty':
      x = x[:0]
    ok = x.size == keep.size and bool((x[~keep] == 0).all())
    c00 = float(x[0]) if x.size else 0.0
    lines.append(f'inv F check {kb} {fvec(x)}')
    checks.append((dict(kind=kind, size=int(x.size)), ok, c00))
    ctx.dist[f'check-{kind}'] += 1
  for (inp, ok, c00), o in zip(checks, ctx.model(lines)):
    ctx.case(('check', repr(inp), ctx.evaluations), nontrivial=inp['kind'] != 'empty')
    parts = o.split(' ')
    ctx.corr_exact('zeroOff', inp, '1' if ok else '0', parts[0])
    if len(parts) == 2:
      ctx.corr_exact('coef00', inp, fbits(c00), parts[1])
    else:
      ctx.corr_mismatch('coef00', inp, c00, o, 'malformed response')


def _etas(name, dt, cap, alpha=0.5):
  """the step sizes at which the integrator calls implicit_inverse"""
  if name == 'bfe':
    return [dt]
  if name == 'cnrk2':
    return [0.5 * dt]
  if name == 'leapfrog':
    return [2 * dt * alpha]
  if name in ('rk3', 'rk4'):
    t = cap['crank_nicolson_' + name]
    return [0.5 * dt * (t['alphas'][k + 1] - t['alphas'][k]) for k in range(len(t['betas']))]
  t = cap['imex_rk_sil3']
  return [dt * t['a_im'][i - 1][i] for i in range(1, len(t['b_ex']))]


def _scheme_token(name, cap):
  if name in ('bfe', 'cnrk2'):
    return name
  if name in ('rk3', 'rk4'):
    t = cap['crank_nicolson_' + name]
    return f'ls:{fvec(t["alphas"])}:{fvec(t["betas"])}:{fvec(t["gammas"])}'
  t = cap['imex_rk_sil3']
  return f'tab:{fmat(t["a_ex"])}:{fmat(t["a_im"])}:{fvec(t["b_ex"])}:{fvec(t["b_im"])}'


def _inv_table(E, etas, coords, tref, specs):
  ents = []
  for eta in sorted(set(etas)):
    m = E.pe._get_implicit_term_matrix(eta, coords, tref, specs.kappa, specs.R)
    ents.append(fbits(eta) + '@' + '/'.join(fmat(a) for a in np.linalg.inv(m)))
  return '&'.join(ents)


def _filters(E, grid, dt, stack, leapfrog, params):
  """(real step filters, model token) for a filter stack"""
  ti = E.ti
  out, toks = [], []
  for f in stack:
    if f == 'exp':
      tau, order, cutoff = params['exp']
      mk = ti.exponential_leapfrog_step_filter if leapfrog else ti.exponential_step_filter
      out.append(mk(grid, dt, tau, order, cutoff))
      toks.append(f'exp:{fbits(tau)}:{order}:{fbits(cutoff)}')
    elif f == 'diff':
      tau, order = params['diff']
      if leapfrog:
        eig = grid.laplacian_eigenvalues
        scale = dt / (tau * np.abs(eig).max() ** order)
        out.append(ti.leapfrog_step_filter(E.flt.horizontal_diffusion_filter(grid, scale, order)))
      else:
        out.append(ti.horizontal_diffusion_step_filter(grid, dt, tau, order))
      toks.append(f'diff:{fbits(tau)}:{order}')
    elif f == 'ra':
      out.append(ti.robert_asselin_leapfrog_filter(params['ra']))
      toks.append(f'ra:{fbits(params["ra"])}')
  return out, ('+'.join(toks) if toks else '_')


def _filter_params(rng):
  return dict(exp=(float(rng.uniform(0.02, 0.2)), int(rng.integers(1, 5)), float(rng.choice([0.0, 0.3]))),
              diff=(float(rng.uniform(0.05, 0.5)), int(rng.integers(1, 3))), ra=float(rng.uniform(0.01, 0.1)))


def _pe_setup(ctx, E, grid, n, cls, admissible, uniform, amp=1.0, lkind=None):
  """equation object + an initial state in S (random orography, uneven layers)"""
  rng, jnp, pe = ctx.rng, E.jnp, E.pe
  b, lk = dinoutil.random_boundaries(rng, n, lkind or ('uneven' if n > 1 else 'equidistant'))
  coords = E.cs.CoordinateSystem(horizontal=grid, vertical=E.sc.SigmaCoordinates(b))
  specs = E.specs(rng, grid.radius)
  tref = np.full(n, 250.0) if rng.random() < 0.3 else np.sort(rng.uniform(200.0, 300.0, n))
  keep = _keep(grid)
  ms = grid.modal_shape
  raw_oro = bool(rng.random() < 0.5)   # see _sw_setup: untruncated orography is admissible
  oro = grid.to_modal(jnp.asarray(rng.uniform(0, 0.02, grid.nodal_shape)))
  oro = np.asarray(oro if raw_oro else grid.clip_wavenumbers(oro))
  l = np.arange(ms[1])

  def rm(k, a):
    return rng.standard_normal((k,) + ms) * keep * a * amp / (1.0 + l) ** 1.5

  z, d = rm(n, 0.3), rm(n, 0.05)
  if admissible:
    z[:, 0, 0] = 0
    d[:, 0, 0] = 0
  tr = {}
  if cls in ('moist', 'cloud'):
    q = rm(n, 1e-3)
    q[:, 0, 0] += 0.03
    tr[D.Q_KEY] = q
  if cls == 'cloud':
    tr[D.QL_KEY], tr[D.QI_KEY] = rm(n, 1e-5), rm(n, 1e-5)
  if uniform is not None:
    u = np.zeros((n,) + ms)
    u[:, 0, 0] = uniform * pe._CONSTANT_NORMALIZATION_FACTOR
    tr['uniform'] = u
  if rng.random() < 0.5:
    tr['x'] = rm(n, 1.0)
  kw = dict(vorticity=z, divergence=d, temperature_variation=rm(n, 1.0), log_surface_pressure=rm(1, 0.01), tracers=tr)
  eq = E.CL[cls](tref, jnp.asarray(oro), coords, specs)
  info = dict(cls=cls, layers=n, levels=lk, boundaries=b.tolist(), tref=tref.tolist(), R=specs.R, g=specs.g,
              kappa=specs.kappa, omega=specs.angular_velocity, admissible=admissible, uniform_tracer=uniform,
              tracers=sorted(tr), orography='raw' if raw_oro else 'clipped')
  return eq, coords, specs, tref, oro, kw, info


def _mk_state(E, cls, kw, t):
  J = E.jnp.asarray
  d = dict(vorticity=J(kw['vorticity']), divergence=J(kw['divergence']),
           temperature_variation=J(kw['temperature_variation']), log_surface_pressure=J(kw['log_surface_pressure']),
           tracers={k: J(v) for k, v in kw['tracers'].items()})
  return E.pe.State(**d) if cls == 'dry' else E.pe.StateWithTime(sim_time=t, **d)


def _parse_reports(s):
  out = []
  for r in s.split(';'):
    p = r.split('@')
    if len(p) != 4:
      return None
    out.append(dict(ok=p[0], t=unfbits(p[1]), z00=unfvec(p[2]), d00=unfvec(p[3])))
  return out


def _corr_traj(ctx, E, cap):
  """model trajectories (Imex integrator o Dynamics class o Filters) against the real step_with_filters"""
  rng, ti = ctx.rng, E.ti
  k = 3
  rot = ctx.seed % 5
  plan = [(cls, ONE_STATE[(i + rot) % 5]) for i, cls in enumerate(CLASSES)]
  plan.append((CLASSES[(1 + ctx.seed) % 4], 'leapfrog'))
  if not ctx.quick:
    plan += [(cls, name) for cls in CLASSES for name in ONE_STATE + ('leapfrog',) if (cls, name) not in plan]
  grid = E.grid(4)
  keep = _keep(grid)
  kb = ''.join('1' if x else '0' for x in keep.ravel())
  ms = grid.modal_shape
  ls = grid.modal_axes[1]
  for ci, (cls, name) in enumerate(plan):
    if any(key not in cap for key in ('crank_nicolson_rk3', 'crank_nicolson_rk4', 'imex_rk_sil3')):
      break
    n = int(rng.integers(2, 4))
    eq, coords, specs, tref, oro, kw, info = _pe_setup(ctx, E, grid, n, cls, admissible=bool(rng.random() < 0.5),
                                                        uniform=None)
    dt = float(rng.choice([0.01, 0.02, 1 / 64]))
    t0 = float(rng.uniform(0.5, 9.0))
    params = _filter_params(rng)
    leap = name == 'leapfrog'
    stack = [['exp', 'diff'], ['exp'], ['diff'], []][int(rng.integers(0, 4))] + (['ra'] if leap else [])
    filters, ftok = _filters(E, grid, dt, stack, leap, params)
    alpha = float(rng.choice([0.5, 0.6, 1.0]))
    inp = dict(info, op='traj', integrator=name, dt=dt, t0=t0, steps=k, filters=ftok, grid='real-quadratic4', seed=ctx.seed,
               alpha=alpha if leap else None)
    cfg = D.DynCfg(grid, coords.vertical, specs, tref, oro, True)
    invs = _inv_table(E, _etas(name, dt, cap, alpha), coords, tref, specs)
    s0 = _mk_state(E, cls, kw, t0)
    head = f'{fbits(dt)} {k} {ftok} {ms[0]},{ms[1]} {fvec(ls)} {kb} {invs}'
    traj = []
    with ctx.impl('corr:traj-raises', inp):
      if leap:
        kw1 = dict(kw)
        for f in ('vorticity', 'divergence', 'temperature_variation', 'log_surface_pressure'):
          kw1[f] = kw[f] * (1 + 0.01 * rng.standard_normal())
        if info['admissible'] is False:
          # keep the conserved (0,0) coefficients equal in both time levels
          for f in ('vorticity', 'divergence'):
            kw1[f][:, 0, 0] = kw[f][:, 0, 0]
        s1 = _mk_state(E, cls, kw1, t0 + dt)
        step = ti.step_with_filters(ti.semi_implicit_leapfrog(eq, dt, alpha), filters)
        u = (s0, s1)
        for _ in range(k):
          u = step(u)
          traj.append(u)
        line = cfg.line('lftraj', cls, fbits(alpha), head, cfg.state(s0, t0), cfg.state(s1, t0 + dt)).replace(
            'dyn F', 'inv F', 1)
      else:
        step = ti.step_with_filters(E.INT[name](eq, dt), filters)
        u = s0
        for _ in range(k):
          u = step(u)
          traj.append(u)
        line = cfg.line('traj', cls, _scheme_token(name, cap), head, cfg.state(s0, t0)).replace('dyn F', 'inv F', 1)
      (o,) = ctx.model([line])
      ctx.case(('traj', cls, name, ftok, ctx.seed, ci), nontrivial=True, sample=inp if ci == 0 else None)
      ctx.dist[f'traj-{cls}-{name}'] += 1
      ctx.dist[f'traj-filters={"+".join(stack) or "none"}'] += 1
      if '#' not in o:
        ctx.corr_mismatch(f'traj[{cls},{name}]', inp, 'k-step trajectory', o[:80], 'model rejected the operation')
        continue
      fin, reps = o.split('#')
      if leap:
        finals = fin.split('!')
        pairs = [r.split('&') for r in reps.split(';')]
        if len(finals) != 2 or any(len(p) != 2 for p in pairs):
          ctx.corr_mismatch(f'traj[{cls},{name}]', inp, 'pair', o[:80], 'malformed response')
          continue
        for j in (0, 1):
          D.compare_struct(ctx, f'leapfrog[{cls}].final[{j}]', inp,
                           D.flat_state(traj[-1][j], None), D.DynCfg.un_state(finals[j]), rtol=TOL,
                           fields=None if cls != 'dry' else ('vorticity', 'divergence', 'temperature_variation',
                                                             'log_surface_pressure', 'tracers'))
        model_reps = _parse_reports(';'.join(p[1] for p in pairs))
        real_states = [u[1] for u in traj]
      else:
        D.compare_struct(ctx, f'{name}[{cls}].final', inp, D.flat_state(traj[-1], None), D.DynCfg.un_state(fin),
                         rtol=TOL, fields=None if cls != 'dry' else ('vorticity', 'divergence', 'temperature_variation',
                                                                     'log_surface_pressure', 'tracers'))
        model_reps = _parse_reports(reps)
        real_states = traj
      if model_reps is None or len(model_reps) != k:
        ctx.corr_mismatch(f'traj[{cls},{name}].reports', inp, k, reps[:80], 'malformed response')
        continue
      for j, (r, s) in enumerate(zip(model_reps, real_states)):
        ctx.corr_exact(f'{name}[{cls}].Inv(model state after step {j + 1})', inp, '1', r['ok'])
        ctx.corr_float(f'{name}[{cls}].zeta_00[{j + 1}]', inp, np.asarray(s.vorticity)[:, 0, 0], r['z00'], rtol=TOL)
        ctx.corr_float(f'{name}[{cls}].delta_00[{j + 1}]', inp, np.asarray(s.divergence)[:, 0, 0], r['d00'], rtol=TOL)
        if cls != 'dry':
          ctx.corr_float(f'{name}[{cls}].sim_time[{j + 1}]', inp, [float(s.sim_time)], [r['t']], rtol=1e-12)


def _sw_setup(ctx, E, grid, n, orography):
  rng, jnp = ctx.rng, E.jnp
  keep = _keep(grid)
  ms = grid.modal_shape
  l = np.arange(ms[1])
  dens = np.sort(rng.uniform(1.0, 2.0, n))
  specs = E.sw.ShallowWaterSpecs(densities=dens, radius=grid.radius, angular_velocity=float(rng.uniform(0.3, 1.0)),
                                 gravity_acceleration=float(rng.uniform(0.5, 2.0)), scale=E.scales.DEFAULT_SCALE)
  coords = E.cs.CoordinateSystem(horizontal=grid, vertical=E.sc.SigmaCoordinates.equidistant(n))
  ref = rng.uniform(0.5, 2.0, n)
  # the orography is user-supplied modal data that the library never requires to be truncated: half of the cases keep
  # the raw transform (energy at the top total wavenumber; still zero outside the mask, the domain of the theorems)
  raw_oro = (orography == 'raw') if isinstance(orography, str) else bool(rng.random() < 0.5)
  oro = None
  if orography:
    oro = grid.to_modal(jnp.asarray(rng.uniform(0, 0.05, grid.nodal_shape)))
    oro = np.asarray(oro if raw_oro else grid.clip_wavenumbers(oro))

  def rm(a):
    return rng.standard_normal((n,) + ms) * keep * a / (1.0 + l) ** 1.5

  z, d, p = rm(0.2), rm(0.05), rm(0.1)
  z[:, 0, 0] = 0
  d[:, 0, 0] = 0
  eq = E.sw.ShallowWaterEquations(coords, specs, None if oro is None else jnp.asarray(oro), ref)
  info = dict(layers=n, densities=dens.tolist(), reference_potential=ref.tolist(),
              orography=('raw' if raw_oro else 'clipped') if orography else None, omega=specs.angular_velocity)
  return eq, coords, specs, ref, oro, (z, d, p), info


def _sw_tokens(eq, oro, ref):
  return ' '.join([fvec(np.asarray(eq.physics_specs.densities)), fbits(eq.physics_specs.angular_velocity),
                   '_' if oro is None else fvec(np.asarray(oro).ravel()), fvec(ref)])


def _sw_state_tok(cfg, s):
  return '|'.join([cfg.col(s.vorticity), cfg.col(s.divergence), cfg.col(s.potential)])


def _sw_un(o):
  z, d, p = o.split('|')
  U = D.DynCfg.un_col
  return dict(vorticity=U(z), divergence=U(d), potential=U(p))


def _sw_flat(s):
  f = lambda x: np.asarray(x).reshape(np.asarray(x).shape[0], -1)
  return dict(vorticity=f(s.vorticity), divergence=f(s.divergence), potential=f(s.potential))


def _corr_sw(ctx, E):
  """the shallow-water equation set Dino.DynamicsSW as the `inv` driver runs it, against shallow_water.py (+ a leapfrog
  trajectory)"""
  rng, jnp, ti = ctx.rng, E.jnp, E.ti
  grid = E.grid(4)
  keep = _keep(grid)
  kb = ''.join('1' if x else '0' for x in keep.ravel())
  ms = grid.modal_shape
  dummy_specs = E.pe.PrimitiveEquationsSpecs.from_si()
  for ci in range(ctx.n(2, 6)):
    n = int(rng.integers(1, 4))
    eq, coords, specs, ref, oro, (z, d, p), info = _sw_setup(ctx, E, grid, n, orography=['raw', None, 'clipped'][ci % 3])
    cfg = D.DynCfg(grid, coords.vertical, dummy_specs, np.ones(n), np.zeros(ms), True)
    swt = _sw_tokens(eq, oro, ref)
    # single operations on arbitrary (unclipped) states
    any_state = E.sw.State(*(jnp.asarray(rng.standard_normal((n,) + ms) * grid.mask * a) for a in (0.3, 0.1, 0.2)))
    eta = float(rng.choice([-1, 1]) * 10 ** rng.uniform(-2, 0.5))
    inp = dict(info, config=ci, eta=eta, grid='real-quadratic4', seed=ctx.seed)
    lines = [f'inv F swexplicit {cfg.tokens} {swt} {_sw_state_tok(cfg, any_state)}',
             f'inv F swimplicit {cfg.tokens} {swt} {_sw_state_tok(cfg, any_state)}',
             f'inv F swinverse {cfg.tokens} {swt} {fbits(eta)} {_sw_state_tok(cfg, any_state)}']
    with ctx.impl('corr:sw-raises', inp):
      impls = [eq.explicit_terms(any_state), eq.implicit_terms(any_state), eq.implicit_inverse(any_state, eta)]
      # sentinel (T11.1 on the real code): on an ADMISSIBLE state (in S) and any orography inside the mask, truncated or
      # not, every explicit / implicit tendency and the implicit inverse lie in S: exact zeros off `keep`
      adm = E.sw.State(jnp.asarray(z), jnp.asarray(d), jnp.asarray(p))
      for opn, res in (('explicit_terms', eq.explicit_terms(adm)), ('implicit_terms', eq.implicit_terms(adm)),
                       ('implicit_inverse', eq.implicit_inverse(adm, eta))):
        worst = max(_off(v, keep) for v in _np_leaves(res).values())
        ctx.expect(worst == 0.0, f'sw-terms-in-S:{opn}', f'ShallowWaterEquations.{opn} of an admissible state has a non-zero '
                   f'coefficient outside the mask / at the clipped wavenumber: max |c| = {worst:.3e}',
                   dict(inp, vorticity=z.tolist(), divergence=d.tolist(), potential=p.tolist(),
                        orography_modal=None if oro is None else oro.tolist()))
      # a leapfrog trajectory with the default filter stack
      dt, alpha, k = float(rng.choice([0.01, 0.02])), float(rng.choice([0.5, 0.7])), 3
      params = _filter_params(rng)
      stack = ['exp', 'ra'] if ci % 2 == 0 else ['ra', 'diff']
      filters, ftok = _filters(E, grid, dt, stack, True, params)
      J = jnp.asarray
      s0 = E.sw.State(J(z), J(d), J(p))
      s1 = E.sw.State(J(z * 1.01), J(d * 0.99), J(p * 1.01))
      step = ti.step_with_filters(ti.semi_implicit_leapfrog(eq, dt, alpha), filters)
      u, traj = (s0, s1), []
      for _ in range(k):
        u = step(u)
        traj.append(u)
      lines.append(f'inv F swtraj {cfg.tokens} {swt} {fbits(alpha)} {fbits(dt)} {k} {ftok} {ms[0]},{ms[1]} '
                   f'{fvec(grid.modal_axes[1])} {kb} {_sw_state_tok(cfg, s0)} {_sw_state_tok(cfg, s1)}')
      outs = ctx.model(lines)
      for op, impl, o in zip(('explicit_terms', 'implicit_terms', 'implicit_inverse'), impls, outs):
        ctx.case(('sw', op, ci, ctx.seed), nontrivial=n >= 2, sample=dict(inp, op=op) if ci == 0 else None)
        if '|' not in o:
          ctx.corr_mismatch(f'ShallowWaterEquations.{op}', inp, 'state', o[:60], 'model rejected the operation')
          continue
        for fld, v in _sw_flat(impl).items():
          ctx.corr_float(f'ShallowWaterEquations.{op}.{fld}', inp, v, _sw_un(o)[fld], rtol=TOL)
      o = outs[3]
      inp2 = dict(inp, op='swtraj', dt=dt, alpha=alpha, filters=ftok)
      ctx.case(('swtraj', ci, ctx.seed), nontrivial=True)
      ctx.dist[f'swtraj-filters={"+".join(stack)}'] += 1
      if '#' not in o:
        ctx.corr_mismatch('shallow-water leapfrog trajectory', inp2, 'pair', o[:60], 'model rejected the operation')
        continue
      fin, reps = o.split('#')
      finals = fin.split('!')
      for j in (0, 1):
        for fld, v in _sw_flat(traj[-1][j]).items():
          ctx.corr_float(f'sw-leapfrog.final[{j}].{fld}', inp2, v, _sw_un(finals[j])[fld], rtol=TOL)
      for j, (r, st) in enumerate(zip(reps.split(';'), traj)):
        cur = r.split('&')[1].split('@')
        ctx.corr_exact(f'sw-leapfrog.Inv(model state after step {j + 1})', inp2, '1', cur[0])
        ctx.corr_float(f'sw-leapfrog.phi_00[{j + 1}]', inp2, np.asarray(st[1].potential)[:, 0, 0], unfvec(cur[3]), rtol=TOL)


# --------------------------------------------------------------------------
# (c) sentinel probes on the real code


def _np_leaves(s):
  out = dict(vorticity=np.asarray(s.vorticity), divergence=np.asarray(s.divergence))
  if hasattr(s, 'temperature_variation'):
    out['temperature_variation'] = np.asarray(s.temperature_variation)
    out['log_surface_pressure'] = np.asarray(s.log_surface_pressure)
    for k_, v in s.tracers.items():
      out['tracers.' + k_] = np.asarray(v)
  else:
    out['potential'] = np.asarray(s.potential)
  return out


def _exact_inverse_rows(E, etas, coords, tref, specs):
  n = coords.vertical.layers
  want = np.concatenate([np.eye(n), np.zeros((n, n + 1))], axis=1)
  for eta in etas:
    m = E.pe._get_implicit_term_matrix(eta, coords, tref, specs.kappa, specs.R)
    if not (np.linalg.inv(m)[0][:n, :] == want).all():
      return False
  return True


def _probe_configs(ctx):
  rng = ctx.rng
  quad = [(M, 'quadratic', impl) for M in (5, 7, 8, 10) for impl in ('real', 'fast')]
  stacks = [['exp'], ['exp', 'diff'], ['diff'], []]
  rot = ctx.seed
  if ctx.quick:
    plan = []
    for i, cls in enumerate(CLASSES):
      plan.append((cls, ONE_STATE[(i + rot) % 5], stacks[(i + rot) % 4]))
    plan.append((CLASSES[rot % 4], ONE_STATE[(4 + rot) % 5], stacks[(rot + 1) % 4]))
    plan.append((CLASSES[(rot + 2) % 4], 'leapfrog', [['exp', 'ra'], ['ra', 'diff'], ['ra']][rot % 3]))
  else:
    plan = [(cls, name, stacks[(i + j + rot) % 4]) for i, cls in enumerate(CLASSES) for j, name in enumerate(ONE_STATE)]
    plan += [(cls, 'leapfrog', st) for cls in CLASSES for st in (['exp', 'ra'], ['ra', 'diff'])]
    plan += [(cls, ONE_STATE[(i + rot) % 5], ['exp', 'diff']) for i, cls in enumerate(CLASSES)]
  out = []
  for i, (cls, name, stack) in enumerate(plan):
    M, deal, impl = quad[int(rng.integers(0, len(quad)))]
    if not ctx.quick and i % 7 == 3:
      M, deal, impl = 21, 'quadratic', ('real', 'fast')[i % 2]
    if not ctx.quick and i % 7 == 5:
      M, deal, impl = int(rng.choice([7, 9])), 'linear', 'real'
    base = None
    # one run of every quick plan (by rotation over the seed), every 6th run of the thorough plan: a PADDED layout
    if (ctx.quick and i == rot % len(plan)) or (not ctx.quick and i % 6 == 1):
      pads = [t for t in PADDED_TABLE if not (ctx.quick and t[1] == 'linear')]
      M, deal, impl, base = pads[(rot + i) % len(pads)]
    out.append(dict(cls=cls, integrator=name, stack=stack, M=M, dealiasing=deal, impl=impl, base=base,
                    layers=int(rng.integers(3, 7)), admissible=bool(i % 2 == 0)))
  return out


def _probes(ctx, E, cap):
  rng, jnp, ti, jax = ctx.rng, E.jnp, E.ti, E.jax
  K = ctx.n(20, 200)
  for ci, c in enumerate(_probe_configs(ctx)):
    cls, name, stack = c['cls'], c['integrator'], c['stack']
    grid = E.grid(c['M'], c['dealiasing'], c['impl'], base=c['base'])
    gname = _gname(c['M'], c['dealiasing'], c['impl'], c['base'])
    keep = _keep(grid)
    leap = name == 'leapfrog'
    uniform = float(rng.uniform(0.2, 3.0)) if c['admissible'] else None
    eq, coords, specs, tref, oro, kw, info = _pe_setup(
        ctx, E, grid, c['layers'], cls, c['admissible'], uniform, amp=float(rng.choice([0.3, 1.0])),
        lkind=str(rng.choice(['uneven', 'uneven', 'refined-bottom', 'equidistant'] +
                             ([] if ctx.quick else ['strongly-uneven']))))
    dt = float(rng.choice([0.005, 0.01, 1 / 128]))
    t0 = float(rng.choice([0.0, rng.uniform(0.5, 50.0)]))
    alpha = float(rng.choice([0.5, 0.6, 1.0]))
    params = _filter_params(rng)
    filters, ftok = _filters(E, grid, dt, stack, leap, params)
    inp = dict(info, config=ci, grid=gname, integrator=name, filters=ftok, dt=dt, t0=t0, alpha=alpha if leap else None,
               seed=ctx.seed, steps=K)
    key = f'probe:{cls}:{name}'
    for k_ in (f'probe-class={cls}', f'probe-integrator={name}', f'probe-filters={"+".join(stack) or "none"}',
               f'probe-grid={gname}', f'probe-layers={c["layers"]}', f'probe-admissible={c["admissible"]}'):
      ctx.dist[k_] += 1
    exact_inv = _exact_inverse_rows(E, _etas(name, dt, cap, alpha) if cap else [dt], coords, tref, specs)
    ctx.dist['probe-inverse-l0-' + ('exact' if exact_inv else 'rounded')] += 1
    with ctx.impl(key + ':raises', inp):
      s0 = _mk_state(E, cls, kw, t0)
      if leap:
        kw1 = dict(kw)
        for f in ('vorticity', 'divergence', 'temperature_variation', 'log_surface_pressure'):
          kw1[f] = kw[f] * (1 + 0.01 * rng.standard_normal())
          if f in ('vorticity', 'divergence'):
            kw1[f][:, 0, 0] = kw[f][:, 0, 0]
        u = (s0, _mk_state(E, cls, kw1, t0 + dt))
        step = jax.jit(ti.step_with_filters(ti.semi_implicit_leapfrog(eq, dt, alpha), filters))
      else:
        u = s0
        step = jax.jit(ti.step_with_filters(E.INT[name](eq, dt), filters))
      init = _np_leaves(s0)
      scale = max(float(np.abs(init[f]).max()) for f in ('divergence', 'temperature_variation', 'log_surface_pressure'))
      zscale = float(np.abs(init['vorticity']).max())
      scale0, zscale0 = scale, zscale
      ra = 'ra' in stack
      dry = cls in ('dry', 'time')
      ctx.dist['probe-runs'] += 1
      ctx.dist['probe-steps-planned'] += K
      for k in range(1, K + 1):
        u = step(u)
        cur = u[1] if leap else u
        tk = t0 + (k + 1) * dt if leap else t0 + k * dt
        lv = _np_leaves(cur)
        if not all(np.isfinite(v).all() for v in lv.values()):
          ctx.notes.append(f'{key} on {gname}: non-finite state at step {k}; run abandoned (counted in probe-coverage)')
          ctx.dist['probe-abandoned-nonfinite'] += 1
          break
        ctx.dist['probe-steps-checked'] += 1
        sinp = dict(inp, step=k)
        ctx.case((key, ci, k, ctx.seed), nontrivial=True, sample=inp if (ci == 0 and k == 1) else None)
        # rounding errors are proportional to the magnitudes the step actually handled: on a growing (numerically
        # unstable: random constants, dt not tuned) trajectory the "to rounding" tolerances follow the running maximum
        # of the field magnitudes, not the initial one (thorough tier, seed 0: delta_00 drift 9e-5 at step 116 of a run
        # that had grown by many orders of magnitude)
        scale = max(scale, max(float(np.abs(lv[f]).max()) for f in ('divergence', 'temperature_variation',
                                                                     'log_surface_pressure')))
        zscale = max(zscale, float(np.abs(lv['vorticity']).max()))
        growth = max(1.0, scale / scale0, zscale / max(zscale0, 1e-300))
        sinp['growth_of_field_magnitude'] = growth
        worst_off = max(_off(v, keep) for v in lv.values())
        ctx.expect(worst_off == 0.0, key + ':mask', f'coefficients outside the mask / at the clipped wavenumber are not '
                   f'exactly zero after step {k}: max |c| = {worst_off:.3e}', sinp)
        dz = float(np.abs(lv['vorticity'][:, 0, 0] - init['vorticity'][:, 0, 0]).max())
        dd = float(np.abs(lv['divergence'][:, 0, 0] - init['divergence'][:, 0, 0]).max())
        if dry and not ra:
          ctx.expect(dz == 0.0, key + ':zeta00', f'zeta_00 changed by {dz:.3e} after step {k} (dry class: exact)', sinp)
        else:
          ctx.expect(dz <= (MOIST00_TOL + DRIFT_TOL * k) * max(zscale, 1e-30), key + ':zeta00',
                     f'zeta_00 changed by {dz:.3e} after step {k} (field scale {zscale:.3e})', sinp)
        if dry and not ra and exact_inv:
          ctx.expect(dd == 0.0, key + ':delta00', f'delta_00 changed by {dd:.3e} after step {k} (dry class, exactly '
                     f'decoupled l = 0 inverse: exact)', sinp)
        else:
          ctx.expect(dd <= (MOIST00_TOL + DRIFT_TOL * k) * scale, key + ':delta00',
                     f'delta_00 changed by {dd:.3e} after step {k} (field scale {scale:.3e})', sinp)
        if cls != 'dry':
          err = abs(float(cur.sim_time) - tk)
          ctx.expect(err <= TIME_TOL * (abs(t0) + (k + 1) * dt), key + ':sim_time',
                     f'sim_time = {float(cur.sim_time)!r} after step {k}, expected t0 + k dt = {tk!r}', sinp)
        if uniform is not None:
          du = float(np.abs(lv['tracers.uniform'] - init['tracers.uniform']).max())
          ctx.expect(du <= TRACER_TOL * growth * abs(uniform) * E.pe._CONSTANT_NORMALIZATION_FACTOR, key + ':uniform-tracer',
                     f'uniform tracer deviates by {du:.3e} after step {k}', sinp)


def _probes_sw(ctx, E):
  rng, jnp, ti, jax = ctx.rng, E.jnp, E.ti, E.jax
  K = ctx.n(20, 200)
  configs = [(int(rng.choice([5, 8, 10])), str(rng.choice(['real', 'fast'])), ['exp', 'ra'], None)]
  if ctx.seed % 2 == 1:
    configs = [(5, 'fast', ['exp', 'ra'], 4)]          # odd seeds: the quick run is on a PADDED layout
  if not ctx.quick:
    configs += [(10, 'real', ['ra'], None), (8, 'fast', ['exp'], None), (21, 'real', ['exp', 'ra'], None),
                (7, 'real', [], None), (6, 'fast', ['exp', 'ra'], 8), (4, 'fast', [], 3)]
  for ci, (M, impl, stack, base) in enumerate(configs):
    grid = E.grid(M, 'quadratic', impl, base=base)
    gname = _gname(M, 'quadratic', impl, base)
    keep = _keep(grid)
    n = int(rng.integers(1, 4))
    eq, coords, specs, ref, oro, (z, d, p), info = _sw_setup(ctx, E, grid, n, orography=['raw', 'clipped', None, 'raw'][ci % 4])
    dt, alpha = float(rng.choice([0.005, 0.01])), float(rng.choice([0.5, 0.7]))
    params = _filter_params(rng)
    filters, ftok = _filters(E, grid, dt, stack, True, params)
    inp = dict(info, config=ci, grid=gname, integrator='leapfrog', filters=ftok, dt=dt, alpha=alpha, seed=ctx.seed, steps=K)
    key = 'probe:shallow-water:leapfrog'
    ctx.dist[f'probe-sw-grid={gname}'] += 1
    ctx.dist[f'probe-sw-filters={"+".join(stack) or "none"}'] += 1
    J = jnp.asarray
    with ctx.impl(key + ':raises', inp):
      z1, d1, p1 = z * 1.01, d * 0.99, p + 0.02 * rng.standard_normal(p.shape) * keep
      p1[:, 0, 0] = p[:, 0, 0]
      u = (E.sw.State(J(z), J(d), J(p)), E.sw.State(J(z1), J(d1), J(p1)))
      step = jax.jit(ti.step_with_filters(ti.semi_implicit_leapfrog(eq, dt, alpha), filters))
      p00 = p[:, 0, 0].copy()
      pscale = float(np.abs(p).max())
      ra = 'ra' in stack
      ctx.dist['probe-runs'] += 1
      ctx.dist['probe-steps-planned'] += K
      for k in range(1, K + 1):
        u = step(u)
        lv = _np_leaves(u[1])
        if not all(np.isfinite(v).all() for v in lv.values()):
          ctx.notes.append(f'{key} on {gname}: non-finite state at step {k}; run abandoned (counted in probe-coverage)')
          ctx.dist['probe-abandoned-nonfinite'] += 1
          break
        ctx.dist['probe-steps-checked'] += 1
        sinp = dict(inp, step=k)
        ctx.case((key, ci, k, ctx.seed), nontrivial=True)
        worst_off = max(_off(v, keep) for v in lv.values())
        ctx.expect(worst_off == 0.0, key + ':mask', f'coefficients outside the mask / at the clipped wavenumber are not '
                   f'exactly zero after step {k}: max |c| = {worst_off:.3e}', sinp)
        m00 = max(float(np.abs(lv[f][:, 0, 0]).max()) for f in ('vorticity', 'divergence'))
        ctx.expect(m00 == 0.0, key + ':zeta-delta00', f'(zeta, delta)_00 = {m00:.3e} after step {k} (zero initially)', sinp)
        dp = float(np.abs(lv['potential'][:, 0, 0] - p00).max())
        if ra:
          ctx.expect(dp <= DRIFT_TOL * k * pscale, key + ':phi00', f'phi_00 changed by {dp:.3e} after step {k}', sinp)
        else:
          ctx.expect(dp == 0.0, key + ':phi00', f'phi_00 changed by {dp:.3e} after step {k} (exact without '
                     f'Robert-Asselin)', sinp)


# --------------------------------------------------------------------------


def run(ctx: common.Ctx):
  import sys
  import time
  t_last = [time.time()]

  def lap(label):
    if os.environ.get('C11_TIMING'):
      now = time.time()
      print(f'[C11 timing] {label}: {now - t_last[0]:.1f}s', file=sys.stderr)
      t_last[0] = now

  E = _Env()
  lap('jax setup')
  cap = None
  try:
    cap, changed = tableaux.generate()
    ctx.obligation('translator:DinoGen.Tableaux', 'translator', True,
                   'regenerated (changed)' if changed else 'regenerated (unchanged)')
  except Exception as e:  # pylint: disable=broad-except
    ctx.obligation('translator:DinoGen.Tableaux', 'translator', False, f'{type(e).__name__}: {e}')
  ctx.lean('DinoProofs.Properties.C11', 'C11.txt',
           extra_files=LEMMA_FILES + ['Dino/Invariants.lean', 'Dino/InvariantsDrv.lean'],
           gen_targets=['DinoGen.Tableaux'])
  if not ctx.quick:
    ctx.leanchecker(['DinoProofs.Properties.C11'])
  lap('lean build + audit')
  cap = cap or {}
  ctx.notes.append(NOTE)
  ctx.assumptions.append('C11: horizontal operators enter the theorems through the named closure hypotheses OpsClosed / '
                         'Mean0 / Mode0 / IsLinearMap / div(uv)=delta, validated on the real Grid on every run (div(uv)=delta '
                         'on linear grids as well), with Mk = the modal mask on unpadded layouts and Mk = mask + first '
                         'padding column of the total-wavenumber axis on padded layouts (base_shape_multiple; with Mk = mask '
                         'OpsClosed.secLat_mem is false there: the raw sec_lat_d_dlat_cos2 writes into that column), S = mask '
                         'below the clipped wavenumber in both cases; on layouts with nodal padding N is the nodal values on '
                         'the real nodes (to_modal ignores the nodal padding: validated); device meshes (sharding) are C07\'s '
                         'differential; numpy.linalg.inv is external: the structural theorems hold for ANY '
                         'matrices with 2n+1 rows (InvShaped), (zeta,delta)_00 conservation needs the l = 0 matrix to be a '
                         'right inverse (Inv0Ok, validated to 1e-12); FilterOk is PROVED for filtering._make_filter_fn lifted '
                         'to the spectral carrier (filterPE / filterSW: any 1-D scaling for the clock and S, scalings equal to '
                         'one at l = 0 for the (0,0) coefficients: expScaling_zero for cutoff >= 0, diffScaling_zero for '
                         'order >= 1); the model trajectories compared with step_with_filters run exactly these filters; '
                         'the history theorems start from records with n levels carrying the tracer keys the class looks up '
                         '(moist: specific_humidity; cloud: + the two condensate keys)')
  _hypotheses(ctx, E)
  lap('hypotheses')
  _hyp_equations(ctx, E)
  lap('hyp equations')
  _corr_clock(ctx, E, cap)
  lap('corr clock')
  _corr_check(ctx, E)
  lap('corr check')
  _corr_sw(ctx, E)
  lap('corr sw')
  _corr_traj(ctx, E, cap)
  lap('corr traj')
  _probes(ctx, E, cap)
  lap('probes')
  _probes_sw(ctx, E)
  lap('probes sw')
  # review finding 8: a trajectory that becomes non-finite (random physical constants, dt not tuned) is abandoned; the
  # share of planned k-step coverage lost that way is an obligation with a ceiling, not a silent note
  planned, checked = ctx.dist['probe-steps-planned'], ctx.dist['probe-steps-checked']
  lost = 0.0 if planned == 0 else 1.0 - checked / planned
  ctx.obligation(f'probe-coverage: share of planned trajectory steps lost to abandoned (non-finite) runs <= {ABANDON_CEILING}',
                 'coverage', planned > 0 and lost <= ABANDON_CEILING,
                 f'{checked}/{planned} planned steps checked over {ctx.dist["probe-runs"]} runs; '
                 f'{ctx.dist["probe-abandoned-nonfinite"]} runs abandoned; lost share {lost:.3f}')
  return ctx.finish(RULE)
